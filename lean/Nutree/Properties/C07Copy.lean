/-
  C07 (copies) — Copies are faithful to the source, keep the state well-formed, are refused
  atomically, and are independent of the source.
  Property theorems only; helper lemmas live in Nutree/Lemmas/Copy*.lean.

  Vocabulary (all defined in Nutree/Lemmas/Copy.lean):
  * `Src s`            the source forest has sibling-unique data ids at every level;
  * `relabelL typed next s`  the source forest rebuilt with fresh identities `next, next+1, …`
                       assigned in creation order (pre-order), the same data objects and data ids,
                       kinds normalised by `normKind typed` (typed tree: `some (k.getD "child")`,
                       plain tree: `none`), no metadata;
  * `normKindsL typed s`     the source forest with only the kinds normalised;
  * `KindsOK typed s`        the kinds of `s` already are what a tree of class `typed` stores
                       (then `normKindsL typed s = s`).
-/
import Nutree.Model.Ops
import Nutree.Model.World
import Nutree.Spec.WF
import Nutree.Properties.C01
import Nutree.Lemmas.Copy
import Nutree.Lemmas.CopyNode
import Nutree.Lemmas.CopyTree
namespace Nutree.C07
open Nutree T Nutree.Flt.Spec Nutree.C01

/-! ### `_add_from` -/

/-- **`_add_from` as an equation** (general form: the target may already have children, provided
none of them carries the data id of a top-level source node).  `_add_from` never fails half-way,
consumes exactly `sizeL src` identities, keeps the state well-formed and the counter fresh, and
the new tree value is the old one with `relabelL t.typed next src` appended to the children of
`target`; `byId` grows by the new identities in creation order; class, hook and the `None`-flag
of the root are untouched. -/
theorem addFromL_eq (t : Tree) (next target : NodeId) (src : List T) (tg : T) (h : WF t) (hf : Fresh t next)
    (htg : findT target t.root = some tg) (hdis : ∀ k ∈ tg.kids, ∀ s ∈ src, k.did ≠ s.did) (hs : Src src) :
    ∃ t', t.addFromL next target src = (t', next + sizeL src, none) ∧ WF t' ∧ Fresh t' (next + sizeL src) ∧
      t'.root = modT target (fun l => l ++ relabelL t.typed next src) t.root ∧
      t'.byId = t.byId ++ List.range' next (sizeL src) ∧
      t'.typed = t.typed ∧ t'.hook = t.hook ∧ t'.rootNone = t.rootNone := by
  have r := addFromL_spec src t next target tg h hf htg hdis hs
  refine ⟨(t.addFromL next target src).1, ?_, r.wf, r.fresh, r.root, ?_, r.typed, r.hook, r.rootNone⟩
  · rw [← r.nextEq, ← r.err]
  · rw [r.byId, ids_relabelL]

/-- `_add_from` below a node without children: the exact equation
`t'.root = modT target (fun _ => relabelL t.typed next src) t.root`. -/
theorem addFromL_root (t : Tree) (next target : NodeId) (src : List T) (tg : T) (h : WF t) (hf : Fresh t next)
    (htg : findT target t.root = some tg) (hleaf : tg.kids = []) (hs : Src src) :
    ∃ t', t.addFromL next target src = (t', next + sizeL src, none) ∧
      t'.root = modT target (fun _ => relabelL t.typed next src) t.root := by
  obtain ⟨t', hr, _, _, hroot, _⟩ := addFromL_eq t next target src tg h hf htg (by rw [hleaf]; intro k hk; cases hk) hs
  refine ⟨t', hr, ?_⟩
  rw [hroot]
  exact modT_congr_of h.idsN htg (by rw [hleaf]; rfl)

/-- `_add_from` never fails half-way and preserves WF: copying a sibling-unique forest below a
node that has no children.  (No condition on kinds is needed; the counter advances by the number
of source nodes.) -/
theorem addFromL_ok (t : Tree) (next target : NodeId) (src : List T) (tg : T) (h : WF t) (hf : Fresh t next)
    (htg : findT target t.root = some tg) (hleaf : tg.kids = []) (hs : Src src) :
    ∃ t' next', t.addFromL next target src = (t', next', none) ∧ WF t' ∧ Fresh t' next' ∧ next ≤ next' ∧
      next' = next + sizeL src := by
  obtain ⟨t', hr, hwf, hfr, _⟩ := addFromL_eq t next target src tg h hf htg (by rw [hleaf]; intro k hk; cases hk) hs
  exact ⟨t', _, hr, hwf, hfr, Nat.le_add_right _ _, rfl⟩

/-- **faithful (C07)**: after `_add_from` below the leaf `target`
* the target keeps its record and its children are exactly `relabelL t.typed next src`: position by
  position the source forest — same shape, same data objects (even the same atoms, not only the same
  object identity), same data ids, kinds normalised to the class of the target tree
  (`shL … = shL (normKindsL t.typed src)`; if the source's kinds already fit the class, in particular
  for a copy between trees of the same class with consistent kinds, `shL … = shL src`);
* all new nodes have fresh identities in `[next, next')`;
* frame: every node `m` present before is still found, with the same record; if `m ≠ target` its
  children have the same identities in the same order; and unless `m` is the target or one of its
  ancestors the node is literally unchanged (same value, so the same whole branch). -/
theorem addFromL_faithful (t : Tree) (next target : NodeId) (src : List T) (tg : T) (h : WF t) (hf : Fresh t next)
    (htg : findT target t.root = some tg) (hleaf : tg.kids = []) (hs : Src src)
    (t' : Tree) (next' : NodeId) (hr : t.addFromL next target src = (t', next', none)) :
    ∃ tg', findT target t'.root = some tg' ∧ tg'.info = tg.info ∧ tg'.kids = relabelL t.typed next src ∧
      shL tg'.kids = shL (normKindsL t.typed src) ∧
      (KindsOK t.typed src → shL tg'.kids = shL src) ∧
      (flatL tg'.kids).map (fun x => (x.data, x.did)) = (flatL src).map (fun x => (x.data, x.did)) ∧
      (∀ y ∈ flatL tg'.kids, next ≤ y.id ∧ y.id < next') ∧
      (∀ m y, findT m t.root = some y → ∃ y', findT m t'.root = some y' ∧ y'.info = y.info ∧
        (m ≠ target → y'.kids.map T.id = y.kids.map T.id) ∧
        (target ∉ (flat y).map T.id → y' = y)) := by
  obtain ⟨t'', hr', hwf, _, hroot, _⟩ :=
    addFromL_eq t next target src tg h hf htg (by rw [hleaf]; intro k hk; cases hk) hs
  rw [hr] at hr'
  cases hr'
  have hN' : C10.IdsNodup (modT target (fun l => l ++ relabelL t.typed next src) t.root) := hroot ▸ hwf.idsN
  refine ⟨.node tg.info (relabelL t.typed next src), ?_, rfl, rfl, shL_relabelL _ _ _,
    fun hk => shL_relabelL_of_ok hk _, flatL_data_relabelL _ _ _, fun y hy => relabelL_id_bounds hy, ?_⟩
  · rw [hroot, findT_modT_self_of htg, hleaf]; rfl
  · intro m y hy
    refine ⟨modT target (fun l => l ++ relabelL t.typed next src) y, ?_, modT_info _ _ _, ?_, fun hn => modT_of_not_mem hn⟩
    · rw [hroot]; exact findT_modT_append h.idsN hN' hy
    · intro hm
      exact modT_kids_map_id (by rw [findT_some_id hy]; exact hm)

/-- the nodes of the tree after `_add_from` are the old ones and the copies, nothing else:
`byId` (= the identities of all reachable nodes, by `WF`) is the old registry followed by
`next, …, next' - 1`. -/
theorem addFromL_nodes (t : Tree) (next target : NodeId) (src : List T) (tg : T) (h : WF t) (hf : Fresh t next)
    (htg : findT target t.root = some tg) (hleaf : tg.kids = []) (hs : Src src)
    (t' : Tree) (next' : NodeId) (hr : t.addFromL next target src = (t', next', none)) :
    t'.byId = t.byId ++ List.range' next (sizeL src) ∧ t'.typed = t.typed ∧ t'.hook = t.hook := by
  obtain ⟨t'', hr', _, _, _, hb, hty, hh, _⟩ :=
    addFromL_eq t next target src tg h hf htg (by rw [hleaf]; intro k hk; cases hk) hs
  rw [hr] at hr'
  cases hr'
  exact ⟨hb, hty, hh⟩

/-! ### `add_child(node, deep=±)` -/

/-- `add_child(node, deep ±)`: preserves WF and freshness of the counter; the counter never
decreases; refusals are atomic (the old state and the old counter are returned).  In particular the
deep copy below the new node never fails half-way. -/
theorem addNode_WF (t : Tree) (next parent : NodeId) (src : T) (inThis : Bool) (srcParent : Option NodeId)
    (before : Before) (deep : Option Bool) (did? : Option DataId) (kind : Option String)
    (h : WF t) (hf : Fresh t next) (hs : Src [src]) :
    let r := t.addNode next parent src inThis srcParent before deep did? kind
    WF r.1 ∧ Fresh r.1 r.2.1 ∧ next ≤ r.2.1 ∧ (r.2.2.isSome → r.1 = t ∧ r.2.1 = next) := by
  intro r
  rcases addNode_cases t next parent src inThis srcParent before deep did? kind with ⟨e, he⟩ | ⟨t1, hadd, _, hr⟩
  · have hre : r = (t, next, some e) := he
    rw [hre]
    exact ⟨h, hf, Nat.le_refl _, fun _ => ⟨rfl, rfl⟩⟩
  · obtain ⟨p, _, res⟩ := addNode_res_of_addData (deep.getD false) h hf (Src.singleton_iff.1 hs) hadd
    have hre : r = (if deep.getD false then t1.addFromL (next + 1) next src.kids else (t1, next + 1, none)) := hr
    rw [← hre] at res
    refine ⟨res.wf, by rw [res.nextEq]; exact res.fresh, by rw [res.nextEq]; exact Nat.le_add_right _ _, ?_⟩
    intro hsome
    rw [res.err] at hsome
    cases hsome

/-- **`add_child(node)` is faithful.**  If the call succeeds then the parent `p` existed, `before`
was accepted (`ins`), and the new tree value is the old one with one node `c` inserted among the
children of `parent` at the designated position (`t'.root = modT parent (fun l => ins l c) t.root`,
so everything else is untouched).  The new node `c = copyNode …` has identity `next`, the source's
data object, the data id `did?.getD src.did`, kind `normKind t.typed kind` (the *requested* kind,
default `"child"` in a typed tree, not the source's kind), no children for a shallow copy and for a
deep copy the relabelled source children: same shape, data objects, data ids, kinds normalised to
the class of the target tree.  The counter advances by the number of nodes created. -/
theorem addNode_faithful (t : Tree) (next parent : NodeId) (src : T) (inThis : Bool) (srcParent : Option NodeId)
    (before : Before) (deep : Option Bool) (did? : Option DataId) (kind : Option String)
    (h : WF t) (hf : Fresh t next) (hs : Src [src])
    (hr : (t.addNode next parent src inThis srcParent before deep did? kind).2.2 = none) :
    ∃ p ins c, findT parent t.root = some p ∧
      insertPosition p.kids (t.childrenNone parent p) before = .ok ins ∧
      (t.addNode next parent src inThis srcParent before deep did? kind).1.root = modT parent (fun l => ins l c) t.root ∧
      (t.addNode next parent src inThis srcParent before deep did? kind).2.1 = next + size c ∧
      findT parent (t.addNode next parent src inThis srcParent before deep did? kind).1.root
        = some (.node p.info (ins p.kids c)) ∧
      findT next (t.addNode next parent src inThis srcParent before deep did? kind).1.root = some c ∧
      c = copyNode t.typed next src (did?.getD src.did) kind (deep.getD false) ∧
      c.id = next ∧ c.data = src.data ∧ c.did = did?.getD src.did ∧ c.kind = normKind t.typed kind ∧
      (deep.getD false = true → did? = none ∧ c.kids = relabelL t.typed (next + 1) src.kids ∧
        shL c.kids = shL (normKindsL t.typed src.kids) ∧
        (KindsOK t.typed src.kids → shL c.kids = shL src.kids) ∧
        (∀ y ∈ flatL c.kids, next < y.id ∧ y.id < next + size c)) ∧
      (deep.getD false = false → c.kids = []) := by
  rcases addNode_cases t next parent src inThis srcParent before deep did? kind with ⟨e, he⟩ | ⟨t1, hadd, hdd, hre⟩
  · rw [he] at hr; cases hr
  · obtain ⟨p, hp, res⟩ := addNode_res_of_addData (deep.getD false) h hf (Src.singleton_iff.1 hs) hadd
    rw [← hre] at res
    obtain ⟨ins, hins, hroot⟩ := res.root
    have hN' := res.wf.idsN
    refine ⟨p, ins, _, hp, hins, hroot, res.nextEq, ?_, ?_, rfl, rfl, rfl, rfl, rfl, ?_, ?_⟩
    · rw [hroot]; exact findT_modT_self_of hp
    · refine (findT_eq_some_iff hN').2 ⟨?_, rfl⟩
      rw [hroot]
      refine mem_flat_modT_new hp (mem_flatL.2 ⟨_, ?_, self_mem_flat _⟩)
      exact ((insertPosition_perm hins _ _).mem_iff).2 (by simp)
    · intro hd
      have hk : (copyNode t.typed next src (did?.getD src.did) kind (deep.getD false)).kids =
          relabelL t.typed (next + 1) src.kids := by
        unfold copyNode; rw [hd]; rfl
      refine ⟨hdd hd, hk, by rw [hk]; exact shL_relabelL _ _ _, fun hok => by rw [hk]; exact shL_relabelL_of_ok hok _, ?_⟩
      intro y hy
      rw [hk] at hy
      obtain ⟨h1, h2⟩ := relabelL_id_bounds hy
      refine ⟨h1, ?_⟩
      rw [copyNode_size, hd, if_pos rfl, size_eq, ← Nat.add_assoc]
      exact h2
    · intro hd
      unfold copyNode; rw [hd]; rfl

/-! ### `add_child(tree)` / `copy_to(add_self=False)` -/

/-- `add_child(tree)` / `copy_to(add_self=False)`: all-or-nothing (a refusal — unknown parent,
collision with an existing child, a `before` node that is not a child — returns the old state and
counter; in particular a collision is refused before anything is added), WF and freshness are
preserved, the counter never decreases. -/
theorem addTree_WF (t : Tree) (next parent : NodeId) (tops : List T) (before : Before) (deep : Option Bool)
    (keepKind : Bool) (h : WF t) (hf : Fresh t next) (hs : Src tops) :
    let r := t.addTree next parent tops before deep keepKind
    WF r.1 ∧ Fresh r.1 r.2.1 ∧ next ≤ r.2.1 ∧ (r.2.2.isSome → r.1 = t ∧ r.2.1 = next) := by
  intro r
  rcases addTree_spec t next parent tops before deep keepKind h hf hs with ⟨e, he⟩ | ⟨p, t', _, _, hr, hwf, hfr, _⟩
  · have hre : r = (t, next, some e) := he
    rw [hre]
    exact ⟨h, hf, Nat.le_refl _, fun _ => ⟨rfl, rfl⟩⟩
  · have hre : r = (t', _, none) := hr
    rw [hre]
    exact ⟨hwf, hfr, Nat.le_add_right _ _, fun hsome => by cases hsome⟩

/-- a collision with an existing child of the target is refused with the uniqueness error before
anything is added. -/
theorem addTree_collision (t : Tree) (next parent : NodeId) (tops : List T) (before : Before) (deep : Option Bool)
    (keepKind : Bool) (p : T) (hp : findT parent t.root = some p)
    (hc : ∃ s ∈ tops, ∃ k ∈ p.kids, k.did = s.did) :
    t.addTree next parent tops before deep keepKind = (t, next, some .unique) := by
  obtain ⟨s, hs, k, hk, hks⟩ := hc
  rw [addTree_eq, hp]
  simp only
  rw [if_pos]
  exact List.any_eq_true.2 ⟨s, hs, List.any_eq_true.2 ⟨k, hk, by simpa using hks⟩⟩

/-- `add_child(tree)` succeeds whenever the parent exists, no child of it carries the data id of a
top node, and a `before` node (if given) is one of the children: the loop never fails half-way. -/
theorem addTree_succeeds (t : Tree) (next parent : NodeId) (tops : List T) (before : Before) (deep : Option Bool)
    (keepKind : Bool) (p : T) (h : WF t) (hf : Fresh t next) (hs : Src tops)
    (hp : findT parent t.root = some p) (hdis : ∀ k ∈ p.kids, ∀ s ∈ tops, k.did ≠ s.did)
    (hb : BeforeOK p.kids before) :
    (t.addTree next parent tops before deep keepKind).2.2 = none := by
  obtain ⟨t', hfold, _⟩ :=
    addTree_loop parent before (addTreeStart p.kids.length before) (deep.getD true) keepKind tops t next p
      (p.kids.take (splitPos p.kids before)) [] (p.kids.drop (splitPos p.kids before)) h hf hp
      (by rw [List.append_nil, List.take_append_drop]) (posInv_init p.kids before hb) hdis hs
  have hfold' : (tops.zipIdx).foldl
      (addTreeStep parent (addTreeStart p.kids.length before) before (deep.getD true) keepKind) (t, next, none) =
      (t', next + sizeL (copiesL t.typed (deep.getD true) keepKind next tops), none) := hfold
  rw [addTree_eq, hp]
  simp only
  rw [if_neg, hfold']
  intro hany
  obtain ⟨s, hs', hk⟩ := List.any_eq_true.1 hany
  obtain ⟨k, hk', hks⟩ := List.any_eq_true.1 hk
  exact hdis k hk' s hs' (by simpa using hks)

/-- **order preserved for every `before`.**  After a successful `add_child(tree)` / `copy_to` the
parent's children are `pre ++ newKids ++ post` where `pre ++ post` is the old child list (split at
`splitPos p.kids before`: the end for `None`/`False`, 0 for `True`, the clamped index for an `int`,
the position of the `before` node), so the old children keep their relative order, and `newKids` are
exactly the copies of `tops` in the SAME order, contiguous (`copiesL`: one `copyNode` per top node,
identities in creation order; their data objects and data ids are those of `tops`, position by
position).  Everything outside the parent's child list is untouched (`modT`). -/
theorem addTree_order (t : Tree) (next parent : NodeId) (tops : List T) (before : Before) (deep : Option Bool)
    (keepKind : Bool) (p : T) (h : WF t) (hf : Fresh t next) (hs : Src tops) (hp : findT parent t.root = some p)
    (hr : (t.addTree next parent tops before deep keepKind).2.2 = none) :
    ∃ p', findT parent (t.addTree next parent tops before deep keepKind).1.root = some p' ∧ p'.info = p.info ∧
      ∃ pre post newKids, p.kids = pre ++ post ∧ p'.kids = pre ++ newKids ++ post ∧
        pre = p.kids.take (splitPos p.kids before) ∧ post = p.kids.drop (splitPos p.kids before) ∧
        newKids = copiesL t.typed (deep.getD true) keepKind next tops ∧
        newKids.map (fun c => (c.data, c.did)) = tops.map (fun s => (s.data, s.did)) ∧
        newKids.length = tops.length ∧
        (t.addTree next parent tops before deep keepKind).1.root = modT parent (fun _ => pre ++ newKids ++ post) t.root := by
  rcases addTree_spec t next parent tops before deep keepKind h hf hs with ⟨e, he⟩ | ⟨p0, t', hp0, _, hres, _, _, hroot, _⟩
  · rw [he] at hr; cases hr
  · rw [hp] at hp0
    cases hp0
    rw [hres]
    refine ⟨.node p.info (p.kids.take (splitPos p.kids before) ++ copiesL t.typed (deep.getD true) keepKind next tops ++
      p.kids.drop (splitPos p.kids before)), ?_, rfl, _, _, _, (List.take_append_drop _ _).symm, rfl, rfl, rfl, rfl,
      copiesL_map_data_did _ _ _ _ _, copiesL_length _ _ _ _ _, hroot⟩
    show findT parent t'.root = _
    rw [hroot]; exact findT_modT_self_of hp

/-- `add_child(tree)` with the defaults of `Tree.add_child(tree)` (deep, kinds kept): the new
children are `relabelL t.typed next tops` — the source forest with fresh identities; same shape, data
objects and data ids, kinds normalised to the class of the target (unchanged if they fit it). -/
theorem addTree_deep_faithful (t : Tree) (next parent : NodeId) (tops : List T) (before : Before) (p : T)
    (h : WF t) (hf : Fresh t next) (hs : Src tops) (hp : findT parent t.root = some p)
    (hr : (t.addTree next parent tops before (some true) true).2.2 = none) :
    ∃ p', findT parent (t.addTree next parent tops before (some true) true).1.root = some p' ∧
      p'.kids = p.kids.take (splitPos p.kids before) ++ relabelL t.typed next tops ++ p.kids.drop (splitPos p.kids before) ∧
      shL (relabelL t.typed next tops) = shL (normKindsL t.typed tops) ∧
      (KindsOK t.typed tops → shL (relabelL t.typed next tops) = shL tops) ∧
      (∀ y ∈ flatL (relabelL t.typed next tops), next ≤ y.id ∧ y.id < next + sizeL tops) ∧
      (t.addTree next parent tops before (some true) true).2.1 = next + sizeL tops := by
  obtain ⟨p', hp', _, pre, post, newKids, _, hk, hpre, hpost, hnew, _, _, _⟩ :=
    addTree_order t next parent tops before (some true) true p h hf hs hp hr
  have hnew' : newKids = relabelL t.typed next tops := by
    rw [hnew]; exact copiesL_deep_keep _ _ _
  refine ⟨p', hp', by rw [hk, hpre, hpost, hnew'], shL_relabelL _ _ _, fun hok => shL_relabelL_of_ok hok _,
    fun y hy => relabelL_id_bounds hy, ?_⟩
  rcases addTree_spec t next parent tops before (some true) true h hf hs with ⟨e, he⟩ | ⟨_, _, _, _, hres, _⟩
  · rw [he] at hr; cases hr
  · rw [hres]
    show next + sizeL (copiesL t.typed true true next tops) = _
    rw [copiesL_deep_keep, sizeL_relabelL]

/-- `copy_to(add_self=False)` (`Tree.copyKids`): refused with `ValueError` for a source without
children, otherwise `add_child(tree)` appending the copies with default kinds; all-or-nothing, WF. -/
theorem copyKids_WF (t : Tree) (next parent : NodeId) (srcKids : List T) (deep : Bool)
    (h : WF t) (hf : Fresh t next) (hs : Src srcKids) :
    let r := t.copyKids next parent srcKids deep
    WF r.1 ∧ Fresh r.1 r.2.1 ∧ next ≤ r.2.1 ∧ (r.2.2.isSome → r.1 = t ∧ r.2.1 = next) := by
  intro r
  by_cases he : srcKids.isEmpty = true
  · have hre : r = (t, next, some .value) := by
      show t.copyKids next parent srcKids deep = _
      unfold Tree.copyKids; rw [if_pos he]
    rw [hre]
    exact ⟨h, hf, Nat.le_refl _, fun _ => ⟨rfl, rfl⟩⟩
  · have hre : r = t.addTree next parent srcKids .none (some deep) false := by
      show t.copyKids next parent srcKids deep = _
      unfold Tree.copyKids; rw [if_neg he]
    rw [hre]
    exact addTree_WF t next parent srcKids .none (some deep) false h hf hs

/-- `copy_to(add_self=False)`: on success the copies are appended, in source order, after the old
children of the target. -/
theorem copyKids_order (t : Tree) (next parent : NodeId) (srcKids : List T) (deep : Bool) (p : T)
    (h : WF t) (hf : Fresh t next) (hs : Src srcKids) (hp : findT parent t.root = some p)
    (hr : (t.copyKids next parent srcKids deep).2.2 = none) :
    ∃ p', findT parent (t.copyKids next parent srcKids deep).1.root = some p' ∧ p'.info = p.info ∧
      p'.kids = p.kids ++ copiesL t.typed deep false next srcKids ∧
      (copiesL t.typed deep false next srcKids).map (fun c => (c.data, c.did)) = srcKids.map (fun s => (s.data, s.did)) := by
  have he : ¬ srcKids.isEmpty = true := by
    intro he
    unfold Tree.copyKids at hr
    rw [if_pos he] at hr
    cases hr
  have hre : t.copyKids next parent srcKids deep = t.addTree next parent srcKids .none (some deep) false := by
    unfold Tree.copyKids; rw [if_neg he]
  rw [hre] at hr ⊢
  obtain ⟨p', hp', hinfo, pre, post, newKids, _, hk, hpre, hpost, hnew, hmap, _, _⟩ :=
    addTree_order t next parent srcKids .none (some deep) false p h hf hs hp hr
  have hnew' : newKids = copiesL t.typed deep false next srcKids := hnew
  refine ⟨p', hp', hinfo, ?_, by rw [← hnew']; exact hmap⟩
  rw [hk, hpre, hpost, hnew']
  simp [splitPos]

/-! ### copies into a new tree -/

/-- **`Tree.copy()` is faithful.**  It never fails on a well-formed source; the new tree is
well-formed, of the same class, without id hook, and its forest is exactly
`relabelL src.typed next src.root.kids`: the shape, data objects, data ids of the source, kinds
normalised to the class (unchanged if the source's kinds fit its class: `KindsOK`), all nodes new
(identities `next, next+1, …` in pre-order, which is also the registration order `byId`). -/
theorem copyAll_faithful (src : Tree) (next : NodeId) (h : WF src) (hn : 0 < next) :
    ∃ t', src.copyAll next = (t', next + sizeL src.root.kids, none) ∧ WF t' ∧
      Fresh t' (next + sizeL src.root.kids) ∧
      t'.root = mkRoot (relabelL src.typed next src.root.kids) ∧
      shL t'.root.kids = shL (normKindsL src.typed src.root.kids) ∧
      (KindsOK src.typed src.root.kids → shL t'.root.kids = shL src.root.kids) ∧
      (flatL t'.root.kids).map (fun x => (x.data, x.did)) = (flatL src.root.kids).map (fun x => (x.data, x.did)) ∧
      t'.typed = src.typed ∧ t'.hook = none ∧
      t'.byId = List.range' next (sizeL src.root.kids) ∧
      (∀ y ∈ flatL t'.root.kids, next ≤ y.id ∧ y.id < next + sizeL src.root.kids) := by
  obtain ⟨t', hr, hwf, hfr, hroot, hbyId, hty, hhook, _⟩ :=
    addFromL_eq { typed := src.typed } next 0 src.root.kids (mkRoot []) (WF_newTree _) (fresh_newTree _ hn)
      (findT_newTree _) (by intro k hk; simp [mkRoot] at hk) (h.src_kids (self_mem_flat _))
  have hroot' : t'.root = mkRoot (relabelL src.typed next src.root.kids) := by
    rw [hroot]
    show modT 0 _ (mkRoot []) = _
    rw [modT_mkRoot]; rfl
  have hkids : t'.root.kids = relabelL src.typed next src.root.kids := by rw [hroot']; rfl
  refine ⟨t', hr, hwf, hfr, hroot', ?_, ?_, ?_, hty, hhook, ?_, ?_⟩
  · rw [hkids]; exact shL_relabelL _ _ _
  · intro hok; rw [hkids]; exact shL_relabelL_of_ok hok _
  · rw [hkids]; exact flatL_data_relabelL _ _ _
  · rw [hbyId]; rfl
  · intro y hy; rw [hkids] at hy; exact relabelL_id_bounds hy

/-- **`Node.copy(add_self=False)` is faithful**: as `Tree.copy()`, for the children of the node
`n`. -/
theorem copyBranch_faithful (src : Tree) (next : NodeId) (n : T) (h : WF src) (hn : 0 < next)
    (hmem : n ∈ T.flat src.root) :
    ∃ t', src.copyBranch next n false = (t', next + sizeL n.kids, none) ∧ WF t' ∧
      Fresh t' (next + sizeL n.kids) ∧
      t'.root = mkRoot (relabelL src.typed next n.kids) ∧
      shL t'.root.kids = shL (normKindsL src.typed n.kids) ∧
      (KindsOK src.typed n.kids → shL t'.root.kids = shL n.kids) ∧
      (flatL t'.root.kids).map (fun x => (x.data, x.did)) = (flatL n.kids).map (fun x => (x.data, x.did)) ∧
      t'.typed = src.typed ∧ t'.hook = none ∧
      (∀ y ∈ flatL t'.root.kids, next ≤ y.id ∧ y.id < next + sizeL n.kids) := by
  obtain ⟨t', hr, hwf, hfr, hroot, _, hty, hhook, _⟩ :=
    addFromL_eq { typed := src.typed } next 0 n.kids (mkRoot []) (WF_newTree _) (fresh_newTree _ hn)
      (findT_newTree _) (by intro k hk; simp [mkRoot] at hk) (h.src_kids hmem)
  have hroot' : t'.root = mkRoot (relabelL src.typed next n.kids) := by
    rw [hroot]
    show modT 0 _ (mkRoot []) = _
    rw [modT_mkRoot]; rfl
  have hkids : t'.root.kids = relabelL src.typed next n.kids := by rw [hroot']; rfl
  refine ⟨t', hr, hwf, hfr, hroot', ?_, ?_, ?_, hty, hhook, ?_⟩
  · rw [hkids]; exact shL_relabelL _ _ _
  · intro hok; rw [hkids]; exact shL_relabelL_of_ok hok _
  · rw [hkids]; exact flatL_data_relabelL _ _ _
  · intro y hy; rw [hkids] at hy; exact relabelL_id_bounds hy

/-- **`Node.copy(add_self=True)` is faithful**: the new tree has one top node, the copy of `n`
(identity `next`, same data object and data id, kind `normKind src.typed none`: the DEFAULT kind in
a typed tree, not `n`'s kind — `add_child(node)` is called without `kind=`), below it the relabelled
children of `n`. -/
theorem copyBranch_self_faithful (src : Tree) (next : NodeId) (n : T) (h : WF src) (hn : 0 < next)
    (hmem : n ∈ T.flat src.root) :
    ∃ t', src.copyBranch next n true = (t', next + size n, none) ∧ WF t' ∧ Fresh t' (next + size n) ∧
      t'.root = mkRoot [copyNode src.typed next n n.did none true] ∧
      t'.typed = src.typed ∧ t'.hook = none ∧
      (∀ c, t'.root.kids = [c] → c.id = next ∧ c.data = n.data ∧ c.did = n.did ∧ c.kind = normKind src.typed none ∧
        c.kids = relabelL src.typed (next + 1) n.kids ∧
        shL c.kids = shL (normKindsL src.typed n.kids) ∧
        (KindsOK src.typed n.kids → shL c.kids = shL n.kids)) ∧
      (∀ y ∈ flatL t'.root.kids, next ≤ y.id ∧ y.id < next + size n) := by
  have hwf0 := WF_newTree src.typed
  have hf0 := fresh_newTree src.typed hn
  obtain ⟨t1, hadd⟩ := addData_succeeds (t := { typed := src.typed }) (next := next) (a := n.data) (did := n.did)
    (kind := normKind src.typed none) hwf0 (findT_newTree _) (insertPosition_none _ _) (by intro k hk; simp [mkRoot] at hk)
  obtain ⟨p, hp, res⟩ := addNode_res_of_addData (t := { typed := src.typed }) (src := n) (kind := none) true hwf0 hf0
    (h.srcT hmem) hadd
  have hp0 : p = mkRoot [] := by
    have := (findT_newTree src.typed).symm.trans hp
    exact (Option.some.inj this).symm
  subst hp0
  have hcall : src.copyBranch next n true = t1.addFromL (next + 1) next n.kids := by
    unfold Tree.copyBranch
    simp only [if_true]
    rw [addNode_plain]
    simp only [hadd, if_true]
  simp only [if_true] at res
  rw [← hcall] at res
  have hsz : size (copyNode src.typed next n n.did none true) = size n := by rw [copyNode_size, if_pos rfl]
  obtain ⟨ins, hins, hroot⟩ := res.root
  rw [insertPosition_none] at hins
  cases hins
  have hroot' : (src.copyBranch next n true).1.root = mkRoot [copyNode src.typed next n n.did none true] := by
    rw [hroot]
    show modT 0 _ (mkRoot []) = _
    rw [modT_mkRoot]; rfl
  refine ⟨(src.copyBranch next n true).1, ?_, res.wf, by rw [← hsz]; exact res.fresh, hroot', res.typed, res.hook, ?_, ?_⟩
  · have h1 := res.err
    have h2 := res.nextEq
    rw [hsz] at h2
    rw [← h1, ← h2]
  · intro c hc
    rw [hroot'] at hc
    have : c = copyNode src.typed next n n.did none true := by
      have : [copyNode src.typed next n n.did none true] = [c] := hc
      exact (List.head_eq_of_cons_eq this).symm
    subst this
    refine ⟨rfl, rfl, rfl, rfl, rfl, shL_relabelL _ _ _, fun hok => shL_relabelL_of_ok hok _⟩
  · intro y hy
    have hy' : y.id ∈ (flat (src.copyBranch next n true).1.root).map T.id :=
      mem_ids.2 ⟨y, mem_flat_of_mem_flatL_kids hy, rfl⟩
    rw [hroot'] at hy
    have hyy : y ∈ flat (copyNode src.typed next n n.did none true) := by
      simpa [mkRoot] using hy
    rw [flat_eq, List.mem_cons] at hyy
    rcases hyy with rfl | hyy
    · exact ⟨Nat.le_refl _, Nat.lt_add_of_pos_right (by rw [size_eq]; exact Nat.lt_of_lt_of_le Nat.zero_lt_one (Nat.le_add_right _ _))⟩
    · have hk : (copyNode src.typed next n n.did none true).kids = relabelL src.typed (next + 1) n.kids := rfl
      rw [hk] at hyy
      obtain ⟨h1, h2⟩ := relabelL_id_bounds hyy
      refine ⟨Nat.le_of_succ_le h1, ?_⟩
      rw [size_eq, ← Nat.add_assoc]; exact h2

/-! ### independence across the trees of a world -/

/-- independence (frame across trees): an operation on tree `i` leaves every other tree of the
world unchanged.  `Op.target op` is the index of the tree that `step` may replace (`none` for the
operations that only append a new tree: `newTree`, `copyAll`, `copyBranch`, `filtered`, and for the
always-refused `moveCross`). -/
theorem step_other_trees (w : World) (op : Op) (j : Nat) (tj : Tree) (hj : w.trees[j]? = some tj)
    (hne : op.target ≠ some j) : (w.step op).1.trees[j]? = some tj := by
  cases op with
  | newTree typed hook => exact World.append_other hj
  | add i parent a before did kind =>
    have hij : i ≠ j := fun e => hne (by rw [e]; rfl)
    simp only [World.step]
    split
    · exact hj
    · split
      · exact (List.getElem?_set_ne hij).trans hj
      · exact hj
  | addNode i parent si src before deep did kind =>
    have hij : i ≠ j := fun e => hne (by rw [e]; rfl)
    simp only [World.step]
    split
    · split
      · exact hj
      · exact (World.put_other hij).trans hj
    · exact hj
  | addTree i parent si before deep =>
    have hij : i ≠ j := fun e => hne (by rw [e]; rfl)
    simp only [World.step]
    split
    · exact (World.put_other hij).trans hj
    · exact hj
  | copyKids i parent si src deep =>
    have hij : i ≠ j := fun e => hne (by rw [e]; rfl)
    simp only [World.step]
    split
    · split
      · exact hj
      · exact (World.put_other hij).trans hj
    · exact hj
  | copyAll si =>
    simp only [World.step]
    split
    · exact hj
    · exact World.push_other hj
  | copyBranch si src addSelf =>
    simp only [World.step]
    split
    · exact hj
    · split
      · exact hj
      · exact World.push_other hj
  | move i n to before =>
    have hij : i ≠ j := fun e => hne (by rw [e]; rfl)
    simp only [World.step]
    split
    · exact hj
    · split
      · exact (World.setTree_other hij).trans hj
      · exact hj
  | moveCross i n => exact hj
  | remove i n keep clones =>
    have hij : i ≠ j := fun e => hne (by rw [e]; rfl)
    simp only [World.step]
    split
    · exact hj
    · exact (World.setTree_other hij).trans hj
  | removeChildren i n =>
    have hij : i ≠ j := fun e => hne (by rw [e]; rfl)
    simp only [World.step]
    split
    · exact hj
    · exact (World.setTree_other hij).trans hj
  | sort i n key rev deep =>
    have hij : i ≠ j := fun e => hne (by rw [e]; rfl)
    simp only [World.step]
    split
    · exact hj
    · exact (World.setTree_other hij).trans hj
  | setData i n a did wc rename =>
    have hij : i ≠ j := fun e => hne (by rw [e]; rfl)
    simp only [World.step]
    split
    · exact hj
    · split
      · exact hj
      · split
        · exact hj
        · split
          · exact hj
          · split
            · exact (World.setTree_other hij).trans hj
            · exact hj
  | setMeta i n m =>
    have hij : i ≠ j := fun e => hne (by rw [e]; rfl)
    simp only [World.step]
    split
    · exact hj
    · exact (World.setTree_other hij).trans hj
  | filter i n v =>
    have hij : i ≠ j := fun e => hne (by rw [e]; rfl)
    simp only [World.step]
    split
    · exact hj
    · exact (World.setTree_other hij).trans hj
  | filtered si src v =>
    simp only [World.step]
    split
    · exact hj
    · split
      · exact World.push_other hj
      · split
        · exact hj
        · exact World.push_other hj
  | addVia i ref a via did kind =>
    have hij : i ≠ j := fun e => hne (by rw [e]; rfl)
    simp only [World.step]
    split
    · exact hj
    · split
      · exact hj
      · split
        · exact (List.getElem?_set_ne hij).trans hj
        · exact hj
  | delItem i a asId =>
    have hij : i ≠ j := fun e => hne (by rw [e]; rfl)
    simp only [World.step]
    split
    · exact hj
    · exact (World.setTree_other hij).trans hj
  | metaSet i n k v =>
    have hij : i ≠ j := fun e => hne (by rw [e]; rfl)
    exact (World.metaEdit_other hij).trans hj
  | metaClear i n k =>
    have hij : i ≠ j := fun e => hne (by rw [e]; rfl)
    exact (World.metaEdit_other hij).trans hj
  | metaUpdate i n vals replace =>
    have hij : i ≠ j := fun e => hne (by rw [e]; rfl)
    exact (World.metaEdit_other hij).trans hj
  | clear i =>
    have hij : i ≠ j := fun e => hne (by rw [e]; rfl)
    simp only [World.step]
    split
    · exact hj
    · exact (World.setTree_other hij).trans hj
  | sortTree i key rev deep =>
    have hij : i ≠ j := fun e => hne (by rw [e]; rfl)
    simp only [World.step]
    split
    · exact hj
    · exact (World.setTree_other hij).trans hj

/-- the source of a copy is unchanged, also when source and target are different trees of the
same world: `add_child(node)` / `add_child(tree)` / `copy_to` into tree `i` from tree `si ≠ i`. -/
theorem copy_source_unchanged (w : World) (i si : Nat) (s : Tree) (hs : w.trees[si]? = some s) (hne : i ≠ si)
    (parent src : NodeId) (before : Before) (deep : Option Bool) (did : Option DataId) (kind : Option String)
    (deepB : Bool) :
    (w.step (.addNode i parent si src before deep did kind)).1.trees[si]? = some s ∧
    (w.step (.addTree i parent si before deep)).1.trees[si]? = some s ∧
    (w.step (.copyKids i parent si src deepB)).1.trees[si]? = some s :=
  ⟨step_other_trees w _ si s hs (fun e => hne (Option.some.inj e)),
   step_other_trees w _ si s hs (fun e => hne (Option.some.inj e)),
   step_other_trees w _ si s hs (fun e => hne (Option.some.inj e))⟩

/-- the source of `copy()` / `filtered()` (which create a new tree) is unchanged, and so is every
other tree of the world. -/
theorem copy_new_tree_source_unchanged (w : World) (j : Nat) (tj : Tree) (hj : w.trees[j]? = some tj)
    (si : Nat) (src : NodeId) (addSelf : Bool) (osrc : Option NodeId) (v : T → Flt.Verdict) :
    (w.step (.copyAll si)).1.trees[j]? = some tj ∧
    (w.step (.copyBranch si src addSelf)).1.trees[j]? = some tj ∧
    (w.step (.filtered si osrc v)).1.trees[j]? = some tj :=
  ⟨step_other_trees w _ j tj hj (by intro e; cases e),
   step_other_trees w _ j tj hj (by intro e; cases e),
   step_other_trees w _ j tj hj (by intro e; cases e)⟩

end Nutree.C07
