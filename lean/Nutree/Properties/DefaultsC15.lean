/-
C15, source-level obligation: the default values of the documented keyword arguments, as read from the
signatures in the source text on this run (`Generated.defaultsC15`, translate/gen_defaults.py), are the
documented ones (`Spec.Defaults.documentedC15`).  The correspondence harness leaves out arguments that
equal their documented default; this table also covers the parameters and call paths it does not sample.
-/
import Nutree.Generated.Defaults
import Nutree.Spec.Defaults

namespace Nutree.C15

theorem defaults_as_documented : Generated.defaultsC15 = Spec.Defaults.documentedC15 := by decide

end Nutree.C15
