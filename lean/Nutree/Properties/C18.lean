/-
  C18 — Snapshot operations honour the tree lock.
  Property theorems only; helper lemmas live in Nutree/Lemmas.
-/
import Nutree.Model.Lock
namespace Nutree.C18
open Nutree Nutree.Lock

/-- every snapshot method of the source text (regenerated on every run) reads the tree only
while holding the lock, and is well bracketed. -/
theorem generated_guarded : ∀ p ∈ snapshotProgs, Guarded p.2 := by
  intro p hp
  have h : snapshotProgs.all (fun p => guardedFrom 0 p.2) = true := by decide
  exact (List.all_eq_true.mp h) p hp

/-- the lock is created as a re-entrant lock, `__enter__` acquires and `__exit__` releases it. -/
theorem generated_reentrant :
    Generated.lockReentrant = true ∧ Generated.enterAcquires = true ∧ Generated.exitReleases = true := by decide

end Nutree.C18
