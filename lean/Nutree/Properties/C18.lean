/-
  C18 — Snapshot operations honour the tree lock.
  Property theorems only; helper lemmas live in Nutree/Lemmas.
-/
import Nutree.Model.Lock
import Nutree.Lemmas.LockProgress
namespace Nutree.C18
open Nutree Nutree.Lock

/-- every snapshot method of the source text (regenerated on every run) reads the tree only
while holding the lock, and is well bracketed. -/
theorem generated_guarded : ∀ p ∈ snapshotProgs, Guarded p.2 := by
  intro p hp
  have h : snapshotProgs.all (fun p => guardedFrom 0 p.2) = true := by decide
  exact (List.all_eq_true.mp h) p hp

/-- the lock is created as a re-entrant lock, `__enter__` acquires and `__exit__` releases it. -/
theorem generated_reentrant :
    Generated.lockReentrant = true ∧ Generated.enterAcquires = true ∧ Generated.exitReleases = true := by decide

/-! ## The protocol: every schedule, any number of guarded threads, re-entrant lock

`Inv`, `LockInv`, `TraceOK`, `dep`, `depFrom`, `evsOf`, `remaining` are defined in
`Nutree/Lemmas/LockBasic.lean` and `Nutree/Lemmas/LockInv.lean`. -/

/-- K1. The invariant `Inv ps` (lengths, owner/count/depth agreement, remaining programs guarded
from the current depth, the trace is consistent with the depths — `TraceOK`, `trace_dep` — and
each thread's executed events followed by its remaining program are its original program)
holds in every configuration reachable under any schedule. -/
theorem inv_reachable (ps : List Prog) (hps : ∀ p ∈ ps, Guarded p) (sched : List Tid) :
    Inv ps (run true (Cfg.init ps) sched) :=
  inv_reachable' ps hps sched

/-- K1, unfolded into the listed facts (in `getElem?` form). -/
theorem inv_reachable_facts (ps : List Prog) (hps : ∀ p ∈ ps, Guarded p) (sched : List Tid) :
    let c := run true (Cfg.init ps) sched
    c.progs.length = ps.length ∧ c.depth.length = ps.length ∧
    (c.owner = none ↔ c.count = 0) ∧
    (∀ i, c.owner = some i → c.depth[i]? = some c.count ∧
        ∀ j, j ≠ i → j < ps.length → c.depth[j]? = some 0) ∧
    (c.owner = none → ∀ j, j < ps.length → c.depth[j]? = some 0) ∧
    (∀ (i : Nat) (p : Prog) (d : Nat), c.progs[i]? = some p → c.depth[i]? = some d →
        guardedFrom d p = true) :=
  inv_facts (inv_reachable ps hps sched)

/-- K2. At most one thread has positive lock depth. -/
theorem mutex (ps : List Prog) (hps : ∀ p ∈ ps, Guarded p) (sched : List Tid) :
    let c := run true (Cfg.init ps) sched
    ∀ (i j di dj : Nat), c.depth[i]? = some (di + 1) → c.depth[j]? = some (dj + 1) → i = j :=
  fun _ _ _ _ hi hj => inv_mutex (inv_reachable ps hps sched) hi hj

/-- K3. Every `read`/`write` in the trace was executed while its own thread owned the lock. -/
theorem events_hold_lock (ps : List Prog) (hps : ∀ p ∈ ps, Guarded p) (sched : List Tid) :
    ∀ x ∈ (run true (Cfg.init ps) sched).trace,
      (x.2.1 = .read ∨ x.2.1 = .write) → x.2.2 = some x.1 :=
  fun _ hx he => traceOK_rw (inv_reachable ps hps sched).trace_ok hx he

/-- K3, strengthened: whenever the lock was held, the executing thread was the holder; when it
was free, the event was an (outermost) `acq`. -/
theorem executor_is_owner (ps : List Prog) (hps : ∀ p ∈ ps, Guarded p) (sched : List Tid) :
    ∀ x ∈ (run true (Cfg.init ps) sched).trace,
      x.2.2 = some x.1 ∨ (x.2.2 = none ∧ x.2.1 = .acq) :=
  fun _ hx => traceOK_mem (inv_reachable ps hps sched).trace_ok hx

/-- K3, history form: the recorded owner tag of every entry is exactly the thread whose own
`acq`/`rel` history before that entry leaves it at positive depth. -/
theorem tag_iff_history_depth (ps : List Prog) (hps : ∀ p ∈ ps, Guarded p) (sched : List Tid)
    (post pre : List Entry) (x : Entry)
    (ht : (run true (Cfg.init ps) sched).trace = post ++ x :: pre) (k : Tid) :
    x.2.2 = some k ↔ 0 < dep k pre :=
  traceOK_split (ht ▸ (inv_reachable ps hps sched).trace_ok) k

/-- the events executed by thread `k` (oldest first) followed by its remaining program are its
original program: the trace of a thread is a prefix of its program. -/
theorem trace_is_program_prefix (ps : List Prog) (hps : ∀ p ∈ ps, Guarded p) (sched : List Tid)
    (k : Tid) :
    let c := run true (Cfg.init ps) sched
    evsOf k c.trace ++ c.progs[k]?.getD [] = ps[k]?.getD [] :=
  (inv_reachable ps hps sched).trace_prog k

/-- K4. Between two events of thread `i` (trace newest first: `e2` after `e1`) such that the
lock was held by `i` at both and at every event in between, no `write` of another thread
occurs — in fact every event in between is `i`'s own. -/
theorem snapshot_atomic (ps : List Prog) (hps : ∀ p ∈ ps, Guarded p) (sched : List Tid)
    (post mid pre : List Entry) (i : Tid) (e1 e2 : Ev)
    (ht : (run true (Cfg.init ps) sched).trace
        = post ++ (i, e2, some i) :: mid ++ (i, e1, some i) :: pre)
    (hmid : ∀ y ∈ mid, y.2.2 = some i) :
    (∀ j, j ≠ i → ∀ o, (j, Ev.write, o) ∉ mid) ∧ ∀ y ∈ mid, y.1 = i := by
  have hok := (inv_reachable ps hps sched).trace_ok
  have hown : ∀ y ∈ mid, y.1 = i := by
    intro y hy
    have hm : y ∈ (run true (Cfg.init ps) sched).trace := by rw [ht]; simp [hy]
    exact traceOK_tag hok hm (hmid y hy)
  exact ⟨fun j hj o hm => hj (hown _ hm), hown⟩

/-- K4, pointwise window lemma. After an outermost `acq` of thread `i` (tag `none`: the lock
was free, depth 0→1), consider any later entry `x` of ANY thread, `s` being the entries between
that `acq` and `x`.  If thread `i`'s own depth, replayed from 1 over `s` (`depFrom i 1 s`: +1 per
`acq` of `i`, −1 per `rel` of `i`), is still positive — i.e. the matching `rel` has not happened —
then `x` was executed under owner `i`, and by `i` itself. -/
theorem reads_contiguous_pointwise (ps : List Prog) (hps : ∀ p ∈ ps, Guarded p)
    (sched : List Tid) (post mid pre : List Entry) (i : Tid)
    (ht : (run true (Cfg.init ps) sched).trace = post ++ mid ++ (i, Ev.acq, none) :: pre)
    (x : Entry) (s : List Entry) (hs : (x :: s) <:+ mid) (hpos : 0 < depFrom i 1 s) :
    x.2.2 = some i ∧ x.1 = i :=
  window_pointwise (ht ▸ (inv_reachable ps hps sched).trace_ok) hs hpos

/-- K4. The critical section of thread `i` from its outermost `acq` up to and including the
matching `rel` (window `mid`: before each of its entries `i`'s replayed depth is positive) is
contiguous in the GLOBAL trace: every entry in the window is tagged `some i` and was executed
by `i`; in particular all reads in the window are `i`'s own and no other thread writes (or does
anything) in it. -/
theorem reads_contiguous (ps : List Prog) (hps : ∀ p ∈ ps, Guarded p) (sched : List Tid)
    (post mid pre : List Entry) (i : Tid)
    (ht : (run true (Cfg.init ps) sched).trace = post ++ mid ++ (i, Ev.acq, none) :: pre)
    (hwin : ∀ x s, (x :: s) <:+ mid → 0 < depFrom i 1 s) :
    ∀ x ∈ mid, x.2.2 = some i ∧ x.1 = i := by
  intro x hx
  obtain ⟨u, s, rfl⟩ := List.append_of_mem hx
  have hs : (x :: s) <:+ (u ++ x :: s) := ⟨u, rfl⟩
  exact reads_contiguous_pointwise ps hps sched post _ pre i ht x s hs (hwin x s hs)

/-- K5. While `a` owns the lock, every other thread `b` is disabled, its next event (if any)
is an `acq` (never `read`/`write`/`rel`), and scheduling non-owners any number of times leaves
the configuration unchanged: no event of `b` — in particular no `read` — occurs until `a`
has released. -/
theorem blocked_until_release (ps : List Prog) (hps : ∀ p ∈ ps, Guarded p) (sched : List Tid)
    (a b : Tid) (ho : (run true (Cfg.init ps) sched).owner = some a) (hb : b ≠ a) :
    let c := run true (Cfg.init ps) sched
    enabled true c b = false ∧
    (∀ (e : Ev) (rest : Prog), c.progs[b]? = some (e :: rest) → e = .acq) ∧
    ∀ s : List Tid, (∀ t ∈ s, t ≠ a) → run true c s = c := by
  have h := inv_reachable ps hps sched
  exact ⟨blocked_enabled h ho hb, fun e rest hp => (blocked_next h ho hb hp).1,
    fun s hs => blocked_run h ho s hs⟩

/-- K6. No deadlock with the re-entrant lock: an unfinished reachable configuration has an
enabled thread. -/
theorem reentrant_no_deadlock (ps : List Prog) (hps : ∀ p ∈ ps, Guarded p) (sched : List Tid) :
    let c := run true (Cfg.init ps) sched
    finished c = false → ∃ i, enabled true c i = true :=
  fun hf => no_deadlock (inv_reachable ps hps sched) hf

/-- K6. The lock owner is never blocked by itself. -/
theorem owner_never_blocked (ps : List Prog) (hps : ∀ p ∈ ps, Guarded p) (sched : List Tid)
    (a : Tid) (ho : (run true (Cfg.init ps) sched).owner = some a) :
    enabled true (run true (Cfg.init ps) sched) a = true :=
  owner_enabled (inv_reachable ps hps sched) ho

/-- K6, measure: an enabled step executes exactly one of the remaining events (any lock kind,
any configuration); a disabled one changes nothing. -/
theorem progress_measure (r : Bool) (c : Cfg) (i : Tid) :
    (enabled r c i = true → remaining (step r c i) + 1 = remaining c) ∧
    (enabled r c i = false → step r c i = c) ∧
    (finished c = true ↔ remaining c = 0) :=
  ⟨remaining_step, step_of_not_enabled, finished_iff_remaining⟩

/-- K6, termination: every reachable configuration can be driven to `finished`. -/
theorem exists_finishing_schedule (ps : List Prog) (hps : ∀ p ∈ ps, Guarded p)
    (sched : List Tid) : ∃ s, finished (run true (Cfg.init ps) (sched ++ s)) = true := by
  obtain ⟨s, hs⟩ := exists_finishing (inv_reachable ps hps sched)
  exact ⟨s, by rw [run_append]; exact hs⟩

/-- K6, fairness: after an arbitrary prefix `sched`, any continuation consisting of at least
`remaining` rounds, each of which offers every thread a turn (in any order, with any
repetitions), ends in a `finished` configuration. -/
theorem fair_schedule_finishes (ps : List Prog) (hps : ∀ p ∈ ps, Guarded p) (sched : List Tid)
    (rounds : List (List Tid))
    (hr : ∀ round ∈ rounds, ∀ i, i < ps.length → i ∈ round)
    (hlen : remaining (run true (Cfg.init ps) sched) ≤ rounds.length) :
    finished (run true (Cfg.init ps) (sched ++ rounds.flatten)) = true := by
  rw [run_append]
  exact fair_finishes (inv_reachable ps hps sched) rounds hr hlen

/-- K7. Calling a snapshot operation inside one's own `with tree:` is again guarded, so all of
the above covers the nested use. -/
theorem nested_ok (p : Prog) (h : Guarded p) : Guarded (nested p) := guarded_nested h

/-- K9. Writers are guarded. -/
theorem writers_guarded (n : Nat) : Guarded (writer n) := guarded_writer n

/-- K8. Re-entrancy matters: with a plain lock the single thread `nested [acq, read, rel]`
gets stuck after its first `acq` — not finished, no thread enabled, and no schedule moves it. -/
theorem plain_lock_deadlocks :
    let c := run false (Cfg.init [nested [.acq, .read, .rel]]) [0]
    finished c = false ∧ (∀ i, enabled false c i = false) ∧ ∀ s, run false c s = c := by
  intro c
  have hen : ∀ i, enabled false c i = false := by
    intro i
    cases i with
    | zero => decide
    | succ i => exact enabled_out_of_range (by simp [c, run, step, enabled, Cfg.init, nested])
  refine ⟨by decide, hen, ?_⟩
  intro s
  induction s with
  | nil => rfl
  | cons i s ih => rw [run_cons, step_of_not_enabled (hen i)]; exact ih

/-- K8, contrast: the same program finishes under the re-entrant lock. -/
theorem reentrant_nested_finishes :
    finished (run true (Cfg.init [nested [.acq, .read, .rel]]) [0, 0, 0, 0, 0]) = true := by
  decide

/-! ## Non-vacuity: three threads, interleaved schedule with blocked choices -/

/-- a writer, `TypedTree.save` (which itself nests `Tree.save` inside its own `with`), and
`Tree.copy` called inside the caller's `with tree:`. -/
def demoProgs : List Prog :=
  -- literal programs (the shape TypedTree.save and `with tree: tree.copy()` had when this was written), so that
  -- the demonstration does not depend on the regenerated table
  [writer 2, [.acq, .read, .acq, .read, .rel, .acq, .read, .rel, .acq, .read, .rel, .rel], nested [.acq, .read, .rel]]

/-- thread 1 starts; 0 and 2 are tried while 1 holds the lock (blocked), etc. -/
def demoSched : List Tid :=
  [1, 1, 0, 2, 1, 1, 1, 0, 1, 1, 1, 2, 1, 1, 1, 1, 0, 0, 1, 2, 0, 0, 2, 2, 0, 2, 2, 2]

theorem demoProgs_guarded : ∀ p ∈ demoProgs, Guarded p := by
  intro p hp
  have h : demoProgs.all (fun p => guardedFrom 0 p) = true := by decide
  exact (List.all_eq_true.mp h) p hp

example : demoProgs.map List.length = [4, 12, 5] := by decide

set_option maxRecDepth 100000 in
example :
    let c := run true (Cfg.init demoProgs) demoSched
    finished c = true ∧ c.trace.length = 21 ∧ c.owner = none ∧
    (∀ x ∈ c.trace, (x.2.1 = .read ∨ x.2.1 = .write) → x.2.2 = some x.1) ∧
    (1, Ev.read, some 1) ∈ c.trace ∧ (0, Ev.write, some 0) ∈ c.trace ∧
    (2, Ev.read, some 2) ∈ c.trace := by
  decide

/-- while thread 1 is inside `TypedTree.save` (after 8 choices), the writer is blocked. -/
example :
    let c := run true (Cfg.init demoProgs) (demoSched.take 8)
    c.owner = some 1 ∧ enabled true c 0 = false ∧ enabled true c 2 = false ∧
    enabled true c 1 = true := by
  decide

/-- K10. Why ONE critical section per snapshot matters (the boundary of K4).  A reader that takes the lock twice —
`[acq, read, rel, acq, read, rel]`: every read is guarded, the program is well bracketed, all of K1–K7 apply to it — can have a
writer's whole critical section between its two reads: under the schedule below the trace (newest first) shows the reader's
second `read` after the writer's `write`, which comes after the reader's first `read`.  Holding the lock is therefore not
enough for a consistent snapshot; the reads must lie in one section (`reads_contiguous`).  (This is the shape
`TypedTree.save` had before `fix:` af3addc — kinds collected in one section, nodes written in another — and the shape that the
preemption enumeration of the correspondence looks for in the running code.) -/
theorem split_snapshot_tears :
    let reader : Prog := [.acq, .read, .rel, .acq, .read, .rel]
    Guarded reader ∧ Guarded (writer 1) ∧
    (run true (Cfg.init [reader, writer 1]) [0, 0, 0, 1, 1, 1, 0, 0, 0]).trace.map (fun x => (x.1, x.2.1))
      = [(0, .rel), (0, .read), (0, .acq), (1, .rel), (1, .write), (1, .acq), (0, .rel), (0, .read), (0, .acq)] ∧
    finished (run true (Cfg.init [reader, writer 1]) [0, 0, 0, 1, 1, 1, 0, 0, 0]) = true := by
  intro reader
  refine ⟨?_, ?_, ?_, ?_⟩
  · show guardedFrom 0 reader = true
    decide
  · show guardedFrom 0 (writer 1) = true
    decide
  · decide
  · decide

end Nutree.C18
