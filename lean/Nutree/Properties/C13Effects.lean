/-
C13, read-only half, source-level obligation.

`Generated.readOnlyWrites` is regenerated on every run by `translate/gen_effects.py` from the text of
nutree: the statements, inside the public read-only entry points (iteration, search, formatting,
serialisation, export, relationship accessors, and copy/copy_to/filtered/diff with respect to their
source) and inside every method they reach on the same object, that assign to an attribute or item of
the source node/tree or call a mutator on it.  The obligation is that there is none.  It is a syntactic
table, not a semantics of Python: it supports the before/after comparison of the correspondence check
(which samples inputs) with a statement about every branch of those functions.
-/
import Nutree.Generated.Effects

namespace Nutree.C13

/-- no statement of a read-only entry point writes to the object it reads. -/
theorem readonly_entry_points_have_no_writes : Generated.readOnlyWrites = [] := by decide

/-- the table is not vacuous: the analysis reached the entry points and their helpers. -/
theorem readonly_entry_points_analysed : 80 ≤ Generated.readOnlyFunctions.length := by decide

end Nutree.C13
