/-
C07, source-level obligation: the default values of the documented keyword arguments, as read from the
signatures in the source text on this run (`Generated.defaultsC07`, translate/gen_defaults.py), are the
documented ones (`Spec.Defaults.documentedC07`).  The correspondence harness leaves out arguments that
equal their documented default; this table also covers the parameters and call paths it does not sample.
-/
import Nutree.Generated.Defaults
import Nutree.Spec.Defaults

namespace Nutree.C07

theorem defaults_as_documented : Generated.defaultsC07 = Spec.Defaults.documentedC07 := by decide

end Nutree.C07
