/-
  C07 — Copies are faithful to the source and independent of it.
  Property theorems only; helper lemmas live in Nutree/Lemmas.
-/
import Nutree.Model.Ops
import Nutree.Spec.WF
namespace Nutree.C07
open Nutree T

/-- `copy_to(add_self=False)` of a node without children is refused (ValueError), nothing changes. -/
theorem copyKids_empty (t : Tree) (next parent : NodeId) (deep : Bool) :
    t.copyKids next parent [] deep = (t, next, some .value) := by
  simp [Tree.copyKids]

end Nutree.C07
