/-
  C10 for every history: the relationship queries of a node of ANY reachable tree equal what follows from its
  position (path from the system root).  The theorems of `Properties/C10.lean` assume pairwise distinct node
  identities; that is part of `WF`, which `C01.C01_main` proves for every reachable state.
-/
import Nutree.Properties.C10
import Nutree.Properties.C01Main
namespace Nutree.C10
open Nutree T

/-- node identities are pairwise distinct in every tree of every reachable state. -/
theorem idsNodup_of_reachable (ops : List Op) (t : Tree) (ht : t ∈ (World.run ops).trees) : IdsNodup t.root :=
  ((C01.C01_main ops).2 t ht).1.ids

/-- **after any history**, for the node `self` at path `p` (from the system root) of a reachable tree: parent,
`up(k)`, depth, index, siblings, previous / next sibling, ancestor list, path and top ancestor are what the
position says. -/
theorem relations_after_any_history (ops : List Op) (t : Tree) (ht : t ∈ (World.run ops).trees)
    (self : T) (p : List Nat) (hp : p ≠ []) (hs : t.root.sub p = some self) :
    parentOf t.root self = SpecRel.parent t.root p ∧
    (∀ k, up t.root self k = SpecRel.up t.root p k) ∧
    calcDepth t.root self = SpecRel.depth p ∧
    getIndex t.root self = SpecRel.index p ∧
    (∀ addSelf, getSiblings t.root self addSelf = SpecRel.siblings t.root p addSelf) ∧
    prevSibling t.root self = SpecRel.prev t.root p ∧
    nextSibling t.root self = SpecRel.next t.root p ∧
    (∀ addSelf, getPath t.root self addSelf = SpecRel.path t.root p addSelf) ∧
    getTop t.root self = SpecRel.top t.root p ∧
    isTop t.root self = SpecRel.isTop p := by
  have hN := idsNodup_of_reachable ops t ht
  exact ⟨parent_eq _ _ p hN hp hs, up_eq _ _ p hN hp hs, depth_eq _ _ p hN hp hs, index_eq _ _ p hN hp hs,
    siblings_eq _ _ p hN hp hs, prev_eq _ _ p hN hp hs, next_eq _ _ p hN hp hs, path_eq _ _ p hN hp hs,
    top_eq _ _ p hN hp hs, isTop_eq _ _ p hN hp hs⟩

/-- … and for two nodes of it: ancestry both ways. -/
theorem ancestry_after_any_history (ops : List Op) (t : Tree) (ht : t ∈ (World.run ops).trees)
    (self other : T) (p q : List Nat) (hp : p ≠ []) (hs : t.root.sub p = some self)
    (hq : q ≠ []) (ho : t.root.sub q = some other) :
    isDescendantOf t.root self other = SpecRel.isDescendantOf p q ∧
    isAncestorOf t.root self other = SpecRel.isDescendantOf q p := by
  have hN := idsNodup_of_reachable ops t ht
  exact ⟨descendant_iff _ _ _ p q hN hp hs hq ho, ancestor_iff _ _ _ p q hN hp hs hq ho⟩

end Nutree.C10
