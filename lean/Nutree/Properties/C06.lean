/-
  C06 — Traversals visit each node once in documented order and obey control signals.
  Property theorems only; helper lemmas live in Nutree/Lemmas.
-/
import Nutree.Model.Iter
import Nutree.Spec.Iter
import Nutree.Generated.Tables
import Nutree.Lemmas.Iter
import Nutree.Lemmas.IterLevel
import Nutree.Lemmas.Visit
namespace Nutree.C06
open Nutree T

/-- Pre-order iteration yields a node, then its branch, siblings left to right
(`flatL` is the structural pre-order of Model/Basic). -/
theorem iterPre_spec (ks : List T) : iterPreL ks = flatL ks := iterPreL_flat ks

/-- Post-order iteration yields the children's branches left to right, then the node. -/
theorem iterPost_spec (ks : List T) : iterPostL ks = postL ks := iterPostL_post ks

/-- Every spelling of the stop signal (returned or raised, class or instance, `False`,
`StopIteration`) is normalised to "stop, carrying the value". -/
theorem stop_spellings (v : Option Int) :
    callTraversalCb (.retStopInst v) = .stop v ∧ callTraversalCb (.raiseStop v) = .stop v ∧
    callTraversalCb (.retStopIterInst v) = .stop v ∧ callTraversalCb (.raiseStopIter v) = .stop v ∧
    callTraversalCb .retStopCls = .stop none ∧ callTraversalCb .retFalse = .stop none ∧
    callTraversalCb .retStopIterCls = .stop none := by
  simp [callTraversalCb]

/-- Every spelling of the skip signal is normalised to "skip". -/
theorem skip_spellings :
    callTraversalCb .retSkipCls = .skip ∧ callTraversalCb .retSkipInst = .skip ∧
    callTraversalCb .raiseSkip = .skip := by
  simp [callTraversalCb]

/-- T1: the queue loop of `_iter_level` equals the structural level order, for all four
(revert, toggle) variants. -/
theorem iterLevel_spec (rev tog : Bool) (ks : List T) :
    iterLevel rev tog ks = specLevel rev tog ks := iterLevel_eq_specLevel rev tog ks

/-- T2: level order (any direction) contains every node of the forest exactly as often as
pre-order does. -/
theorem specLevel_perm (rev tog : Bool) (ks : List T) :
    (specLevel rev tog ks).Perm (flatL ks) := specLevel_perm_flatL rev tog ks

/-- T2: post order contains every node of the forest exactly as often as pre-order does. -/
theorem post_perm (ks : List T) : (postL ks).Perm (flatL ks) := postL_perm_flatL ks

/-- T3: the iterator equals its specification for every method and add_self. -/
theorem iterator_spec (m : Method) (addSelf : Bool) (t : T) :
    iterator m addSelf t = specIterator m addSelf t := by
  cases m <;> cases addSelf <;>
    simp [iterator, iterHandler, specIterator, specOrder, iterPreL_flat, iterPostL_post,
      iterLevel_eq_specLevel]

/-- T4: each ordered method yields a permutation of the branch (plus the start node iff
add_self). -/
theorem iterator_perm (m : Method) (addSelf : Bool) (t : T) (xs : List T) :
    iterator m addSelf t = some xs →
      xs.Perm ((if addSelf then [t] else []) ++ flatL t.kids) := by
  rw [iterator_spec]
  intro h
  cases m <;> cases addSelf <;> simp [specIterator, specOrder] at h <;> subst h <;>
    simp [specLevel_perm_flatL, postL_perm_flatL, List.Perm.refl]
  exact (List.perm_append_singleton _ _).trans (List.Perm.cons _ (postL_perm_flatL _))

/-- T5: independent characterisation of levels: level `d` of the forest = the pre-order
nodes of depth `d`, in pre-order. -/
theorem levelsL_depth (ks : List T) (d : Nat) :
    (levelsL ks).getD d [] = ((withDepthL 0 ks).filter (fun p => p.2 == d)).map (·.1) := by
  simpa using levelsL_getD_depth ks 0 d

/-- T6: visit equals its specification (order = pruned order, cut at the first halting
answer; outcome = value carried). -/
theorem visit_spec (f : NodeId → Sig) (m : Method) (addSelf : Bool) (t : T) :
    ((visit (fun n => f n.id) m addSelf t).1.map T.id, (visit (fun n => f n.id) m addSelf t).2)
      = specVisit f m addSelf t := by
  cases m with
  | pre => exact visit_pre_spec f addSelf t
  | post => exact visit_post_spec f addSelf t
  | level => exact visit_level_spec f addSelf t
  | levelRtl | zigzag | zigzagRtl | random | unordered => simp [visit, specVisit]

/-- T7: with a callback that never signals, visit calls the callback on exactly the
iterator's sequence. -/
theorem visit_eq_iter (cb : T → Sig) (m : Method) (addSelf : Bool) (t : T)
    (hm : m = .pre ∨ m = .post ∨ m = .level) (h : ∀ n, cb n = .cont) :
    some (visit cb m addSelf t).1 = iterator m addSelf t ∧ (visit cb m addSelf t).2 = .ret none := by
  rcases hm with rfl | rfl | rfl <;> cases addSelf <;>
    simp [visit, iterator, iterHandler, h, visitPreL_cont cb h, visitPostL_cont cb h,
      visitLevel_cont cb h, iterPreL_flat, iterPostL_post, haltOut, sigHalt]

/-- T8: dispatch table regenerated from the source: a method has an `_iter_<value>` handler
in the code iff the model has one, likewise for `_visit_<value>`; every method value is an
`IterMethod` member. -/
theorem dispatch_table (m : Method) :
    ((iterHandler m []).isSome = Nutree.Generated.iterHandlers.contains m.value) ∧
    (((visit (fun _ => Sig.cont) m false (mkRoot [])).2 != VOut.notImplemented)
        = Nutree.Generated.visitHandlers.contains m.value) ∧
    (Nutree.Generated.iterMethods.map (·.2)).contains m.value = true := by
  cases m <;> decide

end Nutree.C06
