/-
  C06 — Traversals visit each node once in documented order and obey control signals.
  Property theorems only; helper lemmas live in Nutree/Lemmas.
-/
import Nutree.Model.Iter
import Nutree.Spec.Iter
import Nutree.Generated.Tables
import Nutree.Lemmas.Iter
namespace Nutree.C06
open Nutree T

/-- Pre-order iteration yields a node, then its branch, siblings left to right
(`flatL` is the structural pre-order of Model/Basic). -/
theorem iterPre_spec (ks : List T) : iterPreL ks = flatL ks := iterPreL_flat ks

/-- Post-order iteration yields the children's branches left to right, then the node. -/
theorem iterPost_spec (ks : List T) : iterPostL ks = postL ks := iterPostL_post ks

/-- Every spelling of the stop signal (returned or raised, class or instance, `False`,
`StopIteration`) is normalised to "stop, carrying the value". -/
theorem stop_spellings (v : Option Int) :
    callTraversalCb (.retStopInst v) = .stop v ∧ callTraversalCb (.raiseStop v) = .stop v ∧
    callTraversalCb (.retStopIterInst v) = .stop v ∧ callTraversalCb (.raiseStopIter v) = .stop v ∧
    callTraversalCb .retStopCls = .stop none ∧ callTraversalCb .retFalse = .stop none ∧
    callTraversalCb .retStopIterCls = .stop none := by
  simp [callTraversalCb]

/-- Every spelling of the skip signal is normalised to "skip". -/
theorem skip_spellings :
    callTraversalCb .retSkipCls = .skip ∧ callTraversalCb .retSkipInst = .skip ∧
    callTraversalCb .raiseSkip = .skip := by
  simp [callTraversalCb]

end Nutree.C06
