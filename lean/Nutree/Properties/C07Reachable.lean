/-
  C07 for every history: `tree.copy()` of ANY reachable tree is a faithful copy (`C01.C01_main` discharges the
  well-formedness of the source and the positivity of the identity counter).
-/
import Nutree.Properties.C07Copy
import Nutree.Properties.C01Main
namespace Nutree.C07
open Nutree T Nutree.Flt.Spec

/-- **after any history**: copying a tree of the reached world (with the world's own identity counter) succeeds;
the copy is well-formed, has fresh identities, the same data objects and data ids at the same pre-order
positions, and — where every node carries a kind iff the tree is typed — the same shape, order and kinds. -/
theorem copy_after_any_history (ops : List Op) (src : Tree) (ht : src ∈ (World.run ops).trees) :
    let next := (World.run ops).next
    ∃ t', src.copyAll next = (t', next + sizeL src.root.kids, none) ∧ WF t' ∧
      (flatL t'.root.kids).map (fun x => (x.data, x.did)) = (flatL src.root.kids).map (fun x => (x.data, x.did)) ∧
      (KindsOK src.typed src.root.kids → shL t'.root.kids = shL src.root.kids) ∧
      (∀ y ∈ flatL t'.root.kids, next ≤ y.id) ∧ (∀ y ∈ flatL src.root.kids, y.id < next) := by
  intro next
  have hW := C01.C01_main ops
  have h : WF src := (hW.2 src ht).1
  have hf := (hW.2 src ht).2
  obtain ⟨t', h1, h2, _, _, _, h6, h7, _, _, _, h11⟩ := copyAll_faithful src next h hW.1
  refine ⟨t', h1, h2, h7, h6, fun y hy => (h11 y hy).1, fun y hy => ?_⟩
  exact hf.2 y (by rw [Nutree.flat_eq]; exact List.mem_cons_of_mem _ hy)

end Nutree.C07
