/-
  C01 (main) — The node graph stays a well-formed tree after ANY mutation history.

  The per-operation theorems (C01, C01Move, C01Data, C07Copy, C08) are assembled into the theorem
  about arbitrary histories: `World.step` preserves `WFW` for every operation with every argument
  (valid or not, refused or not, with failing callbacks), hence every state reachable from the empty
  world by `World.run` is well-formed.  Also the two sentences of C13 (refusals leave the state
  unchanged; a failing callback leaves it well-formed).

  Property theorems only; helper lemmas live in Nutree/Lemmas/Main*.lean
  (MainAdd: hypothesis-free invariance of `_add_from` / `add_child(node)`;
   MainFilter: the copying filter for every predicate; MainWorld: `Fresh`, `List.set`).
-/
import Nutree.Model.World
import Nutree.Properties.C01
import Nutree.Properties.C01Move
import Nutree.Properties.C01Data
import Nutree.Properties.C07Copy
import Nutree.Properties.C08
import Nutree.Properties.C13
import Nutree.Lemmas.MainWorld
import Nutree.Lemmas.MainFilter
import Nutree.Lemmas.MainShortcuts

namespace Nutree

/-- the single-node operations: a refusal leaves the state unchanged (`refused_unchanged`). -/
def Op.atomic : Op → Bool
  | .add _ _ _ _ _ _ => true
  | .addVia _ _ _ _ _ _ => true
  | .delItem _ _ _ => true
  | .metaSet _ _ _ _ => true
  | .metaClear _ _ _ => true
  | .metaUpdate _ _ _ _ => true
  | .move _ _ _ _ => true
  | .moveCross _ _ => true
  | .setData _ _ _ _ _ _ => true
  | .remove _ _ _ withClones => !withClones
  | _ => false

/-- the multi-node copies: they refuse up front (`refused_unchanged_copies`). -/
def Op.copies : Op → Bool
  | .addNode _ _ _ _ _ _ _ _ => true
  | .addTree _ _ _ _ _ => true
  | .copyKids _ _ _ _ _ => true
  | .copyAll _ => true
  | .copyBranch _ _ _ => true
  | _ => false

end Nutree

namespace Nutree.C01
open Nutree T

/-- the invariant of the whole state: every tree is well-formed and all its node ids are below the
shared fresh-id counter. -/
def WFW (w : World) : Prop := 0 < w.next ∧ ∀ t ∈ w.trees, WF t ∧ Fresh t w.next

/-- the empty world satisfies the invariant. -/
theorem WFW_init : WFW {} := ⟨Nat.one_pos, fun t ht => by cases ht⟩

/-! ### the invariant and the ways `step` builds its result -/

theorem WFW.get {w : World} (h : WFW w) {i : Nat} {t : Tree} (hi : w.trees[i]? = some t) :
    WF t ∧ Fresh t w.next := h.2 t (List.mem_of_getElem? hi)

/-- replace tree `i` and (possibly) advance the counter. -/
theorem WFW.set {w : World} (h : WFW w) (i : Nat) {t' : Tree} {n' : NodeId} (hwf : WF t') (hf : Fresh t' n')
    (hle : w.next ≤ n') : WFW { trees := w.trees.set i t', next := n' } :=
  ⟨Nat.lt_of_lt_of_le h.1 hle,
   forall_mem_set i (fun x hx => ⟨(h.2 x hx).1, (h.2 x hx).2.mono hle⟩) ⟨hwf, hf⟩⟩

theorem WFW.setTree {w : World} (h : WFW w) (i : Nat) {t' : Tree} (hwf : WF t') (hf : Fresh t' w.next) :
    WFW (w.setTree i t') ∧ w.next ≤ (w.setTree i t').next :=
  ⟨h.set i hwf hf (Nat.le_refl _), Nat.le_refl _⟩

/-- append a tree and (possibly) advance the counter. -/
theorem WFW.append {w : World} (h : WFW w) {t' : Tree} {n' : NodeId} (hwf : WF t') (hf : Fresh t' n')
    (hle : w.next ≤ n') : WFW { trees := w.trees ++ [t'], next := n' } := by
  refine ⟨Nat.lt_of_lt_of_le h.1 hle, fun x hx => ?_⟩
  rcases List.mem_append.1 hx with hx | hx
  · exact ⟨(h.2 x hx).1, (h.2 x hx).2.mono hle⟩
  · rw [List.mem_singleton.1 hx]; exact ⟨hwf, hf⟩

/-- `World.put`: the result of a multi-node operation on tree `i`. -/
theorem WFW.put {w : World} (h : WFW w) (i : Nat) {r : Tree × NodeId × Option Err} (hr : CopyInv w.next r) :
    WFW (w.put i r).1 ∧ w.next ≤ (w.put i r).1.next :=
  ⟨h.set i hr.1 hr.2.1 hr.2.2, hr.2.2⟩

/-- `World.push`: the result of an operation that creates a new tree (discarded on error). -/
theorem WFW.push {w : World} (h : WFW w) {r : Tree × NodeId × Option Err} (hr : CopyInv w.next r) :
    WFW (w.push r).1 ∧ w.next ≤ (w.push r).1.next := by
  unfold World.push
  split
  · exact ⟨h, Nat.le_refl _⟩
  · exact ⟨h.append hr.1 hr.2.1 hr.2.2, hr.2.2⟩

/-- `World.metaEdit`: a metadata edit of one node. -/
theorem WFW.metaEdit {w : World} (h : WFW w) (i : Nat) (n : NodeId)
    (f : Option (List (String × String)) → Option (List (String × String))) :
    WFW (w.metaEdit i n f).1 ∧ w.next ≤ (w.metaEdit i n f).1.next := by
  rcases World.metaEdit_cases w i n f with h1 | ⟨t, x, hi, _, h1⟩
  · rw [h1]; exact ⟨h, Nat.le_refl _⟩
  · rw [h1]
    obtain ⟨hw, hf⟩ := h.get hi
    exact h.setTree i (setMeta_WF t n _ hw) (setMeta_Fresh hw hf n _)

theorem WFW.same {w : World} (h : WFW w) : WFW w ∧ w.next ≤ w.next := ⟨h, Nat.le_refl _⟩

/-- the source of `add_child(node)` found in a well-formed tree is a sibling-unique source. -/
theorem src_of_findT {s : Tree} (hs : WF s) {n : NodeId} {x : T} (hx : findT n s.root = some x) : Src [x] :=
  Src.singleton_iff.2 (hs.srcT (findT_some_mem hx))

/-! ### every operation preserves the invariant -/

/-- every operation preserves the invariant and never decreases the id counter. -/
theorem step_inv (w : World) (op : Op) (h : WFW w) : WFW (w.step op).1 ∧ w.next ≤ (w.step op).1.next := by
  cases op with
  | newTree typed hook =>
    exact ⟨h.append (WF_emptyTree typed hook) (fresh_emptyTree typed hook h.1) (Nat.le_refl _), Nat.le_refl _⟩
  | add i parent a before did kind =>
    simp only [World.step]
    split
    · exact h.same
    · rename_i t hi
      obtain ⟨hw, hf⟩ := h.get hi
      split
      · rename_i t1 hr
        obtain ⟨h1, h2⟩ := addData_WF t t1 w.next parent a before did kind hw hf hr
        exact ⟨h.set i h1 h2 (Nat.le_succ _), Nat.le_succ _⟩
      · exact h.same
  | addNode i parent si src before deep did kind =>
    simp only [World.step]
    split
    · rename_i t s hi hsi
      obtain ⟨hw, hf⟩ := h.get hi
      split
      · exact h.same
      · rename_i x hx
        have r := C07.addNode_WF t w.next parent x (si == i) (if si == i then t.parentId src else none)
          before deep did kind hw hf (src_of_findT (h.get hsi).1 hx)
        exact h.put i ⟨r.1, r.2.1, r.2.2.1⟩
    · exact h.same
  | addTree i parent si before deep =>
    simp only [World.step]
    split
    · rename_i t s hi hsi
      obtain ⟨hw, hf⟩ := h.get hi
      have r := C07.addTree_WF t w.next parent s.root.kids before deep true hw hf
        ((h.get hsi).1.src_kids (self_mem_flat _))
      exact h.put i ⟨r.1, r.2.1, r.2.2.1⟩
    · exact h.same
  | copyKids i parent si src deep =>
    simp only [World.step]
    split
    · rename_i t s hi hsi
      obtain ⟨hw, hf⟩ := h.get hi
      split
      · exact h.same
      · rename_i x hx
        have r := C07.copyKids_WF t w.next parent x.kids deep hw hf
          ((h.get hsi).1.src_kids (findT_some_mem hx))
        exact h.put i ⟨r.1, r.2.1, r.2.2.1⟩
    · exact h.same
  | copyAll si =>
    simp only [World.step]
    split
    · exact h.same
    · rename_i s hsi
      obtain ⟨t', hr, hwf, hfr, _⟩ := C07.copyAll_faithful s w.next (h.get hsi).1 h.1
      rw [hr]
      exact h.push ⟨hwf, hfr, Nat.le_add_right _ _⟩
  | copyBranch si src addSelf =>
    simp only [World.step]
    split
    · exact h.same
    · rename_i s hsi
      split
      · exact h.same
      · rename_i x hx
        cases addSelf with
        | false =>
          obtain ⟨t', hr, hwf, hfr, _⟩ :=
            C07.copyBranch_faithful s w.next x (h.get hsi).1 h.1 (findT_some_mem hx)
          rw [hr]
          exact h.push ⟨hwf, hfr, Nat.le_add_right _ _⟩
        | true =>
          obtain ⟨t', hr, hwf, hfr, _⟩ :=
            C07.copyBranch_self_faithful s w.next x (h.get hsi).1 h.1 (findT_some_mem hx)
          rw [hr]
          exact h.push ⟨hwf, hfr, Nat.le_add_right _ _⟩
  | move i n to before =>
    simp only [World.step]
    split
    · exact h.same
    · rename_i t hi
      obtain ⟨hw, hf⟩ := h.get hi
      split
      · rename_i t1 hr
        exact h.setTree i (moveTo_WF t t1 n to before hw hr) ((move_remove_Fresh t w.next hf).1 n to before t1 hr)
      · exact h.same
  | moveCross i n => exact h.same
  | remove i n keep clones =>
    simp only [World.step]
    split
    · exact h.same
    · rename_i t hi
      obtain ⟨hw, hf⟩ := h.get hi
      exact h.setTree i (remove_WF t n keep clones hw) ((move_remove_Fresh t w.next hf).2 n keep clones)
  | removeChildren i n =>
    simp only [World.step]
    split
    · exact h.same
    · rename_i t hi
      obtain ⟨hw, hf⟩ := h.get hi
      exact h.setTree i (removeChildren_WF t n hw) (remove_Fresh t n w.next hf).2
  | sort i n key rev deep =>
    simp only [World.step]
    split
    · exact h.same
    · rename_i t hi
      obtain ⟨hw, hf⟩ := h.get hi
      exact h.setTree i (sort_WF t n key rev deep hw) ((data_sort_Fresh t w.next hf).2 n key rev deep)
  | setData i n a did wc rename =>
    simp only [World.step]
    split
    · exact h.same
    · rename_i hn
      split
      · exact h.same
      · rename_i t hi
        obtain ⟨hw, hf⟩ := h.get hi
        split
        · exact h.same
        · split
          · exact h.same
          · split
            · rename_i t1 hr
              exact h.setTree i (setData_WF t t1 n a did wc hw hn hr)
                ((data_sort_Fresh t w.next hf).1 n a did wc t1 hr)
            · exact h.same
  | setMeta i n m =>
    simp only [World.step]
    split
    · exact h.same
    · rename_i t hi
      obtain ⟨hw, hf⟩ := h.get hi
      exact h.setTree i (setMeta_WF t n m hw) (setMeta_Fresh hw hf n m)
  | filter i n v =>
    simp only [World.step]
    split
    · exact h.same
    · rename_i t hi
      obtain ⟨hw, hf⟩ := h.get hi
      exact h.setTree i (C08.filterInPlace_WF t n v hw) (filterInPlace_Fresh t n w.next v hf)
  | filtered si src v =>
    simp only [World.step]
    split
    · exact h.same
    · rename_i s hsi
      split
      · exact h.push (Flt.treeFiltered_WF s w.next v h.1)
      · split
        · exact h.same
        · rename_i x hx
          exact h.push (Flt.nodeFiltered_WF s w.next x v h.1)
  | addVia i ref a via did kind =>
    simp only [World.step]
    split
    · exact h.same
    · rename_i t hi
      obtain ⟨hw, hf⟩ := h.get hi
      split
      · exact h.same
      · rename_i r hr
        split
        · rename_i t1 hadd
          obtain ⟨h1, h2⟩ := addData_WF t t1 w.next r.1 a r.2.1 did r.2.2 hw hf hadd
          exact ⟨h.set i h1 h2 (Nat.le_succ _), Nat.le_succ _⟩
        · exact h.same
  | delItem i a asId =>
    simp only [World.step]
    split
    · exact h.same
    · rename_i t hi
      obtain ⟨hw, hf⟩ := h.get hi
      rcases delItem_cases t a asId with ⟨e, he⟩ | ⟨n, _, hn⟩
      · rw [he]; exact h.setTree i hw hf
      · rw [hn]
        exact h.setTree i (remove_WF t n false false hw) ((move_remove_Fresh t w.next hf).2 n false false)
  | metaSet i n k v => exact h.metaEdit i n _
  | metaClear i n k => exact h.metaEdit i n _
  | metaUpdate i n vals replace => exact h.metaEdit i n _
  | clear i =>
    simp only [World.step]
    split
    · exact h.same
    · rename_i t hi
      obtain ⟨hw, hf⟩ := h.get hi
      exact h.setTree i (removeChildren_WF t 0 hw) (remove_Fresh t 0 w.next hf).2
  | sortTree i key rev deep =>
    simp only [World.step]
    split
    · exact h.same
    · rename_i t hi
      obtain ⟨hw, hf⟩ := h.get hi
      exact h.setTree i (sort_WF t 0 key rev (deep.getD true) hw) ((data_sort_Fresh t w.next hf).2 0 key rev (deep.getD true))

/-- **every operation, with every argument — valid or not, refused or not, with failing
callbacks — preserves the invariant.** -/
theorem step_preserves_WFW (w : World) (op : Op) (h : WFW w) : WFW (w.step op).1 :=
  (step_inv w op h).1

/-- the id counter only grows. -/
theorem step_next_le (w : World) (op : Op) (h : WFW w) : w.next ≤ (w.step op).1.next :=
  (step_inv w op h).2

/-- the invariant along a history started in any state that satisfies it. -/
theorem foldl_step_WFW : ∀ (ops : List Op) (w : World), WFW w →
    WFW (ops.foldl (fun w o => (World.step w o).1) w)
  | [], _, h => h
  | op :: ops, w, h => by
    rw [List.foldl_cons]
    exact foldl_step_WFW ops _ (step_preserves_WFW w op h)

/-- **C01 for all histories**: every state reachable from the empty world is well-formed. -/
theorem C01_main (ops : List Op) : WFW (World.run ops) :=
  foldl_step_WFW ops {} WFW_init

/-- consequences in the words of the property, for every tree of every reachable state: node
identities pairwise distinct (each node appears exactly once), count = number of reachable nodes,
registry and index exact, no two siblings with one data_id; and the decidable check evaluated by the
driver accepts the state. -/
theorem C01_reachable (ops : List Op) (t : Tree) (ht : t ∈ (World.run ops).trees) :
    ((T.flat t.root).map T.id).Nodup ∧ t.byId.length = (T.flatL t.root.kids).length ∧
    (∀ n, n ∈ t.byId ↔ n ∈ (T.flatL t.root.kids).map T.id) ∧ SibUnique t ∧ IndexExact t ∧ wfB t = true := by
  have h : WF t := ((C01_main ops).2 t ht).1
  refine ⟨h.ids, ?_, fun n => h.registry.mem_iff, h.sib, h.index, (wfB_iff t).2 h⟩
  have := h.registry.length_eq
  rwa [List.length_map] at this

/-! ### C13 -/

/-- C13, second sentence: after an operation in which a user callback failed (outcome `.callback`:
a raising `calc_data_id` hook, sort key or filter predicate), the state is still well-formed.
(Instance of `step_preserves_WFW`; the hypothesis `he` is not needed.) -/
theorem callback_failure_WFW (w : World) (op : Op) (h : WFW w) (_he : (w.step op).2 = some .callback) :
    WFW (w.step op).1 :=
  step_preserves_WFW w op h

/-- C13, first sentence, for the single-node operations (`add` and its four shortcuts `addVia`, `move`,
`moveCross`, `setData`, `remove` without clones, `del tree[key]` — KeyError, AmbiguousMatchError, a
raising id hook included —, the metadata edits): a refusal leaves the state unchanged.  No
well-formedness needed. -/
theorem refused_unchanged (w : World) (op : Op) (e : Err) (he : (w.step op).2 = some e)
    (hop : op.atomic = true) : (w.step op).1 = w := by
  cases op with
  | add i parent a before did kind =>
    simp only [World.step] at he ⊢
    split
    · rfl
    · rename_i t hi
      simp only [hi] at he
      split
      · rename_i t1 hr
        simp [hr] at he
      · rfl
  | move i n to before =>
    simp only [World.step] at he ⊢
    split
    · rfl
    · rename_i t hi
      simp only [hi] at he
      split
      · rename_i t1 hr
        simp [hr] at he
      · rfl
  | moveCross i n => rfl
  | setData i n a did wc rename =>
    simp only [World.step] at he ⊢
    split
    · rfl
    · rename_i hn
      rw [if_neg hn] at he
      split
      · rfl
      · rename_i t hi
        simp only [hi] at he
        split
        · rfl
        · rename_i x hx
          simp only [hx] at he
          split
          · rfl
          · rename_i hc
            rw [if_neg hc] at he
            split
            · rename_i t1 hr
              simp [hr] at he
            · rfl
  | remove i n keep clones =>
    cases clones with
    | true => cases hop
    | false =>
      simp only [World.step] at he ⊢
      split
      · rfl
      · rename_i t hi
        simp only [hi] at he
        have := remove_refused_unchanged t n keep e he
        show w.setTree i (t.remove n keep false).1 = w
        rw [this]
        unfold World.setTree
        rw [set_of_getElem? hi]
  | addVia i ref a via did kind =>
    simp only [World.step] at he ⊢
    split
    · rfl
    · rename_i t hi
      simp only [hi] at he
      split
      · rfl
      · rename_i r hr
        simp only [hr] at he
        split
        · rename_i t1 hadd
          simp [hadd] at he
        · rfl
  | delItem i a asId =>
    simp only [World.step] at he ⊢
    split
    · rfl
    · rename_i t hi
      simp only [hi] at he
      have := delItem_refused_unchanged t a asId e he
      show w.setTree i (t.delItem a asId).1 = w
      rw [this]
      unfold World.setTree
      rw [set_of_getElem? hi]
  | metaSet i n k v => exact World.metaEdit_refused he
  | metaClear i n k => exact World.metaEdit_refused he
  | metaUpdate i n vals replace => exact World.metaEdit_refused he
  | clear _ => cases hop
  | sortTree _ _ _ _ => cases hop
  | newTree _ _ => cases hop
  | addNode _ _ _ _ _ _ _ _ => cases hop
  | addTree _ _ _ _ _ => cases hop
  | copyKids _ _ _ _ _ => cases hop
  | copyAll _ => cases hop
  | copyBranch _ _ _ => cases hop
  | removeChildren _ _ => cases hop
  | sort _ _ _ _ _ => cases hop
  | setMeta _ _ _ => cases hop
  | filter _ _ _ => cases hop
  | filtered _ _ _ => cases hop

/-- a refused `put` whose result is the old tree and counter is the old world. -/
theorem put_refused {w : World} {i : Nat} {t : Tree} {r : Tree × NodeId × Option Err}
    (hi : w.trees[i]? = some t) (h1 : r.1 = t) (h2 : r.2.1 = w.next) : (w.put i r).1 = w := by
  show ({ trees := w.trees.set i r.1, next := r.2.1 } : World) = w
  rw [h1, h2, set_of_getElem? hi]

/-- a refused `push` creates nothing. -/
theorem push_refused {w : World} {r : Tree × NodeId × Option Err} {e : Err} (he : (w.push r).2 = some e) :
    (w.push r).1 = w := by
  unfold World.push at he ⊢
  split
  · rfl
  · rename_i hn
    rw [hn] at he
    cases he

/-- C13, stale references: a call that addresses a node which is not (or no longer) in tree `i` — as the node to move,
to remove or to re-key, or as the parent to add below — is refused by the step function, and the whole state stays as it
was (the refusal is `stale_*_refused` of `Properties/C13.lean`, unchanged-ness is `refused_unchanged`). -/
theorem stale_reference_unchanged (w : World) (i : Nat) (t : Tree) (n : NodeId) (hi : w.trees[i]? = some t)
    (hn : findT n t.root = none) :
    (∀ to b, (w.step (.move i n to b)).2 ≠ none ∧ (w.step (.move i n to b)).1 = w) ∧
    (∀ keep, (w.step (.remove i n keep false)).2 ≠ none ∧ (w.step (.remove i n keep false)).1 = w) ∧
    (∀ a d wc rn, (w.step (.setData i n a d wc rn)).2 ≠ none ∧ (w.step (.setData i n a d wc rn)).1 = w) ∧
    (∀ a b d k, (w.step (.add i n a b d k)).2 ≠ none ∧ (w.step (.add i n a b d k)).1 = w) := by
  have key : ∀ op : Op, op.atomic = true → (w.step op).2 ≠ none → (w.step op).2 ≠ none ∧ (w.step op).1 = w := by
    intro op hop hne
    refine ⟨hne, ?_⟩
    cases he : (w.step op).2 with
    | none => exact absurd he hne
    | some e => exact refused_unchanged w op e he hop
  refine ⟨fun to b => key _ rfl ?_, fun keep => key _ rfl ?_, fun a d wc rn => key _ rfl ?_, fun a b d k => key _ rfl ?_⟩
  · simp only [World.step, hi]
    obtain ⟨e, he⟩ := C13.stale_move_refused t n to b hn
    rw [he]; simp
  · simp only [World.step, hi, C13.stale_remove_refused t n keep false hn]; simp
  · simp only [World.step, hi]
    split
    · simp
    · simp [hn]
  · simp only [World.step, hi, C13.stale_parent_refused t w.next n a b d k hn]; simp

/-- …and for the multi-node copies (`add_child(node)`, `add_child(tree)`, `copy_to`, `Tree.copy()`,
`Node.copy()`) under a well-formed state: they refuse up front, so a refusal leaves the state
unchanged.  (For `copyAll` / `copyBranch` the new tree is simply not created.) -/
theorem refused_unchanged_copies (w : World) (op : Op) (e : Err) (h : WFW w) (he : (w.step op).2 = some e)
    (hop : op.copies = true) : (w.step op).1 = w := by
  have hsome : ∀ {o : Option Err}, o = some e → o.isSome = true := fun ho => by rw [ho]; rfl
  cases op with
  | addNode i parent si src before deep did kind =>
    simp only [World.step] at he ⊢
    split
    · rename_i t s hi hsi
      obtain ⟨hw, hf⟩ := h.get hi
      simp only [hi, hsi] at he
      split
      · rfl
      · rename_i x hx
        simp only [hx] at he
        have r := C07.addNode_WF t w.next parent x (si == i) (if si == i then t.parentId src else none)
          before deep did kind hw hf (src_of_findT (h.get hsi).1 hx)
        obtain ⟨h1, h2⟩ := r.2.2.2 (hsome he)
        exact put_refused hi h1 h2
    · rfl
  | addTree i parent si before deep =>
    simp only [World.step] at he ⊢
    split
    · rename_i t s hi hsi
      obtain ⟨hw, hf⟩ := h.get hi
      simp only [hi, hsi] at he
      have r := C07.addTree_WF t w.next parent s.root.kids before deep true hw hf
        ((h.get hsi).1.src_kids (self_mem_flat _))
      obtain ⟨h1, h2⟩ := r.2.2.2 (hsome he)
      exact put_refused hi h1 h2
    · rfl
  | copyKids i parent si src deep =>
    simp only [World.step] at he ⊢
    split
    · rename_i t s hi hsi
      obtain ⟨hw, hf⟩ := h.get hi
      simp only [hi, hsi] at he
      split
      · rfl
      · rename_i x hx
        simp only [hx] at he
        have r := C07.copyKids_WF t w.next parent x.kids deep hw hf
          ((h.get hsi).1.src_kids (findT_some_mem hx))
        obtain ⟨h1, h2⟩ := r.2.2.2 (hsome he)
        exact put_refused hi h1 h2
    · rfl
  | copyAll si =>
    simp only [World.step] at he ⊢
    split
    · rfl
    · rename_i s hsi
      simp only [hsi] at he
      exact push_refused he
  | copyBranch si src addSelf =>
    simp only [World.step] at he ⊢
    split
    · rfl
    · rename_i s hsi
      simp only [hsi] at he
      split
      · rfl
      · rename_i x hx
        simp only [hx] at he
        exact push_refused he
  | newTree _ _ => cases hop
  | add _ _ _ _ _ _ => cases hop
  | move _ _ _ _ => cases hop
  | moveCross _ _ => cases hop
  | remove _ _ _ _ => cases hop
  | removeChildren _ _ => cases hop
  | sort _ _ _ _ _ => cases hop
  | setData _ _ _ _ _ _ => cases hop
  | setMeta _ _ _ => cases hop
  | filter _ _ _ => cases hop
  | filtered _ _ _ => cases hop
  | addVia _ _ _ _ _ _ => cases hop
  | delItem _ _ _ => cases hop
  | metaSet _ _ _ _ => cases hop
  | metaClear _ _ _ => cases hop
  | metaUpdate _ _ _ _ => cases hop
  | clear _ => cases hop
  | sortTree _ _ _ _ => cases hop

end Nutree.C01
