/-
  Nutree.Lemmas.WFRemoveKeep — `remove(keep_children=True)`: the children of the removed node are
  spliced into its parent's child list at its position, the node itself is unregistered.

  * `WF_cut_node` — generalisation of `WF_remove_leaf`: an edit of the child list of `p` that makes
    exactly one node record `i` disappear (and keeps sibling uniqueness), together with
    unregistering `(i.id, i.did)`, keeps the state well-formed.
  * `kids_split`, `splice_*` — list facts about `take (idxOf n l) ++ x.kids ++ drop (idxOf n l + 1)`.
  * `spliceKids`, `removeKeep_eq`, `removeKeep_cases` — unfolding of `Tree.removeKeep`.
  * `WF_removeKeep_splice` — the non-leaf case of `removeKeep` keeps the state well-formed.
  * `ids_removeKeep_subset` — `removeKeep` creates no identities (no well-formedness needed).
  * `foldl_invariant` — invariants of the clone loop of `Tree.remove`.
-/
import Nutree.Lemmas.WFMove
namespace Nutree
open T C10

/-! ### cutting one record out of the child branches of `p` -/

theorem cut_ids_perm {root q : T} {p : NodeId} {g : List T → List T} {i : Info} (hN : C10.IdsNodup root)
    (hp : findT p root = some q) (hg : (infosL (g q.kids) ++ [i]).Perm (infosL q.kids)) :
    ((flat (modT p g root)).map T.id ++ [i.id]).Perm ((flat root).map T.id) := by
  have hK := hg.map Info.id
  rw [List.map_append, ← idsL_eq_infosL, ← idsL_eq_infosL, List.map_cons, List.map_nil] at hK
  have := modT_ids_perm_of (g := g) hN hp (X := []) (Y := [i.id]) (by rw [List.nil_append]; exact hK)
  simpa using this

/-- **Cutting out one node record and unregistering it keeps the state well-formed.**  The edit `g`
of the child list of the node `q` with identity `p` makes exactly the record `i` disappear from the
child branches, the new child list has distinct data ids, and the new child branches consist of old
nodes. -/
theorem WF_cut_node {t t' : Tree} {p : NodeId} {q : T} {g : List T → List T} {i : Info}
    (h : WF t) (hp : findT p t.root = some q)
    (hg : (infosL (g q.kids) ++ [i]).Perm (infosL q.kids))
    (hs1 : ((g q.kids).map T.did).Nodup)
    (hs2 : ∀ y ∈ flatL (g q.kids), y ∈ flatL q.kids)
    (hr : t'.root = modT p g t.root)
    (hi : t'.byId = t.byId.filter (· != i.id)) (hd : t'.byData = delEntry t.byData i.did i.id) : WF t' := by
  have hN := h.idsN
  have hqm := findT_some_mem hp
  have hqN := idsNodup_of_mem_flat hN hqm
  have hkN : (idsL t.root.kids).Nodup := idsNodupL_kids hN
  have hK : (idsL (g q.kids) ++ [i.id]).Perm (idsL q.kids) := by
    have := hg.map Info.id
    rwa [List.map_append, ← idsL_eq_infosL, ← idsL_eq_infosL, List.map_cons, List.map_nil] at this
  have hids : (idsL (modT p g t.root).kids ++ [i.id]).Perm (idsL t.root.kids) := by
    have := modT_kids_ids_perm_of (g := g) hN hp (X := []) (Y := [i.id]) (by rw [List.nil_append]; exact hK)
    simpa using this
  have hinf : (infosL (modT p g t.root).kids ++ [i]).Perm (infosL t.root.kids) := by
    have := modT_kids_infos_perm_of (g := g) hN hp (X := []) (Y := [i]) (by rw [List.nil_append]; exact hg)
    simpa using this
  refine ⟨?_, ?_, ?_, ?_, ?_⟩
  · rw [hr, modT_id]; exact h.rootId
  · unfold IdsNodup; rw [hr]
    have hKN : (idsL (g q.kids) ++ [i.id]).Nodup := hK.nodup_iff.2 (idsNodupL_kids hqN)
    refine modT_idsNodup hN hp (List.nodup_append.1 hKN).1
      (fun a ha => Or.inl (hK.mem_iff.1 (List.mem_append_left _ ha)))
  · unfold RegistryExact
    rw [hr, hi]
    have h1 := perm_filter_of_append_perm hids hkN
    have h2 : t.byId.filter (· != i.id) = t.byId.filter (fun a => decide (a ∉ [i.id])) :=
      List.filter_congr (fun a _ => by by_cases e : a = i.id <;> simp [e])
    rw [h2]
    exact (h.registry.filter _).trans h1.symm
  · refine IndexExact.of_listed (by rw [hd]; exact delEntry_ok h.index.ok) ?_
    intro d m
    rw [hd, hr, listed_delEntry, h.index.listed, exists_node_iff_infosL, exists_node_iff_infosL,
      exists_info_after_removal hinf (by rw [← idsL_eq_infosL]; exact hkN)]
    refine and_congr_right (fun _ => ?_)
    simp only [List.mem_singleton, forall_eq]
  · unfold SibUnique; rw [hr]
    refine sibUnique_modT hN hp h.sib hs1 (fun y hy => ?_)
    exact h.sib y (mem_flat_of_mem_flatL_kids_of_mem (hs2 y hy) hqm)

/-! ### list facts about the splice -/

/-- with distinct child identities the child list splits at the position of `n`. -/
theorem kids_split {n : NodeId} {x : T} : ∀ {l : List T}, (l.map T.id).Nodup → x ∈ l → x.id = n →
    l = l.take (idxOf n l) ++ x :: l.drop (idxOf n l + 1)
  | [], _, h, _ => by simp at h
  | t :: ts, hN, hx, hid => by
    rw [List.map_cons, List.nodup_cons] at hN
    rw [idxOf_cons]
    by_cases ht : t.id = n
    · rw [if_pos ht]
      have : x = t := by
        rcases List.mem_cons.1 hx with h | h
        · exact h
        · exact absurd (List.mem_map.2 ⟨x, h, hid.trans ht.symm⟩) hN.1
      subst this; simp
    · rw [if_neg ht]
      have hx' : x ∈ ts := by
        rcases List.mem_cons.1 hx with h | h
        · exact absurd (h ▸ hid) ht
        · exact h
      have := kids_split hN.2 hx' hid
      simp only [List.take_succ_cons, List.drop_succ_cons, List.cons_append]
      rw [← this]

theorem splice_infos_perm (A B : List T) (x : T) :
    (infosL (A ++ x.kids ++ B) ++ [x.info]).Perm (infosL (A ++ x :: B)) := by
  rw [infosL_append, infosL_append, infosL_append, infosL_cons, infos_eq]
  rw [List.perm_iff_count]
  intro a
  simp only [List.count_append, List.count_cons, List.count_nil]
  omega

theorem splice_did_nodup {A B : List T} {x : T} (h1 : ((A ++ x :: B).map T.did).Nodup)
    (h2 : (x.kids.map T.did).Nodup) (h3 : ∀ c ∈ x.kids, ∀ s ∈ A ++ B, s.did ≠ c.did) :
    ((A ++ x.kids ++ B).map T.did).Nodup := by
  rw [List.map_append, List.map_cons, List.nodup_append, List.nodup_cons] at h1
  obtain ⟨hA, ⟨_, hB⟩, hAB⟩ := h1
  rw [List.map_append, List.map_append, List.nodup_append, List.nodup_append]
  refine ⟨⟨hA, h2, ?_⟩, hB, ?_⟩
  · intro a ha b hb hab
    obtain ⟨s, hs, rfl⟩ := List.mem_map.1 ha
    obtain ⟨c, hc, rfl⟩ := List.mem_map.1 hb
    exact h3 c hc s (List.mem_append_left _ hs) hab
  · intro a ha b hb hab
    obtain ⟨s, hs, rfl⟩ := List.mem_map.1 hb
    rcases List.mem_append.1 ha with ha | ha
    · exact hAB a ha s.did (List.mem_cons_of_mem _ (List.mem_map_of_mem hs)) hab
    · obtain ⟨c, hc, rfl⟩ := List.mem_map.1 ha
      exact h3 c hc s (List.mem_append_right _ hs) hab.symm

theorem splice_flatL_subset {A B : List T} {x y : T} (hy : y ∈ flatL (A ++ x.kids ++ B)) :
    y ∈ flatL (A ++ x :: B) := by
  rw [flatL_append, flatL_append, List.mem_append, List.mem_append] at hy
  rw [flatL_append, flatL_cons, List.mem_append, List.mem_append]
  rcases hy with (h | h) | h
  · exact Or.inl h
  · exact Or.inr (Or.inl (mem_flat_of_mem_flatL_kids h))
  · exact Or.inr (Or.inr h)

/-! ### `removeKeep` unfolded -/

/-- the edit of the parent's child list: the children `ks` take the place of node `n`. -/
def spliceKids (n : NodeId) (ks : List T) : List T → List T :=
  fun l => l.take (idxOf n l) ++ ks ++ l.drop (idxOf n l + 1)

theorem removeKeep_eq {t : Tree} {n p : NodeId} {x par : T} (hx : findT n t.root = some x)
    (hp : t.parentId n = some p) (hpar : findT p t.root = some par) :
    t.removeKeep n =
      if x.kids.isEmpty then .ok (t.removeOne n)
      else if x.kids.any (fun c => par.kids.any fun s => s.id != n && s.did == c.did) then .error .unique
      else .ok ({ t with root := modT p (spliceKids n x.kids) t.root }.unregister n x.did) := by
  unfold Tree.removeKeep
  simp only [hx, hp, hpar]
  rfl

theorem removeKeep_of_findT_none {t : Tree} {n : NodeId} (hx : findT n t.root = none) :
    t.removeKeep n = .error .other := by
  unfold Tree.removeKeep; rw [hx]

theorem removeKeep_of_parent_none {t : Tree} {n : NodeId} (hp : t.parentId n = none) :
    t.removeKeep n = .error .other := by
  unfold Tree.removeKeep; rw [hp]
  cases findT n t.root <;> rfl

/-- a successful `removeKeep` is a plain remove of a leaf or the splice. -/
theorem removeKeep_cases {t t' : Tree} {n : NodeId} (hr : t.removeKeep n = .ok t') :
    ∃ x par, findT n t.root = some x ∧ findParent n t.root = some par ∧
      ((x.kids = [] ∧ t' = t.removeOne n) ∨
       (x.kids ≠ [] ∧ (∃ par', findT par.id t.root = some par' ∧
          ∀ c ∈ x.kids, ∀ s ∈ par'.kids, s.id ≠ n → s.did ≠ c.did) ∧
        t' = { t with root := modT par.id (spliceKids n x.kids) t.root }.unregister n x.did)) := by
  cases hx : findT n t.root with
  | none => rw [removeKeep_of_findT_none hx] at hr; cases hr
  | some x =>
    cases hp : t.parentId n with
    | none => rw [removeKeep_of_parent_none hp] at hr; cases hr
    | some p =>
      obtain ⟨par, hpar, rfl⟩ := parentId_eq_some hp
      refine ⟨x, par, rfl, hpar, ?_⟩
      cases hq : findT par.id t.root with
      | none =>
        unfold Tree.removeKeep at hr
        simp only [hx, hp, hq] at hr
        cases hr
      | some par' =>
        rw [removeKeep_eq hx hp hq] at hr
        split at hr
        · rename_i he
          cases hr
          exact Or.inl ⟨by simpa using he, rfl⟩
        · rename_i he
          split at hr
          · cases hr
          · rename_i hany
            cases hr
            refine Or.inr ⟨by simpa using he, ⟨par', rfl, ?_⟩, rfl⟩
            intro c hc s hs hsn hsd
            apply hany
            refine List.any_eq_true.2 ⟨c, hc, List.any_eq_true.2 ⟨s, hs, ?_⟩⟩
            simp [hsn, hsd]

/-! ### the splice keeps the state well-formed -/

/-- the splice at root level: what `WF_cut_node` needs. -/
theorem splice_facts {root x par : T} {n : NodeId} (d : Detach root x par n)
    (hs : (par.kids.map T.did).Nodup) (hxs : (x.kids.map T.did).Nodup)
    (hu : ∀ c ∈ x.kids, ∀ s ∈ par.kids, s.id ≠ n → s.did ≠ c.did) :
    (infosL (spliceKids n x.kids par.kids) ++ [x.info]).Perm (infosL par.kids) ∧
      ((spliceKids n x.kids par.kids).map T.did).Nodup ∧
      ∀ y ∈ flatL (spliceKids n x.kids par.kids), y ∈ flatL par.kids := by
  have hidN := kids_ids_nodup d.parN
  have hsplit := kids_split hidN d.x_kid d.x_id
  -- members of the two outer parts are children other than `n`
  have hAB : ∀ s ∈ par.kids.take (idxOf n par.kids) ++ par.kids.drop (idxOf n par.kids + 1),
      s ∈ par.kids ∧ s.id ≠ n := by
    intro s hs'
    rw [← eraseId_eq_take_drop hidN (List.mem_map.2 ⟨x, d.x_kid, d.x_id⟩)] at hs'
    exact mem_eraseId.1 hs'
  refine ⟨?_, ?_, ?_⟩
  · have := splice_infos_perm (par.kids.take (idxOf n par.kids)) (par.kids.drop (idxOf n par.kids + 1)) x
    rw [← hsplit] at this
    exact this
  · refine splice_did_nodup (x := x) ?_ hxs ?_
    · rw [← hsplit]; exact hs
    · intro c hc s hs'
      obtain ⟨h1, h2⟩ := hAB s hs'
      exact hu c hc s h1 h2
  · intro y hy
    have := splice_flatL_subset hy
    rwa [← hsplit] at this

/-- **The non-leaf case of `remove(keep_children=True)` keeps the state well-formed.** -/
theorem WF_removeKeep_splice {t t' : Tree} {n : NodeId} {x par : T} (h : WF t)
    (hx : findT n t.root = some x) (hpar : findParent n t.root = some par)
    (hu : ∀ c ∈ x.kids, ∀ s ∈ par.kids, s.id ≠ n → s.did ≠ c.did)
    (hr : t'.root = modT par.id (spliceKids n x.kids) t.root)
    (hi : t'.byId = t.byId.filter (· != n)) (hd : t'.byData = delEntry t.byData x.did n) : WF t' := by
  have d : Detach t.root x par n := ⟨h.idsN, hx, hpar⟩
  obtain ⟨h1, h2, h3⟩ := splice_facts d (h.sib par d.par_mem) (h.sib x d.x_mem) hu
  refine WF_cut_node (i := x.info) h d.findT_par h1 h2 h3 hr ?_ ?_
  · rw [hi, show x.info.id = n from d.x_id]
  · rw [hd, show x.info.id = n from d.x_id]

/-! ### identities after `removeKeep`, without well-formedness -/

theorem idsL_take_subset {l : List T} {k : Nat} {a : NodeId} (h : a ∈ idsL (l.take k)) : a ∈ idsL l :=
  ((flatL_sublist (List.take_sublist k l)).map T.id).subset h

theorem idsL_drop_subset {l : List T} {k : Nat} {a : NodeId} (h : a ∈ idsL (l.drop k)) : a ∈ idsL l :=
  ((flatL_sublist (List.drop_sublist k l)).map T.id).subset h

theorem ids_splice_subset {root x : T} {n p : NodeId} (hx : findT n root = some x) {a : NodeId}
    (ha : a ∈ (flat (modT p (spliceKids n x.kids) root)).map T.id) : a ∈ (flat root).map T.id := by
  rcases mem_ids_modT ha with h | ⟨q, hq, _, haq⟩
  · exact h
  · unfold spliceKids at haq
    rw [idsL_append, idsL_append, List.mem_append, List.mem_append] at haq
    rcases haq with (h | h) | h
    · exact idsL_kids_subset hq (idsL_take_subset h)
    · exact idsL_kids_subset (findT_some_mem hx) h
    · exact idsL_kids_subset hq (idsL_drop_subset h)

theorem ids_removeKeep_subset {t t' : Tree} {n a : NodeId} (hr : t.removeKeep n = .ok t')
    (ha : a ∈ (flat t'.root).map T.id) : a ∈ (flat t.root).map T.id := by
  obtain ⟨x, par, hx, _, ⟨_, rfl⟩ | ⟨_, _, rfl⟩⟩ := removeKeep_cases hr
  · exact ids_removeOne_subset ha
  · exact ids_splice_subset hx ha

/-! ### the clone loop of `Tree.remove` -/

/-- the step function of `Tree.remove`. -/
def removeStep (keepChildren : Bool) (acc : Tree × Option Err) (c : NodeId) : Tree × Option Err :=
  match acc with
  | (t, some e) => (t, some e)
  | (t, none) =>
    if (findT c t.root).isNone then (t, none)
    else if keepChildren then
      match t.removeKeep c with
      | .ok t1 => (t1, none)
      | .error e => (t, some e)
    else (t.removeOne c, none)

theorem remove_eq (t : Tree) (n : NodeId) (keep clones : Bool) :
    t.remove n keep clones =
      match findT n t.root with
      | none => (t, some .other)
      | some x =>
        ((if clones then ((t.byData.lookup x.did).getD []).filter (· != n) else []) ++ [n]).foldl
          (removeStep keep) (t, none) := by
  rfl

/-- a property of the state that every single removal preserves holds after `remove`. -/
theorem remove_invariant {P : Tree → Prop} (hone : ∀ t c, P t → P (t.removeOne c))
    (hkeep : ∀ t t' c, P t → t.removeKeep c = .ok t' → P t')
    (t : Tree) (n : NodeId) (keep clones : Bool) (h : P t) : P (t.remove n keep clones).1 := by
  have hstep : ∀ acc c, P acc.1 → P (removeStep keep acc c).1 := by
    intro acc c hacc
    obtain ⟨t0, e⟩ := acc
    unfold removeStep
    cases e with
    | some e => exact hacc
    | none =>
      simp only
      split
      · exact hacc
      · split
        · split
          · rename_i t1 hk; exact hkeep t0 t1 c hacc hk
          · exact hacc
        · exact hone t0 c hacc
  have hfold : ∀ (l : List NodeId) acc, P acc.1 → P (l.foldl (removeStep keep) acc).1 := by
    intro l
    induction l with
    | nil => intro acc h; exact h
    | cons c l ih => intro acc h; rw [List.foldl_cons]; exact ih _ (hstep acc c h)
  rw [remove_eq]
  split
  · exact h
  · exact hfold _ _ h

end Nutree
