/-
  Helper lemmas for C16, part 2: the traversal with paths, and `renderLines = Spec.lines`.
-/
import Nutree.Lemmas.Format
namespace Nutree
open T C10 Fmt

/-! ### `belowWithPaths` -/

theorem go_nil (sp : List Nat) (k : Nat) : Spec.belowWithPaths.go [] sp k = [] := by
  simp [Spec.belowWithPaths.go]

theorem go_cons (i : Info) (ks ts : List T) (sp : List Nat) (k : Nat) :
    Spec.belowWithPaths.go (T.node i ks :: ts) sp k =
      (sp ++ [k], T.node i ks) ::
        (Spec.belowWithPaths.go ks (sp ++ [k]) 0 ++ Spec.belowWithPaths.go ts sp (k + 1)) := by
  simp [Spec.belowWithPaths.go]

theorem belowWithPaths_eq (t : T) (sp : List Nat) :
    Spec.belowWithPaths t sp = Spec.belowWithPaths.go t.kids sp 0 := by
  cases t; simp [Spec.belowWithPaths]

/-- the traversal with paths visits the nodes in pre-order -/
theorem go_snd : ∀ (ks : List T) (sp : List Nat) (k : Nat),
    (Spec.belowWithPaths.go ks sp k).map Prod.snd = flatL ks := by
  apply forest_induction (Q := fun ks => ∀ (sp : List Nat) (k : Nat),
    (Spec.belowWithPaths.go ks sp k).map Prod.snd = flatL ks)
  · intro sp k; simp [go_nil, flatL]
  · intro i ks ts h1 h2 sp k
    simp [go_cons, flatL, flat, h1, h2]

/-- every pair of the traversal is (path, node at that path) -/
theorem go_sub {root : T} : ∀ (ks : List T) (sp : List Nat) (k : Nat) (par : T),
    root.sub sp = some par → (∀ j, ks[j]? = par.kids[k + j]?) →
    ∀ pn ∈ Spec.belowWithPaths.go ks sp k, root.sub pn.1 = some pn.2 ∧ pn.1 ≠ [] := by
  apply forest_induction (Q := fun ks => ∀ (sp : List Nat) (k : Nat) (par : T),
    root.sub sp = some par → (∀ j, ks[j]? = par.kids[k + j]?) →
    ∀ pn ∈ Spec.belowWithPaths.go ks sp k, root.sub pn.1 = some pn.2 ∧ pn.1 ≠ [])
  · intro sp k par _ _ pn h; simp [go_nil] at h
  · intro i ks ts h1 h2 sp k par hpar hk pn hmem
    have hself : root.sub (sp ++ [k]) = some (T.node i ks) := by
      rw [sub_concat k hpar]
      have := hk 0
      simpa using this.symm
    rw [go_cons] at hmem
    simp only [List.mem_cons, List.mem_append] at hmem
    rcases hmem with h | h | h
    · subst h; exact ⟨hself, by simp⟩
    · exact h1 (sp ++ [k]) 0 (T.node i ks) hself (by intro j; simp) pn h
    · refine h2 sp (k + 1) par hpar ?_ pn h
      intro j
      have := hk (j + 1)
      simp only [List.getElem?_cons_succ] at this
      rw [this]; congr 1; omega

theorem belowWithPaths_snd (t : T) (sp : List Nat) :
    (Spec.belowWithPaths t sp).map Prod.snd = flatL t.kids := by
  rw [belowWithPaths_eq, go_snd]

theorem belowWithPaths_sub {root start : T} {sp : List Nat} (hs : root.sub sp = some start) :
    ∀ pn ∈ Spec.belowWithPaths start sp, root.sub pn.1 = some pn.2 ∧ pn.1 ≠ [] := by
  rw [belowWithPaths_eq]
  exact go_sub start.kids sp 0 start hs (by intro j; simp)

/-! ### `mapM` in `Option` -/

theorem mapM_option_map {α β γ : Type} (f : β → Option γ) (g : α → γ) (h : α → β) :
    ∀ (l : List α), (∀ x ∈ l, f (h x) = some (g x)) → (l.map h).mapM f = some (l.map g)
  | [], _ => by simp
  | a :: l, hl => by
    have h1 := hl a (by simp)
    have h2 := mapM_option_map f g h l (fun x hx => hl x (List.mem_cons_of_mem _ hx))
    simp [List.mapM_cons, h1, h2]

theorem mapM_option_none {β γ : Type} (f : β → Option γ) (hf : ∀ x, f x = none) :
    ∀ (l : List β), l.mapM f = if l.isEmpty then some [] else none
  | [] => by simp
  | a :: l => by simp [List.mapM_cons, hf a]

/-! ### `_render_lines` -/

/-- the start node is the system root iff its path is empty -/
theorem isRoot_iff {root start : T} {sp : List Nat} (hN : IdsNodup root)
    (hs : root.sub sp = some start) : (start.id == root.id) = (sp == []) := by
  rw [Bool.eq_iff_iff]
  simp only [beq_iff_eq]
  constructor
  · intro h
    exact path_unique hN hs (sub_nil root) h
  · intro h; subst h; simp at hs; subst hs; rfl

theorem calcDepth_eq {root start : T} {sp : List Nat} (hN : IdsNodup root)
    (hs : root.sub sp = some start) : calcDepth root start = sp.length := by
  cases sp with
  | nil =>
    simp at hs; subst hs
    simp [calcDepth, chain, parentChain_root hN]
  | cons i r => exact depth_eq root start (i :: r) hN (by simp) hs

/-- `_render_lines` with resolved segments is the specification `Spec.lines`. -/
theorem renderLines_eq {root start : T} {sp : List Nat} (hN : IdsNodup root)
    (hs : root.sub sp = some start) (render : T → String) (style : StyleArg)
    (segs : List String) (hr : resolveStyle style = some segs) (addSelf : Bool) :
    renderLines root start render style addSelf = Spec.lines root start sp render segs addSelf := by
  unfold renderLines Spec.lines
  rw [hr]
  simp only [isRoot_iff hN hs, calcDepth_eq hN hs, iterPre_flat]
  have hself : (if (if (sp == []) = true then false else addSelf) = true then [start] else []) =
      (if (addSelf && sp != []) = true then [start] else []) := by
    cases addSelf <;> cases h : (sp == []) <;> simp [bne, h]
  rw [hself]
  cases hu : unpack segs with
  | none =>
    simp only
    exact mapM_option_none _ (by intro x; simp [getPrefix_none hu]) _
  | some s6 =>
    simp only
    have hnodes : (if (addSelf && sp != []) = true then [start] else []) ++ flatL start.kids =
        ((if (addSelf && sp != []) = true then [(sp, start)] else []) ++
          Spec.belowWithPaths start sp).map Prod.snd := by
      rw [List.map_append, belowWithPaths_snd]
      cases (addSelf && sp != []) <;> simp
    rw [hnodes]
    apply mapM_option_map
    intro pn hmem
    have hpn : root.sub pn.1 = some pn.2 ∧ pn.1 ≠ [] := by
      rw [List.mem_append] at hmem
      rcases hmem with h | h
      · cases hc : (addSelf && sp != []) with
        | false => simp [hc] at h
        | true =>
          simp only [hc, if_true, List.mem_singleton] at h
          subst h
          simp only [Bool.and_eq_true, bne_iff_ne, ne_eq] at hc
          exact ⟨hs, hc.2⟩
      · exact belowWithPaths_sub hs pn h
    rw [getPrefix_eq hN hpn.2 hpn.1 hu]
    rfl

end Nutree
