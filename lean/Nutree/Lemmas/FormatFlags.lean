/-
  Helper lemmas for C16, part 4: the segments of a prefix determine the is-last flags of the
  ancestors and (is-last, has-children) of the node.
-/
import Nutree.Lemmas.Format
namespace Nutree
open T Fmt

/-- a node in a printed level: ancestor segments, then exactly one own connector -/
theorem prefixParts_printed (root : T) (s6 : Spec.Segs6) (lstrip : Nat) (p : List Nat) (n : T)
    (hd : lstrip ≤ p.length - 1) :
    Spec.prefixParts root s6 lstrip p n =
      ((Spec.prefixes p.dropLast).drop lstrip).map (fun q => if Spec.lastAt root q then s6.1 else s6.2.1)
      ++ [if n.kids.isEmpty then (if Spec.lastAt root p then s6.2.2.1 else s6.2.2.2.1)
          else (if Spec.lastAt root p then s6.2.2.2.2.1 else s6.2.2.2.2.2)] := by
  obtain ⟨s0, s1, s2, s3, s4, s5⟩ := s6
  unfold Spec.prefixParts
  simp only [ge_iff_le, hd, if_true]

/-- a node in a stripped level has an empty prefix -/
theorem prefixParts_stripped (root : T) (s6 : Spec.Segs6) (lstrip : Nat) (p : List Nat) (n : T)
    (hd : ¬ lstrip ≤ p.length - 1) : Spec.prefixParts root s6 lstrip p n = [] := by
  obtain ⟨s0, s1, s2, s3, s4, s5⟩ := s6
  unfold Spec.prefixParts
  simp only [ge_iff_le, hd, if_false, List.append_nil, List.map_eq_nil_iff, List.drop_eq_nil_iff,
    prefixes_length, List.length_dropLast]
  omega

theorem decodeAnc_ite (s6 : Spec.Segs6) (h01 : s6.1 ≠ s6.2.1) (b : Bool) :
    Spec.decodeAnc s6 (if b then s6.1 else s6.2.1) = b := by
  cases b
  · simp [Spec.decodeAnc, Ne.symm h01]
  · simp [Spec.decodeAnc]

theorem decodeOwn_ite (s6 : Spec.Segs6) (h23 : s6.2.2.1 ≠ s6.2.2.2.1)
    (h45 : s6.2.2.2.2.1 ≠ s6.2.2.2.2.2) (h24 : s6.2.2.1 ≠ s6.2.2.2.2.1)
    (h25 : s6.2.2.1 ≠ s6.2.2.2.2.2) (h34 : s6.2.2.2.1 ≠ s6.2.2.2.2.1)
    (h35 : s6.2.2.2.1 ≠ s6.2.2.2.2.2) (leaf last : Bool) :
    Spec.decodeOwn s6 (if leaf then (if last then s6.2.2.1 else s6.2.2.2.1)
        else (if last then s6.2.2.2.2.1 else s6.2.2.2.2.2)) = (last, !leaf) := by
  cases leaf <;> cases last <;>
    simp [Spec.decodeOwn, h24, h25, h34, h35, Ne.symm h23, Ne.symm h45, Ne.symm h25]

theorem decodeOwnLast_ite (s6 : Spec.Segs6) (h23 : s6.2.2.1 ≠ s6.2.2.2.1)
    (h25 : s6.2.2.1 ≠ s6.2.2.2.2.2) (h43 : s6.2.2.2.2.1 ≠ s6.2.2.2.1)
    (h45 : s6.2.2.2.2.1 ≠ s6.2.2.2.2.2) (leaf last : Bool) :
    Spec.decodeOwnLast s6 (if leaf then (if last then s6.2.2.1 else s6.2.2.2.1)
        else (if last then s6.2.2.2.2.1 else s6.2.2.2.2.2)) = last := by
  cases leaf <;> cases last <;>
    simp [Spec.decodeOwnLast, Ne.symm h23, Ne.symm h45, Ne.symm h43, Ne.symm h25]

theorem map_decodeAnc (root : T) (s6 : Spec.Segs6) (h01 : s6.1 ≠ s6.2.1) (qs : List (List Nat)) :
    (qs.map (fun q => if Spec.lastAt root q then s6.1 else s6.2.1)).map (Spec.decodeAnc s6) =
      qs.map (Spec.lastAt root) := by
  rw [List.map_map]
  apply List.map_congr_left
  intro q _
  exact decodeAnc_ite s6 h01 _

end Nutree
