/-
  Nutree.Lemmas.Filter — the registry-free description of "remove these nodes":
  `eraseIds rm` cuts every subtree whose root identity is listed in `rm` out of a tree value,
  and folding `Tree.removeOne` over `rm` does exactly that to the tree value of a state with
  pairwise distinct identities (`foldl_removeOne_root`).  Order and repetitions in `rm` are
  irrelevant (`eraseIdsL_congr`), removing below an already removed node is a no-op
  (`eraseIds_append`).
-/
import Nutree.Model.Filter
import Nutree.Spec.WF
import Nutree.Lemmas.WFRemove
namespace Nutree
open T C10
namespace Flt

mutual
/-- cut out every subtree (strictly below the top) whose root identity is in `rm`. -/
def eraseIds (rm : List NodeId) : T → T
  | .node i ks => .node i (eraseIdsL rm ks)
/-- forest version: members listed in `rm` disappear with their branches. -/
def eraseIdsL (rm : List NodeId) : List T → List T
  | [] => []
  | t :: ts => if t.id ∈ rm then eraseIdsL rm ts else eraseIds rm t :: eraseIdsL rm ts
end

@[simp] theorem eraseIdsL_nil (rm : List NodeId) : eraseIdsL rm [] = [] := by simp [eraseIdsL]

theorem eraseIdsL_cons (rm : List NodeId) (t : T) (ts : List T) :
    eraseIdsL rm (t :: ts) = if t.id ∈ rm then eraseIdsL rm ts else eraseIds rm t :: eraseIdsL rm ts := by
  simp [eraseIdsL]

theorem eraseIds_node (rm : List NodeId) (i : Info) (ks : List T) :
    eraseIds rm (.node i ks) = .node i (eraseIdsL rm ks) := by simp [eraseIds]

theorem eraseIds_eq (rm : List NodeId) (t : T) : eraseIds rm t = .node t.info (eraseIdsL rm t.kids) := by
  cases t; rw [eraseIds_node]; rfl

@[simp] theorem eraseIds_info (rm : List NodeId) (t : T) : (eraseIds rm t).info = t.info := by
  rw [eraseIds_eq]; rfl

@[simp] theorem eraseIds_id (rm : List NodeId) (t : T) : (eraseIds rm t).id = t.id := by
  show (eraseIds rm t).info.id = t.info.id; rw [eraseIds_info]

@[simp] theorem eraseIds_kids (rm : List NodeId) (t : T) : (eraseIds rm t).kids = eraseIdsL rm t.kids := by
  rw [eraseIds_eq]; rfl

/-- de-mutualised form. -/
theorem eraseIdsL_eq_map (rm : List NodeId) : ∀ ks : List T,
    eraseIdsL rm ks = (ks.filter (fun k => decide (k.id ∉ rm))).map (eraseIds rm)
  | [] => by simp
  | t :: ts => by
    rw [eraseIdsL_cons, eraseIdsL_eq_map rm ts, List.filter_cons]
    by_cases h : t.id ∈ rm <;> simp [h]

theorem mem_eraseIdsL {rm : List NodeId} {ks : List T} {y : T} :
    y ∈ eraseIdsL rm ks ↔ ∃ k ∈ ks, k.id ∉ rm ∧ y = eraseIds rm k := by
  rw [eraseIdsL_eq_map]
  simp only [List.mem_map, List.mem_filter, decide_eq_true_eq]
  constructor
  · rintro ⟨k, ⟨hk, hr⟩, rfl⟩; exact ⟨k, hk, hr, rfl⟩
  · rintro ⟨k, hk, hr, rfl⟩; exact ⟨k, ⟨hk, hr⟩, rfl⟩

theorem eraseIdsL_append (rm : List NodeId) (a b : List T) :
    eraseIdsL rm (a ++ b) = eraseIdsL rm a ++ eraseIdsL rm b := by
  simp [eraseIdsL_eq_map]

/-- only the membership of the identities that occur matters. -/
theorem eraseIds_congr {rm rm' : List NodeId} : ∀ {t : T},
    (∀ a ∈ idsL t.kids, a ∈ rm ↔ a ∈ rm') → eraseIds rm t = eraseIds rm' t := by
  intro t
  induction t using T.ind with
  | node i ks ih =>
    intro h
    rw [eraseIds_node, eraseIds_node]
    congr 1
    simp only [kids_node] at h
    induction ks with
    | nil => simp
    | cons k ks ihk =>
      rw [idsL_cons] at h
      have hk : k.id ∈ rm ↔ k.id ∈ rm' :=
        h _ (List.mem_append_left _ (by rw [ids_eq]; exact List.mem_cons_self))
      have h2 := ihk (fun c hc => ih c (List.mem_cons_of_mem _ hc))
        (fun a ha => h a (List.mem_append_right _ ha))
      have h1 := ih k List.mem_cons_self
        (fun a ha => h a (List.mem_append_left _ (by rw [ids_eq]; exact List.mem_cons_of_mem _ ha)))
      rw [eraseIdsL_cons, eraseIdsL_cons, h1, h2]
      by_cases e : k.id ∈ rm
      · rw [if_pos e, if_pos (hk.1 e)]
      · rw [if_neg e, if_neg (fun e' => e (hk.2 e'))]

theorem eraseIdsL_congr {rm rm' : List NodeId} {ks : List T}
    (h : ∀ a ∈ idsL ks, a ∈ rm ↔ a ∈ rm') : eraseIdsL rm ks = eraseIdsL rm' ks := by
  have := eraseIds_congr (rm := rm) (rm' := rm') (t := .node default ks) (by simpa using h)
  rw [eraseIds_node, eraseIds_node] at this
  injection this

/-- nothing listed occurs: nothing happens. -/
theorem eraseIdsL_of_disjoint {rm : List NodeId} {ks : List T} (h : ∀ a ∈ rm, a ∉ idsL ks) :
    eraseIdsL rm ks = ks := by
  have h0 : ∀ ks : List T, eraseIdsL [] ks = ks := by
    intro ks
    have : ∀ t : T, eraseIds [] t = t := by
      intro t
      induction t using T.ind with
      | node i ks ih =>
        rw [eraseIds_node, eraseIdsL_eq_map, List.filter_eq_self.2 (by simp)]
        congr 1
        exact (List.map_congr_left ih).trans (List.map_id' ks)
    rw [eraseIdsL_eq_map, List.filter_eq_self.2 (by simp)]
    exact (List.map_congr_left (fun c _ => this c)).trans (List.map_id' ks)
  rw [eraseIdsL_congr (rm' := []) (fun a ha => ⟨fun hr => absurd ha (h a hr), fun hr => by simp at hr⟩), h0]

theorem eraseIds_of_disjoint {rm : List NodeId} {t : T} (h : ∀ a ∈ rm, a ∉ idsL t.kids) :
    eraseIds rm t = t := by
  rw [eraseIds_eq, eraseIdsL_of_disjoint h, T.eta]

/-- all children listed: nothing is left. -/
theorem eraseIdsL_of_all_mem {rm : List NodeId} {ks : List T} (h : ∀ k ∈ ks, k.id ∈ rm) :
    eraseIdsL rm ks = [] := by
  rw [eraseIdsL_eq_map, List.map_eq_nil_iff, List.filter_eq_nil_iff]
  intro k hk; simpa using h k hk

/-- erasing twice = erasing the union; in particular the order of the removals is irrelevant and
removing a node below an already removed one changes nothing. -/
theorem eraseIds_append (r1 r2 : List NodeId) : ∀ t : T,
    eraseIds r2 (eraseIds r1 t) = eraseIds (r1 ++ r2) t := by
  intro t
  induction t using T.ind with
  | node i ks ih =>
    rw [eraseIds_node, eraseIds_node, eraseIds_node]
    congr 1
    induction ks with
    | nil => simp
    | cons k ks ihk =>
      have h2 := ihk (fun c hc => ih c (List.mem_cons_of_mem _ hc))
      rw [eraseIdsL_cons, eraseIdsL_cons]
      by_cases e1 : k.id ∈ r1
      · rw [if_pos e1, if_pos (List.mem_append_left _ e1), h2]
      · rw [if_neg e1, eraseIdsL_cons, eraseIds_id]
        by_cases e2 : k.id ∈ r2
        · rw [if_pos e2, if_pos (List.mem_append_right _ e2), h2]
        · rw [if_neg e2, if_neg (by simp [e1, e2]), h2, ih k List.mem_cons_self]

theorem eraseIdsL_append_rm (r1 r2 : List NodeId) (ks : List T) :
    eraseIdsL r2 (eraseIdsL r1 ks) = eraseIdsL (r1 ++ r2) ks := by
  have := eraseIds_append r1 r2 (.node default ks)
  rw [eraseIds_node, eraseIds_node, eraseIds_node] at this
  injection this

/-- the surviving nodes, in their original order. -/
theorem infos_eraseIds_sublist (rm : List NodeId) : ∀ t : T,
    ((flat (eraseIds rm t)).map T.info).Sublist ((flat t).map T.info) := by
  intro t
  induction t using T.ind with
  | node i ks ih =>
    rw [eraseIds_node, flat_node, flat_node, List.map_cons, List.map_cons]
    refine List.Sublist.cons_cons _ ?_
    induction ks with
    | nil => simp
    | cons k ks ihk =>
      have h2 := ihk (fun c hc => ih c (List.mem_cons_of_mem _ hc))
      rw [eraseIdsL_cons, flatL_cons, List.map_append]
      by_cases e : k.id ∈ rm
      · rw [if_pos e]; exact h2.trans (List.sublist_append_right _ _)
      · rw [if_neg e, flatL_cons, List.map_append]
        exact List.Sublist.append (ih k List.mem_cons_self) h2

theorem ids_eraseIds_sublist (rm : List NodeId) (t : T) :
    ((flat (eraseIds rm t)).map T.id).Sublist ((flat t).map T.id) := by
  have := (infos_eraseIds_sublist rm t).map Info.id
  simpa [List.map_map, Function.comp_def] using this

theorem idsNodup_eraseIds {rm : List NodeId} {t : T} (hN : C10.IdsNodup t) : C10.IdsNodup (eraseIds rm t) :=
  List.Nodup.sublist (ids_eraseIds_sublist rm t) hN

theorem idsL_eraseIdsL_sublist (rm : List NodeId) (ks : List T) :
    (idsL (eraseIdsL rm ks)).Sublist (idsL ks) := by
  have := ids_eraseIds_sublist rm (.node default ks)
  rw [eraseIds_node, flat_node, flat_node, List.map_cons, List.map_cons] at this
  exact (List.cons_sublist_cons.1 this)

/-! ### one `removeOne` = one erasure -/

theorem size_le_of_mem_flat {x t : T} (h : x ∈ flat t) : x.size ≤ t.size := by
  obtain ⟨p, hp⟩ := exists_sub_of_mem_flat h
  have := length_add_size_le hp
  omega

theorem size_lt_of_mem_kids {c t : T} (h : c ∈ t.kids) : c.size < t.size := by
  obtain ⟨k, hk⟩ := List.mem_iff_getElem?.1 h
  have := size_le_sizeL hk
  rw [size_eq t]; omega

/-- editing below a node that is cut out anyway. -/
theorem eraseIdsL_map_modT {rm : List NodeId} {n : NodeId} (g : List T → List T) (hn : n ∈ rm) :
    ∀ ks : List T, eraseIdsL rm (ks.map (modT n g)) = eraseIdsL rm ks := by
  intro ks
  have key : ∀ t : T, t.id ≠ n → eraseIds rm (modT n g t) = eraseIds rm t := by
    intro t
    induction t using T.ind with
    | node i ks ih =>
      intro hne
      rw [modT_node, if_neg (by simpa using hne), eraseIds_node, eraseIds_node]
      congr 1
      clear hne
      induction ks with
      | nil => simp
      | cons k ks ihk =>
        have h2 := ihk (fun c hc => ih c (List.mem_cons_of_mem _ hc))
        rw [List.map_cons, eraseIdsL_cons, eraseIdsL_cons, modT_id, h2]
        by_cases e : k.id ∈ rm
        · rw [if_pos e, if_pos e]
        · rw [if_neg e, if_neg e, ih k List.mem_cons_self (fun h => e (h ▸ hn))]
  induction ks with
  | nil => simp
  | cons k ks ihk =>
    rw [List.map_cons, eraseIdsL_cons, eraseIdsL_cons, modT_id, ihk]
    by_cases e : k.id ∈ rm
    · rw [if_pos e, if_pos e]
    · rw [if_neg e, if_neg e, key k (fun h => e (h ▸ hn))]

theorem eraseIds_modT {rm : List NodeId} {n : NodeId} (g : List T → List T) (hn : n ∈ rm) {t : T}
    (ht : t.id ≠ n) : eraseIds rm (modT n g t) = eraseIds rm t := by
  rw [modT_of_id_ne ht, eraseIds_node, eraseIdsL_map_modT g hn, ← eraseIds_eq]

/-- among children with distinct identities, erasing one child by identity. -/
theorem eraseIdsL_singleton_eq_eraseId {n : NodeId} {ks : List T} (hN : IdsNodupL ks)
    (hn : n ∈ ks.map T.id) : eraseIdsL [n] ks = eraseId n ks := by
  rw [eraseIdsL_eq_map]
  unfold eraseId
  have hf : ks.filter (fun k => decide (k.id ∉ [n])) = ks.filter (fun k => k.id != n) :=
    List.filter_congr (fun k _ => by by_cases e : k.id = n <;> simp [e])
  rw [hf]
  refine (List.map_congr_left ?_).trans (List.map_id' _)
  intro c hc
  obtain ⟨hc', hcn⟩ := List.mem_filter.1 hc
  replace hc := hc'
  replace hcn : c.id ≠ n := by simpa using hcn
  refine eraseIds_of_disjoint ?_
  intro a ha hm
  rw [List.mem_singleton] at ha; subst ha
  obtain ⟨d, hd, hdn⟩ := List.mem_map.1 hn
  obtain ⟨y, hy, hya⟩ := mem_idsL.1 hm
  have := idsNodupL_disjoint hN hc hd (mem_flat_of_mem_flatL_kids hy) (self_mem_flat d) (hya.trans hdn.symm)
  exact hcn (this ▸ hdn)

/-- cutting a child out of its parent's list = erasing its identity from the tree. -/
theorem modT_eraseId_eq_eraseIds {n : NodeId} : ∀ {root par : T}, C10.IdsNodup root →
    findParent n root = some par → modT par.id (eraseId n) root = eraseIds [n] root := by
  intro root
  induction root using T.ind with
  | node i ks ih =>
    intro par hN hpar
    obtain ⟨hpm, c, hc, hcn⟩ := findParent_some_mem hpar
    by_cases hip : i.id = par.id
    · have : par = .node i ks := eq_of_id_eq hN hpm (self_mem_flat _) hip.symm
      subst this
      rw [modT_node, if_pos hip, eraseIds_node]
      congr 1
      exact (eraseIdsL_singleton_eq_eraseId (idsNodupL_kids hN) (List.mem_map.2 ⟨c, hc, hcn⟩)).symm
    · rw [modT_node, if_neg hip, eraseIds_node]
      congr 1
      rw [flat_node, List.mem_cons] at hpm
      rcases hpm with rfl | hpm
      · exact absurd rfl hip
      obtain ⟨k, hk, hpk⟩ := mem_flatL.1 hpm
      have hkN : IdsNodupL ks := idsNodupL_kids hN
      have hcflat : c ∈ flat k := mem_flat_trans (mem_flat_of_mem_kids hc) hpk
      rw [eraseIdsL_eq_map]
      have hf : ks.filter (fun k => decide (k.id ∉ [n])) = ks := by
        refine List.filter_eq_self.2 ?_
        intro d hd
        simp only [List.mem_singleton, decide_not, Bool.not_eq_eq_eq_not, Bool.not_true,
          decide_eq_false_iff_not]
        intro hdn
        have hdk := idsNodupL_disjoint hkN hd hk (self_mem_flat d) hcflat (hdn.trans hcn.symm)
        subst hdk
        -- `d = k` is the child `c` of `par`, but `par ∈ flat d`
        have hcd : c = d := eq_of_id_eq (idsNodup_of_mem hkN hd) hcflat (self_mem_flat d) (hcn.trans hdn.symm)
        subst hcd
        have h1 := size_le_of_mem_flat hpk
        have h2 := size_lt_of_mem_kids hc
        omega
      rw [hf]
      refine List.map_congr_left ?_
      intro d hd
      by_cases hdk : d = k
      · subst hdk
        refine ih d hd (idsNodup_of_mem hkN hd) ?_
        exact (findParent_eq_some_iff (idsNodup_of_mem hkN hd)).2 ⟨hpk, ⟨c, hc, hcn⟩⟩
      · have hp' : par.id ∉ (flat d).map T.id := by
          intro hm
          obtain ⟨y, hy, hyp⟩ := mem_ids.1 hm
          exact hdk (idsNodupL_disjoint hkN hd hk hy hpk hyp)
        rw [modT_of_not_mem hp']
        refine (eraseIds_of_disjoint ?_).symm
        intro a ha hm
        rw [List.mem_singleton] at ha; subst ha
        obtain ⟨y, hy, hya⟩ := mem_idsL.1 hm
        exact hdk (idsNodupL_disjoint hkN hd hk (mem_flat_of_mem_flatL_kids hy) hcflat (hya.trans hcn.symm))

/-- strict descendants of a strict descendant. -/
theorem idsL_kids_subset_kids {k x : T} (hx : x ∈ flatL k.kids) {a : NodeId} (ha : a ∈ idsL x.kids) :
    a ∈ idsL k.kids := by
  obtain ⟨y, hy, hya⟩ := mem_idsL.1 ha
  obtain ⟨c, hc, hxc⟩ := mem_flatL.1 hx
  exact mem_idsL.2 ⟨y, mem_flatL.2 ⟨c, hc, mem_flat_trans (mem_flat_of_mem_flatL_kids hy) hxc⟩, hya⟩

/-- a node none of whose ancestors is erased survives (with its own branch erased). -/
theorem mem_flat_eraseIds {R : List NodeId} {x : T} (hR : ∀ a ∈ R, a ∈ idsL x.kids) :
    ∀ {root : T}, C10.IdsNodup root → x ∈ flat root → eraseIds R x ∈ flat (eraseIds R root) := by
  intro root
  induction root using T.ind with
  | node i ks ih =>
    intro hN hx
    rw [flat_node, List.mem_cons] at hx
    rcases hx with rfl | hx
    · exact self_mem_flat _
    · obtain ⟨k, hk, hxk⟩ := mem_flatL.1 hx
      have hkN := idsNodup_of_mem (idsNodupL_kids hN) hk
      have hkR : k.id ∉ R := by
        intro hkR
        have h1 := hR _ hkR
        rw [flat_eq, List.mem_cons] at hxk
        rcases hxk with rfl | hxk
        · exact id_not_mem_idsL_kids hkN h1
        · exact id_not_mem_idsL_kids hkN (idsL_kids_subset_kids hxk h1)
      rw [eraseIds_node, flat_node]
      refine List.mem_cons_of_mem _ (mem_flatL.2 ⟨eraseIds R k, mem_eraseIdsL.2 ⟨k, hk, hkR, rfl⟩, ?_⟩)
      exact ih k hk hkN hxk

theorem findT_eraseIds {R : List NodeId} {root x : T} {n : NodeId} (hN : C10.IdsNodup root)
    (hx : findT n root = some x) (hR : ∀ a ∈ R, a ∈ idsL x.kids) :
    findT n (eraseIds R root) = some (eraseIds R x) := by
  have := findT_of_mem (idsNodup_eraseIds (rm := R) hN) (mem_flat_eraseIds hR hN (findT_some_mem hx))
  rwa [eraseIds_id, findT_some_id hx] at this

/-- **one plain `remove()` on the tree value is the erasure of that identity** (also when the
node does not exist, is the root, or was removed before: then both sides do nothing). -/
theorem removeOne_root_eq_eraseIds {t : Tree} (hN : C10.IdsNodup t.root) (n : NodeId) :
    (t.removeOne n).root = eraseIds [n] t.root := by
  cases hpar : findParent n t.root with
  | none =>
    have hnk : n ∉ idsL t.root.kids := findParent_eq_none.1 hpar
    have h1 : t.removeOne n = t := by
      cases hx : findT n t.root with
      | none => exact removeOne_of_findT_none hx
      | some x => exact removeOne_of_parent_none (by unfold Tree.parentId; rw [hpar]; rfl)
    rw [h1]
    refine (eraseIds_of_disjoint ?_).symm
    intro a ha; rw [List.mem_singleton] at ha; subst ha; exact hnk
  | some par =>
    obtain ⟨hpm, c, hc, hcn⟩ := findParent_some_mem hpar
    have hcm : c ∈ flat t.root := mem_flat_trans (mem_flat_of_mem_kids hc) hpm
    have hx : findT n t.root = some c := hcn ▸ findT_of_mem hN hcm
    have hp : t.parentId n = some par.id := by unfold Tree.parentId; rw [hpar]; rfl
    have hnk : n ∉ idsL c.kids := by
      have := id_not_mem_idsL_kids (idsNodup_of_mem_flat hN hcm)
      rwa [hcn] at this
    have hrn : t.root.id ≠ n := by
      intro e
      refine id_not_mem_idsL_kids hN ?_
      rw [e]
      exact mem_idsL.2 ⟨c, mem_flatL_root_kids_of_mem_kids hpm hc, hcn⟩
    have hN1 : C10.IdsNodup (modT n (fun _ => []) t.root) := modT_idsNodup hN hx (by simp) (by simp)
    have hpar1 : findParent n (modT n (fun _ => []) t.root) = some (modT n (fun _ => []) par) := by
      rw [findParent_modT_of hN hx hnk (by simp), hpar]; rfl
    rw [removeOne_root hx hp]
    have := modT_eraseId_eq_eraseIds hN1 hpar1
    rw [modT_id] at this
    rw [this]
    exact eraseIds_modT _ (by simp) hrn

/-- **(1) folding `removeOne` over a removal list = erasing those subtrees**, on the tree value. -/
theorem foldl_removeOne_root : ∀ (rm : List NodeId) {t : Tree}, C10.IdsNodup t.root →
    (rm.foldl (fun t n => t.removeOne n) t).root = eraseIds rm t.root
  | [], t, _ => by
    rw [List.foldl_nil]
    exact (eraseIds_of_disjoint (by simp)).symm
  | n :: rm, t, hN => by
    have h1 := removeOne_root_eq_eraseIds hN n
    have hN1 : C10.IdsNodup (t.removeOne n).root := by rw [h1]; exact idsNodup_eraseIds hN
    rw [List.foldl_cons, foldl_removeOne_root rm hN1, h1, eraseIds_append]
    rfl

end Flt
end Nutree
