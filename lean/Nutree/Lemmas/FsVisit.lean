/-
The literal transcription `visit` (sort, then recurse) equals the structural model `scan`
(recurse, then sort).
-/
import Nutree.Lemmas.FsScan
namespace Nutree.Fs

theorem depth_le_of_mem : ∀ {es : List Dir} {d : Dir}, d ∈ es → d.depth ≤ depthL es
  | e :: es, d, h => by
    rw [depthL]
    rcases List.mem_cons.1 h with rfl | h
    · exact Nat.le_max_left _ _
    · exact Nat.le_trans (depth_le_of_mem h) (Nat.le_max_right _ _)

theorem scanEach_eq_map (srt sort) (es : List Dir) :
    scanEachWith srt sort es = es.map (scanOneWith srt sort) := by
  induction es with
  | nil => simp [scanEachWith]
  | cons d l ih => simp [scanEachWith, ih]

theorem scanOne_dir (sort : Bool) (n : String) (es : List Dir) :
    scanOne sort (.dir n es) = .node n true 0 none (scan sort es) := by
  simp [scanOneWith, scan, scanWith]

theorem visitFuel_eq_scan : ∀ (fuel : Nat) (sort : Bool) (es : List Dir), depthL es < fuel →
    visitFuel fuel sort es = scan sort es
  | 0, _, _, h => absurd h (Nat.not_lt_zero _)
  | fuel + 1, sort, es, h => by
    -- every sub-directory is shallower
    have hsub : ∀ d ∈ es, ∀ n sub, d = Dir.dir n sub → visitFuel fuel sort sub = scan sort sub := by
      intro d hd n sub e
      subst e
      have := depth_le_of_mem hd
      rw [Dir.depth] at this
      exact visitFuel_eq_scan fuel sort sub (by omega)
    cases sort with
    | false =>
      rw [visitFuel, scan, scanWith, arrange_false, scanEach_eq_map]
      apply List.map_congr_left
      intro d hd
      cases d with
      | file n s m => simp [Dir.isDir, entryNode, scanOneWith]
      | dir n sub =>
        have e := scanOne_dir false n sub
        simp only [scanOne] at e
        simp [Dir.isDir, Dir.name, Dir.entries, hsub _ hd n sub rfl, e]
    | true =>
      have hf : (fun k : FNode => !k.isDir) ∘ scanOne true = fun c : Dir => !c.isDir := by
        funext c; simp [isDir_scanOne]
      have hd : (fun k : FNode => k.isDir) ∘ scanOne true = fun c : Dir => c.isDir := by
        funext c; simp [isDir_scanOne]
      have hle : ∀ (l : List Dir), ∀ a ∈ l, ∀ b ∈ l, leDir a b = leName (scanOne true a) (scanOne true b) := by
        intro l a _ b _; simp [leDir, leName, name_scanOne]
      rw [visitFuel, scan, scanWith, arrange_true, scanEach_eq_map]
      simp only [files, dirs, List.filter_map, hf, hd, sortByName]
      rw [← List.map_mergeSort (hle _), ← List.map_mergeSort (hle _)]
      congr 1
      · apply List.map_congr_left
        intro d hdm
        have := (List.mem_filter.1 ((List.mergeSort_perm _ _).mem_iff.1 hdm)).2
        cases d with
        | file n s m => simp [entryNode, scanOneWith]
        | dir n sub => simp [Dir.isDir] at this
      · apply List.map_congr_left
        intro d hdm
        have hm := List.mem_filter.1 ((List.mergeSort_perm _ _).mem_iff.1 hdm)
        cases d with
        | file n s m => have := hm.2; simp [Dir.isDir] at this
        | dir n sub =>
          have e := scanOne_dir true n sub
          simp only [scanOne] at e
          simp [Dir.name, Dir.entries, hsub _ hm.1 n sub rfl, e]

end Nutree.Fs
