/-
  Nutree.Lemmas.SerialList — structure of the written node list:
  `enumerate` (pre-order rows with index and parent index) and `toList` as a stateful map
  (`payloads`) over the rows.
-/
import Nutree.Model.Serial
import Nutree.Lemmas.Prim
namespace Nutree.Ser
open Nutree T

/-! ## forest induction -/

/-- induction over a forest in the way `enumerate` recurses: children of the head, then the tail. -/
theorem forest_ind {motive : List T → Prop} (nil : motive [])
    (cons : ∀ i ks rest, motive ks → motive rest → motive (T.node i ks :: rest)) : ∀ ks, motive ks
  | [] => nil
  | .node i ks :: rest => cons i ks rest (forest_ind nil cons ks) (forest_ind nil cons rest)

/-! ## `enumerate` -/

abbrev Row := Nat × Nat × T

theorem enumerate_nil (p nx : Nat) : enumerate [] p nx = ([], nx) := by simp [enumerate]

theorem enumerate_cons (i : Info) (ks rest : List T) (p nx : Nat) :
    enumerate (T.node i ks :: rest) p nx =
      ((nx, p, T.node i ks) :: (enumerate ks nx (nx + 1)).1 ++ (enumerate rest p (enumerate ks nx (nx + 1)).2).1,
       (enumerate rest p (enumerate ks nx (nx + 1)).2).2) := by
  simp [enumerate]

/-- the rows' nodes are the forest in pre-order. -/
theorem enumerate_nodes (ks : List T) : ∀ p nx, (enumerate ks p nx).1.map (·.2.2) = flatL ks := by
  induction ks using forest_ind with
  | nil => intro p nx; simp [enumerate_nil]
  | cons i ks rest ih1 ih2 =>
    intro p nx
    rw [enumerate_cons]
    simp only [List.map_cons, List.map_append, ih1, ih2, flatL_cons, flat_node, List.cons_append]

theorem enumerate_length (ks : List T) (p nx : Nat) : (enumerate ks p nx).1.length = (flatL ks).length := by
  rw [← enumerate_nodes ks p nx, List.length_map]

/-- the counter advances by the number of nodes. -/
theorem enumerate_snd (ks : List T) : ∀ p nx, (enumerate ks p nx).2 = nx + (flatL ks).length := by
  induction ks using forest_ind with
  | nil => intro p nx; simp [enumerate_nil]
  | cons i ks rest ih1 ih2 =>
    intro p nx
    rw [enumerate_cons]
    simp only [ih1, ih2, flatL_cons, flat_node, List.length_cons, List.length_append]
    omega

/-- the rows are numbered consecutively. -/
theorem enumerate_indices (ks : List T) :
    ∀ p nx, (enumerate ks p nx).1.map (·.1) = List.range' nx (flatL ks).length := by
  induction ks using forest_ind with
  | nil => intro p nx; simp [enumerate_nil]
  | cons i ks rest ih1 ih2 =>
    intro p nx
    rw [enumerate_cons]
    simp only [List.map_cons, List.map_append, ih1, ih2, enumerate_snd, flatL_cons, flat_node,
      List.length_cons, List.length_append]
    rw [show (flatL ks).length + 1 + (flatL rest).length = ((flatL ks).length + (flatL rest).length) + 1 by omega,
      List.range'_succ, ← List.range'_append_1]
    rfl

/-- parent indices, structurally: every row of `enumerate ks P nx` has an index `≥ nx`; its parent
index is either the given `P` (and its node is a member of `ks`), or the index of an earlier row
of the same list whose node has the row's node as a child. -/
theorem enumerate_parent_struct (ks : List T) :
    ∀ P nx, P < nx → ∀ r ∈ (enumerate ks P nx).1, nx ≤ r.1 ∧
      ((r.2.1 = P ∧ r.2.2 ∈ ks) ∨
       (nx ≤ r.2.1 ∧ r.2.1 < r.1 ∧ ∃ q par, (r.2.1, q, par) ∈ (enumerate ks P nx).1 ∧ r.2.2 ∈ par.kids)) := by
  induction ks using forest_ind with
  | nil => intro P nx _ r hr; simp [enumerate_nil] at hr
  | cons i ks rest ih1 ih2 =>
    intro P nx hP r hr
    rw [enumerate_cons] at hr ⊢
    simp only [List.cons_append, List.mem_cons, List.mem_append] at hr ⊢
    rcases hr with rfl | hr | hr
    · exact ⟨Nat.le_refl _, Or.inl ⟨rfl, Or.inl rfl⟩⟩
    · obtain ⟨h1, h2⟩ := ih1 nx (nx + 1) (Nat.lt_succ_self _) r hr
      refine ⟨by omega, Or.inr ?_⟩
      rcases h2 with ⟨h3, h4⟩ | ⟨h3, h4, q, par, h5, h6⟩
      · exact ⟨by omega, by omega, P, T.node i ks, Or.inl (by rw [h3]), h4⟩
      · exact ⟨by omega, h4, q, par, Or.inr (Or.inl h5), h6⟩
    · have hnx : nx + 1 ≤ (enumerate ks nx (nx + 1)).2 := by rw [enumerate_snd]; omega
      obtain ⟨h1, h2⟩ := ih2 P _ (by omega) r hr
      refine ⟨by omega, ?_⟩
      rcases h2 with ⟨h3, h4⟩ | ⟨h3, h4, q, par, h5, h6⟩
      · exact Or.inl ⟨h3, Or.inr h4⟩
      · exact Or.inr ⟨by omega, h4, q, par, Or.inr (Or.inr h5), h6⟩

/-! ## `toList` as a stateful map -/

abbrev CMap := List (DataId × Nat × Option String)

/-- the full (non-reference) payload of a node; `none` = KeyError from a bad value map. -/
def fullEntry (typed : Bool) (o : Opts) (ser : T → Fields → Option Fields) (n : T) : Option Payload :=
  match makeEntry typed n with
  | .dict d => (compress o ((ser n d).getD d)).map Payload.dict
  | e => some e

/-- one step of `to_list_iter`: the list element written for a row and the new clone map. -/
def entryOf (typed : Bool) (o : Opts) (ser : T → Fields → Option Fields) (isClone : T → Bool)
    (cmap : CMap) (r : Row) : Option ((Nat × Payload) × CMap) :=
  match cmap.lookup r.2.2.did with
  | some (cidx, ckind) =>
    if r.2.2.kind == ckind then some ((r.2.1, Payload.ref cidx), cmap)
    else (fullEntry typed o ser r.2.2).map fun e => ((r.2.1, e), cmap)
  | none =>
    (fullEntry typed o ser r.2.2).map fun e =>
      ((r.2.1, e), if isClone r.2.2 then cmap ++ [(r.2.2.did, r.1, r.2.2.kind)] else cmap)

/-- `to_list_iter` over a list of rows, starting with a given clone map. -/
def payloads (typed : Bool) (o : Opts) (ser : T → Fields → Option Fields) (isClone : T → Bool) :
    List Row → CMap → Option (List (Nat × Payload) × CMap)
  | [], c => some ([], c)
  | r :: rs, c =>
    match entryOf typed o ser isClone c r with
    | none => none
    | some (e, c') =>
      match payloads typed o ser isClone rs c' with
      | none => none
      | some (es, c'') => some (e :: es, c'')

/-- the fold step of `toList`, named. -/
def tstep (typed : Bool) (o : Opts) (ser : T → Fields → Option Fields) (isClone : T → Bool)
    (acc : Option (List (Nat × Payload) × CMap)) (r : Row) : Option (List (Nat × Payload) × CMap) :=
  match acc with
  | none => none
  | some (out, cmap) =>
    let (idx, pidx, n) := r
    let hit := cmap.lookup n.did
    match hit with
    | some (cidx, ckind) =>
      if n.kind == ckind then some (out ++ [(pidx, Payload.ref cidx)], cmap)
      else
        (match makeEntry typed n with
         | .dict d => (compress o ((ser n d).getD d)).map fun d' => (out ++ [(pidx, Payload.dict d')], cmap)
         | e => some (out ++ [(pidx, e)], cmap))
    | none =>
      let cmap' := if isClone n then cmap ++ [(n.did, idx, n.kind)] else cmap
      (match makeEntry typed n with
       | .dict d => (compress o ((ser n d).getD d)).map fun d' => (out ++ [(pidx, Payload.dict d')], cmap')
       | e => some (out ++ [(pidx, e)], cmap'))

theorem toList_eq_fold (typed : Bool) (o : Opts) (ser : T → Fields → Option Fields) (isClone : T → Bool)
    (tops : List T) :
    toList typed o ser isClone tops =
      ((enumerate tops 0 1).1.foldl (tstep typed o ser isClone) (some ([], []))).map (·.1) := rfl

theorem tstep_eq (typed : Bool) (o : Opts) (ser : T → Fields → Option Fields) (isClone : T → Bool)
    (out : List (Nat × Payload)) (c : CMap) (r : Row) :
    tstep typed o ser isClone (some (out, c)) r =
      (entryOf typed o ser isClone c r).map fun ec => (out ++ [ec.1], ec.2) := by
  obtain ⟨idx, pidx, n⟩ := r
  simp only [tstep, entryOf, fullEntry]
  cases hl : c.lookup n.did with
  | none =>
    simp only
    cases makeEntry typed n with
    | dict d => simp only; cases compress o ((ser n d).getD d) <;> rfl
    | str s => rfl
    | ref k => rfl
  | some v =>
    obtain ⟨cidx, ckind⟩ := v
    simp only
    by_cases hk : (n.kind == ckind) = true
    · simp only [hk, if_true]; rfl
    · simp only [hk]
      cases makeEntry typed n with
      | dict d => simp only; cases compress o ((ser n d).getD d) <;> rfl
      | str s => rfl
      | ref k => rfl

theorem foldl_tstep_none (typed : Bool) (o : Opts) (ser : T → Fields → Option Fields) (isClone : T → Bool)
    (rs : List Row) : rs.foldl (tstep typed o ser isClone) none = none := by
  induction rs with
  | nil => rfl
  | cons r rs ih => simpa [List.foldl_cons, tstep] using ih

theorem foldl_tstep (typed : Bool) (o : Opts) (ser : T → Fields → Option Fields) (isClone : T → Bool) :
    ∀ (rs : List Row) (out : List (Nat × Payload)) (c : CMap),
      rs.foldl (tstep typed o ser isClone) (some (out, c)) =
        (payloads typed o ser isClone rs c).map fun ec => (out ++ ec.1, ec.2)
  | [], out, c => by simp [payloads]
  | r :: rs, out, c => by
    rw [List.foldl_cons, tstep_eq, payloads]
    cases he : entryOf typed o ser isClone c r with
    | none => simp [foldl_tstep_none]
    | some ec =>
      obtain ⟨e, c'⟩ := ec
      simp only [Option.map_some]
      rw [foldl_tstep typed o ser isClone rs]
      cases payloads typed o ser isClone rs c' with
      | none => rfl
      | some x => simp

/-- `toList` is the stateful map `payloads` over the enumerated rows, starting with the empty clone map. -/
theorem toList_eq (typed : Bool) (o : Opts) (ser : T → Fields → Option Fields) (isClone : T → Bool)
    (tops : List T) :
    toList typed o ser isClone tops =
      (payloads typed o ser isClone (enumerate tops 0 1).1 []).map (·.1) := by
  rw [toList_eq_fold, foldl_tstep]
  cases payloads typed o ser isClone (enumerate tops 0 1).1 [] <;> simp

theorem payloads_append (typed : Bool) (o : Opts) (ser : T → Fields → Option Fields) (isClone : T → Bool) :
    ∀ (a b : List Row) (c : CMap),
      payloads typed o ser isClone (a ++ b) c =
        match payloads typed o ser isClone a c with
        | none => none
        | some (ea, c1) =>
          match payloads typed o ser isClone b c1 with
          | none => none
          | some (eb, c2) => some (ea ++ eb, c2)
  | [], b, c => by
    simp only [List.nil_append, payloads]
    cases payloads typed o ser isClone b c with
    | none => rfl
    | some x => rfl
  | r :: a, b, c => by
    simp only [List.cons_append, payloads]
    cases entryOf typed o ser isClone c r with
    | none => rfl
    | some ec =>
      obtain ⟨e, c'⟩ := ec
      simp only
      rw [payloads_append typed o ser isClone a b c']
      cases payloads typed o ser isClone a c' with
      | none => rfl
      | some x =>
        obtain ⟨ea, c1⟩ := x
        simp only
        cases payloads typed o ser isClone b c1 with
        | none => rfl
        | some y => rfl

/-- the parent indices are copied, one element per row. -/
theorem payloads_shape (typed : Bool) (o : Opts) (ser : T → Fields → Option Fields) (isClone : T → Bool) :
    ∀ (rs : List Row) (c : CMap) (es : List (Nat × Payload)) (c' : CMap),
      payloads typed o ser isClone rs c = some (es, c') → es.map (·.1) = rs.map (·.2.1)
  | [], c, es, c', h => by simp [payloads] at h; simp [h.1]
  | r :: rs, c, es, c', h => by
    rw [payloads] at h
    cases he : entryOf typed o ser isClone c r with
    | none => simp [he] at h
    | some ec =>
      obtain ⟨e, c1⟩ := ec
      simp only [he] at h
      cases hp : payloads typed o ser isClone rs c1 with
      | none => simp [hp] at h
      | some x =>
        obtain ⟨es1, c2⟩ := x
        simp only [hp, Option.some.injEq, Prod.mk.injEq] at h
        obtain ⟨rfl, rfl⟩ := h
        have h1 : e.1 = r.2.1 := by
          unfold entryOf at he
          split at he
          · split at he
            · cases he; rfl
            · cases hf : fullEntry typed o ser r.2.2 with
              | none => simp [hf] at he
              | some x => simp [hf] at he; rw [← he.1]
          · cases hf : fullEntry typed o ser r.2.2 with
            | none => simp [hf] at he
            | some x => simp [hf] at he; rw [← he.1]
        simp [h1, payloads_shape typed o ser isClone rs c1 es1 c2 hp]

end Nutree.Ser
