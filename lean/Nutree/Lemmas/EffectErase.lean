/-
  Nutree.Lemmas.EffectErase — what is left after nodes have been removed (C04, "exactly the
  documented effect and no other").

  * `eff_sublist_eq_filter` — a sub-list of a duplicate-free list is the filter by membership.
  * `eff_eraseIds_*` — the tree value `Flt.eraseIds R root` (every branch whose top identity is
    listed in `R` cut out) described node by node: who survives (`eff_eraseIds_survive`,
    `eff_eraseIds_mem`, `eff_eraseIds_id_mem`), the survivors' records in pre-order
    (`eff_eraseIds_infos`), their parents (`eff_findParent_eraseIds`) and child lists
    (`eff_findT_eraseIds`).
  * `pruneBD G bd` — the data-id index without the identities `G`; `unregister`/`unregisterAll`
    are prunings (`eff_unregisterAll_byData`), prunings compose (`eff_pruneBD_pruneBD`), and in
    well-formed states the pruned set is determined by the reachable nodes (`eff_prune_exact`).
-/
import Nutree.Lemmas.Filter
import Nutree.Lemmas.WFRemoveKeep
import Nutree.Lemmas.WFSetData
import Nutree.Properties.C01
namespace Nutree
open T C10 Flt

/-! ## 0. lists -/

/-- a sub-list of a duplicate-free list is the filter by membership. -/
theorem eff_sublist_eq_filter {α} [DecidableEq α] {l' l : List α} (hs : l'.Sublist l) (hn : l.Nodup) :
    l' = l.filter (fun a => decide (a ∈ l')) := by
  induction hs with
  | slnil => rfl
  | @cons l1 l2 a hs ih =>
    rw [List.nodup_cons] at hn
    have : a ∉ l1 := fun h => hn.1 (hs.subset h)
    rw [List.filter_cons, if_neg (by simpa using this)]
    exact ih hn.2
  | @cons_cons l1 l2 a hs ih =>
    rw [List.nodup_cons] at hn
    rw [List.filter_cons, if_pos (by simp)]
    congr 1
    refine (ih hn.2).trans (List.filter_congr (fun b hb => ?_))
    have : b ≠ a := fun e => hn.1 (e ▸ hb)
    simp [this]

/-- records of a tree with distinct identities are pairwise distinct. -/
theorem eff_infos_nodup {root : T} (hN : C10.IdsNodup root) : (infos root).Nodup := by
  have : ((infos root).map Info.id).Nodup := by rw [← ids_eq_infos]; exact hN
  exact List.Pairwise.of_map Info.id (fun a b h e => h (by rw [e])) this

/-- **the survivors in pre-order.**  If the records of `r'` are a sub-list of those of `r` (distinct
identities) and an old record is still there exactly when its identity is not in `G`, then the
records of `r'` are those of `r` with `G` filtered out. -/
theorem eff_infos_eq_filter {r r' : T} {G : List NodeId} (hN : C10.IdsNodup r)
    (hs : (infos r').Sublist (infos r))
    (hm : ∀ y ∈ flat r, y.id ∈ (flat r').map T.id ↔ y.id ∉ G) :
    (flat r').map T.info = ((flat r).map T.info).filter (fun i => decide (i.id ∉ G)) := by
  show infos r' = (infos r).filter _
  refine (eff_sublist_eq_filter hs (eff_infos_nodup hN)).trans (List.filter_congr (fun i hi => ?_))
  obtain ⟨y, hy, rfl⟩ := List.mem_map.1 hi
  have := hm y hy
  by_cases hg : y.info.id ∈ G
  · have h1 : y.id ∉ (flat r').map T.id := fun h => (this.1 h) hg
    have h2 : y.info ∉ infos r' := by
      intro h
      obtain ⟨y', hy', he⟩ := List.mem_map.1 h
      exact h1 (List.mem_map.2 ⟨y', hy', by show y'.info.id = y.info.id; rw [he]⟩)
    simp [hg, h2]
  · have h1 : y.id ∈ (flat r').map T.id := this.2 hg
    obtain ⟨y', hy', he⟩ := List.mem_map.1 h1
    have h2 : y'.info ∈ infos r := hs.subset (List.mem_map_of_mem hy')
    obtain ⟨y2, hy2, he2⟩ := List.mem_map.1 h2
    have : y2 = y := eq_of_id_eq hN hy2 hy (by show y2.info.id = y.id; rw [he2]; exact he)
    subst this
    have h3 : y2.info ∈ infos r' := he2 ▸ List.mem_map_of_mem hy'
    simp [hg, h3]

/-! ## 1. `eraseIds`, node by node -/

/-- a node none of whose ancestors-or-self (below the top) is listed survives, with the listed
branches below it cut out. -/
theorem eff_eraseIds_survive {R : List NodeId} {y : T} :
    ∀ {root : T}, y ∈ flat root → (∀ z ∈ flatL root.kids, z.id ∈ R → y ∉ flat z) →
      eraseIds R y ∈ flat (eraseIds R root) := by
  intro root
  induction root using T.ind with
  | node i ks ih =>
    intro hy hz
    rw [flat_node, List.mem_cons] at hy
    rcases hy with rfl | hy
    · exact self_mem_flat _
    · obtain ⟨k, hk, hyk⟩ := mem_flatL.1 hy
      have hkR : k.id ∉ R := fun hkR => hz k (mem_flatL.2 ⟨k, hk, self_mem_flat k⟩) hkR hyk
      rw [eraseIds_node, flat_node]
      refine List.mem_cons_of_mem _ (mem_flatL.2 ⟨eraseIds R k, mem_eraseIdsL.2 ⟨k, hk, hkR, rfl⟩, ?_⟩)
      refine ih k hk hyk (fun z hzk => hz z ?_)
      exact mem_flatL.2 ⟨k, hk, mem_flat_of_mem_flatL_kids hzk⟩

/-- every node of the erased tree is the image of an old node none of whose ancestors-or-self
(below the top) is listed. -/
theorem eff_eraseIds_mem {R : List NodeId} {y' : T} :
    ∀ {root : T}, C10.IdsNodup root → y' ∈ flat (eraseIds R root) →
      ∃ y ∈ flat root, y' = eraseIds R y ∧ ∀ z ∈ flatL root.kids, z.id ∈ R → y ∉ flat z := by
  intro root
  induction root using T.ind with
  | node i ks ih =>
    intro hN hy
    rw [eraseIds_node, flat_node, List.mem_cons] at hy
    rcases hy with rfl | hy
    · refine ⟨.node i ks, self_mem_flat _, by rw [eraseIds_node], ?_⟩
      intro z hz _ hroot
      obtain ⟨k, hk, hzk⟩ := mem_flatL.1 hz
      have h1 := size_le_of_mem_flat hroot
      have h2 := size_le_of_mem_flat hzk
      have h3 := size_lt_of_mem_kids (t := .node i ks) hk
      omega
    · obtain ⟨k', hk', hyk⟩ := mem_flatL.1 hy
      obtain ⟨k, hk, hkR, rfl⟩ := mem_eraseIdsL.1 hk'
      have hkN := idsNodup_of_mem (idsNodupL_kids hN) hk
      obtain ⟨y, hyk', rfl, hfree⟩ := ih k hk hkN hyk
      refine ⟨y, ?_, rfl, ?_⟩
      · rw [flat_node]; exact List.mem_cons_of_mem _ (mem_flatL.2 ⟨k, hk, hyk'⟩)
      · intro z hz hzR hyz
        obtain ⟨k2, hk2, hzk2⟩ := mem_flatL.1 hz
        have : k2 = k := idsNodupL_disjoint (idsNodupL_kids hN) hk2 hk (mem_flat_trans hyz hzk2) hyk' rfl
        subst this
        rw [flat_eq, List.mem_cons] at hzk2
        rcases hzk2 with rfl | hzk2
        · exact hkR hzR
        · exact hfree z hzk2 hzR hyz

/-- **who survives**: an old node's identity is still there iff no listed node (below the top)
has it in its branch. -/
theorem eff_eraseIds_id_mem {R : List NodeId} {root y : T} (hN : C10.IdsNodup root) (hy : y ∈ flat root) :
    y.id ∈ (flat (eraseIds R root)).map T.id ↔ ∀ z ∈ flatL root.kids, z.id ∈ R → y ∉ flat z := by
  constructor
  · intro hm
    obtain ⟨y', hy', hid⟩ := mem_ids.1 hm
    obtain ⟨y0, hy0, rfl, hfree⟩ := eff_eraseIds_mem hN hy'
    rw [eraseIds_id] at hid
    rw [← eq_of_id_eq hN hy0 hy hid]; exact hfree
  · intro hfree
    exact mem_ids.2 ⟨_, eff_eraseIds_survive hy hfree, eraseIds_id R y⟩

/-- the identities in the branches of the listed nodes (below the top). -/
def eff_gone (R : List NodeId) (root : T) : List NodeId :=
  ((flatL root.kids).filter (fun z => decide (z.id ∈ R))).flatMap (fun z => (flat z).map T.id)

theorem eff_mem_gone {R : List NodeId} {root : T} {a : NodeId} :
    a ∈ eff_gone R root ↔ ∃ z ∈ flatL root.kids, z.id ∈ R ∧ a ∈ (flat z).map T.id := by
  unfold eff_gone
  simp only [List.mem_flatMap, List.mem_filter, decide_eq_true_eq]
  constructor
  · rintro ⟨z, ⟨h1, h2⟩, h3⟩; exact ⟨z, h1, h2, h3⟩
  · rintro ⟨z, h1, h2, h3⟩; exact ⟨z, ⟨h1, h2⟩, h3⟩

/-- with distinct identities: `y.id` is in a listed branch iff `y` is. -/
theorem eff_not_mem_gone {R : List NodeId} {root y : T} (hN : C10.IdsNodup root) (hy : y ∈ flat root) :
    y.id ∉ eff_gone R root ↔ ∀ z ∈ flatL root.kids, z.id ∈ R → y ∉ flat z := by
  rw [eff_mem_gone]
  constructor
  · intro h z hz hzR hyz
    exact h ⟨z, hz, hzR, mem_ids.2 ⟨y, hyz, rfl⟩⟩
  · rintro h ⟨z, hz, hzR, hm⟩
    obtain ⟨y2, hy2, hid⟩ := mem_ids.1 hm
    have : y2 = y := eq_of_id_eq hN (mem_flat_trans hy2 (mem_flat_of_mem_flatL_kids hz)) hy hid
    subst this
    exact h z hz hzR hy2

/-- **the survivors' records in pre-order**: the old pre-order without the listed branches. -/
theorem eff_eraseIds_infos {R : List NodeId} {root : T} (hN : C10.IdsNodup root) :
    (flat (eraseIds R root)).map T.info =
      ((flat root).map T.info).filter (fun i => decide (i.id ∉ eff_gone R root)) :=
  eff_infos_eq_filter hN (infos_eraseIds_sublist R root)
    (fun _ hy => (eff_eraseIds_id_mem hN hy).trans (eff_not_mem_gone hN hy).symm)

/-- a survivor is found as its image: same record, the listed children cut out, the rest of its
children in the old order. -/
theorem eff_findT_eraseIds {R : List NodeId} {root y : T} {m : NodeId} (hN : C10.IdsNodup root)
    (hy : findT m root = some y) (hfree : ∀ z ∈ flatL root.kids, z.id ∈ R → y ∉ flat z) :
    findT m (eraseIds R root) = some (eraseIds R y) := by
  have := findT_of_mem (idsNodup_eraseIds (rm := R) hN) (eff_eraseIds_survive (findT_some_mem hy) hfree)
  rwa [eraseIds_id, findT_some_id hy] at this

theorem eff_eraseIds_kids_info (R : List NodeId) (y : T) :
    (eraseIds R y).kids.map T.info = (y.kids.filter (fun k => decide (k.id ∉ R))).map T.info := by
  rw [eraseIds_kids, eraseIdsL_eq_map, List.map_map]
  exact List.map_congr_left (fun k _ => eraseIds_info R k)

/-- **the survivors' parents** are the images of the old parents. -/
theorem eff_findParent_eraseIds {R : List NodeId} {root y : T} (hN : C10.IdsNodup root) (hy : y ∈ flat root)
    (hfree : ∀ z ∈ flatL root.kids, z.id ∈ R → y ∉ flat z) :
    (findParent y.id (eraseIds R root)).map T.id = (findParent y.id root).map T.id := by
  have hN' := idsNodup_eraseIds (rm := R) hN
  cases hpar : findParent y.id root with
  | none =>
    have hroot : y = root := by
      have h1 := findParent_eq_none.1 hpar
      rw [flat_eq, List.mem_cons] at hy
      rcases hy with rfl | hy
      · rfl
      · exact absurd (mem_idsL.2 ⟨y, hy, rfl⟩) h1
    subst hroot
    have := findParent_root hN'
    rw [eraseIds_id] at this
    rw [this]
  | some par =>
    obtain ⟨hpm, c, hc, hcn⟩ := findParent_some_mem hpar
    have hcy : c = y := eq_of_id_eq hN (mem_flat_trans (mem_flat_of_mem_kids hc) hpm) hy hcn
    subst hcy
    have hcR : c.id ∉ R := fun h =>
      hfree c (mem_flatL_root_kids_of_mem_kids hpm hc) h (self_mem_flat c)
    have hps : eraseIds R par ∈ flat (eraseIds R root) :=
      eff_eraseIds_survive hpm (fun z hz hzR hpz => hfree z hz hzR (mem_flat_trans (mem_flat_of_mem_kids hc) hpz))
    have : findParent c.id (eraseIds R root) = some (eraseIds R par) := by
      refine (findParent_eq_some_iff hN').2 ⟨hps, eraseIds R c, ?_, eraseIds_id R c⟩
      rw [eraseIds_kids]
      exact mem_eraseIdsL.2 ⟨c, hc, hcR, rfl⟩
    rw [this]
    simp

/-! ## 2. pruning the data-id index -/

/-- the data-id index without the identities `G` (keys whose list becomes empty are dropped). -/
def pruneBD (G : List NodeId) (bd : ByData) : ByData :=
  (bd.map fun e => (e.1, e.2.filter fun a => decide (a ∉ G))).filter fun e => !e.2.isEmpty

theorem eff_pruneBD_cons (G : List NodeId) (e : DataId × List NodeId) (bd : ByData) :
    pruneBD G (e :: bd) =
      if e.2.filter (fun a => decide (a ∉ G)) = [] then pruneBD G bd
      else (e.1, e.2.filter fun a => decide (a ∉ G)) :: pruneBD G bd := by
  unfold pruneBD
  rw [List.map_cons, List.filter_cons]
  cases h : e.2.filter (fun a => decide (a ∉ G)) <;> simp

theorem eff_pruneBD_pruneBD (G1 G2 : List NodeId) : ∀ bd : ByData,
    pruneBD G2 (pruneBD G1 bd) = pruneBD (G1 ++ G2) bd
  | [] => rfl
  | e :: bd => by
    have ih := eff_pruneBD_pruneBD G1 G2 bd
    have hf : (e.2.filter fun a => decide (a ∉ G1)).filter (fun a => decide (a ∉ G2)) =
        e.2.filter (fun a => decide (a ∉ G1 ++ G2)) := by
      rw [List.filter_filter]
      refine List.filter_congr (fun a _ => ?_)
      by_cases h1 : a ∈ G1 <;> by_cases h2 : a ∈ G2 <;> simp [h1, h2]
    rw [eff_pruneBD_cons G1, eff_pruneBD_cons (G1 ++ G2), ← hf]
    by_cases h1 : e.2.filter (fun a => decide (a ∉ G1)) = []
    · rw [if_pos h1, if_pos (by rw [h1]; rfl), ih]
    · rw [if_neg h1, eff_pruneBD_cons G2, ih]

theorem eff_pruneBD_congr {G G' : List NodeId} {bd : ByData}
    (h : ∀ e ∈ bd, ∀ a ∈ e.2, a ∈ G ↔ a ∈ G') : pruneBD G bd = pruneBD G' bd := by
  unfold pruneBD
  congr 1
  refine List.map_congr_left (fun e he => ?_)
  congr 1
  refine List.filter_congr (fun a ha => ?_)
  have := h e he a ha
  by_cases hg : a ∈ G
  · simp [hg, this.1 hg]
  · simp [hg, mt this.2 hg]

theorem eff_pruneBD_nil {bd : ByData} (h : ∀ e ∈ bd, e.2 ≠ []) : pruneBD [] bd = bd := by
  unfold pruneBD
  have h1 : (bd.map fun e => (e.1, e.2.filter fun a => decide (a ∉ ([] : List NodeId)))) = bd := by
    refine (List.map_congr_left (fun e _ => ?_)).trans (List.map_id' bd)
    rw [List.filter_eq_self.2 (by simp)]
  rw [h1]
  refine List.filter_eq_self.2 (fun e he => ?_)
  have := h e he
  cases h2 : e.2 with
  | nil => exact absurd h2 this
  | cons => rfl

theorem eff_listed_pruneBD {G : List NodeId} {bd : ByData} {d : DataId} {a : NodeId} :
    Listed (pruneBD G bd) d a ↔ Listed bd d a ∧ a ∉ G := by
  unfold pruneBD Listed
  simp only [List.mem_filter, List.mem_map]
  constructor
  · rintro ⟨l, ⟨⟨e, he, hee⟩, _⟩, ha⟩
    cases hee
    rw [List.mem_filter] at ha
    exact ⟨⟨e.2, he, ha.1⟩, by simpa using ha.2⟩
  · rintro ⟨⟨l, hl, ha⟩, hg⟩
    have hm : a ∈ l.filter (fun a => decide (a ∉ G)) := List.mem_filter.2 ⟨ha, by simpa using hg⟩
    refine ⟨l.filter (fun a => decide (a ∉ G)), ⟨⟨(d, l), hl, rfl⟩, ?_⟩, hm⟩
    cases h2 : l.filter (fun a => decide (a ∉ G)) with
    | nil => rw [h2] at hm; simp at hm
    | cons => rfl

/-- one `unregister` is a pruning when the node is listed under its own data id only. -/
theorem eff_delEntry_eq {bd : ByData} {d : DataId} {a : NodeId} (h : ∀ d', Listed bd d' a → d' = d) :
    delEntry bd d a = pruneBD [a] bd := by
  unfold delEntry pruneBD
  congr 1
  refine List.map_congr_left (fun e he => ?_)
  have hf : ∀ l : List NodeId, l.filter (· != a) = l.filter (fun b => decide (b ∉ [a])) :=
    fun l => List.filter_congr (fun b _ => by by_cases e : b = a <;> simp [e])
  by_cases hd : e.1 = d
  · rw [if_pos hd, hf]
  · rw [if_neg hd]
    have : a ∉ e.2 := fun ha => hd (h e.1 ⟨e.2, he, ha⟩)
    rw [List.filter_eq_self.2 (fun b hb => by
      have : b ≠ a := fun e' => this (e' ▸ hb)
      simpa using this)]

theorem eff_delEntry_noEmpty (bd : ByData) (d : DataId) (a : NodeId) : ∀ e ∈ delEntry bd d a, e.2 ≠ [] := by
  intro e he h0
  have := (List.mem_filter.1 he).2
  simp [h0] at this

/-- `unregisterAll` is a pruning when every node is listed under its own data id only. -/
theorem eff_unregisterAll_byData : ∀ (ns : List T) (t : Tree), (∀ e ∈ t.byData, e.2 ≠ []) →
    (∀ y ∈ ns, ∀ d', Listed t.byData d' y.id → d' = y.did) →
    (t.unregisterAll ns).byData = pruneBD (ns.map T.id) t.byData
  | [], t, hne, _ => (eff_pruneBD_nil hne).symm
  | x :: ns, t, hne, h => by
    have h1 : (t.unregister x.id x.did).byData = pruneBD [x.id] t.byData := by
      rw [unregister_byData]; exact eff_delEntry_eq (h x List.mem_cons_self)
    rw [unregisterAll_cons, eff_unregisterAll_byData ns (t.unregister x.id x.did)
      (by rw [unregister_byData]; exact eff_delEntry_noEmpty _ _ _)
      (fun y hy d' hl => h y (List.mem_cons_of_mem _ hy) d' (by rw [h1] at hl; exact (eff_listed_pruneBD.1 hl).1)),
      h1, eff_pruneBD_pruneBD]
    rfl

/-! ## 3. the registries after removals, exactly -/

/-- **the pruned set is determined by the reachable nodes.**  If the registries of `t'` are those of
`t` pruned by *some* set and both states are well-formed, then they are those of `t` pruned by any
set `G` that describes which old nodes are gone. -/
theorem eff_prune_exact {t t' : Tree} {G G' : List NodeId} (h : WF t) (h' : WF t')
    (hd : t'.byData = pruneBD G' t.byData) (hi : t'.byId = t.byId.filter (fun a => decide (a ∉ G')))
    (hG : ∀ a ∈ idsL t.root.kids, a ∈ idsL t'.root.kids ↔ a ∉ G) :
    t'.byData = pruneBD G t.byData ∧ t'.byId = t.byId.filter (fun a => decide (a ∉ G)) := by
  constructor
  · rw [hd]
    refine eff_pruneBD_congr (fun e he a ha => ?_)
    obtain ⟨z, hz, hza, _⟩ := (h.index.listed e.1 a).1 ⟨e.2, he, ha⟩
    have haK : a ∈ idsL t.root.kids := mem_idsL.2 ⟨z, hz, hza⟩
    refine Decidable.not_iff_not.1 ⟨?_, ?_⟩
    · intro hg' hg
      have hl : Listed t'.byData e.1 a := by
        rw [hd]; exact eff_listed_pruneBD.2 ⟨⟨e.2, he, ha⟩, hg'⟩
      obtain ⟨z', hz', hz'a, _⟩ := (h'.index.listed e.1 a).1 hl
      exact (hG a haK).1 (mem_idsL.2 ⟨z', hz', hz'a⟩) hg
    · intro hg hg'
      obtain ⟨z', hz', hz'a⟩ := mem_idsL.1 ((hG a haK).2 hg)
      have hl : Listed t'.byData z'.did a := (h'.index.listed z'.did a).2 ⟨z', hz', hz'a, rfl⟩
      rw [hd] at hl
      exact (eff_listed_pruneBD.1 hl).2 hg'
  · rw [hi]
    refine List.filter_congr (fun a ha => ?_)
    have haK := h.mem_byId.1 ha
    have h1 : a ∉ G' ↔ a ∈ t'.byId := by
      rw [hi, List.mem_filter]; simp [ha]
    have h2 : a ∉ G' ↔ a ∉ G := h1.trans (h'.mem_byId.trans (hG a haK))
    by_cases hg : a ∈ G
    · have : a ∈ G' := Classical.byContradiction (fun hg' => h2.1 hg' hg)
      simp [hg, this]
    · simp [hg, h2.2 hg]

/-- `remove_children` prunes the registries by the strict descendants. -/
theorem eff_removeChildren_reg {t : Tree} {n : NodeId} {x : T} (h : WF t) (hx : findT n t.root = some x) :
    (t.removeChildren n).byData = pruneBD ((iterPost x).map T.id) t.byData ∧
    (t.removeChildren n).byId = t.byId.filter (fun a => decide (a ∉ (iterPost x).map T.id)) := by
  rw [removeChildren_eq hx]
  refine ⟨?_, unregisterAll_byId t _⟩
  show (t.unregisterAll (iterPost x)).byData = _
  refine eff_unregisterAll_byData _ t h.index.noEmpty (fun y hy d' hl => ?_)
  have hyk : y ∈ flatL x.kids := (iterPost_perm x).mem_iff.1 hy
  obtain ⟨z, hz, hzy, hzd⟩ := (h.index.listed d' y.id).1 hl
  have : z = y := eq_of_id_eq h.idsN (mem_flat_of_mem_flatL_kids hz)
    (mem_flat_of_mem_flatL_kids_of_mem hyk (findT_some_mem hx)) hzy
  rw [← hzd, this]

/-- one plain `remove()` prunes the registries by some set. -/
theorem eff_removeOne_reg {t : Tree} (n : NodeId) (h : WF t) :
    ∃ G', (t.removeOne n).byData = pruneBD G' t.byData ∧
      (t.removeOne n).byId = t.byId.filter (fun a => decide (a ∉ G')) := by
  have hnil : ∃ G', t.byData = pruneBD G' t.byData ∧ t.byId = t.byId.filter (fun a => decide (a ∉ G')) :=
    ⟨[], (eff_pruneBD_nil h.index.noEmpty).symm, (List.filter_eq_self.2 (by simp)).symm⟩
  cases hx : findT n t.root with
  | none => rw [removeOne_of_findT_none hx]; exact hnil
  | some x =>
    cases hp : t.parentId n with
    | none => rw [removeOne_of_parent_none hp]; exact hnil
    | some p =>
      obtain ⟨h1, h2⟩ := eff_removeChildren_reg h hx
      refine ⟨(iterPost x).map T.id ++ [n], ?_, ?_⟩
      · rw [removeOne_eq hx hp, unregister_byData]
        show delEntry (t.removeChildren n).byData x.did n = _
        rw [h1, ← eff_pruneBD_pruneBD]
        refine eff_delEntry_eq (fun d' hl => ?_)
        obtain ⟨z, hz, hzn, hzd⟩ := (h.index.listed d' n).1 (eff_listed_pruneBD.1 hl).1
        have : z = x := eq_of_id_eq h.idsN (mem_flat_of_mem_flatL_kids hz) (findT_some_mem hx)
          (hzn.trans (findT_some_id hx).symm)
        rw [← hzd, this]
      · rw [removeOne_eq hx hp, unregister_byId]
        show (t.removeChildren n).byId.filter (· != n) = _
        rw [h2, List.filter_filter]
        refine List.filter_congr (fun a _ => ?_)
        by_cases e1 : a = n <;> by_cases e2 : a ∈ (iterPost x).map T.id <;> simp [e1, e2]

/-- a sequence of plain removals prunes the registries by some set. -/
theorem eff_foldl_removeOne_reg : ∀ (l : List NodeId) {t : Tree}, WF t →
    ∃ G', (l.foldl (fun t c => t.removeOne c) t).byData = pruneBD G' t.byData ∧
      (l.foldl (fun t c => t.removeOne c) t).byId = t.byId.filter (fun a => decide (a ∉ G'))
  | [], t, h => ⟨[], (eff_pruneBD_nil h.index.noEmpty).symm, (List.filter_eq_self.2 (by simp)).symm⟩
  | c :: l, t, h => by
    obtain ⟨G1, h1, h2⟩ := eff_removeOne_reg c h
    obtain ⟨G2, h3, h4⟩ := eff_foldl_removeOne_reg l (C01.removeOne_WF' t c h)
    refine ⟨G1 ++ G2, ?_, ?_⟩
    · rw [List.foldl_cons, h3, h1, eff_pruneBD_pruneBD]
    · rw [List.foldl_cons, h4, h2, List.filter_filter]
      refine List.filter_congr (fun a _ => ?_)
      by_cases e1 : a ∈ G1 <;> by_cases e2 : a ∈ G2 <;> simp [e1, e2]

theorem eff_foldl_removeOne_WF : ∀ (l : List NodeId) {t : Tree}, WF t →
    WF (l.foldl (fun t c => t.removeOne c) t)
  | [], _, h => h
  | c :: l, t, h => by rw [List.foldl_cons]; exact eff_foldl_removeOne_WF l (C01.removeOne_WF' t c h)

/-! ## 4. the generic effect of erasing branches -/

/-- **What erasing does, in full.**  `t'` is `t` with the branches of the nodes `R` cut out of the
tree value and the registries pruned by some set (both states well-formed, the system root not
listed).  `G` is any list with the identities of the cut-out branches.  Then
* the records of `t'` in pre-order are those of `t` without `G` (order and records of the survivors
  unchanged);
* every surviving node `y` is found as `eraseIds R y` (same record; its children are its old
  children without the listed ones, same order, same records — `eraseIds_info`,
  `eff_eraseIds_kids_info`; literally unchanged if no listed node lies below it —
  `eraseIds_of_disjoint`) and has the same parent;
* the identities `G` are neither reachable nor registered;
* `byId` and `byData` are the old ones without `G` (order of the remaining entries unchanged). -/
theorem eff_erase_effect {t t' : Tree} {R G : List NodeId} (h : WF t) (h' : WF t')
    (hroot : t'.root = eraseIds R t.root)
    (hreg : ∃ G', t'.byData = pruneBD G' t.byData ∧ t'.byId = t.byId.filter (fun a => decide (a ∉ G')))
    (hG : ∀ a, a ∈ G ↔ a ∈ eff_gone R t.root) :
    (flat t'.root).map T.info = ((flat t.root).map T.info).filter (fun i => decide (i.id ∉ G)) ∧
    (∀ m y, findT m t.root = some y → m ∉ G →
      findT m t'.root = some (eraseIds R y) ∧ t'.parentId m = t.parentId m) ∧
    (∀ a ∈ G, a ∉ (flat t'.root).map T.id ∧ a ∉ t'.byId) ∧
    t'.byId = t.byId.filter (fun a => decide (a ∉ G)) ∧
    t'.byData = pruneBD G t.byData := by
  have hN := h.idsN
  have hfilt : ∀ {α} (l : List α) (f : α → NodeId),
      l.filter (fun i => decide (f i ∉ G)) = l.filter (fun i => decide (f i ∉ eff_gone R t.root)) := by
    intro α l f
    refine List.filter_congr (fun i _ => ?_)
    by_cases hg : f i ∈ G
    · simp [hg, (hG _).1 hg]
    · simp [hg, mt (hG _).2 hg]
  -- survivors among the old reachable nodes
  have hsurv : ∀ a ∈ idsL t.root.kids, a ∈ idsL t'.root.kids ↔ a ∉ G := by
    intro a ha
    obtain ⟨y, hy, rfl⟩ := mem_idsL.1 ha
    have hym := mem_flat_of_mem_flatL_kids hy
    have h1 := (eff_eraseIds_id_mem (R := R) hN hym).trans (eff_not_mem_gone hN hym).symm
    rw [← hroot, ids_eq, h'.rootId, List.mem_cons] at h1
    have hy0 : y.id ≠ 0 := by
      have := id_ne_of_mem_flatL_kids hN hy
      rwa [h.rootId] at this
    rw [hG]
    exact ⟨fun hm => h1.1 (Or.inr hm), fun hg => (h1.2 hg).resolve_left hy0⟩
  obtain ⟨G', hd, hi⟩ := hreg
  obtain ⟨hbd, hbi⟩ := eff_prune_exact h h' hd hi hsurv
  have hgone : ∀ a ∈ G, a ∉ (flat t'.root).map T.id := by
    intro a ha hm
    obtain ⟨z, hz, _, hm2⟩ := eff_mem_gone.1 ((hG a).1 ha)
    obtain ⟨y, hy, rfl⟩ := mem_ids.1 hm2
    have hym : y ∈ flat t.root := mem_flat_trans hy (mem_flat_of_mem_flatL_kids hz)
    rw [hroot] at hm
    exact (eff_not_mem_gone hN hym).2 ((eff_eraseIds_id_mem hN hym).1 hm) ((hG _).1 ha)
  refine ⟨?_, ?_, fun a ha => ⟨hgone a ha, ?_⟩, hbi, hbd⟩
  · rw [hroot, eff_eraseIds_infos hN, hfilt]
  · intro m y hy hm
    have hym := findT_some_mem hy
    have hid := findT_some_id hy
    have hfree : ∀ z ∈ flatL t.root.kids, z.id ∈ R → y ∉ flat z :=
      (eff_not_mem_gone hN hym).1 (by rw [hid]; exact mt (hG m).2 hm)
    refine ⟨by rw [hroot]; exact eff_findT_eraseIds hN hy hfree, ?_⟩
    unfold Tree.parentId
    rw [hroot, ← hid]
    exact eff_findParent_eraseIds hN hym hfree
  · rw [hbi, List.mem_filter]
    simp [ha]

/-- dropping all children of a node = erasing the branches of its children. -/
theorem eff_modT_nil_eq_eraseIds {n : NodeId} {x : T} : ∀ {root : T}, C10.IdsNodup root →
    findT n root = some x → modT n (fun _ => []) root = eraseIds (x.kids.map T.id) root := by
  intro root
  induction root using T.ind with
  | node i ks ih =>
    intro hN hx
    rw [findT_node] at hx
    rw [modT_node, eraseIds_node]
    by_cases hid : i.id = n
    · rw [if_pos hid] at hx ⊢
      cases hx
      simp only [T.kids_node]
      rw [eraseIdsL_of_all_mem (fun k hk => List.mem_map_of_mem hk)]
    · rw [if_neg hid] at hx ⊢
      congr 1
      obtain ⟨k0, hk0, hx0⟩ := List.exists_of_findSome?_eq_some hx
      have hkN : IdsNodupL ks := idsNodupL_kids hN
      obtain ⟨hxm, hxid⟩ := findT_some hx0
      -- a child of `x` lies strictly below `k0`
      have hbelow : ∀ c ∈ x.kids, ∀ k ∈ ks, ∀ y ∈ flat k, y.id = c.id → k = k0 ∧ y.size < k0.size := by
        intro c hc k hk y hy hyc
        have hck0 : c ∈ flat k0 := mem_flat_trans (mem_flat_of_mem_kids hc) hxm
        have hkk : k = k0 := idsNodupL_disjoint hkN hk hk0 hy hck0 hyc
        subst hkk
        have : y = c := eq_of_id_eq (idsNodup_of_mem hkN hk) hy hck0 hyc
        subst this
        have h1 := size_lt_of_mem_kids hc
        have h2 := size_le_of_mem_flat hxm
        exact ⟨rfl, by omega⟩
      rw [eraseIdsL_eq_map]
      have hf : ks.filter (fun k => decide (k.id ∉ x.kids.map T.id)) = ks := by
        refine List.filter_eq_self.2 (fun k hk => ?_)
        simp only [decide_eq_true_eq]
        intro hm
        obtain ⟨c, hc, hck⟩ := List.mem_map.1 hm
        obtain ⟨rfl, hlt⟩ := hbelow c hc k hk k (self_mem_flat k) hck.symm
        exact Nat.lt_irrefl _ hlt
      rw [hf]
      refine List.map_congr_left (fun k hk => ?_)
      by_cases hkk : k = k0
      · subst hkk; exact ih k hk (idsNodup_of_mem hkN hk) hx0
      · have hn : n ∉ (flat k).map T.id := by
          intro hm
          obtain ⟨y, hy, hyn⟩ := mem_ids.1 hm
          exact hkk (idsNodupL_disjoint hkN hk hk0 hy hxm (hyn.trans hxid.symm))
        rw [modT_of_not_mem hn]
        refine (eraseIds_of_disjoint (fun a ha hm => ?_)).symm
        obtain ⟨c, hc, rfl⟩ := List.mem_map.1 ha
        obtain ⟨y, hy, hyc⟩ := mem_idsL.1 hm
        exact hkk (hbelow c hc k hk y (mem_flat_of_mem_flatL_kids hy) hyc).1

/-! ## 5. the three removal operations as erasures -/

/-- filtering by `∉ [n]` is `eraseId n`. -/
theorem eff_filter_singleton (n : NodeId) (l : List T) :
    l.filter (fun k => decide (k.id ∉ [n])) = eraseId n l := by
  unfold eraseId
  exact List.filter_congr (fun k _ => by by_cases e : k.id = n <;> simp [e])

/-- a node is not in the branch of one of its children. -/
theorem eff_not_mem_flat_kid {par x : T} (hx : x ∈ par.kids) : par ∉ flat x := by
  intro h
  have h1 := size_le_of_mem_flat h
  have h2 := size_lt_of_mem_kids hx
  omega

/-- plain `remove()`: the identities in the erased branches are those of the branch of `n`. -/
theorem eff_removeOne_gone {t : Tree} {n : NodeId} {x : T} (h : WF t) (hn : n ≠ 0)
    (hx : findT n t.root = some x) (a : NodeId) :
    a ∈ (flat x).map T.id ↔ a ∈ eff_gone [n] t.root := by
  have hxk := h.mem_flatL_of_findT hx hn
  rw [eff_mem_gone]
  constructor
  · intro ha; exact ⟨x, hxk, by simp [findT_some_id hx], ha⟩
  · rintro ⟨z, hz, hzn, ha⟩
    rw [List.mem_singleton] at hzn
    have : z = x := eq_of_id_eq h.idsN (mem_flat_of_mem_flatL_kids hz) (findT_some_mem hx)
      (hzn.trans (findT_some_id hx).symm)
    rwa [this] at ha

/-- `remove_children`: the identities in the erased branches are the strict descendants of `n`. -/
theorem eff_removeChildren_gone {t : Tree} {n : NodeId} {x : T} (h : WF t)
    (hx : findT n t.root = some x) (a : NodeId) :
    a ∈ idsL x.kids ↔ a ∈ eff_gone (x.kids.map T.id) t.root := by
  have hxm := findT_some_mem hx
  rw [eff_mem_gone]
  constructor
  · intro ha
    obtain ⟨y, hy, rfl⟩ := mem_idsL.1 ha
    obtain ⟨c, hc, hyc⟩ := mem_flatL.1 hy
    exact ⟨c, mem_flatL_root_kids_of_mem_kids hxm hc, List.mem_map_of_mem hc, mem_ids.2 ⟨y, hyc, rfl⟩⟩
  · rintro ⟨z, hz, hzR, ha⟩
    obtain ⟨c, hc, hcz⟩ := List.mem_map.1 hzR
    have : c = z := eq_of_id_eq h.idsN (mem_flat_trans (mem_flat_of_mem_kids hc) hxm)
      (mem_flat_of_mem_flatL_kids hz) hcz
    subst this
    obtain ⟨y, hy, rfl⟩ := mem_ids.1 ha
    exact mem_idsL.2 ⟨y, mem_flatL.2 ⟨c, hc, hy⟩, rfl⟩

/-- a child of a node other than `x` is not a child of `x`. -/
theorem eff_kid_not_kid {root x y k : T} (hN : C10.IdsNodup root) (hx : x ∈ flat root) (hy : y ∈ flat root)
    (hne : y.id ≠ x.id) (hk : k ∈ y.kids) : k.id ∉ x.kids.map T.id := by
  intro hm
  obtain ⟨c, hc, hck⟩ := List.mem_map.1 hm
  have h1 := findParent_of_mem_kids hN hx hc
  have h2 := findParent_of_mem_kids hN hy hk
  rw [hck, h2] at h1
  exact hne (congrArg T.id (Option.some.inj h1))

/-- the loop of `remove(with_clones=True)` without `keep_children` is a sequence of plain removals
(a clone that has already disappeared below another clone is skipped: nothing to do). -/
theorem eff_foldl_removeStep : ∀ (l : List NodeId) (t : Tree),
    l.foldl (removeStep false) (t, none) = (l.foldl (fun t c => t.removeOne c) t, none)
  | [], _ => rfl
  | c :: l, t => by
    rw [List.foldl_cons, List.foldl_cons]
    have : removeStep false (t, none) c = (t.removeOne c, none) := by
      unfold removeStep
      simp only [Bool.false_eq_true, if_false]
      split
      · rename_i hnone
        rw [removeOne_of_findT_none (by simpa using hnone)]
      · rfl
    rw [this, eff_foldl_removeStep l]

theorem eff_remove_clones_eq {t : Tree} {n : NodeId} {x : T} (hx : findT n t.root = some x) :
    t.remove n false true =
      ((((t.byData.lookup x.did).getD []).filter (· != n) ++ [n]).foldl (fun t c => t.removeOne c) t, none) := by
  rw [remove_eq, hx]
  simp only [if_true]
  exact eff_foldl_removeStep _ t

/-- in a well-formed state the removal list of `remove(with_clones=True)` consists of the nodes
that carry the data id of `n`. -/
theorem eff_clone_list {t : Tree} {n : NodeId} {x : T} (h : WF t)
    (hx : findT n t.root = some x) {z : T} (hz : z ∈ flatL t.root.kids) :
    z.id ∈ ((t.byData.lookup x.did).getD []).filter (· != n) ++ [n] ↔ z.did = x.did := by
  have hcur : z.id ∈ (t.byData.lookup x.did).getD [] ↔ z.did = x.did := by
    have h1 : z.id ∈ (t.byData.lookup x.did).getD [] ↔ Listed t.byData x.did z.id := by
      rw [listed_iff_lookup h.index.keys]
      cases hl : t.byData.lookup x.did with
      | none => simp
      | some l => simp
    rw [h1, h.index.listed]
    constructor
    · rintro ⟨w, hw, hwz, hwd⟩
      rw [← eq_of_id_eq h.idsN (mem_flat_of_mem_flatL_kids hw) (mem_flat_of_mem_flatL_kids hz) hwz]
      exact hwd
    · intro hd; exact ⟨z, hz, rfl, hd⟩
  rw [List.mem_append, List.mem_filter, List.mem_singleton, hcur]
  constructor
  · rintro (⟨hd, _⟩ | hzn)
    · exact hd
    · rw [eq_of_id_eq h.idsN (mem_flat_of_mem_flatL_kids hz) (findT_some_mem hx)
        (hzn.trans (findT_some_id hx).symm)]
  · intro hd
    by_cases hzn : z.id = n
    · exact Or.inr hzn
    · exact Or.inl ⟨hd, by simpa using hzn⟩

/-- the identities in the branches of all nodes that carry data id `d` (the clones with that id
and everything below them). -/
def cloneBranchIds (t : Tree) (d : DataId) : List NodeId :=
  ((flatL t.root.kids).filter (fun z => z.did == d)).flatMap (fun z => (flat z).map T.id)

theorem eff_cloneBranchIds {t : Tree} {n : NodeId} {x : T} (h : WF t) (hx : findT n t.root = some x) :
    cloneBranchIds t x.did =
      eff_gone (((t.byData.lookup x.did).getD []).filter (· != n) ++ [n]) t.root := by
  unfold cloneBranchIds eff_gone
  congr 1
  refine List.filter_congr (fun z hz => ?_)
  have := eff_clone_list h hx hz
  by_cases hd : z.did = x.did
  · simp [hd, this.2 hd]
  · simp [hd, mt this.1 hd]

/-- the parent of a strict descendant of `y` lies in the branch of `y`. -/
theorem eff_parent_mem_flat {root y c par : T} (hN : C10.IdsNodup root) (hy : y ∈ flat root)
    (hc : c.id ∈ idsL y.kids) (hpar : findParent c.id root = some par) : par ∈ flat y := by
  obtain ⟨par', hp'⟩ := findParent_of_mem_idsL hc
  obtain ⟨h1, k, hk, hkc⟩ := findParent_some_mem hp'
  have := (findParent_eq_some_iff hN).2 ⟨mem_flat_trans h1 hy, k, hk, hkc⟩
  rw [hpar] at this
  rw [Option.some.inj this]; exact h1

end Nutree
