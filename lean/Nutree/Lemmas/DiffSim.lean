/-
  Nutree.Lemmas.DiffSim — the position-wise relation `SimL P` between two forests of the same
  shape (records related by `P`), and `setInfoL` on forests with distinct identities.
-/
import Nutree.Lemmas.DiffCmp
namespace Nutree
open T C10
namespace Diff

mutual
/-- same shape, records position-wise related by `P`. -/
def SimT (P : Info → Info → Prop) : T → T → Prop
  | .node i ks, .node j ls => P i j ∧ SimL P ks ls
def SimL (P : Info → Info → Prop) : List T → List T → Prop
  | [], [] => True
  | a :: as, b :: bs => SimT P a b ∧ SimL P as bs
  | [], _ :: _ => False
  | _ :: _, [] => False
end

theorem simL_nil_left {P : Info → Info → Prop} {b : List T} : SimL P [] b ↔ b = [] := by
  cases b <;> simp [SimL]

theorem simL_cons_left {P : Info → Info → Prop} {i : Info} {ks as b : List T} :
    SimL P (.node i ks :: as) b ↔
      ∃ j ls bs, b = .node j ls :: bs ∧ P i j ∧ SimL P ks ls ∧ SimL P as bs := by
  cases b with
  | nil => simp [SimL]
  | cons t bs =>
    cases t with
    | node j ls =>
      simp only [SimL, SimT]
      constructor
      · rintro ⟨⟨h1, h2⟩, h3⟩; exact ⟨j, ls, bs, rfl, h1, h2, h3⟩
      · rintro ⟨j', ls', bs', he, h1, h2, h3⟩
        injection he with he1 he2
        injection he1 with he1 he3
        subst he1 he2 he3
        exact ⟨⟨h1, h2⟩, h3⟩

theorem simL_cons_cons {P : Info → Info → Prop} {i j : Info} {ks ls as bs : List T} :
    SimL P (.node i ks :: as) (.node j ls :: bs) ↔ P i j ∧ SimL P ks ls ∧ SimL P as bs := by
  simp only [SimL, SimT, and_assoc]

/-- reflexivity on a forest whose records are `P`-reflexive. -/
theorem simL_refl {P : Info → Info → Prop} : ∀ f : List T, (∀ i ∈ infosL f, P i i) → SimL P f f := by
  intro f
  induction f using indList with
  | nil => intro _; simp [SimL]
  | cons i ks rest ihk ihr =>
    intro h
    rw [infosL_cons, infos_node] at h
    rw [simL_cons_cons]
    refine ⟨h i (by simp), ihk (fun x hx => h x (by simp [hx])), ihr (fun x hx => h x (by simp [hx]))⟩

theorem simL_mono {P Q : Info → Info → Prop} (hPQ : ∀ i j, P i j → Q i j) :
    ∀ a b : List T, SimL P a b → SimL Q a b := by
  intro a
  induction a using indList with
  | nil => intro b h; rw [simL_nil_left] at h ⊢; exact h
  | cons i ks rest ihk ihr =>
    intro b h
    rw [simL_cons_left] at h ⊢
    obtain ⟨j, ls, bs, he, h1, h2, h3⟩ := h
    exact ⟨j, ls, bs, he, hPQ _ _ h1, ihk _ h2, ihr _ h3⟩

/-- updating the records with identity `n` in the right forest keeps the relation if the update
keeps `P`. -/
theorem simL_setInfoL {P : Info → Info → Prop} {n : NodeId} {g : Info → Info}
    (hg : ∀ i j, P i j → j.id = n → P i (g j)) :
    ∀ a b : List T, SimL P a b → SimL P a (setInfoL n g b) := by
  intro a
  induction a using indList with
  | nil => intro b h; rw [simL_nil_left] at h; subst h; simp [setInfoL, SimL]
  | cons i ks rest ihk ihr =>
    intro b h
    rw [simL_cons_left] at h
    obtain ⟨j, ls, bs, he, h1, h2, h3⟩ := h
    subst he
    rw [setInfoL, setInfoT]
    by_cases hj : j.id = n
    · rw [if_pos hj, simL_cons_cons]; exact ⟨hg _ _ h1 hj, h2, ihr _ h3⟩
    · rw [if_neg hj, simL_cons_cons]; exact ⟨h1, ihk _ h2, ihr _ h3⟩

/-- every record on the right has its partner on the left. -/
theorem simL_right {P : Info → Info → Prop} :
    ∀ a b : List T, SimL P a b → ∀ j ∈ infosL b, ∃ i ∈ infosL a, P i j := by
  intro a
  induction a using indList with
  | nil => intro b h; rw [simL_nil_left] at h; subst h; simp
  | cons i ks rest ihk ihr =>
    intro b h
    rw [simL_cons_left] at h
    obtain ⟨j, ls, bs, he, h1, h2, h3⟩ := h
    subst he
    intro x hx
    rw [infosL_cons, infos_node, List.cons_append, List.mem_cons, List.mem_append] at hx
    rcases hx with rfl | hx | hx
    · exact ⟨i, by simp [infosL_cons, infos_node], h1⟩
    · obtain ⟨y, hy, hp⟩ := ihk _ h2 x hx
      exact ⟨y, by simp [infosL_cons, infos_node, hy], hp⟩
    · obtain ⟨y, hy, hp⟩ := ihr _ h3 x hx
      exact ⟨y, by simp [infosL_cons, infos_node, hy], hp⟩

/-- every record on the left has its partner on the right. -/
theorem simL_left {P : Info → Info → Prop} :
    ∀ a b : List T, SimL P a b → ∀ i ∈ infosL a, ∃ j ∈ infosL b, P i j := by
  intro a
  induction a using indList with
  | nil => intro b _ i hi; simp at hi
  | cons i ks rest ihk ihr =>
    intro b h
    rw [simL_cons_left] at h
    obtain ⟨j, ls, bs, he, h1, h2, h3⟩ := h
    subst he
    intro x hx
    rw [infosL_cons, infos_node, List.cons_append, List.mem_cons, List.mem_append] at hx
    rcases hx with rfl | hx | hx
    · exact ⟨j, by simp [infosL_cons, infos_node], h1⟩
    · obtain ⟨y, hy, hp⟩ := ihk _ h2 x hx
      exact ⟨y, by simp [infosL_cons, infos_node, hy], hp⟩
    · obtain ⟨y, hy, hp⟩ := ihr _ h3 x hx
      exact ⟨y, by simp [infosL_cons, infos_node, hy], hp⟩

/-- the relation transports the list of identities. -/
theorem simL_ids {P : Info → Info → Prop} (hP : ∀ i j, P i j → j.id = i.id) :
    ∀ a b : List T, SimL P a b → idsL b = idsL a := by
  intro a
  induction a using indList with
  | nil => intro b h; rw [simL_nil_left] at h; subst h; rfl
  | cons i ks rest ihk ihr =>
    intro b h
    rw [simL_cons_left] at h
    obtain ⟨j, ls, bs, he, h1, h2, h3⟩ := h
    subst he
    rw [idsL_cons, idsL_cons, flat_node, flat_node, List.map_cons, List.map_cons]
    have e1 := ihk _ h2
    have e2 := ihr _ h3
    unfold idsL at e1
    rw [e1, e2]
    simp [hP _ _ h1]

/-! ## `setInfoL` on a forest with distinct identities -/

theorem infosL_setInfoL {n : NodeId} {g : Info → Info} :
    ∀ {f : List T}, IdsNodupL f →
      infosL (setInfoL n g f) = (infosL f).map (fun i => if i.id = n then g i else i) := by
  intro f
  induction f with
  | nil => intro _; simp [setInfoL]
  | cons t ts ih =>
    intro hN
    obtain ⟨h1, h2, _⟩ := (idsNodupL_cons t ts).1 hN
    rw [setInfoL, infosL_cons, infosL_cons, List.map_append, ih h2, infos_setInfoT h1]

theorem infosL_mem_of_mem_flatL {f : List T} {x : T} (h : x ∈ flatL f) : x.info ∈ infosL f :=
  List.mem_map_of_mem h

theorem mem_infosL {f : List T} {i : Info} : i ∈ infosL f ↔ ∃ x ∈ flatL f, x.info = i := by
  unfold infosL; exact List.mem_map

/-- with distinct identities a record is determined by its identity. -/
theorem info_eq_of_id_eq {f : List T} (hN : IdsNodupL f) {i j : Info} (hi : i ∈ infosL f)
    (hj : j ∈ infosL f) (h : i.id = j.id) : i = j := by
  have hN' : ((infosL f).map Info.id).Nodup := by rw [← idsL_eq_infosL]; exact hN
  generalize infosL f = l at hi hj hN'
  induction l with
  | nil => cases hi
  | cons a l ih =>
    rw [List.map_cons, List.nodup_cons] at hN'
    rw [List.mem_cons] at hi hj
    rcases hi with rfl | hi <;> rcases hj with rfl | hj
    · rfl
    · exact absurd (h ▸ List.mem_map_of_mem hj) hN'.1
    · exact absurd (h ▸ List.mem_map_of_mem hi) hN'.1
    · exact ih hi hj hN'.2

end Diff
end Nutree
