/-
  Nutree.Lemmas.DiffShape — hypotheses on the inputs (`SibU`, `IdFaithful`) and projections of a
  result forest (`plainShape`, `dropMarked`), with their elementary facts.
-/
import Nutree.Lemmas.DiffSim
namespace Nutree
open T C10
namespace Diff

/-! ## 1. hypotheses -/

/-- data_ids are pairwise distinct among the children of every node and at top level. -/
def SibU (f : List T) : Prop := (f.map T.did).Nodup ∧ ∀ x ∈ flatL f, (x.kids.map T.did).Nodup

/-- data objects of the two forests compare equal (`==`) iff they have the same data_id. -/
def IdFaithful (f g : List T) : Prop :=
  ∀ a ∈ flatL f, ∀ b ∈ flatL g, (a.data.pyEq b.data = true ↔ a.did = b.did)

theorem mem_flatL_of_mem {f : List T} {c : T} (h : c ∈ f) : c ∈ flatL f :=
  mem_flatL.2 ⟨c, h, self_mem_flat c⟩

theorem mem_flatL_of_mem_kids {f : List T} {c x : T} (hc : c ∈ f) (hx : x ∈ flatL c.kids) : x ∈ flatL f :=
  mem_flatL.2 ⟨c, hc, mem_flat_of_mem_flatL_kids hx⟩

theorem SibU.kids {f : List T} (h : SibU f) {c : T} (hc : c ∈ f) : SibU c.kids :=
  ⟨h.2 c (mem_flatL_of_mem hc), fun x hx => h.2 x (mem_flatL_of_mem_kids hc hx)⟩

theorem IdFaithful.kids {f g : List T} (h : IdFaithful f g) {c d : T} (hc : c ∈ f) (hd : d ∈ g) :
    IdFaithful c.kids d.kids :=
  fun a ha b hb => h a (mem_flatL_of_mem_kids hc ha) b (mem_flatL_of_mem_kids hd hb)

theorem pyEq_refl (a : Atom) : a.pyEq a = true := by simp [Atom.pyEq]

theorem pyEq_comm (a b : Atom) : a.pyEq b = b.pyEq a := by
  simp only [Atom.pyEq]
  rw [Bool.eq_iff_iff]
  simp only [Bool.or_eq_true, beq_iff_eq]
  constructor <;> rintro (h | h) <;> simp [h]

/-! ## 2. projections -/

/-- payload and shape of a forest: node identities, kinds and marks erased. -/
inductive PShape where
  | node (data : Atom) (did : DataId) (kids : List PShape)

def PShape.data : PShape → Atom | .node d _ _ => d
def PShape.did : PShape → DataId | .node _ i _ => i
def PShape.kids : PShape → List PShape | .node _ _ ks => ks

/-- payload and shape of a forest. -/
def plainShape : List T → List PShape
  | [] => []
  | .node i ks :: ts => .node i.data i.did (plainShape ks) :: plainShape ts

/-- the record carries a `dc` mark that is a member of `ms`. -/
def hasMark (ms : List String) (i : Info) : Bool :=
  match dcI i with
  | some d => ms.contains d
  | none => false

/-- remove every node whose `dc` mark is in `ms`, together with its subtree. -/
def dropMarked (ms : List String) : List T → List T
  | [] => []
  | .node i ks :: ts =>
    if hasMark ms i then dropMarked ms ts else .node i (dropMarked ms ks) :: dropMarked ms ts

theorem plainShape_nil : plainShape [] = [] := by rw [plainShape]
theorem plainShape_cons (i : Info) (ks ts : List T) :
    plainShape (.node i ks :: ts) = .node i.data i.did (plainShape ks) :: plainShape ts := by
  rw [plainShape]

theorem plainShape_cons' (t : T) (ts : List T) :
    plainShape (t :: ts) = .node t.data t.did (plainShape t.kids) :: plainShape ts := by
  cases t; rw [plainShape_cons]; rfl

theorem plainShape_append (a b : List T) : plainShape (a ++ b) = plainShape a ++ plainShape b := by
  induction a with
  | nil => simp [plainShape_nil]
  | cons t ts ih => rw [List.cons_append, plainShape_cons', plainShape_cons', ih, List.cons_append]

theorem plainShape_eq_map (l : List T) :
    plainShape l = l.map fun t => PShape.node t.data t.did (plainShape t.kids) := by
  induction l with
  | nil => simp [plainShape_nil]
  | cons t ts ih => rw [plainShape_cons', ih, List.map_cons]

theorem dropMarked_nil (ms : List String) : dropMarked ms [] = [] := by rw [dropMarked]
theorem dropMarked_cons (ms : List String) (i : Info) (ks ts : List T) :
    dropMarked ms (.node i ks :: ts) =
      if hasMark ms i then dropMarked ms ts else .node i (dropMarked ms ks) :: dropMarked ms ts := by
  rw [dropMarked]

theorem dropMarked_append (ms : List String) (a b : List T) :
    dropMarked ms (a ++ b) = dropMarked ms a ++ dropMarked ms b := by
  induction a with
  | nil => simp [dropMarked_nil]
  | cons t ts ih =>
    cases t with
    | node i ks =>
      rw [List.cons_append, dropMarked_cons, dropMarked_cons, ih]
      split <;> simp

/-- position-wise equal payload gives equal shapes. -/
theorem plainShape_of_simL {P : Info → Info → Prop} (hP : ∀ i j, P i j → j.data = i.data ∧ j.did = i.did) :
    ∀ a b : List T, SimL P a b → plainShape b = plainShape a := by
  intro a
  induction a using indList with
  | nil => intro b h; rw [simL_nil_left] at h; subst h; rfl
  | cons i ks rest ihk ihr =>
    intro b h
    rw [simL_cons_left] at h
    obtain ⟨j, ls, bs, he, h1, h2, h3⟩ := h
    subst he
    rw [plainShape_cons, plainShape_cons, ihk _ h2, ihr _ h3, (hP _ _ h1).1, (hP _ _ h1).2]

/-- `setInfoL` with an update that keeps the payload does not change the shape. -/
theorem plainShape_setInfoL {n : NodeId} {g : Info → Info}
    (hg : ∀ i, (g i).data = i.data ∧ (g i).did = i.did) :
    ∀ f : List T, plainShape (setInfoL n g f) = plainShape f := by
  intro f
  induction f using indList with
  | nil => simp [setInfoL]
  | cons i ks rest ihk ihr =>
    rw [setInfoL, setInfoT]
    split
    · rw [plainShape_cons, plainShape_cons, ihr, (hg i).1, (hg i).2]
    · rw [plainShape_cons, plainShape_cons, ihr, ihk]

end Diff
end Nutree
