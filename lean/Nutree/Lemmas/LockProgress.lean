/-
  Nutree.Lemmas.LockProgress — absence of deadlock and termination for the re-entrant lock
  (C18): an unfinished reachable configuration has an enabled thread, every enabled step
  decreases `remaining`, hence a finishing schedule exists and every fair (round-based)
  schedule finishes.
-/
import Nutree.Lemmas.LockTrace
namespace Nutree
namespace Lock

theorem exists_unfinished {c : Cfg} (h : finished c = false) :
    ∃ (i : Tid) (e : Ev) (rest : Prog), c.progs[i]? = some (e :: rest) := by
  unfold finished at h
  have h' : ¬ (c.progs.all List.isEmpty = true) := by simp [h]
  rw [List.all_eq_true] at h'
  have : ∃ p, p ∈ c.progs ∧ p.isEmpty = false := by
    apply Classical.byContradiction
    intro hn
    apply h'
    intro p hp
    cases hp' : p.isEmpty with
    | true => rfl
    | false => exact absurd ⟨p, hp, hp'⟩ hn
  obtain ⟨p, hp, hpe⟩ := this
  obtain ⟨i, hi⟩ := List.mem_iff_getElem?.mp hp
  cases p with
  | nil => simp at hpe
  | cons e rest => exact ⟨i, e, rest, hi⟩

/-- the owner's next event is always enabled (the lock is re-entrant). -/
theorem owner_enabled {ps : List Prog} {c : Cfg} (h : Inv ps c) {a : Tid}
    (ho : c.owner = some a) : enabled true c a = true := by
  have hpos := (h.lock.owner_iff a).mp ho
  have ha : a < c.progs.length := by
    rw [h.progs_len, ← h.depth_len]; exact lt_of_depthOf_pos hpos
  have hp : c.progs[a]? = some c.progs[a] := List.getElem?_eq_getElem ha
  have hg := h.guarded a _ hp
  have hne := guardedFrom_pos_ne_nil hpos hg
  cases hpa : c.progs[a] with
  | nil => exact absurd hpa hne
  | cons e rest =>
    rw [hpa] at hp
    cases e with
    | acq => rw [enabled_acq hp, ho]; simp
    | rel => rw [enabled_rel hp, ho]; simp [h.lock.count_pos ho]
    | read => exact enabled_read hp
    | write => exact enabled_write hp

theorem no_deadlock {ps : List Prog} {c : Cfg} (h : Inv ps c) (hf : finished c = false) :
    ∃ i, enabled true c i = true := by
  cases ho : c.owner with
  | some a => exact ⟨a, owner_enabled h ho⟩
  | none =>
    obtain ⟨i, e, rest, hp⟩ := exists_unfinished hf
    have hg := h.guarded i _ hp
    rw [h.lock.free_depth ho i] at hg
    have he := guardedFrom_zero_cons hg
    subst he
    exact ⟨i, by rw [enabled_acq hp, ho]; rfl⟩

theorem enabled_lt {ps : List Prog} {c : Cfg} (h : Inv ps c) {i : Tid}
    (hen : enabled true c i = true) : i < ps.length := by
  obtain ⟨e, rest, hp⟩ := enabled_some hen
  rw [← h.progs_len]
  exact (List.getElem?_eq_some_iff.mp hp).1

/-! ### termination -/

theorem remaining_run_le (r : Bool) (c : Cfg) (s : List Tid) :
    remaining (run r c s) ≤ remaining c := by
  induction s generalizing c with
  | nil => exact Nat.le_refl _
  | cons i s ih =>
    rw [run_cons]
    exact Nat.le_trans (ih _) (remaining_step_le r c i)

/-- some schedule finishes (from any reachable configuration). -/
theorem exists_finishing {ps : List Prog} {c : Cfg} (h : Inv ps c) :
    ∃ s, finished (run true c s) = true := by
  generalize hn : remaining c = n
  induction n generalizing c with
  | zero => exact ⟨[], finished_iff_remaining.mpr hn⟩
  | succ n ih =>
    have hf : finished c = false := by
      cases hfc : finished c with
      | false => rfl
      | true => have := finished_iff_remaining.mp hfc; omega
    obtain ⟨i, hen⟩ := no_deadlock h hf
    have hr := remaining_step hen
    obtain ⟨s, hs⟩ := ih (inv_step h i) (by omega)
    exact ⟨i :: s, hs⟩

/-- a schedule either makes progress or consisted only of blocked choices. -/
theorem run_progress_or_blocked (r : Bool) (c : Cfg) (s : List Tid) :
    remaining (run r c s) < remaining c ∨ (run r c s = c ∧ ∀ i ∈ s, enabled r c i = false) := by
  induction s generalizing c with
  | nil => exact Or.inr ⟨rfl, by simp⟩
  | cons i s ih =>
    rw [run_cons]
    cases hen : enabled r c i with
    | true =>
      have h1 := remaining_step hen
      have h2 := remaining_run_le r (step r c i) s
      exact Or.inl (by omega)
    | false =>
      rw [step_of_not_enabled hen]
      cases ih c with
      | inl h1 => exact Or.inl h1
      | inr h1 =>
        refine Or.inr ⟨h1.1, ?_⟩
        intro j hj
        cases hj with
        | head => exact hen
        | tail _ hj => exact h1.2 j hj

/-- a round that offers every thread a turn makes progress unless everything is finished. -/
theorem round_progress {ps : List Prog} {c : Cfg} (h : Inv ps c) (hf : finished c = false)
    {round : List Tid} (hr : ∀ i, i < ps.length → i ∈ round) :
    remaining (run true c round) < remaining c := by
  obtain ⟨i, hen⟩ := no_deadlock h hf
  cases run_progress_or_blocked true c round with
  | inl h1 => exact h1
  | inr h1 =>
    have := h1.2 i (hr i (enabled_lt h hen))
    rw [this] at hen; cases hen

/-- after `k` fair rounds at least `k` events have been executed (or all of them). -/
theorem rounds_remaining {ps : List Prog} {c : Cfg} (h : Inv ps c) (rounds : List (List Tid))
    (hr : ∀ round ∈ rounds, ∀ i, i < ps.length → i ∈ round) :
    remaining (run true c rounds.flatten) ≤ remaining c - rounds.length := by
  induction rounds generalizing c with
  | nil => exact Nat.le_refl _
  | cons r rs ih =>
    rw [List.flatten_cons, run_append]
    have h1 := ih (inv_run h r) (fun round hm => hr round (by simp [hm]))
    cases hf : finished c with
    | true =>
      have h0 := finished_iff_remaining.mp hf
      have h2 := remaining_run_le true c r
      omega
    | false =>
      have h2 := round_progress h hf (hr r (by simp))
      simp only [List.length_cons]
      omega

theorem fair_finishes {ps : List Prog} {c : Cfg} (h : Inv ps c) (rounds : List (List Tid))
    (hr : ∀ round ∈ rounds, ∀ i, i < ps.length → i ∈ round)
    (hlen : remaining c ≤ rounds.length) :
    finished (run true c rounds.flatten) = true := by
  have := rounds_remaining h rounds hr
  exact finished_iff_remaining.mpr (by omega)

/-! ### the plain (non re-entrant) lock -/

/-- a thread id outside the thread list is never enabled. -/
theorem enabled_out_of_range {r : Bool} {c : Cfg} {i : Tid} (h : c.progs.length ≤ i) :
    enabled r c i = false := by
  simp [enabled, List.getElem?_eq_none h]

end Lock
end Nutree
