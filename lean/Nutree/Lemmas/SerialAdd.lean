/-
  Nutree.Lemmas.SerialAdd — the one tree-building step shared by `fromList` and `fromDictL`:
  `Tree.addData … Before.none` appends a leaf (`addData_append`), and the `modT` algebra needed to
  describe a forest that is built leaf by leaf (`modT_modT_same`, `modT_fill_new`,
  `findT_appended_leaf`, `modT_root_append`).
-/
import Nutree.Properties.C01
namespace Nutree
open T C10

/-- appending one leaf: succeeds if the parent exists and has no child with that data id. -/
theorem addData_append {t : Tree} {nx p : NodeId} {P : T} {a : Atom} {did? : Option DataId} {did : DataId}
    {kind : Option String}
    (h : WF t) (hf : C01.Fresh t nx) (hP : findT p t.root = some P)
    (hdid : did? = some did ∨ (did? = none ∧ t.hook = none ∧ did = a.hid))
    (hsib : ∀ c ∈ P.kids, c.did ≠ did) :
    ∃ t', t.addData nx p a .none did? kind = .ok t' ∧
      t'.root = modT p (fun l => l ++ [T.node { id := nx, data := a, did := did, kind := if t.typed then some (kind.getD "child") else none } []]) t.root ∧
      WF t' ∧ C01.Fresh t' (nx + 1) ∧ t'.typed = t.typed ∧ t'.hook = t.hook := by
  cases hreg : t.register p nx did with
  | error e =>
    cases register_error hreg
    obtain ⟨c, hc, hcd⟩ := (register_unique_iff_sibling (nid := nx) h hP).1 hreg
    exact absurd hcd (hsib c hc)
  | ok t1 =>
    have hr : t.addData nx p a .none did? kind = .ok { t1 with root := modT p (fun l => l ++ [T.node { id := nx, data := a, did := did, kind := if t.typed then some (kind.getD "child") else none } []]) t1.root } := by
      unfold Tree.addData
      rcases hdid with rfl | ⟨rfl, hh, rfl⟩
      · simp only [hP, insertPosition, hreg]
      · simp only [hP, insertPosition, Tree.calcId, hh, hreg]
    refine ⟨_, hr, ?_, ?_, ?_, ?_, ?_⟩
    · show modT p _ t1.root = _
      rw [register_root hreg]
    · exact (C01.addData_WF _ _ _ _ _ _ _ _ h hf hr).1
    · exact (C01.addData_WF _ _ _ _ _ _ _ _ h hf hr).2
    · show t1.typed = t.typed
      exact register_typed hreg
    · show t1.hook = t.hook
      exact register_hook hreg

/-- two edits of the same node compose. -/
theorem modT_modT_same (p : NodeId) (g1 g2 : List T → List T) (r : T) :
    modT p g2 (modT p g1 r) = modT p (fun l => g2 (g1 l)) r := by
  induction r using T.ind with
  | node i ks ih =>
    by_cases hid : i.id = p
    · rw [modT_node, if_pos hid, modT_node, if_pos hid, modT_node, if_pos hid]
    · rw [modT_node, if_neg hid, modT_node, if_neg hid, modT_node, if_neg hid, List.map_map]
      congr 1
      exact List.map_congr_left (fun c hc => ih c hc)

/-- filling the children of a freshly appended leaf: if `nx` does not occur in `r` then editing the
new leaf is the same as appending it with its final children. -/
theorem modT_fill_new {p nx : NodeId} {i : Info} {ks' : List T} {r : T} (hi : i.id = nx)
    (hnx : nx ∉ (flat r).map T.id) (_hpn : p ≠ nx) :
    modT nx (fun l => l ++ ks') (modT p (fun l => l ++ [T.node i []]) r)
      = modT p (fun l => l ++ [T.node i ks']) r := by
  induction r using T.ind with
  | node j ks ih =>
    rw [ids_eq, List.mem_cons, not_or] at hnx
    have hj : j.id ≠ nx := fun e => hnx.1 e.symm
    have hks : nx ∉ idsL ks := hnx.2
    by_cases hid : j.id = p
    · rw [modT_node, if_pos hid, modT_node, if_neg hj, modT_node, if_pos hid, List.map_append,
        map_modT_of_not_mem hks, List.map_cons, List.map_nil, modT_node, if_pos hi, List.nil_append]
    · rw [modT_node, if_neg hid, modT_node, if_neg hj, modT_node, if_neg hid, List.map_map]
      congr 1
      refine List.map_congr_left (fun c hc => ih c hc ?_)
      intro hm
      obtain ⟨x, hx, hxn⟩ := mem_ids.1 hm
      exact hks (mem_idsL.2 ⟨x, mem_flatL.2 ⟨c, hc, hx⟩, hxn⟩)

/-- the appended leaf is found in the new tree (whose identities are distinct). -/
theorem findT_appended_leaf {p : NodeId} {P r : T} {i : Info}
    (hP : findT p r = some P)
    (hN : C10.IdsNodup (modT p (fun l => l ++ [T.node i []]) r)) :
    findT i.id (modT p (fun l => l ++ [T.node i []]) r) = some (T.node i []) := by
  refine (findT_eq_some_iff hN).2 ⟨?_, rfl⟩
  refine mem_flat_modT_new (g := fun l => l ++ [T.node i []]) hP ?_
  rw [flatL_append]
  exact List.mem_append_right _ (by simp [flat_node])

/-- the edited node after an append. -/
theorem findT_modT_append {p : NodeId} {P r : T} {new : List T} (hP : findT p r = some P) :
    findT p (modT p (fun l => l ++ new) r) = some (T.node P.info (P.kids ++ new)) :=
  findT_modT_self_of (g := fun l => l ++ new) hP

/-- appending below the system root of the empty tree. -/
theorem modT_root_append (ks' : List T) : modT 0 (fun l => l ++ ks') (mkRoot []) = mkRoot ks' := by
  rw [mkRoot, modT_node]; rfl

/-- an append only adds node records: every old record is still there. -/
theorem infos_subset_modT_append {p : NodeId} {P r : T} {new : List T} (hN : C10.IdsNodup r)
    (hP : findT p r = some P) {i : Info} (hi : i ∈ infos r) :
    i ∈ infos (modT p (fun l => l ++ new) r) := by
  have h := modT_infos_perm_of (g := fun l => l ++ new) hN hP (X := infosL new) (Y := [])
    (by rw [infosL_append, List.append_nil]; exact List.perm_append_comm)
  rw [List.append_nil] at h
  exact h.mem_iff.2 (List.mem_append_right _ hi)

/-- the records after an append are the old ones and those of the new branches. -/
theorem infos_modT_append_perm {p : NodeId} {P r : T} {new : List T} (hN : C10.IdsNodup r)
    (hP : findT p r = some P) :
    (infos (modT p (fun l => l ++ new) r)).Perm (infosL new ++ infos r) := by
  have h := modT_infos_perm_of (g := fun l => l ++ new) hN hP (X := infosL new) (Y := [])
    (by rw [infosL_append, List.append_nil]; exact List.perm_append_comm)
  rwa [List.append_nil] at h

end Nutree
