/-
  Nutree.Lemmas.EffectData — the effect of the record edits (C04): `set_data` / `rename` and the
  metadata edits change the records of the affected nodes and nothing else.

  * `eff_mapInfo_*` — what a relabelling `mapInfoT F` (with `F` keeping identities) does, node by
    node: records in pre-order, searching, parents.
  * `eff_setData_root` — a successful `Tree.setData` is the relabelling that gives the affected nodes
    the new data object and the new data id.
  * `metaGet` and the lookup laws of `metaSet` / `metaSetV` / `metaClear` / `metaUpdate`.
-/
import Nutree.Lemmas.WFSetData
namespace Nutree
open T C10

/-! ## 1. relabellings, node by node -/

theorem eff_mapInfo_kids_id {F : Info → Info} (hF : ∀ i, (F i).id = i.id) (y : T) :
    (mapInfoT F y).kids.map T.id = y.kids.map T.id := by
  rw [mapInfoT_kids, List.map_map]
  exact List.map_congr_left (fun c _ => mapInfoT_id hF c)

/-- parents are the images of the old parents. -/
theorem eff_findParent_mapInfoT {F : Info → Info} (hF : ∀ i, (F i).id = i.id) {root : T}
    (hN : C10.IdsNodup root) (c : NodeId) :
    findParent c (mapInfoT F root) = (findParent c root).map (mapInfoT F) := by
  cases hp : findParent c root with
  | none =>
    rw [Option.map_none, findParent_eq_none, idsL_kids_mapInfoT hF]
    exact findParent_eq_none.1 hp
  | some par =>
    obtain ⟨hpm, k, hk, hkc⟩ := findParent_some_mem hp
    rw [Option.map_some, findParent_eq_some_iff (idsNodup_mapInfoT hF hN), flat_mapInfoT]
    refine ⟨List.mem_map_of_mem hpm, mapInfoT F k, ?_, (mapInfoT_id hF k).trans hkc⟩
    rw [mapInfoT_kids]
    exact List.mem_map_of_mem hk

theorem eff_parentId_mapInfoT {F : Info → Info} (hF : ∀ i, (F i).id = i.id) {t t' : Tree}
    (hN : C10.IdsNodup t.root) (hr : t'.root = mapInfoT F t.root) (c : NodeId) :
    t'.parentId c = t.parentId c := by
  unfold Tree.parentId
  rw [hr, eff_findParent_mapInfoT hF hN]
  cases findParent c t.root with
  | none => rfl
  | some par => simp [mapInfoT_id hF]

/-! ## 2. `set_data` -/

/-- in a well-formed state the clone list of a reachable node contains it; so "has clones" fails
only for the list `[n]`. -/
theorem eff_sdAffected {t : Tree} {n : NodeId} {x : T} (h : WF t) (hn : n ≠ 0)
    (hx : findT n t.root = some x) (wc : Option Bool) :
    sdAffected t x n wc = if wc.getD false then sdCur t x else [n] := by
  obtain ⟨l, hl, hnl⟩ := (listed_iff_lookup h.index.keys).1 ((h.listed_iff_did hx hn x.did).2 rfl)
  have hcur : sdCur t x = l := by unfold sdCur; rw [hl]; rfl
  unfold sdAffected
  by_cases hw : wc.getD false = true
  · rw [hw, if_pos rfl, Bool.and_true]
    by_cases hlen : (sdCur t x).length > 1
    · rw [decide_eq_true hlen, if_pos rfl]
    · rw [decide_eq_false hlen, if_neg (by simp)]
      rw [hcur] at hlen ⊢
      match l, hnl, hlen with
      | [a], hnl, _ => simp at hnl; rw [hnl]
      | _ :: _ :: _, _, hlen => simp at hlen
  · have : wc.getD false = false := by simpa using hw
    rw [this]; simp

/-- the nodes in the clone list carry the node's data id. -/
theorem eff_sdCur_did {t : Tree} {x : T} (h : WF t) {y : T} (hy : y ∈ flat t.root)
    (hm : y.id ∈ sdCur t x) : y.did = x.did := by
  unfold sdCur at hm
  cases hl : t.byData.lookup x.did with
  | none => rw [hl] at hm; simp at hm
  | some l =>
    rw [hl] at hm
    obtain ⟨z, hz, hzy, hzd⟩ := (h.index.listed x.did y.id).1 ⟨l, mem_of_lookup hl, hm⟩
    rw [← eq_of_id_eq h.idsN (mem_flat_of_mem_flatL_kids hz) hy hzy]; exact hzd

/-- membership in the clone list, in terms of the tree. -/
theorem eff_mem_sdCur {t : Tree} {x : T} (h : WF t) {m : NodeId} :
    m ∈ sdCur t x ↔ ∃ z ∈ flatL t.root.kids, z.id = m ∧ z.did = x.did := by
  rw [← h.index.listed, listed_iff_lookup h.index.keys]
  unfold sdCur
  cases t.byData.lookup x.did <;> simp

/-- the data id the affected nodes end up with: the explicit one, else the hook/hash value of the
new data object, else (same object again, or no data given) the old one. -/
def sdFinalDid (t : Tree) (x : T) (a? : Option Atom) (did? : Option DataId) (d : DataId) : Prop :=
  match did?, sdNewData x a? with
  | some d', _ => d = d'
  | none, some a => t.calcId a = .ok d
  | none, none => d = x.did

/-- **A successful `set_data` is one relabelling**: the affected nodes (`n`, with
`with_clones=True` every clone) get the new data object (if a different object was given) and the
data id `d`; no other record and no child list changes; `byId` is untouched. -/
theorem eff_setData_root {t t' : Tree} {n : NodeId} {x : T} {a? : Option Atom} {did? : Option DataId}
    {wc : Option Bool} (h : WF t) (hn : n ≠ 0) (hx : findT n t.root = some x)
    (hr : t.setData n a? did? wc = .ok t') :
    ∃ d : DataId, sdFinalDid t x a? did? d ∧
      t'.root = mapInfoT (fun i => if i.id ∈ (if wc.getD false then sdCur t x else [n])
        then { i with data := (sdNewData x a?).getD i.data, did := d } else i) t.root ∧
      t'.byId = t.byId ∧ t'.typed = t.typed ∧ t'.hook = t.hook ∧ t'.rootNone = t.rootNone := by
  have hN := h.idsN
  have hA := eff_sdAffected h hn hx wc
  -- the affected nodes carry `x.did`
  have hAdid : ∀ i ∈ infos t.root, i.id ∈ (if wc.getD false then sdCur t x else [n]) → i.did = x.did := by
    intro i hi hm
    obtain ⟨y, hy, rfl⟩ := List.mem_map.1 hi
    split at hm
    · exact eff_sdCur_did h hy hm
    · rw [List.mem_singleton] at hm
      rw [eq_of_id_eq hN hy (findT_some_mem hx) (hm.trans (findT_some_id hx).symm)]
  rw [setData_eq a? did? wc hx] at hr
  split at hr
  · cases hr
  split at hr
  · cases hr
  rename_i did1 hdid1
  split at hr
  · cases hr
  split at hr
  · -- re-keying
    rename_i d hd
    obtain ⟨hd1, _⟩ := sdNewDid_some hd
    subst hd1
    split at hr
    · cases hr
    cases hr
    refine ⟨d, ?_, ?_, rfl, rfl, rfl, rfl⟩
    · unfold sdFinalDid
      unfold sdDid1 at hdid1
      cases did? with
      | some d' =>
        cases hnd : sdNewData x a? <;> rw [hnd] at hdid1 <;> simp at hdid1 <;> simp [hdid1]
      | none =>
        cases hnd : sdNewData x a? with
        | none => rw [hnd] at hdid1; simp at hdid1
        | some a =>
          rw [hnd] at hdid1
          simp only at hdid1 ⊢
          cases hc : t.calcId a with
          | error e => rw [hc] at hdid1; cases hdid1
          | ok d0 => rw [hc] at hdid1; cases hdid1; rfl
    · show (sdAffected t x n wc).foldl _ t.root = _
      rw [foldl_setInfoT_eq (sdUpd_id d _) (sdUpd_idem d _) _ hN, hA]
      rfl
  · -- the data id stays
    rename_i hd
    have hdx : did1 = none ∨ did1 = some x.did := sdNewDid_none hd
    have hfin : sdFinalDid t x a? did? x.did := by
      unfold sdFinalDid
      unfold sdDid1 at hdid1
      cases did? with
      | some d' =>
        have : did1 = some d' := by
          cases hnd : sdNewData x a? <;> rw [hnd] at hdid1 <;> simp at hdid1 <;> simp [hdid1]
        rcases hdx with h0 | h0 <;> rw [h0] at this
        · cases this
        · cases this; cases sdNewData x a? <;> rfl
      | none =>
        cases hnd : sdNewData x a? with
        | none => rfl
        | some a =>
          rw [hnd] at hdid1
          simp only at hdid1 ⊢
          cases hc : t.calcId a with
          | error e => rw [hc] at hdid1; cases hdid1
          | ok d0 =>
            rw [hc] at hdid1
            have : did1 = some d0 := by cases hdid1; rfl
            rcases hdx with h0 | h0 <;> rw [h0] at this
            · cases this
            · cases this; rfl
    split at hr
    · rename_i a hnd
      cases hr
      refine ⟨x.did, hfin, ?_, rfl, rfl, rfl, rfl⟩
      show (if wc.getD false then sdCur t x else [n]).foldl _ t.root = _
      rw [foldl_setInfoT_eq (f := fun i => { i with data := a }) (fun _ => rfl) (fun _ => rfl) _ hN]
      refine mapInfoT_congr (fun i hi => ?_)
      by_cases hm : i.id ∈ (if wc.getD false then sdCur t x else [n])
      · rw [if_pos hm, if_pos hm, hnd]
        have := hAdid i hi hm
        cases i
        simp only at this
        simp [this]
      · rw [if_neg hm, if_neg hm]
    · rename_i hnd
      cases hr
      refine ⟨x.did, hfin, ?_, rfl, rfl, rfl, rfl⟩
      refine (mapInfoT_of_fix (fun i hi => ?_)).symm
      by_cases hm : i.id ∈ (if wc.getD false then sdCur t x else [n])
      · rw [if_pos hm, hnd]
        have := hAdid i hi hm
        cases i
        simp only at this
        simp [this]
      · rw [if_neg hm]

/-! ## 3. metadata: lookup laws -/

abbrev Meta := Option (List (String × String))

/-- `node.get_meta(key)` (`None` when there is no metadata or no such key). -/
def metaGet (m : Meta) (k : String) : Option String :=
  match m with
  | none => none
  | some l => l.lookup k

/-- the keys of the metadata dict, in dict order. -/
def metaKeys (m : Meta) : List String := (m.getD []).map (·.1)

theorem eff_lookup_eq_none_of_any {l : List (String × String)} {k : String}
    (h : l.any (·.1 == k) = false) : l.lookup k = none := by
  induction l with
  | nil => rfl
  | cons e l ih =>
    rw [List.any_cons, Bool.or_eq_false_iff] at h
    obtain ⟨k', v'⟩ := e
    have hk : (k == k') = false := by
      have := h.1
      simp only [beq_eq_false_iff_ne, ne_eq] at this ⊢
      exact fun e => this e.symm
    rw [List.lookup_cons, hk]
    exact ih h.2

theorem eff_lookup_map_set (k v k' : String) : ∀ l : List (String × String),
    (l.map fun e => if e.1 == k then (k, v) else e).lookup k' =
      if k' = k then (if l.any (·.1 == k) then some v else none) else l.lookup k'
  | [] => by simp
  | (k0, v0) :: l => by
    have ih := eff_lookup_map_set k v k' l
    rw [List.map_cons, List.any_cons]
    by_cases h0 : k0 = k
    · subst h0
      simp only [beq_self_eq_true, if_true, Bool.true_or]
      rw [List.lookup_cons, List.lookup_cons]
      by_cases hk : k' = k0
      · subst hk; simp
      · have : (k' == k0) = false := by simpa using hk
        rw [this, ih, if_neg hk, if_neg hk]
    · have hb : (k0 == k) = false := by simpa using h0
      simp only [hb, Bool.false_or, Bool.false_eq_true, if_false]
      rw [List.lookup_cons, List.lookup_cons, ih]
      by_cases hk : k' = k0
      · subst hk
        simp [h0]
      · have : (k' == k0) = false := by simpa using hk
        rw [this]

theorem eff_lookup_append_single (l : List (String × String)) (k v k' : String) :
    (l ++ [(k, v)]).lookup k' = match l.lookup k' with
      | some r => some r
      | none => if k' = k then some v else none := by
  induction l with
  | nil =>
    by_cases hk : k' = k
    · subst hk; simp
    · have : (k' == k) = false := by simpa using hk
      simp [List.lookup_cons, this, hk]
  | cons e l ih =>
    obtain ⟨k0, v0⟩ := e
    rw [List.cons_append, List.lookup_cons, List.lookup_cons]
    cases k' == k0
    · exact ih
    · rfl

theorem eff_metaSet_some (l : List (String × String)) (k v : String) :
    metaSet (some l) k v = if l.any (·.1 == k) then some (l.map fun e => if e.1 == k then (k, v) else e)
      else some (l ++ [(k, v)]) := rfl

theorem eff_metaClear_some (l : List (String × String)) (k : String) :
    metaClear (some l) (some k) = if (l.filter (·.1 != k)).isEmpty then none else some (l.filter (·.1 != k)) := rfl

/-- **`set_meta(k, v)`**: `k` now maps to `v`, every other key is unchanged. -/
theorem eff_metaGet_metaSet (m : Meta) (k v k' : String) :
    metaGet (metaSet m k v) k' = if k' = k then some v else metaGet m k' := by
  cases m with
  | none =>
    by_cases hk : k' = k
    · subst hk; simp [metaSet, metaGet]
    · have : (k' == k) = false := by simpa using hk
      simp [metaSet, metaGet, List.lookup_cons, this, hk]
  | some l =>
    rw [eff_metaSet_some]
    by_cases ha : l.any (·.1 == k) = true
    · rw [if_pos ha]
      show (l.map fun e => if e.1 == k then (k, v) else e).lookup k' = if k' = k then some v else l.lookup k'
      rw [eff_lookup_map_set, ha]
      simp
    · have ha' : l.any (·.1 == k) = false := Bool.eq_false_iff.2 ha
      rw [if_neg ha]
      show (l ++ [(k, v)]).lookup k' = if k' = k then some v else l.lookup k'
      rw [eff_lookup_append_single]
      by_cases hk : k' = k
      · subst hk
        rw [eff_lookup_eq_none_of_any ha']
      · cases l.lookup k' <;> simp [hk]

/-- `set_meta` keeps the dict order: an existing key keeps its place, a new key goes to the end. -/
theorem eff_metaKeys_metaSet (m : Meta) (k v : String) :
    metaKeys (metaSet m k v) = if k ∈ metaKeys m then metaKeys m else metaKeys m ++ [k] := by
  cases m with
  | none => simp [metaSet, metaKeys]
  | some l =>
    have hany : l.any (·.1 == k) = true ↔ k ∈ l.map (·.1) := by
      rw [List.any_eq_true, List.mem_map]
      constructor
      · rintro ⟨e, he, h⟩; exact ⟨e, he, by simpa using h⟩
      · rintro ⟨e, he, h⟩; exact ⟨e, he, by simpa using h⟩
    rw [eff_metaSet_some]
    by_cases ha : l.any (·.1 == k) = true
    · rw [if_pos ha]
      show (l.map fun e => if e.1 == k then (k, v) else e).map (·.1) = if k ∈ l.map (·.1) then l.map (·.1) else l.map (·.1) ++ [k]
      rw [if_pos (hany.1 ha), List.map_map]
      refine List.map_congr_left (fun e _ => ?_)
      simp only [Function.comp_apply]
      split
      · rename_i h; exact (by simpa using h : e.1 = k).symm
      · rfl
    · rw [if_neg ha]
      show (l ++ [(k, v)]).map (·.1) = if k ∈ l.map (·.1) then l.map (·.1) else l.map (·.1) ++ [k]
      rw [if_neg (fun h => ha (hany.2 h))]
      simp

theorem eff_lookup_filter_ne (k k' : String) : ∀ l : List (String × String),
    (l.filter (·.1 != k)).lookup k' = if k' = k then none else l.lookup k'
  | [] => by simp
  | (k0, v0) :: l => by
    have ih := eff_lookup_filter_ne k k' l
    rw [List.filter_cons]
    by_cases h0 : k0 = k
    · subst h0
      simp only [bne_self_eq_false, Bool.false_eq_true, if_false]
      rw [ih, List.lookup_cons]
      by_cases hk : k' = k0
      · rw [if_pos hk, if_pos hk]
      · have : (k' == k0) = false := by simpa using hk
        rw [this]
    · have hb : (k0 != k) = true := by simpa using h0
      simp only [hb, if_true]
      rw [List.lookup_cons, List.lookup_cons, ih]
      by_cases hk : k' = k0
      · subst hk; simp [h0]
      · have : (k' == k0) = false := by simpa using hk
        rw [this]

/-- **`set_meta(k, None)` / `clear_meta(k)`**: `k` is gone, every other key is unchanged. -/
theorem eff_metaGet_metaClear (m : Meta) (k k' : String) :
    metaGet (metaClear m (some k)) k' = if k' = k then none else metaGet m k' := by
  cases m with
  | none => simp [metaClear, metaGet]
  | some l =>
    rw [eff_metaClear_some]
    by_cases he : (l.filter (·.1 != k)).isEmpty = true
    · rw [if_pos he]
      have hnil : l.filter (·.1 != k) = [] := by simpa using he
      have := eff_lookup_filter_ne k k' l
      rw [hnil] at this
      show none = if k' = k then none else l.lookup k'
      rw [← this]; rfl
    · rw [if_neg he]
      exact eff_lookup_filter_ne k k' l

/-- "None if empty": the metadata is never an empty dict after a `clear`. -/
theorem eff_metaClear_ne_empty (m : Meta) (k : Option String) : metaClear m k ≠ some [] := by
  cases k with
  | none => cases m <;> simp [metaClear]
  | some k =>
    cases m with
    | none => simp [metaClear]
    | some l =>
      rw [eff_metaClear_some]
      split
      · simp
      · rename_i h
        intro e
        apply h
        rw [Option.some.inj e]; rfl

/-- clearing the last key gives `None`. -/
theorem eff_metaClear_last (m : Meta) (k : String) (h : ∀ k' ∈ metaKeys m, k' = k) :
    metaClear m (some k) = none := by
  cases m with
  | none => rfl
  | some l =>
    rw [eff_metaClear_some, if_pos]
    rw [List.isEmpty_iff, List.filter_eq_nil_iff]
    intro e he
    have := h e.1 (List.mem_map_of_mem (f := (·.1)) he)
    simp [this]

theorem eff_metaClear_keys (m : Meta) (k : String) :
    metaKeys (metaClear m (some k)) = (metaKeys m).filter (· != k) := by
  cases m with
  | none => rfl
  | some l =>
    rw [eff_metaClear_some]
    have hm : (l.filter (·.1 != k)).map (·.1) = (l.map (·.1)).filter (· != k) := by
      rw [List.filter_map]; rfl
    split
    · rename_i h
      have hnil : l.filter (·.1 != k) = [] := by simpa using h
      show [] = (l.map (·.1)).filter (· != k)
      rw [← hm, hnil]; rfl
    · exact hm

/-- **`update_meta(vals)`** (no `replace`) on existing metadata = successive `set_meta`; so for every key the
last value given for it wins, and keys not mentioned are unchanged. -/
theorem eff_metaGet_foldl_metaSet (k : String) : ∀ (vals : List (String × String)) (m : Meta),
    metaGet (vals.foldl (fun acc e => metaSet acc e.1 e.2) m) k =
      match vals.reverse.lookup k with
      | some v => some v
      | none => metaGet m k
  | [], m => rfl
  | e :: vs, m => by
    rw [List.foldl_cons, eff_metaGet_foldl_metaSet k vs, List.reverse_cons]
    obtain ⟨k0, v0⟩ := e
    rw [eff_lookup_append_single, eff_metaGet_metaSet]
    cases vs.reverse.lookup k with
    | some r => rfl
    | none =>
      simp only
      by_cases hk : k = k0
      · rw [if_pos hk, if_pos hk]
      · rw [if_neg hk, if_neg hk]

end Nutree
