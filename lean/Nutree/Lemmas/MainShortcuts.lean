/-
  Nutree.Lemmas.MainShortcuts — case analyses of `Tree.delItem` (`del tree[key]`) and
  `World.metaEdit` (`set_meta` / `clear_meta` / `update_meta`) for the history theorems
  (Properties/C01Main.lean) and the shortcut equations (Properties/C04Shortcuts.lean).
-/
import Nutree.Model.World
import Nutree.Properties.C01Move
import Nutree.Lemmas.Copy
namespace Nutree
open T C01

/-- `del tree[key]` either refuses with the tree untouched or is `remove()` of the one match. -/
theorem delItem_cases (t : Tree) (a : Option Atom) (asId : Option DataId) :
    (∃ e, t.delItem a asId = (t, some e)) ∨
    (∃ n, t.lookupKey a asId = .ok [n] ∧ t.delItem a asId = t.remove n false false) := by
  unfold Tree.delItem
  split
  · exact .inl ⟨_, rfl⟩
  · exact .inl ⟨_, rfl⟩
  · rename_i n h; exact .inr ⟨n, h, rfl⟩
  · exact .inl ⟨_, rfl⟩

/-- a refused `del tree[key]` (KeyError, AmbiguousMatchError, ValueError, a raising id hook, or a
refusal of the `remove()`) leaves the tree unchanged. -/
theorem delItem_refused_unchanged (t : Tree) (a : Option Atom) (asId : Option DataId) (e : Err)
    (h : (t.delItem a asId).2 = some e) : (t.delItem a asId).1 = t := by
  rcases delItem_cases t a asId with ⟨e', he⟩ | ⟨n, _, hn⟩
  · rw [he]
  · rw [hn] at h ⊢
    exact remove_refused_unchanged t n false e h

/-- a metadata edit either does nothing (unknown tree or node) or replaces the dictionary of the
node by `f` of its current one. -/
theorem World.metaEdit_cases (w : World) (i : Nat) (n : NodeId)
    (f : Option (List (String × String)) → Option (List (String × String))) :
    w.metaEdit i n f = (w, some .other) ∨
    ∃ t x, w.trees[i]? = some t ∧ findT n t.root = some x ∧
      w.metaEdit i n f =
        (w.setTree i { t with root := setInfoT n (fun inf => { inf with nmeta := f x.info.nmeta }) t.root }, none) := by
  unfold World.metaEdit
  split
  · exact .inl rfl
  · rename_i t hi
    split
    · exact .inl rfl
    · rename_i x hx
      exact .inr ⟨t, x, hi, hx, rfl⟩

/-- a refused metadata edit leaves the world unchanged. -/
theorem World.metaEdit_refused {w : World} {i : Nat} {n : NodeId}
    {f : Option (List (String × String)) → Option (List (String × String))} {e : Err}
    (h : (w.metaEdit i n f).2 = some e) : (w.metaEdit i n f).1 = w := by
  rcases World.metaEdit_cases w i n f with h1 | ⟨t, x, _, _, h1⟩
  · rw [h1]
  · rw [h1] at h; cases h

end Nutree

namespace Nutree
open T C01

/-- `Tree.register` does not touch the tree value. -/
theorem register_root_eq {t t1 : Tree} {parent nid : NodeId} {did : DataId}
    (h : t.register parent nid did = .ok t1) : t1.root = t.root := by
  unfold Tree.register at h
  split at h
  · split at h
    · cases h
    · cases h; rfl
  · cases h; rfl

/-- two `before` values whose insert functions agree on the current child list of the (unique)
target give the same `add_child`. -/
theorem addData_congr_before (t : Tree) (hN : C10.IdsNodup t.root) (next parent : NodeId) (a : Atom)
    (b b' : Before) (did : Option DataId) (kind : Option String) (x : T) (f f' : List T → T → List T)
    (hp : findT parent t.root = some x)
    (hb : insertPosition x.kids (t.childrenNone parent x) b = .ok f)
    (hb' : insertPosition x.kids (t.childrenNone parent x) b' = .ok f')
    (hff : ∀ n, f x.kids n = f' x.kids n) :
    t.addData next parent a b did kind = t.addData next parent a b' did kind := by
  unfold Tree.addData
  simp only [hp, hb, hb']
  split
  · rfl
  · split
    · rfl
    · rename_i t1 hreg
      have hr := register_root_eq hreg
      have hp1 : findT parent t1.root = some x := by rw [hr]; exact hp
      have hN1 : C10.IdsNodup t1.root := by rw [hr]; exact hN
      have key : ∀ n : T, modT parent (fun l => f l n) t1.root = modT parent (fun l => f' l n) t1.root :=
        fun n => modT_congr_of (g := fun l => f l n) (g' := fun l => f' l n) hN1 hp1 (hff n)
      simp only [key]

end Nutree
