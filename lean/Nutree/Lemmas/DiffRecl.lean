/-
  Nutree.Lemmas.DiffRecl — the re-classification loop: it only rewrites `dc` marks
  (`ADDED`/unmarked copy → `MOVED_HERE` for the processed identities, `REMOVED` → `MOVED_TO`),
  and `MOVED_HERE` / `MOVED_TO` come in pairs with the same data_id.
-/
import Nutree.Lemmas.DiffSim
namespace Nutree
open T C10
namespace Diff

/-- one iteration of the loop over `added_nodes`. -/
def reclStep (f : List T) (nid : NodeId) : List T :=
  match (flatL f).find? (fun n => n.id == nid) with
  | none => f
  | some a =>
    let removedClones := (flatL f).filter fun n => n.id != nid && n.did == a.did && dcOf n == some "REMOVED"
    if removedClones.isEmpty then f
    else
      let f1 := setInfoL nid (setDc "MOVED_HERE") f
      removedClones.foldl (fun g n => setInfoL n.id (setDc "MOVED_TO") g) f1

theorem reclassify_eq (order : List NodeId) (f : List T) : reclassify order f = order.foldl reclStep f := rfl

theorem reclassify_nil (f : List T) : reclassify [] f = f := rfl

theorem reclassify_cons (n : NodeId) (order : List NodeId) (f : List T) :
    reclassify (n :: order) f = reclassify order (reclStep f n) := rfl

/-- the allowed transitions of a `dc` mark (`a`: the node's identity is in the processed set). -/
def Trans (a : Prop) (d d' : Option String) : Prop :=
  d' = d ∨ (a ∧ d' = some "MOVED_HERE") ∨ (d = some "REMOVED" ∧ d' = some "MOVED_TO")

/-- everything but the `dc` mark is unchanged. -/
def SameBut (i j : Info) : Prop :=
  j.id = i.id ∧ j.data = i.data ∧ j.did = i.did ∧ j.kind = i.kind ∧ renI j = renI i

theorem SameBut.refl (i : Info) : SameBut i i := ⟨rfl, rfl, rfl, rfl, rfl⟩

theorem SameBut.setDc {i j : Info} (h : SameBut i j) (v : String) : SameBut i (setDc v j) := by
  obtain ⟨h1, h2, h3, h4, h5⟩ := h
  exact ⟨by simp [h1], by simp [h2], by simp [h3], by simp [h4], by simp [h5]⟩

/-- the relation between a record of the forest before the loop (`R0`) and its current state. -/
def ReclP (A : NodeId → Prop) (R0 : List T) (i j : Info) : Prop :=
  i ∈ infosL R0 ∧ SameBut i j ∧ Trans (A i.id) (dcI i) (dcI j)

theorem reclP_id {A : NodeId → Prop} {R0 : List T} (i j : Info) (h : ReclP A R0 i j) : j.id = i.id :=
  h.2.1.1

theorem simL_reclP_refl (A : NodeId → Prop) (R0 : List T) : SimL (ReclP A R0) R0 R0 :=
  simL_refl R0 fun i hi => ⟨hi, SameBut.refl i, Or.inl rfl⟩

theorem simL_fold_movedTo {A : NodeId → Prop} {R0 : List T} :
    ∀ (cs : List T) (f : List T), SimL (ReclP A R0) R0 f →
      (∀ c ∈ cs, ∀ i ∈ infosL R0, i.id = c.id → dcI i = some "REMOVED") →
      SimL (ReclP A R0) R0 (cs.foldl (fun g n => setInfoL n.id (setDc "MOVED_TO") g) f) := by
  intro cs
  induction cs with
  | nil => intro f h _; exact h
  | cons c cs ih =>
    intro f h hc
    rw [List.foldl_cons]
    refine ih _ (simL_setInfoL ?_ _ _ h) (fun c' hc' => hc c' (List.mem_cons_of_mem _ hc'))
    rintro i j ⟨hi, hs, _⟩ hj
    refine ⟨hi, hs.setDc _, Or.inr (Or.inr ⟨hc c (List.mem_cons_self ..) i hi (hs.1 ▸ hj), ?_⟩)⟩
    simp

/-- one step keeps the relation to the initial forest. -/
theorem simL_reclStep {A : NodeId → Prop} {R0 f : List T} (hN : IdsNodupL R0) {nid : NodeId}
    (hA : A nid) (h : SimL (ReclP A R0) R0 f) : SimL (ReclP A R0) R0 (reclStep f nid) := by
  unfold reclStep
  split
  · exact h
  · rename_i a ha
    simp only []
    split
    · exact h
    · refine simL_fold_movedTo _ _ (simL_setInfoL ?_ _ _ h) ?_
      · rintro i j ⟨hi, hs, _⟩ hj
        refine ⟨hi, hs.setDc _, Or.inr (Or.inl ⟨?_, by simp⟩)⟩
        rw [← hs.1, hj]; exact hA
      · intro c hc i hi hic
        rw [List.mem_filter] at hc
        obtain ⟨hcf, hcp⟩ := hc
        simp only [Bool.and_eq_true, beq_iff_eq] at hcp
        obtain ⟨x, hx, hp⟩ := simL_right _ _ h c.info (infosL_mem_of_mem_flatL hcf)
        obtain ⟨_, hs, ht⟩ := hp
        have hix : i = x := info_eq_of_id_eq hN hi hx (by rw [hic]; exact hs.1)
        subst hix
        have hdc : dcI c.info = some "REMOVED" := hcp.2
        rw [hdc] at ht
        rcases ht with ht | ⟨_, ht⟩ | ⟨_, ht⟩
        · exact ht.symm
        · exact absurd ht (by decide)
        · exact absurd ht (by decide)

/-- the loop only rewrites marks: position-wise, everything but `dc` is unchanged and the mark
transitions are: unchanged, → `MOVED_HERE` (only for processed identities), `REMOVED` → `MOVED_TO`. -/
theorem simL_reclassify {A : NodeId → Prop} {R0 : List T} (hN : IdsNodupL R0) :
    ∀ (order : List NodeId), (∀ n ∈ order, A n) → ∀ f, SimL (ReclP A R0) R0 f →
      SimL (ReclP A R0) R0 (reclassify order f) := by
  intro order
  induction order with
  | nil => intro _ f h; exact h
  | cons n order ih =>
    intro hA f h
    rw [reclassify_cons]
    exact ih (fun m hm => hA m (List.mem_cons_of_mem _ hm)) _
      (simL_reclStep hN (hA n (List.mem_cons_self ..)) h)

/-- a step does nothing if no node is marked `REMOVED`. -/
theorem reclStep_of_no_removed {f : List T} (h : ∀ x ∈ flatL f, dcOf x ≠ some "REMOVED") (nid : NodeId) :
    reclStep f nid = f := by
  unfold reclStep
  split
  · rfl
  · simp only []
    rw [if_pos]
    rw [List.isEmpty_iff, List.filter_eq_nil_iff]
    intro x hx
    simp [h x hx]

theorem reclassify_of_no_removed {f : List T} (h : ∀ x ∈ flatL f, dcOf x ≠ some "REMOVED")
    (order : List NodeId) : reclassify order f = f := by
  induction order with
  | nil => rfl
  | cons n order ih => rw [reclassify_cons, reclStep_of_no_removed h, ih]

end Diff
end Nutree
