/-
  Nutree.Lemmas.FilterInPlace — the in-place scan `visitL` against the specification `keepL`.

  * unfolding lemmas for `Spec.keepT` / `Spec.keepL` (`keepL_cons`, `keepT_accept`, …),
    `keepL_all_reject`.
  * `erase_cons_split` — erasing in `n :: ns` splits into the part for `n` and the part for `ns`.
  * `VRes` / `visitL_spec` — **key lemma**: for verdicts `w` that agree with `v` on the forest `ks`
    entered with flag `s`, `visitL v ks s acc rm keep` returns
    `rm ++ D ++ (acc ++ A)` with `eraseIdsL (D ++ A) ks = keepL w ks`, `mustKeep = keep || (keepL w ks ≠ [])`,
    `stopped = s || stopIn v ks`, and never fails.
-/
import Nutree.Lemmas.FilterScan
namespace Nutree
open T C10
namespace Flt
open Spec

/-! ### `keepT` / `keepL` unfolded -/

@[simp] theorem keepL_nil (w : T → Verdict) : keepL w [] = [] := by simp [keepL]

theorem keepL_cons (w : T → Verdict) (t : T) (ts : List T) :
    keepL w (t :: ts) = (keepT w t).toList ++ keepL w ts := by
  rw [keepL]; cases keepT w t <;> rfl

/-- verdicts that keep a node only for the sake of kept descendants. -/
def Verdict.passes : Verdict → Bool
  | .reject => true
  | .stop => true
  | .other => true
  | .error => true
  | _ => false

theorem keepT_accept {w : T → Verdict} {n : T} (h : w n = .accept) :
    keepT w n = some (.node n.info (keepL w n.kids)) := by
  cases n; simp only [keepT, h]; rfl

theorem keepT_select {w : T → Verdict} {n : T} (h : w n = .select) : keepT w n = some n := by
  cases n; simp only [keepT, h]

theorem keepT_skipKeepSelf {w : T → Verdict} {n : T} (h : w n = .skipKeepSelf) :
    keepT w n = some (.node n.info []) := by
  cases n; simp only [keepT, h]; rfl

theorem keepT_skip {w : T → Verdict} {n : T} (h : w n = .skip) : keepT w n = none := by
  cases n; simp only [keepT, h]

theorem keepT_pass_nil {w : T → Verdict} {n : T} (h : (w n).passes = true) (hk : keepL w n.kids = []) :
    keepT w n = none := by
  cases n with
  | node i ks =>
    simp only [kids_node] at hk
    cases hw : w (.node i ks) <;> simp_all [keepT, Verdict.passes]

theorem keepT_pass_cons {w : T → Verdict} {n : T} (h : (w n).passes = true) (hk : keepL w n.kids ≠ []) :
    keepT w n = some (.node n.info (keepL w n.kids)) := by
  cases n with
  | node i ks =>
    simp only [kids_node] at hk
    cases hl : keepL w ks with
    | nil => exact absurd hl hk
    | cons a l =>
      cases hw : w (.node i ks) <;> simp_all [keepT, Verdict.passes]

/-- nothing accepted anywhere: nothing kept. -/
theorem keepL_all_reject {w : T → Verdict} : ∀ {ks : List T}, (∀ m ∈ flatL ks, w m = .reject) →
    keepL w ks = [] := by
  intro ks
  refine T.bothL (P := fun t => (∀ m ∈ flat t, w m = .reject) → keepT w t = none)
    (Q := fun ks => (∀ m ∈ flatL ks, w m = .reject) → keepL w ks = []) ?_ ?_ ?_ ks
  · intro i ks ih h
    refine keepT_pass_nil (by rw [h _ (self_mem_flat _)]; rfl) (ih fun m hm => h m ?_)
    exact mem_flat_of_mem_flatL_kids hm
  · intro _; simp
  · intro t ts iht ihts h
    rw [keepL_cons, iht (fun m hm => h m (by rw [flatL_cons]; exact List.mem_append_left _ hm)),
      ihts (fun m hm => h m (by rw [flatL_cons]; exact List.mem_append_right _ hm))]
    rfl

theorem keepT_all_reject {w : T → Verdict} {n : T} (h : ∀ m ∈ flat n, w m = .reject) : keepT w n = none :=
  keepT_pass_nil (by rw [h _ (self_mem_flat _)]; rfl)
    (keepL_all_reject fun m hm => h m (mem_flat_of_mem_flatL_kids hm))

/-! ### erasing in `n :: ns` -/

theorem erase_cons_split {n : T} {ns : List T} (hN : IdsNodupL (n :: ns)) {R Rn Rns : List NodeId}
    (hn : ∀ a ∈ Rn, a ∈ (flat n).map T.id) (hns : ∀ a ∈ Rns, a ∈ idsL ns)
    (hR : ∀ a, a ∈ R ↔ a ∈ Rn ∨ a ∈ Rns) :
    eraseIdsL R (n :: ns) = (if n.id ∈ Rn then [] else [eraseIds Rn n]) ++ eraseIdsL Rns ns := by
  have hdis := ((idsNodupL_cons n ns).1 hN).2.2
  have h1 : ∀ a ∈ (flat n).map T.id, a ∈ R ↔ a ∈ Rn := by
    intro a ha
    rw [hR]
    refine ⟨fun h => h.resolve_right fun h2 => ?_, Or.inl⟩
    obtain ⟨x, hx, hxa⟩ := mem_ids.1 ha
    obtain ⟨y, hy, hya⟩ := mem_idsL.1 (hns a h2)
    exact hdis x hx y hy (hxa.trans hya.symm)
  have h2 : ∀ a ∈ idsL ns, a ∈ R ↔ a ∈ Rns := by
    intro a ha
    rw [hR]
    refine ⟨fun h => h.resolve_left fun h2 => ?_, Or.inr⟩
    obtain ⟨x, hx, hxa⟩ := mem_ids.1 (hn a h2)
    obtain ⟨y, hy, hya⟩ := mem_idsL.1 ha
    exact hdis x hx y hy (hxa.trans hya.symm)
  rw [eraseIdsL_cons, eraseIdsL_congr h2]
  have h3 : n.id ∈ R ↔ n.id ∈ Rn := h1 _ (by rw [ids_eq]; exact List.mem_cons_self)
  by_cases e : n.id ∈ Rn
  · rw [if_pos (h3.2 e), if_pos e]; rfl
  · rw [if_neg (fun h => e (h3.1 h)), if_neg e]
    rw [eraseIds_congr (rm' := Rn) (fun a ha => h1 a (by rw [ids_eq]; exact List.mem_cons_of_mem _ ha))]
    rfl

/-! ### the key lemma -/

/-- what one `_visit` frame over the forest `ks` (entered with stop flag `s`) contributes:
`D` the removals executed by deeper frames, `A` the `remove_nodes` of this frame, `K` `must_keep`,
`S` the stop flag afterwards. -/
structure VRes (v w : T → Verdict) (ks : List T) (s : Bool) (D A : List NodeId) (K S : Bool) : Prop where
  sub : ∀ a ∈ D ++ A, a ∈ idsL ks
  erase : eraseIdsL (D ++ A) ks = keepL w ks
  keep : K = !(keepL w ks).isEmpty
  stop : S = (s || stopIn v ks)

/-- no unrecognised answer and no escaping exception on the forest. -/
def Clean (v : T → Verdict) (ks : List T) : Prop := ∀ m ∈ flatL ks, v m ≠ .other ∧ v m ≠ .error

theorem Clean.head {v : T → Verdict} {n : T} {ns : List T} (h : Clean v (n :: ns)) :
    v n ≠ .other ∧ v n ≠ .error := h n (by rw [flatL_cons]; exact List.mem_append_left _ (self_mem_flat _))

theorem Clean.kids {v : T → Verdict} {n : T} {ns : List T} (h : Clean v (n :: ns)) : Clean v n.kids :=
  fun m hm => h m (by rw [flatL_cons]; exact List.mem_append_left _ (mem_flat_of_mem_flatL_kids hm))

theorem Clean.tail {v : T → Verdict} {n : T} {ns : List T} (h : Clean v (n :: ns)) : Clean v ns :=
  fun m hm => h m (by rw [flatL_cons]; exact List.mem_append_right _ hm)

/-- the statement of the key lemma for a forest. -/
def VisitOK (v w : T → Verdict) (ks : List T) : Prop :=
  ∀ s, IdsNodupL ks → Clean v ks → Agree v w ks s →
    ∃ D A K S, (∀ acc rm keep, visitL v ks s acc rm keep =
        { removed := rm ++ D ++ (acc ++ A), mustKeep := keep || K, stopped := S, failed := false }) ∧
      VRes v w ks s D A K S

/-- … and for the `_visit(n)` call of one node. -/
def VisitOKT (v w : T → Verdict) (n : T) : Prop :=
  IdsNodupL n.kids → Clean v n.kids → Agree v w n.kids false →
    ∃ D A K S, visitT v n = { removed := D ++ A, mustKeep := K, stopped := S, failed := false } ∧
      VRes v w n.kids false D A K S

theorem visitL_cons_stopped (v : T → Verdict) (n : T) (ns : List T) (acc rm : List NodeId) (keep : Bool) :
    visitL v (n :: ns) true acc rm keep = visitL v ns true (acc ++ [n.id]) rm keep := by
  rw [visitL]; simp

/-- one iteration of the loop: what it adds for the node `n`, and the call it continues with. -/
theorem visit_step {v w : T → Verdict} {n : T} {ns : List T} {s : Bool} (hn : VisitOKT v w n)
    (hN : IdsNodupL (n :: ns)) (hC : Clean v (n :: ns)) (hA : Agree v w (n :: ns) s) :
    ∃ Dn An Kn Sn, (∀ acc rm keep, visitL v (n :: ns) s acc rm keep =
          visitL v ns Sn (acc ++ An) (rm ++ Dn) (keep || Kn)) ∧
      (∀ a ∈ Dn ++ An, a ∈ (flat n).map T.id) ∧
      keepT w n = (if n.id ∈ Dn ++ An then none else some (eraseIds (Dn ++ An) n)) ∧
      Kn = (keepT w n).isSome ∧ Agree v w ns Sn ∧ (Sn || stopIn v ns) = (s || stopIn v (n :: ns)) := by
  have hNn : C10.IdsNodup n := ((idsNodupL_cons n ns).1 hN).1
  have hself : n.id ∈ (flat n).map T.id := by rw [ids_eq]; exact List.mem_cons_self
  have hnk : n.id ∉ idsL n.kids := id_not_mem_idsL_kids hNn
  have hkids : ∀ a ∈ idsL n.kids, a ∈ (flat n).map T.id := fun a ha => by
    rw [ids_eq]; exact List.mem_cons_of_mem _ ha
  cases s with
  | true =>
    obtain ⟨h1, h2, h3⟩ := hA.cons_stopped
    have hk : keepT w n = none := keepT_all_reject (by
      intro m hm; rw [flat_eq, List.mem_cons] at hm
      rcases hm with rfl | hm
      · exact h1
      · exact h2 m hm)
    refine ⟨[], [n.id], false, true, fun acc rm keep => ?_, ?_, ?_, ?_, h3, by simp⟩
    · rw [visitL_cons_stopped]; simp
    · intro a ha; simp at ha; subst ha; exact hself
    · rw [hk]; simp
    · rw [hk]; rfl
  | false =>
    cases hv : v n with
    | other => exact absurd hv hC.head.1
    | error => exact absurd hv hC.head.2
    | stop =>
      have hall := hA.stop hv
      have hk : keepT w n = none := keepT_all_reject (fun m hm =>
        hall m (by rw [flatL_cons]; exact List.mem_append_left _ hm))
      refine ⟨[], [n.id], false, true, fun acc rm keep => ?_, ?_, ?_, ?_, ?_, ?_⟩
      · rw [visitL]; simp [hv]
      · intro a ha; simp at ha; subst ha; exact hself
      · rw [hk]; simp
      · rw [hk]; rfl
      · exact agree_of_all_reject fun m hm => hall m (by rw [flatL_cons]; exact List.mem_append_right _ hm)
      · rw [stopIn_cons_stop hv]; simp
    | skip =>
      obtain ⟨h1, _, h3⟩ := hA.leafy hN (by rw [hv]; rfl) (by rw [hv]; simp)
      have hk : keepT w n = none := keepT_skip (h1.trans hv)
      refine ⟨[], [n.id], false, false, fun acc rm keep => ?_, ?_, ?_, ?_, h3, ?_⟩
      · rw [visitL]; simp [hv]
      · intro a ha; simp at ha; subst ha; exact hself
      · rw [hk]; simp
      · rw [hk]; rfl
      · rw [stopIn_cons_leafy (by rw [hv]; rfl) (by rw [hv]; simp)]
    | select =>
      obtain ⟨h1, _, h3⟩ := hA.leafy hN (by rw [hv]; rfl) (by rw [hv]; simp)
      have hk : keepT w n = some n := keepT_select (h1.trans hv)
      refine ⟨[], [], true, false, fun acc rm keep => ?_, ?_, ?_, ?_, h3, ?_⟩
      · rw [visitL]; simp [hv]
      · intro a ha; simp at ha
      · rw [hk, if_neg (by simp), eraseIds_of_disjoint (by simp)]
      · rw [hk]; rfl
      · rw [stopIn_cons_leafy (by rw [hv]; rfl) (by rw [hv]; simp)]
    | skipKeepSelf =>
      obtain ⟨h1, _, h3⟩ := hA.leafy hN (by rw [hv]; rfl) (by rw [hv]; simp)
      have hk : keepT w n = some (.node n.info []) := keepT_skipKeepSelf (h1.trans hv)
      refine ⟨[], n.kids.map T.id, true, false, fun acc rm keep => ?_, ?_, ?_, ?_, h3, ?_⟩
      · rw [visitL]; simp [hv]
      · intro a ha; rw [List.nil_append] at ha
        exact hkids a (kids_ids_subset_idsL ha)
      · rw [hk, List.nil_append, if_neg (fun h => hnk (kids_ids_subset_idsL h)), eraseIds_eq,
          eraseIdsL_of_all_mem (fun k hk => List.mem_map_of_mem hk)]
      · rw [hk]; rfl
      · rw [stopIn_cons_leafy (by rw [hv]; rfl) (by rw [hv]; simp)]
    | accept =>
      obtain ⟨h1, h2, h3⟩ := hA.descend hN (by rw [hv]; rfl)
      obtain ⟨D, A, K, S, hr, hres⟩ := hn (idsNodupL_kids hNn) hC.kids h2
      have hk : keepT w n = some (.node n.info (keepL w n.kids)) := keepT_accept (h1.trans hv)
      have hnot : n.id ∉ (D ++ A) ++ [] := by
        rw [List.append_nil]; exact fun h => hnk (hres.sub _ h)
      refine ⟨D ++ A, [], true, S, fun acc rm keep => ?_, ?_, ?_, ?_, ?_, ?_⟩
      · rw [visitL]; simp [hv, hr]
      · intro a ha; rw [List.append_nil] at ha; exact hkids a (hres.sub a ha)
      · rw [hk, if_neg hnot, List.append_nil, eraseIds_eq, hres.erase]
      · rw [hk]; rfl
      · rw [hres.stop]; simpa using h3
      · rw [hres.stop, stopIn_cons_descend (by rw [hv]; rfl)]; simp
    | reject =>
      obtain ⟨h1, h2, h3⟩ := hA.descend hN (by rw [hv]; rfl)
      obtain ⟨D, A, K, S, hr, hres⟩ := hn (idsNodupL_kids hNn) hC.kids h2
      have hw : (w n).passes = true := by rw [h1, hv]; rfl
      cases hK : K with
      | true =>
        have hne : keepL w n.kids ≠ [] := by
          have := hres.keep; rw [hK] at this
          intro e; rw [e] at this; simp at this
        have hk := keepT_pass_cons hw hne
        have hnot : n.id ∉ (D ++ A) ++ [] := by
          rw [List.append_nil]; exact fun h => hnk (hres.sub _ h)
        refine ⟨D ++ A, [], true, S, fun acc rm keep => ?_, ?_, ?_, ?_, ?_, ?_⟩
        · rw [visitL]; simp [hv, hr, hK]
        · intro a ha; rw [List.append_nil] at ha; exact hkids a (hres.sub a ha)
        · rw [hk, if_neg hnot, List.append_nil, eraseIds_eq, hres.erase]
        · rw [hk]; rfl
        · rw [hres.stop]; simpa using h3
        · rw [hres.stop, stopIn_cons_descend (by rw [hv]; rfl)]; simp
      | false =>
        have he : keepL w n.kids = [] := by
          have := hres.keep; rw [hK] at this
          cases hl : keepL w n.kids with
          | nil => rfl
          | cons a l => rw [hl] at this; simp at this
        have hk := keepT_pass_nil hw he
        refine ⟨D ++ A, [n.id], false, S, fun acc rm keep => ?_, ?_, ?_, ?_, ?_, ?_⟩
        · rw [visitL]; simp [hv, hr, hK]
        · intro a ha
          rcases List.mem_append.1 ha with h | h
          · exact hkids a (hres.sub a h)
          · simp at h; subst h; exact hself
        · rw [hk, if_pos (by simp)]
        · rw [hk]; rfl
        · rw [hres.stop]; simpa using h3
        · rw [hres.stop, stopIn_cons_descend (by rw [hv]; rfl)]; simp

theorem mem_four {a : NodeId} {Dn D An A : List NodeId} :
    a ∈ (Dn ++ D) ++ (An ++ A) ↔ a ∈ Dn ++ An ∨ a ∈ D ++ A := by
  simp only [List.mem_append]
  constructor <;> rintro ((h | h) | (h | h)) <;> simp [h]

theorem visitOK_nil (v w : T → Verdict) : VisitOK v w [] := by
  intro s _ _ _
  refine ⟨[], [], false, s, fun acc rm keep => ?_, ⟨by simp, by simp, by simp, by simp⟩⟩
  rw [visitL]; simp

theorem visitOK_cons {v w : T → Verdict} {n : T} {ns : List T} (hn : VisitOKT v w n) (hns : VisitOK v w ns) :
    VisitOK v w (n :: ns) := by
  intro s hN hC hA
  obtain ⟨Dn, An, Kn, Sn, hstep, hsub, hkeep, hKn, hAns, hS⟩ := visit_step hn hN hC hA
  obtain ⟨D, A, K, S, hr, hres⟩ := hns Sn ((idsNodupL_cons n ns).1 hN).2.1 hC.tail hAns
  refine ⟨Dn ++ D, An ++ A, Kn || K, S, fun acc rm keep => ?_, ⟨?_, ?_, ?_, ?_⟩⟩
  · rw [hstep, hr]; simp [List.append_assoc, Bool.or_assoc]
  · intro a ha
    rw [idsL_cons]
    rcases mem_four.1 ha with h | h
    · exact List.mem_append_left _ (hsub a h)
    · exact List.mem_append_right _ (hres.sub a h)
  · rw [erase_cons_split hN (R := (Dn ++ D) ++ (An ++ A)) (Rn := Dn ++ An) (Rns := D ++ A) hsub hres.sub
      (fun a => mem_four), hres.erase, keepL_cons, hkeep]
    split <;> rfl
  · rw [keepL_cons, hKn, hres.keep]
    cases keepT w n <;> simp
  · rw [hres.stop, hS]

theorem visitOKT_node {v w : T → Verdict} {i : Info} {ks : List T} (h : VisitOK v w ks) :
    VisitOKT v w (.node i ks) := by
  intro hN hC hA
  obtain ⟨D, A, K, S, hr, hres⟩ := h false hN hC hA
  refine ⟨D, A, K, S, ?_, hres⟩
  rw [visitT, hr]; simp

/-- **key lemma** (forest form). -/
theorem visitL_spec (v w : T → Verdict) (ks : List T) : VisitOK v w ks :=
  T.bothL (P := VisitOKT v w) (Q := VisitOK v w) (fun _ _ => visitOKT_node) (visitOK_nil v w)
    (fun _ _ => visitOK_cons) ks

/-- **key lemma** (one `_visit(n)`). -/
theorem visitT_spec (v w : T → Verdict) (n : T) : VisitOKT v w n :=
  T.bothT (P := VisitOKT v w) (Q := VisitOK v w) (fun _ _ => visitOKT_node) (visitOK_nil v w)
    (fun _ _ => visitOK_cons) n

end Flt
end Nutree
