/-
  Nutree.Lemmas.FilterStrip — removing the known duplicate from the copy's result:
  if a forest `cs` has the shape `dupL w ss` then `stripDupL w ss cs` has the shape of `keepL w ss`
  (`strip_ok`); a decidable equality on shapes (for the negation witness).
-/
import Nutree.Lemmas.FilterCopyMain
namespace Nutree
open T C10
namespace Flt
open Spec

/-! ### `stripDupT` / `stripDupL` unfolded -/

theorem stripDupL_nil_left (w : T → Verdict) (cs : List T) : stripDupL w [] cs = cs := by
  rw [stripDupL]

theorem stripDupL_nil_right (w : T → Verdict) (ss : List T) : stripDupL w ss [] = [] := by
  cases ss with
  | nil => rw [stripDupL]
  | cons s ss => rw [stripDupL]; simp

theorem stripDupL_cons_some {w : T → Verdict} {s k : T} (ss : List T) (c : T) (cs : List T)
    (h : keepT w s = some k) :
    stripDupL w (s :: ss) (c :: cs) = stripDupT w s c :: stripDupL w ss cs := by
  rw [stripDupL, h]

theorem stripDupL_cons_none {w : T → Verdict} {s : T} (ss : List T) (c : T) (cs : List T)
    (h : keepT w s = none) :
    stripDupL w (s :: ss) (c :: cs) = stripDupL w ss (c :: cs) := by
  rw [stripDupL, h]

theorem stripDupT_accept {w : T → Verdict} {s : T} (c : T) (h : w s = .accept) :
    stripDupT w s c = .node c.info (stripDupL w s.kids (c.kids.drop 1)) := by
  cases s; cases c; simp only [stripDupT, h]; rfl

theorem stripDupT_skipKeepSelf {w : T → Verdict} {s : T} (c : T) (h : w s = .skipKeepSelf) :
    stripDupT w s c = .node c.info (c.kids.drop 1) := by
  cases s; cases c; simp only [stripDupT, h]; rfl

theorem stripDupT_select {w : T → Verdict} {s : T} (c : T) (h : w s = .select) : stripDupT w s c = c := by
  cases s; cases c; simp only [stripDupT, h]

theorem stripDupT_pass {w : T → Verdict} {s : T} (c : T) (h : (w s).passes = true) :
    stripDupT w s c = .node c.info (stripDupL w s.kids c.kids) := by
  cases s with
  | node si sks =>
    cases c with
    | node ci cks =>
      cases hw : w (.node si sks) <;> simp_all [stripDupT, Verdict.passes]

theorem shL_eq_cons {ks : List T} {x : Sh} {Y : List Sh} (h : shL ks = x :: Y) :
    ∃ d rest, ks = d :: rest ∧ shT d = x ∧ shL rest = Y := by
  cases ks with
  | nil => simp at h
  | cons d rest =>
    rw [shL_cons] at h
    injection h with h1 h2
    exact ⟨d, rest, rfl, h1, h2⟩

/-! ### stripping the duplicate -/

def StripOKL (w : T → Verdict) (ss : List T) : Prop :=
  KindNone ss → ∀ cs, shL cs = dupL w ss → shL (stripDupL w ss cs) = shL (keepL w ss)

def StripOKT (w : T → Verdict) (s : T) : Prop :=
  s.kind = none → KindNone s.kids → ∀ c, dupT w s = some (shT c) →
    ∃ k, keepT w s = some k ∧ shT (stripDupT w s c) = shT k

theorem stripOKT_node {w : T → Verdict} {i : Info} {sks : List T} (ih : StripOKL w sks) :
    StripOKT w (.node i sks) := by
  intro hkind hkk c hd
  have hkind' : i.kind = none := hkind
  cases hw : w (.node i sks) with
  | accept =>
    rw [dupT_accept hw, shT_eq c] at hd
    injection hd with hd
    injection hd with h1 h2 h3 h4
    obtain ⟨d, rest, hc, _, hrest⟩ := shL_eq_cons h4.symm
    refine ⟨_, keepT_accept hw, ?_⟩
    have e := ih hkk rest hrest
    have h1' : c.info.data.obj = i.data.obj := h1.symm
    have h2' : c.info.did = i.did := h2.symm
    have h3' : c.info.kind = none := h3.symm
    rw [stripDupT_accept c hw, hc, List.drop_one, List.tail_cons, shT_node, shT_node]
    simp only [kids_node, info_node, e, hkind', h1', h2', h3']
  | skipKeepSelf =>
    rw [dupT_skipKeepSelf hw, shT_eq c] at hd
    injection hd with hd
    injection hd with h1 h2 h3 h4
    obtain ⟨d, rest, hc, _, hrest⟩ := shL_eq_cons h4.symm
    refine ⟨_, keepT_skipKeepSelf hw, ?_⟩
    have h1' : c.info.data.obj = i.data.obj := h1.symm
    have h2' : c.info.did = i.did := h2.symm
    have h3' : c.info.kind = none := h3.symm
    rw [stripDupT_skipKeepSelf c hw, hc, List.drop_one, List.tail_cons, shT_node, shT_node, hrest]
    simp only [info_node, hkind', h1', h2', h3', shL_nil]
  | select =>
    rw [dupT_select hw] at hd
    refine ⟨_, keepT_select hw, ?_⟩
    rw [stripDupT_select c hw, ← Option.some.inj hd, shT_node]
    simp only [kids_node, hkind']; rfl
  | skip => rw [dupT_skip hw] at hd; cases hd
  | reject | stop | other | error =>
    have hp : (w (.node i sks)).passes = true := by rw [hw]; rfl
    by_cases hk : dupL w sks = []
    · rw [dupT_pass_nil hp hk] at hd; cases hd
    · have hk' : keepL w sks ≠ [] := fun h => hk ((dup_none_iff w).2 sks |>.2 h)
      rw [dupT_pass_cons hp hk, shT_eq c] at hd
      injection hd with hd
      injection hd with h1 h2 h3 h4
      refine ⟨_, keepT_pass_cons hp hk', ?_⟩
      have e := ih hkk c.kids h4.symm
      have h1' : c.info.data.obj = i.data.obj := h1.symm
      have h2' : c.info.did = i.did := h2.symm
      have h3' : c.info.kind = none := h3.symm
      rw [stripDupT_pass c hp, shT_node, shT_node]
      simp only [kids_node, info_node, e, hkind', h1', h2', h3']

theorem stripOKL_cons {w : T → Verdict} {s : T} {ss : List T} (hs : StripOKT w s) (hss : StripOKL w ss) :
    StripOKL w (s :: ss) := by
  intro hk cs hcs
  rw [dupL_cons] at hcs
  rw [keepL_cons]
  cases hd : dupT w s with
  | none =>
    have hkn : keepT w s = none := (dup_none_iff w).1 s |>.1 hd
    rw [hd] at hcs
    rw [hkn]
    cases cs with
    | nil =>
      rw [stripDupL_nil_right]
      have := hss hk.tail [] hcs
      rwa [stripDupL_nil_right] at this
    | cons c cs' =>
      rw [stripDupL_cons_none _ _ _ hkn]
      exact hss hk.tail _ hcs
  | some d =>
    rw [hd, Option.toList_some, List.singleton_append] at hcs
    obtain ⟨c, cs', rfl, hc, hcs'⟩ := shL_eq_cons hcs
    obtain ⟨k, hkeep, hsh⟩ := hs hk.head hk.kids c (by rw [hd, hc])
    rw [stripDupL_cons_some _ _ _ hkeep, hkeep, Option.toList_some, List.singleton_append, shL_cons, shL_cons, hsh,
      hss hk.tail cs' hcs']

/-- **removing the duplicates from a forest of shape `dupL w ss` gives the shape of `keepL w ss`.** -/
theorem strip_ok (w : T → Verdict) (ss : List T) : StripOKL w ss :=
  T.bothL (P := StripOKT w) (Q := StripOKL w) (fun _ _ => stripOKT_node)
    (by intro _ cs hcs; rw [stripDupL_nil_left]; simpa using hcs) (fun _ _ => stripOKL_cons) ss

/-! ### decidable equality of shapes -/

mutual
def Sh.decEq : (a b : Sh) → Decidable (a = b)
  | .node d1 i1 k1 ks1, .node d2 i2 k2 ks2 =>
    if h1 : d1 = d2 then
      if h2 : i1 = i2 then
        if h3 : k1 = k2 then
          match Sh.decEqL ks1 ks2 with
          | isTrue h4 => isTrue (by rw [h1, h2, h3, h4])
          | isFalse h4 => isFalse (by intro e; injection e with _ _ _ e4; exact h4 e4)
        else isFalse (by intro e; injection e with _ _ e3 _; exact h3 e3)
      else isFalse (by intro e; injection e with _ e2 _ _; exact h2 e2)
    else isFalse (by intro e; injection e with e1 _ _ _; exact h1 e1)
def Sh.decEqL : (a b : List Sh) → Decidable (a = b)
  | [], [] => isTrue rfl
  | [], _ :: _ => isFalse (by intro e; cases e)
  | _ :: _, [] => isFalse (by intro e; cases e)
  | a :: as, b :: bs =>
    match Sh.decEq a b, Sh.decEqL as bs with
    | isTrue h1, isTrue h2 => isTrue (by rw [h1, h2])
    | isFalse h1, _ => isFalse (by intro e; injection e with e1 _; exact h1 e1)
    | _, isFalse h2 => isFalse (by intro e; injection e with _ e2; exact h2 e2)
end

instance : DecidableEq Sh := Sh.decEq

end Flt
end Nutree
