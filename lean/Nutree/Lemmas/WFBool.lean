/-
  Nutree.Lemmas.WFBool — the Bool twins of `Spec/WF.lean` decide the propositions:
  `nodupB_iff`, `permB_iff`, `idsNodupB_iff`, `registryExactB_iff`, `indexExactB_iff`,
  `sibUniqueB_iff`.  (`wfB_iff` itself is in `Properties/C01.lean`.)
-/
import Nutree.Spec.WF
namespace Nutree
open T

theorem nodupB_iff {α} [BEq α] [LawfulBEq α] : ∀ {l : List α}, nodupB l = true ↔ l.Nodup
  | [] => by simp [nodupB]
  | x :: xs => by
    rw [nodupB, Bool.and_eq_true, nodupB_iff (l := xs), List.nodup_cons]
    simp

theorem perm_of_length_count {α} [BEq α] [LawfulBEq α] : ∀ (a b : List α), a.length = b.length →
    (∀ x ∈ a, a.count x = b.count x) → a.Perm b
  | [], b, hl, _ => by
    have : b = [] := List.length_eq_zero_iff.1 hl.symm
    subst this; exact List.Perm.refl _
  | x :: a, b, hl, hc => by
    have hxb : x ∈ b := by
      have := hc x (by simp)
      rw [List.count_cons_self] at this
      exact List.count_pos_iff.1 (by omega)
    have hperm := List.perm_cons_erase hxb
    refine List.Perm.trans (List.Perm.cons x (perm_of_length_count a (b.erase x) ?_ ?_)) hperm.symm
    · rw [List.length_erase_of_mem hxb]; simp at hl; omega
    · intro y hy
      have := hc y (List.mem_cons_of_mem _ hy)
      by_cases hyx : y = x
      · subst hyx
        rw [List.count_cons_self] at this
        rw [List.count_erase_self]; omega
      · rw [List.count_cons_of_ne (fun e => hyx e.symm)] at this
        rw [List.count_erase_of_ne hyx]; exact this

/-- `permB` decides `List.Perm`: equal lengths and equal counts *for the members of the first list*
suffice. -/
theorem permB_iff {α} [BEq α] [LawfulBEq α] {a b : List α} : permB a b = true ↔ a.Perm b := by
  unfold permB
  rw [Bool.and_eq_true, List.all_eq_true]
  constructor
  · rintro ⟨hl, hc⟩
    exact perm_of_length_count a b (by simpa using hl) (fun x hx => by simpa using hc x hx)
  · intro h
    exact ⟨by simpa using h.length_eq, fun x _ => by simpa using h.count_eq x⟩

theorem idsNodupB_iff (t : Tree) : idsNodupB t = true ↔ IdsNodup t := nodupB_iff

theorem registryExactB_iff (t : Tree) : registryExactB t = true ↔ RegistryExact t := permB_iff

theorem sibUniqueB_iff (t : Tree) : sibUniqueB t = true ↔ SibUnique t := by
  unfold sibUniqueB SibUnique
  rw [List.all_eq_true]
  exact forall_congr' fun x => forall_congr' fun _ => nodupB_iff

theorem indexExactB_iff (t : Tree) : indexExactB t = true ↔ IndexExact t := by
  unfold indexExactB
  simp only [Bool.and_eq_true, List.all_eq_true, List.any_eq_true, nodupB_iff, Bool.not_eq_true',
    beq_iff_eq, List.contains_iff_mem]
  constructor
  · rintro ⟨⟨⟨hk, h2⟩, h3⟩, h4⟩
    refine ⟨hk, ?_, fun e he => (h2 e he).2, ?_⟩
    · intro e he h0
      have := (h2 e he).1
      simp [h0] at this
    · intro d n
      constructor
      · rintro ⟨l, hl, hn⟩
        obtain ⟨x, hx, h1, h2⟩ := h3 (d, l) hl n hn
        exact ⟨x, hx, h1, h2⟩
      · rintro ⟨x, hx, rfl, rfl⟩
        obtain ⟨e, he, h1, h2⟩ := h4 x hx
        exact ⟨e.2, by rw [← h1]; exact he, h2⟩
  · intro h
    refine ⟨⟨⟨h.keys, fun e he => ⟨?_, h.nodup e he⟩⟩, ?_⟩, ?_⟩
    · have := h.noEmpty e he
      cases he2 : e.2 with
      | nil => exact absurd he2 this
      | cons => rfl
    · intro e he n hn
      obtain ⟨x, hx, h1, h2⟩ := (h.exact e.1 n).1 ⟨e.2, he, hn⟩
      exact ⟨x, hx, h1, h2⟩
    · intro x hx
      obtain ⟨l, hl, hn⟩ := (h.exact x.did x.id).2 ⟨x, hx, rfl, rfl⟩
      exact ⟨(x.did, l), hl, rfl, hn⟩

end Nutree
