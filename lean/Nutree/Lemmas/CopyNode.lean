/-
  Nutree.Lemmas.CopyNode — `add_child(node, deep=±)` (`Tree.addNode`) on top of the `_add_from`
  characterisation of `Nutree.Lemmas.Copy`.

  * `InsLike ins` — `ins l x` puts `x` at a position that depends on `l` only; every insert function
    returned by `insertPosition` is of this kind (`insertPosition_insLike`).
  * `modT_ins_leaf_fill` — inserting a new leaf and then filling it is inserting the filled node.
  * `copyNode` — the node created by `addNode`; `AddNodeRes` — what a successful `addNode` achieves.
  * `addNode_cases` — `addNode` either refuses without touching anything or runs `addData` and then
    (if deep) `_add_from`; `addNode_res_of_addData` — the second case always completes.
-/
import Nutree.Lemmas.Copy
namespace Nutree
open T C10 Nutree.C01

/-! ## 1. insert functions -/

/-- `ins l x` inserts `x` into `l` at a position that depends on `l` only. -/
def InsLike (ins : List T → T → List T) : Prop :=
  ∃ pos : List T → Nat, ∀ l x, ins l x = l.take (pos l) ++ x :: l.drop (pos l)

theorem insLike_append : InsLike (fun l x => l ++ [x]) :=
  ⟨fun l => l.length, fun l x => by simp⟩

theorem insertPosition_insLike {ks : List T} {isNone : Bool} {before : Before} {ins : List T → T → List T}
    (h : insertPosition ks isNone before = .ok ins) : InsLike ins := by
  unfold insertPosition at h
  split at h
  · split at h
    · cases h; exact ⟨fun l => idxOf _ l, fun _ _ => rfl⟩
    · cases h
  · cases h; exact insLike_append
  · cases h; exact insLike_append
  · cases h; exact ⟨fun _ => 0, fun l x => by simp⟩
  · split at h
    · split at h
      · cases h; exact insLike_append
      · cases h
    · cases h; exact ⟨_, fun l x => rfl⟩

theorem InsLike.perm {ins : List T → T → List T} (h : InsLike ins) (l : List T) (x : T) :
    (ins l x).Perm (x :: l) := by
  obtain ⟨pos, hpos⟩ := h
  rw [hpos]; exact take_cons_drop_perm _ x l

/-- a map that fixes the members of `l` commutes with an insert. -/
theorem InsLike.map {ins : List T → T → List T} (h : InsLike ins) {f : T → T} {l : List T} (x : T)
    (hf : ∀ c ∈ l, f c = c) : (ins l x).map f = ins l (f x) := by
  obtain ⟨pos, hpos⟩ := h
  rw [hpos, hpos, List.map_append, List.map_cons]
  have h1 : (l.take (pos l)).map f = l.take (pos l) :=
    (List.map_congr_left (fun c hc => hf c (List.mem_of_mem_take hc))).trans (List.map_id' _)
  have h2 : (l.drop (pos l)).map f = l.drop (pos l) :=
    (List.map_congr_left (fun c hc => hf c (List.mem_of_mem_drop hc))).trans (List.map_id' _)
  rw [h1, h2]

/-- inserting a leaf with a new identity below `p` and then editing the children of the leaf is
inserting the filled node. -/
theorem modT_ins_leaf_fill {p : NodeId} {i : Info} {g : List T → List T} {ins : List T → T → List T}
    (hi : InsLike ins) :
    ∀ {root : T}, i.id ∉ (flat root).map T.id →
      modT i.id g (modT p (fun l => ins l (T.node i [])) root) = modT p (fun l => ins l (T.node i (g []))) root := by
  intro root
  induction root using T.ind with
  | node j ks ih =>
    intro h
    rw [ids_eq, List.mem_cons, not_or] at h
    have hj : j.id ≠ i.id := fun e => h.1 e.symm
    have hks : i.id ∉ idsL ks := h.2
    by_cases hid : j.id = p
    · rw [modT_node, if_pos hid, modT_node, if_neg hj, modT_node, if_pos hid]
      congr 1
      rw [hi.map]
      · rw [modT_node, if_pos rfl]
      · intro c hc
        refine modT_of_not_mem ?_
        intro hm
        obtain ⟨x, hx, hxn⟩ := mem_ids.1 hm
        exact hks (mem_idsL.2 ⟨x, mem_flatL.2 ⟨c, hc, hx⟩, hxn⟩)
    · rw [modT_node, if_neg hid, modT_node, if_neg hj, modT_node, if_neg hid, List.map_map]
      congr 1
      refine List.map_congr_left (fun c hc => ih c hc ?_)
      intro hm
      obtain ⟨x, hx, hxn⟩ := mem_ids.1 hm
      exact hks (mem_idsL.2 ⟨x, mem_flatL.2 ⟨c, hc, hx⟩, hxn⟩)

/-! ## 2. `addNode` -/

/-- the node created by `add_child(source_node)` in a tree of class `typed`: identity `next`, the
source's data object, data id `did`, kind `normKind typed kind`, and (deep) the relabelled copies of
the source's children. -/
def copyNode (typed : Bool) (next : NodeId) (src : T) (did : DataId) (kind : Option String) (deep : Bool) : T :=
  .node { id := next, data := src.data, did := did, kind := normKind typed kind }
    (if deep then relabelL typed (next + 1) src.kids else [])

@[simp] theorem copyNode_id (typed : Bool) (next : NodeId) (src : T) (did : DataId) (kind : Option String)
    (deep : Bool) : (copyNode typed next src did kind deep).id = next := rfl
@[simp] theorem copyNode_did (typed : Bool) (next : NodeId) (src : T) (did : DataId) (kind : Option String)
    (deep : Bool) : (copyNode typed next src did kind deep).did = did := rfl
@[simp] theorem copyNode_data (typed : Bool) (next : NodeId) (src : T) (did : DataId) (kind : Option String)
    (deep : Bool) : (copyNode typed next src did kind deep).data = src.data := rfl

theorem copyNode_size (typed : Bool) (next : NodeId) (src : T) (did : DataId) (kind : Option String) (deep : Bool) :
    size (copyNode typed next src did kind deep) = if deep then size src else 1 := by
  unfold copyNode
  rw [size_node]
  cases deep
  · simp
  · simp only [if_true]
    rw [size_eq src, sizeL_relabelL]

/-- a deep copy with the source's own data id and kind is `relabelT`. -/
theorem copyNode_deep_eq (typed : Bool) (next : NodeId) (src : T) :
    copyNode typed next src src.did src.kind true = relabelT typed next src := by
  cases src; rw [relabelT_node]; rfl

/-- what a successful `addNode` achieves: the node `C` has been inserted among the children of
`parent` at the position `before` designates; everything else is untouched. -/
structure AddNodeRes (t : Tree) (next parent : NodeId) (p : T) (before : Before) (C : T)
    (r : Tree × NodeId × Option Err) : Prop where
  err : r.2.2 = none
  nextEq : r.2.1 = next + size C
  wf : WF r.1
  fresh : Fresh r.1 (next + size C)
  root : ∃ ins, insertPosition p.kids (t.childrenNone parent p) before = .ok ins ∧
    r.1.root = modT parent (fun l => ins l C) t.root
  typed : r.1.typed = t.typed
  hook : r.1.hook = t.hook
  rootNone : r.1.rootNone = t.rootNone

/-- `addNode` either refuses up front (nothing touched) or runs `addData` and, if deep, `_add_from`
below the new node. -/
theorem addNode_cases (t : Tree) (next parent : NodeId) (src : T) (inThis : Bool) (srcParent : Option NodeId)
    (before : Before) (deep : Option Bool) (did? : Option DataId) (kind : Option String) :
    (∃ e, t.addNode next parent src inThis srcParent before deep did? kind = (t, next, some e)) ∨
    (∃ t1, t.addData next parent src.data before (some (did?.getD src.did)) (normKind t.typed kind) = .ok t1 ∧
      (deep.getD false = true → did? = none) ∧
      t.addNode next parent src inThis srcParent before deep did? kind =
        if deep.getD false then t1.addFromL (next + 1) next src.kids else (t1, next + 1, none)) := by
  unfold Tree.addNode
  simp only
  by_cases hc1 : (deep.getD false && did?.isSome) = true
  · rw [if_pos hc1]; exact Or.inl ⟨_, rfl⟩
  · rw [if_neg hc1]
    by_cases hc2 : (inThis && srcParent == some parent) = true
    · rw [if_pos hc2]; exact Or.inl ⟨_, rfl⟩
    · rw [if_neg hc2]
      cases did? with
      | none =>
        simp only [Bool.false_eq_true, if_false]
        cases hadd : t.addData next parent src.data before (some ((none : Option DataId).getD src.did))
            (if t.typed then some (kind.getD "child") else none) with
        | error e => exact Or.inl ⟨e, rfl⟩
        | ok t1 => exact Or.inr ⟨t1, hadd, by simp, rfl⟩
      | some d =>
        simp only
        by_cases hc3 : (d != src.did) = true
        · rw [if_pos hc3]; exact Or.inl ⟨_, rfl⟩
        · rw [if_neg hc3]
          cases hadd : t.addData next parent src.data before (some ((some d).getD src.did))
              (if t.typed then some (kind.getD "child") else none) with
          | error e => exact Or.inl ⟨e, rfl⟩
          | ok t1 =>
            refine Or.inr ⟨t1, hadd, ?_, rfl⟩
            intro hd
            simp [hd] at hc1

/-- the plain form used by `add_child(tree)`: no explicit data id, source in another tree. -/
theorem addNode_plain (t : Tree) (next parent : NodeId) (src : T) (before : Before) (deep : Bool)
    (kind : Option String) :
    t.addNode next parent src false none before (some deep) none kind =
      match t.addData next parent src.data before (some src.did) (normKind t.typed kind) with
      | .error e => (t, next, some e)
      | .ok t1 => if deep then t1.addFromL (next + 1) next src.kids else (t1, next + 1, none) := by
  unfold Tree.addNode
  simp
  rfl

/-- root of the state after `addData` with an explicit data id and an already normalised kind. -/
theorem addData_normKind_ok {t t1 : Tree} {next parent : NodeId} {a : Atom} {before : Before} {did : DataId}
    {kind : Option String}
    (hr : t.addData next parent a before (some did) (normKind t.typed kind) = .ok t1) :
    ∃ p ins, findT parent t.root = some p ∧
      insertPosition p.kids (t.childrenNone parent p) before = .ok ins ∧
      t1.root = modT parent (fun l => ins l (T.node { id := next, data := a, did := did, kind := normKind t.typed kind } [])) t.root := by
  obtain ⟨p, ins, did', hp, hins, hroot, hdid⟩ := addData_effect' t t1 next parent a before (some did) _ hr
  rcases hdid with hdid | ⟨hdid, _⟩
  · cases hdid
    refine ⟨p, ins, hp, hins, ?_⟩
    rw [hroot]
    have : (if t.typed then some ((normKind t.typed kind).getD "child") else none) = normKind t.typed kind :=
      normKind_idem t.typed kind
    rw [this]
  · cases hdid

/-- once `addData` has succeeded, `addNode` completes: the copy is inserted, the state is
well-formed. -/
theorem addNode_res_of_addData {t t1 : Tree} {next parent : NodeId} {src : T} {before : Before} {did : DataId}
    {kind : Option String} (deep : Bool) (h : WF t) (hf : Fresh t next) (hs : SrcT src)
    (hadd : t.addData next parent src.data before (some did) (normKind t.typed kind) = .ok t1) :
    ∃ p, findT parent t.root = some p ∧
      AddNodeRes t next parent p before (copyNode t.typed next src did kind deep)
        (if deep then t1.addFromL (next + 1) next src.kids else (t1, next + 1, none)) := by
  obtain ⟨p, ins, hp, hins, hroot1⟩ := addData_normKind_ok hadd
  obtain ⟨hwf1, hf1⟩ := addData_WF t t1 next parent src.data before (some did) _ h hf hadd
  obtain ⟨hty1, hhook1, hrn1⟩ := addData_fields hadd
  refine ⟨p, hp, ?_⟩
  cases deep with
  | false =>
    have hsz : size (copyNode t.typed next src did kind false) = 1 := by rw [copyNode_size]; rfl
    simp only [Bool.false_eq_true, if_false]
    refine ⟨rfl, by rw [hsz], hwf1, by rw [hsz]; exact hf1, ⟨ins, hins, hroot1⟩, hty1, hhook1, hrn1⟩
  | true =>
    have hsz : size (copyNode t.typed next src did kind true) = 1 + sizeL src.kids := by
      rw [copyNode_size, if_pos rfl, size_eq]
    simp only [if_true]
    have hleaf : findT next t1.root = some (T.node { id := next, data := src.data, did := did, kind := normKind t.typed kind } []) := by
      refine (findT_eq_some_iff hwf1.idsN).2 ⟨?_, rfl⟩
      rw [hroot1]
      refine mem_flat_modT_new hp (mem_flatL.2 ⟨_, ?_, self_mem_flat _⟩)
      exact ((insertPosition_perm hins _ _).mem_iff).2 (by simp)
    have h2 := addFromL_spec src.kids t1 (next + 1) next _ hwf1 hf1 hleaf (by intro k hk; simp at hk) hs.kids
    rw [hty1] at h2
    refine ⟨h2.err, by rw [h2.nextEq, hsz, Nat.add_assoc], h2.wf, by rw [hsz, ← Nat.add_assoc]; exact h2.fresh,
      ⟨ins, hins, ?_⟩, h2.typed.trans hty1, h2.hook.trans hhook1, h2.rootNone.trans hrn1⟩
    rw [h2.root, hroot1]
    have := modT_ins_leaf_fill (p := parent)
      (i := { id := next, data := src.data, did := did, kind := normKind t.typed kind })
      (g := fun l => l ++ relabelL t.typed (next + 1) src.kids) (insertPosition_insLike hins) (root := t.root) hf.not_mem
    rw [List.nil_append] at this
    exact this

end Nutree
