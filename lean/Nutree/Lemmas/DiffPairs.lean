/-
  Nutree.Lemmas.DiffPairs — `MOVED_HERE` and `MOVED_TO` marks come in pairs with the same data_id.
-/
import Nutree.Lemmas.DiffRecl
namespace Nutree
open T C10
namespace Diff

/-- every `MOVED_HERE` record has a `MOVED_TO` record with the same data_id and vice versa. -/
def Pairs (l : List Info) : Prop :=
  (∀ x ∈ l, dcI x = some "MOVED_HERE" → ∃ y ∈ l, dcI y = some "MOVED_TO" ∧ y.did = x.did) ∧
  (∀ x ∈ l, dcI x = some "MOVED_TO" → ∃ y ∈ l, dcI y = some "MOVED_HERE" ∧ y.did = x.did)

/-- the effect of the inner loop on one record. -/
def updAll (v : String) (cs : List T) (i : Info) : Info :=
  cs.foldl (fun i n => if i.id = n.id then setDc v i else i) i

theorem updAll_id (v : String) : ∀ (cs : List T) (i : Info), (updAll v cs i).id = i.id := by
  intro cs
  induction cs with
  | nil => intro i; rfl
  | cons c cs ih =>
    intro i
    unfold updAll at ih ⊢
    rw [List.foldl_cons, ih]
    split <;> simp

theorem updAll_did (v : String) : ∀ (cs : List T) (i : Info), (updAll v cs i).did = i.did := by
  intro cs
  induction cs with
  | nil => intro i; rfl
  | cons c cs ih =>
    intro i
    unfold updAll at ih ⊢
    rw [List.foldl_cons, ih]
    split <;> simp

theorem updAll_dcI (v : String) : ∀ (cs : List T) (i : Info),
    dcI (updAll v cs i) = if (∃ c ∈ cs, c.id = i.id) then some v else dcI i := by
  intro cs
  induction cs with
  | nil => intro i; simp [updAll]
  | cons c cs ih =>
    intro i
    have ih' := ih
    unfold updAll at ih ⊢
    rw [List.foldl_cons, ih]
    by_cases hc : i.id = c.id
    · rw [if_pos hc]
      simp only [setDc_id, dcI_setDc]
      have : ∃ c' ∈ c :: cs, c'.id = i.id := ⟨c, List.mem_cons_self .., hc.symm⟩
      rw [if_pos this]
      split <;> rfl
    · rw [if_neg hc]
      by_cases hex : ∃ c' ∈ cs, c'.id = i.id
      · rw [if_pos hex, if_pos]
        obtain ⟨c', h1, h2⟩ := hex
        exact ⟨c', List.mem_cons_of_mem _ h1, h2⟩
      · rw [if_neg hex, if_neg]
        rintro ⟨c', h1, h2⟩
        rw [List.mem_cons] at h1
        rcases h1 with rfl | h1
        · exact hc h2.symm
        · exact hex ⟨c', h1, h2⟩

theorem idsNodupL_setInfoL {n : NodeId} {g : Info → Info} (hg : ∀ i, (g i).id = i.id) {f : List T}
    (hN : IdsNodupL f) : IdsNodupL (setInfoL n g f) := by
  unfold IdsNodupL
  have : (flatL (setInfoL n g f)).map T.id = idsL (setInfoL n g f) := rfl
  rw [this, idsL_eq_infosL, infosL_setInfoL hN, List.map_map]
  have : (Info.id ∘ fun i => if i.id = n then g i else i) = Info.id := by
    funext i; simp only [Function.comp_apply]; split <;> simp [hg]
  rw [this, ← idsL_eq_infosL]; exact hN

theorem infosL_fold_setDc (v : String) : ∀ (cs : List T) {f : List T}, IdsNodupL f →
    infosL (cs.foldl (fun g n => setInfoL n.id (setDc v) g) f) = (infosL f).map (updAll v cs) := by
  intro cs
  induction cs with
  | nil =>
    intro f _
    have : updAll v [] = fun i => i := by funext i; rfl
    rw [this]; simp
  | cons c cs ih =>
    intro f hN
    rw [List.foldl_cons, ih (idsNodupL_setInfoL (fun i => setDc_id v i) hN), infosL_setInfoL hN,
      List.map_map]
    refine List.map_congr_left (fun i _ => ?_)
    simp only [Function.comp_apply, updAll, List.foldl_cons]

/-- one step of the loop keeps the pairing. -/
theorem pairs_reclStep {f : List T} (hN : IdsNodupL f) {nid : NodeId}
    (hA : ∀ y ∈ infosL f, y.id = nid → dcI y ≠ some "MOVED_TO") (hP : Pairs (infosL f)) :
    Pairs (infosL (reclStep f nid)) := by
  unfold reclStep
  split
  · exact hP
  · rename_i a ha
    simp only []
    split
    · exact hP
    · rename_i hne
      have ham : a ∈ flatL f := List.mem_of_find?_eq_some ha
      have haid : a.id = nid := by simpa using List.find?_some ha
      generalize hcs : (flatL f).filter (fun n => n.id != nid && n.did == a.did && dcOf n == some "REMOVED") = cs at hne
      have hcs_mem : ∀ c, c ∈ cs ↔ c ∈ flatL f ∧ c.id ≠ nid ∧ c.did = a.did ∧ dcOf c = some "REMOVED" := by
        intro c; rw [← hcs, List.mem_filter]; simp [and_assoc]
      rw [infosL_fold_setDc _ _ (idsNodupL_setInfoL (fun i => setDc_id _ i) hN), infosL_setInfoL hN,
        List.map_map]
      -- the composite update
      generalize hΦ : (updAll "MOVED_TO" cs ∘ fun i => if i.id = nid then setDc "MOVED_HERE" i else i) = Φ
      have hdid : ∀ i, (Φ i).did = i.did := by
        intro i; rw [← hΦ]; simp only [Function.comp_apply, updAll_did]; split <;> simp
      have hclone : ∀ i ∈ infosL f, (∃ c ∈ cs, c.id = i.id) ↔
          (i.id ≠ nid ∧ i.did = a.did ∧ dcI i = some "REMOVED") := by
        intro i hi
        constructor
        · rintro ⟨c, hc, hci⟩
          obtain ⟨h1, h2, h3, h4⟩ := (hcs_mem c).1 hc
          have : c.info = i := info_eq_of_id_eq hN (infosL_mem_of_mem_flatL h1) hi hci
          subst this
          exact ⟨h2, h3, h4⟩
        · rintro ⟨h1, h2, h3⟩
          obtain ⟨x, hx, rfl⟩ := mem_infosL.1 hi
          exact ⟨x, (hcs_mem x).2 ⟨hx, h1, h2, h3⟩, rfl⟩
      have hdc : ∀ i ∈ infosL f, dcI (Φ i) =
          if i.id = nid then some "MOVED_HERE"
          else if (i.did = a.did ∧ dcI i = some "REMOVED") then some "MOVED_TO" else dcI i := by
        intro i hi
        rw [← hΦ]
        simp only [Function.comp_apply, updAll_dcI]
        by_cases hid : i.id = nid
        · rw [if_pos hid, if_pos hid, setDc_id, if_neg, dcI_setDc]
          rintro ⟨c, hc, hci⟩
          exact ((hcs_mem c).1 hc).2.1 (hci.trans hid)
        · rw [if_neg hid, if_neg hid]
          by_cases hex : ∃ c ∈ cs, c.id = i.id
          · rw [if_pos hex, if_pos ((hclone i hi).1 hex).2]
          · rw [if_neg hex, if_neg]
            intro h; exact hex ((hclone i hi).2 ⟨hid, h⟩)
      have hainf : a.info ∈ infosL f := infosL_mem_of_mem_flatL ham
      obtain ⟨c0, hc0⟩ : ∃ c, c ∈ cs := by
        cases cs with
        | nil => simp at hne
        | cons c _ => exact ⟨c, List.mem_cons_self ..⟩
      obtain ⟨hc0f, hc0id, hc0did, hc0dc⟩ := (hcs_mem c0).1 hc0
      have hc0inf : c0.info ∈ infosL f := infosL_mem_of_mem_flatL hc0f
      have hΦa : dcI (Φ a.info) = some "MOVED_HERE" := by rw [hdc _ hainf, if_pos haid]
      have hΦc : dcI (Φ c0.info) = some "MOVED_TO" := by
        rw [hdc _ hc0inf, if_neg hc0id, if_pos ⟨hc0did, hc0dc⟩]
      constructor
      · intro x' hx' hx'dc
        obtain ⟨x, hx, rfl⟩ := List.mem_map.1 hx'
        rw [hdc x hx] at hx'dc
        by_cases hid : x.id = nid
        · have : x = a.info := info_eq_of_id_eq hN hx hainf (hid.trans haid.symm)
          subst this
          exact ⟨Φ c0.info, List.mem_map_of_mem hc0inf, hΦc, by rw [hdid, hdid]; exact hc0did⟩
        · rw [if_neg hid] at hx'dc
          split at hx'dc
          · exact absurd hx'dc (by decide)
          · obtain ⟨y, hy, hydc, hyd⟩ := hP.1 x hx hx'dc
            refine ⟨Φ y, List.mem_map_of_mem hy, ?_, by rw [hdid, hdid]; exact hyd⟩
            rw [hdc y hy, if_neg (fun h => hA y hy h hydc), if_neg, hydc]
            rintro ⟨_, h⟩; rw [hydc] at h; exact absurd h (by decide)
      · intro x' hx' hx'dc
        obtain ⟨x, hx, rfl⟩ := List.mem_map.1 hx'
        rw [hdc x hx] at hx'dc
        by_cases hid : x.id = nid
        · rw [if_pos hid] at hx'dc; exact absurd hx'dc (by decide)
        · rw [if_neg hid] at hx'dc
          split at hx'dc
          · rename_i hcl
            exact ⟨Φ a.info, List.mem_map_of_mem hainf, hΦa, by rw [hdid, hdid]; exact hcl.1.symm⟩
          · obtain ⟨y, hy, hydc, hyd⟩ := hP.2 x hx hx'dc
            refine ⟨Φ y, List.mem_map_of_mem hy, ?_, by rw [hdid, hdid]; exact hyd⟩
            rw [hdc y hy]
            by_cases hyid : y.id = nid
            · rw [if_pos hyid]
            · rw [if_neg hyid, if_neg, hydc]
              rintro ⟨_, h⟩; rw [hydc] at h; exact absurd h (by decide)

end Diff
end Nutree
