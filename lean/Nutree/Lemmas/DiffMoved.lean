/-
  Nutree.Lemmas.DiffMoved — `MOVED_HERE` / `MOVED_TO` pairs in the final result of `diffTree`.
-/
import Nutree.Lemmas.DiffZone
namespace Nutree
open T C10
namespace Diff

theorem pairs_reclassify {A : NodeId → Prop} {R0 : List T} (hN : IdsNodupL R0)
    (hAraw : ∀ i ∈ infosL R0, A i.id → dcI i = some "ADDED" ∨ dcI i = none) :
    ∀ (order : List NodeId), (∀ n ∈ order, A n) → ∀ f, SimL (ReclP A R0) R0 f →
      Pairs (infosL f) → Pairs (infosL (reclassify order f)) := by
  intro order
  induction order with
  | nil => intro _ f _ hp; exact hp
  | cons n order ih =>
    intro hA f h hp
    rw [reclassify_cons]
    have hAn := hA n (List.mem_cons_self ..)
    refine ih (fun m hm => hA m (List.mem_cons_of_mem _ hm)) _ (simL_reclStep hN hAn h) ?_
    have hNf : IdsNodupL f := by
      unfold IdsNodupL
      have : (flatL f).map T.id = idsL f := rfl
      rw [this, simL_ids reclP_id _ _ h]; exact hN
    refine pairs_reclStep hNf ?_ hp
    intro y hy hyid hydc
    obtain ⟨x, hx, _, hs, ht⟩ := simL_right _ _ h y hy
    have hAx : A x.id := by rw [← hs.1, hyid]; exact hAn
    rw [hydc] at ht
    rcases hAraw x hx hAx with hd | hd <;> rw [hd] at ht <;>
      rcases ht with ht | ⟨_, ht⟩ | ⟨ht, _⟩ <;> exact absurd ht (by decide)

/-- identities in `addedIds` belong to nodes marked ADDED or to unmarked copies below them. -/
theorem rawDiff_added_marks (ordered : Bool) (t0 t1 : List T) :
    ∀ i ∈ infosL (rawDiff ordered t0 t1), i.id ∈ addedIds (rawDiff ordered t0 t1) →
      dcI i = some "ADDED" ∨ dcI i = none := by
  intro i hi hA
  obtain ⟨a, ha, hd, y, hy, hyid⟩ := mem_addedIds.1 hA
  have hyf := mem_flatL_trans hy ha
  have : y.info = i := info_eq_of_id_eq (rawDiff_idsNodup _ _ _) (infosL_mem_of_mem_flatL hyf) hi hyid
  subst this
  cases a with
  | node ai aks =>
    rw [flat_node, List.mem_cons] at hy
    rcases hy with rfl | hy
    · exact Or.inl hd
    · have := ((rawDiff_raw ordered t0 t1 _ ha).added hd y hy).1
      rcases this with h | h
      · exact Or.inr h
      · exact Or.inl h

theorem rawDiff_no_moved (ordered : Bool) (t0 t1 : List T) :
    ∀ x ∈ flatL (rawDiff ordered t0 t1), dcOf x ≠ some "MOVED_HERE" ∧ dcOf x ≠ some "MOVED_TO" := by
  intro x hx
  rcases (rawDiff_raw ordered t0 t1 x hx).marks with h | h | h | ⟨_, i0, i1, h⟩ <;> rw [h]
  · exact ⟨by decide, by decide⟩
  · exact ⟨by decide, by decide⟩
  · exact ⟨by decide, by decide⟩
  · exact ⟨fun e => order_ne_movedHere i0 i1 (Option.some.inj e),
      fun e => order_ne_movedTo i0 i1 (Option.some.inj e)⟩

theorem diffTree_pairs {ordered : Bool} {t0 t1 : List T} {o : Option (List NodeId)}
    (hv : ValidOrder ordered t0 t1 o) : Pairs (infosL (diffTree ordered false t0 t1 o)) := by
  rw [diffTree_false]
  refine pairs_reclassify (rawDiff_idsNodup _ _ _) (rawDiff_added_marks _ _ _) _
    (order_mem_addedIds hv) _ (simL_reclP_refl _ _) ?_
  constructor
  · intro x hx hd
    obtain ⟨n, hn, rfl⟩ := mem_infosL.1 hx
    exact absurd hd (rawDiff_no_moved _ _ _ n hn).1
  · intro x hx hd
    obtain ⟨n, hn, rfl⟩ := mem_infosL.1 hx
    exact absurd hd (rawDiff_no_moved _ _ _ n hn).2

/-- with `ordered = false` the result contains neither order marks nor `dc_renumbered`. -/
theorem diffTree_unordered {t0 t1 : List T} {o : Option (List NodeId)} (hv : ValidOrder false t0 t1 o) :
    ∀ n ∈ flatL (diffTree false false t0 t1 o),
      hasRen n = false ∧ ∀ i0 i1, dcOf n ≠ some (DC.order i0 i1).str := by
  intro n hn
  obtain ⟨x, hx, _, hs, ht⟩ := simL_right _ _ (diffTree_simL hv) n.info (infosL_mem_of_mem_flatL hn)
  obtain ⟨m, hm, rfl⟩ := mem_infosL.1 hx
  have hraw := rawDiff_raw false t0 t1 m hm
  constructor
  · unfold hasRen
    rw [hs.2.2.2.2]
    cases hr : renI m.info with
    | false => rfl
    | true => have := (hraw.ren hr).1; cases this
  · intro i0 i1 e
    rw [dcOf_eq] at e
    have hm' : dcI m.info = none ∨ dcI m.info = some "ADDED" ∨ dcI m.info = some "REMOVED" := by
      rcases hraw.marks with h | h | h | ⟨h, _⟩
      · exact Or.inl h
      · exact Or.inr (Or.inl h)
      · exact Or.inr (Or.inr h)
      · cases h
    rw [e] at ht
    rcases ht with ht | ⟨_, ht⟩ | ⟨_, ht⟩
    · rcases hm' with h | h | h <;> rw [h] at ht
      · cases ht
      · exact order_ne_added i0 i1 (Option.some.inj ht)
      · exact order_ne_removed i0 i1 (Option.some.inj ht)
    · exact order_ne_movedHere i0 i1 (Option.some.inj ht)
    · exact order_ne_movedTo i0 i1 (Option.some.inj ht)

end Diff
end Nutree
