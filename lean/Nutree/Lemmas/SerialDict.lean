/-
  Nutree.Lemmas.SerialDict — the nested dict form (`to_dict_list` / `from_dict`).

  * `mirror` / `mirrorL`: the documented shape of `to_dict` without mapper, written out;
    `toDict_mirror`, `toDictL_mirror`, `toDictL_length`; the three lookups `from_dict` performs on
    such an object (`lookup_mirror_data`, `lookup_mirror_data_id`, `lookup_mirror_children`, and the derived
    `dataId_of_mirror`, `children_of_mirror`).
  * `fromDictL_step`: one round of `fromDictL` on an object.
  * `fromDictL_mirrorL`: the generalised round trip — reading `mirrorL ks` below an existing node `p`
    of a well-formed untyped tree appends a forest of the same shape and payload as `ks`.
-/
import Nutree.Model.Serial
import Nutree.Model.Filter
import Nutree.Lemmas.SerialAdd
namespace Nutree.Ser
open Nutree T Nutree.Flt.Spec

/-! ### the documented shape of `to_dict()` -/

mutual
/-- `Node.to_dict()` without mapper, as documented: `"data"` is `str(data)`, `"data_id"` is present
iff the id is not the default `hash(data)`, `"children"` is present iff there are children. -/
def mirror : T → JVal
  | .node i ks =>
    .obj ([("data", .str i.data.name)]
          ++ (if i.did ≠ i.data.hid then [("data_id", didJ i.did)] else [])
          ++ (if ks.isEmpty then [] else [("children", .arr (mirrorL ks))]))
/-- `to_dict_list()`: one object per node, in order. -/
def mirrorL : List T → List JVal
  | [] => []
  | t :: ts => mirror t :: mirrorL ts
end

/-- the fields of `mirror n`. -/
def mirrorFields (n : T) : Fields :=
  [("data", .str n.name)]
    ++ (if n.did ≠ n.data.hid then [("data_id", didJ n.did)] else [])
    ++ (if n.kids.isEmpty then [] else [("children", .arr (mirrorL n.kids))])

theorem mirror_eq (n : T) : mirror n = .obj (mirrorFields n) := by
  cases n; rw [mirror]; rfl

@[simp] theorem mirrorL_nil : mirrorL [] = [] := by rw [mirrorL]
@[simp] theorem mirrorL_cons (t : T) (ts : List T) : mirrorL (t :: ts) = mirror t :: mirrorL ts := by
  rw [mirrorL]

theorem mirrorL_length : ∀ ks : List T, (mirrorL ks).length = ks.length
  | [] => by simp
  | t :: ts => by simp [mirrorL_length ts]

/-- `d["children"] = v` on the base dict appends (the base dict has no such key). -/
theorem setField_children_base (name : String) (did hid : DataId) (v : JVal) :
    setField ([("data", JVal.str name)] ++ (if did != hid then [("data_id", didJ did)] else [])) "children" v
      = [("data", JVal.str name)] ++ (if did ≠ hid then [("data_id", didJ did)] else [])
          ++ [("children", v)] := by
  by_cases h : did = hid
  · simp [setField, h]
  · simp [setField, h]

mutual
theorem toDict_mirror : ∀ t : T, toDict (fun _ _ => none) t = mirror t
  | .node i ks => by
    rw [toDict, mirror]
    cases ks with
    | nil => simp
    | cons k ks' =>
      simp only [Option.getD_none, List.isEmpty_cons, Bool.false_eq_true, if_false]
      rw [setField_children_base, toDictL_mirror (k :: ks')]
theorem toDictL_mirror : ∀ ks : List T, toDictL (fun _ _ => none) ks = mirrorL ks
  | [] => by rw [toDictL, mirrorL]
  | t :: ts => by rw [toDictL, mirrorL, toDict_mirror t, toDictL_mirror ts]
end

/-- one object per node, whatever the mapper does. -/
theorem toDictL_length (ser : T → Fields → Option Fields) : ∀ ks : List T, (toDictL ser ks).length = ks.length
  | [] => by simp [toDictL]
  | t :: ts => by simp [toDictL, toDictL_length ser ts]

/-! ### the lookups of `from_dict` on a mirrored object -/

theorem lookup_mirror_data (n : T) : lookupF (mirrorFields n) "data" = some (.str n.name) := by
  simp [lookupF, mirrorFields]

theorem lookup_mirror_data_id (n : T) :
    lookupF (mirrorFields n) "data_id" = if n.did ≠ n.data.hid then some (didJ n.did) else none := by
  by_cases h : n.did = n.data.hid <;> by_cases hk : n.kids.isEmpty <;>
    simp [lookupF, mirrorFields, List.lookup, h, hk]

theorem lookup_mirror_children (n : T) :
    lookupF (mirrorFields n) "children" = if n.kids.isEmpty then none else some (.arr (mirrorL n.kids)) := by
  by_cases h : n.did = n.data.hid <;> by_cases hk : n.kids.isEmpty <;>
    simp [lookupF, mirrorFields, List.lookup, h, hk]

@[simp] theorem dict_jDid_didJ (d : DataId) : jDid (didJ d) = some d := by
  cases d <;> rfl

/-- the `data_id=` argument `from_dict` passes on. -/
theorem dataId_of_mirror (n : T) :
    (lookupF (mirrorFields n) "data_id").bind jDid = if n.did ≠ n.data.hid then some n.did else none := by
  rw [lookup_mirror_data_id]
  by_cases h : n.did = n.data.hid <;> simp [h]

/-- the `data_id` written by `to_dict` is a number or a string (hashable). -/
theorem didUnhashable_mirror (n : T) : didUnhashable (mirrorFields n) = false := by
  have h := lookup_mirror_data_id n
  unfold lookupF at h
  unfold didUnhashable
  rw [h]
  by_cases hc : n.did = n.data.hid
  · simp [hc]
  · simp only [ne_eq, hc, not_false_eq_true, if_true]
    cases n.did <;> rfl

/-- the child list `from_dict` recurses into (a missing key means no children). -/
theorem children_of_mirror (n : T) :
    (lookupF (mirrorFields n) "children" = none ∧ mirrorL n.kids = []) ∨
      lookupF (mirrorFields n) "children" = some (.arr (mirrorL n.kids)) := by
  rw [lookup_mirror_children]
  cases hk : n.kids with
  | nil => left; simp
  | cons k ks => right; simp

/-! ### `fromDictL` -/

theorem fromDictL_nil (sa : String → Atom) (deser : Option (Fields → DRes)) (fuel : Nat) (t : Tree) (p nx : NodeId) :
    fromDictL sa deser fuel [] t p nx = .ok (t, nx) := by
  cases fuel <;> simp [fromDictL]

/-- one round of `from_dict` (no mapper) on an object whose node can be added. -/
theorem fromDictL_step {sa : String → Atom} {f : Nat} {d : Fields} {rest kidsJ : List JVal} {t t1 t2 : Tree}
    {p nx n2 : NodeId} {s : String}
    (hdata : lookupF d "data" = some (.str s))
    (hun : didUnhashable d = false)
    (hadd : t.addData nx p (sa s) .none ((lookupF d "data_id").bind jDid) none = .ok t1)
    (hc : (lookupF d "children" = none ∧ kidsJ = []) ∨ lookupF d "children" = some (.arr kidsJ))
    (hk : fromDictL sa none f kidsJ t1 nx (nx + 1) = .ok (t2, n2)) :
    fromDictL sa none (f + 1) (.obj d :: rest) t p nx = fromDictL sa none (f + 1) rest t2 p n2 := by
  rw [fromDictL]
  rcases hc with ⟨hc, rfl⟩ | hc <;> simp only [itemData, hdata, hadd, hc, hk, scalarAtom, childItems, hun, Bool.false_eq_true, if_false]

theorem dict_heightL_cons_le {n : T} {rest : List T} {f : Nat} (h : heightL (n :: rest) ≤ f) :
    ∃ f', f = f' + 1 ∧ heightL n.kids ≤ f' ∧ heightL rest ≤ f := by
  cases n with
  | node i ks =>
    rw [heightL, height] at h
    cases f with
    | zero => omega
    | succ f' => exact ⟨f', rfl, by simp only [T.kids_node]; omega, by omega⟩

theorem dict_shL_cons (t : T) (ts : List T) : shL (t :: ts) = shT t :: shL ts := by rw [shL]
theorem dict_shL_nil : shL [] = [] := by rw [shL]
theorem dict_shT_node (i : Info) (ks : List T) : shT (.node i ks) = .node i.data.obj i.did i.kind (shL ks) := by
  rw [shT]

/-- **Reading a mirrored forest below an existing node.**  `t` is well-formed, untyped, without id
hook, `nx` is fresh, `p` exists and none of its children carries a data id of a top node of `ks`;
`ks` has sibling-unique data ids, string data that `sa` finds again, no kinds, and the fuel covers
its height.  Then `fromDictL` succeeds, appends a forest `ks'` below `p` (nothing else changes)
which has the shape and payload of `ks`, consumes exactly one fresh id per node, and the state stays
well-formed. -/
theorem fromDictL_mirrorL (sa : String → Atom) :
    ∀ (ks : List T) (fuel : Nat) (t : Tree) (p nx : NodeId) (P : T),
      WF t → C01.Fresh t nx → t.typed = false → t.hook = none → findT p t.root = some P →
      (∀ c ∈ P.kids, c.did ∉ ks.map T.did) →
      (ks.map T.did).Nodup → (∀ x ∈ flatL ks, (x.kids.map T.did).Nodup) →
      heightL ks ≤ fuel →
      (∀ n ∈ flatL ks, sa n.name = n.data) → (∀ n ∈ flatL ks, n.kind = none) →
      ∃ t' ks', fromDictL sa none fuel (mirrorL ks) t p nx = .ok (t', nx + (flatL ks).length) ∧
        t'.root = modT p (fun l => l ++ ks') t.root ∧ shL ks' = shL ks ∧
        WF t' ∧ C01.Fresh t' (nx + (flatL ks).length) ∧ t'.typed = false ∧ t'.hook = none
  | [], fuel, t, p, nx, P, h, hf, hty, hhk, hP, _, _, _, _, _, _ => by
    refine ⟨t, [], ?_, ?_, rfl, h, ?_, hty, hhk⟩
    · rw [mirrorL_nil, fromDictL_nil]; simp
    · have : (fun l : List T => l ++ []) = _root_.id := by funext l; simp
      have hid : ∀ r : T, modT p _root_.id r = r := by
        intro r
        induction r using T.ind with
        | node i ks ih =>
          rw [modT_node]
          split
          · rfl
          · congr 1
            exact (List.map_congr_left ih).trans (List.map_id' ks)
      rw [this, hid]
    · simpa using hf
  | .node i ks :: rest, fuel, t, p, nx, P, h, hf, hty, hhk, hP, hPk, hnd, hsib, hfuel, hdata, hkind => by
    obtain ⟨f, rfl, hfk, hfr⟩ := dict_heightL_cons_le hfuel
    rw [T.kids_node] at hfk
    have hnmem : T.node i ks ∈ flatL (T.node i ks :: rest) := by
      rw [flatL_cons, flat_node]; simp
    have hksub : ∀ x ∈ flatL ks, x ∈ flatL (T.node i ks :: rest) := by
      intro x hx; rw [flatL_cons, flat_node]; simp [hx]
    have hrsub : ∀ x ∈ flatL rest, x ∈ flatL (T.node i ks :: rest) := by
      intro x hx; rw [flatL_cons]; exact List.mem_append_right _ hx
    have hsa : sa i.data.name = i.data := hdata _ hnmem
    have hik : i.kind = none := hkind _ hnmem
    rw [List.map_cons, List.nodup_cons] at hnd
    -- 1. the node itself
    have hdid : ((lookupF (mirrorFields (T.node i ks)) "data_id").bind jDid) = some i.did ∨
        (((lookupF (mirrorFields (T.node i ks)) "data_id").bind jDid) = none ∧ t.hook = none ∧
          i.did = (sa i.data.name).hid) := by
      have e := dataId_of_mirror (T.node i ks)
      change _ = if i.did ≠ i.data.hid then some i.did else none at e
      rw [e, hsa]
      by_cases hc : i.did = i.data.hid
      · right; simp [hc, hhk]
      · left; simp [hc]
    have hsib1 : ∀ c ∈ P.kids, c.did ≠ i.did := by
      intro c hc e
      exact hPk c hc (by rw [e]; simp)
    obtain ⟨t1, hadd, hroot1, h1, hf1, hty1, hhk1⟩ :=
      addData_append (a := sa i.data.name) (kind := none) h hf hP hdid hsib1
    rw [hty, hsa] at hroot1
    simp only [Bool.false_eq_true, if_false] at hroot1
    have hty1' : t1.typed = false := hty1.trans hty
    have hhk1' : t1.hook = none := hhk1.trans hhk
    -- 2. the new leaf is found
    have hN1 : C10.IdsNodup (modT p (fun l => l ++ [T.node { id := nx, data := i.data, did := i.did, kind := none } []]) t.root) := by
      rw [← hroot1]; exact h1.idsN
    have hleaf : findT nx t1.root = some (T.node { id := nx, data := i.data, did := i.did, kind := none } []) := by
      rw [hroot1]
      exact findT_appended_leaf (i := { id := nx, data := i.data, did := i.did, kind := none }) hP hN1
    -- 3. the children below the new leaf
    obtain ⟨t2, ks', hrun2, hroot2, hsh2, h2, hf2, hty2, hhk2⟩ :=
      fromDictL_mirrorL sa ks f t1 nx (nx + 1) _ h1 hf1 hty1' hhk1' hleaf
        (by intro c hc; simp at hc)
        (hsib _ hnmem)
        (fun x hx => hsib x (hksub x hx)) hfk
        (fun x hx => hdata x (hksub x hx)) (fun x hx => hkind x (hksub x hx))
    -- 4. the new leaf with its children, seen from `p`
    have hpn : p ≠ nx := by
      obtain ⟨hPm, hPid⟩ := findT_some hP
      have := hf.2 P hPm
      rw [hPid] at this
      exact Nat.ne_of_lt this
    rw [hroot1, modT_fill_new (i := { id := nx, data := i.data, did := i.did, kind := none }) rfl hf.not_mem hpn]
      at hroot2
    have hP2 : findT p t2.root = some (T.node P.info (P.kids ++ [T.node { id := nx, data := i.data, did := i.did, kind := none } ks'])) := by
      rw [hroot2]; exact findT_modT_append hP
    -- 5. the remaining siblings
    obtain ⟨t3, rs', hrun3, hroot3, hsh3, h3, hf3, hty3, hhk3⟩ :=
      fromDictL_mirrorL sa rest (f + 1) t2 p (nx + 1 + (flatL ks).length) _ h2 hf2 hty2 hhk2 hP2
        (by
          intro c hc
          rw [T.kids_node, List.mem_append, List.mem_singleton] at hc
          rcases hc with hc | rfl
          · intro hm; exact hPk c hc (by rw [List.map_cons]; exact List.mem_cons_of_mem _ hm)
          · exact hnd.1)
        hnd.2
        (fun x hx => hsib x (hrsub x hx)) hfr
        (fun x hx => hdata x (hrsub x hx)) (fun x hx => hkind x (hrsub x hx))
    have hlen : nx + (flatL (T.node i ks :: rest)).length = nx + 1 + (flatL ks).length + (flatL rest).length := by
      simp only [flatL_cons, flat_node, List.length_append, List.length_cons]
      exact (by omega : ∀ a b c : Nat, a + (b + 1 + c) = a + 1 + b + c) _ _ _
    refine ⟨t3, T.node { id := nx, data := i.data, did := i.did, kind := none } ks' :: rs', ?_, ?_, ?_, h3, ?_, hty3, hhk3⟩
    · rw [mirrorL_cons, mirror_eq, hlen]
      rw [fromDictL_step (lookup_mirror_data _) (didUnhashable_mirror _) hadd (children_of_mirror _) hrun2]
      exact hrun3
    · rw [hroot3, hroot2, modT_modT_same]
      congr 1
      funext l; simp
    · rw [dict_shL_cons, dict_shL_cons, dict_shT_node, dict_shT_node, hsh2, hsh3, hik]
    · rw [hlen]; exact hf3

end Nutree.Ser
