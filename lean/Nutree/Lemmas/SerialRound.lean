/-
  Nutree.Lemmas.SerialRound — `fromList ∘ toList`: reading back the written list rebuilds the
  forest.  `fstep` is the (named) fold step of `fromList`; `row_step` is one row, `build_forest`
  the structural induction over the source forest.
-/
import Nutree.Lemmas.SerialList
import Nutree.Lemmas.SerialAdd
import Nutree.Model.Filter
namespace Nutree.Ser
open Nutree T Nutree.Flt.Spec

/-! ## small facts -/

theorem compress_nil (d : Fields) : compress {} d = some d := by
  unfold compress
  induction d with
  | nil => rfl
  | cons e d ih =>
    obtain ⟨k, v⟩ := e
    rw [List.mapM_cons, ih]
    rfl

theorem jDid_didJ (d : DataId) : jDid (didJ d) = some d := by cases d <;> rfl

theorem lookup_mem {α β} [BEq α] [LawfulBEq α] {l : List (α × β)} {k : α} {v : β}
    (h : l.lookup k = some v) : (k, v) ∈ l := by
  induction l with
  | nil => simp at h
  | cons e l ih =>
    obtain ⟨k', v'⟩ := e
    rw [List.lookup_cons] at h
    by_cases hk : (k == k') = true
    · simp only [hk] at h
      cases h
      rw [eq_of_beq hk]; exact List.mem_cons_self
    · simp only [hk] at h
      exact List.mem_cons_of_mem _ (ih h)

/-- the index map of `fromList`: entry `k` was built as node `k`. -/
def idM (n : Nat) : List (Nat × NodeId) := (List.range n).map fun k => (k, k)

theorem idM_one : idM 1 = [(0, 0)] := rfl
theorem idM_succ (n : Nat) : idM (n + 1) = idM n ++ [(n, n)] := by simp [idM, List.range_succ]
theorem idM_length (n : Nat) : (idM n).length = n := by simp [idM]
theorem idM_lookup {n k : Nat} (h : k < n) : (idM n).lookup k = some k := by
  induction n with
  | zero => omega
  | succ n ih =>
    rw [idM_succ, List.lookup_append]
    by_cases hk : k < n
    · rw [ih hk]; rfl
    · have : k = n := by omega
      subst this
      have : (idM k).lookup k = none := by
        rw [List.lookup_eq_none_iff]
        intro e he
        simp only [idM, List.mem_map, List.mem_range] at he
        obtain ⟨j, hj, rfl⟩ := he
        simp; omega
      rw [this]; simp

/-! ## what `makeEntry` writes -/

theorem makeEntry_ne_ref (typed : Bool) (n : T) (k : Nat) : makeEntry typed n ≠ .ref k := by
  unfold makeEntry
  by_cases hc : n.did = n.data.hid <;> cases hs : n.data.isStr <;> cases hk : n.kind <;> cases typed <;>
    simp [hc]

/-- a plain string is written only for an untyped string node with the default id. -/
theorem makeEntry_str {typed : Bool} {n : T} {s : String} (h : makeEntry typed n = .str s) :
    typed = false ∧ n.did = n.data.hid ∧ s = n.name ∧ n.data.isStr = true := by
  unfold makeEntry at h
  by_cases hc : n.did = n.data.hid <;> cases hs : n.data.isStr <;> cases hk : n.kind <;> cases typed <;>
    simp [hc, hs, hk] at h <;> simp [hc, h]

/-- the `data_id` field of a written dict: present iff the id is not the default one. -/
theorem makeEntry_dict_did {typed : Bool} {n : T} {d : Fields} (h : makeEntry typed n = .dict d) :
    lookupF d "data_id" = if n.did = n.data.hid then none else some (didJ n.did) := by
  unfold makeEntry at h
  by_cases hc : n.did = n.data.hid <;> cases hs : n.data.isStr <;> cases hk : n.kind <;> cases typed <;>
    simp [hc, hs, hk] at h <;> subst h <;> simp [hc, lookupF, List.lookup_cons]

/-- the `kind` field of a dict written for a typed tree. -/
theorem makeEntry_dict_kind {n : T} {d : Fields} (h : makeEntry true n = .dict d) :
    lookupF d "kind" = n.kind.map JVal.str := by
  unfold makeEntry at h
  by_cases hc : n.did = n.data.hid <;> cases hs : n.data.isStr <;> cases hk : n.kind <;>
    simp [hc, hs, hk] at h <;> subst h <;> simp [lookupF, List.lookup_cons]

/-! ## the fold step of `fromList` -/

/-- the fold step of `fromList` (the model's `fromListStep`), under the name used below. -/
abbrev fstep (typed : Bool) (strAtom : String → Atom) (deser : Fields → DRes)
    (acc : Except Err FState) (r : Nat × Payload) : Except Err FState :=
  fromListStep typed strAtom deser acc r

theorem fromList_eq_fold (typed : Bool) (strAtom : String → Atom) (deser : Fields → DRes)
    (rows : List (Nat × Payload)) :
    fromList typed strAtom deser rows =
      (rows.foldl (fstep typed strAtom deser) (.ok ({ typed := typed }, 1, [(0, 0)]))).map (·.1) := rfl

/-- a `data_id` field written by `makeEntry` is a number or a string. -/
theorem didUnhashable_of_lookup {d : Fields} {o : Option DataId}
    (h : lookupF d "data_id" = o.map didJ) : didUnhashable d = false := by
  unfold didUnhashable
  unfold lookupF at h
  rw [h]
  cases o with
  | none => rfl
  | some x => cases x <;> rfl

/-! ## hypotheses of the round trip -/

/-- what the round trip needs to know about one source node: the mappers are inverse on its entry
(data object recovered; `data_id` and — in a typed tree — `kind` left alone), a plain string is
resolved to the node's data object, and the node carries a kind iff the tree is typed. -/
structure NodeOK (typed : Bool) (ser : T → Fields → Option Fields) (deser : Fields → DRes)
    (strAtom : String → Atom) (n : T) : Prop where
  dict : ∀ d, makeEntry typed n = .dict d →
    deser ((ser n d).getD d) = DRes.atom n.data ∧
    lookupF ((ser n d).getD d) "data_id" = lookupF d "data_id" ∧
    (typed = true → lookupF ((ser n d).getD d) "kind" = lookupF d "kind")
  str : ∀ s, makeEntry typed n = .str s → strAtom s = n.data
  kind : n.kind.isSome = typed

/-- "clone" means: nodes with the same data id carry the same data object. -/
def DataById (all : List T) : Prop := ∀ n ∈ all, ∀ m ∈ all, n.did = m.did → n.data = m.data

/-- every entry of the clone map points to a node that has been rebuilt with that data id and
kind and with the data object that the source nodes with this data id carry. -/
def CmapOK (all : List T) (c : CMap) (t : Tree) : Prop :=
  ∀ d cidx ck, (d, cidx, ck) ∈ c → 0 < cidx ∧
    ∃ i ∈ infos t.root, i.id = cidx ∧ i.did = d ∧ i.kind = ck ∧ ∃ m ∈ all, m.did = d ∧ m.data = i.data

/-- the leaf built for source node `n` as entry number `nx`. -/
def leafOf (n : T) (nx : Nat) : T := T.node { id := nx, data := n.data, did := n.did, kind := n.kind } []

theorem cmapOK_append {all : List T} {c : CMap} {t t' : Tree} {p : NodeId} {P : T} {new : List T}
    (hC : CmapOK all c t) (hN : C10.IdsNodup t.root) (hP : findT p t.root = some P)
    (hr : t'.root = modT p (fun l => l ++ new) t.root) : CmapOK all c t' := by
  intro d cidx ck hm
  obtain ⟨h0, i, hi, h1⟩ := hC d cidx ck hm
  exact ⟨h0, i, by rw [hr]; exact infos_subset_modT_append hN hP hi, h1⟩

/-- one leaf appended with the payload of `n`. -/
theorem append_leaf {t : Tree} {nx p : NodeId} {P n : T} {did? : Option DataId} {kind : Option String}
    (hW : WF t) (hF : C01.Fresh t nx) (hP : findT p t.root = some P)
    (hsib : ∀ c ∈ P.kids, c.did ≠ n.did)
    (hdid : did? = some n.did ∨ (did? = none ∧ t.hook = none ∧ n.did = n.data.hid))
    (hk : (if t.typed then some (kind.getD "child") else none) = n.kind) :
    ∃ t', t.addData nx p n.data .none did? kind = .ok t' ∧
      t'.root = modT p (fun l => l ++ [leafOf n nx]) t.root ∧
      WF t' ∧ C01.Fresh t' (nx + 1) ∧ t'.typed = t.typed ∧ t'.hook = t.hook := by
  obtain ⟨t', h1, h2, h3⟩ := addData_append (a := n.data) (did := n.did) (kind := kind) hW hF hP hdid hsib
  refine ⟨t', h1, ?_, h3⟩
  rw [h2, hk]; rfl

theorem addNode_shallow {t : Tree} {nx p : NodeId} {src : T} {sp : Option NodeId} {kind : Option String}
    {t1 : Tree} (hsp : sp ≠ some p)
    (h : t.addData nx p src.data .none (some src.did) (if t.typed then some (kind.getD "child") else none) = .ok t1) :
    t.addNode nx p src true sp .none none (some src.did) kind = (t1, nx + 1, none) := by
  unfold Tree.addNode
  simp [hsp, h]

/-! ## one row -/

theorem idM_snoc (nx : Nat) : idM nx ++ [((idM nx).length, nx)] = idM (nx + 1) := by
  rw [idM_length, idM_succ]

/-- reading a full (non-reference) entry of `n` appends the leaf for `n`. -/
theorem full_step {typed : Bool} {strAtom : String → Atom} {deser : Fields → DRes}
    {ser : T → Fields → Option Fields} {t : Tree} {nx p : Nat} {P n : T} {pl : Payload}
    (hW : WF t) (hF : C01.Fresh t nx) (hty : t.typed = typed) (hh : t.hook = none)
    (hp : p < nx) (hP : findT p t.root = some P) (hsib : ∀ c ∈ P.kids, c.did ≠ n.did)
    (hn : NodeOK typed ser deser strAtom n)
    (hf : fullEntry typed {} ser n = some pl) :
    ∃ t', fstep typed strAtom deser (.ok (t, nx, idM nx)) (p, pl) = .ok (t', nx + 1, idM (nx + 1)) ∧
      t'.root = modT p (fun l => l ++ [leafOf n nx]) t.root ∧
      WF t' ∧ C01.Fresh t' (nx + 1) ∧ t'.typed = typed ∧ t'.hook = none := by
  unfold fullEntry at hf
  cases hm : makeEntry typed n with
  | ref k => exact absurd hm (makeEntry_ne_ref _ _ _)
  | str s =>
    rw [hm] at hf
    simp only [Option.some.injEq] at hf
    subst hf
    obtain ⟨h1, h2, h3⟩ := makeEntry_str hm
    have hkn : n.kind = none := by
      have := hn.kind; rw [h1] at this
      cases hk : n.kind with
      | none => rfl
      | some k => rw [hk] at this; cases this
    obtain ⟨t', ha, hr, hW', hF', hty', hh'⟩ := append_leaf (n := n) (did? := none)
      (kind := if typed then some "child" else none) hW hF hP hsib (Or.inr ⟨rfl, hh, h2⟩)
      (by rw [hty, h1, hkn]; rfl)
    refine ⟨t', ?_, hr, hW', hF', hty'.trans hty, hh'.trans hh⟩
    simp only [fstep, fromListStep, fromListBody, idM_lookup hp, hn.str s hm, ha, idM_snoc]
    rfl
  | dict d =>
    rw [hm] at hf
    simp only [compress_nil, Option.map_some, Option.some.injEq] at hf
    subst hf
    obtain ⟨h1, h2, h3⟩ := hn.dict d hm
    have hdid : (lookupF ((ser n d).getD d) "data_id").bind jDid = if n.did = n.data.hid then none else some n.did := by
      rw [h2, makeEntry_dict_did hm]
      split
      · rfl
      · simp [jDid_didJ]
    have hunh : didUnhashable ((ser n d).getD d) = false :=
      didUnhashable_of_lookup (o := if n.did = n.data.hid then none else some n.did) (by
        rw [h2, makeEntry_dict_did hm]; split <;> rfl)
    have hdid' : (lookupF ((ser n d).getD d) "data_id").bind jDid = some n.did ∨
        ((lookupF ((ser n d).getD d) "data_id").bind jDid = none ∧ t.hook = none ∧ n.did = n.data.hid) := by
      rw [hdid]; by_cases hc : n.did = n.data.hid
      · right; simp [hc, hh]
      · left; simp [hc]
    cases typed with
    | false =>
      have hkn : n.kind = none := by
        have := hn.kind
        cases hk : n.kind with
        | none => rfl
        | some k => rw [hk] at this; cases this
      obtain ⟨t', ha, hr, hW', hF', hty', hh'⟩ := append_leaf (n := n) (kind := none) hW hF hP hsib hdid'
        (by rw [hty, hkn]; rfl)
      refine ⟨t', ?_, hr, hW', hF', hty'.trans hty, hh'.trans hh⟩
      simp only [fstep, fromListStep, fromListBody, idM_lookup hp, h1, idM_snoc, Bool.false_eq_true, if_false, ha, hunh]
      rfl
    | true =>
      obtain ⟨k, hk⟩ : ∃ k, n.kind = some k := by
        have := hn.kind
        cases hk : n.kind with
        | none => rw [hk] at this; cases this
        | some k => exact ⟨k, rfl⟩
      obtain ⟨t', ha, hr, hW', hF', hty', hh'⟩ := append_leaf (n := n) (kind := some k) hW hF hP hsib hdid'
        (by rw [hty, hk]; rfl)
      refine ⟨t', ?_, hr, hW', hF', hty'.trans hty, hh'.trans hh⟩
      simp only [fstep, fromListStep, fromListBody, idM_lookup hp, h1, idM_snoc, if_true, h3 rfl, makeEntry_dict_kind hm, hk,
        Option.map_some, ha, hunh, Bool.false_eq_true, if_false]
      rfl

/-- reading a reference to an earlier entry appends a leaf with the payload of that entry, which is
the payload of `n`. -/
theorem ref_step {typed : Bool} {strAtom : String → Atom} {deser : Fields → DRes} {all : List T}
    {t : Tree} {nx p : Nat} {P n : T} {c0 : CMap} {cidx : Nat} {ck : Option String}
    (hW : WF t) (hF : C01.Fresh t nx) (hty : t.typed = typed)
    (hp : p < nx) (hP : findT p t.root = some P) (hsib : ∀ c ∈ P.kids, c.did ≠ n.did)
    (hC : CmapOK all c0 t) (hn : n.kind.isSome = typed) (hnall : n ∈ all) (hD : DataById all)
    (hl : (n.did, cidx, ck) ∈ c0) (hk : n.kind = ck) :
    ∃ t', fstep typed strAtom deser (.ok (t, nx, idM nx)) (p, .ref cidx) = .ok (t', nx + 1, idM (nx + 1)) ∧
      t'.root = modT p (fun l => l ++ [leafOf n nx]) t.root ∧
      WF t' ∧ C01.Fresh t' (nx + 1) ∧ t'.typed = typed ∧ t'.hook = t.hook := by
  have hN := hW.idsN
  obtain ⟨hc0, i, hi, hid, hdid, hkind, m, hm, hmd, hmdata⟩ := hC _ _ _ hl
  obtain ⟨fc, hfc, hfci⟩ := List.mem_map.1 hi
  have hfcid : fc.id = cidx := by show fc.info.id = cidx; rw [hfci, hid]
  have hfind : findT cidx t.root = some fc := by rw [← hfcid]; exact findT_of_mem hN hfc
  have hlt : cidx < nx := by rw [← hfcid]; exact hF.2 fc hfc
  have hfdid : fc.did = n.did := by show fc.info.did = n.did; rw [hfci, hdid]
  have hfkind : fc.kind = n.kind := by show fc.info.kind = n.kind; rw [hfci, hkind, hk]
  have hfdata : fc.data = n.data := by
    show fc.info.data = n.data
    rw [hfci, ← hmdata]; exact hD m hm n hnall hmd
  obtain ⟨hPm, hPid⟩ := findT_some hP
  have hpar : t.parentId cidx ≠ some p := by
    intro hpp
    unfold Tree.parentId at hpp
    cases hq : findParent cidx t.root with
    | none => rw [hq] at hpp; cases hpp
    | some q =>
      rw [hq] at hpp
      have hqid : q.id = p := by simpa using hpp
      obtain ⟨hqm, c, hc, hcc⟩ := findParent_some_mem hq
      have hqP : q = P := eq_of_id_eq hN hqm hPm (hqid.trans hPid.symm)
      subst hqP
      have hcf : c = fc := eq_of_id_eq hN (mem_flat_trans (mem_flat_of_mem_kids hc) hqm) hfc (hcc.trans hfcid.symm)
      subst hcf
      exact hsib c hc hfdid
  obtain ⟨t', ha, hr, hW', hF', hty', hh'⟩ := append_leaf (n := n) (did? := some n.did)
    (kind := if t.typed then some ((if typed then fc.kind else none).getD "child") else none) hW hF hP hsib (Or.inl rfl)
    (by
      rw [hty, hfkind]
      cases typed with
      | false =>
        cases hk : n.kind with
        | none => rfl
        | some k => rw [hk] at hn; cases hn
      | true =>
        cases hk : n.kind with
        | none => rw [hk] at hn; cases hn
        | some k => rfl)
  refine ⟨t', ?_, hr, hW', hF', hty'.trans hty, hh'⟩
  rw [← hfdata, ← hfdid] at ha
  have hadd := addNode_shallow (src := fc) (kind := if typed then fc.kind else none) hpar ha
  simp only [fstep, fromListStep, fromListBody, idM_lookup hp, idM_lookup hlt, hfind, hadd, idM_snoc,
    if_neg (Nat.ne_of_gt hc0)]

theorem modT_id' (p : NodeId) (r : T) : modT p (fun l => l) r = r := by
  induction r using T.ind with
  | node i ks ih =>
    rw [modT_node]
    split
    · rfl
    · congr 1
      exact (List.map_congr_left ih).trans (List.map_id' ks)

theorem modT_append_nil (p : NodeId) (r : T) : modT p (fun l => l ++ []) r = r := by
  have : (fun l : List T => l ++ []) = fun l => l := by funext l; simp
  rw [this, modT_id']

theorem leafOf_info_mem {p : NodeId} {P r : T} {n : T} {nx : Nat} (hN : C10.IdsNodup r)
    (hP : findT p r = some P) :
    (leafOf n nx).info ∈ infos (modT p (fun l => l ++ [leafOf n nx]) r) := by
  refine (infos_modT_append_perm hN hP).mem_iff.2 (List.mem_append_left _ ?_)
  simp [infosL, leafOf, flat_node]

/-- one row of the written list is read back as one appended leaf. -/
theorem row_step {typed : Bool} {strAtom : String → Atom} {deser : Fields → DRes}
    {ser : T → Fields → Option Fields} {isClone : T → Bool} {all : List T}
    {t : Tree} {nx p : Nat} {P n : T} {c0 c1 : CMap} {e : Nat × Payload}
    (hW : WF t) (hF : C01.Fresh t nx) (hty : t.typed = typed) (hh : t.hook = none)
    (hp : p < nx) (hP : findT p t.root = some P) (hsib : ∀ c ∈ P.kids, c.did ≠ n.did)
    (hC : CmapOK all c0 t) (hn : NodeOK typed ser deser strAtom n) (hnall : n ∈ all) (hD : DataById all)
    (he : entryOf typed {} ser isClone c0 (nx, p, n) = some (e, c1)) :
    ∃ t', fstep typed strAtom deser (.ok (t, nx, idM nx)) e = .ok (t', nx + 1, idM (nx + 1)) ∧
      t'.root = modT p (fun l => l ++ [leafOf n nx]) t.root ∧
      WF t' ∧ C01.Fresh t' (nx + 1) ∧ t'.typed = typed ∧ t'.hook = none ∧ CmapOK all c1 t' := by
  have hN := hW.idsN
  unfold entryOf at he
  simp only at he
  cases hl : c0.lookup n.did with
  | none =>
    rw [hl] at he
    simp only at he
    cases hf : fullEntry typed {} ser n with
    | none => rw [hf] at he; cases he
    | some pl =>
      rw [hf] at he
      simp only [Option.map_some, Option.some.injEq, Prod.mk.injEq] at he
      obtain ⟨rfl, rfl⟩ := he
      obtain ⟨t', h1, hr, h2, h3, h4, h5⟩ := full_step hW hF hty hh hp hP hsib hn hf
      refine ⟨t', h1, hr, h2, h3, h4, h5, ?_⟩
      have hold : CmapOK all c0 t' := cmapOK_append hC hN hP hr
      split
      · intro d cidx ck hm
        rcases List.mem_append.1 hm with hm | hm
        · exact hold d cidx ck hm
        · simp only [List.mem_singleton, Prod.mk.injEq] at hm
          obtain ⟨e1, e2, e3⟩ := hm
          exact ⟨e2 ▸ hF.1, (leafOf n nx).info, by rw [hr]; exact leafOf_info_mem hN hP, e2.symm, e1.symm, e3.symm,
            n, hnall, e1.symm, rfl⟩
      · exact hold
  | some v =>
    obtain ⟨cidx, ck⟩ := v
    rw [hl] at he
    simp only at he
    by_cases hk : (n.kind == ck) = true
    · rw [if_pos hk] at he
      simp only [Option.some.injEq, Prod.mk.injEq] at he
      obtain ⟨rfl, rfl⟩ := he
      obtain ⟨t', h1, hr, h2, h3, h4, h5⟩ := ref_step (strAtom := strAtom) (deser := deser) hW hF hty hp hP hsib hC hn.kind hnall hD
        (lookup_mem hl) (eq_of_beq hk)
      exact ⟨t', h1, hr, h2, h3, h4, h5.trans hh, cmapOK_append hC hN hP hr⟩
    · rw [if_neg hk] at he
      cases hf : fullEntry typed {} ser n with
      | none => rw [hf] at he; cases he
      | some pl =>
        rw [hf] at he
        simp only [Option.map_some, Option.some.injEq, Prod.mk.injEq] at he
        obtain ⟨rfl, rfl⟩ := he
        obtain ⟨t', h1, hr, h2, h3, h4, h5⟩ := full_step hW hF hty hh hp hP hsib hn hf
        exact ⟨t', h1, hr, h2, h3, h4, h5, cmapOK_append hC hN hP hr⟩

/-! ## the whole forest -/

theorem shL_cons (t : T) (ts : List T) : shL (t :: ts) = shT t :: shL ts := by simp [shL]
theorem shL_nil : shL [] = [] := by simp [shL]
theorem shT_node (i : Info) (ks : List T) : shT (.node i ks) = .node i.data.obj i.did i.kind (shL ks) := by simp [shT]

theorem payloads_cons_some {typed : Bool} {o : Opts} {ser : T → Fields → Option Fields} {isClone : T → Bool}
    {r : Row} {rs : List Row} {c c1 : CMap} {es : List (Nat × Payload)}
    (h : payloads typed o ser isClone (r :: rs) c = some (es, c1)) :
    ∃ e ca es', entryOf typed o ser isClone c r = some (e, ca) ∧
      payloads typed o ser isClone rs ca = some (es', c1) ∧ es = e :: es' := by
  rw [payloads] at h
  cases he : entryOf typed o ser isClone c r with
  | none => simp [he] at h
  | some ec =>
    obtain ⟨e, ca⟩ := ec
    simp only [he] at h
    cases hp : payloads typed o ser isClone rs ca with
    | none => simp [hp] at h
    | some x =>
      obtain ⟨es', c2⟩ := x
      simp only [hp, Option.some.injEq, Prod.mk.injEq] at h
      exact ⟨e, ca, es', rfl, by rw [← h.2]; exact hp, h.1.symm⟩

theorem payloads_append_some {typed : Bool} {o : Opts} {ser : T → Fields → Option Fields} {isClone : T → Bool}
    {a b : List Row} {c c1 : CMap} {es : List (Nat × Payload)}
    (h : payloads typed o ser isClone (a ++ b) c = some (es, c1)) :
    ∃ ea cb eb, payloads typed o ser isClone a c = some (ea, cb) ∧
      payloads typed o ser isClone b cb = some (eb, c1) ∧ es = ea ++ eb := by
  rw [payloads_append] at h
  cases ha : payloads typed o ser isClone a c with
  | none => simp [ha] at h
  | some x =>
    obtain ⟨ea, cb⟩ := x
    simp only [ha] at h
    cases hb : payloads typed o ser isClone b cb with
    | none => simp [hb] at h
    | some y =>
      obtain ⟨eb, c2⟩ := y
      simp only [hb, Option.some.injEq, Prod.mk.injEq] at h
      exact ⟨ea, cb, eb, rfl, by rw [← h.2]; exact hb, h.1.symm⟩

/-- **reading back the rows written for a forest `ks` below entry `p` appends a copy of `ks` below
node `p`.** -/
theorem build_forest {typed : Bool} {strAtom : String → Atom} {deser : Fields → DRes}
    {ser : T → Fields → Option Fields} {isClone : T → Bool} {all : List T} (hD : DataById all) :
    ∀ (ks : List T) (p nx : Nat) (c0 c1 : CMap) (es : List (Nat × Payload)) (t : Tree) (P : T),
      payloads typed {} ser isClone (enumerate ks p nx).1 c0 = some (es, c1) →
      (∀ n ∈ flatL ks, n ∈ all ∧ NodeOK typed ser deser strAtom n) →
      (ks.map T.did).Nodup → (∀ x ∈ flatL ks, (x.kids.map T.did).Nodup) →
      WF t → C01.Fresh t nx → t.typed = typed → t.hook = none → p < nx →
      findT p t.root = some P → (∀ c ∈ P.kids, c.did ∉ ks.map T.did) →
      CmapOK all c0 t →
      ∃ t' ks', es.foldl (fstep typed strAtom deser) (.ok (t, nx, idM nx))
            = .ok (t', nx + (flatL ks).length, idM (nx + (flatL ks).length)) ∧
        t'.root = modT p (fun l => l ++ ks') t.root ∧ shL ks' = shL ks ∧
        WF t' ∧ C01.Fresh t' (nx + (flatL ks).length) ∧ t'.typed = typed ∧ t'.hook = none ∧
        CmapOK all c1 t' := by
  intro ks
  induction ks using forest_ind with
  | nil =>
    intro p nx c0 c1 es t P hpl _ _ _ hW hF hty hh _ _ _ hC
    rw [enumerate_nil] at hpl
    simp only [payloads, Option.some.injEq, Prod.mk.injEq] at hpl
    obtain ⟨rfl, rfl⟩ := hpl
    exact ⟨t, [], rfl, (modT_append_nil p t.root).symm, rfl, hW, hF, hty, hh, hC⟩
  | cons i ks rest ih1 ih2 =>
    intro p nx c0 c1 es t P hpl hall htop hsibs hW hF hty hh hp hP hsib hC
    rw [enumerate_cons, enumerate_snd] at hpl
    simp only [List.cons_append] at hpl
    obtain ⟨e, ca, es', he, hpl', rfl⟩ := payloads_cons_some hpl
    obtain ⟨eA, cb, eB, hA, hB, rfl⟩ := payloads_append_some hpl'
    have hnmem : T.node i ks ∈ flatL (T.node i ks :: rest) := by
      rw [flatL_cons, flat_node]; simp
    have hksub : ∀ x, x ∈ flatL ks → x ∈ flatL (T.node i ks :: rest) := by
      intro x hx; rw [flatL_cons, flat_node]; simp [hx]
    have hrsub : ∀ x, x ∈ flatL rest → x ∈ flatL (T.node i ks :: rest) := by
      intro x hx; rw [flatL_cons]; simp [hx]
    rw [List.map_cons, List.nodup_cons] at htop
    -- step 1: the node itself
    obtain ⟨t1, hf1, hr1, hW1, hF1, hty1, hh1, hC1⟩ := row_step (strAtom := strAtom) (deser := deser)
      hW hF hty hh hp hP
      (fun c hc e => hsib c hc (by rw [e]; simp)) hC (hall _ hnmem).2 (hall _ hnmem).1 hD he
    have hN1 : C10.IdsNodup (modT p (fun l => l ++ [leafOf (T.node i ks) nx]) t.root) := by
      rw [← hr1]; exact hW1.idsN
    have hleaf : findT nx t1.root = some (leafOf (T.node i ks) nx) := by
      rw [hr1]; exact findT_appended_leaf (i := (leafOf (T.node i ks) nx).info) hP hN1
    -- step 2: its children below the new leaf
    obtain ⟨t2, ks1, hf2, hr2, hs2, hW2, hF2, hty2, hh2, hC2⟩ := ih1 nx (nx + 1) ca cb eA t1 _ hA
      (fun n hn => hall n (hksub n hn)) (hsibs _ hnmem) (fun x hx => hsibs x (hksub x hx))
      hW1 hF1 hty1 hh1 (Nat.lt_succ_self _) hleaf (by intro c hc; simp [leafOf] at hc) hC1
    have hroot2 : t2.root = modT p (fun l => l ++ [T.node (leafOf (T.node i ks) nx).info ks1]) t.root := by
      rw [hr2, hr1]
      exact modT_fill_new rfl (C01.Fresh.not_mem hF) (Nat.ne_of_lt hp)
    -- step 3: the following siblings below `p`
    have hP2 : findT p t2.root = some (T.node P.info (P.kids ++ [T.node (leafOf (T.node i ks) nx).info ks1])) := by
      rw [hroot2]; exact findT_modT_append hP
    obtain ⟨t3, ks2, hf3, hr3, hs3, hW3, hF3, hty3, hh3, hC3⟩ := ih2 p (nx + 1 + (flatL ks).length) cb c1 eB t2 _ hB
      (fun n hn => hall n (hrsub n hn)) htop.2 (fun x hx => hsibs x (hrsub x hx))
      hW2 hF2 hty2 hh2 (by omega) hP2
      (by
        intro c hc
        rw [T.kids_node, List.mem_append, List.mem_singleton] at hc
        rcases hc with hc | rfl
        · intro hm; exact hsib c hc (by rw [List.map_cons]; exact List.mem_cons_of_mem _ hm)
        · exact htop.1) hC2
    have hlen : nx + 1 + (flatL ks).length + (flatL rest).length = nx + (flatL (T.node i ks :: rest)).length := by
      rw [flatL_cons, flat_node, List.length_append, List.length_cons]; omega
    refine ⟨t3, T.node (leafOf (T.node i ks) nx).info ks1 :: ks2, ?_, ?_, ?_, hW3, hlen ▸ hF3, hty3, hh3, hC3⟩
    · rw [List.foldl_cons, hf1, List.foldl_append, hf2, hf3, hlen]
    · rw [hr3, hroot2, modT_modT_same]
      congr 1
      funext l
      simp
    · rw [shL_cons, shL_cons, hs3, shT_node, shT_node, hs2]
      rfl

/-- the empty tree of either class is well-formed, and 1 is a fresh id. -/
theorem WF_empty (typed : Bool) : WF ({ typed := typed } : Tree) :=
  WF.congr (t := ({} : Tree)) rfl rfl rfl C01.WF_init

theorem Fresh_empty (typed : Bool) : C01.Fresh ({ typed := typed } : Tree) 1 := by
  refine ⟨Nat.one_pos, ?_⟩
  intro x hx
  simp [mkRoot, flat_node] at hx
  subst hx
  exact Nat.one_pos

/-- **`fromList ∘ toList`** (core form, hypotheses per node as `NodeOK`). -/
theorem fromList_toList_core {typed : Bool} {strAtom : String → Atom} {deser : Fields → DRes}
    {ser : T → Fields → Option Fields} {isClone : T → Bool} {tops : List T} {rows : List (Nat × Payload)}
    (hnode : ∀ n ∈ flatL tops, NodeOK typed ser deser strAtom n)
    (htop : (tops.map T.did).Nodup) (hsib : ∀ x ∈ flatL tops, (x.kids.map T.did).Nodup)
    (hD : DataById (flatL tops))
    (h : toList typed {} ser isClone tops = some rows) :
    ∃ t', fromList typed strAtom deser rows = .ok t' ∧ shL t'.root.kids = shL tops ∧ WF t' ∧
      C01.Fresh t' (1 + (flatL tops).length) ∧ t'.typed = typed ∧ t'.hook = none := by
  rw [toList_eq] at h
  cases hp : payloads typed {} ser isClone (enumerate tops 0 1).1 [] with
  | none => rw [hp] at h; cases h
  | some x =>
    obtain ⟨es, c1⟩ := x
    rw [hp] at h
    simp only [Option.map_some, Option.some.injEq] at h
    subst h
    obtain ⟨t', ks', hf, hr, hs, hW, hF, hty, hh, _⟩ := build_forest (strAtom := strAtom) (deser := deser) hD
      tops 0 1 [] c1 es { typed := typed } (mkRoot []) hp (fun n hn => ⟨hn, hnode n hn⟩) htop hsib
      (WF_empty typed) (Fresh_empty typed) rfl rfl Nat.one_pos rfl (by intro c hc; simp [mkRoot] at hc)
      (by intro d cidx ck hm; simp at hm)
    refine ⟨t', ?_, ?_, hW, hF, hty, hh⟩
    · rw [fromList_eq_fold, ← idM_one, hf]; rfl
    · rw [hr]
      show shL (modT 0 (fun l => l ++ ks') (mkRoot [])).kids = shL tops
      rw [modT_root_append]
      exact hs

end Nutree.Ser
