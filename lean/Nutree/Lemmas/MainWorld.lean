/-
  Nutree.Lemmas.MainWorld — small facts about `Fresh`, `List.set` and the list of trees of a world,
  for the assembly of C01 over arbitrary histories (Properties/C01Main.lean).
-/
import Nutree.Model.World
import Nutree.Properties.C01
namespace Nutree
open T C01

/-- `Fresh` is monotone in the counter. -/
theorem C01.Fresh.mono {t : Tree} {n m : NodeId} (h : Fresh t n) (hnm : n ≤ m) : Fresh t m :=
  ⟨Nat.lt_of_lt_of_le h.1 hnm, fun x hx => Nat.lt_of_lt_of_le (h.2 x hx) hnm⟩

/-- `Fresh` only depends on the identities present: a tree whose identities are among those of a
fresh one is fresh. -/
theorem C01.Fresh.of_ids_subset {t t' : Tree} {n : NodeId} (h : Fresh t n)
    (hs : ∀ a, a ∈ (flat t'.root).map T.id → a ∈ (flat t.root).map T.id) : Fresh t' n := by
  refine ⟨h.1, fun x hx => ?_⟩
  obtain ⟨y, hy, hyx⟩ := mem_ids.1 (hs _ (mem_ids.2 ⟨x, hx, rfl⟩))
  rw [← hyx]; exact h.2 y hy

/-- a new, empty tree (any class, any hook) is well-formed and fresh for a positive counter. -/
theorem WF_emptyTree (typed : Bool) (hook : Option (List (Nat × Option DataId))) :
    WF ({ typed := typed, hook := hook } : Tree) :=
  WF.congr (t := {}) rfl rfl rfl WF_init

theorem fresh_emptyTree (typed : Bool) (hook : Option (List (Nat × Option DataId))) {next : NodeId}
    (hn : 0 < next) : Fresh ({ typed := typed, hook := hook } : Tree) next := by
  refine ⟨hn, fun x hx => ?_⟩
  have : x = mkRoot [] := by simpa [mkRoot, flat_node] using hx
  rw [this]; exact hn

/-- replacing one member by one that satisfies `P` keeps "all members satisfy `P`". -/
theorem forall_mem_set {α} {P : α → Prop} {l : List α} (i : Nat) {a : α}
    (hl : ∀ x ∈ l, P x) (ha : P a) : ∀ x ∈ l.set i a, P x := by
  intro x hx
  rcases List.mem_or_eq_of_mem_set hx with h | h
  · exact hl x h
  · rw [h]; exact ha

/-- writing back the member that is already there. -/
theorem set_of_getElem? {α} {l : List α} {i : Nat} {a : α} (h : l[i]? = some a) : l.set i a = l := by
  obtain ⟨hi, ha⟩ := List.getElem?_eq_some_iff.1 h
  rw [← ha]; exact List.set_getElem_self hi

/-- a batch of plain removals creates no identities. -/
theorem foldl_removeOne_Fresh : ∀ (rm : List NodeId) (t : Tree) (next : NodeId), Fresh t next →
    Fresh (rm.foldl (fun t n => t.removeOne n) t) next
  | [], _, _, h => h
  | n :: rm, t, next, h => by
    rw [List.foldl_cons]
    exact foldl_removeOne_Fresh rm _ next (remove_Fresh t n next h).1

/-- the in-place filter creates no identities (for every predicate). -/
theorem filterInPlace_Fresh (t : Tree) (start next : NodeId) (v : T → Flt.Verdict) (h : Fresh t next) :
    Fresh (Flt.filterInPlace t start v).1 next := by
  unfold Flt.filterInPlace
  cases findT start t.root with
  | none => exact h
  | some x => exact foldl_removeOne_Fresh _ t next h

/-- a metadata edit creates no identities. -/
theorem setMeta_Fresh {t : Tree} {next : NodeId} (h : WF t) (hf : Fresh t next) (n : NodeId)
    (m : Option (List (String × String))) :
    Fresh { t with root := setInfoT n (fun inf => { inf with nmeta := m }) t.root } next := by
  refine hf.of_ids_subset (fun a ha => ?_)
  have : (flat (setInfoT n (fun inf => { inf with nmeta := m }) t.root)).map T.id = (flat t.root).map T.id :=
    ids_setInfoT (f := fun inf => { inf with nmeta := m }) (fun _ => rfl) h.idsN
  rw [← this]; exact ha

end Nutree
