/-
Facts about `sortByName` (stable merge sort by name) used by C19.
-/
import Nutree.Model.Fs
namespace Nutree.Fs

theorem leName_trans (a b c : FNode) : leName a b = true → leName b c = true → leName a c = true := by
  simp only [leName, decide_eq_true_eq]; exact String.le_trans

theorem leName_total (a b : FNode) : (leName a b || leName b a) = true := by
  simp only [leName, Bool.or_eq_true, decide_eq_true_eq]; exact String.le_total _ _

theorem sortByName_perm (l : List FNode) : (sortByName l).Perm l := List.mergeSort_perm l leName

theorem mem_sortByName {l : List FNode} {a : FNode} : a ∈ sortByName l ↔ a ∈ l :=
  (sortByName_perm l).mem_iff

theorem sortByName_pairwise (l : List FNode) :
    (sortByName l).Pairwise (fun a b => a.name ≤ b.name) := by
  have h := List.pairwise_mergeSort (le := leName) leName_trans leName_total l
  exact h.imp (fun h => by simpa [leName] using h)

theorem nodup_map_of_perm {l l' : List FNode} (h : l.Perm l') :
    (l.map FNode.name).Nodup → (l'.map FNode.name).Nodup :=
  fun hn => ((h.map FNode.name).nodup_iff).1 hn

theorem sortByName_pairwise_lt (l : List FNode) (hn : (l.map FNode.name).Nodup) :
    (sortByName l).Pairwise (fun a b => a.name < b.name) := by
  have h1 := sortByName_pairwise l
  have h2 : ((sortByName l).map FNode.name).Nodup := nodup_map_of_perm (sortByName_perm l).symm hn
  rw [List.Nodup, List.pairwise_map] at h2
  refine (h1.and h2).imp ?_
  intro a b ⟨hle, hne⟩
  exact Decidable.byContradiction fun hlt => hne (String.le_antisymm hle (String.not_lt.1 hlt))

theorem eq_of_name_eq {l : List FNode} (hn : (l.map FNode.name).Nodup) :
    ∀ {a b}, a ∈ l → b ∈ l → a.name = b.name → a = b := by
  induction l with
  | nil => intro a b ha; cases ha
  | cons x l ih =>
    rw [List.map_cons, List.nodup_cons] at hn
    intro a b ha hb hab
    rcases List.mem_cons.1 ha with rfl | ha' <;> rcases List.mem_cons.1 hb with rfl | hb'
    · rfl
    · exact absurd (hab ▸ List.mem_map_of_mem hb') hn.1
    · exact absurd (hab ▸ List.mem_map_of_mem ha') hn.1
    · exact ih hn.2 ha' hb' hab

/-- With distinct names the sorted list depends only on the set of elements. -/
theorem sortByName_eq_of_perm {l l' : List FNode} (h : l.Perm l') (hn : (l.map FNode.name).Nodup) :
    sortByName l = sortByName l' := by
  refine List.Perm.eq_of_pairwise (le := fun a b => a.name ≤ b.name) ?_ (sortByName_pairwise l)
    (sortByName_pairwise l') ((sortByName_perm l).trans (h.trans (sortByName_perm l').symm))
  intro a b ha hb hab hba
  exact eq_of_name_eq hn (mem_sortByName.1 ha) (h.mem_iff.2 (mem_sortByName.1 hb))
    (String.le_antisymm hab hba)

/-! `sortByName` = the structurally recursive stable insertion sort -/

theorem insertByName_append (a : FNode) (l₁ l₂ : List FNode)
    (h1 : ∀ b ∈ l₁, leName a b = false) (h2 : ∀ b ∈ l₂, leName a b = true) :
    insertByName a (l₁ ++ l₂) = l₁ ++ a :: l₂ := by
  induction l₁ with
  | nil =>
    cases l₂ with
    | nil => rfl
    | cons b l => simp [insertByName, h2 b (by simp)]
  | cons x l ih =>
    simp only [List.cons_append, insertByName, h1 x (by simp), Bool.false_eq_true, if_false]
    rw [ih (fun b hb => h1 b (List.mem_cons_of_mem _ hb))]

theorem sortByName_eq_isort (l : List FNode) : sortByName l = isortByName l := by
  induction l with
  | nil => simp [sortByName, isortByName]
  | cons a l ih =>
    obtain ⟨l₁, l₂, h1, h2, h3⟩ := List.mergeSort_cons (le := leName) leName_trans leName_total a l
    have hp := List.pairwise_mergeSort (le := leName) leName_trans leName_total (a :: l)
    rw [h1] at hp
    have hl2 : ∀ b ∈ l₂, leName a b = true := by
      have := (List.pairwise_append.1 hp).2.1
      exact fun b hb => (List.pairwise_cons.1 this).1 b hb
    unfold sortByName at ih ⊢
    rw [isortByName, ← ih, h1, h2]
    exact (insertByName_append a l₁ l₂ (fun b hb => by simpa using h3 b hb) hl2).symm

theorem sortByName_eq_isort_fun : sortByName = isortByName := funext sortByName_eq_isort

end Nutree.Fs
