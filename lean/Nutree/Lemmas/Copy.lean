/-
  Nutree.Lemmas.Copy — lemma library for the copying operations (`_add_from`, C07).

  * `normKind`, `relabelT` / `relabelL` — the copy of a source forest as an explicit function:
    fresh identities in creation order (pre-order), same data objects and data ids, kinds
    normalised to the target tree's class, no metadata.
  * `Src`, `SrcT` — the source forest has sibling-unique data ids at every level.
  * `modT` algebra: `modT_modT_same`, `modT_append_leaf_fill`, `modT_congr`,
    `findT_modT_append`.
  * `addData_succeeds` — the converse of `addData_ok`.
  * `addFromT_spec` / `addFromL_spec` — **the characterisation of `_add_from`**: it never fails on a
    sibling-unique source whose top-level data ids do not collide with the target's children, keeps
    the state well-formed, consumes `sizeL src` identities and
    `t'.root = modT target (· ++ relabelL t.typed next src) t.root`.
  * `Op.target` — the tree index an operation may replace.
-/
import Nutree.Lemmas.WFAdd
import Nutree.Properties.C01
import Nutree.Model.World
namespace Nutree
open T C10 Nutree.C01

/-! ## 1. `relabel` -/

/-- the kind stored by `addData` in a tree of class `typed` for a requested kind `k`. -/
def normKind (typed : Bool) (k : Option String) : Option String :=
  if typed then some (k.getD "child") else none

mutual
/-- the copy of a source branch made by `_add_from` in a tree of class `typed`, the first fresh
identity being `next`: identities in pre-order, data object and data id of the source, kind
normalised, no metadata. -/
def relabelT (typed : Bool) (next : NodeId) : T → T
  | .node i ks => .node { id := next, data := i.data, did := i.did, kind := normKind typed i.kind }
      (relabelL typed (next + 1) ks)
def relabelL (typed : Bool) (next : NodeId) : List T → List T
  | [] => []
  | c :: cs => relabelT typed next c :: relabelL typed (next + size c) cs
end

@[simp] theorem relabelL_nil (typed : Bool) (next : NodeId) : relabelL typed next [] = [] := by
  simp [relabelL]
theorem relabelL_cons (typed : Bool) (next : NodeId) (c : T) (cs : List T) :
    relabelL typed next (c :: cs) = relabelT typed next c :: relabelL typed (next + size c) cs := by
  simp [relabelL]
theorem relabelT_node (typed : Bool) (next : NodeId) (i : Info) (ks : List T) :
    relabelT typed next (.node i ks) =
      .node { id := next, data := i.data, did := i.did, kind := normKind typed i.kind }
        (relabelL typed (next + 1) ks) := by
  simp [relabelT]

@[simp] theorem relabelT_id (typed : Bool) (next : NodeId) (c : T) : (relabelT typed next c).id = next := by
  cases c; rw [relabelT_node]; rfl
@[simp] theorem relabelT_did (typed : Bool) (next : NodeId) (c : T) : (relabelT typed next c).did = c.did := by
  cases c; rw [relabelT_node]; rfl
@[simp] theorem relabelT_data (typed : Bool) (next : NodeId) (c : T) : (relabelT typed next c).data = c.data := by
  cases c; rw [relabelT_node]; rfl
@[simp] theorem relabelT_kind (typed : Bool) (next : NodeId) (c : T) :
    (relabelT typed next c).kind = normKind typed c.kind := by
  cases c; rw [relabelT_node]; rfl
@[simp] theorem relabelT_nmeta (typed : Bool) (next : NodeId) (c : T) : (relabelT typed next c).info.nmeta = none := by
  cases c; rw [relabelT_node]; rfl
theorem relabelT_kids (typed : Bool) (next : NodeId) (c : T) :
    (relabelT typed next c).kids = relabelL typed (next + 1) c.kids := by
  cases c; rw [relabelT_node]; rfl

@[simp] theorem sizeL_nil : sizeL [] = 0 := by simp [sizeL]
theorem sizeL_cons (c : T) (cs : List T) : sizeL (c :: cs) = size c + sizeL cs := by simp [sizeL]
theorem size_node (i : Info) (ks : List T) : size (.node i ks) = 1 + sizeL ks := by simp [size]
theorem sizeL_append (a b : List T) : sizeL (a ++ b) = sizeL a + sizeL b := by
  induction a with
  | nil => simp
  | cons c cs ih => rw [List.cons_append, sizeL_cons, sizeL_cons, ih, Nat.add_assoc]

theorem relabelL_append (typed : Bool) (next : NodeId) (a b : List T) :
    relabelL typed next (a ++ b) = relabelL typed next a ++ relabelL typed (next + sizeL a) b := by
  induction a generalizing next with
  | nil => simp
  | cons c cs ih =>
    rw [List.cons_append, relabelL_cons, relabelL_cons, ih, sizeL_cons, List.cons_append, Nat.add_assoc]

theorem relabelL_length (typed : Bool) (next : NodeId) (l : List T) :
    (relabelL typed next l).length = l.length := by
  induction l generalizing next with
  | nil => simp
  | cons c cs ih => rw [relabelL_cons, List.length_cons, List.length_cons, ih]

theorem relabelL_map_did (typed : Bool) (next : NodeId) (l : List T) :
    (relabelL typed next l).map T.did = l.map T.did := by
  induction l generalizing next with
  | nil => simp
  | cons c cs ih => rw [relabelL_cons, List.map_cons, List.map_cons, ih, relabelT_did]

theorem relabelL_map_data (typed : Bool) (next : NodeId) (l : List T) :
    (relabelL typed next l).map T.data = l.map T.data := by
  induction l generalizing next with
  | nil => simp
  | cons c cs ih => rw [relabelL_cons, List.map_cons, List.map_cons, ih, relabelT_data]

/-! ## 2. sibling-unique sources -/

/-- every node of the branch has children with pairwise distinct data ids. -/
def SrcT (c : T) : Prop := ∀ x ∈ flat c, (x.kids.map T.did).Nodup

/-- the source forest has sibling-unique data ids at every level. -/
def Src (s : List T) : Prop := (∀ x ∈ flatL s, (x.kids.map T.did).Nodup) ∧ (s.map T.did).Nodup

theorem Src.nil : Src [] := ⟨by simp, by simp⟩

theorem Src.cons_iff {c : T} {cs : List T} :
    Src (c :: cs) ↔ SrcT c ∧ Src cs ∧ ∀ s ∈ cs, c.did ≠ s.did := by
  unfold Src SrcT
  rw [flatL_cons, List.map_cons, List.nodup_cons]
  constructor
  · rintro ⟨h1, h2, h3⟩
    refine ⟨fun x hx => h1 x (List.mem_append_left _ hx), ⟨fun x hx => h1 x (List.mem_append_right _ hx), h3⟩, ?_⟩
    intro s hs e
    exact h2 (List.mem_map.2 ⟨s, hs, e.symm⟩)
  · rintro ⟨h1, ⟨h2, h3⟩, h4⟩
    refine ⟨?_, ?_, h3⟩
    · intro x hx
      rcases List.mem_append.1 hx with hx | hx
      · exact h1 x hx
      · exact h2 x hx
    · intro hm
      obtain ⟨s, hs, e⟩ := List.mem_map.1 hm
      exact h4 s hs e.symm

theorem SrcT.kids {c : T} (h : SrcT c) : Src c.kids :=
  ⟨fun x hx => h x (mem_flat_of_mem_flatL_kids hx), h c (self_mem_flat c)⟩

theorem Src.of_kids {c : T} (h : Src c.kids) : SrcT c := by
  intro x hx
  rw [flat_eq, List.mem_cons] at hx
  rcases hx with rfl | hx
  · exact h.2
  · exact h.1 x hx

theorem Src.singleton_iff {c : T} : Src [c] ↔ SrcT c := by
  rw [Src.cons_iff]
  exact ⟨fun h => h.1, fun h => ⟨h, Src.nil, by simp⟩⟩

theorem Src.mem {s : List T} (h : Src s) {c : T} (hc : c ∈ s) : SrcT c :=
  fun x hx => h.1 x (mem_flatL.2 ⟨c, hc, hx⟩)

theorem Src.append_left {a b : List T} (h : Src (a ++ b)) : Src a := by
  refine ⟨fun x hx => h.1 x ?_, ?_⟩
  · rw [flatL_append]; exact List.mem_append_left _ hx
  · have := h.2; rw [List.map_append] at this; exact (List.nodup_append.1 this).1

/-- a well-formed tree is a sibling-unique source (any of its branches is). -/
theorem WF.srcT {t : Tree} (h : WF t) {n : T} (hn : n ∈ flat t.root) : SrcT n :=
  fun x hx => h.sib x (mem_flat_trans hx hn)

theorem WF.src_kids {t : Tree} (h : WF t) {n : T} (hn : n ∈ flat t.root) : Src n.kids :=
  (h.srcT hn).kids

/-! ## 3. `modT` algebra -/

/-- two edits of the same child list compose. -/
theorem modT_modT_same (p : NodeId) (f g : List T → List T) :
    ∀ root : T, modT p g (modT p f root) = modT p (fun l => g (f l)) root := by
  intro root
  induction root using T.ind with
  | node i ks ih =>
    by_cases hid : i.id = p
    · rw [modT_node, if_pos hid, modT_node, if_pos hid, modT_node, if_pos hid]
    · rw [modT_node, if_neg hid, modT_node, if_neg hid, modT_node, if_neg hid, List.map_map]
      congr 1
      exact List.map_congr_left (fun c hc => ih c hc)

/-- only the value of `g` on the child lists of the nodes with identity `p` matters. -/
theorem modT_congr {p : NodeId} {g g' : List T → List T} :
    ∀ {root : T}, (∀ q ∈ flat root, q.id = p → g q.kids = g' q.kids) → modT p g root = modT p g' root := by
  intro root
  induction root using T.ind with
  | node i ks ih =>
    intro h
    by_cases hid : i.id = p
    · rw [modT_node, if_pos hid, modT_node, if_pos hid]
      have := h _ (self_mem_flat _) hid
      rw [T.kids_node] at this
      rw [this]
    · rw [modT_node, if_neg hid, modT_node, if_neg hid]
      congr 1
      exact List.map_congr_left (fun c hc => ih c hc (fun q hq => h q (mem_flat_trans hq (mem_flat_of_mem_kids hc))))

theorem modT_congr_of {p : NodeId} {g g' : List T → List T} {root x : T} (hN : C10.IdsNodup root)
    (hx : findT p root = some x) (h : g x.kids = g' x.kids) : modT p g root = modT p g' root := by
  refine modT_congr (fun q hq hqp => ?_)
  rw [eq_of_id_eq hN hq (findT_some_mem hx) (hqp.trans (findT_some_id hx).symm)]
  exact h

/-- appending a leaf with a new identity `n` below `p` and then editing the children of `n` is
appending the filled node. -/
theorem modT_append_leaf_fill {p : NodeId} {i : Info} {g : List T → List T} :
    ∀ {root : T}, i.id ∉ (flat root).map T.id →
      modT i.id g (modT p (fun l => l ++ [T.node i []]) root) = modT p (fun l => l ++ [T.node i (g [])]) root := by
  intro root
  induction root using T.ind with
  | node j ks ih =>
    intro h
    rw [ids_eq, List.mem_cons, not_or] at h
    have hj : j.id ≠ i.id := fun e => h.1 e.symm
    have hks : i.id ∉ idsL ks := h.2
    by_cases hid : j.id = p
    · rw [modT_node, if_pos hid, modT_node, if_neg hj, modT_node, if_pos hid, List.map_append,
        map_modT_of_not_mem hks, List.map_cons, List.map_nil, modT_node, if_pos rfl]
    · rw [modT_node, if_neg hid, modT_node, if_neg hj, modT_node, if_neg hid, List.map_map]
      congr 1
      refine List.map_congr_left (fun c hc => ih c hc ?_)
      intro hm
      obtain ⟨x, hx, hxn⟩ := mem_ids.1 hm
      exact hks (mem_idsL.2 ⟨x, mem_flatL.2 ⟨c, hc, hx⟩, hxn⟩)

/-- every old node survives an append-edit as its `modT` image. -/
theorem modT_append_mem_flat {p : NodeId} {R : List T} {y : T} :
    ∀ {root : T}, C10.IdsNodup root → y ∈ flat root →
      modT p (fun l => l ++ R) y ∈ flat (modT p (fun l => l ++ R) root) := by
  intro root
  induction root using T.ind with
  | node i ks ih =>
    intro hN hy
    rw [flat_node, List.mem_cons] at hy
    rcases hy with rfl | hy
    · exact self_mem_flat _
    · obtain ⟨c, hc, hyc⟩ := mem_flatL.1 hy
      by_cases hid : i.id = p
      · have hp : p ∉ idsL ks := hid ▸ id_not_mem_idsL_kids hN
        have hpy : p ∉ (flat y).map T.id := by
          intro hm
          obtain ⟨z, hz, hzp⟩ := mem_ids.1 hm
          exact hp (mem_idsL.2 ⟨z, mem_flatL.2 ⟨c, hc, mem_flat_trans hz hyc⟩, hzp⟩)
        rw [modT_of_not_mem hpy, modT_node, if_pos hid, flat_node, flatL_append]
        exact List.mem_cons_of_mem _ (List.mem_append_left _ hy)
      · rw [modT_node, if_neg hid, flat_node]
        refine List.mem_cons_of_mem _ (mem_flatL.2 ⟨modT p _ c, List.mem_map_of_mem hc, ?_⟩)
        exact ih c hc (idsNodup_of_mem (idsNodupL_kids hN) hc) hyc

/-- **frame for an append-edit**: if both trees have distinct identities, every old node is found
in the new tree under the same identity as its `modT` image. -/
theorem findT_modT_append {p m : NodeId} {R : List T} {root y : T} (hN : C10.IdsNodup root)
    (hN' : C10.IdsNodup (modT p (fun l => l ++ R) root)) (hy : findT m root = some y) :
    findT m (modT p (fun l => l ++ R) root) = some (modT p (fun l => l ++ R) y) := by
  obtain ⟨h1, h2⟩ := findT_some hy
  exact (findT_eq_some_iff hN').2 ⟨modT_append_mem_flat hN h1, by rw [modT_id]; exact h2⟩

/-! ## 4. `addData` succeeds -/

/-- the converse of `addData_ok`: with an explicit data id, an accepted `before`, and no child of
the target carrying the data id, `addData` succeeds (well-formed state). -/
theorem addData_succeeds {t : Tree} (h : WF t) {next parent : NodeId} {p : T} {a : Atom} {before : Before}
    {ins : List T → T → List T} {did : DataId} {kind : Option String}
    (hp : findT parent t.root = some p)
    (hins : insertPosition p.kids (t.childrenNone parent p) before = .ok ins)
    (hsib : ∀ c ∈ p.kids, c.did ≠ did) :
    ∃ t1, t.addData next parent a before (some did) kind = .ok t1 := by
  have hreg : ∃ t1, t.register parent next did = .ok t1 := by
    cases hr : t.register parent next did with
    | ok t1 => exact ⟨t1, rfl⟩
    | error e =>
      cases register_error hr
      obtain ⟨c, hc, hcd⟩ := (register_unique_iff_sibling h hp).1 hr
      exact absurd hcd (hsib c hc)
  obtain ⟨t1, hreg⟩ := hreg
  unfold Tree.addData
  simp only [hp, hins, hreg]
  exact ⟨_, rfl⟩

/-- fields that `addData` never touches. -/
theorem addData_fields {t t' : Tree} {next parent : NodeId} {a : Atom} {before : Before}
    {did? : Option DataId} {kind : Option String}
    (hr : t.addData next parent a before did? kind = .ok t') :
    t'.typed = t.typed ∧ t'.hook = t.hook ∧ t'.rootNone = t.rootNone := by
  obtain ⟨p, ins, did, t1, _, _, _, hreg, rfl⟩ := addData_ok hr
  refine ⟨?_, ?_, ?_⟩
  · exact (register_typed hreg : t1.typed = t.typed)
  · exact (register_hook hreg : t1.hook = t.hook)
  · exact (register_rootNone hreg : t1.rootNone = t.rootNone)

/-- an edit that does nothing. -/
theorem modT_id_of {p : NodeId} {g : List T → List T} (hg : ∀ l, g l = l) : ∀ root : T, modT p g root = root := by
  intro root
  induction root using T.ind with
  | node i ks ih =>
    by_cases hid : i.id = p
    · rw [modT_node, if_pos hid, hg]
    · rw [modT_node, if_neg hid]
      congr 1
      exact (List.map_congr_left (fun c hc => ih c hc)).trans (List.map_id' ks)

/-! ## 5. the characterisation of `_add_from` -/

/-- what `_add_from` achieves: no error, `n` identities consumed, a well-formed state in which the
forest `R` has been appended to the children of `target`, everything else untouched. -/
structure AddFromRes (t : Tree) (next target : NodeId) (R : List T) (n : Nat)
    (r : Tree × NodeId × Option Err) : Prop where
  err : r.2.2 = none
  nextEq : r.2.1 = next + n
  wf : WF r.1
  fresh : Fresh r.1 (next + n)
  root : r.1.root = modT target (fun l => l ++ R) t.root
  byId : r.1.byId = t.byId ++ idsL R
  typed : r.1.typed = t.typed
  hook : r.1.hook = t.hook
  rootNone : r.1.rootNone = t.rootNone

theorem insertPosition_none (ks : List T) (b : Bool) :
    insertPosition ks b .none = .ok (fun l x => l ++ [x]) := rfl

/-- effect of a successful append-`addData` with explicit data id, in terms of `relabel`'s record. -/
theorem addData_append_ok {t t1 : Tree} {next target : NodeId} {i : Info}
    (hr : t.addData next target i.data .none (some i.did) i.kind = .ok t1) :
    t1.root = modT target (fun l => l ++ [T.node { id := next, data := i.data, did := i.did, kind := normKind t.typed i.kind } []]) t.root ∧
      t1.byId = t.byId ++ [next] := by
  obtain ⟨p, ins, did, t0, hp, hins, hdid, hreg, rfl⟩ := addData_ok hr
  rw [insertPosition_none] at hins
  cases hins
  rcases hdid with hdid | ⟨hdid, _⟩
  · cases hdid
    refine ⟨?_, ?_⟩
    · show modT target _ t0.root = _
      rw [register_root hreg]; rfl
    · exact (register_byId hreg : t0.byId = t.byId ++ [next])
  · cases hdid

/-- list step of the characterisation: if every member of `src` is copied faithfully, so is `src`. -/
theorem addFromL_of_addFromT {src : List T}
    (hT : ∀ c ∈ src, ∀ (t : Tree) (next target : NodeId) (tg : T), WF t → Fresh t next →
      findT target t.root = some tg → (∀ k ∈ tg.kids, k.did ≠ c.did) → SrcT c →
      AddFromRes t next target [relabelT t.typed next c] (size c) (t.addFromT next target c)) :
    ∀ (t : Tree) (next target : NodeId) (tg : T), WF t → Fresh t next →
      findT target t.root = some tg → (∀ k ∈ tg.kids, ∀ s ∈ src, k.did ≠ s.did) → Src src →
      AddFromRes t next target (relabelL t.typed next src) (sizeL src) (t.addFromL next target src) := by
  induction src with
  | nil =>
    intro t next target tg h hf _ _ _
    rw [Tree.addFromL]
    exact ⟨rfl, rfl, h, hf, by rw [relabelL_nil]; exact (modT_id_of (fun l => List.append_nil l) _).symm,
      by simp, rfl, rfl, rfl⟩
  | cons c cs ih =>
    intro t next target tg h hf htg hdis hs
    obtain ⟨hsc, hscs, hccs⟩ := Src.cons_iff.1 hs
    have h1 := hT c (by simp) t next target tg h hf htg (fun k hk => hdis k hk c (by simp)) hsc
    rw [Tree.addFromL]
    rcases hr : t.addFromT next target c with ⟨t1, n1, e⟩
    rw [hr] at h1
    have he : e = none := h1.err
    have hn : n1 = next + size c := h1.nextEq
    subst he; subst hn
    simp only
    have htg1 : findT target t1.root = some (.node tg.info (tg.kids ++ [relabelT t.typed next c])) := by
      rw [h1.root]; exact findT_modT_self_of htg
    have h2 := ih (fun c' hc' => hT c' (List.mem_cons_of_mem _ hc')) t1 (next + size c) target _ h1.wf h1.fresh htg1
      (by
        intro k hk s hs'
        rw [T.kids_node, List.mem_append, List.mem_singleton] at hk
        rcases hk with hk | rfl
        · exact hdis k hk s (List.mem_cons_of_mem _ hs')
        · rw [relabelT_did]; exact hccs s hs') hscs
    have htyped : t1.typed = t.typed := h1.typed
    rw [htyped] at h2
    refine ⟨h2.err, by rw [h2.nextEq, sizeL_cons, Nat.add_assoc], h2.wf, by rw [sizeL_cons, ← Nat.add_assoc]; exact h2.fresh,
      ?_, ?_, h2.typed.trans h1.typed, h2.hook.trans h1.hook, h2.rootNone.trans h1.rootNone⟩
    · rw [h2.root, h1.root, modT_modT_same, relabelL_cons]
      refine modT_congr (fun q _ _ => ?_)
      simp
    · rw [h2.byId, h1.byId, relabelL_cons, idsL_cons, idsL_cons, idsL_nil, List.append_nil, List.append_assoc]

/-- **`_add_from` of one source branch.** -/
theorem addFromT_spec : ∀ (c : T) (t : Tree) (next target : NodeId) (tg : T), WF t → Fresh t next →
    findT target t.root = some tg → (∀ k ∈ tg.kids, k.did ≠ c.did) → SrcT c →
    AddFromRes t next target [relabelT t.typed next c] (size c) (t.addFromT next target c) := by
  intro c
  induction c using T.ind with
  | node i ks ih =>
    intro t next target tg h hf htg hdis hs
    obtain ⟨t1, hadd⟩ := addData_succeeds (next := next) (a := i.data) (did := i.did) (kind := i.kind) h htg
      (insertPosition_none _ _) hdis
    rw [Tree.addFromT]
    simp only [hadd]
    obtain ⟨hwf1, hf1⟩ := addData_WF t t1 next target i.data .none (some i.did) i.kind h hf hadd
    obtain ⟨hroot1, hbyId1⟩ := addData_append_ok hadd
    obtain ⟨hty1, hhook1, hrn1⟩ := addData_fields hadd
    have hleaf : findT next t1.root = some (T.node { id := next, data := i.data, did := i.did, kind := normKind t.typed i.kind } []) := by
      refine (findT_eq_some_iff hwf1.idsN).2 ⟨?_, rfl⟩
      rw [hroot1]
      refine mem_flat_modT_new htg ?_
      rw [flatL_append]
      exact List.mem_append_right _ (by simp [flat_node])
    have h2 := addFromL_of_addFromT ih t1 (next + 1) next _ hwf1 hf1 hleaf
      (by intro k hk; simp at hk) (SrcT.kids hs)
    rw [hty1] at h2
    refine ⟨h2.err, by rw [h2.nextEq, size_node, Nat.add_assoc], h2.wf, by rw [size_node, ← Nat.add_assoc]; exact h2.fresh,
      ?_, ?_, h2.typed.trans hty1, h2.hook.trans hhook1, h2.rootNone.trans hrn1⟩
    · rw [h2.root, hroot1, relabelT_node]
      have := modT_append_leaf_fill (p := target)
        (i := { id := next, data := i.data, did := i.did, kind := normKind t.typed i.kind })
        (g := fun l => l ++ relabelL t.typed (next + 1) ks) (root := t.root) hf.not_mem
      rw [List.nil_append] at this
      exact this
    · rw [h2.byId, hbyId1, relabelT_node, idsL_cons, idsL_nil, List.append_nil, ids_eq, List.append_assoc]
      rfl

/-- **`_add_from` of a source forest** (`Tree.addFromL`): on a sibling-unique source whose
top-level data ids do not collide with the children of `target` it never fails, keeps the state
well-formed, consumes `sizeL src` identities, and appends `relabelL t.typed next src` to the
children of `target`. -/
theorem addFromL_spec (src : List T) (t : Tree) (next target : NodeId) (tg : T) (h : WF t) (hf : Fresh t next)
    (htg : findT target t.root = some tg) (hdis : ∀ k ∈ tg.kids, ∀ s ∈ src, k.did ≠ s.did) (hs : Src src) :
    AddFromRes t next target (relabelL t.typed next src) (sizeL src) (t.addFromL next target src) :=
  addFromL_of_addFromT (fun c _ => addFromT_spec c) t next target tg h hf htg hdis hs


/-! ## 6. what `relabel` keeps: identities, shape, payload -/

theorem ids_relabelL_of {typed : Bool} {l : List T}
    (h : ∀ c ∈ l, ∀ n, (flat (relabelT typed n c)).map T.id = List.range' n (size c)) :
    ∀ n, idsL (relabelL typed n l) = List.range' n (sizeL l) := by
  induction l with
  | nil => intro n; simp
  | cons c cs ih =>
    intro n
    rw [relabelL_cons, idsL_cons, h c (by simp), ih (fun c' hc' => h c' (List.mem_cons_of_mem _ hc')),
      sizeL_cons, List.range'_append_1]

/-- the copy of a branch carries the identities `next, next+1, …` in pre-order. -/
theorem ids_relabelT (typed : Bool) : ∀ (c : T) (n : NodeId),
    (flat (relabelT typed n c)).map T.id = List.range' n (size c) := by
  intro c
  induction c using T.ind with
  | node i ks ih =>
    intro n
    rw [relabelT_node, ids_eq, T.kids_node, ids_relabelL_of ih, size_node, Nat.add_comm 1, List.range'_succ]
    rfl

/-- the copy of a forest carries the identities `next, …, next + sizeL src - 1` in pre-order. -/
theorem ids_relabelL (typed : Bool) (l : List T) (n : NodeId) :
    idsL (relabelL typed n l) = List.range' n (sizeL l) :=
  ids_relabelL_of (fun c _ => ids_relabelT typed c) n

theorem sizeL_relabelL_of {typed : Bool} {l : List T}
    (h : ∀ c ∈ l, ∀ n, size (relabelT typed n c) = size c) : ∀ n, sizeL (relabelL typed n l) = sizeL l := by
  induction l with
  | nil => intro n; simp
  | cons c cs ih =>
    intro n
    rw [relabelL_cons, sizeL_cons, sizeL_cons, h c (by simp), ih (fun c' hc' => h c' (List.mem_cons_of_mem _ hc'))]

theorem size_relabelT (typed : Bool) : ∀ (c : T) (n : NodeId), size (relabelT typed n c) = size c := by
  intro c
  induction c using T.ind with
  | node i ks ih => intro n; rw [relabelT_node, size_node, size_node, sizeL_relabelL_of ih]

/-- the copy has as many nodes as the source. -/
theorem sizeL_relabelL (typed : Bool) (l : List T) (n : NodeId) : sizeL (relabelL typed n l) = sizeL l :=
  sizeL_relabelL_of (fun c _ => size_relabelT typed c) n

/-- all identities of the copy are fresh: in `[next, next + sizeL src)`. -/
theorem relabelL_id_bounds {typed : Bool} {l : List T} {n : NodeId} {y : T}
    (hy : y ∈ flatL (relabelL typed n l)) : n ≤ y.id ∧ y.id < n + sizeL l := by
  have : y.id ∈ idsL (relabelL typed n l) := mem_idsL.2 ⟨y, hy, rfl⟩
  rw [ids_relabelL] at this
  exact List.mem_range'_1.1 this

mutual
/-- the source with the kinds normalised to the class of the target tree. -/
def normKindsT (typed : Bool) : T → T
  | .node i ks => .node { i with kind := normKind typed i.kind } (normKindsL typed ks)
def normKindsL (typed : Bool) : List T → List T
  | [] => []
  | c :: cs => normKindsT typed c :: normKindsL typed cs
end

@[simp] theorem normKindsL_nil (typed : Bool) : normKindsL typed [] = [] := by simp [normKindsL]
theorem normKindsL_cons (typed : Bool) (c : T) (cs : List T) :
    normKindsL typed (c :: cs) = normKindsT typed c :: normKindsL typed cs := by simp [normKindsL]
theorem normKindsT_node (typed : Bool) (i : Info) (ks : List T) :
    normKindsT typed (.node i ks) = .node { i with kind := normKind typed i.kind } (normKindsL typed ks) := by
  simp [normKindsT]
theorem normKindsL_eq_map (typed : Bool) : ∀ l : List T, normKindsL typed l = l.map (normKindsT typed)
  | [] => by simp
  | c :: cs => by rw [normKindsL_cons, List.map_cons, normKindsL_eq_map typed cs]

/-- the kinds of the forest are those a tree of class `typed` stores: `some _` in a typed tree,
`none` in a plain one. -/
def KindsOK (typed : Bool) (l : List T) : Prop := ∀ x ∈ flatL l, normKind typed x.kind = x.kind

theorem normKind_idem (typed : Bool) (k : Option String) : normKind typed (normKind typed k) = normKind typed k := by
  unfold normKind; cases typed <;> simp

theorem KindsOK.cons_iff {typed : Bool} {c : T} {cs : List T} :
    KindsOK typed (c :: cs) ↔ KindsOK typed [c] ∧ KindsOK typed cs := by
  unfold KindsOK
  simp only [flatL_cons, flatL_nil, List.append_nil, List.mem_append]
  exact ⟨fun h => ⟨fun x hx => h x (Or.inl hx), fun x hx => h x (Or.inr hx)⟩,
    fun h x hx => hx.elim (h.1 x) (h.2 x)⟩

theorem KindsOK.node_iff {typed : Bool} {i : Info} {ks : List T} :
    KindsOK typed [T.node i ks] ↔ normKind typed i.kind = i.kind ∧ KindsOK typed ks := by
  unfold KindsOK
  simp only [flatL_cons, flatL_nil, List.append_nil, flat_node, List.mem_cons]
  exact ⟨fun h => ⟨h _ (Or.inl rfl), fun x hx => h x (Or.inr hx)⟩,
    fun h x hx => by rcases hx with rfl | hx; exact h.1; exact h.2 x hx⟩

theorem normKindsL_of_ok_of {typed : Bool} {l : List T}
    (h : ∀ c ∈ l, KindsOK typed [c] → normKindsT typed c = c) : KindsOK typed l → normKindsL typed l = l := by
  induction l with
  | nil => intro _; simp
  | cons c cs ih =>
    intro hk
    obtain ⟨h1, h2⟩ := KindsOK.cons_iff.1 hk
    rw [normKindsL_cons, h c (by simp) h1, ih (fun c' hc' => h c' (List.mem_cons_of_mem _ hc')) h2]

theorem normKindsT_of_ok {typed : Bool} : ∀ c : T, KindsOK typed [c] → normKindsT typed c = c := by
  intro c
  induction c using T.ind with
  | node i ks ih =>
    intro h
    obtain ⟨h1, h2⟩ := KindsOK.node_iff.1 h
    rw [normKindsT_node, normKindsL_of_ok_of ih h2, h1]

/-- normalising does nothing on a forest whose kinds already fit the class. -/
theorem normKindsL_of_ok {typed : Bool} {l : List T} (h : KindsOK typed l) : normKindsL typed l = l :=
  normKindsL_of_ok_of (fun c _ => normKindsT_of_ok c) h

open Flt.Spec in
theorem shL_relabelL_of {typed : Bool} {l : List T}
    (h : ∀ c ∈ l, ∀ n, shT (relabelT typed n c) = shT (normKindsT typed c)) :
    ∀ n, shL (relabelL typed n l) = shL (normKindsL typed l) := by
  induction l with
  | nil => intro n; simp [shL]
  | cons c cs ih =>
    intro n
    rw [relabelL_cons, normKindsL_cons]
    simp only [shL]
    rw [h c (by simp), ih (fun c' hc' => h c' (List.mem_cons_of_mem _ hc'))]

open Flt.Spec in
theorem shT_relabelT (typed : Bool) : ∀ (c : T) (n : NodeId),
    shT (relabelT typed n c) = shT (normKindsT typed c) := by
  intro c
  induction c using T.ind with
  | node i ks ih =>
    intro n
    rw [relabelT_node, normKindsT_node]
    simp only [shT]
    rw [shL_relabelL_of ih]

open Flt.Spec in
/-- **the copy has the shape and payload of the source** (data objects, data ids, kinds normalised
to the target's class, children, in order). -/
theorem shL_relabelL (typed : Bool) (l : List T) (n : NodeId) :
    shL (relabelL typed n l) = shL (normKindsL typed l) :=
  shL_relabelL_of (fun c _ => shT_relabelT typed c) n

open Flt.Spec in
theorem shL_relabelL_of_ok {typed : Bool} {l : List T} (h : KindsOK typed l) (n : NodeId) :
    shL (relabelL typed n l) = shL l := by
  rw [shL_relabelL, normKindsL_of_ok h]

theorem flatL_data_relabelL_of {typed : Bool} {l : List T}
    (h : ∀ c ∈ l, ∀ n, (flat (relabelT typed n c)).map (fun x => (x.data, x.did)) = (flat c).map (fun x => (x.data, x.did))) :
    ∀ n, (flatL (relabelL typed n l)).map (fun x => (x.data, x.did)) = (flatL l).map (fun x => (x.data, x.did)) := by
  induction l with
  | nil => intro n; simp
  | cons c cs ih =>
    intro n
    rw [relabelL_cons, flatL_cons, flatL_cons, List.map_append, List.map_append, h c (by simp),
      ih (fun c' hc' => h c' (List.mem_cons_of_mem _ hc'))]

theorem flat_data_relabelT (typed : Bool) : ∀ (c : T) (n : NodeId),
    (flat (relabelT typed n c)).map (fun x => (x.data, x.did)) = (flat c).map (fun x => (x.data, x.did)) := by
  intro c
  induction c using T.ind with
  | node i ks ih =>
    intro n
    rw [relabelT_node, flat_node, flat_node, List.map_cons, List.map_cons, flatL_data_relabelL_of ih]
    rfl

/-- the pre-order list of the full data objects (not only their identity) and data ids is kept. -/
theorem flatL_data_relabelL (typed : Bool) (l : List T) (n : NodeId) :
    (flatL (relabelL typed n l)).map (fun x => (x.data, x.did)) = (flatL l).map (fun x => (x.data, x.did)) :=
  flatL_data_relabelL_of (fun c _ => flat_data_relabelT typed c) n

/-- the copy's kinds fit the class of the target tree. -/
theorem kindsOK_relabelL (typed : Bool) (l : List T) (n : NodeId) : KindsOK typed (relabelL typed n l) := by
  suffices h : ∀ (c : T) (n : NodeId), KindsOK typed [relabelT typed n c] by
    induction l generalizing n with
    | nil => intro x hx; simp at hx
    | cons c cs ih => rw [relabelL_cons]; exact KindsOK.cons_iff.2 ⟨h c n, ih _⟩
  intro c
  induction c using T.ind with
  | node i ks ih =>
    intro n
    rw [relabelT_node]
    refine KindsOK.node_iff.2 ⟨normKind_idem _ _, ?_⟩
    generalize n + 1 = m
    induction ks generalizing m with
    | nil => intro x hx; simp at hx
    | cons c cs ihc =>
      rw [relabelL_cons]
      exact KindsOK.cons_iff.2 ⟨ih c (by simp) m, ihc (fun c' hc' => ih c' (List.mem_cons_of_mem _ hc')) _⟩

/-! ## 7. the world: which tree an operation may replace -/

/-- the index of the tree that `World.step` may replace (`none` for operations that only append a
new tree or do nothing). -/
def Op.target : Op → Option Nat
  | .newTree _ _ => none
  | .add i _ _ _ _ _ => some i
  | .addNode i _ _ _ _ _ _ _ => some i
  | .addTree i _ _ _ _ => some i
  | .copyKids i _ _ _ _ => some i
  | .copyAll _ => none
  | .copyBranch _ _ _ => none
  | .move i _ _ _ => some i
  | .moveCross _ _ => none
  | .remove i _ _ _ => some i
  | .removeChildren i _ => some i
  | .sort i _ _ _ _ => some i
  | .setData i _ _ _ _ _ => some i
  | .setMeta i _ _ => some i
  | .filter i _ _ => some i
  | .filtered _ _ _ => none
  | .addVia i _ _ _ _ _ => some i
  | .delItem i _ _ => some i
  | .metaSet i _ _ _ => some i
  | .metaClear i _ _ => some i
  | .metaUpdate i _ _ _ => some i
  | .clear i => some i
  | .sortTree i _ _ _ => some i

namespace World

theorem setTree_other {w : World} {i j : Nat} {t : Tree} (h : i ≠ j) : (w.setTree i t).trees[j]? = w.trees[j]? :=
  List.getElem?_set_ne h

theorem put_other {w : World} {i j : Nat} {r : Tree × NodeId × Option Err} (h : i ≠ j) :
    (w.put i r).1.trees[j]? = w.trees[j]? :=
  List.getElem?_set_ne h

theorem metaEdit_other {w : World} {i j : Nat} {n : NodeId}
    {f : Option (List (String × String)) → Option (List (String × String))} (h : i ≠ j) :
    (w.metaEdit i n f).1.trees[j]? = w.trees[j]? := by
  unfold metaEdit
  split
  · rfl
  · split
    · rfl
    · exact List.getElem?_set_ne h

theorem append_other {w : World} {j : Nat} {tj t : Tree} (hj : w.trees[j]? = some tj) :
    (w.trees ++ [t])[j]? = some tj := by
  have hlt : j < w.trees.length := by
    rcases Nat.lt_or_ge j w.trees.length with h | h
    · exact h
    · rw [List.getElem?_eq_none h] at hj; cases hj
  rw [List.getElem?_append_left hlt, hj]

theorem push_other {w : World} {j : Nat} {tj : Tree} {r : Tree × NodeId × Option Err}
    (hj : w.trees[j]? = some tj) : (w.push r).1.trees[j]? = some tj := by
  unfold push
  split
  · exact hj
  · exact append_other hj

end World

end Nutree
