/-
  Nutree.Lemmas.DiffCmp — readable unfolding equations for `cmpL` / `cmpNode` / `addL` /
  `copyKidsL`, and the node identities of the result (consecutive in pre-order, hence distinct).
-/
import Nutree.Lemmas.DiffBasic
namespace Nutree
open T C10
namespace Diff

/-! ## 1. unfolding equations -/

/-- the children of `p1` whose data_id does not occur among `p0`'s children. -/
def addedSrc (p0 p1 : List T) : List T := p1.filter fun c1 => !(p0.any fun c0 => c0.did == c1.did)

/-- the mark of the result child for the `p0` child at index `i0`. -/
def dcFor (ordered : Bool) (i0 : Nat) : Option (Nat × T) → Option DC
  | some (i1, _) => if i0 == i1 then none else (if ordered then some (.order i0 i1) else none)
  | none => some .removed

def renFor (ordered : Bool) (i0 : Nat) : Option (Nat × T) → Bool
  | some (i1, _) => i0 != i1 && ordered
  | none => false

/-- the recursive call for a `p0` child with children `cks`. -/
def subFor (ordered : Bool) (cks : List T) (next : NodeId) : Option (Nat × T) → List T × NodeId × Bool
  | some (_, c1) => cmpNode ordered c1.kids cks (next + 1)
  | none => ([], next + 1, false)

theorem cmpL_nil (ordered : Bool) (p1 : List T) (i0 : Nat) (next : NodeId) :
    cmpL ordered p1 i0 [] next = ([], next, false) := by rw [cmpL]

theorem addL_nil (next : NodeId) : addL [] next = ([], next) := by rw [addL]

theorem copyKidsL_nil (m : Option DC) (next : NodeId) : copyKidsL m [] next = ([], next) := by
  rw [copyKidsL]

theorem cmpNode_eq (ordered : Bool) (p1 p0 : List T) (next : NodeId) :
    cmpNode ordered p1 p0 next =
      ((cmpL ordered p1 0 p0 next).1 ++ (addL (addedSrc p0 p1) (cmpL ordered p1 0 p0 next).2.1).1,
       (addL (addedSrc p0 p1) (cmpL ordered p1 0 p0 next).2.1).2,
       (cmpL ordered p1 0 p0 next).2.2) := by
  rw [cmpNode]; rfl

theorem cmpNode_nil_nil (ordered : Bool) (next : NodeId) :
    cmpNode ordered [] [] next = ([], next, false) := by
  rw [cmpNode_eq, cmpL_nil]; simp [addedSrc, addL_nil]

theorem cmpL_cons (ordered : Bool) (p1 : List T) (i0 : Nat) (ci : Info) (cks rest : List T)
    (next : NodeId) :
    cmpL ordered p1 i0 (.node ci cks :: rest) next =
      (mk next (.node ci cks) (dcFor ordered i0 (findChild p1 (.node ci cks)))
          (subFor ordered cks next (findChild p1 (.node ci cks))).2.2
          (subFor ordered cks next (findChild p1 (.node ci cks))).1
        :: (cmpL ordered p1 (i0 + 1) rest (subFor ordered cks next (findChild p1 (.node ci cks))).2.1).1,
       (cmpL ordered p1 (i0 + 1) rest (subFor ordered cks next (findChild p1 (.node ci cks))).2.1).2.1,
       renFor ordered i0 (findChild p1 (.node ci cks)) ||
         (cmpL ordered p1 (i0 + 1) rest (subFor ordered cks next (findChild p1 (.node ci cks))).2.1).2.2) := by
  rw [cmpL.eq_2]
  cases hf : findChild p1 (.node ci cks) with
  | none => simp only [dcFor, renFor, subFor]
  | some p =>
    obtain ⟨i1, c1⟩ := p
    simp only [dcFor, renFor, subFor]
    by_cases hc : (cks.isEmpty && c1.kids.isEmpty) = true
    · rw [if_pos hc]
      rw [Bool.and_eq_true, List.isEmpty_iff, List.isEmpty_iff] at hc
      rw [hc.1, hc.2, cmpNode_nil_nil]
    · rw [if_neg hc]

theorem addL_cons (i : Info) (ks rest : List T) (next : NodeId) :
    addL (.node i ks :: rest) next =
      (mk next (.node i ks) (some .added) false (copyKidsL (some .added) ks (next + 1)).1
        :: (addL rest (copyKidsL (some .added) ks (next + 1)).2).1,
       (addL rest (copyKidsL (some .added) ks (next + 1)).2).2) := by
  rw [addL]

theorem copyKidsL_cons (m : Option DC) (i : Info) (ks rest : List T) (next : NodeId) :
    copyKidsL m (.node i ks :: rest) next =
      (mk next (.node i ks) m false (copyKidsL none ks (next + 1)).1
        :: (copyKidsL m rest (copyKidsL none ks (next + 1)).2).1,
       (copyKidsL m rest (copyKidsL none ks (next + 1)).2).2) := by
  rw [copyKidsL]

/-! ## 2. node identities: consecutive in pre-order -/

/-- `l` is `n, n+1, …, n'-1`. -/
def Consec (l : List NodeId) (n n' : NodeId) : Prop := l = List.range' n l.length ∧ n' = n + l.length

theorem Consec.nil (n : NodeId) : Consec [] n n := ⟨rfl, rfl⟩

theorem Consec.append {a b : List NodeId} {n m k : NodeId} (h1 : Consec a n m) (h2 : Consec b m k) :
    Consec (a ++ b) n k := by
  obtain ⟨e1, e2⟩ := h1
  obtain ⟨e3, e4⟩ := h2
  subst e2
  refine ⟨?_, by rw [e4, List.length_append, Nat.add_assoc]⟩
  rw [List.length_append, ← List.range'_append_1, ← e1, ← e3]

theorem Consec.cons {a : List NodeId} {n m : NodeId} (h : Consec a (n + 1) m) : Consec (n :: a) n m := by
  have : Consec [n] n (n + 1) := ⟨rfl, rfl⟩
  exact this.append h

theorem Consec.nodup {a : List NodeId} {n m : NodeId} (h : Consec a n m) : a.Nodup := by
  rw [h.1]; exact List.nodup_range' 1

theorem Consec.mem {a : List NodeId} {n m : NodeId} (h : Consec a n m) {x : NodeId} :
    x ∈ a ↔ n ≤ x ∧ x < m := by
  obtain ⟨e1, e2⟩ := h
  subst e2
  rw [e1, List.mem_range'_1, List.length_range']

theorem idsL_mk_cons (id : NodeId) (src : T) (dc : Option DC) (r : Bool) (ks rest : List T) :
    idsL (mk id src dc r ks :: rest) = id :: (idsL ks ++ idsL rest) := by
  rw [idsL_cons, flat_mk, List.map_cons, mk_id]; rfl

theorem copyKidsL_ids : ∀ (l : List T) (m : Option DC) (next : NodeId),
    Consec (idsL (copyKidsL m l next).1) next (copyKidsL m l next).2 := by
  intro l
  induction l using indList with
  | nil => intro m next; rw [copyKidsL_nil]; exact Consec.nil _
  | cons i ks rest ihk ihr =>
    intro m next
    rw [copyKidsL_cons]
    simp only []
    rw [idsL_mk_cons]
    exact ((ihk none (next + 1)).append (ihr m _)).cons

theorem addL_ids : ∀ (l : List T) (next : NodeId), Consec (idsL (addL l next).1) next (addL l next).2 := by
  intro l
  induction l with
  | nil => intro next; rw [addL_nil]; exact Consec.nil _
  | cons t rest ih =>
    intro next
    cases t with
    | node i ks =>
      rw [addL_cons]
      simp only []
      rw [idsL_mk_cons]
      exact ((copyKidsL_ids ks _ (next + 1)).append (ih _)).cons

theorem cmpL_ids : ∀ (p0 : List T) (ordered : Bool) (p1 : List T) (i0 : Nat) (next : NodeId),
    Consec (idsL (cmpL ordered p1 i0 p0 next).1) next (cmpL ordered p1 i0 p0 next).2.1 := by
  intro p0
  induction p0 using indList with
  | nil => intro o p1 i0 next; rw [cmpL_nil]; exact Consec.nil _
  | cons i ks rest ihk ihr =>
    intro o p1 i0 next
    rw [cmpL_cons]
    simp only []
    rw [idsL_mk_cons]
    refine (Consec.append ?_ (ihr o p1 (i0 + 1) _)).cons
    cases findChild p1 (.node i ks) with
    | none => exact Consec.nil _
    | some p =>
      simp only [subFor]
      rw [cmpNode_eq]
      simp only []
      rw [idsL_append]
      exact (ihk o _ 0 (next + 1)).append (addL_ids _ _)

theorem cmpNode_ids (ordered : Bool) (p1 p0 : List T) (next : NodeId) :
    Consec (idsL (cmpNode ordered p1 p0 next).1) next (cmpNode ordered p1 p0 next).2.1 := by
  rw [cmpNode_eq]
  simp only []
  rw [idsL_append]
  exact (cmpL_ids p0 ordered p1 0 next).append (addL_ids _ _)

/-- the result forest of `compare` has pairwise distinct node identities. -/
theorem cmpNode_idsNodup (ordered : Bool) (p1 p0 : List T) (next : NodeId) :
    IdsNodupL (cmpNode ordered p1 p0 next).1 :=
  (cmpNode_ids ordered p1 p0 next).nodup

end Diff
end Nutree
