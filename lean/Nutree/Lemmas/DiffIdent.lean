/-
  Nutree.Lemmas.DiffIdent — comparing a forest with itself; the re-classification loop never
  changes the shape.
-/
import Nutree.Lemmas.DiffShape
import Nutree.Lemmas.DiffZone
namespace Nutree
open T C10
namespace Diff

/-! ## 1. the loop keeps shape and payload -/

theorem plainShape_setDc (v : String) (n : NodeId) (f : List T) :
    plainShape (setInfoL n (setDc v) f) = plainShape f :=
  plainShape_setInfoL (g := setDc v) (fun _ => ⟨rfl, rfl⟩) f

theorem plainShape_fold_setDc (v : String) : ∀ (cs : List T) (f : List T),
    plainShape (cs.foldl (fun g n => setInfoL n.id (setDc v) g) f) = plainShape f := by
  intro cs
  induction cs with
  | nil => intro f; rfl
  | cons c cs ih =>
    intro f
    rw [List.foldl_cons, ih, plainShape_setDc]

theorem plainShape_reclStep (f : List T) (nid : NodeId) : plainShape (reclStep f nid) = plainShape f := by
  unfold reclStep
  split
  · rfl
  · simp only []
    split
    · rfl
    · rw [plainShape_fold_setDc, plainShape_setDc]

/-- the re-classification loop changes neither shape nor payload (any order, any forest). -/
theorem plainShape_reclassify (order : List NodeId) : ∀ f : List T,
    plainShape (reclassify order f) = plainShape f := by
  induction order with
  | nil => intro f; rfl
  | cons n order ih => intro f; rw [reclassify_cons, ih, plainShape_reclStep]

/-! ## 2. a forest compared with itself -/

/-- in a sibling list with distinct data_ids and faithful `==`, every member finds itself. -/
theorem findChild_self {l : List T} (hN : (l.map T.did).Nodup)
    (hF : ∀ a ∈ l, ∀ b ∈ l, (a.data.pyEq b.data = true ↔ a.did = b.did)) {j : Nat} {c : T}
    (hj : l[j]? = some c) : findChild l c = some (j, c) := by
  obtain ⟨hlt, hc⟩ := List.getElem?_eq_some_iff.1 hj
  have hidx : l.findIdx (fun x => x.data.pyEq c.data) = j := by
    rw [List.findIdx_eq hlt]
    refine ⟨by rw [hc]; exact pyEq_refl _, ?_⟩
    intro k hk
    have hkl : k < l.length := by omega
    cases hp : l[k].data.pyEq c.data with
    | false => rfl
    | true =>
      exfalso
      have hd : l[k].did = c.did :=
        (hF l[k] (List.getElem_mem hkl) c (List.mem_of_getElem? hj)).1 hp
      have h1 : (l.map T.did)[k]'(by simpa using hkl) = (l.map T.did)[j]'(by simpa using hlt) := by
        rw [List.getElem_map, List.getElem_map, hc, hd]
      have := (List.getElem_inj hN).1 h1
      omega
  unfold findChild
  simp only [hidx, hj]

theorem addedSrc_self (l : List T) : addedSrc l l = [] := by
  unfold addedSrc
  rw [List.filter_eq_nil_iff]
  intro c hc
  simp only [Bool.not_eq_true, Bool.not_eq_false']
  rw [List.any_eq_true]
  exact ⟨c, hc, by simp⟩

/-- hereditary hypothesis of T1. -/
def Good (l : List T) : Prop := SibU l ∧ IdFaithful l l

theorem Good.kids {l : List T} (h : Good l) {c : T} (hc : c ∈ l) : Good c.kids :=
  ⟨h.1.kids hc, h.2.kids hc hc⟩

theorem Good.findChild {l : List T} (h : Good l) {j : Nat} {c : T} (hj : l[j]? = some c) :
    findChild l c = some (j, c) :=
  findChild_self h.1.1 (fun a ha b hb => h.2 a (mem_flatL_of_mem ha) b (mem_flatL_of_mem hb)) hj

theorem ident_cmpL : ∀ (rest : List T) (o : Bool) (p1 : List T) (i0 : Nat) (next : NodeId),
    (∀ (j : Nat) (c0 : T), rest[j]? = some c0 → findChild p1 c0 = some (i0 + j, c0)) →
    (∀ c ∈ rest, Good c.kids) →
    (∀ x ∈ flatL (cmpL o p1 i0 rest next).1, dcOf x = none ∧ hasRen x = false) ∧
      plainShape (cmpL o p1 i0 rest next).1 = plainShape rest ∧
      (cmpL o p1 i0 rest next).2.2 = false := by
  intro rest
  induction rest using indList with
  | nil =>
    intro o p1 i0 next _ _
    rw [cmpL_nil]
    exact ⟨by intro x hx; simp at hx, rfl, rfl⟩
  | cons i ks rest ihk ihr =>
    intro o p1 i0 next hfind hgood
    have hf : findChild p1 (.node i ks) = some (i0, .node i ks) := by
      have := hfind 0 (.node i ks) rfl
      simpa using this
    have hgk : Good ks := hgood (.node i ks) (List.mem_cons_self ..)
    obtain ⟨k1, k2, k3⟩ := ihk o ks 0 (next + 1)
      (fun j c0 hj => by rw [Nat.zero_add]; exact hgk.findChild hj)
      (fun c hc => hgk.kids hc)
    have hsub : subFor o ks next (some (i0, .node i ks)) =
        ((cmpL o ks 0 ks (next + 1)).1, (cmpL o ks 0 ks (next + 1)).2.1, false) := by
      simp only [subFor, kids_node]
      rw [cmpNode_eq, addedSrc_self, addL_nil, k3]
      simp
    obtain ⟨r1, r2, r3⟩ := ihr o p1 (i0 + 1) (cmpL o ks 0 ks (next + 1)).2.1
      (fun j c0 hj => by
        have := hfind (j + 1) c0 (by simpa using hj)
        rw [this]; congr 2; omega)
      (fun c hc => hgood c (List.mem_cons_of_mem _ hc))
    rw [cmpL_cons, hf, hsub]
    simp only []
    have hdc : dcFor o i0 (some (i0, T.node i ks)) = none := by simp [dcFor]
    have hren : renFor o i0 (some (i0, T.node i ks)) = false := by simp [renFor]
    rw [hdc, hren]
    refine ⟨?_, ?_, by rw [r3]; rfl⟩
    · intro x hx
      simp only [flatL_cons, flat_mk, List.cons_append, List.mem_cons, List.mem_append] at hx
      rcases hx with rfl | hx | hx
      · simp
      · exact k1 x hx
      · exact r1 x hx
    · rw [plainShape_cons', plainShape_cons, mk_kids, k2, r2]; rfl

/-- the raw result of comparing a forest with itself: no marks, same shape. -/
theorem ident_raw {t : List T} (hg : Good t) (o : Bool) :
    (∀ x ∈ flatL (rawDiff o t t), dcOf x = none ∧ hasRen x = false) ∧
      plainShape (rawDiff o t t) = plainShape t := by
  obtain ⟨k1, k2, _⟩ := ident_cmpL t o t 0 1
    (fun j c0 hj => by rw [Nat.zero_add]; exact hg.findChild hj) (fun c hc => hg.kids hc)
  unfold rawDiff
  rw [cmpNode_eq, addedSrc_self, addL_nil]
  simp only [List.append_nil]
  exact ⟨k1, k2⟩

/-- the final result of comparing a forest with itself equals the raw one, for every order. -/
theorem ident_diffTree {t : List T} (hg : Good t) (o : Bool) (ord : Option (List NodeId)) :
    diffTree o false t t ord = rawDiff o t t := by
  rw [diffTree_false]
  exact reclassify_of_no_removed (fun x hx => by rw [((ident_raw hg o).1 x hx).1]; exact fun e => by cases e) _

end Diff
end Nutree
