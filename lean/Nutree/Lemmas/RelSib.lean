/-
  Helper lemmas for C10 (relationships), part 3: siblings, index, generic list facts,
  prefix facts for descendant / common ancestor, height accumulator.
-/
import Nutree.Lemmas.RelChain
namespace Nutree
open T C10

/-! ### generic list facts -/

theorem findIdx_unique {α : Type} {l : List α} {g : α → Bool} {i : Nat}
    (hi : i < l.length) (hu : ∀ m x, l[m]? = some x → (g x = true ↔ m = i)) :
    l.findIdx g = i := by
  rw [List.findIdx_eq hi]
  constructor
  · exact (hu i l[i] (by simp)).2 rfl
  · intro j hji
    have hj : j < l.length := by omega
    cases h : g l[j] with
    | false => rfl
    | true =>
      have := (hu j l[j] (by simp)).1 h
      omega

theorem filter_not_eq_eraseIdx {α : Type} {g : α → Bool} :
    ∀ {l : List α} {i : Nat}, i < l.length →
      (∀ m x, l[m]? = some x → (g x = true ↔ m = i)) →
      l.filter (fun x => !g x) = l.eraseIdx i
  | [], _, hi, _ => by simp at hi
  | a :: l, 0, _, hu => by
    have ha : g a = true := (hu 0 a (by simp)).2 rfl
    have hl : ∀ x ∈ l, (!g x) = true := by
      intro x hx
      obtain ⟨m, hm⟩ := List.mem_iff_getElem?.1 hx
      cases h : g x with
      | false => rfl
      | true =>
        have := (hu (m + 1) x (by simpa using hm)).1 h
        omega
    simp only [List.eraseIdx_cons_zero, List.filter_cons, ha, Bool.not_true]
    simpa using List.filter_eq_self.2 hl
  | a :: l, i + 1, hi, hu => by
    have ha : g a = false := by
      cases h : g a with
      | false => rfl
      | true => have := (hu 0 a (by simp)).1 h; omega
    simp only [List.eraseIdx_cons_succ, List.filter_cons, ha, Bool.not_false, if_true]
    congr 1
    refine filter_not_eq_eraseIdx (by simpa using hi) ?_
    intro m x hm
    have := hu (m + 1) x (by simpa using hm)
    rw [this]; omega

/-! ### siblings -/

section
variable {root par self : T} {p' : List Nat} {i : Nat}

/-- the chain starts with the parent and has as many elements as the path -/
theorem chain_cons (hN : IdsNodup root) (hpar : root.sub p' = some par)
    (hi : par.kids[i]? = some self) :
    ∃ rest, chain root self = par :: rest ∧ rest.length = p'.length := by
  rw [chain_snoc hN hpar hi]
  rcases List.eq_nil_or_concat p' with h | ⟨p'', j, h⟩
  · subst h
    simp at hpar; subst hpar
    exact ⟨[], by simp [pathNodes], rfl⟩
  · rw [List.concat_eq_append] at h
    subst h
    obtain ⟨_, _, gp, h, hgp, hj⟩ := snoc_cases (by simp) hpar
    obtain ⟨rfl, hk⟩ := List.append_inj' h rfl
    cases hk
    rw [pathNodes_concat hgp hj]
    refine ⟨(pathNodes root p'').reverse ++ [root], by simp, ?_⟩
    simp [pathNodes_length hgp]

theorem chain_length (hN : IdsNodup root) (hpar : root.sub p' = some par)
    (hi : par.kids[i]? = some self) : (chain root self).length = p'.length + 1 := by
  obtain ⟨rest, h, hl⟩ := chain_cons hN hpar hi
  rw [h]; simp [hl]

theorem siblingsAll_model (hN : IdsNodup root) (hpar : root.sub p' = some par)
    (hi : par.kids[i]? = some self) : Nutree.siblingsAll root self = par.kids := by
  obtain ⟨rest, h, _⟩ := chain_cons hN hpar hi
  simp [Nutree.siblingsAll, h]

theorem siblingsAll_spec (hpar : root.sub p' = some par) :
    SpecRel.siblingsAll root (p' ++ [i]) = par.kids := by
  simp [SpecRel.siblingsAll, hpar]

/-- among the siblings, only position `i` carries the identity of `self` -/
theorem kid_id_iff (hN : IdsNodup root) (hpar : root.sub p' = some par)
    (hi : par.kids[i]? = some self) (m : Nat) (x : T) (hx : par.kids[m]? = some x) :
    ((x.id == self.id) = true ↔ m = i) := by
  constructor
  · intro h
    have h1 : root.sub (p' ++ [m]) = some x := by rw [sub_concat m hpar, hx]
    have h2 : root.sub (p' ++ [i]) = some self := by rw [sub_concat i hpar, hi]
    have := path_unique hN h1 h2 (by simpa using h)
    simpa using this
  · rintro rfl
    rw [hi] at hx; cases hx; simp

theorem idx_lt (hi : par.kids[i]? = some self) : i < par.kids.length := by
  have := List.getElem?_eq_some_iff.1 hi
  exact this.1

theorem getIndex_model (hN : IdsNodup root) (hpar : root.sub p' = some par)
    (hi : par.kids[i]? = some self) : getIndex root self = some i := by
  have hf := findIdx_unique (g := fun n => n.id == self.id) (idx_lt hi) (kid_id_iff hN hpar hi)
  simp only [getIndex, siblingsAll_model hN hpar hi, hf, idx_lt hi, if_true]

theorem isFirst_model (hN : IdsNodup root) (hpar : root.sub p' = some par)
    (hi : par.kids[i]? = some self) : isFirstSibling root self = (i == 0) := by
  have hlt := idx_lt hi
  have h0 : par.kids[0]? = some par.kids[0] := by
    rw [List.getElem?_eq_getElem]
  unfold isFirstSibling
  rw [siblingsAll_model hN hpar hi, List.head?_eq_getElem?, h0]
  simp only
  have := kid_id_iff hN hpar hi 0 _ h0
  rw [Bool.eq_iff_iff, this]
  simp only [beq_iff_eq]
  omega

theorem isLast_model (hN : IdsNodup root) (hpar : root.sub p' = some par)
    (hi : par.kids[i]? = some self) :
    isLastSibling root self = (i + 1 == par.kids.length) := by
  have hlt := idx_lt hi
  have h0 : par.kids[par.kids.length - 1]? = some par.kids[par.kids.length - 1] := by
    rw [List.getElem?_eq_getElem]
  unfold isLastSibling
  rw [siblingsAll_model hN hpar hi, List.getLast?_eq_getElem?, h0]
  simp only
  have := kid_id_iff hN hpar hi _ _ h0
  rw [Bool.eq_iff_iff, this]
  simp only [beq_iff_eq]
  omega

end

/-! ### prefixes -/

theorem commonPrefix_nil_left (q : List Nat) : SpecRel.commonPrefix [] q = [] := by
  cases q <;> rfl

theorem commonPrefix_nil_right (p : List Nat) : SpecRel.commonPrefix p [] = [] := by
  cases p <;> rfl

theorem commonPrefix_cons (a b : Nat) (as bs : List Nat) :
    SpecRel.commonPrefix (a :: as) (b :: bs) =
      if a == b then a :: SpecRel.commonPrefix as bs else [] := by
  rw [SpecRel.commonPrefix]

theorem commonPrefix_of_prefix {p q : List Nat} (h : p <+: q) : SpecRel.commonPrefix p q = p := by
  induction p generalizing q with
  | nil => exact commonPrefix_nil_left q
  | cons a as ih =>
    cases q with
    | nil => simp at h
    | cons b bs =>
      obtain ⟨rfl, h'⟩ := List.cons_prefix_cons.1 h
      rw [commonPrefix_cons]; simp [ih h']

theorem commonPrefix_concat_of_not_prefix {p' q : List Nat} {i : Nat}
    (h : ¬ (p' ++ [i]) <+: q) :
    SpecRel.commonPrefix (p' ++ [i]) q = SpecRel.commonPrefix p' q := by
  induction p' generalizing q with
  | nil =>
    rw [commonPrefix_nil_left]
    cases q with
    | nil => rfl
    | cons b bs =>
      rw [List.nil_append, commonPrefix_cons]
      by_cases hib : i = b
      · subst hib
        exact absurd (List.cons_prefix_cons.2 ⟨rfl, List.nil_prefix⟩) h
      · simp [hib]
  | cons a as ih =>
    cases q with
    | nil => rfl
    | cons b bs =>
      rw [List.cons_append, commonPrefix_cons, commonPrefix_cons]
      by_cases hab : a = b
      · subst hab
        have : ¬ (as ++ [i]) <+: bs := fun h' => h (List.cons_prefix_cons.2 ⟨rfl, h'⟩)
        simp [ih this]
      · simp [hab]

/-- with distinct identities: a node on `q`'s path has the identity of the node at `p`
exactly if `p` is a (non-empty) prefix of `q` -/
theorem id_mem_pathNodes_iff {root x : T} {p q : List Nat} (hN : IdsNodup root)
    (hp : p ≠ []) (hx : root.sub p = some x) :
    (∃ y ∈ pathNodes root q, y.id = x.id) ↔ p <+: q := by
  constructor
  · rintro ⟨y, hy, hid⟩
    obtain ⟨r, _, hrq, hr⟩ := mem_pathNodes.1 hy
    have := path_unique hN hr hx hid
    subst this; exact hrq
  · intro h
    exact ⟨x, mem_pathNodes.2 ⟨p, hp, h, hx⟩, rfl⟩

theorem prefix_dropLast_concat {q p' : List Nat} {i : Nat} :
    q <+: p' ↔ (q.length < (p' ++ [i]).length ∧ q <+: p' ++ [i]) := by
  constructor
  · intro h
    refine ⟨?_, List.IsPrefix.trans h (List.prefix_append _ _)⟩
    have := h.length_le
    simp; omega
  · rintro ⟨hl, h⟩
    refine List.prefix_of_prefix_length_le h (List.prefix_append _ _) ?_
    simp at hl; omega

/-! ### height -/

mutual
theorem chT_eq : ∀ (t : T) (h acc : Nat), chT h acc t = max acc (h + t.height)
  | .node i ks, h, acc => by
    rw [chT]
    cases ks with
    | nil =>
      simp only [List.isEmpty_nil, if_true, height, heightL]
      split <;> omega
    | cons k ks' =>
      have := chL_eq (k :: ks') h acc
      simp only [List.isEmpty_cons, Bool.false_eq_true, if_false] at this ⊢
      rw [this]; simp [height]
theorem chL_eq : ∀ (ks : List T) (h acc : Nat),
    chL (h + 1) acc ks = if ks.isEmpty then acc else max acc (h + heightL ks)
  | [], h, acc => by simp [chL]
  | t :: ts, h, acc => by
    rw [chL, chT_eq t (h + 1) acc, chL_eq ts h]
    cases ts with
    | nil => simp [heightL]; omega
    | cons t' ts' =>
      simp only [List.isEmpty_cons, Bool.false_eq_true, if_false]
      have e : heightL (t :: t' :: ts') = max (height t + 1) (heightL (t' :: ts')) := by
        rw [heightL]
      rw [e]; omega
end

end Nutree

namespace Nutree
open T C10

/-! ### indexing the nodes along a path -/

/-- position `k` of `root :: pathNodes root r` is the node at the prefix of length `k` -/
theorem nodesAt {root x : T} {r : List Nat} (h : root.sub r = some x) (k : Nat) :
    (root :: pathNodes root r)[k]? = if k ≤ r.length then root.sub (r.take k) else none := by
  induction r generalizing root k with
  | nil =>
    cases k with
    | zero => simp
    | succ k => simp [pathNodes]
  | cons i r' ih =>
    obtain ⟨c, hc, hr⟩ := sub_cons_some h
    cases k with
    | zero => simp
    | succ k =>
      rw [List.getElem?_cons_succ, pathNodes_cons_some _ hc, ih hr k]
      simp only [List.length_cons, Nat.add_le_add_iff_right, List.take_succ_cons]
      rw [sub_cons, hc]; rfl

/-- the chain by index: position `j` is the node `j + 1` steps up the path -/
theorem chain_getElem? {root par self : T} {p' : List Nat} {i : Nat} (hN : IdsNodup root)
    (hpar : root.sub p' = some par) (hi : par.kids[i]? = some self) (j : Nat) :
    (chain root self)[j]? =
      if j ≤ p'.length then root.sub (p'.take (p'.length - j)) else none := by
  have e : chain root self = (root :: pathNodes root p').reverse := by
    rw [chain_snoc hN hpar hi]; simp
  have hlen : (root :: pathNodes root p').length = p'.length + 1 := by
    simp [pathNodes_length hpar]
  rw [e]
  by_cases hj : j ≤ p'.length
  · rw [List.getElem?_reverse (by omega), hlen, nodesAt hpar, if_pos hj]
    have : p'.length + 1 - 1 - j = p'.length - j := by omega
    rw [this, if_pos (by omega)]
  · rw [if_neg hj, List.getElem?_eq_none (by rw [List.length_reverse, hlen]; omega)]

end Nutree

namespace Nutree
open T C10

theorem filterMap_congr' {α β : Type} {f g : α → Option β} :
    ∀ {l : List α}, (∀ a ∈ l, f a = g a) → l.filterMap f = l.filterMap g
  | [], _ => rfl
  | a :: l, h => by
    have ha : f a = g a := h a (by simp)
    have hl := filterMap_congr' (l := l) (fun b hb => h b (List.mem_cons_of_mem _ hb))
    simp [List.filterMap_cons, ha, hl]

/-- the nodes along a path (root included), deepest first, as the nodes at the prefixes -/
theorem pathNodes_reverse_range {root : T} :
    ∀ (n : Nat) (r : List Nat) (x : T), r.length = n → root.sub r = some x →
      (pathNodes root r).reverse ++ [root] =
        (List.range (r.length + 1)).reverse.filterMap (fun k => root.sub (r.take k)) := by
  intro n
  induction n with
  | zero =>
    intro r x hn hx
    have : r = [] := List.length_eq_zero_iff.1 hn
    subst this
    simp [pathNodes, List.range_succ]
  | succ n ih =>
    intro r x hn hx
    have hr : r ≠ [] := by intro h; subst h; simp at hn
    obtain ⟨r', j, par, rfl, hpar, hj⟩ := snoc_cases hr hx
    have hlen : (r' ++ [j]).length = r'.length + 1 := by simp
    rw [pathNodes_concat hpar hj, List.reverse_concat, hlen, List.range_succ (n := r'.length + 1),
      List.reverse_concat, List.filterMap_cons]
    have h1 : root.sub ((r' ++ [j]).take (r'.length + 1)) = some x := by
      rw [← hlen, List.take_length]; exact hx
    rw [h1]
    simp only [List.cons_append]
    rw [ih r' par (by simpa using hn) hpar]
    congr 1
    apply filterMap_congr'
    intro k hk
    have : k ≤ r'.length := by
      simp at hk; omega
    rw [List.take_append_of_le_length this]

end Nutree
