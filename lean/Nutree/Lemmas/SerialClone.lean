/-
  Nutree.Lemmas.SerialClone — which rows of the written list are references (`Payload.ref`):
  the clone map after a prefix of the rows (`CmapRep`), the element written for a row
  (`EntrySpec`, `payloads_spec`), and `save`'s `is_clone` (`saveIsClone`).
-/
import Nutree.Lemmas.SerialRound
namespace Nutree.Ser
open Nutree T

/-- the first of the rows `pre` whose node carries data id `d`. -/
def firstOf (pre : List Row) (d : DataId) : Option Row := pre.find? fun r => r.2.2.did == d

/-- what the clone map knows about a first occurrence. -/
def cloneInfo (isClone : T → Bool) (r : Row) : Option (Nat × Option String) :=
  if isClone r.2.2 then some (r.1, r.2.2.kind) else none

/-- the clone map after the rows `pre`: a data id is mapped iff its first occurrence is a clone,
and then to the index and kind of that first occurrence. -/
def CmapRep (isClone : T → Bool) (pre : List Row) (c : CMap) : Prop :=
  ∀ d, c.lookup d = (firstOf pre d).bind (cloneInfo isClone)

/-- what is written for row `r` after the rows `before`. -/
def EntrySpec (typed : Bool) (o : Opts) (ser : T → Fields → Option Fields) (isClone : T → Bool)
    (before : List Row) (r : Row) (pl : Payload) : Prop :=
  match firstOf before r.2.2.did with
  | some r0 =>
    if isClone r0.2.2 = true ∧ r.2.2.kind = r0.2.2.kind then pl = .ref r0.1
    else fullEntry typed o ser r.2.2 = some pl
  | none => fullEntry typed o ser r.2.2 = some pl

theorem cmapRep_nil (isClone : T → Bool) : CmapRep isClone [] [] := by
  intro d; rfl

theorem firstOf_snoc_self {pre : List Row} {r : Row} :
    firstOf (pre ++ [r]) r.2.2.did = (firstOf pre r.2.2.did).or (some r) := by
  simp [firstOf, List.find?_append]

theorem firstOf_snoc_ne {pre : List Row} {r : Row} {d : DataId} (h : r.2.2.did ≠ d) :
    firstOf (pre ++ [r]) d = firstOf pre d := by
  simp [firstOf, List.find?_append, h]

theorem firstOf_did {pre : List Row} {d : DataId} {r0 : Row} (h : firstOf pre d = some r0) : r0.2.2.did = d := by
  have := List.find?_some h
  simpa using this

theorem entryOf_spec {typed : Bool} {o : Opts} {ser : T → Fields → Option Fields} {isClone : T → Bool}
    (hcl : ∀ a b : T, a.did = b.did → isClone a = isClone b)
    {pre : List Row} {c c' : CMap} {r : Row} {e : Nat × Payload}
    (hrep : CmapRep isClone pre c) (he : entryOf typed o ser isClone c r = some (e, c')) :
    CmapRep isClone (pre ++ [r]) c' ∧ e.1 = r.2.1 ∧ EntrySpec typed o ser isClone pre r e.2 := by
  unfold entryOf at he
  have hr := hrep r.2.2.did
  cases hl : c.lookup r.2.2.did with
  | some v =>
    obtain ⟨cidx, ck⟩ := v
    rw [hl] at he hr
    simp only at he
    cases hf : firstOf pre r.2.2.did with
    | none => rw [hf] at hr; cases hr
    | some r0 =>
      rw [hf, Option.bind_some] at hr
      unfold cloneInfo at hr
      by_cases hc0 : isClone r0.2.2 = true
      · rw [if_pos hc0, Option.some.injEq, Prod.mk.injEq] at hr
        obtain ⟨rfl, rfl⟩ := hr
        have hrep' : CmapRep isClone (pre ++ [r]) c := by
          intro d
          by_cases hd : r.2.2.did = d
          · subst hd; rw [firstOf_snoc_self, hf, Option.some_or, ← hf]; exact hrep _
          · rw [firstOf_snoc_ne hd]; exact hrep d
        unfold EntrySpec
        rw [hf]
        dsimp only
        by_cases hk : (r.2.2.kind == r0.2.2.kind) = true
        · rw [if_pos hk, Option.some.injEq, Prod.mk.injEq] at he
          obtain ⟨rfl, rfl⟩ := he
          exact ⟨hrep', rfl, by rw [if_pos ⟨hc0, eq_of_beq hk⟩]⟩
        · rw [if_neg hk] at he
          cases hfe : fullEntry typed o ser r.2.2 with
          | none => rw [hfe] at he; cases he
          | some pl =>
            rw [hfe, Option.map_some, Option.some.injEq, Prod.mk.injEq] at he
            obtain ⟨rfl, rfl⟩ := he
            refine ⟨hrep', rfl, ?_⟩
            rw [if_neg (fun h => hk (by rw [h.2]; exact beq_self_eq_true _))]
      · rw [if_neg hc0] at hr; cases hr
  | none =>
    rw [hl] at he hr
    simp only at he
    cases hfe : fullEntry typed o ser r.2.2 with
    | none => rw [hfe] at he; cases he
    | some pl =>
      rw [hfe, Option.map_some, Option.some.injEq, Prod.mk.injEq] at he
      obtain ⟨rfl, rfl⟩ := he
      refine ⟨?_, rfl, ?_⟩
      · cases hf : firstOf pre r.2.2.did with
        | some r0 =>
          -- the first occurrence is not a clone, so this one is not either
          rw [hf, Option.bind_some] at hr
          have hc0 : isClone r0.2.2 = false := by
            unfold cloneInfo at hr
            cases h : isClone r0.2.2 with
            | false => rfl
            | true => rw [h, if_pos rfl] at hr; cases hr
          have hcr : isClone r.2.2 = false := by rw [hcl r.2.2 r0.2.2 (firstOf_did hf).symm, hc0]
          simp only [hcr, Bool.false_eq_true, if_false]
          intro d
          by_cases hd : r.2.2.did = d
          · subst hd; rw [firstOf_snoc_self, hf, Option.some_or, ← hf]; exact hrep _
          · rw [firstOf_snoc_ne hd]; exact hrep d
        | none =>
          intro d
          by_cases hd : r.2.2.did = d
          · subst hd
            rw [firstOf_snoc_self, hf, Option.none_or, Option.bind_some]
            unfold cloneInfo
            by_cases hc : isClone r.2.2 = true
            · rw [if_pos hc, if_pos hc, List.lookup_append, hl]
              simp
            · rw [if_neg hc, if_neg hc, hl]
          · rw [firstOf_snoc_ne hd, ← hrep d]
            split
            · rw [List.lookup_append]
              have : (d == r.2.2.did) = false := by
                simpa using fun h => hd h.symm
              simp [List.lookup_cons, this]
            · rfl
      · unfold EntrySpec
        cases hf : firstOf pre r.2.2.did with
        | none => exact hfe
        | some r0 =>
          rw [hf, Option.bind_some] at hr
          simp only
          have hc0 : ¬ isClone r0.2.2 = true := by
            unfold cloneInfo at hr
            intro h; rw [if_pos h] at hr; cases hr
          rw [if_neg (fun h => hc0 h.1)]
          exact hfe

theorem payloads_spec {typed : Bool} {o : Opts} {ser : T → Fields → Option Fields} {isClone : T → Bool}
    (hcl : ∀ a b : T, a.did = b.did → isClone a = isClone b) :
    ∀ (a pre : List Row) (c c' : CMap) (es : List (Nat × Payload)) (r : Row) (b : List Row),
      CmapRep isClone pre c → payloads typed o ser isClone (a ++ r :: b) c = some (es, c') →
      ∃ e, es[a.length]? = some e ∧ e.1 = r.2.1 ∧ EntrySpec typed o ser isClone (pre ++ a) r e.2
  | [], pre, c, c', es, r, b, hrep, hp => by
    obtain ⟨e, ca, es', he, _, rfl⟩ := payloads_cons_some hp
    obtain ⟨_, h2, h3⟩ := entryOf_spec hcl hrep he
    exact ⟨e, rfl, h2, by rwa [List.append_nil]⟩
  | x :: a, pre, c, c', es, r, b, hrep, hp => by
    obtain ⟨e, ca, es', he, hp', rfl⟩ := payloads_cons_some hp
    obtain ⟨h1, _, _⟩ := entryOf_spec hcl hrep he
    obtain ⟨e', h4, h5, h6⟩ := payloads_spec hcl a (pre ++ [x]) ca c' es' r b h1 hp'
    refine ⟨e', ?_, h5, ?_⟩
    · rw [List.length_cons, List.getElem?_cons_succ]; exact h4
    · rwa [List.append_assoc] at h6

theorem fullEntry_ne_ref {typed : Bool} {o : Opts} {ser : T → Fields → Option Fields} {n : T} {k : Nat} :
    fullEntry typed o ser n ≠ some (.ref k) := by
  unfold fullEntry
  intro h
  split at h
  · cases hc : compress o ((ser n _).getD _) with
    | none => rw [hc] at h; cases h
    | some d' => rw [hc] at h; cases h
  · rename_i e hne
    simp only [Option.some.injEq] at h
    exact makeEntry_ne_ref typed n k h

/-- `node.is_clone()` as `save` evaluates it: the data id occurs at least twice in the forest. -/
def saveIsClone (tops : List T) : T → Bool :=
  fun (n : T) => ((flatL tops).filter fun m => m.did == n.did).length > 1

theorem saveIsClone_congr (tops : List T) (a b : T) (h : a.did = b.did) :
    saveIsClone tops a = saveIsClone tops b := by
  unfold saveIsClone; rw [h]

/-- two rows with the same data id: both are clones. -/
theorem saveIsClone_of_two {tops : List T} {as bs post : List Row} {r0 r : Row}
    (hrows : (enumerate tops 0 1).1 = (as ++ r0 :: bs) ++ r :: post) (hd : r0.2.2.did = r.2.2.did) :
    saveIsClone tops r0.2.2 = true := by
  unfold saveIsClone
  rw [← enumerate_nodes tops 0 1, hrows]
  simp only [List.map_append, List.map_cons, List.filter_append, List.filter_cons, List.length_append,
    beq_self_eq_true, if_true, hd, List.length_cons, decide_eq_true_eq]
  omega

/-- **which rows are references.**  Row `(i, p, n)` after the rows `pre`: the written element is
`(p, pl)`; `pl` is the reference `.ref k` iff `k` is the index of the FIRST earlier row with the
data id of `n` and that row's node has the kind of `n`; otherwise `pl` is the full entry of `n`. -/
theorem toList_ref_iff_core {typed : Bool} {o : Opts} {ser : T → Fields → Option Fields} {tops : List T}
    {out : List (Nat × Payload)} (h : toList typed o ser (saveIsClone tops) tops = some out)
    {pre post : List Row} {i p : Nat} {n : T} (hrows : (enumerate tops 0 1).1 = pre ++ (i, p, n) :: post) :
    ∃ pl, out[pre.length]? = some (p, pl) ∧
      (∀ k, pl = .ref k ↔ ∃ a q m b, pre = a ++ (k, q, m) :: b ∧ (∀ r ∈ a, r.2.2.did ≠ n.did) ∧
        m.did = n.did ∧ m.kind = n.kind) ∧
      ((∀ k, pl ≠ .ref k) → fullEntry typed o ser n = some pl) := by
  rw [toList_eq] at h
  cases hp : payloads typed o ser (saveIsClone tops) (enumerate tops 0 1).1 [] with
  | none => rw [hp] at h; cases h
  | some x =>
    obtain ⟨es, c1⟩ := x
    rw [hp] at h
    simp only [Option.map_some, Option.some.injEq] at h
    subst h
    rw [hrows] at hp
    obtain ⟨e, h1, h2, h3⟩ := payloads_spec (saveIsClone_congr tops) pre [] [] c1 es (i, p, n) post
      (cmapRep_nil _) hp
    rw [List.nil_append] at h3
    refine ⟨e.2, by rw [h1]; exact congrArg some (Prod.ext h2 rfl), ?_⟩
    unfold EntrySpec at h3
    simp only at h3
    cases hf : firstOf pre n.did with
    | none =>
      rw [hf] at h3
      simp only at h3
      refine ⟨fun k => ⟨fun hk => ?_, ?_⟩, fun _ => h3⟩
      · rw [hk] at h3; exact absurd h3 fullEntry_ne_ref
      · rintro ⟨a, q, m, b, rfl, _, hm, _⟩
        have := List.find?_eq_none.1 hf (k, q, m) (by simp)
        simp [hm] at this
    | some r0 =>
      rw [hf] at h3
      simp only at h3
      obtain ⟨hd0, as, bs, rfl, has⟩ := List.find?_eq_some_iff_append.1 hf
      have hd0' : r0.2.2.did = n.did := by simpa using hd0
      have hclone : saveIsClone tops r0.2.2 = true := saveIsClone_of_two (r := (i, p, n)) hrows hd0'
      have huniq : ∀ a q m b k, as ++ r0 :: bs = a ++ (k, q, m) :: b → (∀ r ∈ a, r.2.2.did ≠ n.did) →
          m.did = n.did → r0 = (k, q, m) := by
        intro a q m b k he ha hm
        have : firstOf (a ++ (k, q, m) :: b) n.did = some (k, q, m) :=
          List.find?_eq_some_iff_append.2 ⟨by simp [hm], a, b, rfl, fun r hr => by simpa using ha r hr⟩
        rw [← he, hf] at this
        exact Option.some.inj this
      by_cases hk : n.kind = r0.2.2.kind
      · rw [if_pos ⟨hclone, hk⟩] at h3
        refine ⟨fun k => ⟨fun hk' => ?_, ?_⟩, fun hno => absurd h3 (hno _)⟩
        · rw [h3] at hk'
          cases hk'
          exact ⟨as, r0.2.1, r0.2.2, bs, rfl, fun r hr => by simpa using has r hr, hd0', hk.symm⟩
        · rintro ⟨a, q, m, b, he, ha, hm, _⟩
          rw [h3, huniq a q m b k he ha hm]
      · rw [if_neg (fun h => hk h.2)] at h3
        refine ⟨fun k => ⟨fun hk' => ?_, ?_⟩, fun _ => h3⟩
        · rw [hk'] at h3; exact absurd h3 fullEntry_ne_ref
        · rintro ⟨a, q, m, b, he, ha, hm, hmk⟩
          have := huniq a q m b k he ha hm
          subst this
          exact absurd hmk.symm hk

end Nutree.Ser
