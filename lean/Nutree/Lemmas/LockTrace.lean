/-
  Nutree.Lemmas.LockTrace — consequences of the invariant for depths and for the trace (C18):
  mutual exclusion, "every read/write was executed by the lock owner", critical sections are
  contiguous, and a non-owner stays blocked while the lock is held.
-/
import Nutree.Lemmas.LockInv
namespace Nutree
namespace Lock

/-! ### depths in `getElem?` form -/

theorem depthOf_of_getElem? {c : Cfg} {i d : Nat} (h : c.depth[i]? = some d) : c.depthOf i = d := by
  simp [Cfg.depthOf, h]

theorem getElem?_of_depthOf {c : Cfg} {i : Nat} (hi : i < c.depth.length) :
    c.depth[i]? = some (c.depthOf i) := by
  simp [Cfg.depthOf, List.getElem?_eq_getElem hi]

theorem lt_of_depthOf_pos {c : Cfg} {i : Nat} (h : 0 < c.depthOf i) : i < c.depth.length := by
  apply Classical.byContradiction
  intro hn
  have : c.depth[i]? = none := List.getElem?_eq_none (Nat.le_of_not_lt hn)
  simp [Cfg.depthOf, this] at h

theorem owner_lt {ps : List Prog} {c : Cfg} (h : Inv ps c) {i : Tid} (ho : c.owner = some i) :
    i < ps.length := by
  rw [← h.depth_len]
  exact lt_of_depthOf_pos ((h.lock.owner_iff i).mp ho)

/-- the facts listed in K1, in `getElem?` form. -/
theorem inv_facts {ps : List Prog} {c : Cfg} (h : Inv ps c) :
    c.progs.length = ps.length ∧ c.depth.length = ps.length ∧
    (c.owner = none ↔ c.count = 0) ∧
    (∀ i, c.owner = some i → c.depth[i]? = some c.count ∧
        ∀ j, j ≠ i → j < ps.length → c.depth[j]? = some 0) ∧
    (c.owner = none → ∀ j, j < ps.length → c.depth[j]? = some 0) ∧
    (∀ (i : Nat) (p : Prog) (d : Nat), c.progs[i]? = some p → c.depth[i]? = some d →
        guardedFrom d p = true) := by
  refine ⟨h.progs_len, h.depth_len, h.lock.owner_count, ?_, ?_, ?_⟩
  · intro i ho
    have hi : i < c.depth.length := by rw [h.depth_len]; exact owner_lt h ho
    have hd := h.lock.owner_depth i ho
    refine ⟨by rw [getElem?_of_depthOf hi, hd.1], ?_⟩
    intro j hj hjl
    rw [getElem?_of_depthOf (by rw [h.depth_len]; exact hjl), hd.2 j hj]
  · intro ho j hjl
    rw [getElem?_of_depthOf (by rw [h.depth_len]; exact hjl), h.lock.free_depth ho j]
  · intro i p d hp hd
    rw [← depthOf_of_getElem? hd]
    exact h.guarded i p hp

theorem inv_mutex {ps : List Prog} {c : Cfg} (h : Inv ps c) {i j di dj : Nat}
    (hi : c.depth[i]? = some (di + 1)) (hj : c.depth[j]? = some (dj + 1)) : i = j := by
  have h1 : c.owner = some i :=
    (h.lock.owner_iff i).mpr (by rw [depthOf_of_getElem? hi]; omega)
  have h2 : c.owner = some j :=
    (h.lock.owner_iff j).mpr (by rw [depthOf_of_getElem? hj]; omega)
  rw [h1] at h2
  cases h2; rfl

/-! ### the trace -/

theorem traceOK_mem {t : List Entry} (h : TraceOK t) {x : Entry} (hx : x ∈ t) :
    x.2.2 = some x.1 ∨ (x.2.2 = none ∧ x.2.1 = .acq) := by
  induction t with
  | nil => cases hx
  | cons y t ih =>
    cases hx with
    | head => exact h.2.1
    | tail _ hx => exact ih h.2.2 hx

/-- an entry tagged with owner `k` was executed by `k`. -/
theorem traceOK_tag {t : List Entry} (h : TraceOK t) {x : Entry} (hx : x ∈ t) {k : Tid}
    (hk : x.2.2 = some k) : x.1 = k := by
  cases traceOK_mem h hx with
  | inl h1 => rw [hk] at h1; cases h1; rfl
  | inr h1 => rw [hk] at h1; cases h1.1

/-- a `read`/`write` entry is tagged with its own thread. -/
theorem traceOK_rw {t : List Entry} (h : TraceOK t) {x : Entry} (hx : x ∈ t)
    (he : x.2.1 = .read ∨ x.2.1 = .write) : x.2.2 = some x.1 := by
  cases traceOK_mem h hx with
  | inl h1 => exact h1
  | inr h1 => rw [h1.2] at he; cases he with
    | inl h2 => cases h2
    | inr h2 => cases h2

/-- the tag of an entry is determined by the history before it. -/
theorem traceOK_split {post pre : List Entry} {x : Entry} (h : TraceOK (post ++ x :: pre))
    (k : Tid) : x.2.2 = some k ↔ 0 < dep k pre :=
  (traceOK_append h).1 k

/-- an entry tagged `none` (an outermost `acq`) finds every thread at history depth 0. -/
theorem dep_zero_of_free {pre : List Entry} {x : Entry} (h : TraceOK (x :: pre))
    (hx : x.2.2 = none) (k : Tid) : dep k pre = 0 := by
  have := h.1 k
  rw [hx] at this
  have h2 : ¬ 0 < dep k pre := fun hp => by cases this.mpr hp
  omega

/-- the window lemma: after an outermost `acq` of thread `i` (tag `none`), every later entry
before which thread `i`'s own depth (replayed from 1) is still positive is tagged `some i` and
was executed by `i`. -/
theorem window_pointwise {post mid pre : List Entry} {i : Tid}
    (h : TraceOK (post ++ mid ++ (i, Ev.acq, none) :: pre))
    {x : Entry} {s : List Entry} (hs : (x :: s) <:+ mid) (hpos : 0 < depFrom i 1 s) :
    x.2.2 = some i ∧ x.1 = i := by
  obtain ⟨u, hu⟩ := hs
  have h1 : TraceOK ((post ++ u) ++ x :: (s ++ (i, Ev.acq, none) :: pre)) := by
    have : (post ++ u) ++ x :: (s ++ (i, Ev.acq, none) :: pre)
        = post ++ mid ++ (i, Ev.acq, none) :: pre := by
      rw [← hu]; simp
    rw [this]; exact h
  have h2 : TraceOK ((i, Ev.acq, none) :: pre) := by
    have : post ++ mid ++ (i, Ev.acq, none) :: pre = (post ++ mid) ++ (i, Ev.acq, none) :: pre := rfl
    exact traceOK_append (s := post ++ mid) h
  have h0 : dep i pre = 0 := dep_zero_of_free h2 rfl i
  have hd : dep i (s ++ (i, Ev.acq, none) :: pre) = depFrom i 1 s := by
    rw [dep_append, dep_cons]
    simp [bump, h0]
  have htag : x.2.2 = some i := (traceOK_split h1 i).mpr (by rw [hd]; exact hpos)
  refine ⟨htag, ?_⟩
  have hx : x ∈ (post ++ u) ++ x :: (s ++ (i, Ev.acq, none) :: pre) := by simp
  exact traceOK_tag h1 hx htag

/-! ### blocking -/

/-- while `a` owns the lock, the next event of any other thread is an `acq`, and it is
not enabled. -/
theorem blocked_next {ps : List Prog} {c : Cfg} (h : Inv ps c) {a b : Tid}
    (ho : c.owner = some a) (hb : b ≠ a) {e : Ev} {rest : Prog}
    (hp : c.progs[b]? = some (e :: rest)) : e = .acq ∧ enabled true c b = false := by
  have hd : c.depthOf b = 0 := (h.lock.owner_depth a ho).2 b hb
  have hg := h.guarded b _ hp
  rw [hd] at hg
  have he := guardedFrom_zero_cons hg
  subst he
  refine ⟨rfl, ?_⟩
  rw [enabled_acq hp, ho]
  have : ¬ a = b := fun h => hb h.symm
  simp [this]

theorem blocked_enabled {ps : List Prog} {c : Cfg} (h : Inv ps c) {a b : Tid}
    (ho : c.owner = some a) (hb : b ≠ a) : enabled true c b = false := by
  cases hen : enabled true c b with
  | false => rfl
  | true =>
    obtain ⟨e, rest, hp⟩ := enabled_some hen
    rw [(blocked_next h ho hb hp).2] at hen
    cases hen

/-- scheduling only non-owners while the lock is held changes nothing. -/
theorem blocked_run {ps : List Prog} {c : Cfg} (h : Inv ps c) {a : Tid}
    (ho : c.owner = some a) (s : List Tid) (hs : ∀ b ∈ s, b ≠ a) : run true c s = c := by
  induction s with
  | nil => rfl
  | cons b s ih =>
    rw [run_cons, step_of_not_enabled (blocked_enabled h ho (hs b (by simp)))]
    exact ih (fun b hb => hs b (by simp [hb]))

end Lock
end Nutree
