/-
  Nutree.Lemmas.CopyTree — `add_child(tree)` / `copy_to` (`Tree.addTree`, `Tree.copyKids`) and
  the new-tree copies (`Tree.copyAll`, `Tree.copyBranch`).

  * `addTreeStart`, `addTreeB`, `addTreeStep`, `addTree_eq` — the loop of `Tree.addTree` named.
  * `splitPos` — where `before` points in the old child list; `copiesL` — the copies of the top
    nodes in creation order.
  * `PosInv` — the loop invariant about positions; `posInv_init`, `posInv_step`, `posInv_snoc`.
  * `addTree_loop` — the loop never fails (sibling-unique source, no collision, acceptable `before`),
    keeps the state well-formed, and puts the copies contiguously, in source order, at `splitPos`.
  * `WF_newTree`, `modT_mkRoot`.
-/
import Nutree.Lemmas.CopyNode
namespace Nutree
open T C10 Nutree.C01

/-! ## 1. the loop of `addTree`, named -/

/-- the index `list.insert` would use, resolved once against the old child list. -/
def addTreeStart (n : Int) : Before → Option Int
  | .bTrue => some 0
  | .idx i => some (if i < 0 then (if n + i < 0 then 0 else n + i) else (if i > n then n else i))
  | _ => none

/-- the `before` passed for the `k`-th top node. -/
def addTreeB (start : Option Int) (before : Before) (k : Nat) : Before :=
  match start with
  | some i0 => Before.idx (i0 + k)
  | none => before

def addTreeStep (parent : NodeId) (start : Option Int) (before : Before) (deep keepKind : Bool)
    (acc : Tree × NodeId × Option Err) (sk : T × Nat) : Tree × NodeId × Option Err :=
  match acc with
  | (t, nx, some e) => (t, nx, some e)
  | (t, nx, none) =>
    Tree.addNode t nx parent sk.1 false none (addTreeB start before sk.2) (some deep) none
      (if keepKind then sk.1.kind else none)

theorem addTree_eq (t : Tree) (next parent : NodeId) (tops : List T) (before : Before) (deep : Option Bool)
    (keepKind : Bool) :
    t.addTree next parent tops before deep keepKind =
      match findT parent t.root with
      | none => (t, next, some .other)
      | some p =>
        if tops.any (fun s => p.kids.any fun k => k.did == s.did) then (t, next, some .unique)
        else (tops.zipIdx).foldl
          (addTreeStep parent (addTreeStart p.kids.length before) before (deep.getD true) keepKind) (t, next, none) := by
  cases before <;> rfl

/-- once failed, the loop does nothing more. -/
theorem foldl_addTreeStep_err (parent : NodeId) (start : Option Int) (before : Before) (deep keepKind : Bool)
    (t : Tree) (nx : NodeId) (e : Err) (l : List (T × Nat)) :
    l.foldl (addTreeStep parent start before deep keepKind) (t, nx, some e) = (t, nx, some e) := by
  induction l with
  | nil => rfl
  | cons a l ih => rw [List.foldl_cons]; exact ih

/-! ## 2. positions -/

/-- the position in the old child list `ks` at which the copies are placed. -/
def splitPos (ks : List T) : Before → Nat
  | .none => ks.length
  | .bFalse => ks.length
  | .bTrue => 0
  | .idx i =>
    let n : Int := ks.length
    (if i < 0 then (if n + i < 0 then 0 else n + i) else (if i > n then n else i)).toNat
  | .node b => idxOf b ks

/-- `before` is acceptable for the child list `ks`: a `before` node must be one of the children. -/
def BeforeOK (ks : List T) (before : Before) : Prop := ∀ b, before = .node b → b ∈ ks.map T.id

/-- the copies of the top nodes `tops` made by `addTree` in a tree of class `typed`, first fresh
identity `next`: one `copyNode` per top node, identities consumed in order. -/
def copiesL (typed : Bool) (deep keepKind : Bool) : NodeId → List T → List T
  | _, [] => []
  | next, s :: ss =>
    copyNode typed next s s.did (if keepKind then s.kind else none) deep ::
      copiesL typed deep keepKind (next + size (copyNode typed next s s.did (if keepKind then s.kind else none) deep)) ss

theorem copiesL_map_data_did (typed deep keepKind : Bool) (next : NodeId) (l : List T) :
    (copiesL typed deep keepKind next l).map (fun c => (c.data, c.did)) = l.map (fun s => (s.data, s.did)) := by
  induction l generalizing next with
  | nil => rfl
  | cons s ss ih => rw [copiesL, List.map_cons, List.map_cons, ih]; rfl

theorem copiesL_length (typed deep keepKind : Bool) (next : NodeId) (l : List T) :
    (copiesL typed deep keepKind next l).length = l.length := by
  induction l generalizing next with
  | nil => rfl
  | cons s ss ih => rw [copiesL, List.length_cons, List.length_cons, ih]

/-- deep copies that keep the kinds are `relabelL`. -/
theorem copiesL_deep_keep (typed : Bool) (next : NodeId) (l : List T) :
    copiesL typed true true next l = relabelL typed next l := by
  induction l generalizing next with
  | nil => simp [copiesL]
  | cons s ss ih =>
    rw [copiesL, relabelL_cons]
    simp only [if_true]
    rw [copyNode_deep_eq, size_relabelT, ih]

/-- the loop invariant about positions: the parent's children are `pre ++ newK ++ post` and the
next copy has to go between `newK` and `post`. -/
def PosInv (before : Before) (start : Option Int) (pre newK post : List T) : Prop :=
  match before with
  | .none => start = none ∧ post = []
  | .bFalse => start = none ∧ post = []
  | .bTrue => start = some (pre.length : Int)
  | .idx _ => start = some (pre.length : Int)
  | .node b => start = none ∧ b ∉ (pre ++ newK).map T.id ∧ ∃ hd tl, post = hd :: tl ∧ hd.id = b

theorem idxOf_append_hit {b : NodeId} {hd : T} (tl : List T) (hb : hd.id = b) :
    ∀ {a : List T}, b ∉ a.map T.id → idxOf b (a ++ hd :: tl) = a.length
  | [], _ => by rw [List.nil_append, idxOf_cons, if_pos hb]; rfl
  | x :: xs, h => by
    rw [List.map_cons, List.mem_cons, not_or] at h
    rw [List.cons_append, idxOf_cons, if_neg (fun e => h.1 e.symm), idxOf_append_hit tl hb h.2]; rfl

theorem not_mem_take_idxOf (b : NodeId) : ∀ ks : List T, b ∉ (ks.take (idxOf b ks)).map T.id
  | [] => by simp
  | x :: xs => by
    rw [idxOf_cons]
    by_cases h : x.id = b
    · rw [if_pos h]; simp
    · rw [if_neg h, List.take_succ_cons, List.map_cons, List.mem_cons, not_or]
      exact ⟨fun e => h e.symm, not_mem_take_idxOf b xs⟩

theorem posInv_init (ks : List T) (before : Before) (hok : BeforeOK ks before) :
    PosInv before (addTreeStart ks.length before) (ks.take (splitPos ks before)) [] (ks.drop (splitPos ks before)) := by
  cases before with
  | none => exact ⟨rfl, by simp [splitPos]⟩
  | bFalse => exact ⟨rfl, by simp [splitPos]⟩
  | bTrue => simp [PosInv, addTreeStart, splitPos]
  | idx i =>
    simp only [PosInv, addTreeStart, splitPos, List.length_take, Option.some.injEq]
    split <;> split <;> omega
  | node b =>
    have hb := hok b rfl
    refine ⟨rfl, by rw [List.append_nil]; exact not_mem_take_idxOf b ks, ?_⟩
    obtain ⟨c, hc, hcb⟩ := idxOf_getElem? hb
    have hlt := idxOf_lt hb
    refine ⟨ks[idxOf b ks], ks.drop (idxOf b ks + 1), List.drop_eq_getElem_cons hlt, ?_⟩
    rw [List.getElem?_eq_getElem hlt] at hc
    cases hc; exact hcb

theorem posInv_snoc {before : Before} {start : Option Int} {pre newK post : List T} (C : T)
    (hI : PosInv before start pre newK post) (hC : ∀ b, before = .node b → C.id ≠ b) :
    PosInv before start pre (newK ++ [C]) post := by
  cases before with
  | none => exact hI
  | bFalse => exact hI
  | bTrue => exact hI
  | idx i => exact hI
  | node b =>
    obtain ⟨h1, h2, h3⟩ := hI
    refine ⟨h1, ?_, h3⟩
    rw [← List.append_assoc, List.map_append, List.mem_append, not_or]
    exact ⟨h2, by simpa using fun e => hC b rfl e.symm⟩

theorem pyInsert_mid {α} (a b c : List α) (x : α) :
    pyInsert ((a.length : Int) + (b.length : Int)) x (a ++ b ++ c) = a ++ (b ++ [x]) ++ c := by
  unfold pyInsert
  have h1 : ¬ ((a.length : Int) + (b.length : Int) < 0) := by omega
  have h2 : ¬ ((a.length : Int) + (b.length : Int) > ((a ++ b ++ c).length : Int)) := by
    simp only [List.length_append]; omega
  simp only [h1, h2, if_false]
  have h3 : ((a.length : Int) + (b.length : Int)).toNat = (a ++ b).length := by
    rw [List.length_append]; omega
  rw [h3, List.take_left' rfl, List.drop_left' rfl]
  simp

/-- in the invariant's situation the `k`-th `before` is accepted, and the insert puts the new node
between `newK` and `post`. -/
theorem posInv_step {before : Before} {start : Option Int} {pre newK post : List T} (C : T) (cn : Bool)
    (hI : PosInv before start pre newK post) (hcn : cn = true → pre ++ newK ++ post = []) :
    ∃ ins, insertPosition (pre ++ newK ++ post) cn (addTreeB start before newK.length) = .ok ins ∧
      ins (pre ++ newK ++ post) C = pre ++ (newK ++ [C]) ++ post := by
  have hidx : ∀ (i : Int), start = some (pre.length : Int) →
      ∃ ins, insertPosition (pre ++ newK ++ post) cn (addTreeB start before newK.length) = .ok ins ∧
        ins (pre ++ newK ++ post) C = pre ++ (newK ++ [C]) ++ post := by
    intro _ hs
    subst hs
    simp only [addTreeB, insertPosition]
    cases cn with
    | true =>
      have he := hcn rfl
      have hpre : pre = [] := by
        cases pre with
        | nil => rfl
        | cons _ _ => simp at he
      have hnew : newK = [] := by
        cases newK with
        | nil => rfl
        | cons _ _ => simp at he
      have hpost : post = [] := by
        cases post with
        | nil => rfl
        | cons _ _ => simp at he
      subst hpre; subst hnew; subst hpost
      exact ⟨fun l x => l ++ [x], by simp, by simp⟩
    | false => exact ⟨_, rfl, pyInsert_mid pre newK post C⟩
  cases before with
  | none =>
    obtain ⟨rfl, rfl⟩ := hI
    exact ⟨_, rfl, by simp⟩
  | bFalse =>
    obtain ⟨rfl, rfl⟩ := hI
    exact ⟨_, rfl, by simp⟩
  | bTrue => exact hidx 0 hI
  | idx i => exact hidx i hI
  | node b =>
    obtain ⟨rfl, h2, hd, tl, rfl, hb⟩ := hI
    have hany : (pre ++ newK ++ hd :: tl).any (fun k => k.id == b) = true := by
      rw [any_id_eq]; simp [hb]
    refine ⟨fun l x => List.take (idxOf b l) l ++ x :: List.drop (idxOf b l) l,
      by simp only [addTreeB, insertPosition, hany, if_true], ?_⟩
    simp only
    rw [idxOf_append_hit tl hb h2, List.take_left' rfl, List.drop_left' rfl]
    simp

/-! ## 3. the loop -/

/-- **the loop of `add_child(tree)`**: from a well-formed state in which the parent's children are
`pre ++ newK ++ post` (position invariant), none of them carrying the data id of a remaining top
node, the remaining sibling-unique top nodes `todo` are all copied: no error, well-formed state,
the copies are put — in source order — between `newK` and `post`, nothing else changes. -/
theorem addTree_loop (parent : NodeId) (before : Before) (start : Option Int) (deep keepKind : Bool) :
    ∀ (todo : List T) (t : Tree) (nx : NodeId) (p : T) (pre newK post : List T),
      WF t → Fresh t nx → findT parent t.root = some p → p.kids = pre ++ newK ++ post →
      PosInv before start pre newK post → (∀ k ∈ p.kids, ∀ s ∈ todo, k.did ≠ s.did) → Src todo →
      ∃ t', (todo.zipIdx newK.length).foldl (addTreeStep parent start before deep keepKind) (t, nx, none) =
          (t', nx + sizeL (copiesL t.typed deep keepKind nx todo), none) ∧
        WF t' ∧ Fresh t' (nx + sizeL (copiesL t.typed deep keepKind nx todo)) ∧
        t'.root = modT parent (fun _ => pre ++ (newK ++ copiesL t.typed deep keepKind nx todo) ++ post) t.root ∧
        t'.typed = t.typed ∧ t'.hook = t.hook ∧ t'.rootNone = t.rootNone := by
  intro todo
  induction todo with
  | nil =>
    intro t nx p pre newK post h hf hp hk _ _ _
    refine ⟨t, rfl, h, hf, ?_, rfl, rfl, rfl⟩
    have : modT parent (fun _ => pre ++ (newK ++ copiesL t.typed deep keepKind nx []) ++ post) t.root =
        modT parent (fun l => l) t.root :=
      modT_congr_of h.idsN hp (by simp only [copiesL, List.append_nil]; exact hk.symm)
    rw [this, modT_id_of (fun _ => rfl)]
  | cons s ss ih =>
    intro t nx p pre newK post h hf hp hk hI hdis hs
    obtain ⟨hss, hsss, hsne⟩ := Src.cons_iff.1 hs
    obtain ⟨hpm, hpid⟩ := findT_some hp
    -- the node to insert
    let C := copyNode t.typed nx s s.did (if keepKind then s.kind else none) deep
    have hcn : t.childrenNone parent p = true → pre ++ newK ++ post = [] := by
      intro hc
      unfold Tree.childrenNone at hc
      rw [Bool.and_eq_true] at hc
      rw [← hk]
      exact List.isEmpty_iff.1 hc.1
    obtain ⟨ins, hins, hinsC⟩ := posInv_step C (t.childrenNone parent p) hI hcn
    rw [← hk] at hins hinsC
    obtain ⟨t1, hadd⟩ := addData_succeeds (next := nx) (a := s.data) (did := s.did)
      (kind := normKind t.typed (if keepKind then s.kind else none)) h hp hins
      (fun k hk' => hdis k hk' s (by simp))
    obtain ⟨p', hp', res⟩ := addNode_res_of_addData (src := s) deep h hf hss hadd
    rw [hp] at hp'
    cases hp'
    obtain ⟨ins', hins', hroot1⟩ := res.root
    rw [hins] at hins'
    cases hins'
    -- the first step of the loop
    rw [List.zipIdx_cons, List.foldl_cons]
    have hstep : addTreeStep parent start before deep keepKind (t, nx, none) (s, newK.length) =
        (if deep then t1.addFromL (nx + 1) nx s.kids else (t1, nx + 1, none)) := by
      show Tree.addNode t nx parent s false none (addTreeB start before newK.length) (some deep) none
        (if keepKind then s.kind else none) = _
      rw [addNode_plain, hadd]
    rw [hstep]
    rcases hr : (if deep then t1.addFromL (nx + 1) nx s.kids else (t1, nx + 1, none)) with ⟨t2, n2, e2⟩
    rw [hr] at res hroot1
    have he : e2 = none := res.err
    have hn : n2 = nx + size C := res.nextEq
    subst he; subst hn
    have hwf2 : WF t2 := res.wf
    have hf2 : Fresh t2 (nx + size C) := res.fresh
    have hty2 : t2.typed = t.typed := res.typed
    have hroot2 : t2.root = modT parent (fun l => ins l C) t.root := hroot1
    have hp2 : findT parent t2.root = some (.node p.info (pre ++ (newK ++ [C]) ++ post)) := by
      rw [hroot2, findT_modT_self_of hp, hinsC]
    have hCb : ∀ b, before = .node b → C.id ≠ b := by
      intro b hb
      subst hb
      obtain ⟨_, _, hd, tl, hpost, hhd⟩ := hI
      have hdm : hd ∈ p.kids := by rw [hk, hpost]; simp
      have := hf.2 hd (mem_flat_trans (mem_flat_of_mem_kids hdm) hpm)
      rw [hhd] at this
      show nx ≠ b
      exact fun e => Nat.lt_irrefl _ (e ▸ this)
    have hdis2 : ∀ k ∈ (T.node p.info (pre ++ (newK ++ [C]) ++ post)).kids, ∀ s' ∈ ss, k.did ≠ s'.did := by
      intro k hk' s' hs'
      rw [T.kids_node] at hk'
      have : k ∈ p.kids ∨ k = C := by
        rw [hk]
        simp only [List.mem_append, List.mem_singleton] at hk' ⊢
        rcases hk' with (h1 | h1 | h1) | h1
        · exact Or.inl (Or.inl (Or.inl h1))
        · exact Or.inl (Or.inl (Or.inr h1))
        · exact Or.inr h1
        · exact Or.inl (Or.inr h1)
      rcases this with h1 | rfl
      · exact hdis k h1 s' (List.mem_cons_of_mem _ hs')
      · exact hsne s' hs'
    obtain ⟨t', hfold, hwf', hf', hroot', hty', hhook', hrn'⟩ :=
      ih t2 (nx + size C) _ pre (newK ++ [C]) post hwf2 hf2 hp2 rfl (posInv_snoc C hI hCb) hdis2 hsss
    rw [List.length_append, List.length_singleton] at hfold
    rw [hty2] at hfold hf' hroot'
    have hcop : copiesL t.typed deep keepKind nx (s :: ss) = C :: copiesL t.typed deep keepKind (nx + size C) ss := rfl
    have hsz : nx + sizeL (copiesL t.typed deep keepKind nx (s :: ss)) =
        nx + size C + sizeL (copiesL t.typed deep keepKind (nx + size C) ss) := by
      rw [hcop, sizeL_cons, Nat.add_assoc]
    refine ⟨t', by rw [hfold, hsz], hwf', by rw [hsz]; exact hf', ?_, hty'.trans hty2, hhook'.trans res.hook,
      hrn'.trans res.rootNone⟩
    rw [hroot', hroot2, modT_modT_same, hcop]
    refine modT_congr (fun _ _ _ => ?_)
    simp

/-! ## 4. new trees -/

/-- a new (empty) tree of either class is well-formed. -/
theorem WF_newTree (typed : Bool) : WF ({ typed := typed } : Tree) :=
  WF.congr (t := {}) rfl rfl rfl WF_init

theorem fresh_newTree (typed : Bool) {next : NodeId} (hn : 0 < next) : Fresh ({ typed := typed } : Tree) next := by
  refine ⟨hn, fun x hx => ?_⟩
  have : x = mkRoot [] := by simpa [mkRoot, flat_node] using hx
  rw [this]; exact hn

theorem modT_mkRoot (g : List T → List T) (ks : List T) : modT 0 g (mkRoot ks) = mkRoot (g ks) := by
  unfold mkRoot
  rw [modT_node, if_pos (show rootInfo.id = 0 from rfl)]

theorem findT_newTree (typed : Bool) : findT 0 ({ typed := typed } : Tree).root = some (mkRoot []) := by
  show findT 0 (mkRoot []) = _
  unfold mkRoot
  rw [findT_node, if_pos (show rootInfo.id = 0 from rfl)]


/-! ## 5. `addTree` as a whole -/

theorem not_any_collision {tops ks : List T}
    (h : ¬ (tops.any (fun s => ks.any fun k => k.did == s.did)) = true) :
    ∀ k ∈ ks, ∀ s ∈ tops, k.did ≠ s.did := by
  intro k hk s hs e
  refine h (List.any_eq_true.2 ⟨s, hs, List.any_eq_true.2 ⟨k, hk, ?_⟩⟩)
  simpa using e

/-- **`add_child(tree)` / `copy_to` as a whole**: either the call is refused and returns the old
state and counter, or the parent exists and the copies `copiesL …` of the top nodes have been put, in
source order and contiguously, at position `splitPos p.kids before` of the parent's child list; the
state is well-formed, nothing else changes. -/
theorem addTree_spec (t : Tree) (next parent : NodeId) (tops : List T) (before : Before) (deep : Option Bool)
    (keepKind : Bool) (h : WF t) (hf : Fresh t next) (hs : Src tops) :
    (∃ e, t.addTree next parent tops before deep keepKind = (t, next, some e)) ∨
    (∃ p t', findT parent t.root = some p ∧
      (∀ k ∈ p.kids, ∀ s ∈ tops, k.did ≠ s.did) ∧
      t.addTree next parent tops before deep keepKind =
        (t', next + sizeL (copiesL t.typed (deep.getD true) keepKind next tops), none) ∧
      WF t' ∧ Fresh t' (next + sizeL (copiesL t.typed (deep.getD true) keepKind next tops)) ∧
      t'.root = modT parent (fun _ => p.kids.take (splitPos p.kids before) ++
          copiesL t.typed (deep.getD true) keepKind next tops ++ p.kids.drop (splitPos p.kids before)) t.root ∧
      t'.typed = t.typed ∧ t'.hook = t.hook ∧ t'.rootNone = t.rootNone) := by
  rw [addTree_eq]
  cases hp : findT parent t.root with
  | none => exact Or.inl ⟨_, rfl⟩
  | some p =>
    simp only
    by_cases hcol : (tops.any (fun s => p.kids.any fun k => k.did == s.did)) = true
    · rw [if_pos hcol]; exact Or.inl ⟨_, rfl⟩
    · rw [if_neg hcol]
      have hdis := not_any_collision hcol
      by_cases hok : BeforeOK p.kids before
      · obtain ⟨t', hfold, hwf, hfr, hroot, hty, hhook, hrn⟩ :=
          addTree_loop parent before (addTreeStart p.kids.length before) (deep.getD true) keepKind tops t next p
            (p.kids.take (splitPos p.kids before)) [] (p.kids.drop (splitPos p.kids before)) h hf hp
            (by rw [List.append_nil, List.take_append_drop]) (posInv_init p.kids before hok) hdis hs
        refine Or.inr ⟨p, t', rfl, hdis, hfold, hwf, hfr, ?_, hty, hhook, hrn⟩
        rw [hroot, List.nil_append]
      · -- a `before` node that is not a child of the parent
        have hb : ∃ b, before = .node b ∧ b ∉ p.kids.map T.id := by
          apply Classical.byContradiction
          intro hne
          exact hok (fun b hb => Classical.byContradiction fun hm => hne ⟨b, hb, hm⟩)
        obtain ⟨b, rfl, hbm⟩ := hb
        cases tops with
        | nil =>
          refine Or.inr ⟨p, t, rfl, hdis, rfl, h, hf, ?_, rfl, rfl, rfl⟩
          have : modT parent (fun _ => p.kids.take (splitPos p.kids (.node b)) ++
              copiesL t.typed (deep.getD true) keepKind next [] ++ p.kids.drop (splitPos p.kids (.node b))) t.root =
              modT parent (fun l => l) t.root :=
            modT_congr_of h.idsN hp (by simp only [copiesL, List.append_nil, List.take_append_drop])
          rw [this, modT_id_of (fun _ => rfl)]
        | cons s ss =>
          left
          have hins : insertPosition p.kids (t.childrenNone parent p) (.node b) = .error .value := by
            unfold insertPosition
            have : ¬ (p.kids.any (fun k => k.id == b)) = true := fun e => hbm (any_id_eq.1 e)
            simp only [this]
            rfl
          have hadd : ∀ a did kind, t.addData next parent a (.node b) did kind = .error .value := by
            intro a did kind
            unfold Tree.addData
            simp only [hp, hins]
          refine ⟨.value, ?_⟩
          rw [List.zipIdx_cons, List.foldl_cons]
          have hstep : addTreeStep parent (addTreeStart p.kids.length (.node b)) (.node b) (deep.getD true) keepKind
              (t, next, none) (s, 0) = (t, next, some .value) := by
            show Tree.addNode t next parent s false none (.node b) (some (deep.getD true)) none _ = _
            rw [addNode_plain, hadd]
          rw [hstep, foldl_addTreeStep_err]

end Nutree
