/- Helper lemmas for C06 (traversals). -/
import Nutree.Model.Iter
import Nutree.Spec.Iter
namespace Nutree
open T

mutual
theorem iterPre_flat : ∀ t : T, iterPre t = flatL t.kids
  | .node i ks => by simp [iterPre, iterPreL_flat ks]
theorem iterPreL_flat : ∀ ks : List T, iterPreL ks = flatL ks
  | [] => by simp [iterPreL, flatL]
  | .node i ks :: ts => by
    have h1 := iterPre_flat (.node i ks)
    have h2 := iterPreL_flat ts
    simp only [T.kids_node] at h1
    simp [iterPreL, flatL, flat, h1, h2]
end

mutual
theorem iterPost_post : ∀ t : T, iterPost t = postL t.kids
  | .node i ks => by simp [iterPost, iterPostL_post ks]
theorem iterPostL_post : ∀ ks : List T, iterPostL ks = postL ks
  | [] => by simp [iterPostL, postL]
  | .node i ks :: ts => by
    have h1 := iterPost_post (.node i ks)
    have h2 := iterPostL_post ts
    simp only [T.kids_node] at h1
    simp [iterPostL, postL, post, h1, h2]
end

end Nutree
