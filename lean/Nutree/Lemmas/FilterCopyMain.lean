/-
  Nutree.Lemmas.FilterCopyMain — **the copying filter builds `dupL w`**: for a source forest with
  distinct identities, sibling-unique data ids, no kinds, a clean predicate and no self-clone
  collision, `addFilteredL v ks cs stack` succeeds and appends, below the last (possibly still
  virtual) parent of the stack, a forest `C` with `shL C = dupL w ks`; the target stays `Good`.

  The laziness of `_create_parents` is abstracted by `Ctx`: the lemma is stated relative to the
  state `c0` that materialising the current stack *would* yield; nothing is materialised while
  nothing is kept (`nothing`), and the first kept node materialises exactly `c0` plus itself
  (`materialise`).
-/
import Nutree.Lemmas.FilterCopy
namespace Nutree
open T C10
namespace Flt
open Spec

/-- no accepted node has a *kept* child carrying the node's own data id (the case in which the
known duplicate collides with that child). -/
def NoSelfCloneChild (w : T → Verdict) (ks : List T) : Prop :=
  ∀ n ∈ flatL ks, w n = .accept → ∀ c ∈ n.kids, keepT w c ≠ none → c.did ≠ n.did

theorem NoSelfCloneChild.kids {w : T → Verdict} {n : T} {ns : List T} (h : NoSelfCloneChild w (n :: ns)) :
    NoSelfCloneChild w n.kids :=
  fun m hm => h m (by rw [flatL_cons]; exact List.mem_append_left _ (mem_flat_of_mem_flatL_kids hm))

theorem NoSelfCloneChild.tail {w : T → Verdict} {n : T} {ns : List T} (h : NoSelfCloneChild w (n :: ns)) :
    NoSelfCloneChild w ns :=
  fun m hm => h m (by rw [flatL_cons]; exact List.mem_append_right _ hm)

/-- the children already below the target parent carry other data ids than the kept nodes of `ks`. -/
def Uq (w : T → Verdict) (Pk ks : List T) : Prop := ∀ c ∈ Pk, ∀ k ∈ ks, keepT w k ≠ none → c.did ≠ k.did

/-- the context of a call: materialising `stack` in `cs` would give `c0` with the all-existing
stack `s0` whose last parent `p0` is the node `P0` of the good target `c0.t`. -/
structure Ctx (cs : CS) (stack : List SE) (c0 : CS) (s0 : List SE) (p0 : NodeId) (P0 : T) : Prop where
  cp : createParents cs stack 0 [] = (c0, s0, p0)
  err0 : c0.err = none
  idem : Idem s0 p0
  good : Good c0.t c0.next
  find : findT p0 c0.t.root = some P0

theorem Ctx.stopped {cs c0 : CS} {stack s0 : List SE} {p0 : NodeId} {P0 : T} (h : Ctx cs stack c0 s0 p0 P0) :
    c0.stopped = cs.stopped := by
  have := createParents_stopped stack cs 0 []
  rwa [h.cp] at this

/-- outcome of a call on the forest `ks`: `C` is what was appended below `p0`. -/
structure Out (v w : T → Verdict) (ks : List T) (cs : CS) (stack s0 : List SE) (c0 : CS) (p0 : NodeId)
    (r : CS × List SE) (C : List T) : Prop where
  stack : r.2 = if C = [] then stack else s0
  err : r.1.err = none
  stopped : r.1.stopped = (cs.stopped || stopIn v ks)
  shape : shL C = dupL w ks
  nil : C = [] → r.1 = cs.after v ks
  cons : C ≠ [] → Good r.1.t r.1.next ∧ r.1.t.root = modT p0 (fun l => l ++ C) c0.t.root

def MainL (v w : T → Verdict) (ks : List T) : Prop :=
  ∀ (cs : CS) (stack : List SE) (c0 : CS) (s0 : List SE) (p0 : NodeId) (P0 : T),
    IdsNodupL ks → Clean v ks → Agree v w ks cs.stopped → SibUL ks → KindNone ks → NoSelfCloneChild w ks →
    cs.err = none → Ctx cs stack c0 s0 p0 P0 → Uq w P0.kids ks →
    ∃ C, Out v w ks cs stack s0 c0 p0 (addFilteredL v ks cs stack) C

/-- outcome of the loop body for one node. -/
structure OutStep (v w : T → Verdict) (n : T) (ns : List T) (cs : CS) (stack s0 : List SE) (c0 : CS)
    (p0 : NodeId) (r : CS × List SE) (Cn : List T) : Prop where
  stack : r.2.dropLast = if Cn = [] then stack else s0
  err : r.1.err = none
  agree : Agree v w ns r.1.stopped
  stopped : (r.1.stopped || stopIn v ns) = stopIn v (n :: ns)
  shape : shL Cn = (dupT w n).toList
  nil : Cn = [] → r.1 = { cs with stopped := r.1.stopped }
  cons : Cn ≠ [] → Good r.1.t r.1.next ∧ r.1.t.root = modT p0 (fun l => l ++ Cn) c0.t.root

theorem shT_leafOf_node (i : NodeId) (n : T) (X : List T) :
    shT (.node (leafOf i n).info X) = .node n.data.obj n.did none (shL X) := by
  rw [shT_node]; rfl

theorem shT_leafOf (i : NodeId) (n : T) : shT (leafOf i n) = leafSh n := by
  unfold leafOf; rw [shT_node]; rfl

theorem CS.after_eq {cs : CS} (v : T → Verdict) (ks : List T) (hs : cs.stopped = false) :
    cs.after v ks = { cs with stopped := stopIn v ks } := by
  simp [CS.after, hs]

theorem main_step {v w : T → Verdict} {n : T} {ns : List T} (hn : MainL v w n.kids)
    {cs : CS} {stack : List SE} {c0 : CS} {s0 : List SE} {p0 : NodeId} {P0 : T}
    (hN : IdsNodupL (n :: ns)) (hC : Clean v (n :: ns)) (hA : Agree v w (n :: ns) false)
    (hS : SibUL (n :: ns)) (hKd : KindNone (n :: ns)) (hNS : NoSelfCloneChild w (n :: ns))
    (he : cs.err = none) (hs : cs.stopped = false) (ctx : Ctx cs stack c0 s0 p0 P0)
    (hU : Uq w P0.kids (n :: ns)) :
    ∃ Cn, OutStep v w n ns cs stack s0 c0 p0 (nodeStep v n cs (stack ++ [.virtual n])) Cn := by
  have hNn : C10.IdsNodup n := ((idsNodupL_cons n ns).1 hN).1
  have hNk : IdsNodupL n.kids := idsNodupL_kids hNn
  have hc0s : c0.stopped = false := ctx.stopped.trans hs
  have hnmem : n ∈ flatL (n :: ns) := by rw [flatL_cons]; exact List.mem_append_left _ (self_mem_flat n)
  -- what materialising `n` gives, once we know `n` is kept
  have hmat : keepT w n ≠ none → ∃ t1, createParents cs (stack ++ [.virtual n]) 0 [] =
        ({ c0 with t := t1, next := c0.next + 1 }, s0 ++ [.existing c0.next], c0.next) ∧
      Good t1 (c0.next + 1) ∧ t1.root = modT p0 (fun l => l ++ [leafOf c0.next n]) c0.t.root ∧
      findT c0.next t1.root = some (leafOf c0.next n) := fun hk =>
    materialise n ctx.cp ctx.err0 ctx.good ctx.find (fun c hc => hU c hc n List.mem_cons_self hk)
  have hfresh : c0.next ∉ (flat c0.t.root).map T.id := ctx.good.not_mem
  cases hv : v n with
  | other => exact absurd hv hC.head.1
  | error => exact absurd hv hC.head.2
  | skip =>
    obtain ⟨h1, _, h3⟩ := hA.leafy hN (by rw [hv]; rfl) (by rw [hv]; simp)
    have : nodeStep v n cs (stack ++ [.virtual n]) = (cs, stack ++ [.virtual n]) := by
      simp only [nodeStep, hv]
    rw [this]
    refine ⟨[], ⟨by simp, he, by rw [hs]; exact h3, ?_, ?_, fun _ => rfl, fun h => absurd rfl h⟩⟩
    · rw [hs, stopIn_cons_leafy (by rw [hv]; rfl) (by rw [hv]; simp)]; rfl
    · rw [dupT_skip (h1.trans hv)]; rfl
  | stop =>
    have hall := hA.stop hv
    have hk : keepT w n = none := keepT_all_reject (fun m hm =>
      hall m (by rw [flatL_cons]; exact List.mem_append_left _ hm))
    have : nodeStep v n cs (stack ++ [.virtual n]) = ({ cs with stopped := true }, stack ++ [.virtual n]) := by
      simp only [nodeStep, hv]
    rw [this]
    refine ⟨[], ⟨by simp, he, ?_, ?_, ?_, fun _ => rfl, fun h => absurd rfl h⟩⟩
    · exact agree_of_all_reject fun m hm => hall m (by rw [flatL_cons]; exact List.mem_append_right _ hm)
    · rw [stopIn_cons_stop hv]; rfl
    · rw [(dup_none_iff w).1 n |>.2 hk]; rfl
  | reject =>
    obtain ⟨h1, h2, h3⟩ := hA.descend hN (by rw [hv]; rfl)
    have hw : (w n).passes = true := by rw [h1, hv]; rfl
    have hstep : nodeStep v n cs (stack ++ [.virtual n]) = addFilteredL v n.kids cs (stack ++ [.virtual n]) := by
      simp only [nodeStep, hv]; rw [addFilteredT_eq]
    rw [hstep]
    by_cases hkk : keepL w n.kids = []
    · rw [nothing v w n.kids cs _ hNk hC.kids (by rw [hs]; exact h2) hkk he]
      refine ⟨[], ⟨by simp, he, ?_, ?_, ?_, fun _ => ?_, fun h => absurd rfl h⟩⟩
      · simpa [CS.after, hs] using h3
      · simp [CS.after, hs, stopIn_cons_descend (v := v) (n := n) (ns := ns) (by rw [hv]; rfl)]
      · rw [dupT_pass_nil hw ((dup_none_iff w).2 n.kids |>.2 hkk)]; rfl
      · rfl
    · have hkn : keepT w n ≠ none := by rw [keepT_pass_cons hw hkk]; simp
      obtain ⟨t1, m1, m2, m3, m4⟩ := hmat hkn
      have ctx1 : Ctx cs (stack ++ [.virtual n]) { c0 with t := t1, next := c0.next + 1 }
          (s0 ++ [.existing c0.next]) c0.next (leafOf c0.next n) :=
        ⟨m1, ctx.err0, ctx.idem.snoc _, m2, m4⟩
      obtain ⟨Ck, out⟩ := hn cs _ _ _ _ _ hNk hC.kids (by rw [hs]; exact h2) hS.head hKd.kids hNS.kids he ctx1
        (by intro c hc; simp at hc)
      have hdk : dupL w n.kids ≠ [] := fun h => hkk ((dup_none_iff w).2 n.kids |>.1 h)
      have hCk : Ck ≠ [] := by
        intro e; rw [e] at out; exact hdk out.shape.symm
      obtain ⟨g1, g2⟩ := out.cons hCk
      refine ⟨[.node (leafOf c0.next n).info Ck], ⟨?_, out.err, ?_, ?_, ?_, fun h => by simp at h, fun _ => ⟨g1, ?_⟩⟩⟩
      · rw [out.stack, if_neg hCk, List.dropLast_concat]; simp
      · rw [out.stopped, hs]; simpa using h3
      · rw [out.stopped, hs, stopIn_cons_descend (by rw [hv]; rfl)]; simp
      · rw [shL_cons, shL_nil, shT_leafOf_node, out.shape, dupT_pass_cons hw hdk]; rfl
      · rw [g2]
        show modT c0.next (fun l => l ++ Ck) t1.root = _
        rw [m3, modT_graft_leaf hfresh (leafOf_id _ _)]
        simp
  | accept =>
    obtain ⟨h1, h2, h3⟩ := hA.descend hN (by rw [hv]; rfl)
    have hwn : w n = .accept := h1.trans hv
    have hkn : keepT w n ≠ none := by rw [keepT_accept hwn]; simp
    obtain ⟨t1, m1, m2, m3, m4⟩ := hmat hkn
    obtain ⟨t2, d1, d2, d3⟩ := addNode_shallow n m2 m4 (by intro c hc; simp at hc)
    have hstep : nodeStep v n cs (stack ++ [.virtual n]) =
        addFilteredT v n { c0 with t := t2, next := c0.next + 1 + 1 } (s0 ++ [.existing c0.next]) :=
      nodeStep_accept (cs := cs) (stack1 := stack ++ [.virtual n])
        (c := { c0 with t := t1, next := c0.next + 1 }) hv m1 ctx.err0 d1
    rw [hstep, addFilteredT_eq]
    -- the state after the copy and its duplicate
    have hf2 : findT c0.next t2.root =
        some (.node (leafOf c0.next n).info ((leafOf c0.next n).kids ++ [leafOf (c0.next + 1) n])) := by
      rw [d3]; exact findT_modT_self_of m4
    have ctx2 : Ctx { c0 with t := t2, next := c0.next + 1 + 1 } (s0 ++ [.existing c0.next])
        { c0 with t := t2, next := c0.next + 1 + 1 } (s0 ++ [.existing c0.next]) c0.next _ :=
      ⟨(ctx.idem.snoc _) _ ctx.err0, ctx.err0, ctx.idem.snoc _, d2, hf2⟩
    obtain ⟨Ck, out⟩ := hn { c0 with t := t2, next := c0.next + 1 + 1 } (s0 ++ [.existing c0.next]) _ _ _ _
      hNk hC.kids (by show Agree v w n.kids c0.stopped; rw [hc0s]; exact h2)
      hS.head hKd.kids hNS.kids ctx.err0 ctx2 (by
        intro c hc k hk hkk
        simp at hc; subst hc
        exact (hNS n hnmem hwn k hk hkk).symm)
    have hroot : ∀ X : List T, modT c0.next (fun l => l ++ [leafOf (c0.next + 1) n] ++ X) t1.root =
        modT p0 (fun l => l ++ [.node (leafOf c0.next n).info (leafOf (c0.next + 1) n :: X)]) c0.t.root := by
      intro X
      rw [m3, modT_graft_leaf hfresh (leafOf_id _ _)]; simp
    refine ⟨[.node (leafOf c0.next n).info (leafOf (c0.next + 1) n :: Ck)],
      ⟨?_, out.err, ?_, ?_, ?_, fun h => by simp at h, fun _ => ?_⟩⟩
    · rw [out.stack]; simp
    · rw [out.stopped]; show Agree v w ns (c0.stopped || stopIn v n.kids); rw [hc0s]; simpa using h3
    · rw [out.stopped]; show ((c0.stopped || stopIn v n.kids) || stopIn v ns) = _
      rw [hc0s, stopIn_cons_descend (by rw [hv]; rfl)]; simp
    · rw [shL_cons, shL_nil, shT_leafOf_node, shL_cons, shT_leafOf, out.shape, dupT_accept hwn]; rfl
    · by_cases hCk : Ck = []
      · have := out.nil hCk
        rw [this, hCk]
        refine ⟨d2, ?_⟩
        show t2.root = _
        rw [d3, ← hroot []]; simp
      · obtain ⟨g1, g2⟩ := out.cons hCk
        refine ⟨g1, ?_⟩
        rw [g2]
        show modT c0.next (fun l => l ++ Ck) t2.root = _
        rw [d3, modT_modT_same, ← hroot Ck]
  | select =>
    obtain ⟨h1, _, h3⟩ := hA.leafy hN (by rw [hv]; rfl) (by rw [hv]; simp)
    have hwn : w n = .select := h1.trans hv
    have hkn : keepT w n ≠ none := by rw [keepT_select hwn]; simp
    obtain ⟨t1, m1, m2, m3, m4⟩ := hmat hkn
    obtain ⟨t2, n2, Ck, f1, f2, f3, f4⟩ := addFrom_ok n.kids t1 (c0.next + 1) c0.next _ m2 m4
      (by intro c hc; simp at hc) hS.head hKd.kids
    have hstep : nodeStep v n cs (stack ++ [.virtual n]) = ({ c0 with t := t2, next := n2 }, s0 ++ [.existing c0.next]) := by
      have := nodeStep_select (cs := cs) (stack1 := stack ++ [.virtual n])
        (c := { c0 with t := t1, next := c0.next + 1 }) hv m1 ctx.err0 f1
      rw [this]
      have e0 := ctx.err0
      cases c0; simp_all
    rw [hstep]
    refine ⟨[.node (leafOf c0.next n).info Ck], ⟨by simp, ctx.err0, ?_, ?_, ?_, fun h => by simp at h, fun _ => ⟨f2, ?_⟩⟩⟩
    · show Agree v w ns c0.stopped; rw [hc0s]; exact h3
    · show (c0.stopped || stopIn v ns) = _
      rw [hc0s, stopIn_cons_leafy (by rw [hv]; rfl) (by rw [hv]; simp)]; rfl
    · rw [shL_cons, shL_nil, shT_leafOf_node, f4, dupT_select hwn]; rfl
    · show t2.root = _
      rw [f3, m3, modT_graft_leaf hfresh (leafOf_id _ _)]; simp
  | skipKeepSelf =>
    obtain ⟨h1, _, h3⟩ := hA.leafy hN (by rw [hv]; rfl) (by rw [hv]; simp)
    have hwn : w n = .skipKeepSelf := h1.trans hv
    have hkn : keepT w n ≠ none := by rw [keepT_skipKeepSelf hwn]; simp
    obtain ⟨t1, m1, m2, m3, m4⟩ := hmat hkn
    obtain ⟨t2, d1, d2, d3⟩ := addNode_shallow n m2 m4 (by intro c hc; simp at hc)
    have hstep : nodeStep v n cs (stack ++ [.virtual n]) = ({ c0 with t := t2, next := c0.next + 1 + 1 }, s0 ++ [.existing c0.next]) := by
      have := nodeStep_skipKeepSelf (cs := cs) (stack1 := stack ++ [.virtual n])
        (c := { c0 with t := t1, next := c0.next + 1 }) hv m1 ctx.err0 d1
      rw [this]
      have e0 := ctx.err0
      cases c0; simp_all
    rw [hstep]
    refine ⟨[.node (leafOf c0.next n).info [leafOf (c0.next + 1) n]],
      ⟨by simp, ctx.err0, ?_, ?_, ?_, fun h => by simp at h, fun _ => ⟨d2, ?_⟩⟩⟩
    · show Agree v w ns c0.stopped; rw [hc0s]; exact h3
    · show (c0.stopped || stopIn v ns) = _
      rw [hc0s, stopIn_cons_leafy (by rw [hv]; rfl) (by rw [hv]; simp)]; rfl
    · rw [shL_cons, shL_nil, shT_leafOf_node, shL_cons, shL_nil, shT_leafOf, dupT_skipKeepSelf hwn]; rfl
    · show t2.root = _
      rw [d3, m3, modT_graft_leaf hfresh (leafOf_id _ _)]; simp

theorem mainL_nil (v w : T → Verdict) : MainL v w [] := by
  intro cs stack c0 s0 p0 P0 _ _ _ _ _ _ he ctx _
  rw [addFilteredL_nil]
  exact ⟨[], ⟨by simp, he, by simp, by simp, fun _ => by simp [CS.after], fun h => absurd rfl h⟩⟩

theorem CS.eq_of_nil {r cs : CS} (h : r = { cs with stopped := r.stopped }) (h1 : r.stopped = cs.stopped) :
    r = cs := by
  rw [h, h1]

theorem mainL_cons {v w : T → Verdict} {n : T} {ns : List T} (hn : MainL v w n.kids) (hns : MainL v w ns) :
    MainL v w (n :: ns) := by
  intro cs stack c0 s0 p0 P0 hN hC hA hS hKd hNS he ctx hU
  have hNs := ((idsNodupL_cons n ns).1 hN).2.1
  cases hs : cs.stopped with
  | true =>
    rw [hs] at hA
    have hk : keepL w (n :: ns) = [] := keepL_all_reject hA.stopped
    rw [nothing v w (n :: ns) cs stack hN hC (by rw [hs]; exact hA) hk he]
    refine ⟨[], ⟨by simp, he, by simp [CS.after, hs], ?_, fun _ => rfl, fun h => absurd rfl h⟩⟩
    rw [(dup_none_iff w).2 _ |>.2 hk]; rfl
  | false =>
    rw [hs] at hA
    rw [addFilteredL_cons, he, if_neg (by simp [hs])]
    obtain ⟨Cn, st⟩ := main_step hn hN hC hA hS hKd hNS he hs ctx hU
    generalize nodeStep v n cs (stack ++ [.virtual n]) = r at st ⊢
    by_cases hk : keepL w ns = []
    · rw [nothing v w ns r.1 r.2.dropLast hNs hC.tail st.agree hk st.err]
      refine ⟨Cn, ⟨st.stack, st.err, ?_, ?_, fun hCn => ?_, st.cons⟩⟩
      · show (r.1.stopped || stopIn v ns) = _
        rw [st.stopped, hs]; rfl
      · rw [dupL_cons, (dup_none_iff w).2 _ |>.2 hk, List.append_nil]; exact st.shape
      · show r.1.after v ns = cs.after v (n :: ns)
        rw [st.nil hCn]
        simp only [CS.after, hs, Bool.false_or]
        rw [st.stopped]
    · have hfalse : r.1.stopped = false := by
        cases h : r.1.stopped with
        | false => rfl
        | true =>
          have := st.agree; rw [h] at this
          exact absurd (keepL_all_reject this.stopped) hk
      have hdn : dupL w ns ≠ [] := fun h => hk ((dup_none_iff w).2 _ |>.1 h)
      by_cases hCn : Cn = []
      · have hr : r.1 = cs := CS.eq_of_nil (st.nil hCn) (hfalse.trans hs.symm)
        have hst := st.stack
        rw [if_pos hCn] at hst
        rw [hr, hst]
        obtain ⟨C, out⟩ := hns cs stack c0 s0 p0 P0 hNs hC.tail (by rw [hs, ← hfalse]; exact st.agree)
          hS.tail hKd.tail hNS.tail he ctx (fun c hc k hk' => hU c hc k (List.mem_cons_of_mem _ hk'))
        have hsh := st.shape
        rw [hCn, shL_nil] at hsh
        refine ⟨C, ⟨out.stack, out.err, ?_, ?_, fun hC' => ?_, out.cons⟩⟩
        · rw [out.stopped, hs, ← st.stopped, hfalse]; rfl
        · rw [dupL_cons, ← hsh, List.nil_append]; exact out.shape
        · rw [out.nil hC']
          simp only [CS.after, hs, Bool.false_or]
          rw [← st.stopped, hfalse]; rfl
      · obtain ⟨g1, g2⟩ := st.cons hCn
        have hst := st.stack
        rw [if_neg hCn] at hst
        rw [hst]
        have ctx' : Ctx r.1 s0 r.1 s0 p0 (.node P0.info (P0.kids ++ Cn)) :=
          ⟨ctx.idem r.1 st.err, st.err, ctx.idem, g1, by rw [g2]; exact findT_modT_self_of ctx.find⟩
        have hCn1 : ∃ c, Cn = [c] ∧ c.did = n.did := by
          have hsh := st.shape
          cases hd : dupT w n with
          | none => rw [hd] at hsh; exact absurd (shL_eq_nil.1 hsh) hCn
          | some d =>
            rw [hd, Option.toList_some] at hsh
            match Cn, hsh with
            | [c], hsh =>
              refine ⟨c, rfl, ?_⟩
              rw [shL_cons, shL_nil] at hsh
              have hcd : shT c = d := List.head_eq_of_cons_eq hsh
              rw [← shT_did c, hcd]
              have : keepT w n ≠ none := fun h => by rw [(dup_none_iff w).1 n |>.2 h] at hd; cases hd
              exact dupT_did hd
            | [], hsh => simp at hsh
            | _ :: _ :: _, hsh => rw [shL_cons, shL_cons] at hsh; simp at hsh
        obtain ⟨c, hc1, hc2⟩ := hCn1
        obtain ⟨C, out⟩ := hns r.1 s0 r.1 s0 p0 _ hNs hC.tail st.agree hS.tail hKd.tail hNS.tail st.err ctx' (by
          intro x hx k hk' hkk
          rw [kids_node, List.mem_append] at hx
          rcases hx with hx | hx
          · exact hU x hx k (List.mem_cons_of_mem _ hk') hkk
          · rw [hc1, List.mem_singleton] at hx; subst hx
            rw [hc2]; exact hS.head_ne k hk')
        have hCne : C ≠ [] := by
          intro e; rw [e] at out; exact hdn out.shape.symm
        obtain ⟨o1, o2⟩ := out.cons hCne
        refine ⟨Cn ++ C, ⟨?_, out.err, ?_, ?_, fun h => ?_, fun _ => ⟨o1, ?_⟩⟩⟩
        · rw [out.stack]; simp [hCn]
        · rw [out.stopped, hs, st.stopped]; rfl
        · rw [shL_append, st.shape, out.shape, dupL_cons]
        · simp [hCn] at h
        · rw [o2, g2, modT_modT_same]
          congr 1; funext l; simp

/-- **the copying filter builds `dupL w`.** -/
theorem mainL (v w : T → Verdict) (ks : List T) : MainL v w ks :=
  T.bothL (P := fun n => MainL v w n.kids) (Q := MainL v w) (fun _ _ h => h) (mainL_nil v w)
    (fun _ _ => mainL_cons) ks

end Flt
end Nutree
