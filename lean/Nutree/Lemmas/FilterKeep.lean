/-
  Nutree.Lemmas.FilterKeep — facts about the specification `keepT` / `keepL` alone:
  what a kept node looks like (`keepT_some_cases`), kept nodes are a sub-sequence of the source's
  pre-order with unchanged records (`infosL_keepL_sublist`).
-/
import Nutree.Lemmas.FilterInPlace
namespace Nutree
open T C10
namespace Flt
open Spec

/-- a kept node is the source node with all, none, or the kept ones of its children. -/
theorem keepT_some_cases {w : T → Verdict} {n t' : T} (h : keepT w n = some t') :
    t' = n ∨ t' = .node n.info [] ∨ t' = .node n.info (keepL w n.kids) := by
  cases hw : w n with
  | accept => rw [keepT_accept hw] at h; exact Or.inr (Or.inr (Option.some.inj h).symm)
  | select => rw [keepT_select hw] at h; exact Or.inl (Option.some.inj h).symm
  | skipKeepSelf => rw [keepT_skipKeepSelf hw] at h; exact Or.inr (Or.inl (Option.some.inj h).symm)
  | skip => rw [keepT_skip hw] at h; cases h
  | reject | stop | other | error =>
    have hp : (w n).passes = true := by rw [hw]; rfl
    by_cases hk : keepL w n.kids = []
    · rw [keepT_pass_nil hp hk] at h; cases h
    · rw [keepT_pass_cons hp hk] at h; exact Or.inr (Or.inr (Option.some.inj h).symm)

theorem keepT_info {w : T → Verdict} {n t' : T} (h : keepT w n = some t') : t'.info = n.info := by
  rcases keepT_some_cases h with rfl | rfl | rfl <;> rfl

/-- the records of the kept nodes are a sub-sequence of the records of the source, in pre-order. -/
theorem infosL_keepL_sublist (w : T → Verdict) (ks : List T) :
    (infosL (keepL w ks)).Sublist (infosL ks) := by
  refine T.bothL (P := fun t => ∀ t', keepT w t = some t' → (infos t').Sublist (infos t))
    (Q := fun ks => (infosL (keepL w ks)).Sublist (infosL ks)) ?_ ?_ ?_ ks
  · intro i ks ih t' h
    rcases keepT_some_cases h with rfl | rfl | rfl
    · exact List.Sublist.refl _
    · rw [infos_node, infos_node, infosL_nil]
      exact List.Sublist.cons_cons _ (List.nil_sublist _)
    · rw [infos_node, infos_node]
      exact List.Sublist.cons_cons _ ih
  · simp
  · intro t ts iht ihts
    rw [keepL_cons, infosL_cons]
    cases hk : keepT w t with
    | none => exact ihts.trans (List.sublist_append_right _ _)
    | some t' =>
      rw [Option.toList_some, List.singleton_append, infosL_cons]
      exact List.Sublist.append (iht t' hk) ihts

end Flt
end Nutree
