/-
  Nutree.Lemmas.LockInv — the inductive invariant of the lock protocol (C18) and its
  preservation by `step` / `run` (re-entrant lock, guarded programs, arbitrary schedule).
-/
import Nutree.Lemmas.LockBasic
namespace Nutree
namespace Lock

/-- effect of one event on the lock depth of the executing thread. -/
def bump : Ev → Nat → Nat
  | .acq, d => d + 1
  | .rel, d => d - 1
  | _, d => d

/-- replay the events of thread `k` in a trace (newest first) on the start depth `d`. -/
def depFrom (k : Tid) (d : Nat) : List Entry → Nat
  | [] => d
  | x :: t => if x.1 = k then bump x.2.1 (depFrom k d t) else depFrom k d t

/-- lock depth of thread `k` as determined by the history alone. -/
def dep (k : Tid) (t : List Entry) : Nat := depFrom k 0 t

/-- the events executed by thread `k`, oldest first (the trace is newest first). -/
def evsOf (k : Tid) : List Entry → List Ev
  | [] => []
  | x :: t => if x.1 = k then evsOf k t ++ [x.2.1] else evsOf k t

/-- every entry is tagged with the thread that (according to the history before it) holds the
lock, and an entry was executed either by the lock owner, or is an `acq` of the free lock. -/
def TraceOK : List Entry → Prop
  | [] => True
  | x :: t => (∀ k, x.2.2 = some k ↔ 0 < dep k t) ∧
      (x.2.2 = some x.1 ∨ (x.2.2 = none ∧ x.2.1 = .acq)) ∧ TraceOK t

/-- the lock part of the invariant: owner, count, and the per-thread depths agree. -/
structure LockInv (o : Option Tid) (n : Nat) (d : Tid → Nat) : Prop where
  owner_count : o = none ↔ n = 0
  owner_depth : ∀ i, o = some i → d i = n ∧ ∀ j, j ≠ i → d j = 0
  free_depth : o = none → ∀ j, d j = 0

/-- the invariant of all configurations reachable from `Cfg.init ps`. -/
structure Inv (ps : List Prog) (c : Cfg) : Prop where
  progs_len : c.progs.length = ps.length
  depth_len : c.depth.length = ps.length
  lock : LockInv c.owner c.count c.depthOf
  guarded : ∀ i p, c.progs[i]? = some p → guardedFrom (c.depthOf i) p = true
  trace_dep : ∀ k, dep k c.trace = c.depthOf k
  trace_ok : TraceOK c.trace
  trace_prog : ∀ k, evsOf k c.trace ++ c.progs[k]?.getD [] = ps[k]?.getD []

/-! ### history functions -/

theorem depFrom_append (k : Tid) (d : Nat) (s t : List Entry) :
    depFrom k d (s ++ t) = depFrom k (depFrom k d t) s := by
  induction s with
  | nil => rfl
  | cons x s ih => simp [depFrom, ih]

theorem dep_append (k : Tid) (s t : List Entry) : dep k (s ++ t) = depFrom k (dep k t) s :=
  depFrom_append k 0 s t

theorem dep_cons (k : Tid) (x : Entry) (t : List Entry) :
    dep k (x :: t) = if x.1 = k then bump x.2.1 (dep k t) else dep k t := rfl

theorem traceOK_append {s t : List Entry} (h : TraceOK (s ++ t)) : TraceOK t := by
  induction s with
  | nil => exact h
  | cons x s ih => exact ih h.2.2

theorem guardedFrom_bump {d : Nat} {e : Ev} {r : Prog} (h : guardedFrom d (e :: r) = true) :
    guardedFrom (bump e d) r = true := by
  cases e with
  | acq => exact h
  | rel => exact (guardedFrom_rel h).2
  | read => exact (guardedFrom_read h).2
  | write => exact (guardedFrom_write h).2

/-! ### the lock part -/

theorem LockInv.owner_iff {o : Option Tid} {n : Nat} {d : Tid → Nat} (h : LockInv o n d)
    (k : Tid) : o = some k ↔ 0 < d k := by
  constructor
  · intro hk
    have h1 := (h.owner_depth k hk).1
    have h2 : n ≠ 0 := fun h0 => by
      have := h.owner_count.mpr h0
      rw [hk] at this; cases this
    omega
  · intro hk
    cases ho : o with
    | none => have := h.free_depth ho k; omega
    | some i =>
      by_cases hik : k = i
      · rw [hik]
      · have := (h.owner_depth i ho).2 k hik; omega

theorem LockInv.count_pos {o : Option Tid} {n : Nat} {d : Tid → Nat} (h : LockInv o n d)
    {i : Tid} (ho : o = some i) : 0 < n := by
  have : n ≠ 0 := fun h0 => by
    have := h.owner_count.mpr h0
    rw [ho] at this; cases this
  omega

theorem LockInv.acq {o : Option Tid} {n : Nat} {d : Tid → Nat} (h : LockInv o n d) {i : Tid}
    (ho : o = none ∨ o = some i) :
    LockInv (some i) (n + 1) (fun k => if k = i then d i + 1 else d k) := by
  have hd : d i = n ∧ ∀ j, j ≠ i → d j = 0 := by
    cases ho with
    | inl ho =>
      have := h.owner_count.mp ho
      exact ⟨by rw [h.free_depth ho i, this], fun j _ => h.free_depth ho j⟩
    | inr ho => exact h.owner_depth i ho
  refine ⟨by simp, ?_, by simp⟩
  intro k hk
  cases hk
  refine ⟨by simp [hd.1], ?_⟩
  intro j hj
  simp [hj, hd.2 j hj]

theorem LockInv.rel {o : Option Tid} {n : Nat} {d : Tid → Nat} (h : LockInv o n d) {i : Tid}
    (ho : o = some i) :
    LockInv (if (n - 1 == 0) = true then none else some i) (n - 1)
      (fun k => if k = i then d i - 1 else d k) := by
  have hd := h.owner_depth i ho
  by_cases hn : n - 1 = 0
  · simp only [hn, beq_self_eq_true, if_true]
    refine ⟨by simp, by simp, ?_⟩
    intro _ j
    by_cases hj : j = i
    · simp [hj, hd.1, hn]
    · simp [hj, hd.2 j hj]
  · have hb : (n - 1 == 0) = false := by simpa using hn
    simp only [hb]
    refine ⟨by simpa using hn, ?_, by simp⟩
    intro k hk
    simp at hk
    subst hk
    refine ⟨by simp [hd.1], ?_⟩
    intro j hj
    simp [hj, hd.2 j hj]

/-! ### effect of an executed step on depth, owner, count -/

theorem lt_depth_of_progs {ps : List Prog} {c : Cfg} (h : Inv ps c) {i : Tid} {p : Prog}
    (hp : c.progs[i]? = some p) : i < c.depth.length := by
  have := (List.getElem?_eq_some_iff.mp hp).1
  rw [h.depth_len, ← h.progs_len]; exact this

theorem step_depth_len (r : Bool) (c : Cfg) (i : Tid) :
    (step r c i).depth.length = c.depth.length := by
  cases hen : enabled r c i with
  | false => rw [step_of_not_enabled hen]
  | true =>
    obtain ⟨e, rest, hp⟩ := enabled_some hen
    cases e with
    | acq => rw [step_acq hen hp]; simp
    | rel => rw [step_rel hen hp]; simp
    | read => rw [step_read hen hp]
    | write => rw [step_write hen hp]

theorem step_depthOf {r : Bool} {c : Cfg} {i : Tid} {e : Ev} {rest : Prog}
    (hen : enabled r c i = true) (hp : c.progs[i]? = some (e :: rest))
    (hi : i < c.depth.length) :
    (step r c i).depthOf = fun k => if k = i then bump e (c.depthOf i) else c.depthOf k := by
  funext k
  by_cases hk : k = i
  · subst hk
    cases e with
    | acq => rw [step_acq hen hp]; simp [Cfg.depthOf, getD_set_self hi, bump]
    | rel => rw [step_rel hen hp]; simp [Cfg.depthOf, getD_set_self hi, bump]
    | read => rw [step_read hen hp]; simp [Cfg.depthOf, bump]
    | write => rw [step_write hen hp]; simp [Cfg.depthOf, bump]
  · have hk' : i ≠ k := fun h => hk h.symm
    cases e with
    | acq => rw [step_acq hen hp]; simp [Cfg.depthOf, getD_set_ne hk', hk]
    | rel => rw [step_rel hen hp]; simp [Cfg.depthOf, getD_set_ne hk', hk]
    | read => rw [step_read hen hp]; simp [Cfg.depthOf, hk]
    | write => rw [step_write hen hp]; simp [Cfg.depthOf, hk]

/-- who may execute: the owner, or anybody acquiring the free lock. -/
theorem executor_owns {ps : List Prog} {c : Cfg} (h : Inv ps c) {i : Tid} {e : Ev} {rest : Prog}
    (hen : enabled true c i = true) (hp : c.progs[i]? = some (e :: rest)) :
    c.owner = some i ∨ (c.owner = none ∧ e = .acq) := by
  have hg := h.guarded i _ hp
  by_cases he : e = .acq
  · subst he
    rw [enabled_acq hp] at hen
    cases ho : c.owner with
    | none => exact Or.inr ⟨rfl, rfl⟩
    | some j =>
      rw [ho] at hen
      simp at hen
      exact Or.inl (by rw [hen])
  · exact Or.inl ((h.lock.owner_iff i).mpr (guardedFrom_pos_of_ne_acq hg he))

theorem step_lock {ps : List Prog} {c : Cfg} (h : Inv ps c) {i : Tid} {e : Ev} {rest : Prog}
    (hen : enabled true c i = true) (hp : c.progs[i]? = some (e :: rest)) :
    LockInv (step true c i).owner (step true c i).count (step true c i).depthOf := by
  have hi := lt_depth_of_progs h hp
  have hown := executor_owns h hen hp
  rw [step_depthOf hen hp hi]
  cases e with
  | acq =>
    rw [step_acq hen hp]
    have ho : c.owner = none ∨ c.owner = some i := by
      cases hown with
      | inl h1 => exact Or.inr h1
      | inr h1 => exact Or.inl h1.1
    exact h.lock.acq ho
  | rel =>
    rw [step_rel hen hp]
    have ho : c.owner = some i := by
      cases hown with
      | inl h1 => exact h1
      | inr h1 => cases h1.2
    exact h.lock.rel ho
  | read =>
    rw [step_read hen hp]
    have : (fun k => if k = i then bump Ev.read (c.depthOf i) else c.depthOf k) = c.depthOf := by
      funext k; by_cases hk : k = i <;> simp [hk, bump]
    rw [this]; exact h.lock
  | write =>
    rw [step_write hen hp]
    have : (fun k => if k = i then bump Ev.write (c.depthOf i) else c.depthOf k) = c.depthOf := by
      funext k; by_cases hk : k = i <;> simp [hk, bump]
    rw [this]; exact h.lock

/-! ### preservation -/

theorem inv_init (ps : List Prog) (hps : ∀ p ∈ ps, Guarded p) : Inv ps (Cfg.init ps) := by
  have hd : ∀ k, (Cfg.init ps).depthOf k = 0 := by
    intro k
    simp only [Cfg.depthOf, Cfg.init, List.getElem?_map]
    cases ps[k]? <;> rfl
  refine ⟨rfl, by simp [Cfg.init], ⟨by simp [Cfg.init], ?_, fun _ j => hd j⟩, ?_, ?_, trivial, ?_⟩
  · intro i hi; simp [Cfg.init] at hi
  · intro i p hp
    rw [hd i]
    exact hps p (List.mem_iff_getElem?.mpr ⟨i, hp⟩)
  · intro k; rw [hd k]; rfl
  · intro k; simp [Cfg.init, evsOf]

theorem inv_step {ps : List Prog} {c : Cfg} (h : Inv ps c) (i : Tid) :
    Inv ps (step true c i) := by
  cases hen : enabled true c i with
  | false => rw [step_of_not_enabled hen]; exact h
  | true =>
    obtain ⟨e, rest, hp⟩ := enabled_some hen
    have hi := lt_depth_of_progs h hp
    have hip : i < c.progs.length := by rw [h.progs_len, ← h.depth_len]; exact hi
    have hown := executor_owns h hen hp
    have hg := h.guarded i _ hp
    refine ⟨?_, ?_, step_lock h hen hp, ?_, ?_, ?_, ?_⟩
    · rw [step_progs hen hp, List.length_set, h.progs_len]
    · rw [step_depth_len, h.depth_len]
    · intro k p hk
      rw [step_progs hen hp] at hk
      rw [step_depthOf hen hp hi]
      by_cases hki : k = i
      · subst hki
        rw [List.getElem?_set_self hip] at hk
        cases hk
        simpa using guardedFrom_bump hg
      · rw [List.getElem?_set_ne (fun h => hki h.symm)] at hk
        simpa [hki] using h.guarded k p hk
    · intro k
      rw [step_trace hen hp, step_depthOf hen hp hi, dep_cons]
      by_cases hki : k = i
      · subst hki; simp [h.trace_dep]
      · have : ¬ i = k := fun h => hki h.symm
        simp [hki, this, h.trace_dep]
    · rw [step_trace hen hp]
      refine ⟨?_, hown, h.trace_ok⟩
      intro k
      show c.owner = some k ↔ 0 < dep k c.trace
      rw [h.trace_dep]
      exact h.lock.owner_iff k
    · intro k
      rw [step_trace hen hp, step_progs hen hp]
      have := h.trace_prog k
      by_cases hki : k = i
      · subst hki
        rw [List.getElem?_set_self hip]
        rw [hp] at this
        simpa [evsOf] using this
      · have hik : ¬ i = k := fun h => hki h.symm
        rw [List.getElem?_set_ne hik]
        simpa [evsOf, hik] using this

theorem inv_run {ps : List Prog} {c : Cfg} (h : Inv ps c) (sched : List Tid) :
    Inv ps (run true c sched) := by
  induction sched generalizing c with
  | nil => exact h
  | cons i s ih => exact ih (inv_step h i)

theorem inv_reachable' (ps : List Prog) (hps : ∀ p ∈ ps, Guarded p) (sched : List Tid) :
    Inv ps (run true (Cfg.init ps) sched) :=
  inv_run (inv_init ps hps) sched

end Lock
end Nutree
