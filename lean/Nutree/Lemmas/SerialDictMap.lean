/-
  Nutree.Lemmas.SerialDictMap — the nested dict form with a PAIR OF MAPPERS
  (`to_dict_list(mapper=ser)` / `from_dict(obj, mapper=deser)`), any data objects.

  * `encFields ser n`: the fields of `toDict ser n` (`toDict_enc`), and the lookups `from_dict` performs on them.
  * `MapperOK sa ser deser n`: what "a pair of inverse mappers" means at node `n`: the serialisation mapper leaves the
    keys `data_id` / `children` alone, and the de-serialisation side (`itemData`: the mapper, or `item["data"]` when
    there is none) finds the node's data object again from the object written for `n`.
  * `fromDictL_step_gen`, `fromDictL_toDictL_gen`: the round trip for any such pair.
-/
import Nutree.Lemmas.SerialDict
import Nutree.Lemmas.SerialMaps
namespace Nutree.Ser
open Nutree T Nutree.Flt.Spec

/-- the dict `to_dict` builds before the mapper sees it. -/
def baseFields (n : T) : Fields :=
  [("data", .str n.name)] ++ (if n.did != n.data.hid then [("data_id", didJ n.did)] else [])

/-- ... after the mapper (`call_mapper`: `None` keeps the dict). -/
def mapped (ser : T → Fields → Option Fields) (n : T) : Fields := (ser n (baseFields n)).getD (baseFields n)

/-- the fields of `toDict ser n`. -/
def encFields (ser : T → Fields → Option Fields) (n : T) : Fields :=
  if n.kids.isEmpty then mapped ser n else setField (mapped ser n) "children" (.arr (toDictL ser n.kids))

theorem toDict_enc (ser : T → Fields → Option Fields) (n : T) : toDict ser n = .obj (encFields ser n) := by
  cases n with
  | node i ks => rw [toDict]; rfl

/-- a pair of inverse mappers, at node `n`. -/
structure MapperOK (sa : String → Atom) (ser : T → Fields → Option Fields) (deser : Option (Fields → DRes)) (n : T) : Prop where
  /-- the serialisation mapper does not touch the `data_id` entry -/
  did : lookupF (mapped ser n) "data_id" = lookupF (baseFields n) "data_id"
  /-- ... and does not invent a `children` entry -/
  nokids : lookupF (mapped ser n) "children" = none
  /-- the reading side finds the data object again from the object written for `n` -/
  back : itemData sa deser (encFields ser n) = .ok n.data

theorem lookup_base_data_id (n : T) :
    lookupF (baseFields n) "data_id" = if n.did ≠ n.data.hid then some (didJ n.did) else none := by
  by_cases h : n.did = n.data.hid <;> simp [lookupF, baseFields, List.lookup, h]

theorem lookup_enc_data_id {sa ser deser} {n : T} (h : MapperOK sa ser deser n) :
    lookupF (encFields ser n) "data_id" = if n.did ≠ n.data.hid then some (didJ n.did) else none := by
  rw [← lookup_base_data_id, ← h.did]
  unfold encFields
  split
  · rfl
  · exact lookup_setField_of_ne _ _ (by decide)

theorem dataId_of_enc {sa ser deser} {n : T} (h : MapperOK sa ser deser n) :
    (lookupF (encFields ser n) "data_id").bind jDid = if n.did ≠ n.data.hid then some n.did else none := by
  rw [lookup_enc_data_id h]
  by_cases hc : n.did = n.data.hid <;> simp [hc]

theorem didUnhashable_enc {sa ser deser} {n : T} (h : MapperOK sa ser deser n) : didUnhashable (encFields ser n) = false := by
  have e := lookup_enc_data_id h
  unfold lookupF at e
  unfold didUnhashable
  rw [e]
  by_cases hc : n.did = n.data.hid
  · simp [hc]
  · simp only [ne_eq, hc, not_false_eq_true, if_true]
    cases n.did <;> rfl

theorem children_of_enc {sa ser deser} {n : T} (h : MapperOK sa ser deser n) :
    (lookupF (encFields ser n) "children" = none ∧ toDictL ser n.kids = []) ∨
      lookupF (encFields ser n) "children" = some (.arr (toDictL ser n.kids)) := by
  unfold encFields
  cases hk : n.kids with
  | nil => left; simp only [List.isEmpty_nil, if_true]; exact ⟨h.nokids, by rw [toDictL]⟩
  | cons k ks =>
    right
    simp only [List.isEmpty_cons, Bool.false_eq_true, if_false]
    exact lookup_setField_self _ _ _

/-- one round of `from_dict` on an object whose data object is found and whose node can be added. -/
theorem fromDictL_step_gen {sa : String → Atom} {deser : Option (Fields → DRes)} {f : Nat} {d : Fields}
    {rest kidsJ : List JVal} {t t1 t2 : Tree} {p nx n2 : NodeId} {a : Atom}
    (hdata : itemData sa deser d = .ok a)
    (hun : didUnhashable d = false)
    (hadd : t.addData nx p a .none ((lookupF d "data_id").bind jDid) none = .ok t1)
    (hc : (lookupF d "children" = none ∧ kidsJ = []) ∨ lookupF d "children" = some (.arr kidsJ))
    (hk : fromDictL sa deser f kidsJ t1 nx (nx + 1) = .ok (t2, n2)) :
    fromDictL sa deser (f + 1) (.obj d :: rest) t p nx = fromDictL sa deser (f + 1) rest t2 p n2 := by
  rw [fromDictL]
  rcases hc with ⟨hc, rfl⟩ | hc <;> simp only [hdata, hadd, hc, hk, childItems, hun, Bool.false_eq_true, if_false]

/-- **Reading `to_dict_list(mapper=ser)` of a forest below an existing node, with the inverse mapper.**
`t` is well-formed, untyped, without id
hook, `nx` is fresh, `p` exists and none of its children carries a data id of a top node of `ks`;
`ks` has sibling-unique data ids, the mapper pair is inverse on every node (`MapperOK`), no kinds, and the fuel covers
its height.  Then `fromDictL` succeeds, appends a forest `ks'` below `p` (nothing else changes)
which has the shape and payload of `ks`, consumes exactly one fresh id per node, and the state stays
well-formed. -/
theorem fromDictL_toDictL_gen (sa : String → Atom) (ser : T → Fields → Option Fields) (deser : Option (Fields → DRes)) :
    ∀ (ks : List T) (fuel : Nat) (t : Tree) (p nx : NodeId) (P : T),
      WF t → C01.Fresh t nx → t.typed = false → t.hook = none → findT p t.root = some P →
      (∀ c ∈ P.kids, c.did ∉ ks.map T.did) →
      (ks.map T.did).Nodup → (∀ x ∈ flatL ks, (x.kids.map T.did).Nodup) →
      heightL ks ≤ fuel →
      (∀ n ∈ flatL ks, MapperOK sa ser deser n) → (∀ n ∈ flatL ks, n.kind = none) →
      ∃ t' ks', fromDictL sa deser fuel (toDictL ser ks) t p nx = .ok (t', nx + (flatL ks).length) ∧
        t'.root = modT p (fun l => l ++ ks') t.root ∧ shL ks' = shL ks ∧
        WF t' ∧ C01.Fresh t' (nx + (flatL ks).length) ∧ t'.typed = false ∧ t'.hook = none
  | [], fuel, t, p, nx, P, h, hf, hty, hhk, hP, _, _, _, _, _, _ => by
    refine ⟨t, [], ?_, ?_, rfl, h, ?_, hty, hhk⟩
    · rw [toDictL, fromDictL_nil]; simp
    · have : (fun l : List T => l ++ []) = _root_.id := by funext l; simp
      have hid : ∀ r : T, modT p _root_.id r = r := by
        intro r
        induction r using T.ind with
        | node i ks ih =>
          rw [modT_node]
          split
          · rfl
          · congr 1
            exact (List.map_congr_left ih).trans (List.map_id' ks)
      rw [this, hid]
    · simpa using hf
  | .node i ks :: rest, fuel, t, p, nx, P, h, hf, hty, hhk, hP, hPk, hnd, hsib, hfuel, hdata, hkind => by
    obtain ⟨f, rfl, hfk, hfr⟩ := dict_heightL_cons_le hfuel
    rw [T.kids_node] at hfk
    have hnmem : T.node i ks ∈ flatL (T.node i ks :: rest) := by
      rw [flatL_cons, flat_node]; simp
    have hksub : ∀ x ∈ flatL ks, x ∈ flatL (T.node i ks :: rest) := by
      intro x hx; rw [flatL_cons, flat_node]; simp [hx]
    have hrsub : ∀ x ∈ flatL rest, x ∈ flatL (T.node i ks :: rest) := by
      intro x hx; rw [flatL_cons]; exact List.mem_append_right _ hx
    have hok : MapperOK sa ser deser (T.node i ks) := hdata _ hnmem
    have hik : i.kind = none := hkind _ hnmem
    rw [List.map_cons, List.nodup_cons] at hnd
    -- 1. the node itself
    have hdid : ((lookupF (encFields ser (T.node i ks)) "data_id").bind jDid) = some i.did ∨
        (((lookupF (encFields ser (T.node i ks)) "data_id").bind jDid) = none ∧ t.hook = none ∧
          i.did = i.data.hid) := by
      have e := dataId_of_enc hok
      change _ = if i.did ≠ i.data.hid then some i.did else none at e
      rw [e]
      by_cases hc : i.did = i.data.hid
      · right; simp [hc, hhk]
      · left; simp [hc]
    have hsib1 : ∀ c ∈ P.kids, c.did ≠ i.did := by
      intro c hc e
      exact hPk c hc (by rw [e]; simp)
    obtain ⟨t1, hadd, hroot1, h1, hf1, hty1, hhk1⟩ :=
      addData_append (a := i.data) (kind := none) h hf hP hdid hsib1
    rw [hty] at hroot1
    simp only [Bool.false_eq_true, if_false] at hroot1
    have hty1' : t1.typed = false := hty1.trans hty
    have hhk1' : t1.hook = none := hhk1.trans hhk
    -- 2. the new leaf is found
    have hN1 : C10.IdsNodup (modT p (fun l => l ++ [T.node { id := nx, data := i.data, did := i.did, kind := none } []]) t.root) := by
      rw [← hroot1]; exact h1.idsN
    have hleaf : findT nx t1.root = some (T.node { id := nx, data := i.data, did := i.did, kind := none } []) := by
      rw [hroot1]
      exact findT_appended_leaf (i := { id := nx, data := i.data, did := i.did, kind := none }) hP hN1
    -- 3. the children below the new leaf
    obtain ⟨t2, ks', hrun2, hroot2, hsh2, h2, hf2, hty2, hhk2⟩ :=
      fromDictL_toDictL_gen sa ser deser ks f t1 nx (nx + 1) _ h1 hf1 hty1' hhk1' hleaf
        (by intro c hc; simp at hc)
        (hsib _ hnmem)
        (fun x hx => hsib x (hksub x hx)) hfk
        (fun x hx => hdata x (hksub x hx)) (fun x hx => hkind x (hksub x hx))
    -- 4. the new leaf with its children, seen from `p`
    have hpn : p ≠ nx := by
      obtain ⟨hPm, hPid⟩ := findT_some hP
      have := hf.2 P hPm
      rw [hPid] at this
      exact Nat.ne_of_lt this
    rw [hroot1, modT_fill_new (i := { id := nx, data := i.data, did := i.did, kind := none }) rfl hf.not_mem hpn]
      at hroot2
    have hP2 : findT p t2.root = some (T.node P.info (P.kids ++ [T.node { id := nx, data := i.data, did := i.did, kind := none } ks'])) := by
      rw [hroot2]; exact findT_modT_append hP
    -- 5. the remaining siblings
    obtain ⟨t3, rs', hrun3, hroot3, hsh3, h3, hf3, hty3, hhk3⟩ :=
      fromDictL_toDictL_gen sa ser deser rest (f + 1) t2 p (nx + 1 + (flatL ks).length) _ h2 hf2 hty2 hhk2 hP2
        (by
          intro c hc
          rw [T.kids_node, List.mem_append, List.mem_singleton] at hc
          rcases hc with hc | rfl
          · intro hm; exact hPk c hc (by rw [List.map_cons]; exact List.mem_cons_of_mem _ hm)
          · exact hnd.1)
        hnd.2
        (fun x hx => hsib x (hrsub x hx)) hfr
        (fun x hx => hdata x (hrsub x hx)) (fun x hx => hkind x (hrsub x hx))
    have hlen : nx + (flatL (T.node i ks :: rest)).length = nx + 1 + (flatL ks).length + (flatL rest).length := by
      simp only [flatL_cons, flat_node, List.length_append, List.length_cons]
      exact (by omega : ∀ a b c : Nat, a + (b + 1 + c) = a + 1 + b + c) _ _ _
    refine ⟨t3, T.node { id := nx, data := i.data, did := i.did, kind := none } ks' :: rs', ?_, ?_, ?_, h3, ?_, hty3, hhk3⟩
    · rw [toDictL, toDict_enc, hlen]
      rw [fromDictL_step_gen hok.back (didUnhashable_enc hok) hadd (children_of_enc hok) hrun2]
      exact hrun3
    · rw [hroot3, hroot2, modT_modT_same]
      congr 1
      funext l; simp
    · rw [dict_shL_cons, dict_shL_cons, dict_shT_node, dict_shT_node, hsh2, hsh3, hik]
    · rw [hlen]; exact hf3

end Nutree.Ser
