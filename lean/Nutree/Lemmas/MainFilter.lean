/-
  Nutree.Lemmas.MainFilter — the copying filter (`_add_filtered`: `Flt.treeFiltered`,
  `Flt.nodeFiltered`) keeps its target well-formed **for every verdict function** — including
  unrecognised answers, raising predicates and copies that collide (`UniqueConstraintError`
  half-way) — and never decreases the id counter.  No hypothesis on the source.

  Every step of `createParents` / `addFilteredL` is an `addNode` or an `addFromL` on the target
  (`addNode_inv`, `addFromL_inv` of Lemmas/MainAdd.lean) or leaves the target alone.
-/
import Nutree.Lemmas.FilterCopy
import Nutree.Lemmas.MainAdd
import Nutree.Lemmas.CopyTree
namespace Nutree
open T C01
namespace Flt

/-- the copy state is fine: target well-formed, counter fresh. -/
def CSOK (cs : CS) : Prop := WF cs.t ∧ Fresh cs.t cs.next

/-- `cs'` is a fine state reached from `cs` without decreasing the counter. -/
def CSStep (cs cs' : CS) : Prop := CSOK cs' ∧ cs.next ≤ cs'.next

theorem CSStep.refl {cs : CS} (h : CSOK cs) : CSStep cs cs := ⟨h, Nat.le_refl _⟩

theorem CSStep.trans {a b c : CS} (h1 : CSStep a b) (h2 : CSStep b c) : CSStep a c :=
  ⟨h2.1, Nat.le_trans h1.2 h2.2⟩

/-- changing only the flags. -/
theorem CSStep.flags {cs : CS} (h : CSOK cs) (e : Option Err) (s : Bool) :
    CSStep cs { cs with err := e, stopped := s } := ⟨h, Nat.le_refl _⟩

/-- one `add_child(node)` on the target. -/
theorem CSStep.addNode {c : CS} (h : CSOK c) (p : NodeId) (n : T) (e' : Option Err → Option Err) :
    CSStep c { c with t := (c.t.addNode c.next p n false none .none none none none).1,
                      next := (c.t.addNode c.next p n false none .none none none none).2.1,
                      err := e' (c.t.addNode c.next p n false none .none none none none).2.2 } := by
  have := addNode_inv c.t c.next p n false none .none none none none h.1 h.2
  exact ⟨⟨this.1, this.2.1⟩, this.2.2⟩

/-- `_create_parents` keeps the target fine. -/
theorem createParents_inv : ∀ (stack : List SE) (cs : CS) (p : NodeId) (done : List SE), CSOK cs →
    CSStep cs (createParents cs stack p done).1
  | [], cs, p, done, h => by rw [createParents_nil]; exact CSStep.refl h
  | .existing i :: rest, cs, p, done, h => by
    rw [createParents_existing]; exact createParents_inv rest cs i _ h
  | .virtual n :: rest, cs, p, done, h => by
    rw [createParents]
    split
    · exact CSStep.refl h
    · have h1 := CSStep.addNode h p n (fun e => e)
      rcases hadd : cs.t.addNode cs.next p n false none .none none none none with ⟨t1, n1, e⟩
      rw [hadd] at h1
      cases e with
      | some e => exact ⟨h1.1, h1.2⟩
      | none =>
        have h1' : CSStep cs { cs with t := t1, next := n1 } := ⟨h1.1, h1.2⟩
        exact h1'.trans (createParents_inv rest _ cs.next _ h1'.1)

/-- the statement for one source node / a source forest. -/
def FInvT (v : T → Verdict) (n : T) : Prop :=
  ∀ (cs : CS) (stack : List SE), CSOK cs → CSStep cs (addFilteredT v n cs stack).1
def FInvL (v : T → Verdict) (ks : List T) : Prop :=
  ∀ (cs : CS) (stack : List SE), CSOK cs → CSStep cs (addFilteredL v ks cs stack).1

/-- the loop body for one node. -/
theorem nodeStep_inv {v : T → Verdict} {n : T} (hn : FInvT v n) (cs : CS) (stack1 : List SE) (h : CSOK cs) :
    CSStep cs (nodeStep v n cs stack1).1 := by
  have hcp := createParents_inv stack1 cs 0 [] h
  unfold nodeStep
  split
  · exact CSStep.refl h
  · -- skipKeepSelf
    rcases hc : createParents cs stack1 0 [] with ⟨c, s, p⟩
    rw [hc] at hcp
    simp only
    split
    · exact hcp
    · exact hcp.trans (CSStep.addNode hcp.1 p n (fun e => e))
  · exact CSStep.flags h _ _
  · -- select
    rcases hc : createParents cs stack1 0 [] with ⟨c, s, p⟩
    rw [hc] at hcp
    simp only
    split
    · exact hcp
    · have := addFromL_inv n.kids c.t c.next p hcp.1.1 hcp.1.2
      exact hcp.trans ⟨⟨this.1, this.2.1⟩, this.2.2⟩
  · exact hn cs stack1 h
  · -- accept
    rcases hc : createParents cs stack1 0 [] with ⟨c, s, p⟩
    rw [hc] at hcp
    simp only
    split
    · exact hcp
    · have h1 := CSStep.addNode hcp.1 p n (fun e => e)
      split
      · exact hcp.trans h1
      · have h1' : CSStep c { c with t := (c.t.addNode c.next p n false none .none none none none).1,
                                     next := (c.t.addNode c.next p n false none .none none none none).2.1 } :=
          ⟨h1.1, h1.2⟩
        exact hcp.trans (h1'.trans (hn _ s h1'.1))
  · exact CSStep.refl h
  · exact CSStep.flags h _ _

theorem addFilteredL_inv_of {v : T → Verdict} : ∀ {ks : List T}, (∀ c ∈ ks, FInvT v c) → FInvL v ks
  | [], _ => fun cs stack h => by rw [addFilteredL_nil]; exact CSStep.refl h
  | n :: ns, hks => fun cs stack h => by
    rw [addFilteredL_cons]
    split
    · exact CSStep.refl h
    · have h1 := nodeStep_inv (hks n (by simp)) cs (stack ++ [.virtual n]) h
      exact h1.trans (addFilteredL_inv_of (fun c hc => hks c (List.mem_cons_of_mem _ hc)) _ _ h1.1)

theorem addFilteredT_inv (v : T → Verdict) : ∀ n : T, FInvT v n := by
  intro n
  induction n using T.ind with
  | node i ks ih =>
    intro cs stack h
    rw [addFilteredT_eq]
    exact addFilteredL_inv_of ih cs stack h

/-- **`_add_filtered` on a well-formed target, for every predicate**: the state reached (also when
the copy stopped at an error) is well-formed, the counter fresh and not decreased. -/
theorem addFiltered_WF (t : Tree) (next tid : NodeId) (other : T) (v : T → Verdict) (h : WF t)
    (hf : Fresh t next) : CopyInv next (addFiltered t next tid other v) := by
  have := addFilteredT_inv v other { t := t, next := next } [.existing tid] ⟨h, hf⟩
  exact ⟨this.1.1, this.1.2, this.2⟩

/-- `Tree.filtered(pred)` / `Tree.copy(predicate=)` builds a well-formed tree, for every predicate. -/
theorem treeFiltered_WF (src : Tree) (next : NodeId) (v : T → Verdict) (hn : 0 < next) :
    CopyInv next (treeFiltered src next v) :=
  addFiltered_WF _ next 0 src.root v (WF_newTree _) (fresh_newTree _ hn)

/-- `Node.filtered(pred)` builds a well-formed tree, for every predicate. -/
theorem nodeFiltered_WF (src : Tree) (next : NodeId) (n : T) (v : T → Verdict) (hn : 0 < next) :
    CopyInv next (nodeFiltered src next n v) := by
  have h1 := addNode_inv ({ typed := src.typed } : Tree) next 0 n false none .none none none none
    (WF_newTree _) (fresh_newTree _ hn)
  unfold nodeFiltered
  simp only
  rcases hadd : ({ typed := src.typed } : Tree).addNode next 0 n false none .none none none none with ⟨t1, n1, e⟩
  rw [hadd] at h1
  cases e with
  | some e => exact h1
  | none =>
    have h2 := addFiltered_WF t1 n1 next n v h1.1 h1.2.1
    exact ⟨h2.1, h2.2.1, Nat.le_trans h1.2.2 h2.2.2⟩

end Flt
end Nutree
