/-
  Nutree.Lemmas.Queries — the data-id index as seen by the query code of `Model/Search.lean`
  (`nodeIndex t`: data_id ↦ node values), and what well-formedness says about it.
-/
import Nutree.Model.Search
import Nutree.Lemmas.WFSetData
namespace Nutree
open T C10 Search

/-- the index as the queries of `Model/Search.lean` see it: data_id ↦ node values. -/
def nodeIndex (t : Tree) : Search.Index :=
  t.byData.map fun e => (e.1, e.2.filterMap fun i => findT i t.root)

theorem lookup_map_snd {α β γ : Type} [BEq α] (f : β → γ) (k : α) :
    ∀ l : List (α × β), (l.map fun e => (e.1, f e.2)).lookup k = (l.lookup k).map f
  | [] => rfl
  | (a, b) :: l => by
    rw [List.map_cons, List.lookup_cons, List.lookup_cons, lookup_map_snd f k l]
    cases k == a <;> rfl

theorem nodeIndex_lookup (t : Tree) (d : DataId) :
    (nodeIndex t).lookup d = (t.byData.lookup d).map (fun l => l.filterMap fun i => findT i t.root) :=
  lookup_map_snd _ d t.byData

theorem treeFindAllId_none (idx : Search.Index) (d : DataId) :
    treeFindAllId idx d none = (idx.lookup d).getD [] := by
  unfold treeFindAllId
  cases idx.lookup d with
  | none => rfl
  | some res => cases res <;> rfl

theorem treeFindFirstId_eq (idx : Search.Index) (d : DataId) :
    treeFindFirstId idx d = (treeFindAllId idx d none).head? := by
  rw [treeFindAllId_none]
  unfold treeFindFirstId
  cases idx.lookup d <;> rfl

theorem treeFindAllId_limit (idx : Search.Index) (d : DataId) (k : Nat) :
    treeFindAllId idx d (some (k + 1)) = (treeFindAllId idx d none).take (k + 1) := by
  unfold treeFindAllId
  cases idx.lookup d with
  | none => rfl
  | some res => cases res <;> simp

/-- the result of the index query: the clone list, resolved to node values. -/
theorem findAll_eq (t : Tree) (d : DataId) :
    treeFindAllId (nodeIndex t) d none =
      ((t.byData.lookup d).getD []).filterMap (fun i => findT i t.root) := by
  rw [treeFindAllId_none, nodeIndex_lookup]
  cases t.byData.lookup d <;> rfl

/-- **Exactness of the index query** in a well-formed state. -/
theorem mem_findAll {t : Tree} (h : WF t) {d : DataId} {x : T} :
    x ∈ treeFindAllId (nodeIndex t) d none ↔ (x ∈ flatL t.root.kids ∧ x.did = d) := by
  rw [findAll_eq, List.mem_filterMap]
  constructor
  · rintro ⟨i, hi, hfx⟩
    cases hl : t.byData.lookup d with
    | none => rw [hl] at hi; simp at hi
    | some l =>
      rw [hl] at hi
      obtain ⟨y, hy, h1, h2⟩ := (h.index.listed d i).1 ⟨l, mem_of_lookup hl, hi⟩
      obtain ⟨hxm, hxi⟩ := findT_some hfx
      have : x = y := eq_of_id_eq h.idsN hxm (mem_flat_of_mem_flatL_kids hy) (hxi.trans h1.symm)
      subst this
      exact ⟨hy, h2⟩
  · rintro ⟨hx, hd⟩
    obtain ⟨l, hl, hxl⟩ := (listed_iff_lookup h.index.keys).1 ((h.index.listed d x.id).2 ⟨x, hx, rfl, hd⟩)
    refine ⟨x.id, by rw [hl]; exact hxl, findT_of_mem h.idsN (mem_flat_of_mem_flatL_kids hx)⟩

/-- resolving a list of identities yields nodes with those identities, in order. -/
theorem filterMap_findT_ids_sublist (root : T) : ∀ l : List NodeId,
    ((l.filterMap fun i => findT i root).map T.id).Sublist l
  | [] => List.Sublist.slnil
  | i :: l => by
    rw [List.filterMap_cons]
    cases hf : findT i root with
    | none => exact (filterMap_findT_ids_sublist root l).cons _
    | some x =>
      simp only [List.map_cons]
      rw [findT_some_id hf]
      exact (filterMap_findT_ids_sublist root l).cons_cons _

/-- the result of the index query has no node twice. -/
theorem findAll_ids_nodup {t : Tree} (h : WF t) (d : DataId) :
    ((treeFindAllId (nodeIndex t) d none).map T.id).Nodup := by
  rw [findAll_eq]
  refine List.Nodup.sublist (filterMap_findT_ids_sublist _ _) ?_
  cases hl : t.byData.lookup d with
  | none => simp
  | some l => exact h.index.nodup _ (mem_of_lookup hl)

/-! ### `eraseDups` -/

theorem mem_eraseDups_aux {α : Type} [BEq α] [LawfulBEq α] {a : α} :
    ∀ (n : Nat) (l : List α), l.length ≤ n → (a ∈ l.eraseDups ↔ a ∈ l)
  | _, [], _ => by simp
  | 0, b :: l, h => by simp at h
  | n + 1, b :: l, h => by
    have hlen : (l.filter fun c => !c == b).length ≤ n :=
      Nat.le_trans (List.length_filter_le _ _) (Nat.le_of_succ_le_succ h)
    rw [List.eraseDups_cons, List.mem_cons, mem_eraseDups_aux n _ hlen, List.mem_filter, List.mem_cons]
    by_cases hab : a = b
    · simp [hab]
    · simp [hab]

theorem mem_eraseDups {α : Type} [BEq α] [LawfulBEq α] {a : α} {l : List α} : a ∈ l.eraseDups ↔ a ∈ l :=
  mem_eraseDups_aux l.length l (Nat.le_refl _)

theorem nodup_eraseDups_aux {α : Type} [BEq α] [LawfulBEq α] :
    ∀ (n : Nat) (l : List α), l.length ≤ n → l.eraseDups.Nodup
  | _, [], _ => by simp
  | 0, b :: l, h => by simp at h
  | n + 1, b :: l, h => by
    have hlen : (l.filter fun c => !c == b).length ≤ n :=
      Nat.le_trans (List.length_filter_le _ _) (Nat.le_of_succ_le_succ h)
    rw [List.eraseDups_cons, List.nodup_cons, mem_eraseDups, List.mem_filter]
    exact ⟨by simp, nodup_eraseDups_aux n _ hlen⟩

theorem nodup_eraseDups {α : Type} [BEq α] [LawfulBEq α] (l : List α) : l.eraseDups.Nodup :=
  nodup_eraseDups_aux l.length l (Nat.le_refl _)

/-- the keys of `byData` are exactly the data ids that occur. -/
theorem mem_keys_iff {t : Tree} (h : WF t) {d : DataId} :
    d ∈ t.byData.map (·.1) ↔ d ∈ (flatL t.root.kids).map T.did := by
  rw [List.mem_map, List.mem_map]
  constructor
  · rintro ⟨⟨d', l⟩, he, rfl⟩
    cases l with
    | nil => exact absurd rfl (h.index.noEmpty _ he)
    | cons i l =>
      obtain ⟨y, hy, _, h2⟩ := (h.index.listed d' i).1 ⟨i :: l, he, by simp⟩
      exact ⟨y, hy, h2⟩
  · rintro ⟨x, hx, rfl⟩
    obtain ⟨l, hl, _⟩ := (h.index.listed x.did x.id).2 ⟨x, hx, rfl, rfl⟩
    exact ⟨(x.did, l), hl, rfl⟩

end Nutree
