/-
  Nutree.Lemmas.WFRemove — well-formedness is preserved by dropping all children of a node
  (`WF_remove_kids`) and by cutting out one leaf (`WF_remove_leaf`), together with the unfolding
  lemmas `removeChildren_eq`, `removeOne_eq` and the "identities only disappear" facts.
-/
import Nutree.Lemmas.WFAdd
import Nutree.Lemmas.Iter
import Nutree.Lemmas.IterLevel
namespace Nutree
open T C10

/-- well-formedness only looks at `root`, `byId`, `byData`. -/
theorem WF.congr {t t' : Tree} (hr : t'.root = t.root) (hi : t'.byId = t.byId)
    (hd : t'.byData = t.byData) (h : WF t) : WF t' := by
  obtain ⟨h1, h2, h3, ⟨h4, h5, h6, h7⟩, h8⟩ := h
  refine ⟨?_, ?_, ?_, ⟨?_, ?_, ?_, ?_⟩, ?_⟩
  · rw [hr]; exact h1
  · unfold IdsNodup; rw [hr]; exact h2
  · unfold RegistryExact; rw [hr, hi]; exact h3
  · rw [hd]; exact h4
  · rw [hd]; exact h5
  · rw [hd]; exact h6
  · rw [hd, hr]; exact h7
  · unfold SibUnique; rw [hr]; exact h8

/-- the post-order of the strict descendants is a permutation of their pre-order. -/
theorem iterPost_perm (x : T) : (iterPost x).Perm (flatL x.kids) := by
  rw [iterPost_post]; exact postL_perm_flatL _

/-- Records after a removal: if `A ++ B ~ C` with distinct identities in `C`, then the nodes of `A`
are those of `C` that are not in `B`. -/
theorem exists_info_after_removal {A B C : List Info} (h : (A ++ B).Perm C) (hC : (C.map Info.id).Nodup)
    {n : NodeId} {d : DataId} :
    (∃ j ∈ A, j.id = n ∧ j.did = d) ↔
      (∃ j ∈ C, j.id = n ∧ j.did = d) ∧ ∀ b ∈ B, ¬ (d = b.did ∧ n = b.id) := by
  have hAB : ((A ++ B).map Info.id).Nodup := (h.map Info.id).nodup_iff.2 hC
  rw [List.map_append, List.nodup_append] at hAB
  constructor
  · rintro ⟨j, hj, h1, h2⟩
    refine ⟨⟨j, h.mem_iff.1 (List.mem_append_left _ hj), h1, h2⟩, ?_⟩
    intro b hb hbd
    exact hAB.2.2 j.id (List.mem_map_of_mem hj) b.id (List.mem_map_of_mem hb) (h1.trans hbd.2)
  · rintro ⟨⟨j, hj, h1, h2⟩, hB⟩
    rcases List.mem_append.1 (h.mem_iff.2 hj) with hjA | hjB
    · exact ⟨j, hjA, h1, h2⟩
    · exact absurd ⟨h2.symm, h1.symm⟩ (hB j hjB)

/-! ### dropping all children of a node -/

theorem removeChildren_eq {t : Tree} {n : NodeId} {x : T} (hx : findT n t.root = some x) :
    t.removeChildren n =
      { t.unregisterAll (iterPost x) with
          root := modT n (fun _ => []) t.root,
          rootNone := (t.unregisterAll (iterPost x)).rootNone || n == 0 } := by
  unfold Tree.removeChildren
  rw [hx]
  simp only [unregisterAll_root]

theorem removeChildren_of_none {t : Tree} {n : NodeId} (hx : findT n t.root = none) :
    t.removeChildren n = t := by
  unfold Tree.removeChildren; rw [hx]

theorem removeChildren_root {t : Tree} {n : NodeId} :
    (t.removeChildren n).root = modT n (fun _ => []) t.root := by
  cases hx : findT n t.root with
  | none => rw [removeChildren_of_none hx, modT_of_findT_none hx]
  | some x => rw [removeChildren_eq hx]

/-- identities after dropping the children of `x`. -/
theorem remove_kids_ids_perm {root x : T} {n : NodeId} (hN : C10.IdsNodup root) (hx : findT n root = some x) :
    ((flat (modT n (fun _ => []) root)).map T.id ++ idsL x.kids).Perm ((flat root).map T.id) := by
  have := modT_ids_perm (g := fun _ => []) hN hx
  simpa using this

/-- **Dropping all children of a node, unregistering all its strict descendants, keeps the state
well-formed.**  `ns` is any enumeration of the strict descendants. -/
theorem WF_remove_kids {t t' : Tree} {n : NodeId} {x : T} {ns : List T}
    (h : WF t) (hx : findT n t.root = some x) (hns : ns.Perm (flatL x.kids))
    (hr : t'.root = modT n (fun _ => []) t.root)
    (hi : t'.byId = (t.unregisterAll ns).byId) (hd : t'.byData = (t.unregisterAll ns).byData) : WF t' := by
  have hN := h.idsN
  obtain ⟨hxm, hxid⟩ := findT_some hx
  have hkN : (idsL t.root.kids).Nodup := idsNodupL_kids hN
  have hids : (idsL (modT n (fun _ => []) t.root).kids ++ idsL x.kids).Perm (idsL t.root.kids) := by
    have := modT_kids_ids_perm (g := fun _ => []) hN hx
    simpa using this
  have hinf : (infosL (modT n (fun _ => []) t.root).kids ++ infosL x.kids).Perm (infosL t.root.kids) := by
    have := modT_kids_infos_perm (g := fun _ => []) hN hx
    simpa using this
  have hmem : ∀ a, a ∈ ns.map T.id ↔ a ∈ idsL x.kids := fun a => (hns.map T.id).mem_iff
  refine ⟨?_, ?_, ?_, ?_, ?_⟩
  · rw [hr, modT_id]; exact h.rootId
  · unfold IdsNodup; rw [hr]
    exact modT_idsNodup hN hx (by simp) (by simp)
  · unfold RegistryExact
    rw [hr, hi, unregisterAll_byId]
    have h1 := perm_filter_of_append_perm hids hkN
    have h2 : (t.byId.filter (fun a => decide (a ∉ ns.map T.id))) =
        t.byId.filter (fun a => decide (a ∉ idsL x.kids)) :=
      List.filter_congr (fun a _ => by simp only [hmem a])
    rw [h2]
    exact (h.registry.filter _).trans h1.symm
  · refine IndexExact.of_listed (by rw [hd]; exact unregisterAll_ok h.index.ok) ?_
    intro d m
    rw [hd, hr, listed_unregisterAll, h.index.listed, exists_node_iff_infosL, exists_node_iff_infosL,
      exists_info_after_removal hinf (by rw [← idsL_eq_infosL]; exact hkN)]
    refine and_congr_right (fun _ => ?_)
    constructor
    · intro hy b hb
      obtain ⟨y, hy', rfl⟩ := List.mem_map.1 hb
      exact hy y (hns.mem_iff.2 hy')
    · intro hb y hy
      exact hb y.info (List.mem_map_of_mem (hns.mem_iff.1 hy))
  · intro y hy
    rw [hr] at hy
    rcases mem_flat_modT_of hN hx hy with ⟨z, hz, rfl⟩ | hy
    · by_cases hzn : z.id = n
      · rw [modT_kids, if_pos hzn]; simp
      · rw [modT_kids_map_did hzn]; exact h.sib z hz
    · simp at hy

/-! ### cutting out one leaf -/

/-- identities after cutting out the leaf `n` below `par`. -/
theorem remove_leaf_ids_perm {root par x : T} {n : NodeId} (hN : C10.IdsNodup root)
    (hx : findT n root = some x) (hleaf : x.kids = []) (hpar : findParent n root = some par) :
    ((flat (modT par.id (eraseId n) root)).map T.id ++ [n]).Perm ((flat root).map T.id) := by
  obtain ⟨hpm, c, hc, hcn⟩ := findParent_some_mem hpar
  obtain ⟨hxm, hxid⟩ := findT_some hx
  have hcx : c = x := eq_of_id_eq hN (mem_flat_trans (mem_flat_of_mem_kids hc) hpm) hxm (hcn.trans hxid.symm)
  subst hcx
  have hp : findT par.id root = some par := findT_of_mem hN hpm
  have hK := idsL_eraseId_perm (kids_ids_nodup (idsNodup_of_mem_flat hN hpm)) hc hcn
  rw [flat_eq, hleaf, flatL_nil, List.map_cons, List.map_nil, hcn] at hK
  have := modT_ids_perm_of (g := eraseId n) hN hp (X := []) (Y := [n])
    (by rw [List.nil_append]; exact (List.perm_append_comm.trans hK.symm))
  simpa using this

/-- **Cutting out one leaf and unregistering it keeps the state well-formed.** -/
theorem WF_remove_leaf {t t' : Tree} {n : NodeId} {x par : T}
    (h : WF t) (hx : findT n t.root = some x) (hleaf : x.kids = [])
    (hpar : findParent n t.root = some par)
    (hr : t'.root = modT par.id (eraseId n) t.root)
    (hi : t'.byId = t.byId.filter (· != n)) (hd : t'.byData = delEntry t.byData x.did n) : WF t' := by
  have hN := h.idsN
  obtain ⟨hpm, c, hc, hcn⟩ := findParent_some_mem hpar
  obtain ⟨hxm, hxid⟩ := findT_some hx
  have hcx : c = x := eq_of_id_eq hN (mem_flat_trans (mem_flat_of_mem_kids hc) hpm) hxm (hcn.trans hxid.symm)
  subst hcx
  have hp : findT par.id t.root = some par := findT_of_mem hN hpm
  have hparN := idsNodup_of_mem_flat hN hpm
  have hkN : (idsL t.root.kids).Nodup := idsNodupL_kids hN
  have hKi := infosL_eraseId_perm (kids_ids_nodup hparN) hc hcn
  rw [infos_eq, hleaf, infosL_nil] at hKi
  have hK := idsL_eraseId_perm (kids_ids_nodup hparN) hc hcn
  rw [flat_eq, hleaf, flatL_nil, List.map_cons, List.map_nil, hcn] at hK
  have hids : (idsL (modT par.id (eraseId n) t.root).kids ++ [n]).Perm (idsL t.root.kids) := by
    have := modT_kids_ids_perm_of (g := eraseId n) hN hp (X := []) (Y := [n])
      (by rw [List.nil_append]; exact (List.perm_append_comm.trans hK.symm))
    simpa using this
  have hinf : (infosL (modT par.id (eraseId n) t.root).kids ++ [c.info]).Perm (infosL t.root.kids) := by
    have := modT_kids_infos_perm_of (g := eraseId n) hN hp (X := []) (Y := [c.info])
      (by rw [List.nil_append]; exact (List.perm_append_comm.trans hKi.symm))
    simpa using this
  refine ⟨?_, ?_, ?_, ?_, ?_⟩
  · rw [hr, modT_id]; exact h.rootId
  · unfold IdsNodup; rw [hr]
    refine modT_idsNodup hN hp ?_ (fun a ha => Or.inl (idsL_eraseId_subset ha))
    exact List.Nodup.sublist ((flatL_eraseId_sublist n par.kids).map T.id) (idsNodupL_kids hparN)
  · unfold RegistryExact
    rw [hr, hi]
    have h1 := perm_filter_of_append_perm hids hkN
    have h2 : t.byId.filter (· != n) = t.byId.filter (fun a => decide (a ∉ [n])) :=
      List.filter_congr (fun a _ => by by_cases e : a = n <;> simp [e])
    rw [h2]
    exact (h.registry.filter _).trans h1.symm
  · refine IndexExact.of_listed (by rw [hd]; exact delEntry_ok h.index.ok) ?_
    intro d m
    rw [hd, hr, listed_delEntry, h.index.listed, exists_node_iff_infosL, exists_node_iff_infosL,
      exists_info_after_removal hinf (by rw [← idsL_eq_infosL]; exact hkN)]
    refine and_congr_right (fun _ => ?_)
    simp only [List.mem_singleton, forall_eq]
    rw [show c.info.id = n from hcn]
  · intro y hy
    rw [hr] at hy
    rcases mem_flat_modT_of hN hp hy with ⟨z, hz, rfl⟩ | hy
    · by_cases hzp : z.id = par.id
      · have : z = par := eq_of_id_eq hN hz hpm hzp
        subst this
        rw [modT_kids, if_pos hzp]
        exact List.Nodup.sublist ((eraseId_sublist n z.kids).map T.did) (h.sib z hz)
      · rw [modT_kids_map_did hzp]; exact h.sib z hz
    · exact h.sib y (mem_flat_of_mem_flatL_kids_of_mem ((flatL_eraseId_sublist n par.kids).subset hy) hpm)

/-! ### `removeOne` unfolded -/

theorem removeOne_eq {t : Tree} {n p : NodeId} {x : T} (hx : findT n t.root = some x)
    (hp : t.parentId n = some p) :
    t.removeOne n =
      ({ t.removeChildren n with
          root := modT p (eraseId n) (t.removeChildren n).root,
          rootNone := (t.removeChildren n).rootNone ||
            (p == 0 && (modT p (eraseId n) (t.removeChildren n).root).kids.isEmpty) }).unregister n x.did := by
  unfold Tree.removeOne
  rw [hx, hp]

theorem removeOne_of_findT_none {t : Tree} {n : NodeId} (hx : findT n t.root = none) : t.removeOne n = t := by
  unfold Tree.removeOne; rw [hx]

theorem removeOne_of_parent_none {t : Tree} {n : NodeId} (hp : t.parentId n = none) : t.removeOne n = t := by
  unfold Tree.removeOne; rw [hp]
  cases findT n t.root <;> rfl

/-- the root after `removeOne` (whenever it does something). -/
theorem removeOne_root {t : Tree} {n p : NodeId} {x : T} (hx : findT n t.root = some x)
    (hp : t.parentId n = some p) :
    (t.removeOne n).root = modT p (eraseId n) (modT n (fun _ => []) t.root) := by
  rw [removeOne_eq hx hp, unregister_root, removeChildren_root]

/-- removals create no identities (no well-formedness needed). -/
theorem ids_removeChildren_subset {t : Tree} {n a : NodeId}
    (ha : a ∈ (flat (t.removeChildren n).root).map T.id) : a ∈ (flat t.root).map T.id := by
  rw [removeChildren_root] at ha
  exact ids_modT_subset (fun _ _ h => by simp at h) ha

theorem ids_removeOne_subset {t : Tree} {n a : NodeId}
    (ha : a ∈ (flat (t.removeOne n).root).map T.id) : a ∈ (flat t.root).map T.id := by
  cases hx : findT n t.root with
  | none => rwa [removeOne_of_findT_none hx] at ha
  | some x =>
    cases hp : t.parentId n with
    | none => rwa [removeOne_of_parent_none hp] at ha
    | some p =>
      rw [removeOne_root hx hp] at ha
      exact ids_modT_subset (fun _ _ h => by simp at h)
        (ids_modT_subset (fun _ _ h => idsL_eraseId_subset h) ha)

end Nutree
