/-
  Nutree.Lemmas.LockBasic — elementary facts about the lock model (C18):
  `guardedFrom`, `enabled`, the explicit form of `step`, and the progress measure.
-/
import Nutree.Model.Lock
namespace Nutree
namespace Lock

/-- a trace entry: thread, event, lock owner at the moment of execution. -/
abbrev Entry := Tid × Ev × Option Tid

/-- lock depth of thread `i` (0 for a thread that does not exist). -/
def Cfg.depthOf (c : Cfg) (i : Tid) : Nat := c.depth[i]?.getD 0

/-- total number of events still to be executed. -/
def remaining (c : Cfg) : Nat := (c.progs.map List.length).sum

/-! ### list helpers -/

theorem getD_set_self {l : List Nat} {i : Nat} (h : i < l.length) (x : Nat) :
    (l.set i x)[i]?.getD 0 = x := by
  rw [List.getElem?_set_self h]; rfl

theorem getD_set_ne {l : List Nat} {i j : Nat} (h : i ≠ j) (x : Nat) :
    (l.set i x)[j]?.getD 0 = l[j]?.getD 0 := by
  rw [List.getElem?_set_ne h]

theorem sum_length_set {l : List Prog} {i : Nat} {p q : Prog} (h : l[i]? = some p) :
    ((l.set i q).map List.length).sum + p.length = (l.map List.length).sum + q.length := by
  induction l generalizing i with
  | nil => simp at h
  | cons a l ih =>
    cases i with
    | zero =>
      simp at h
      subst h
      simp [List.sum_cons]
      omega
    | succ i =>
      simp at h
      have := ih h
      simp only [List.set_cons_succ, List.map_cons, List.sum_cons]
      omega

/-! ### guardedFrom -/

theorem guardedFrom_nil {d : Nat} (h : guardedFrom d [] = true) : d = 0 := by
  simpa [guardedFrom] using h

theorem guardedFrom_acq {d : Nat} {r : Prog} :
    guardedFrom d (.acq :: r) = guardedFrom (d + 1) r := rfl

theorem guardedFrom_rel {d : Nat} {r : Prog} (h : guardedFrom d (.rel :: r) = true) :
    0 < d ∧ guardedFrom (d - 1) r = true := by
  simpa [guardedFrom] using h

theorem guardedFrom_read {d : Nat} {r : Prog} (h : guardedFrom d (.read :: r) = true) :
    0 < d ∧ guardedFrom d r = true := by
  simpa [guardedFrom] using h

theorem guardedFrom_write {d : Nat} {r : Prog} (h : guardedFrom d (.write :: r) = true) :
    0 < d ∧ guardedFrom d r = true := by
  simpa [guardedFrom] using h

/-- at depth 0 a guarded program can only continue with `acq`. -/
theorem guardedFrom_zero_cons {e : Ev} {r : Prog} (h : guardedFrom 0 (e :: r) = true) :
    e = .acq := by
  cases e <;> simp [guardedFrom] at h ⊢

/-- at positive depth a guarded program is not yet finished. -/
theorem guardedFrom_pos_ne_nil {d : Nat} {p : Prog} (hd : 0 < d) (h : guardedFrom d p = true) :
    p ≠ [] := by
  intro hp; subst hp
  have := guardedFrom_nil h
  omega

/-- a `read`/`write`/`rel` as next event forces positive depth. -/
theorem guardedFrom_pos_of_ne_acq {d : Nat} {e : Ev} {r : Prog}
    (h : guardedFrom d (e :: r) = true) (he : e ≠ .acq) : 0 < d := by
  cases e with
  | acq => exact absurd rfl he
  | rel => exact (guardedFrom_rel h).1
  | read => exact (guardedFrom_read h).1
  | write => exact (guardedFrom_write h).1

/-- sequential composition of well-bracketed pieces. -/
theorem guardedFrom_append {d e : Nat} {p q : Prog}
    (hp : guardedFrom d p = true) (hq : guardedFrom e q = true) :
    guardedFrom (d + e) (p ++ q) = true := by
  induction p generalizing d with
  | nil =>
    have := guardedFrom_nil hp
    subst this
    simpa using hq
  | cons x r ih =>
    cases x with
    | acq =>
      have := ih (d := d + 1) hp
      have h2 : d + 1 + e = d + e + 1 := by omega
      rw [h2] at this
      simpa [guardedFrom] using this
    | rel =>
      obtain ⟨h1, h2⟩ := guardedFrom_rel hp
      have := ih h2
      have h3 : d - 1 + e = d + e - 1 := by omega
      rw [h3] at this
      simp [guardedFrom, this]
      omega
    | read =>
      obtain ⟨h1, h2⟩ := guardedFrom_read hp
      have := ih h2
      simp [guardedFrom, this]
      omega
    | write =>
      obtain ⟨h1, h2⟩ := guardedFrom_write hp
      have := ih h2
      simp [guardedFrom, this]
      omega

theorem guarded_nested {p : Prog} (h : Guarded p) : Guarded (nested p) := by
  have h1 : guardedFrom 1 [Ev.rel] = true := by decide
  have := guardedFrom_append (d := 0) (e := 1) h h1
  simpa [Guarded, nested, guardedFrom] using this

theorem guardedFrom_writes_rel (n : Nat) :
    guardedFrom 1 (List.replicate n Ev.write ++ [Ev.rel]) = true := by
  induction n with
  | zero => decide
  | succ n ih => simpa [List.replicate_succ, guardedFrom] using ih

theorem guarded_writer (n : Nat) : Guarded (writer n) := by
  simpa [Guarded, writer, guardedFrom] using guardedFrom_writes_rel n

/-! ### enabled / step in explicit form -/

theorem enabled_some {r : Bool} {c : Cfg} {i : Tid} (h : enabled r c i = true) :
    ∃ e rest, c.progs[i]? = some (e :: rest) := by
  unfold enabled at h
  split at h
  · exact ⟨_, _, by assumption⟩
  · exact ⟨_, _, by assumption⟩
  · exact ⟨_, _, by assumption⟩
  · simp at h

theorem enabled_acq {r : Bool} {c : Cfg} {i : Tid} {rest : Prog}
    (hp : c.progs[i]? = some (.acq :: rest)) :
    enabled r c i = (c.owner.isNone || (r && c.owner == some i)) := by
  simp [enabled, hp]

theorem enabled_rel {r : Bool} {c : Cfg} {i : Tid} {rest : Prog}
    (hp : c.progs[i]? = some (.rel :: rest)) :
    enabled r c i = (c.owner == some i && decide (c.count > 0)) := by
  simp [enabled, hp]

theorem enabled_read {r : Bool} {c : Cfg} {i : Tid} {rest : Prog}
    (hp : c.progs[i]? = some (.read :: rest)) : enabled r c i = true := by
  simp [enabled, hp]

theorem enabled_write {r : Bool} {c : Cfg} {i : Tid} {rest : Prog}
    (hp : c.progs[i]? = some (.write :: rest)) : enabled r c i = true := by
  simp [enabled, hp]

theorem step_of_not_enabled {r : Bool} {c : Cfg} {i : Tid} (h : enabled r c i = false) :
    step r c i = c := by
  simp [step, h]

theorem step_acq {r : Bool} {c : Cfg} {i : Tid} {rest : Prog} (h : enabled r c i = true)
    (hp : c.progs[i]? = some (.acq :: rest)) :
    step r c i =
      { owner := some i, count := c.count + 1, progs := c.progs.set i rest,
        depth := c.depth.set i (c.depthOf i + 1), trace := (i, .acq, c.owner) :: c.trace } := by
  simp [step, h, hp, Cfg.depthOf]

theorem step_rel {r : Bool} {c : Cfg} {i : Tid} {rest : Prog} (h : enabled r c i = true)
    (hp : c.progs[i]? = some (.rel :: rest)) :
    step r c i =
      { owner := if (c.count - 1 == 0) = true then none else some i, count := c.count - 1,
        progs := c.progs.set i rest,
        depth := c.depth.set i (c.depthOf i - 1), trace := (i, .rel, c.owner) :: c.trace } := by
  simp [step, h, hp, Cfg.depthOf]

theorem step_read {r : Bool} {c : Cfg} {i : Tid} {rest : Prog} (h : enabled r c i = true)
    (hp : c.progs[i]? = some (.read :: rest)) :
    step r c i = { c with progs := c.progs.set i rest, trace := (i, .read, c.owner) :: c.trace } := by
  simp [step, h, hp]

theorem step_write {r : Bool} {c : Cfg} {i : Tid} {rest : Prog} (h : enabled r c i = true)
    (hp : c.progs[i]? = some (.write :: rest)) :
    step r c i = { c with progs := c.progs.set i rest, trace := (i, .write, c.owner) :: c.trace } := by
  simp [step, h, hp]

/-- every executed step removes exactly the head of the thread's program. -/
theorem step_progs {r : Bool} {c : Cfg} {i : Tid} {e : Ev} {rest : Prog}
    (h : enabled r c i = true) (hp : c.progs[i]? = some (e :: rest)) :
    (step r c i).progs = c.progs.set i rest := by
  cases e with
  | acq => rw [step_acq h hp]
  | rel => rw [step_rel h hp]
  | read => rw [step_read h hp]
  | write => rw [step_write h hp]

/-- every executed step records exactly one trace entry, tagged with the current owner. -/
theorem step_trace {r : Bool} {c : Cfg} {i : Tid} {e : Ev} {rest : Prog}
    (h : enabled r c i = true) (hp : c.progs[i]? = some (e :: rest)) :
    (step r c i).trace = (i, e, c.owner) :: c.trace := by
  cases e with
  | acq => rw [step_acq h hp]
  | rel => rw [step_rel h hp]
  | read => rw [step_read h hp]
  | write => rw [step_write h hp]

/-! ### the progress measure -/

/-- an enabled step strictly decreases the number of remaining events (by exactly one). -/
theorem remaining_step {r : Bool} {c : Cfg} {i : Tid} (h : enabled r c i = true) :
    remaining (step r c i) + 1 = remaining c := by
  obtain ⟨e, rest, hp⟩ := enabled_some h
  unfold remaining
  rw [step_progs h hp]
  have := sum_length_set (q := rest) hp
  simp only [List.length_cons] at this
  omega

theorem remaining_step_le (r : Bool) (c : Cfg) (i : Tid) :
    remaining (step r c i) ≤ remaining c := by
  cases h : enabled r c i with
  | true => have := remaining_step h; omega
  | false => rw [step_of_not_enabled h]; exact Nat.le_refl _

theorem finished_iff_remaining {c : Cfg} : finished c = true ↔ remaining c = 0 := by
  unfold finished remaining
  generalize c.progs = l
  induction l with
  | nil => simp
  | cons a l ih =>
    simp only [List.all_cons, Bool.and_eq_true, List.map_cons, List.sum_cons, ih]
    cases a <;> simp

theorem run_nil (r : Bool) (c : Cfg) : run r c [] = c := rfl

theorem run_cons (r : Bool) (c : Cfg) (i : Tid) (s : List Tid) :
    run r c (i :: s) = run r (step r c i) s := rfl

theorem run_append (r : Bool) (c : Cfg) (s t : List Tid) :
    run r c (s ++ t) = run r (run r c s) t := by
  simp [run, List.foldl_append]

theorem run_snoc (r : Bool) (c : Cfg) (s : List Tid) (i : Tid) :
    run r c (s ++ [i]) = step r (run r c s) i := by
  rw [run_append]; rfl

end Lock
end Nutree
