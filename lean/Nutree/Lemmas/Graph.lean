/-
  Nutree.Lemmas.Graph — helper lemmas for C17, part 1: the annotated pre-order traversal
  `annL` (parent, child index, "is a child of the start node" for every descendant), to which
  both the model's loops (`withParent`, `rdfChildrenAdds`) and the path-based specification
  (`relPaths`) are reduced.
-/
import Nutree.Model.Graph
import Nutree.Spec.Graph
import Nutree.Lemmas.Rel
import Nutree.Lemmas.Iter
namespace Nutree
namespace Graph
open T C10 Spec

/-- one step of the traversal: `node` is the child number `index` of `parent`; `top` iff the
parent is the start node of the traversal. -/
structure Item where
  top : Bool
  parent : T
  index : Nat
  node : T

mutual
def annT (top : Bool) (p : T) (k : Nat) : T → List Item
  | .node i ks => ⟨top, p, k, .node i ks⟩ :: annL false (.node i ks) 0 ks
def annL (top : Bool) (p : T) (k : Nat) : List T → List Item
  | [] => []
  | c :: cs => annT top p k c ++ annL top p (k + 1) cs
end

/-- all descendants of `t`, annotated. -/
def ann (t : T) : List Item := annL true t 0 t.kids

theorem annT_eq (top : Bool) (p : T) (k : Nat) (c : T) :
    annT top p k c = ⟨top, p, k, c⟩ :: annL false c 0 c.kids := by
  cases c; simp [annT]

@[simp] theorem annL_nil (top : Bool) (p : T) (k : Nat) : annL top p k [] = [] := by simp [annL]

theorem annL_cons (top : Bool) (p : T) (k : Nat) (c : T) (cs : List T) :
    annL top p k (c :: cs) = ⟨top, p, k, c⟩ :: annL false c 0 c.kids ++ annL top p (k + 1) cs := by
  simp [annL, annT_eq]

/-- Induction over a forest for statements about `annL`-like traversals: the step provides the
hypothesis for the children of the head and for the tail. -/
theorem forest_ind {motive : List T → Prop} (nil : motive [])
    (cons : ∀ c cs, motive c.kids → motive cs → motive (c :: cs)) : ∀ ks, motive ks := by
  have key : ∀ t : T, motive t.kids := by
    intro t
    induction t using T.rec (motive_2 := motive) with
    | node i ks ih => exact ih
    | nil => exact nil
    | cons c cs ihc ihcs => exact cons c cs ihc ihcs
  intro ks
  exact key (.node default ks)

theorem annL_false_idem (p : T) (k : Nat) (ks : List T) :
    (annL false p k ks).map (fun x => { x with top := false }) = annL false p k ks := by
  induction ks using forest_ind generalizing p k with
  | nil => simp
  | cons c cs ihc ihcs =>
    rw [annL_cons]
    simp only [List.map_cons, List.map_append, List.cons_append, ihcs p (k + 1), ihc c 0]

/-- the flags below the first level are `false`, whatever the flag of the first level. -/
theorem annL_false (b : Bool) (p : T) (k : Nat) (ks : List T) :
    annL false p k ks = (annL b p k ks).map (fun x => { x with top := false }) := by
  induction ks generalizing k with
  | nil => simp
  | cons c cs ih =>
    rw [annL_cons, annL_cons, ih (k + 1)]
    simp only [List.map_cons, List.map_append, List.cons_append, annL_false_idem]

theorem annL_flag_false {p : T} {k : Nat} {ks : List T} {x : Item} (hx : x ∈ annL false p k ks) :
    x.top = false := by
  rw [annL_false true] at hx
  obtain ⟨y, _, rfl⟩ := List.mem_map.1 hx
  rfl

/-- the items of the first level have the given flag, parent `p`; the nodes are the forest's nodes. -/
theorem mem_annL {b : Bool} {p : T} {k : Nat} {ks : List T} {x : Item} (hx : x ∈ annL b p k ks) :
    x.node ∈ flatL ks ∧ ((x.top = b ∧ x.parent = p) ∨ (x.top = false ∧ x.parent ∈ flatL ks)) := by
  induction ks using forest_ind generalizing b p k with
  | nil => simp at hx
  | cons c cs ihc ihcs =>
    simp only [annL_cons, List.mem_cons, List.mem_append] at hx
    simp only [flatL, List.mem_append]
    rcases hx with (rfl | hx) | hx
    · exact ⟨Or.inl (self_mem_flat c), Or.inl ⟨rfl, rfl⟩⟩
    · obtain ⟨h1, h2⟩ := ihc hx
      refine ⟨Or.inl (mem_flat_of_mem_flatL_kids h1), Or.inr ⟨annL_flag_false hx, Or.inl ?_⟩⟩
      rcases h2 with ⟨_, h2⟩ | ⟨_, h2⟩
      · rw [h2]; exact self_mem_flat c
      · exact mem_flat_of_mem_flatL_kids h2
    · obtain ⟨h1, h2⟩ := ihcs hx
      refine ⟨Or.inr h1, ?_⟩
      rcases h2 with h2 | ⟨h2, h3⟩
      · exact Or.inl h2
      · exact Or.inr ⟨h2, Or.inr h3⟩

/-- the traversal visits the descendants in pre-order. -/
theorem annL_nodes (b : Bool) (p : T) (k : Nat) (ks : List T) :
    (annL b p k ks).map Item.node = flatL ks := by
  induction ks using forest_ind generalizing b p k with
  | nil => simp [flatL]
  | cons c cs ihc ihcs =>
    rw [annL_cons]
    simp only [List.map_cons, List.map_append, flatL, ihcs, ihc, flat_eq]

/-- `withParent` is the traversal without flags and indices. -/
theorem withParentL_eq (b : Bool) (p : T) (k : Nat) (ks : List T) :
    withParentL p ks = (annL b p k ks).map (fun x => (x.parent, x.node)) := by
  induction ks using forest_ind generalizing b p k with
  | nil => simp [withParentL]
  | cons c cs ihc ihcs =>
    rw [annL_cons]
    cases c with
    | node i gs =>
      simp only [withParentL, withParentT, List.map_cons, List.map_append, List.cons_append]
      rw [← ihcs b p (k + 1)]
      have := ihc false (.node i gs) 0
      simp only [kids_node] at this ⊢
      rw [← this]

theorem withParent_eq (t : T) : withParent t = (ann t).map (fun x => (x.parent, x.node)) :=
  withParentL_eq true t 0 t.kids

/-- with distinct identities, "child of the start node" is recognisable by the parent's identity
(`n._parent is node`). -/
theorem top_iff_id {t : T} (hN : IdsNodup t) {x : Item} (hx : x ∈ ann t) :
    (x.parent.id == t.id) = x.top := by
  obtain ⟨_, h⟩ := mem_annL hx
  rcases h with ⟨h1, h2⟩ | ⟨h1, h2⟩
  · rw [h1, h2]; simp
  · rw [h1]
    have := ((idsNodup_iff t).1 hN).1 _ h2
    simpa using this

/-! ### paths -/

theorem relPaths_eq (t : T) : relPaths t = relPathsL 0 t.kids := by
  cases t; simp [relPaths]

@[simp] theorem relPathsL_nil (k : Nat) : relPathsL k [] = [] := by simp [relPathsL]

theorem relPathsL_cons (k : Nat) (c : T) (cs : List T) :
    relPathsL k (c :: cs) = ([k] :: (relPaths c).map (k :: ·)) ++ relPathsL (k + 1) cs := by
  simp [relPathsL]

theorem relPathsL_ne_nil {k : Nat} {ks : List T} {q : List Nat} (hq : q ∈ relPathsL k ks) : q ≠ [] := by
  induction ks generalizing k with
  | nil => simp at hq
  | cons c cs ih =>
    rw [relPathsL_cons, List.mem_append, List.mem_cons, List.mem_map] at hq
    rcases hq with (rfl | ⟨r, _, rfl⟩) | hq
    · simp
    · simp
    · exact ih hq

theorem relPaths_ne_nil {t : T} {q : List Nat} (hq : q ∈ relPaths t) : q ≠ [] := by
  rw [relPaths_eq] at hq; exact relPathsL_ne_nil hq

/-- what the specification reads off a path. -/
def pathView (t : T) (q : List Nat) : Bool × Option T × Option Nat × Option T :=
  (q.length == 1, t.sub q.dropLast, q.getLast?, t.sub q)

def itemView (x : Item) : Bool × Option T × Option Nat × Option T :=
  (x.top, some x.parent, some x.index, some x.node)

theorem sub_cons_of {t c : T} {k : Nat} (h : t.kids[k]? = some c) (r : List Nat) :
    t.sub (k :: r) = c.sub r := by
  simp [T.sub, h]

/-- **paths and traversal agree**: reading parent, index and node off the paths of `relPaths`
gives the annotated traversal. -/
theorem pathView_relPathsL (ks : List T) :
    (∀ t : T, t.kids = ks → (relPaths t).map (pathView t) = (ann t).map itemView) ∧
    (∀ (t : T) (k : Nat), (∀ j c, ks[j]? = some c → t.kids[k + j]? = some c) →
      (relPathsL k ks).map (pathView t) = (annL true t k ks).map itemView) := by
  induction ks using forest_ind with
  | nil =>
    refine ⟨fun t ht => ?_, fun t k _ => by simp⟩
    simp [relPaths_eq, ann, ht]
  | cons c cs ihc ihcs =>
    have hQ : ∀ (t : T) (k : Nat), (∀ j d, (c :: cs)[j]? = some d → t.kids[k + j]? = some d) →
        (relPathsL k (c :: cs)).map (pathView t) = (annL true t k (c :: cs)).map itemView := by
      intro t k hk
      rw [relPathsL_cons, annL_cons]
      simp only [List.map_cons, List.map_append, List.cons_append, List.map_map]
      have hc : t.kids[k]? = some c := by simpa using hk 0 c (by simp)
      have h0 : pathView t [k] = itemView ⟨true, t, k, c⟩ := by
        simp [pathView, itemView, T.sub, hc]
      have h1 : (relPaths c).map (pathView t ∘ (k :: ·)) = (annL false c 0 c.kids).map itemView := by
        have hP := ihc.1 c rfl
        rw [annL_false true, List.map_map]
        have : (relPaths c).map (pathView t ∘ (k :: ·))
            = ((relPaths c).map (pathView c)).map (fun v => (false, v.2)) := by
          rw [List.map_map]
          apply List.map_congr_left
          intro q hq
          have hne := relPaths_ne_nil hq
          obtain ⟨a, r, rfl⟩ := List.exists_cons_of_ne_nil hne
          simp [pathView, sub_cons_of hc, List.dropLast]
        rw [this, hP, ann, List.map_map]
        apply List.map_congr_left
        intro x _
        simp [itemView]
      have h2 := ihcs.2 t (k + 1) (fun j d hd => by
        have := hk (j + 1) d (by simpa using hd)
        simpa [Nat.add_assoc, Nat.add_comm 1 j] using this)
      rw [h0, h1, h2]
    refine ⟨fun t ht => ?_, hQ⟩
    rw [relPaths_eq, ht, ann, ht]
    exact hQ t 0 (fun j d hd => by simpa [ht] using hd)

theorem pathView_relPaths (t : T) : (relPaths t).map (pathView t) = (ann t).map itemView :=
  (pathView_relPathsL t.kids).1 t rfl

theorem filterMap_congr' {α β} {f g : α → Option β} {l : List α} (h : ∀ x ∈ l, f x = g x) :
    l.filterMap f = l.filterMap g := by
  induction l with
  | nil => rfl
  | cons a l ih =>
    rw [List.filterMap_cons, List.filterMap_cons, h a (by simp), ih (fun x hx => h x (by simp [hx]))]

/-- a `filterMap` over the paths that only looks at the view is a `filterMap` over the traversal. -/
theorem filterMap_relPaths {β} (t : T) (f : List Nat → Option β)
    (g : Bool × Option T × Option Nat × Option T → Option β)
    (h : ∀ q ∈ relPaths t, f q = g (pathView t q)) :
    (relPaths t).filterMap f = (ann t).filterMap (g ∘ itemView) := by
  rw [filterMap_congr' h]
  have : (relPaths t).filterMap (fun q => g (pathView t q)) = ((relPaths t).map (pathView t)).filterMap g := by
    rw [List.filterMap_map]; rfl
  rw [this, pathView_relPaths, List.filterMap_map]

/-- for a path of `relPaths`: longer than 1 ⇔ not of length 1. -/
theorem length_gt_one {t : T} {q : List Nat} (hq : q ∈ relPaths t) :
    decide (q.length > 1) = !(q.length == 1) := by
  have := relPaths_ne_nil hq
  cases q with
  | nil => exact absurd rfl this
  | cons a r => cases r <;> simp

/-! ### generic list facts -/

theorem filterMap_ite_none {α β} (c : α → Bool) (f : α → β) (l : List α) :
    l.filterMap (fun x => if c x then none else some (f x)) = (l.filter (fun x => !c x)).map f := by
  induction l with
  | nil => rfl
  | cons a l ih => by_cases h : c a <;> simp [h, ih]

theorem filterMap_ite_some {α β} (c : α → Bool) (f : α → β) (l : List α) :
    l.filterMap (fun x => if c x then some (f x) else none) = (l.filter c).map f := by
  induction l with
  | nil => rfl
  | cons a l ih => by_cases h : c a <;> simp [h, ih]

/-! ### the specification's edge list, through the traversal -/

/-- the exported (parent, node) pairs are the traversal's pairs, minus the children of the
start node when the start node is not exported. -/
theorem edgePairs_eq (addSelf : Bool) (t : T) :
    edgePairs addSelf t = ((ann t).filter (fun x => addSelf || !x.top)).map (fun x => (x.parent, x.node)) := by
  unfold edgePairs
  rw [filterMap_relPaths t _ (fun v => if addSelf || !v.1 then
      (match v.2.1, v.2.2.2 with | some p, some n => some (p, n) | _, _ => none) else none)]
  · rw [← filterMap_ite_some]
    apply filterMap_congr'
    intro x _
    cases addSelf <;> cases h : x.top <;> simp [itemView, h]
  · intro q hq
    cases addSelf <;> cases h : (q.length == 1) <;> simp only [pathView, length_gt_one hq, h] <;> rfl

theorem edgePairs_true (t : T) : edgePairs true t = withParent t := by
  rw [edgePairs_eq, withParent_eq, List.filter_eq_self.2 (by simp)]

/-- with distinct identities: the pairs whose parent is not (identical to) the start node. -/
theorem edgePairs_eq_filter {t : T} (hN : IdsNodup t) (addSelf : Bool) :
    edgePairs addSelf t = (withParent t).filter (fun pn => addSelf || !(pn.1.id == t.id)) := by
  rw [edgePairs_eq, withParent_eq, List.filter_map]
  congr 1
  apply List.filter_congr
  intro x hx
  simp only [Function.comp, top_iff_id hN hx]

/-- the children of the start node, as items of the traversal. -/
theorem annL_top_items (p : T) (k : Nat) (ks : List T) :
    ((annL true p k ks).filter (·.top)).map (fun x => (x.parent, x.node)) = ks.map (fun c => (p, c)) := by
  induction ks generalizing k with
  | nil => simp
  | cons c cs ih =>
    rw [annL_cons, List.cons_append, List.filter_cons, List.filter_append]
    have : (annL false c 0 c.kids).filter (·.top) = [] := by
      rw [List.filter_eq_nil_iff]
      intro x hx
      simp [annL_flag_false hx]
    simp [this, ih (k + 1)]

theorem edgeCount_eq (addSelf : Bool) (t : T) :
    edgeCount addSelf t = ((ann t).filter (fun x => addSelf || !x.top)).length := by
  unfold edgeCount
  have h1 : (relPaths t).filter (fun q => addSelf || decide (q.length > 1))
      = (relPaths t).filter ((fun v : Bool × Option T × Option Nat × Option T => addSelf || !v.1) ∘ pathView t) := by
    apply List.filter_congr
    intro q hq
    simp only [Function.comp, pathView, length_gt_one hq]
  rw [h1, ← List.length_map (f := pathView t), ← List.filter_map, pathView_relPaths, List.filter_map, List.length_map]
  rfl

end Graph
end Nutree
