/-
  Nutree.Lemmas.DiffReduce — `reduceL` keeps exactly the marked nodes and their ancestors.
-/
import Nutree.Lemmas.DiffBasic
namespace Nutree
open T C10
namespace Diff

/-- the node or one of its descendants carries a `dc` mark. -/
def hasMarkedDesc (n : T) : Bool := (flat n).any fun x => (dcOf x).isSome

theorem hasMarkedDesc_node (i : Info) (ks : List T) :
    hasMarkedDesc (.node i ks) = ((dcI i).isSome || (flatL ks).any fun x => (dcOf x).isSome) := by
  unfold hasMarkedDesc; rw [flat_node, List.any_cons]; rfl

theorem reduceL_nil : reduceL [] = [] := by simp [reduceL]

theorem reduceL_cons (i : Info) (ks rest : List T) :
    reduceL (.node i ks :: rest) =
      if (dcI i).isSome || !(reduceL ks).isEmpty then .node i (reduceL ks) :: reduceL rest
      else reduceL rest := by
  rw [reduceL, reduceT]
  simp only [dcI]
  split <;> rename_i h
  · split at h
    · rename_i hc; injection h with h; subst h; simp [hc]
    · cases h
  · split at h
    · cases h
    · rename_i hc; simp [hc]

/-- no descendant of a member of `ks` is marked iff nothing in `ks` is. -/
theorem filter_hasMarkedDesc_eq_nil {ks : List T}
    (h : (flatL ks).any (fun x => (dcOf x).isSome) = false) :
    (flatL ks).filter hasMarkedDesc = [] := by
  rw [List.filter_eq_nil_iff]
  intro x hx
  obtain ⟨c, hc, hxc⟩ := mem_flatL.1 hx
  simp only [hasMarkedDesc, Bool.not_eq_true]
  rw [List.any_eq_false] at h ⊢
  intro y hy
  exact h y (mem_flatL.2 ⟨c, hc, mem_flat_trans hy hxc⟩)

theorem any_marked_of_filter_ne_nil {ks : List T}
    (h : (flatL ks).any (fun x => (dcOf x).isSome) = true) :
    (flatL ks).filter hasMarkedDesc ≠ [] := by
  rw [List.any_eq_true] at h
  obtain ⟨x, hx, hm⟩ := h
  intro he
  have : x ∈ (flatL ks).filter hasMarkedDesc := by
    rw [List.mem_filter]
    refine ⟨hx, ?_⟩
    unfold hasMarkedDesc
    rw [List.any_eq_true]
    exact ⟨x, self_mem_flat x, hm⟩
  rw [he] at this
  cases this

/-- T7: the records of the reduced forest are those of the nodes that are marked or have a
marked descendant, in the original (pre-)order, unchanged. -/
theorem infosL_reduceL : ∀ f : List T,
    infosL (reduceL f) = ((flatL f).filter hasMarkedDesc).map T.info := by
  intro f
  induction f using indList with
  | nil => simp [reduceL_nil]
  | cons i ks rest ihk ihr =>
    rw [reduceL_cons]
    have hempty : (reduceL ks).isEmpty = !((flatL ks).any fun x => (dcOf x).isSome) := by
      cases hb : (flatL ks).any fun x => (dcOf x).isSome
      · have := filter_hasMarkedDesc_eq_nil hb
        rw [this] at ihk
        have h2 : flatL (reduceL ks) = [] := by simpa [infosL] using ihk
        cases hr : reduceL ks with
        | nil => rfl
        | cons t ts =>
          rw [hr] at h2; cases t; simp [flat_node] at h2
      · have := any_marked_of_filter_ne_nil hb
        cases hr : reduceL ks with
        | nil =>
          rw [hr] at ihk
          have h3 : ((flatL ks).filter hasMarkedDesc).map T.info = [] := by rw [← ihk]; simp
          exact absurd (List.map_eq_nil_iff.1 h3) this
        | cons t ts => rfl
    rw [hempty, Bool.not_not, ← hasMarkedDesc_node]
    rw [flatL_cons, flat_node, List.filter_append, List.filter_cons]
    cases hm : hasMarkedDesc (.node i ks)
    · simp only [Bool.false_eq_true, if_false]
      rw [hasMarkedDesc_node, Bool.or_eq_false_iff] at hm
      rw [filter_hasMarkedDesc_eq_nil hm.2, List.nil_append, ihr]
    · simp only [if_true]
      rw [infosL_cons, infos_node, ihk, ihr]
      simp

end Diff
end Nutree
