/-
  Nutree.Lemmas.DiffZone — from the identity-based description of the re-classification loop
  (`ReclP`, processed identities ⊆ `addedIds`) to the positional one (`ReclL`): only nodes
  marked ADDED or below such a node can become MOVED_HERE.
-/
import Nutree.Lemmas.DiffPairs
import Nutree.Lemmas.DiffRaw
namespace Nutree
open T C10
namespace Diff

/-- the node is marked ADDED or lies below a node marked ADDED (`b`). -/
def addedFlag (b : Bool) (i : Info) : Bool := b || dcI i == some "ADDED"

mutual
/-- positional description of what the re-classification loop does to a forest
(`b`: we are below an ADDED node). -/
def ReclT (b : Bool) : T → T → Prop
  | .node i ks, .node j ls =>
    SameBut i j ∧ Trans (addedFlag b i = true) (dcI i) (dcI j) ∧ ReclL (addedFlag b i) ks ls
def ReclL (b : Bool) : List T → List T → Prop
  | [], [] => True
  | a :: as, c :: cs => ReclT b a c ∧ ReclL b as cs
  | [], _ :: _ => False
  | _ :: _, [] => False
end

theorem reclL_nil_left {b : Bool} {f : List T} : ReclL b [] f ↔ f = [] := by
  cases f <;> simp [ReclL]

theorem reclL_cons_left {b : Bool} {i : Info} {ks as f : List T} :
    ReclL b (.node i ks :: as) f ↔
      ∃ j ls cs, f = .node j ls :: cs ∧ SameBut i j ∧ Trans (addedFlag b i = true) (dcI i) (dcI j) ∧
        ReclL (addedFlag b i) ks ls ∧ ReclL b as cs := by
  cases f with
  | nil => simp [ReclL]
  | cons t cs =>
    cases t with
    | node j ls =>
      simp only [ReclL, ReclT]
      constructor
      · rintro ⟨⟨h1, h2, h3⟩, h4⟩; exact ⟨j, ls, cs, rfl, h1, h2, h3, h4⟩
      · rintro ⟨j', ls', cs', he, h1, h2, h3, h4⟩
        injection he with he1 he2
        injection he1 with he1 he3
        subst he1 he2 he3
        exact ⟨⟨h1, h2, h3⟩, h4⟩

mutual
/-- identities in `A` occur only at ADDED nodes and below them. -/
def ZoneT (A : NodeId → Prop) (b : Bool) : T → Prop
  | .node i ks => (A i.id → addedFlag b i = true) ∧ ZoneL A (addedFlag b i) ks
def ZoneL (A : NodeId → Prop) (b : Bool) : List T → Prop
  | [] => True
  | t :: ts => ZoneT A b t ∧ ZoneL A b ts
end

theorem zoneL_cons {A : NodeId → Prop} {b : Bool} {i : Info} {ks rest : List T} :
    ZoneL A b (.node i ks :: rest) ↔
      (A i.id → addedFlag b i = true) ∧ ZoneL A (addedFlag b i) ks ∧ ZoneL A b rest := by
  simp only [ZoneL, ZoneT, and_assoc]

theorem reclL_of_simL {A : NodeId → Prop} {R0 : List T} :
    ∀ (a : List T) (b : Bool) (f : List T), SimL (ReclP A R0) a f → ZoneL A b a → ReclL b a f := by
  intro a
  induction a using indList with
  | nil => intro b f h _; rw [simL_nil_left] at h; subst h; simp [ReclL]
  | cons i ks rest ihk ihr =>
    intro b f h hz
    rw [simL_cons_left] at h
    obtain ⟨j, ls, bs, he, ⟨_, hs, ht⟩, h2, h3⟩ := h
    rw [zoneL_cons] at hz
    obtain ⟨z1, z2, z3⟩ := hz
    rw [reclL_cons_left]
    refine ⟨j, ls, bs, he, hs, ?_, ihk _ _ h2 z2, ihr _ _ h3 z3⟩
    rcases ht with ht | ⟨ha, ht⟩ | ht
    · exact Or.inl ht
    · exact Or.inr (Or.inl ⟨z1 ha, ht⟩)
    · exact Or.inr (Or.inr ht)

theorem mem_flatL_trans {y n : T} {ks : List T} (hy : y ∈ flat n) (hn : n ∈ flatL ks) : y ∈ flatL ks := by
  obtain ⟨c, hc, hnc⟩ := mem_flatL.1 hn
  exact mem_flatL.2 ⟨c, hc, mem_flat_trans hy hnc⟩

theorem zoneL_of_nodup {A : NodeId → Prop} : ∀ (f : List T) (b : Bool), IdsNodupL f →
    (∀ x ∈ flatL f, A x.id → b = true ∨ ∃ n ∈ flatL f, dcOf n = some "ADDED" ∧ ∃ y ∈ flat n, y.id = x.id) →
    ZoneL A b f := by
  intro f
  induction f using indList with
  | nil => intro _ _ _; simp [ZoneL]
  | cons i ks rest ihk ihr =>
    intro b hN h
    obtain ⟨hN1, hN2, hdis⟩ := (idsNodupL_cons _ _).1 hN
    obtain ⟨hself, hNk⟩ := (idsNodup_iff _).1 hN1
    simp only [kids_node, T.id_node] at hself hNk
    have hmemself : T.node i ks ∈ flat (.node i ks) := self_mem_flat _
    rw [zoneL_cons]
    refine ⟨?_, ihk _ hNk ?_, ihr _ hN2 ?_⟩
    · intro hA
      rcases h (.node i ks) (by simp [flat_node]) hA with hb | ⟨n, hn, hd, y, hy, hyid⟩
      · simp [addedFlag, hb]
      · rw [flatL_cons, flat_node, List.cons_append, List.mem_cons, List.mem_append] at hn
        rcases hn with rfl | hn | hn
        · have : dcI i = some "ADDED" := hd
          simp [addedFlag, this]
        · exact absurd hyid (hself y (mem_flatL_trans hy hn))
        · exact absurd hyid.symm (hdis _ hmemself y (mem_flatL_trans hy hn))
    · intro x hx hA
      have hxm : x ∈ flat (.node i ks) := by rw [flat_node]; exact List.mem_cons_of_mem _ hx
      rcases h x (by rw [flatL_cons]; exact List.mem_append_left _ hxm) hA with hb | ⟨n, hn, hd, y, hy, hyid⟩
      · left; simp [addedFlag, hb]
      · rw [flatL_cons, flat_node, List.cons_append, List.mem_cons, List.mem_append] at hn
        rcases hn with rfl | hn | hn
        · left
          have : dcI i = some "ADDED" := hd
          simp [addedFlag, this]
        · exact Or.inr ⟨n, hn, hd, y, hy, hyid⟩
        · exact absurd hyid.symm (hdis _ hxm y (mem_flatL_trans hy hn))
    · intro x hx hA
      rcases h x (by rw [flatL_cons]; exact List.mem_append_right _ hx) hA with hb | ⟨n, hn, hd, y, hy, hyid⟩
      · exact Or.inl hb
      · rw [flatL_cons, List.mem_append] at hn
        rcases hn with hn | hn
        · exact absurd hyid (hdis y (mem_flat_trans hy hn) x hx)
        · exact Or.inr ⟨n, hn, hd, y, hy, hyid⟩

theorem mem_addedIds {f : List T} {n : NodeId} :
    n ∈ addedIds f ↔ ∃ a ∈ flatL f, dcOf a = some "ADDED" ∧ ∃ y ∈ flat a, y.id = n := by
  unfold addedIds
  simp only [List.mem_flatMap, List.mem_filter, List.mem_map, beq_iff_eq]
  constructor
  · rintro ⟨a, ⟨h1, h2⟩, y, h3, h4⟩; exact ⟨a, h1, h2, y, h3, h4⟩
  · rintro ⟨a, h1, h2, y, h3, h4⟩; exact ⟨a, ⟨h1, h2⟩, y, h3, h4⟩

theorem zoneL_addedIds {f : List T} (hN : IdsNodupL f) : ZoneL (· ∈ addedIds f) false f :=
  zoneL_of_nodup f false hN fun _ _ hA => Or.inr (mem_addedIds.1 hA)

/-! ## the raw result and the final result of `diffTree` -/

/-- the forest built by `compare` (before the re-classification loop). -/
def rawDiff (ordered : Bool) (t0 t1 : List T) : List T := (cmpNode ordered t1 t0 1).1

/-- the iteration order of `added_nodes` mentions only members of that set. -/
def ValidOrder (ordered : Bool) (t0 t1 : List T) (o : Option (List NodeId)) : Prop :=
  ∀ l, o = some l → ∀ n ∈ l, n ∈ addedIds (rawDiff ordered t0 t1)

theorem validOrder_none (ordered : Bool) (t0 t1 : List T) : ValidOrder ordered t0 t1 none := by
  intro l h; cases h

theorem diffTree_false (ordered : Bool) (t0 t1 : List T) (o : Option (List NodeId)) :
    diffTree ordered false t0 t1 o =
      reclassify (o.getD (addedIds (rawDiff ordered t0 t1))) (rawDiff ordered t0 t1) := rfl

theorem diffTree_true (ordered : Bool) (t0 t1 : List T) (o : Option (List NodeId)) :
    diffTree ordered true t0 t1 o = reduceL (diffTree ordered false t0 t1 o) := rfl

theorem rawDiff_idsNodup (ordered : Bool) (t0 t1 : List T) : IdsNodupL (rawDiff ordered t0 t1) :=
  cmpNode_idsNodup _ _ _ _

theorem rawDiff_raw (ordered : Bool) (t0 t1 : List T) :
    ∀ x ∈ flatL (rawDiff ordered t0 t1), RawNode ordered x := cmpNode_raw _ _ _ _

theorem order_mem_addedIds {ordered : Bool} {t0 t1 : List T} {o : Option (List NodeId)}
    (hv : ValidOrder ordered t0 t1 o) :
    ∀ n ∈ o.getD (addedIds (rawDiff ordered t0 t1)), n ∈ addedIds (rawDiff ordered t0 t1) := by
  cases o with
  | none => intro n hn; exact hn
  | some l => exact hv l rfl

/-- identity-based description of the final result. -/
theorem diffTree_simL {ordered : Bool} {t0 t1 : List T} {o : Option (List NodeId)}
    (hv : ValidOrder ordered t0 t1 o) :
    SimL (ReclP (· ∈ addedIds (rawDiff ordered t0 t1)) (rawDiff ordered t0 t1))
      (rawDiff ordered t0 t1) (diffTree ordered false t0 t1 o) := by
  rw [diffTree_false]
  exact simL_reclassify (rawDiff_idsNodup _ _ _) _ (order_mem_addedIds hv) _ (simL_reclP_refl _ _)

/-- positional description of the final result. -/
theorem diffTree_reclL {ordered : Bool} {t0 t1 : List T} {o : Option (List NodeId)}
    (hv : ValidOrder ordered t0 t1 o) :
    ReclL false (rawDiff ordered t0 t1) (diffTree ordered false t0 t1 o) :=
  reclL_of_simL _ _ _ (diffTree_simL hv) (zoneL_addedIds (rawDiff_idsNodup _ _ _))

end Diff
end Nutree
