/-
  Nutree.Lemmas.DiffProj — projection of the diff result onto the first input (`FirstProj`).
-/
import Nutree.Lemmas.DiffFinal
namespace Nutree
open T C10
namespace Diff

/-- induction on a forest with the hypothesis available for the children of every member. -/
theorem indKids {motive : List T → Prop} (h : ∀ l, (∀ c ∈ l, motive c.kids) → motive l) :
    ∀ l, motive l := by
  have key : ∀ t : T, motive t.kids := by
    intro t
    induction t using T.ind with
    | node i ks ih => exact h ks ih
  exact fun l => h l (fun c _ => key c)

def notAdded (n : T) : Bool := !isAdded n

/-- projection onto the first tree: the result children that are not ADDED / MOVED_HERE
correspond one-to-one, in order, to the children of the `t0` node (same data, same data_id), and
below every pair whose result node is not REMOVED / MOVED_TO the same holds again. -/
inductive FirstProj : List T → List T → Prop
  | intro {r k0 : List T} :
      (r.filter notAdded).length = k0.length →
      (∀ (j : Nat) (c2 c0 : T), (r.filter notAdded)[j]? = some c2 → k0[j]? = some c0 →
          c2.data = c0.data ∧ c2.did = c0.did) →
      (∀ (j : Nat) (c2 c0 : T), (r.filter notAdded)[j]? = some c2 → k0[j]? = some c0 →
          isRemoved c2 = false → FirstProj c2.kids c0.kids) →
      FirstProj r k0

theorem srcMark_not_added {o : Bool} {k1 : List T} {j : Nat} {c0 c2 : T} (h : SrcMark o k1 j c0 c2) :
    isAdded c2 = false := by
  unfold SrcMark at h
  unfold isAdded isAddedS
  cases hf : findChild k1 c0 with
  | none =>
    rw [hf] at h
    have h1 := h.1
    unfold isRemoved isRemovedS at h1
    simp only [Bool.or_eq_true, beq_iff_eq] at h1
    rcases h1 with h1 | h1 <;> rw [h1] <;> decide
  | some p =>
    rw [hf] at h
    have h1 := h.1
    have := orderMark_ne_added o j p.1
    have := orderMark_ne_movedHere o j p.1
    rw [h1]
    simp [*]

theorem srcMark_removed_iff {o : Bool} {k1 : List T} {j : Nat} {c0 c2 : T} (h : SrcMark o k1 j c0 c2) :
    isRemoved c2 = true ↔ findChild k1 c0 = none := by
  unfold SrcMark at h
  cases hf : findChild k1 c0 with
  | none => rw [hf] at h; simp [h.1]
  | some p =>
    rw [hf] at h
    have h1 := h.1
    have := orderMark_ne_removed o j p.1
    have := orderMark_ne_movedTo o j p.1
    unfold isRemoved isRemovedS
    rw [h1]
    simp [*]

theorem srcMark_found {o : Bool} {k1 : List T} {j i1 : Nat} {c0 c1 c2 : T} (h : SrcMark o k1 j c0 c2)
    (hf : findChild k1 c0 = some (i1, c1)) :
    dcOf c2 = orderMark o j i1 ∧ (hasRen c2 = true ↔ o = true ∧ Renumbered c0.kids c1.kids) := by
  unfold SrcMark at h; rw [hf] at h; exact h

theorem srcMark_none {o : Bool} {k1 : List T} {j : Nat} {c0 c2 : T} (h : SrcMark o k1 j c0 c2)
    (hf : findChild k1 c0 = none) : isRemoved c2 = true ∧ c2.kids = [] ∧ hasRen c2 = false := by
  unfold SrcMark at h; rw [hf] at h; exact h

/-- the non-added children are exactly the first `k0.length` children. -/
theorem local_filter_notAdded {o : Bool} {k0 k1 r : List T} (hl : Local o k0 k1 r) :
    r.filter notAdded = r.take k0.length := by
  conv => lhs; rw [← List.take_append_drop k0.length r]
  rw [List.filter_append]
  have h1 : (r.take k0.length).filter notAdded = r.take k0.length := by
    rw [List.filter_eq_self]
    intro x hx
    obtain ⟨j, hj, rfl⟩ := List.mem_take_iff_getElem.1 hx
    have hj0 : j < k0.length := by omega
    obtain ⟨c2, hc2, _, _, hm⟩ := hl.src j k0[j] (List.getElem?_eq_getElem hj0)
    have hjr : j < r.length := by omega
    rw [List.getElem?_eq_getElem hjr] at hc2
    injection hc2 with hc2
    rw [hc2]
    simp [notAdded, srcMark_not_added hm]
  have h2 : (r.drop k0.length).filter notAdded = [] := by
    rw [List.filter_eq_nil_iff]
    intro x hx
    obtain ⟨j, hj⟩ := List.mem_iff_getElem?.1 hx
    rw [List.getElem?_drop] at hj
    have hjr := (List.getElem?_eq_some_iff.1 hj).1
    have hja : j < (addedSrc k0 k1).length := by have := hl.len; omega
    obtain ⟨c2, hc2, _, _, hadd, _⟩ := hl.add j _ (List.getElem?_eq_getElem hja)
    rw [hj] at hc2
    injection hc2 with hc2
    subst hc2
    simp [notAdded, hadd]
  rw [h1, h2, List.append_nil]

theorem firstProj_of_spec (o : Bool) : ∀ (k0 k1 r : List T), Spec o k0 k1 r → FirstProj r k0 := by
  intro k0
  induction k0 using indKids with
  | h k0 ih =>
    intro k1 r hs
    have hl := hs.here
    have hf := local_filter_notAdded hl
    have key : ∀ (j : Nat) (c2 c0 : T), (r.filter notAdded)[j]? = some c2 → k0[j]? = some c0 →
        r[j]? = some c2 ∧ c2.data = c0.data ∧ c2.did = c0.did ∧ SrcMark o k1 j c0 c2 := by
      intro j c2 c0 h2 h0
      rw [hf, List.getElem?_take] at h2
      have hj := (List.getElem?_eq_some_iff.1 h0).1
      rw [if_pos hj] at h2
      obtain ⟨c2', hc2', hdata, hdid, hm⟩ := hl.src j c0 h0
      rw [h2] at hc2'
      injection hc2' with hc2'
      subst hc2'
      exact ⟨h2, hdata, hdid, hm⟩
    refine .intro ?_ ?_ ?_
    · rw [hf, List.length_take, hl.len]; omega
    · intro j c2 c0 h2 h0
      obtain ⟨_, hdata, hdid, _⟩ := key j c2 c0 h2 h0
      exact ⟨hdata, hdid⟩
    · intro j c2 c0 h2' h0 hrem
      obtain ⟨h2, _, _, hm⟩ := key j c2 c0 h2' h0
      cases hfc : findChild k1 c0 with
      | none => rw [(srcMark_removed_iff hm).2 hfc] at hrem; cases hrem
      | some p =>
        obtain ⟨i1, c1⟩ := p
        exact ih c0 (List.mem_of_getElem? h0) c1.kids c2.kids (hs.down h0 hfc h2)

end Diff
end Nutree
