/-
  Nutree.Lemmas.SerialWF — helper lemmas for C03Load: the readers (`_from_list`, `load`,
  `from_dict`) on ARBITRARY documents.

  * `SwInv`: the invariant of the loop of `_from_list` (tree well-formed, counter fresh, no id
    hook, class of the tree, `node_idx_map` has exactly the keys `0 … n` and maps 0 to the system
    root), `swInv_body` / `swInv_step` / `swInv_stepG`: one iteration keeps it, `swInv_fold*`: the
    loop keeps it.
  * an error is absorbing (`sw_foldl_error*`), the loop over `a ++ b` (`sw_state_append*`).
  * `sw_lookup_*`: what `node_idx_map[...]` answers under `SwInv`.
  * `sw_body_unique`: the loop body refuses a row that would create a second child with an
    already present data id.
  * `sw_fromDictL_*`: the same for `from_dict`.
  All names carry the prefix `sw` / `Sw` (this file imports the copy lemmas, not the other
  serialisation lemma files).
-/
import Nutree.Model.Serial
import Nutree.Properties.C07Copy
namespace Nutree.Ser
open Nutree T Nutree.C01

/-! ### the loop invariant -/

/-- invariant of the loop of `_from_list` after `n` entries. -/
structure SwInv (typed : Bool) (n : Nat) (s : FState) : Prop where
  wf : WF s.1
  fresh : Fresh s.1 s.2.1
  hook : s.1.hook = none
  typed : s.1.typed = typed
  len : s.2.2.length = n + 1
  keys : s.2.2.map (·.1) = List.range (n + 1)
  zero : s.2.2.lookup 0 = some 0

theorem swInv_init (typed : Bool) : SwInv typed 0 ({ typed := typed }, 1, [(0, 0)]) where
  wf := WF_newTree typed
  fresh := fresh_newTree typed Nat.one_pos
  hook := rfl
  typed := rfl
  len := rfl
  keys := rfl
  zero := rfl

theorem sw_lookup_append_some {im : List (Nat × NodeId)} {k v : Nat} (e : Nat × NodeId)
    (h : im.lookup k = some v) : (im ++ [e]).lookup k = some v := by
  rw [List.lookup_append, h]; rfl

/-- the map after one more entry. -/
theorem swInv_snoc {typed : Bool} {n : Nat} {t t' : Tree} {nx nx' : Nat} {im : List (Nat × NodeId)}
    (h : SwInv typed n (t, nx, im)) (hw : WF t') (hf : Fresh t' nx') (hh : t'.hook = none)
    (hty : t'.typed = typed) (v : NodeId) :
    SwInv typed (n + 1) (t', nx', im ++ [(im.length, v)]) where
  wf := hw
  fresh := hf
  hook := hh
  typed := hty
  len := by show (im ++ [(im.length, v)]).length = n + 1 + 1; rw [List.length_append, h.len]; rfl
  keys := by
    show (im ++ [(im.length, v)]).map (·.1) = List.range (n + 1 + 1)
    rw [List.map_append, h.keys, h.len, List.range_succ (n := n + 1)]; rfl
  zero := sw_lookup_append_some _ h.zero

/-- a key that is not below the number of entries read so far is not in `node_idx_map`. -/
theorem sw_lookup_none {typed : Bool} {n : Nat} {s : FState} (h : SwInv typed n s) {p : Nat} (hp : n < p) :
    s.2.2.lookup p = none := by
  rw [List.lookup_eq_none_iff]
  intro e he
  have : e.1 ∈ s.2.2.map (·.1) := List.mem_map.2 ⟨e, he, rfl⟩
  rw [h.keys, List.mem_range] at this
  simp only [bne_iff_ne, ne_eq]
  omega

/-- a key up to the number of entries read so far is in `node_idx_map`. -/
theorem sw_lookup_some {typed : Bool} {n : Nat} {s : FState} (h : SwInv typed n s) {p : Nat} (hp : p ≤ n) :
    ∃ v, s.2.2.lookup p = some v := by
  cases hl : s.2.2.lookup p with
  | some v => exact ⟨v, rfl⟩
  | none =>
    rw [List.lookup_eq_none_iff] at hl
    have : p ∈ s.2.2.map (·.1) := by rw [h.keys, List.mem_range]; omega
    obtain ⟨e, he, hep⟩ := List.mem_map.1 this
    have := hl e he
    simp only [bne_iff_ne, ne_eq] at this
    exact absurd hep.symm this

/-! ### one iteration -/

/-- a successful `addNode` without `deep`: well-formed, fresh, hook and class kept. -/
theorem sw_addNode_ok {t t1 : Tree} {nx n1 parent : NodeId} {src : T} {sp : Option NodeId}
    {did? : Option DataId} {kind : Option String}
    (hw : WF t) (hf : Fresh t nx) (hs : Src [src])
    (hr : t.addNode nx parent src true sp .none none did? kind = (t1, n1, none)) :
    WF t1 ∧ Fresh t1 n1 ∧ t1.hook = t.hook ∧ t1.typed = t.typed := by
  have h := C07.addNode_WF t nx parent src true sp .none none did? kind hw hf hs
  simp only [hr] at h
  refine ⟨h.1, h.2.1, ?_, ?_⟩ <;>
  · rcases addNode_cases t nx parent src true sp .none none did? kind with ⟨e, he⟩ | ⟨t0, hadd, _, hre⟩
    · rw [hr] at he; cases he
    · simp only [Option.getD_none, Bool.false_eq_true, if_false] at hre
      rw [hr] at hre
      cases hre
      obtain ⟨h1, h2, _⟩ := addData_fields hadd
      first | exact h2 | exact h1

/-- the loop body keeps the invariant. -/
theorem swInv_body {typed : Bool} {sa : String → Atom} {ds : Fields → DRes} {n : Nat}
    {t : Tree} {nx : Nat} {im : List (Nat × NodeId)} {parent : NodeId} {pl : Payload} {s' : FState}
    (h : SwInv typed n (t, nx, im))
    (hr : fromListBody typed sa ds t nx im parent pl = .ok s') : SwInv typed (n + 1) s' := by
  have hw : WF t := h.wf
  have hf : Fresh t nx := h.fresh
  have hh : t.hook = none := h.hook
  have hty : t.typed = typed := h.typed
  unfold fromListBody at hr
  cases pl with
  | str s =>
    simp only at hr
    cases ha : t.addData nx parent (sa s) .none none (if typed then some "child" else none) with
    | error e => rw [ha] at hr; cases hr
    | ok t1 =>
      rw [ha] at hr
      cases hr
      obtain ⟨hw1, hf1⟩ := addData_WF _ _ _ _ _ _ _ _ hw hf ha
      obtain ⟨h1, h2, _⟩ := addData_fields ha
      exact swInv_snoc h hw1 hf1 (h2.trans hh) (h1.trans hty) nx
  | ref k =>
    simp only at hr
    cases hl : im.lookup k with
    | none => rw [hl] at hr; cases hr
    | some first =>
      rw [hl] at hr
      simp only at hr
      split at hr
      · cases hr
      · cases hfc : findT first t.root with
        | none => rw [hfc] at hr; cases hr
        | some fc =>
          rw [hfc] at hr
          simp only at hr
          generalize hres : t.addNode nx parent fc true (t.parentId first) .none none (some fc.did)
            (if typed then fc.kind else none) = res at hr
          obtain ⟨t1, n1, e⟩ := res
          cases e with
          | some e => cases hr
          | none =>
            simp only at hr
            cases hr
            have hs : Src [fc] := Src.singleton_iff.2 (hw.srcT (findT_some_mem hfc))
            obtain ⟨hw1, hf1, h2, h1⟩ := sw_addNode_ok hw hf hs hres
            exact swInv_snoc h hw1 hf1 (h2.trans hh) (h1.trans hty) nx
  | dict d =>
    simp only at hr
    cases hd : ds d with
    | notImplemented => rw [hd] at hr; cases hr
    | error => rw [hd] at hr; cases hr
    | atom a =>
      rw [hd] at hr
      simp only at hr
      split at hr
      · cases hr
      · generalize hk : (if typed then some (match lookupF d "kind" with | some (.str k) => k | _ => "child") else none) = kind at hr
        cases ha : t.addData nx parent a .none ((lookupF d "data_id").bind jDid) kind with
        | error e => rw [ha] at hr; cases hr
        | ok t1 =>
          rw [ha] at hr
          cases hr
          obtain ⟨hw1, hf1⟩ := addData_WF _ _ _ _ _ _ _ _ hw hf ha
          obtain ⟨h1, h2, _⟩ := addData_fields ha
          exact swInv_snoc h hw1 hf1 (h2.trans hh) (h1.trans hty) nx

theorem swInv_step {typed : Bool} {sa : String → Atom} {ds : Fields → DRes} {n : Nat}
    {s s' : FState} {r : Nat × Payload} (h : SwInv typed n s)
    (hr : fromListStep typed sa ds (.ok s) r = .ok s') : SwInv typed (n + 1) s' := by
  obtain ⟨t, nx, im⟩ := s
  unfold fromListStep at hr
  simp only at hr
  cases hl : im.lookup r.1 with
  | none => rw [hl] at hr; cases hr
  | some parent => rw [hl] at hr; exact swInv_body h hr

theorem swInv_stepG {typed : Bool} {sa : String → Atom} {ds : Fields → DRes} {n : Nat}
    {s s' : FState} {r : PKey × Cell} (h : SwInv typed n s)
    (hr : fromListStepG typed sa ds (.ok s) r = .ok s') : SwInv typed (n + 1) s' := by
  obtain ⟨t, nx, im⟩ := s
  obtain ⟨k, c⟩ := r
  unfold fromListStepG at hr
  simp only at hr
  cases k with
  | unhashable => cases hr
  | absent => cases hr
  | idx p =>
    simp only at hr
    cases hl : im.lookup p with
    | none => rw [hl] at hr; cases hr
    | some parent =>
      rw [hl] at hr
      cases c with
      | negRef => cases hr
      | notDict => cases hr
      | pl pl => exact swInv_body h hr

/-! ### the loop -/

theorem sw_foldl_error {typed : Bool} {sa : String → Atom} {ds : Fields → DRes} (e : Err) :
    ∀ rows : List (Nat × Payload), rows.foldl (fromListStep typed sa ds) (.error e) = .error e
  | [] => rfl
  | _ :: rows => by rw [List.foldl_cons]; exact sw_foldl_error e rows

theorem sw_foldl_errorG {typed : Bool} {sa : String → Atom} {ds : Fields → DRes} (e : Err) :
    ∀ rows : List (PKey × Cell), rows.foldl (fromListStepG typed sa ds) (.error e) = .error e
  | [] => rfl
  | _ :: rows => by rw [List.foldl_cons]; exact sw_foldl_errorG e rows

theorem swInv_fold {typed : Bool} {sa : String → Atom} {ds : Fields → DRes} :
    ∀ (rows : List (Nat × Payload)) (n : Nat) (s s' : FState), SwInv typed n s →
      rows.foldl (fromListStep typed sa ds) (.ok s) = .ok s' → SwInv typed (n + rows.length) s'
  | [], n, s, s', h, hr => by cases hr; exact h
  | r :: rows, n, s, s', h, hr => by
    rw [List.foldl_cons] at hr
    cases hs : fromListStep typed sa ds (.ok s) r with
    | error e => rw [hs, sw_foldl_error] at hr; cases hr
    | ok s1 =>
      rw [hs] at hr
      have := swInv_fold rows (n + 1) s1 s' (swInv_step h hs) hr
      rw [List.length_cons]
      rwa [Nat.add_assoc, Nat.add_comm 1] at this

theorem swInv_foldG {typed : Bool} {sa : String → Atom} {ds : Fields → DRes} :
    ∀ (rows : List (PKey × Cell)) (n : Nat) (s s' : FState), SwInv typed n s →
      rows.foldl (fromListStepG typed sa ds) (.ok s) = .ok s' → SwInv typed (n + rows.length) s'
  | [], n, s, s', h, hr => by cases hr; exact h
  | r :: rows, n, s, s', h, hr => by
    rw [List.foldl_cons] at hr
    cases hs : fromListStepG typed sa ds (.ok s) r with
    | error e => rw [hs, sw_foldl_errorG] at hr; cases hr
    | ok s1 =>
      rw [hs] at hr
      have := swInv_foldG rows (n + 1) s1 s' (swInv_stepG h hs) hr
      rw [List.length_cons]
      rwa [Nat.add_assoc, Nat.add_comm 1] at this

/-- the state after `rows` satisfies the invariant. -/
theorem swInv_state {typed : Bool} {sa : String → Atom} {ds : Fields → DRes} {rows : List (Nat × Payload)}
    {s : FState} (h : fromListState typed sa ds rows = .ok s) : SwInv typed rows.length s := by
  have := swInv_fold rows 0 _ s (swInv_init typed) h
  rwa [Nat.zero_add] at this

theorem swInv_stateG {typed : Bool} {sa : String → Atom} {ds : Fields → DRes} {rows : List (PKey × Cell)}
    {s : FState} (h : fromListStateG typed sa ds rows = .ok s) : SwInv typed rows.length s := by
  have := swInv_foldG rows 0 _ s (swInv_init typed) h
  rwa [Nat.zero_add] at this

/-- the loop over `a ++ r :: b` once the state after `a` is known. -/
theorem sw_state_append {typed : Bool} {sa : String → Atom} {ds : Fields → DRes}
    {a b : List (Nat × Payload)} {r : Nat × Payload} {s : FState}
    (h : fromListState typed sa ds a = .ok s) :
    fromListState typed sa ds (a ++ r :: b) = b.foldl (fromListStep typed sa ds) (fromListStep typed sa ds (.ok s) r) := by
  unfold fromListState at h ⊢
  rw [List.foldl_append, h, List.foldl_cons]

theorem sw_state_appendG {typed : Bool} {sa : String → Atom} {ds : Fields → DRes}
    {a b : List (PKey × Cell)} {r : PKey × Cell} {s : FState}
    (h : fromListStateG typed sa ds a = .ok s) :
    fromListStateG typed sa ds (a ++ r :: b) = b.foldl (fromListStepG typed sa ds) (fromListStepG typed sa ds (.ok s) r) := by
  unfold fromListStateG at h ⊢
  rw [List.foldl_append, h, List.foldl_cons]

/-- if the iteration on `r` fails after `a`, the whole list fails with that error. -/
theorem sw_fromList_error_at {typed : Bool} {sa : String → Atom} {ds : Fields → DRes}
    {a b : List (Nat × Payload)} {r : Nat × Payload} {s : FState} {e : Err}
    (h : fromListState typed sa ds a = .ok s) (hr : fromListStep typed sa ds (.ok s) r = .error e) :
    fromList typed sa ds (a ++ r :: b) = .error e := by
  unfold fromList
  rw [sw_state_append h, hr, sw_foldl_error]; rfl

theorem sw_fromListG_error_at {typed : Bool} {sa : String → Atom} {ds : Fields → DRes}
    {a b : List (PKey × Cell)} {r : PKey × Cell} {s : FState} {e : Err}
    (h : fromListStateG typed sa ds a = .ok s) (hr : fromListStepG typed sa ds (.ok s) r = .error e) :
    fromListG typed sa ds (a ++ r :: b) = .error e := by
  unfold fromListG
  rw [sw_state_appendG h, hr, sw_foldl_errorG]; rfl

/-- a successful `fromList` has a final state. -/
theorem sw_state_of_fromList {typed : Bool} {sa : String → Atom} {ds : Fields → DRes}
    {rows : List (Nat × Payload)} {t : Tree} (h : fromList typed sa ds rows = .ok t) :
    ∃ nx im, fromListState typed sa ds rows = .ok (t, nx, im) := by
  unfold fromList at h
  cases hs : fromListState typed sa ds rows with
  | error e => rw [hs] at h; cases h
  | ok s =>
    rw [hs] at h
    obtain ⟨t', nx, im⟩ := s
    cases h
    exact ⟨nx, im, rfl⟩

theorem sw_state_of_fromListG {typed : Bool} {sa : String → Atom} {ds : Fields → DRes}
    {rows : List (PKey × Cell)} {t : Tree} (h : fromListG typed sa ds rows = .ok t) :
    ∃ nx im, fromListStateG typed sa ds rows = .ok (t, nx, im) := by
  unfold fromListG at h
  cases hs : fromListStateG typed sa ds rows with
  | error e => rw [hs] at h; cases h
  | ok s =>
    rw [hs] at h
    obtain ⟨t', nx, im⟩ := s
    cases h
    exact ⟨nx, im, rfl⟩

/-- a non-array `"nodes"` value that loads (the empty string, the empty object) gives what the empty list gives. -/
theorem sw_oddNodes_ok {typed : Bool} {sa : String → Atom} {ds : Fields → DRes} {hdr : Fields} {nd : JVal} {t : Tree} {fm : Fields}
    (h : oddNodes typed sa ds hdr nd = .ok (t, fm)) : fromListG typed sa ds [] = .ok t := by
  cases nd with
  | str s =>
    simp only [oddNodes] at h
    split at h
    · cases hf : fromListG typed sa ds [] with
      | error e => rw [hf] at h; cases h
      | ok t' => rw [hf] at h; cases h; rfl
    · cases h
  | obj l =>
    simp only [oddNodes] at h
    split at h
    · cases hf : fromListG typed sa ds [] with
      | error e => rw [hf] at h; cases h
      | ok t' => rw [hf] at h; cases h; rfl
    · split at h <;> cases h
  | _ => simp [oddNodes] at h

/-- a successful `load` went through the two loops. -/
theorem sw_loadJ_ok {typed : Bool} {sa : String → Atom} {ds : Fields → DRes} {doc : JVal} {t : Tree} {fm : Fields}
    (h : loadJ typed sa ds doc = .ok (t, fm)) :
    ∃ km vm nodes rows, decodeNodes km vm nodes = .ok rows ∧ fromListG typed sa ds rows = .ok t := by
  cases doc with
  | obj top =>
    simp only [loadJ] at h
    cases hm : lookupF top "meta" with
    | none => simp [hm] at h
    | some m =>
      cases hn : lookupF top "nodes" with
      | none => simp [hm, hn] at h
      | some nd =>
        cases m with
        | obj hdr =>
          cases nd with
          | arr nodes =>
            simp only [hm, hn] at h
            cases hg : lookupF hdr "$generator" with
            | none => simp [hg] at h
            | some g =>
              simp only [hg] at h
              split at h
              all_goals
                split at h
                · cases h
                · cases hd : decodeNodes (loadKm hdr) (loadVm hdr) nodes with
                  | error e => simp [hd] at h
                  | ok rows =>
                    simp only [hd] at h
                    cases hf : fromListG typed sa ds rows with
                    | error e => rw [hf] at h; cases h
                    | ok t' =>
                      rw [hf] at h
                      cases h
                      exact ⟨_, _, _, rows, hd, hf⟩
          | _ =>
            simp only [hm, hn] at h
            split at h
            · exact ⟨[], [], [], [], rfl, sw_oddNodes_ok h⟩
            · cases h
        | _ => simp [hm, hn] at h
  | _ => simp [loadJ] at h

/-! ### well-shaped rows are a special case of arbitrary entries -/

theorem sw_stepG_lift (typed : Bool) (sa : String → Atom) (ds : Fields → DRes)
    (acc : Except Err FState) (r : Nat × Payload) :
    fromListStepG typed sa ds acc (liftRow r) = fromListStep typed sa ds acc r := by
  cases acc with
  | error e => rfl
  | ok st => obtain ⟨t, nx, im⟩ := st; rfl

theorem sw_foldl_lift (typed : Bool) (sa : String → Atom) (ds : Fields → DRes) :
    ∀ (rows : List (Nat × Payload)) (acc : Except Err FState),
      (rows.map liftRow).foldl (fromListStepG typed sa ds) acc = rows.foldl (fromListStep typed sa ds) acc
  | [], _ => rfl
  | r :: rows, acc => by
    rw [List.map_cons, List.foldl_cons, List.foldl_cons, sw_stepG_lift, sw_foldl_lift]

theorem sw_stateG_lift (typed : Bool) (sa : String → Atom) (ds : Fields → DRes) (rows : List (Nat × Payload)) :
    fromListStateG typed sa ds (rows.map liftRow) = fromListState typed sa ds rows := by
  unfold fromListStateG fromListState
  rw [sw_foldl_lift]

/-! ### refusal of a duplicate by the loop body -/

/-- `add_child(data)` without explicit id computes the id with `calc_data_id`. -/
theorem sw_addData_none {t : Tree} {nx parent : NodeId} {a : Atom} {before : Before} {kind : Option String}
    {did : DataId} (hc : t.calcId a = .ok did) :
    t.addData nx parent a before none kind = t.addData nx parent a before (some did) kind := by
  unfold Tree.addData
  simp only [hc]

theorem sw_calcId {t : Tree} (hh : t.hook = none) (a : Atom) : t.calcId a = .ok a.hid := by
  unfold Tree.calcId
  rw [hh]

/-- appending (`before=None`) is always an accepted position. -/
theorem sw_addData_unique {t : Tree} {nx parent : NodeId} {a : Atom} {did? : Option DataId} {did : DataId}
    {kind : Option String} {pn : T} (hw : WF t) (hh : t.hook = none)
    (hp : findT parent t.root = some pn) (hd : did = did?.getD a.hid)
    (hc : ∃ c ∈ pn.kids, c.did = did) :
    t.addData nx parent a .none did? kind = .error .unique := by
  cases did? with
  | some d0 =>
    simp only [Option.getD_some] at hd
    subst hd
    exact addData_refused t nx parent a .none _ kind pn _ hw hp rfl hc
  | none =>
    simp only [Option.getD_none] at hd
    subst hd
    rw [sw_addData_none (sw_calcId hh a)]
    exact addData_refused t nx parent a .none a.hid kind pn _ hw hp rfl hc

/-- the data id of the node that the loop body would create for the payload `pl`
(`none`: the body fails before it comes to adding a node). -/
def rowDid (sa : String → Atom) (ds : Fields → DRes) (t : Tree) (im : List (Nat × NodeId)) : Payload → Option DataId
  | .str s => some (sa s).hid
  | .ref k => (im.lookup k).bind fun first => if first = 0 then none else (findT first t.root).map T.did
  | .dict d => match ds d with
    | .atom a => if didUnhashable d then none else some (((lookupF d "data_id").bind jDid).getD a.hid)
    | _ => none

/-- **the loop body refuses a duplicate**: if the parent already has a child with the data id the
row would get, the body raises the uniqueness error. -/
theorem sw_body_unique {typed : Bool} {sa : String → Atom} {ds : Fields → DRes}
    {t : Tree} {nx : Nat} {im : List (Nat × NodeId)} {parent : NodeId} {pl : Payload} {pn : T} {did : DataId}
    (hw : WF t) (hh : t.hook = none) (hp : findT parent t.root = some pn)
    (hd : rowDid sa ds t im pl = some did) (hc : ∃ c ∈ pn.kids, c.did = did) :
    fromListBody typed sa ds t nx im parent pl = .error .unique := by
  unfold fromListBody
  cases pl with
  | str s =>
    simp only [rowDid, Option.some.injEq] at hd
    simp only
    rw [sw_addData_unique (did? := none) hw hh hp (by simpa using hd.symm) hc]
    rfl
  | ref k =>
    simp only [rowDid] at hd
    cases hl : im.lookup k with
    | none => rw [hl] at hd; cases hd
    | some first =>
      rw [hl] at hd
      simp only [Option.bind_some] at hd
      by_cases h0 : first = 0
      · rw [if_pos h0] at hd; cases hd
      · rw [if_neg h0] at hd
        cases hfc : findT first t.root with
        | none => rw [hfc] at hd; cases hd
        | some fc =>
          rw [hfc] at hd
          simp only [Option.map_some, Option.some.injEq] at hd
          simp only [hl, if_neg h0, hfc]
          have hadd : t.addNode nx parent fc true (t.parentId first) .none none (some fc.did)
              (if typed then fc.kind else none) = (t, nx, some .unique) := by
            unfold Tree.addNode
            simp only [Option.getD_none, Bool.false_eq_true, Bool.false_and, if_false, Bool.true_and]
            by_cases hsp : (t.parentId first == some parent) = true
            · rw [if_pos hsp]
            · rw [if_neg hsp]
              simp only [bne_self_eq_false, Bool.and_false, Bool.false_eq_true, if_false, Option.getD_some]
              rw [sw_addData_unique (did? := some fc.did) hw hh hp rfl (hd ▸ hc)]
          rw [hadd]
  | dict d =>
    simp only [rowDid] at hd
    cases hds : ds d with
    | notImplemented => rw [hds] at hd; cases hd
    | error => rw [hds] at hd; cases hd
    | atom a =>
      rw [hds] at hd
      simp only at hd
      by_cases hu : didUnhashable d = true
      · rw [if_pos hu] at hd; cases hd
      · rw [if_neg hu] at hd
        simp only [Option.some.injEq] at hd
        simp only [hds, if_neg hu]
        rw [sw_addData_unique hw hh hp hd.symm hc]
        rfl

/-! ### `from_dict` -/

/-- `from_dict` keeps the state well-formed and the counter fresh, on every input. -/
theorem sw_fromDictL_WF (sa : String → Atom) (ds : Option (Fields → DRes)) :
    ∀ (fuel : Nat) (items : List JVal) (t : Tree) (parent next : NodeId) (t' : Tree) (n' : NodeId),
      WF t → Fresh t next → fromDictL sa ds fuel items t parent next = .ok (t', n') →
      WF t' ∧ Fresh t' n' ∧ next ≤ n' ∧ t'.hook = t.hook ∧ t'.typed = t.typed
  | 0, items, t, parent, next, t', n', hw, hf, hr => by
    rw [fromDictL] at hr
    cases hr
    exact ⟨hw, hf, Nat.le_refl _, rfl, rfl⟩
  | f + 1, [], t, parent, next, t', n', hw, hf, hr => by
    simp only [fromDictL] at hr
    cases hr
    exact ⟨hw, hf, Nat.le_refl _, rfl, rfl⟩
  | f + 1, item :: rest, t, parent, next, t', n', hw, hf, hr => by
    cases item with
    | obj d =>
      rw [fromDictL] at hr
      cases hi : itemData sa ds d with
      | error e => rw [hi] at hr; cases hr
      | ok a =>
        rw [hi] at hr
        simp only at hr
        split at hr
        · cases hr
        · cases ha : t.addData next parent a .none ((lookupF d "data_id").bind jDid) none with
          | error e => rw [ha] at hr; cases hr
          | ok t1 =>
            rw [ha] at hr
            simp only at hr
            cases hk : childItems d with
            | error e => rw [hk] at hr; cases hr
            | ok kids =>
              rw [hk] at hr
              simp only at hr
              cases h2 : fromDictL sa ds f kids t1 next (next + 1) with
              | error e => rw [h2] at hr; cases hr
              | ok r2 =>
                obtain ⟨t2, n2⟩ := r2
                rw [h2] at hr
                simp only at hr
                obtain ⟨hw1, hf1⟩ := addData_WF _ _ _ _ _ _ _ _ hw hf ha
                obtain ⟨hty1, hh1, _⟩ := addData_fields ha
                obtain ⟨hw2, hf2, hle2, hh2, hty2⟩ := sw_fromDictL_WF sa ds f kids t1 next (next + 1) t2 n2 hw1 hf1 h2
                obtain ⟨hw3, hf3, hle3, hh3, hty3⟩ := sw_fromDictL_WF sa ds (f + 1) rest t2 parent n2 t' n' hw2 hf2 hr
                exact ⟨hw3, hf3, Nat.le_trans (Nat.le_succ _) (Nat.le_trans hle2 hle3), hh3.trans (hh2.trans hh1), hty3.trans (hty2.trans hty1)⟩
    | null => simp [fromDictL] at hr
    | bool b => simp [fromDictL] at hr
    | num i => simp [fromDictL] at hr
    | str s => simp [fromDictL] at hr
    | arr l => simp [fromDictL] at hr
  termination_by fuel items => (fuel, items.length)

/-- the data id of the node that `from_dict` creates for the item `d` (`none`: the item fails
before a node is added). -/
def itemDid (sa : String → Atom) (ds : Option (Fields → DRes)) (d : Fields) : Option DataId :=
  match itemData sa ds d with
  | .ok a => if didUnhashable d then none else some (((lookupF d "data_id").bind jDid).getD a.hid)
  | .error _ => none

/-- **`from_dict` refuses a duplicate**: an item whose data id is already carried by a child of
the target raises the uniqueness error. -/
theorem sw_fromDictL_unique {sa : String → Atom} {ds : Option (Fields → DRes)} {f : Nat} {d : Fields}
    {rest : List JVal} {t : Tree} {parent next : NodeId} {pn : T} {did : DataId}
    (hw : WF t) (hh : t.hook = none) (hp : findT parent t.root = some pn)
    (hd : itemDid sa ds d = some did) (hc : ∃ c ∈ pn.kids, c.did = did) :
    fromDictL sa ds (f + 1) (.obj d :: rest) t parent next = .error .unique := by
  rw [fromDictL]
  unfold itemDid at hd
  cases hi : itemData sa ds d with
  | error e => rw [hi] at hd; cases hd
  | ok a =>
    rw [hi] at hd
    simp only at hd
    by_cases hu : didUnhashable d = true
    · rw [if_pos hu] at hd; cases hd
    · rw [if_neg hu] at hd
      simp only [Option.some.injEq] at hd
      simp only [if_neg hu]
      rw [sw_addData_unique hw hh hp hd.symm hc]

/-! ### `from_dict`: an item that repeats the data id of an earlier sibling item -/

/-- inversion of one successful round of `from_dict`. -/
theorem sw_fromDictL_cons_ok {sa : String → Atom} {ds : Option (Fields → DRes)} {f : Nat} {item : JVal}
    {rest : List JVal} {t t' : Tree} {parent next n' : NodeId}
    (hr : fromDictL sa ds (f + 1) (item :: rest) t parent next = .ok (t', n')) :
    ∃ d a t1 kids t2 n2, item = .obj d ∧ itemData sa ds d = .ok a ∧ didUnhashable d = false ∧
      t.addData next parent a .none ((lookupF d "data_id").bind jDid) none = .ok t1 ∧
      childItems d = .ok kids ∧ fromDictL sa ds f kids t1 next (next + 1) = .ok (t2, n2) ∧
      fromDictL sa ds (f + 1) rest t2 parent n2 = .ok (t', n') := by
  cases item with
  | obj d =>
    rw [fromDictL] at hr
    cases hi : itemData sa ds d with
    | error e => rw [hi] at hr; cases hr
    | ok a =>
      rw [hi] at hr
      simp only at hr
      by_cases hu : didUnhashable d = true
      · rw [if_pos hu] at hr; cases hr
      · rw [if_neg hu] at hr
        cases ha : t.addData next parent a .none ((lookupF d "data_id").bind jDid) none with
        | error e => rw [ha] at hr; cases hr
        | ok t1 =>
          rw [ha] at hr
          simp only at hr
          cases hk : childItems d with
          | error e => rw [hk] at hr; cases hr
          | ok kids =>
            rw [hk] at hr
            simp only at hr
            cases h2 : fromDictL sa ds f kids t1 next (next + 1) with
            | error e => rw [h2] at hr; cases hr
            | ok r2 =>
              obtain ⟨t2, n2⟩ := r2
              rw [h2] at hr
              exact ⟨d, a, t1, kids, t2, n2, rfl, hi, by simpa using hu, ha, hk, h2, hr⟩
  | null => simp [fromDictL] at hr
  | bool b => simp [fromDictL] at hr
  | num i => simp [fromDictL] at hr
  | str s => simp [fromDictL] at hr
  | arr l => simp [fromDictL] at hr

/-- node `parent` exists and has a child with data id `did`. -/
def HasKid (t : Tree) (parent : NodeId) (did : DataId) : Prop :=
  ∃ pn, findT parent t.root = some pn ∧ ∃ c ∈ pn.kids, c.did = did

/-- appending a node anywhere keeps the children (and their data ids) of every node. -/
theorem sw_hasKid_addData {t t1 : Tree} {nx q : NodeId} {a : Atom} {did? : Option DataId} {kind : Option String}
    {parent : NodeId} {did : DataId} (hw : WF t) (hf : Fresh t nx)
    (ha : t.addData nx q a .none did? kind = .ok t1) (h : HasKid t parent did) : HasKid t1 parent did := by
  obtain ⟨pn, hp, c, hc, hcd⟩ := h
  obtain ⟨hw1, _⟩ := addData_WF _ _ _ _ _ _ _ _ hw hf ha
  obtain ⟨qn, ins, d, hq, hins, hroot, _⟩ := addData_effect' _ _ _ _ _ _ _ _ ha
  rw [insertPosition_none] at hins
  cases hins
  have hN' : C10.IdsNodup (modT q (fun l => l ++ [T.node { id := nx, data := a, did := d, kind := if t.typed then some (kind.getD "child") else none } []]) t.root) := by
    rw [← hroot]; exact hw1.idsN
  have hfind := findT_modT_append hw.idsN hN' hp
  refine ⟨_, by rw [hroot]; exact hfind, ?_⟩
  rw [modT_kids]
  split
  · exact ⟨c, List.mem_append_left _ hc, hcd⟩
  · exact ⟨modT q _ c, List.mem_map_of_mem hc, by rw [modT_did]; exact hcd⟩

/-- the appended node is a child of its parent, with the id it was given / computed. -/
theorem sw_hasKid_new {t t1 : Tree} {nx parent : NodeId} {a : Atom} {did? : Option DataId} {kind : Option String}
    (hh : t.hook = none) (ha : t.addData nx parent a .none did? kind = .ok t1) :
    HasKid t1 parent (did?.getD a.hid) := by
  obtain ⟨pn, ins, d, hp, hins, hroot, hd⟩ := addData_effect' _ _ _ _ _ _ _ _ ha
  rw [insertPosition_none] at hins
  cases hins
  refine ⟨_, by rw [hroot]; exact findT_modT_self_of hp, _, List.mem_append_right _ (List.mem_singleton.2 rfl), ?_⟩
  rcases hd with hd | ⟨hd, hc⟩
  · rw [hd]; rfl
  · rw [hd, sw_calcId hh a] at *
    cases hc; rfl

/-- `from_dict` (below any node) keeps the children of every node. -/
theorem sw_hasKid_fromDictL (sa : String → Atom) (ds : Option (Fields → DRes)) {par : NodeId} {did : DataId} :
    ∀ (fuel : Nat) (items : List JVal) (t : Tree) (parent next : NodeId) (t' : Tree) (n' : NodeId),
      WF t → Fresh t next → fromDictL sa ds fuel items t parent next = .ok (t', n') →
      HasKid t par did → HasKid t' par did
  | 0, items, t, parent, next, t', n', hw, hf, hr, h => by
    rw [fromDictL] at hr
    cases hr; exact h
  | f + 1, [], t, parent, next, t', n', hw, hf, hr, h => by
    simp only [fromDictL] at hr
    cases hr; exact h
  | f + 1, item :: rest, t, parent, next, t', n', hw, hf, hr, h => by
    obtain ⟨d, a, t1, kids, t2, n2, _, _, _, ha, _, h2, h3⟩ := sw_fromDictL_cons_ok hr
    obtain ⟨hw1, hf1⟩ := addData_WF _ _ _ _ _ _ _ _ hw hf ha
    obtain ⟨hw2, hf2, _⟩ := sw_fromDictL_WF sa ds f kids t1 next (next + 1) t2 n2 hw1 hf1 h2
    exact sw_hasKid_fromDictL sa ds (f + 1) rest t2 parent n2 t' n' hw2 hf2 h3
      (sw_hasKid_fromDictL sa ds f kids t1 next (next + 1) t2 n2 hw1 hf1 h2 (sw_hasKid_addData hw hf ha h))
  termination_by fuel items => (fuel, items.length)

/-- after the items `pre` have been read below `parent`, `parent` has a child for each of them. -/
theorem sw_hasKid_of_item (sa : String → Atom) (ds : Option (Fields → DRes)) {f : Nat} {parent : NodeId} {did : DataId} :
    ∀ (pre : List JVal) (t : Tree) (next : NodeId) (t' : Tree) (n' : NodeId),
      WF t → Fresh t next → t.hook = none →
      fromDictL sa ds (f + 1) pre t parent next = .ok (t', n') →
      (∃ d0, JVal.obj d0 ∈ pre ∧ itemDid sa ds d0 = some did) → HasKid t' parent did
  | [], t, next, t', n', _, _, _, _, h => by obtain ⟨d0, hm, _⟩ := h; cases hm
  | item :: rest, t, next, t', n', hw, hf, hh, hr, h => by
    obtain ⟨d, a, t1, kids, t2, n2, rfl, hi, hu, ha, _, h2, h3⟩ := sw_fromDictL_cons_ok hr
    obtain ⟨hw1, hf1⟩ := addData_WF _ _ _ _ _ _ _ _ hw hf ha
    obtain ⟨_, hh1, _⟩ := addData_fields ha
    obtain ⟨hw2, hf2, _, hh2, _⟩ := sw_fromDictL_WF sa ds f kids t1 next (next + 1) t2 n2 hw1 hf1 h2
    obtain ⟨d0, hm, hd0⟩ := h
    rcases List.mem_cons.1 hm with he | hm
    · cases he
      have hk1 : HasKid t1 parent did := by
        have := sw_hasKid_new hh ha
        unfold itemDid at hd0
        rw [hi] at hd0
        simp only [hu, Bool.false_eq_true, if_false, Option.some.injEq] at hd0
        rwa [hd0] at this
      exact sw_hasKid_fromDictL sa ds (f + 1) rest t2 parent n2 t' n' hw2 hf2 h3
        (sw_hasKid_fromDictL sa ds f kids t1 next (next + 1) t2 n2 hw1 hf1 h2 hk1)
    · exact sw_hasKid_of_item sa ds rest t2 n2 t' n' hw2 hf2 (hh2.trans (hh1.trans hh)) h3 ⟨d0, hm, hd0⟩

/-- the loop of `from_dict` over `a ++ b`. -/
theorem sw_fromDictL_append (sa : String → Atom) (ds : Option (Fields → DRes)) {f : Nat} {parent : NodeId} (b : List JVal) :
    ∀ (a : List JVal) (t : Tree) (next : NodeId) (t1 : Tree) (n1 : NodeId),
      fromDictL sa ds (f + 1) a t parent next = .ok (t1, n1) →
      fromDictL sa ds (f + 1) (a ++ b) t parent next = fromDictL sa ds (f + 1) b t1 parent n1
  | [], t, next, t1, n1, h => by
    simp only [fromDictL] at h
    cases h; rfl
  | item :: rest, t, next, t1, n1, h => by
    obtain ⟨d, a, t0, kids, t2, n2, rfl, hi, hu, ha, hk, h2, h3⟩ := sw_fromDictL_cons_ok h
    rw [List.cons_append, fromDictL]
    simp only [hi, hu, Bool.false_eq_true, if_false, ha, hk, h2]
    exact sw_fromDictL_append sa ds b rest t2 n2 t1 n1 h3

end Nutree.Ser
