/-
  Nutree.Lemmas.FilterScan — the scan order of the filter predicates, the threading of the
  `stopped` flag, and the relation `Agree v w ks s` ("`w` is `v` made effective on the forest
  `ks` entered with stop flag `s`") that lets the operational loops (which consult `v` and a flag)
  be compared with the declarative `keepL w` (which consults the effective verdicts only).

  * `T.both` — induction over a tree and its forest at once.
  * `pre v ks s` — the nodes of `ks` on which the predicate is consulted and does not stop, when
    the forest is entered with flag `s`; `stopIn v ks` — the scan of `ks` meets a stop.
  * `pre_cons_descend / _leafy / _stop` — one step of the scan.
  * `Agree`, its one-step decompositions `Agree.descend / leafy / stop / stopped`, and
    `agree_effective`: `Spec.effective v ks` agrees with `v` on `ks` entered unstopped.
  * unfolding lemmas for `Spec.keepT` / `Spec.keepL`.
-/
import Nutree.Lemmas.Filter
namespace Nutree
open T C10

mutual
/-- simultaneous induction over a tree (`P`) and a forest (`Q`). -/
theorem T.bothT {P : T → Prop} {Q : List T → Prop} (hnode : ∀ i ks, Q ks → P (.node i ks))
    (hnil : Q []) (hcons : ∀ t ts, P t → Q ts → Q (t :: ts)) : ∀ t, P t
  | .node i ks => hnode i ks (T.bothL hnode hnil hcons ks)
theorem T.bothL {P : T → Prop} {Q : List T → Prop} (hnode : ∀ i ks, Q ks → P (.node i ks))
    (hnil : Q []) (hcons : ∀ t ts, P t → Q ts → Q (t :: ts)) : ∀ ks, Q ks
  | [] => hnil
  | t :: ts => hcons t ts (T.bothT hnode hnil hcons t) (T.bothL hnode hnil hcons ts)
end

namespace Flt
open Spec

/-! ### generic -/

theorem takeWhile_append_ite {α} (p : α → Bool) (a b : List α) :
    (a ++ b).takeWhile p = a.takeWhile p ++ (if a.all p then b.takeWhile p else []) := by
  induction a with
  | nil => simp
  | cons x xs ih => by_cases h : p x <;> simp [h, ih]

theorem takeWhile_eq_self_of_all {α} {p : α → Bool} {a : List α} (h : a.all p = true) :
    a.takeWhile p = a := by
  induction a with
  | nil => rfl
  | cons x xs ih =>
    simp only [List.all_cons, Bool.and_eq_true] at h
    rw [List.takeWhile_cons, if_pos h.1, ih h.2]

theorem of_mem_takeWhile {α} {p : α → Bool} {a : α} : ∀ {l : List α}, a ∈ l.takeWhile p → p a = true ∧ a ∈ l
  | [], h => by simp at h
  | x :: xs, h => by
    rw [List.takeWhile_cons] at h
    split at h
    · rcases List.mem_cons.1 h with rfl | h
      · exact ⟨by assumption, List.mem_cons_self⟩
      · exact ⟨(of_mem_takeWhile h).1, List.mem_cons_of_mem _ (of_mem_takeWhile h).2⟩
    · simp at h

/-! ### disjointness facts from distinct identities -/

theorem ne_of_mem_flatL_kids {n m : T} (h : m ∈ flatL n.kids) : m ≠ n := by
  intro e; subst e
  obtain ⟨c, hc, hm⟩ := mem_flatL.1 h
  have := size_le_of_mem_flat hm
  have := size_lt_of_mem_kids hc
  omega

theorem not_mem_flatL_of_mem_flat {n m : T} {ns : List T} (hN : IdsNodupL (n :: ns)) (h : m ∈ flat n) :
    m ∉ flatL ns := fun h2 => ((idsNodupL_cons n ns).1 hN).2.2 m h m h2 rfl

theorem id_not_mem_idsL_of_mem_flat {n m : T} {ns : List T} (hN : IdsNodupL (n :: ns)) (h : m ∈ flat n) :
    m.id ∉ idsL ns := by
  intro h2
  obtain ⟨y, hy, hym⟩ := mem_idsL.1 h2
  exact ((idsNodupL_cons n ns).1 hN).2.2 m h y hy hym.symm

/-- with distinct identities in a forest the identity determines the node. -/
theorem eq_of_id_eqL {ks : List T} {x y : T} (hN : IdsNodupL ks) (hx : x ∈ flatL ks) (hy : y ∈ flatL ks)
    (h : x.id = y.id) : x = y := by
  obtain ⟨c, hc, hxc⟩ := mem_flatL.1 hx
  obtain ⟨d, hd, hyd⟩ := mem_flatL.1 hy
  have := idsNodupL_disjoint hN hc hd hxc hyd h
  subst this
  exact eq_of_id_eq (idsNodup_of_mem hN hc) hxc hyd h

/-! ### the scan -/

theorem scanL_nil (v : T → Verdict) : scanL v [] = [] := by simp [scanL]

theorem scanL_cons (v : T → Verdict) (t : T) (ts : List T) : scanL v (t :: ts) = scanT v t ++ scanL v ts := by
  simp [scanL]

/-- the verdict lets the scan descend (`True` / `False`). -/
def Verdict.descends : Verdict → Bool
  | .accept => true
  | .reject => true
  | _ => false

theorem scanT_eq (v : T → Verdict) (n : T) :
    scanT v n = n :: (if (v n).descends then scanL v n.kids else []) := by
  cases n with
  | node i ks =>
    rw [scanT]
    cases h : v (.node i ks) <;> simp [Verdict.descends]

theorem mem_scan_flat (v : T → Verdict) :
    (∀ t : T, ∀ m ∈ scanT v t, m ∈ flat t) ∧ (∀ ks : List T, ∀ m ∈ scanL v ks, m ∈ flatL ks) := by
  refine ⟨T.bothT (Q := fun ks => ∀ m ∈ scanL v ks, m ∈ flatL ks) ?_ ?_ ?_,
          T.bothL (P := fun t => ∀ m ∈ scanT v t, m ∈ flat t) ?_ ?_ ?_⟩
  all_goals first
    | (intro i ks ih m hm
       rw [scanT_eq, List.mem_cons] at hm
       rw [flat_node, List.mem_cons]
       rcases hm with rfl | hm
       · exact Or.inl rfl
       · split at hm
         · exact Or.inr (ih m hm)
         · simp at hm)
    | (intro m hm; simp [scanL_nil] at hm)
    | (intro t ts iht ihts m hm
       rw [scanL_cons, List.mem_append] at hm
       rw [flatL_cons, List.mem_append]
       exact hm.imp (iht m) (ihts m))

theorem mem_scanL_flatL {v : T → Verdict} {ks : List T} {m : T} (h : m ∈ scanL v ks) : m ∈ flatL ks :=
  (mem_scan_flat v).2 ks m h

/-- the scan of `ks` meets a stop. -/
def stopIn (v : T → Verdict) (ks : List T) : Bool := (scanL v ks).any fun n => v n == .stop

/-- the nodes of `ks` on which the predicate is consulted and does not answer stop, when the
forest is entered with stop flag `s`. -/
def pre (v : T → Verdict) (ks : List T) (s : Bool) : List T :=
  if s then [] else (scanL v ks).takeWhile fun n => v n != .stop

theorem scanned_eq_pre (v : T → Verdict) (ks : List T) : scanned v ks = pre v ks false := rfl

@[simp] theorem pre_true (v : T → Verdict) (ks : List T) : pre v ks true = [] := rfl

@[simp] theorem pre_nil (v : T → Verdict) (s : Bool) : pre v [] s = [] := by
  unfold pre; simp [scanL_nil]

theorem mem_pre_flatL {v : T → Verdict} {ks : List T} {s : Bool} {m : T} (h : m ∈ pre v ks s) :
    m ∈ flatL ks := by
  unfold pre at h
  split at h
  · simp at h
  · exact mem_scanL_flatL (of_mem_takeWhile h).2

theorem all_ne_stop_eq (v : T → Verdict) (l : List T) :
    l.all (fun n => v n != .stop) = !l.any (fun n => v n == .stop) := by
  induction l with
  | nil => rfl
  | cons x xs ih => rw [List.all_cons, List.any_cons, ih, Bool.not_or]; rfl

@[simp] theorem stopIn_nil (v : T → Verdict) : stopIn v [] = false := by simp [stopIn, scanL_nil]

theorem pre_of_not_stopIn {v : T → Verdict} {ks : List T} (h : stopIn v ks = false) :
    pre v ks false = scanL v ks := by
  unfold pre
  rw [if_neg (by simp)]
  refine takeWhile_eq_self_of_all ?_
  rw [all_ne_stop_eq]; unfold stopIn at h; rw [h]; rfl

/-- one step of the scan at a node the scan descends into. -/
theorem pre_cons_descend {v : T → Verdict} {n : T} {ns : List T} (h : (v n).descends = true) :
    pre v (n :: ns) false = n :: (pre v n.kids false ++ pre v ns (stopIn v n.kids)) := by
  have hs : (v n != .stop) = true := by cases hv : v n <;> simp_all [Verdict.descends]
  unfold pre
  rw [if_neg (by simp), scanL_cons, scanT_eq, if_pos h, List.cons_append, List.takeWhile_cons, if_pos hs,
    takeWhile_append_ite, all_ne_stop_eq]
  unfold stopIn
  cases (scanL v n.kids).any fun n => v n == .stop <;> simp

theorem stopIn_cons_descend {v : T → Verdict} {n : T} {ns : List T} (h : (v n).descends = true) :
    stopIn v (n :: ns) = (stopIn v n.kids || stopIn v ns) := by
  have hs : (v n == .stop) = false := by cases hv : v n <;> simp_all [Verdict.descends]
  unfold stopIn
  rw [scanL_cons, scanT_eq, if_pos h, List.any_append, List.any_cons, hs, Bool.false_or]

/-- one step of the scan at a node below which the predicate is not consulted. -/
theorem pre_cons_leafy {v : T → Verdict} {n : T} {ns : List T} (h : (v n).descends = false)
    (hs : v n ≠ .stop) : pre v (n :: ns) false = n :: pre v ns false := by
  have hs' : (v n != .stop) = true := by simpa using hs
  unfold pre
  rw [if_neg (by simp), scanL_cons, scanT_eq, if_neg (by simp [h]), List.cons_append, List.nil_append,
    List.takeWhile_cons, if_pos hs']
  simp

theorem stopIn_cons_leafy {v : T → Verdict} {n : T} {ns : List T} (h : (v n).descends = false)
    (hs : v n ≠ .stop) : stopIn v (n :: ns) = stopIn v ns := by
  have hs' : (v n == .stop) = false := by simpa using hs
  unfold stopIn
  rw [scanL_cons, scanT_eq, if_neg (by simp [h]), List.any_append, List.any_cons, hs']
  simp

theorem pre_cons_stop {v : T → Verdict} {n : T} {ns : List T} (hs : v n = .stop) :
    pre v (n :: ns) false = [] := by
  unfold pre
  rw [if_neg (by simp), scanL_cons, scanT_eq, List.cons_append, List.takeWhile_cons, if_neg (by simp [hs])]

theorem stopIn_cons_stop {v : T → Verdict} {n : T} {ns : List T} (hs : v n = .stop) :
    stopIn v (n :: ns) = true := by
  unfold stopIn
  rw [scanL_cons, scanT_eq, List.cons_append, List.any_cons]
  simp [hs]

/-! ### `Agree` -/

/-- `w` is `v` made effective on the forest `ks` entered with stop flag `s`: `w` answers like `v`
on the nodes scanned before the stop and `reject` on all other nodes of the forest. -/
structure Agree (v w : T → Verdict) (ks : List T) (s : Bool) : Prop where
  onPre : ∀ m ∈ pre v ks s, w m = v m
  offPre : ∀ m ∈ flatL ks, m ∉ pre v ks s → w m = .reject

theorem Agree.stopped {v w : T → Verdict} {ks : List T} (h : Agree v w ks true) :
    ∀ m ∈ flatL ks, w m = .reject := fun m hm => h.offPre m hm (by simp)

theorem agree_of_all_reject {v w : T → Verdict} {ks : List T} (h : ∀ m ∈ flatL ks, w m = .reject) :
    Agree v w ks true := ⟨fun m hm => by simp at hm, fun m hm _ => h m hm⟩

/-- the answers of an effective `w` on scanned nodes are never `stop`. -/
theorem Agree.ne_stop {v w : T → Verdict} {ks : List T} {s : Bool} (h : Agree v w ks s) :
    ∀ m ∈ flatL ks, w m ≠ .stop := by
  intro m hm
  by_cases hp : m ∈ pre v ks s
  · rw [h.onPre m hp]
    unfold pre at hp
    split at hp
    · simp at hp
    · have := (of_mem_takeWhile hp).1
      simpa using this
  · rw [h.offPre m hm hp]; simp

theorem Agree.descend {v w : T → Verdict} {n : T} {ns : List T} (hN : IdsNodupL (n :: ns))
    (hd : (v n).descends = true) (h : Agree v w (n :: ns) false) :
    w n = v n ∧ Agree v w n.kids false ∧ Agree v w ns (stopIn v n.kids) := by
  have hp := pre_cons_descend (ns := ns) hd
  refine ⟨h.onPre n (by rw [hp]; exact List.mem_cons_self), ⟨?_, ?_⟩, ⟨?_, ?_⟩⟩
  · intro m hm
    exact h.onPre m (by rw [hp]; exact List.mem_cons_of_mem _ (List.mem_append_left _ hm))
  · intro m hm hnp
    refine h.offPre m (by rw [flatL_cons]; exact List.mem_append_left _ (mem_flat_of_mem_flatL_kids hm)) ?_
    rw [hp, List.mem_cons, List.mem_append]
    rintro (e | e | e)
    · exact ne_of_mem_flatL_kids hm e
    · exact hnp e
    · exact not_mem_flatL_of_mem_flat hN (mem_flat_of_mem_flatL_kids hm) (mem_pre_flatL e)
  · intro m hm
    exact h.onPre m (by rw [hp]; exact List.mem_cons_of_mem _ (List.mem_append_right _ hm))
  · intro m hm hnp
    refine h.offPre m (by rw [flatL_cons]; exact List.mem_append_right _ hm) ?_
    rw [hp, List.mem_cons, List.mem_append]
    rintro (e | e | e)
    · subst e; exact not_mem_flatL_of_mem_flat hN (self_mem_flat _) hm
    · exact not_mem_flatL_of_mem_flat hN (mem_flat_of_mem_flatL_kids (mem_pre_flatL e)) hm
    · exact hnp e

theorem Agree.leafy {v w : T → Verdict} {n : T} {ns : List T} (hN : IdsNodupL (n :: ns))
    (hd : (v n).descends = false) (hs : v n ≠ .stop) (h : Agree v w (n :: ns) false) :
    w n = v n ∧ (∀ m ∈ flatL n.kids, w m = .reject) ∧ Agree v w ns false := by
  have hp := pre_cons_leafy (ns := ns) hd hs
  refine ⟨h.onPre n (by rw [hp]; exact List.mem_cons_self), ?_, ⟨?_, ?_⟩⟩
  · intro m hm
    refine h.offPre m (by rw [flatL_cons]; exact List.mem_append_left _ (mem_flat_of_mem_flatL_kids hm)) ?_
    rw [hp, List.mem_cons]
    rintro (e | e)
    · exact ne_of_mem_flatL_kids hm e
    · exact not_mem_flatL_of_mem_flat hN (mem_flat_of_mem_flatL_kids hm) (mem_pre_flatL e)
  · intro m hm
    exact h.onPre m (by rw [hp]; exact List.mem_cons_of_mem _ hm)
  · intro m hm hnp
    refine h.offPre m (by rw [flatL_cons]; exact List.mem_append_right _ hm) ?_
    rw [hp, List.mem_cons]
    rintro (e | e)
    · subst e; exact not_mem_flatL_of_mem_flat hN (self_mem_flat _) hm
    · exact hnp e

theorem Agree.stop {v w : T → Verdict} {n : T} {ns : List T} (hs : v n = .stop)
    (h : Agree v w (n :: ns) false) : ∀ m ∈ flatL (n :: ns), w m = .reject := by
  intro m hm
  exact h.offPre m hm (by rw [pre_cons_stop hs]; simp)

theorem Agree.cons_stopped {v w : T → Verdict} {n : T} {ns : List T} (h : Agree v w (n :: ns) true) :
    w n = .reject ∧ (∀ m ∈ flatL n.kids, w m = .reject) ∧ Agree v w ns true := by
  have := h.stopped
  refine ⟨this n ?_, fun m hm => this m ?_, agree_of_all_reject fun m hm => this m ?_⟩
  · rw [flatL_cons]; exact List.mem_append_left _ (self_mem_flat _)
  · rw [flatL_cons]; exact List.mem_append_left _ (mem_flat_of_mem_flatL_kids hm)
  · rw [flatL_cons]; exact List.mem_append_right _ hm

/-- the specification's effective verdicts agree with `v` on the forest they are computed for. -/
theorem agree_effective (v : T → Verdict) {ks : List T} (hN : IdsNodupL ks) :
    Agree v (effective v ks) ks false := by
  have key : ∀ m ∈ flatL ks, ((scanned v ks).any fun x => x.id == m.id) = true ↔ m ∈ pre v ks false := by
    intro m hm
    rw [scanned_eq_pre, List.any_eq_true]
    constructor
    · rintro ⟨x, hx, hxm⟩
      have hxf := mem_pre_flatL hx
      have : x = m := eq_of_id_eqL hN hxf hm (by simpa using hxm)
      exact this ▸ hx
    · intro h; exact ⟨m, h, by simp⟩
  refine ⟨fun m hm => ?_, fun m hm hnp => ?_⟩
  · unfold effective; rw [if_pos ((key m (mem_pre_flatL hm)).2 hm)]
  · unfold effective; rw [if_neg (fun h => hnp ((key m hm).1 h))]

end Flt
end Nutree
