/-
  Nutree.Lemmas.GraphRdf — helper lemmas for C17, part 3: the RDF export.  The `graph.add`
  calls of `_add_child_nodes` are one `_add_child_node` per item of the annotated traversal;
  a graph is a set (`graphAdd`).
-/
import Nutree.Lemmas.Graph
namespace Nutree
namespace Graph
open T C10 Spec

/-! ### the graph as a set -/

theorem mem_graphAdd {g : List Triple} {t x : Triple} : x ∈ graphAdd g t ↔ x ∈ g ∨ x = t := by
  unfold graphAdd
  by_cases h : g.contains t = true
  · have hm : t ∈ g := by simpa using h
    simp only [h, if_true]
    constructor
    · exact Or.inl
    · rintro (h | rfl)
      · exact h
      · exact hm
  · have hm : t ∉ g := by simpa using h
    simp [hm]

theorem mem_graphAddAll {ts g : List Triple} {x : Triple} : x ∈ graphAddAll g ts ↔ x ∈ g ∨ x ∈ ts := by
  unfold graphAddAll
  induction ts generalizing g with
  | nil => simp
  | cons t ts ih =>
    rw [List.foldl_cons, ih, mem_graphAdd, List.mem_cons, or_assoc]

theorem graphAdd_nodup {g : List Triple} (t : Triple) (h : g.Nodup) : (graphAdd g t).Nodup := by
  unfold graphAdd
  by_cases hc : g.contains t = true
  · have hm : t ∈ g := by simpa using hc
    simp [hm, h]
  · have hm : t ∉ g := by simpa using hc
    simp only [hc, Bool.false_eq_true, if_false]
    rw [List.nodup_append]
    refine ⟨h, by simp, ?_⟩
    intro a ha b hb
    rw [List.mem_singleton] at hb
    subst hb
    exact fun e => hm (e ▸ ha)

/-- the result is a set: no statement twice. -/
theorem graphAddAll_nodup (ts : List Triple) {g : List Triple} (h : g.Nodup) : (graphAddAll g ts).Nodup := by
  unfold graphAddAll
  induction ts generalizing g with
  | nil => simpa
  | cons t ts ih => rw [List.foldl_cons]; exact ih (graphAdd_nodup t h)

theorem mem_rdfTriples {treeName : String} {isTree addSelf : Bool} {t : T} {x : Triple} :
    x ∈ rdfTriples treeName isTree addSelf t
      ↔ x ∈ (if isTree then rdfTreeCalls treeName t else rdfNodeCalls addSelf t) := by
  unfold rdfTriples
  rw [mem_graphAddAll]; simp

/-! ### the calls, per item of the traversal -/

theorem flatMap_congr' {α β} {f g : α → List β} {l : List α} (h : ∀ x ∈ l, f x = g x) :
    l.flatMap f = l.flatMap g := by
  induction l with
  | nil => rfl
  | cons a l ih =>
    rw [List.flatMap_cons, List.flatMap_cons, h a (by simp), ih (fun x hx => h x (by simp [hx]))]

/-- the subject of an item's parent: `par` for the children of the start node. -/
def itemSubj (par : Option Subj) (x : Item) : Option Subj :=
  if x.top then par else some (.lit x.parent.did)

def itemAdds (par : Option Subj) (x : Item) : List Triple :=
  rdfNodeAdds (itemSubj par x) x.node (some x.index)

theorem rdfChildAdds_eq (par : Option Subj) (k : Nat) (c : T) :
    rdfChildAdds par k c = rdfNodeAdds par c (some k) ++ rdfChildrenAdds (some (.lit c.did)) 0 c.kids := by
  cases c; simp only [rdfChildAdds, kids_node]; rfl

theorem rdfChildrenAdds_eq (par : Option Subj) (p : T) (k : Nat) (ks : List T) :
    rdfChildrenAdds par k ks = (annL true p k ks).flatMap (itemAdds par) := by
  induction ks using forest_ind generalizing par p k with
  | nil => simp [rdfChildrenAdds]
  | cons c cs ihc ihcs =>
    rw [annL_cons]
    simp only [rdfChildrenAdds, rdfChildAdds_eq, List.flatMap_cons, List.flatMap_append, List.cons_append]
    rw [ihcs par p (k + 1), ihc (some (.lit c.did)) c 0, annL_false true, List.flatMap_map]
    have h1 : itemAdds par ⟨true, p, k, c⟩ = rdfNodeAdds par c (some k) := by simp [itemAdds, itemSubj]
    rw [h1, List.append_assoc]
    congr 2
    apply flatMap_congr'
    intro x hx
    obtain ⟨_, h⟩ := mem_annL hx
    cases hxt : x.top
    · simp [itemAdds, itemSubj, hxt]
    · rcases h with ⟨_, h2⟩ | ⟨h1, _⟩
      · simp [itemAdds, itemSubj, hxt, h2]
      · rw [hxt] at h1; exact absurd h1 (by simp)

/-- the subject under which the children of the start node are attached. -/
def startSubj (isTree addSelf : Bool) (t : T) : Option Subj :=
  if isTree then some .sysRoot else if addSelf then some (.lit t.did) else none

/-- all `graph.add` calls: the head part (start node resp. system root), then one
`_add_child_node` per descendant. -/
theorem calls_eq (treeName : String) (isTree addSelf : Bool) (t : T) :
    (if isTree then rdfTreeCalls treeName t else rdfNodeCalls addSelf t)
      = (if isTree then [Triple.name .sysRoot treeName] else if addSelf then rdfNodeAdds none t none else [])
        ++ (ann t).flatMap (itemAdds (startSubj isTree addSelf t)) := by
  cases isTree <;> cases addSelf <;>
    simp [rdfTreeCalls, rdfNodeCalls, startSubj, ann, rdfChildrenAdds_eq _ t 0 t.kids]

/-! ### the specification's RDF lists, through the traversal -/

theorem rdfEdgesSpec_eq (isTree addSelf : Bool) (t : T) :
    rdfEdgesSpec isTree addSelf t = (ann t).filterMap (fun x =>
      if isTree || addSelf || !x.top then
        some (if isTree && x.top then Subj.sysRoot else Subj.lit x.parent.did, x.node.did)
      else none) := by
  unfold rdfEdgesSpec
  rw [filterMap_relPaths t _ (fun v => if isTree || addSelf || !v.1 then
      (match v.2.1, v.2.2.2 with
        | some p, some n => some (if isTree && v.1 then Subj.sysRoot else Subj.lit p.did, n.did)
        | _, _ => none) else none)]
  · apply filterMap_congr'
    intro x _
    cases isTree <;> cases addSelf <;> cases h : x.top <;> simp [itemView, h]
  · intro q hq
    cases isTree <;> cases addSelf <;> cases h : (q.length == 1) <;>
      simp only [pathView, length_gt_one hq, h] <;> rfl

theorem rdfIndexSpec_eq (t : T) : rdfIndexSpec t = (ann t).map (fun x => (x.node.did, x.index)) := by
  unfold rdfIndexSpec
  rw [filterMap_relPaths t _ (fun v => match v.2.2.2, v.2.2.1 with
      | some n, some i => some (n.did, i) | _, _ => none)]
  · rw [← List.filterMap_eq_map]
    apply filterMap_congr'
    intro x _
    simp [itemView]
  · intro q _
    rfl

theorem mem_branch_iff {t n : T} : n ∈ flatL t.kids ↔ ∃ x ∈ ann t, x.node = n := by
  rw [← annL_nodes true t 0 t.kids, List.mem_map]; rfl

theorem mem_rdfNodeAdds_hasChild {par : Option Subj} {n : T} {idx : Option Nat} {s : Subj} {d : DataId} :
    Triple.hasChild s d ∈ rdfNodeAdds par n idx ↔ par = some s ∧ n.did = d := by
  unfold rdfNodeAdds
  cases par with
  | none => cases n.kind <;> cases idx <;> simp
  | some p =>
    cases n.kind <;> cases idx <;> simp <;>
      exact ⟨fun ⟨h1, h2⟩ => ⟨h1.symm, h2.symm⟩, fun ⟨h1, h2⟩ => ⟨h1.symm, h2.symm⟩⟩

theorem mem_rdfNodeAdds_name {par : Option Subj} {n : T} {idx : Option Nat} {s : Subj} {v : String} :
    Triple.name s v ∈ rdfNodeAdds par n idx ↔ s = .lit n.did ∧ v = n.name := by
  unfold rdfNodeAdds
  cases par <;> cases n.kind <;> cases idx <;> simp

theorem mem_rdfNodeAdds_kind {par : Option Subj} {n : T} {idx : Option Nat} {d : DataId} {k : String} :
    Triple.kind d k ∈ rdfNodeAdds par n idx ↔ n.did = d ∧ n.kind = some k := by
  unfold rdfNodeAdds
  cases par <;> cases n.kind <;> cases idx <;> simp <;>
    exact ⟨fun ⟨a, b⟩ => ⟨a.symm, b.symm⟩, fun ⟨a, b⟩ => ⟨a.symm, b.symm⟩⟩

theorem mem_rdfNodeAdds_index {par : Option Subj} {n : T} {idx : Option Nat} {d : DataId} {i : Nat} :
    Triple.index d i ∈ rdfNodeAdds par n idx ↔ n.did = d ∧ idx = some i := by
  unfold rdfNodeAdds
  cases par <;> cases n.kind <;> cases idx <;> simp <;>
    exact ⟨fun ⟨a, b⟩ => ⟨a.symm, b.symm⟩, fun ⟨a, b⟩ => ⟨a.symm, b.symm⟩⟩

theorem mem_exported_iff {b : Bool} {t n : T} :
    n ∈ exported b t ↔ (b = true ∧ n = t) ∨ ∃ x ∈ ann t, x.node = n := by
  rw [← mem_branch_iff]
  cases b <;> simp [exported, branch]

end Graph
end Nutree
