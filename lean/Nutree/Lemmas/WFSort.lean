/-
  Nutree.Lemmas.WFSort — `sortT` / `Tree.sort` only rearrange child lists.

  * `Rearr t t'` — `t'` carries the same record as `t`, the records of the two branches are
    permutations of each other, and every node of `t'` has a counterpart in `t` with the same
    record and a permutation of its child records.
  * `sortT_rearr` — the result of `sortT` (any fuel, any flags, raising keys included) is a
    rearrangement of its argument.
  * `sort_eq`, `sort_of_none`, `sort_root`, `WF_sort`.
-/
import Nutree.Lemmas.WFSetData
namespace Nutree
open T C10

/-- pointwise relation of two lists. -/
inductive All₂ {α β : Type} (R : α → β → Prop) : List α → List β → Prop
  | nil : All₂ R [] []
  | cons {a b as bs} : R a b → All₂ R as bs → All₂ R (a :: as) (b :: bs)

theorem All₂.imp {α β : Type} {R S : α → β → Prop} (h : ∀ a b, R a b → S a b) :
    ∀ {l l'}, All₂ R l l' → All₂ S l l'
  | _, _, .nil => .nil
  | _, _, .cons h1 h2 => .cons (h _ _ h1) (All₂.imp h h2)

theorem All₂.refl {α : Type} {R : α → α → Prop} (h : ∀ a, R a a) : ∀ l, All₂ R l l
  | [] => .nil
  | a :: l => .cons (h a) (All₂.refl h l)

/-- `t'` is a rearrangement of `t`. -/
def Rearr (t t' : T) : Prop :=
  t'.info = t.info ∧ (infos t').Perm (infos t) ∧
    ∀ y' ∈ flat t', ∃ y ∈ flat t, y'.info = y.info ∧ (y'.kids.map T.info).Perm (y.kids.map T.info)

theorem Rearr.refl (t : T) : Rearr t t :=
  ⟨rfl, List.Perm.refl _, fun y hy => ⟨y, hy, rfl, List.Perm.refl _⟩⟩

theorem All₂.infosL_perm : ∀ {l l' : List T}, All₂ Rearr l l' → (infosL l').Perm (infosL l)
  | _, _, .nil => List.Perm.refl _
  | _, _, .cons h1 h2 => by
    rw [infosL_cons, infosL_cons]; exact h1.2.1.append (All₂.infosL_perm h2)

theorem All₂.map_info : ∀ {l l' : List T}, All₂ Rearr l l' → l'.map T.info = l.map T.info
  | _, _, .nil => rfl
  | _, _, .cons h1 h2 => by rw [List.map_cons, List.map_cons, h1.1, All₂.map_info h2]

theorem All₂.mem_flatL : ∀ {l l' : List T}, All₂ Rearr l l' → ∀ y' ∈ flatL l',
    ∃ y ∈ flatL l, y'.info = y.info ∧ (y'.kids.map T.info).Perm (y.kids.map T.info)
  | _, _, .nil => fun y' hy' => by simp at hy'
  | _, _, .cons h1 h2 => fun y' hy' => by
    rw [flatL_cons, List.mem_append] at hy'
    rcases hy' with hy' | hy'
    · obtain ⟨y, hy, hh⟩ := h1.2.2 y' hy'
      exact ⟨y, by rw [flatL_cons]; exact List.mem_append_left _ hy, hh⟩
    · obtain ⟨y, hy, hh⟩ := All₂.mem_flatL h2 y' hy'
      exact ⟨y, by rw [flatL_cons]; exact List.mem_append_right _ hy, hh⟩

/-- permute the children, then rearrange each of them. -/
theorem Rearr.node {i : Info} {ks sorted ks' : List T} (hp : sorted.Perm ks) (hf : All₂ Rearr sorted ks') :
    Rearr (.node i ks) (.node i ks') := by
  refine ⟨rfl, ?_, ?_⟩
  · rw [infos_node, infos_node]
    exact List.Perm.cons _ (hf.infosL_perm.trans ((flatL_perm hp).map T.info))
  · intro y' hy'
    rw [flat_node, List.mem_cons] at hy'
    rcases hy' with rfl | hy'
    · refine ⟨_, self_mem_flat _, rfl, ?_⟩
      rw [T.kids_node, T.kids_node, hf.map_info]
      exact hp.map T.info
    · obtain ⟨y, hy, hh⟩ := hf.mem_flatL y' hy'
      exact ⟨y, by rw [flat_node]; exact List.mem_cons_of_mem _ ((flatL_perm hp).mem_iff.1 hy), hh⟩

/-- sibling uniqueness survives a rearrangement. -/
theorem Rearr.sib {t t' : T} (h : Rearr t t') (hs : ∀ y ∈ flat t, (y.kids.map T.did).Nodup) :
    ∀ y' ∈ flat t', (y'.kids.map T.did).Nodup := by
  intro y' hy'
  obtain ⟨y, hy, _, hp⟩ := h.2.2 y' hy'
  have := hp.map Info.did
  rw [List.map_map, List.map_map] at this
  exact this.nodup_iff.2 (hs y hy)

theorem Rearr.infosL_kids_perm {t t' : T} (h : Rearr t t') : (infosL t'.kids).Perm (infosL t.kids) := by
  have := h.2.1
  rw [infos_eq, infos_eq t, h.1] at this
  exact this.cons_inv

theorem Rearr.ids_perm {t t' : T} (h : Rearr t t') : ((flat t').map T.id).Perm ((flat t).map T.id) := by
  rw [ids_eq_infos, ids_eq_infos]; exact h.2.1.map _

/-! ### `sortT` -/

/-- the loop of the deep sort: each child is kept or replaced by its sorted version. -/
theorem sortT_fold (key : KeyFn) (rev deep : Bool) (f : Nat) : ∀ (cs : List T) (acc : List T × Bool),
    ∃ l', (cs.foldl (fun (acc : List T × Bool) c =>
            if acc.2 then (acc.1 ++ [(sortT key rev deep f c).1], (sortT key rev deep f c).2)
            else (acc.1 ++ [c], false)) acc).1 = acc.1 ++ l' ∧
      All₂ (fun c c' => c' = c ∨ c' = (sortT key rev deep f c).1) cs l'
  | [], acc => ⟨[], by simp, .nil⟩
  | c :: cs, acc => by
    rw [List.foldl_cons]
    by_cases ha : acc.2 = true
    · rw [if_pos ha]
      obtain ⟨l', h1, h2⟩ := sortT_fold key rev deep f cs (acc.1 ++ [(sortT key rev deep f c).1], (sortT key rev deep f c).2)
      exact ⟨(sortT key rev deep f c).1 :: l', by rw [h1]; simp, .cons (Or.inr rfl) h2⟩
    · rw [if_neg ha]
      obtain ⟨l', h1, h2⟩ := sortT_fold key rev deep f cs (acc.1 ++ [c], false)
      exact ⟨c :: l', by rw [h1]; simp, .cons (Or.inl rfl) h2⟩

theorem sortT_zero (key : KeyFn) (rev deep : Bool) (t : T) : sortT key rev deep 0 t = (t, true) := by
  cases t; rfl

/-- the comparison handed to the (stable) sort. -/
def sortLe (key : KeyFn) (rev : Bool) : T → T → Bool :=
  fun a b => if rev then decide ((key b).getD "" ≤ (key a).getD "") else decide ((key a).getD "" ≤ (key b).getD "")

/-- the loop of the deep sort. -/
def sortLoop (key : KeyFn) (rev deep : Bool) (f : Nat) (cs : List T) : List T × Bool :=
  cs.foldl (fun (acc : List T × Bool) c =>
    if acc.2 then (acc.1 ++ [(sortT key rev deep f c).1], (sortT key rev deep f c).2)
    else (acc.1 ++ [c], false)) ([], true)

theorem sortT_succ (key : KeyFn) (rev deep : Bool) (f : Nat) (i : Info) (ks : List T) :
    sortT key rev deep (f + 1) (.node i ks) =
      if ks.isEmpty || (ks.length == 1 && !deep) then (.node i ks, true)
      else if ks.any (fun k => (key k).isNone) then (.node i ks, false)
      else if deep then
        (.node i (sortLoop key rev deep f (ks.mergeSort (sortLe key rev))).1,
          (sortLoop key rev deep f (ks.mergeSort (sortLe key rev))).2)
      else (.node i (ks.mergeSort (sortLe key rev)), true) := rfl

/-- **`sortT` only rearranges.** -/
theorem sortT_rearr (key : KeyFn) (rev deep : Bool) : ∀ (f : Nat) (t : T), Rearr t (sortT key rev deep f t).1
  | 0, t => by rw [sortT_zero]; exact Rearr.refl t
  | f + 1, .node i ks => by
    rw [sortT_succ]
    split
    · exact Rearr.refl _
    · split
      · exact Rearr.refl _
      · split
        · obtain ⟨l', h1, h2⟩ := sortT_fold key rev deep f (ks.mergeSort (sortLe key rev)) ([], true)
          simp only [List.nil_append] at h1
          show Rearr _ (T.node i (sortLoop key rev deep f (ks.mergeSort (sortLe key rev))).1)
          unfold sortLoop
          rw [h1]
          refine Rearr.node (List.mergeSort_perm _ _) (h2.imp ?_)
          rintro c c' (rfl | rfl)
          · exact Rearr.refl _
          · exact sortT_rearr key rev deep f c
        · exact Rearr.node (List.mergeSort_perm _ _) (All₂.refl Rearr.refl _)

/-! ### `Tree.sort` -/

theorem sort_eq {t : Tree} {n : NodeId} {x : T} (key : KeyFn) (rev deep : Bool) (hx : findT n t.root = some x) :
    t.sort n key rev deep =
      ({ t with root := replaceT n (sortT key rev deep (x.height + 1) x).1 t.root },
        if (sortT key rev deep (x.height + 1) x).2 then none else some .callback) := by
  unfold Tree.sort; rw [hx]

theorem sort_of_none {t : Tree} {n : NodeId} (key : KeyFn) (rev deep : Bool) (hx : findT n t.root = none) :
    t.sort n key rev deep = (t, some .other) := by
  unfold Tree.sort; rw [hx]

/-- replacing node `n` by a rearrangement of it is an edit of its child list. -/
theorem replaceT_rearr {root x r : T} {n : NodeId} (hN : C10.IdsNodup root) (hx : findT n root = some x)
    (hr : Rearr x r) : replaceT n r root = modT n (fun _ => r.kids) root := by
  have : replaceT n r root = replaceT n (.node x.info r.kids) root := by rw [← hr.1, T.eta]
  rw [this, replaceT_eq_modT_of hN hx]

/-- the root after `sort` in a tree with distinct identities. -/
theorem sort_root {t : Tree} {n : NodeId} {x : T} (key : KeyFn) (rev deep : Bool) (hN : C10.IdsNodup t.root)
    (hx : findT n t.root = some x) :
    (t.sort n key rev deep).1.root = modT n (fun _ => (sortT key rev deep (x.height + 1) x).1.kids) t.root := by
  rw [sort_eq key rev deep hx]
  exact replaceT_rearr hN hx (sortT_rearr key rev deep _ x)

/-- **Replacing the child list of a node by a rearrangement keeps the state well-formed.** -/
theorem WF_rearr {t t' : Tree} {n : NodeId} {x r : T} (h : WF t) (hx : findT n t.root = some x)
    (hr : Rearr x r) (hroot : t'.root = modT n (fun _ => r.kids) t.root) (hi : t'.byId = t.byId)
    (hd : t'.byData = t.byData) : WF t' := by
  have hN := h.idsN
  have hxs : ∀ y ∈ flat x, (y.kids.map T.did).Nodup :=
    fun y hy => h.sib y (mem_flat_trans hy (findT_some_mem hx))
  have hrs := hr.sib hxs
  refine WF.of_infos_perm h (by rw [hroot, modT_id]) hi hd ?_ ?_
  · rw [hroot]
    have := modT_kids_infos_perm_of (g := fun _ => r.kids) hN hx (X := []) (Y := [])
      (by simpa using hr.infosL_kids_perm)
    simpa using this
  · intro y hy
    rw [hroot] at hy
    exact sibUnique_modT hN hx h.sib (hrs r (self_mem_flat r))
      (fun z hz => hrs z (mem_flat_of_mem_flatL_kids hz)) y hy

/-- no identity is created by `replaceT`. -/
theorem mem_ids_replaceT {n : NodeId} {new : T} {a : NodeId} :
    ∀ {root : T}, a ∈ (flat (replaceT n new root)).map T.id → a ∈ (flat root).map T.id ∨ a ∈ (flat new).map T.id := by
  intro root
  induction root using T.ind with
  | node i ks ih =>
    intro ha
    rw [replaceT_node] at ha
    split at ha
    · exact Or.inr ha
    · rw [ids_eq, List.mem_cons] at ha
      rcases ha with rfl | ha
      · exact Or.inl (by rw [ids_eq]; exact List.mem_cons_self)
      · obtain ⟨y, hy, hya⟩ := mem_idsL.1 ha
        obtain ⟨c', hc', hyc⟩ := mem_flatL.1 hy
        rw [T.kids_node] at hc'
        obtain ⟨c, hc, rfl⟩ := List.mem_map.1 hc'
        rcases ih c hc (mem_ids.2 ⟨y, hyc, hya⟩) with h1 | h1
        · obtain ⟨z, hz, hza⟩ := mem_ids.1 h1
          exact Or.inl (mem_ids.2 ⟨z, mem_flat_trans hz (mem_flat_of_mem_kids (x := .node i ks) hc), hza⟩)
        · exact Or.inr h1

/-- `sort` creates no identities (no well-formedness needed). -/
theorem ids_sort_subset {t : Tree} {n : NodeId} {key : KeyFn} {rev deep : Bool} {a : NodeId}
    (ha : a ∈ (flat (t.sort n key rev deep).1.root).map T.id) : a ∈ (flat t.root).map T.id := by
  cases hx : findT n t.root with
  | none => rwa [sort_of_none key rev deep hx] at ha
  | some x =>
    rw [sort_eq key rev deep hx] at ha
    rcases mem_ids_replaceT ha with h1 | h1
    · exact h1
    · have := (sortT_rearr key rev deep (x.height + 1) x).ids_perm.mem_iff.1 h1
      obtain ⟨z, hz, hza⟩ := mem_ids.1 this
      exact mem_ids.2 ⟨z, mem_flat_trans hz (findT_some_mem hx), hza⟩

/-! ### the two simple runs of `sortT` -/

theorem sortLe_trans (key : KeyFn) (rev : Bool) (a b c : T) :
    sortLe key rev a b = true → sortLe key rev b c = true → sortLe key rev a c = true := by
  unfold sortLe
  cases rev
  · simp only [Bool.false_eq_true, if_false, decide_eq_true_eq]
    exact fun h1 h2 => String.le_trans h1 h2
  · simp only [if_true, decide_eq_true_eq]
    exact fun h1 h2 => String.le_trans h2 h1

theorem sortLe_total (key : KeyFn) (rev : Bool) (a b : T) : (sortLe key rev a b || sortLe key rev b a) = true := by
  unfold sortLe
  cases rev
  · simp only [Bool.false_eq_true, if_false, Bool.or_eq_true, decide_eq_true_eq]
    exact String.le_total _ _
  · simp only [if_true, Bool.or_eq_true, decide_eq_true_eq]
    exact String.le_total _ _

theorem not_first_exit {ks : List T} (deep : Bool) (h2 : 2 ≤ ks.length) :
    ¬ (ks.isEmpty || (ks.length == 1 && !deep)) = true := by
  match ks, h2 with
  | _ :: _ :: _, _ => simp

/-- shallow sort of a node with at least two children whose keys all exist. -/
theorem sortT_shallow {key : KeyFn} {rev : Bool} {x : T} (f : Nat) (hk : ∀ c ∈ x.kids, (key c).isSome)
    (h2 : 2 ≤ x.kids.length) :
    sortT key rev false (f + 1) x = (.node x.info (x.kids.mergeSort (sortLe key rev)), true) := by
  cases x with
  | node i ks =>
    simp only [T.kids_node] at hk h2
    have hany : ¬ (ks.any fun k => (key k).isNone) = true := by
      intro h
      obtain ⟨k, hk1, hk2⟩ := List.any_eq_true.1 h
      have := hk k hk1
      cases hkk : key k <;> simp [hkk] at this hk2
    rw [sortT_succ, if_neg (not_first_exit false h2), if_neg hany]
    rfl

/-- a raising key on a node with at least two children: nothing is changed. -/
theorem sortT_fails {key : KeyFn} {rev deep : Bool} {x : T} (f : Nat) (hk : ∃ c ∈ x.kids, key c = none)
    (h2 : 2 ≤ x.kids.length) : sortT key rev deep (f + 1) x = (x, false) := by
  cases x with
  | node i ks =>
    simp only [T.kids_node] at hk h2
    have hany : (ks.any fun k => (key k).isNone) = true := by
      obtain ⟨c, hc, hkc⟩ := hk
      exact List.any_eq_true.2 ⟨c, hc, by rw [hkc]; rfl⟩
    rw [sortT_succ, if_neg (not_first_exit deep h2), if_pos hany]

/-- replacing a node by itself changes nothing. -/
theorem replaceT_self {n : NodeId} {x : T} :
    ∀ {root : T}, (∀ y ∈ flat root, y.id = n → y = x) → replaceT n x root = root := by
  intro root
  induction root using T.ind with
  | node i ks ih =>
    intro h
    rw [replaceT_node]
    split
    · rename_i hid
      exact (h _ (self_mem_flat _) hid).symm
    · congr 1
      refine (List.map_congr_left (fun c hc => ih c hc ?_)).trans (List.map_id' ks)
      exact fun y hy => h y (mem_flat_trans hy (mem_flat_of_mem_kids (x := .node i ks) hc))

end Nutree
