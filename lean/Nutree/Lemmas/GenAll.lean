/-
  Nutree.Lemmas.GenAll — consequences of `Conf` (Spec/Gen.lean): what holds locally for the
  children of one parent, and the transfer to every parent of the forest (`ForestAll`).
-/
import Nutree.Lemmas.Gen
namespace Nutree
namespace Gen

/-! ### `GNode.AllL` -/

theorem allL_append {P : String → List GNode → Prop} :
    ∀ {xs ys : List GNode}, GNode.AllL P xs → GNode.AllL P ys → GNode.AllL P (xs ++ ys)
  | [], _, _, hy => hy
  | _ :: xs, _, hx, hy => by
    simp only [List.cons_append, GNode.AllL] at hx ⊢
    exact ⟨hx.1, allL_append hx.2 hy⟩

/-- If `P` follows from the local conformance of a child list (and holds for childless leaf
types), it holds for every parent below a conforming child list. -/
theorem conf_allL {d : Def} {typed : Bool} {P : String → List GNode → Prop}
    (hP : ∀ pt path ks, Conf d typed (.kids pt path) ks → P pt ks)
    (hleaf : ∀ ty, hasRel d ty = false → P ty []) :
    ∀ {g : Goal} {ks : List GNode}, Conf d typed g ks → GNode.AllL P ks
  | _, _, .kids _ hr => conf_allL hP hleaf hr
  | _, _, .relsNil => trivial
  | _, _, .relsCons _ hg hr => allL_append (conf_allL hP hleaf hg) (conf_allL hP hleaf hr)
  | _, _, .groupNil => trivial
  | _, _, @Conf.groupCons _ _ ntype _ _ _ _ _ kids _ _ hk hl hr => by
    simp only [GNode.AllL, GNode.All]
    refine ⟨?_, conf_allL hP hleaf hr⟩
    cases hb : hasRel d ntype with
    | true => exact ⟨hP _ _ _ (hk hb), conf_allL hP hleaf (hk hb)⟩
    | false =>
      have : kids = [] := hl hb
      subst this
      exact ⟨hleaf _ hb, trivial⟩

theorem conf_forestAll {d : Def} {typed : Bool} {P : String → List GNode → Prop}
    (hP : ∀ pt path ks, Conf d typed (.kids pt path) ks → P pt ks)
    (hleaf : ∀ ty, hasRel d ty = false → P ty [])
    {forest : List GNode} (h : Conforms d typed forest) : ForestAll P forest :=
  ⟨hP _ _ _ h, conf_allL hP hleaf h⟩

/-! ### one relation group -/

/-- What is known about one member of a relation group. -/
def MemberOK (typed : Bool) (ntype : String) (body : Spec) (k : GNode) : Prop :=
  k.type = ntype ∧ k.kind = kindOf typed ntype ∧ ∃ idx hier, AttrsOK idx hier body k.attrs

theorem group_facts {d : Def} {typed : Bool} {ntype : String} {body : Spec} {path : List Nat} :
    ∀ {i n : Nat} {g : List GNode}, Conf d typed (.group ntype body path i n) g →
      g.map GNode.type = List.replicate n ntype ∧ ∀ k ∈ g, MemberOK typed ntype body k
  | _, _, _, .groupNil => by simp
  | _, _, _, .groupCons ha _ _ hr => by
    have ih := group_facts hr
    refine ⟨?_, ?_⟩
    · simp [List.replicate_succ, GNode.type, ih.1]
    · intro k hk
      rcases List.mem_cons.mp hk with rfl | hk
      · exact ⟨rfl, rfl, _, _, ha⟩
      · exact ih.2 k hk

/-- the `j`-th member of a group (0-based) has sibling index `i + j` and index path `path ++ [i + j]` -/
theorem group_idx {d : Def} {typed : Bool} {ntype : String} {body : Spec} {path : List Nat} :
    ∀ {i n : Nat} {g : List GNode}, Conf d typed (.group ntype body path i n) g →
      ∀ j k, g[j]? = some k → AttrsOK (i + j) (hierIdx (path ++ [i + j])) body k.attrs
  | _, _, _, .groupNil => by simp
  | _, _, _, .groupCons ha _ _ hr => by
    intro j k hj
    cases j with
    | zero =>
      simp at hj
      rw [← hj]
      exact ha
    | succ j =>
      simp at hj
      have := group_idx hr j k hj
      simp only [Nat.add_assoc, Nat.add_comm 1 j] at this
      exact this

/-! ### the relation list -/

theorem groupedTypes_cons (r : String × Spec) (rels : List (String × Spec)) (n : Nat) (counts : List Nat) :
    groupedTypes (r :: rels) (n :: counts) = List.replicate n r.1 ++ groupedTypes rels counts := by
  simp [groupedTypes]

theorem rels_facts {d : Def} {typed : Bool} {path : List Nat} :
    ∀ {rels : List (String × Spec)} {ks : List GNode}, Conf d typed (.rels path rels) ks →
      (∃ counts, CountsOK d rels counts ∧
        ks.map GNode.type = groupedTypes rels counts) ∧
      ∀ k ∈ ks, ∃ spec, (k.type, spec) ∈ rels ∧
        MemberOK typed k.type (attrSpec (mergeSpecs k.type spec d.types)) k
  | _, _, .relsNil => by
    refine ⟨⟨[], .nil, ?_⟩, ?_⟩
    · simp [groupedTypes]
    · simp
  | _, _, @Conf.relsCons _ _ _ ntype spec rels n g rest hc hg hr => by
    obtain ⟨⟨counts, hf, ht⟩, hm⟩ := rels_facts hr
    have hgf := group_facts hg
    refine ⟨⟨n :: counts, .cons hc hf, ?_⟩, ?_⟩
    · rw [groupedTypes_cons, List.map_append, hgf.1, ht]
    · intro k hk
      rcases List.mem_append.mp hk with hk | hk
      · have hmk := hgf.2 k hk
        have hty : k.type = ntype := hmk.1
        refine ⟨spec, ?_, ?_⟩
        · rw [hty]; exact List.mem_cons_self
        · rw [hty]; exact hmk
      · obtain ⟨sp, hsp, hmk⟩ := hm k hk
        exact ⟨sp, List.mem_cons_of_mem _ hsp, hmk⟩

theorem kids_facts {d : Def} {typed : Bool} {pt : String} {path : List Nat} {ks : List GNode}
    (h : Conf d typed (.kids pt path) ks) :
    ∃ rels, lookup pt d.relations = some rels ∧ Conf d typed (.rels path rels) ks :=
  match h with
  | .kids hl hr => ⟨_, hl, hr⟩

theorem countsOK_length {d : Def} : ∀ {rels : List (String × Spec)} {counts : List Nat},
    CountsOK d rels counts → counts.length = rels.length
  | _, _, .nil => rfl
  | _, _, .cons _ h => by simp [countsOK_length h]

theorem countsOK_get {d : Def} : ∀ {rels : List (String × Spec)} {counts : List Nat},
    CountsOK d rels counts → ∀ (j : Nat) (r : String × Spec) (n : Nat), rels[j]? = some r → counts[j]? = some n →
      CountOK (countSpec (mergeSpecs r.1 r.2 d.types)) n
  | _, _, .nil => by simp
  | _, _, .cons hc h => by
    intro j r n hr hn
    cases j with
    | zero =>
      simp at hr hn
      subst hr hn
      exact hc
    | succ j =>
      simp at hr hn
      exact countsOK_get h j r n hr hn

/-! ### counting the children of one type -/

theorem groupedTypes_mem {t : String} : ∀ {rels : List (String × Spec)} {counts : List Nat},
    t ∈ groupedTypes rels counts → t ∈ rels.map Prod.fst
  | [], _, h => by simp [groupedTypes] at h
  | _ :: _, [], h => by simp [groupedTypes] at h
  | r :: rels, n :: counts, h => by
    rw [groupedTypes_cons] at h
    rcases List.mem_append.mp h with h | h
    · have := (List.mem_replicate.mp h).2
      simp [this]
    · have := groupedTypes_mem h
      simp only [List.map_cons, List.mem_cons]
      exact Or.inr this

/-- With unique relation keys, the number of children of the type of the `j`-th relation is the
`j`-th group size. -/
theorem groupedTypes_count : ∀ {rels : List (String × Spec)} {counts : List Nat},
    (rels.map Prod.fst).Nodup → counts.length = rels.length →
    ∀ (j : Nat) (r : String × Spec) (n : Nat), rels[j]? = some r → counts[j]? = some n →
      (groupedTypes rels counts).count r.1 = n
  | [], _, _, _, _, _, _, hr, _ => by simp at hr
  | _ :: _, [], _, hl, _, _, _, _, _ => by simp at hl
  | r0 :: rels, n0 :: counts, hnd, hl, j, r, n, hr, hn => by
    rw [groupedTypes_cons, List.count_append]
    simp only [List.map_cons, List.nodup_cons] at hnd
    cases j with
    | zero =>
      simp at hr hn
      subst hr hn
      have h0 : (groupedTypes rels counts).count r0.1 = 0 :=
        List.count_eq_zero.mpr (fun hm => hnd.1 (groupedTypes_mem hm))
      simp [h0]
    | succ j =>
      simp at hr hn
      have hmem : r.1 ∈ rels.map Prod.fst := by
        have := List.mem_of_getElem? hr
        exact List.mem_map_of_mem this
      have hne : r0.1 ≠ r.1 := fun he => hnd.1 (he ▸ hmem)
      have h0 : (List.replicate n0 r0.1).count r.1 = 0 := by
        rw [List.count_replicate]
        simp [hne]
      rw [h0, Nat.zero_add]
      exact groupedTypes_count hnd.2 (by simpa using hl) j r n hr hn

/-! ### node data -/

theorem fmtVal_ne_none {idx : Nat} {hier : String} {raw v : Val}
    (h : fmtVal idx hier raw = some v) (hne : raw ≠ .none) : v ≠ .none := by
  cases raw with
  | none => exact absurd rfl hne
  | str s =>
    simp only [fmtVal] at h
    cases he : expand idx hier s with
    | none => simp [he] at h
    | some s' =>
      simp [he] at h
      rw [← h]
      intro hh
      cases hh
  | int i => simp [fmtVal] at h; rw [← h]; intro hh; cases hh
  | bool b => simp [fmtVal] at h; rw [← h]; intro hh; cases hh
  | flt a b => simp [fmtVal] at h; rw [← h]; intro hh; cases hh
  | date o => simp [fmtVal] at h; rw [← h]; intro hh; cases hh

/-- every item of the node data stems from an entry of the spec with the same key -/
theorem attrsOK_mem {idx : Nat} {hier : String} :
    ∀ {body : Spec} {attrs : Attrs}, AttrsOK idx hier body attrs →
      ∀ a v, (a, v) ∈ attrs → ∃ sv, (a, sv) ∈ body ∧ AttrValOK sv v
  | _, _, .nil => by simp
  | _, _, .const hv hr => by
    intro a v hm
    rcases List.mem_cons.mp hm with he | hm
    · cases he
      exact ⟨_, List.mem_cons_self, idx, hier, hv⟩
    · obtain ⟨sv, hs, hok⟩ := attrsOK_mem hr a v hm
      exact ⟨sv, List.mem_cons_of_mem _ hs, hok⟩
  | _, _, .skip _ hr => by
    intro a v hm
    obtain ⟨sv, hs, hok⟩ := attrsOK_mem hr a v hm
    exact ⟨sv, List.mem_cons_of_mem _ hs, hok⟩
  | _, _, .gen hin hne hv hr => by
    intro a v hm
    rcases List.mem_cons.mp hm with he | hm
    · cases he
      exact ⟨_, List.mem_cons_self, _, hin, hne, idx, hier, hv⟩
    · obtain ⟨sv, hs, hok⟩ := attrsOK_mem hr a v hm
      exact ⟨sv, List.mem_cons_of_mem _ hs, hok⟩

/-- the keys of the node data are a sublist of the keys of the spec (same order, some missing) -/
theorem attrsOK_keys {idx : Nat} {hier : String} :
    ∀ {body : Spec} {attrs : Attrs}, AttrsOK idx hier body attrs →
      (attrs.map Prod.fst).Sublist (body.map Prod.fst)
  | _, _, .nil => .slnil
  | _, _, .const _ hr => by
    simp only [List.map_cons]
    exact List.Sublist.cons_cons _ (attrsOK_keys hr)
  | _, _, .skip _ hr => by
    simp only [List.map_cons]
    exact List.Sublist.cons _ (attrsOK_keys hr)
  | _, _, .gen _ _ _ hr => by
    simp only [List.map_cons]
    exact List.Sublist.cons_cons _ (attrsOK_keys hr)

theorem attrValOK_rnd_ne_none {r : RSpec} {v : Val} (h : AttrValOK (.rnd r) v) : v ≠ .none := by
  obtain ⟨raw, _, hne, idx, hier, hv⟩ := h
  exact fmtVal_ne_none hv hne

/-- `_resolve_random_dict` drops the key of a randomizer that returned `None` -/
theorem resolveDict_skip {idx : Nat} {hier : String} {k : String} {r : RSpec} {body : Spec}
    {ds ds1 : List Draw} (h : resolve r ds = some (.none, ds1)) :
    resolveDict idx hier ((k, .rnd r) :: body) ds = resolveDict idx hier body ds1 := by
  simp [resolveDict, h]

/-! ### `dict.update` -/

theorem lookup_upsert {α} (key k : String) (v : α) : ∀ (d : List (String × α)),
    lookup key (upsert k v d) = if k = key then some v else lookup key d
  | [] => by simp [upsert, lookup]
  | (k', v') :: t => by
    by_cases h : k' = k
    · subst h
      by_cases h2 : k' = key <;> simp [upsert, lookup, h2]
    · by_cases h2 : k' = key
      · subst h2
        simp [upsert, lookup, h, Ne.symm h]
      · simp [upsert, lookup, h, h2, lookup_upsert key k v t]

theorem lookup_none_of_not_mem {α} {key : String} : ∀ {d : List (String × α)},
    key ∉ d.map Prod.fst → lookup key d = none
  | [], _ => rfl
  | (k', v') :: t, h => by
    simp only [List.map_cons, List.mem_cons, not_or] at h
    simp [lookup, Ne.symm h.1, lookup_none_of_not_mem h.2]

/-- `d.update(u)` for a dict `u`: the entries of `u` win. -/
theorem lookup_update {α} (key : String) : ∀ (u d : List (String × α)),
    (u.map Prod.fst).Nodup →
    lookup key (update d u) = (lookup key u).orElse fun _ => lookup key d
  | [], d, _ => by simp [update, lookup]
  | (k, v) :: u, d, hnd => by
    simp only [List.map_cons, List.nodup_cons] at hnd
    have ih := lookup_update key u (upsert k v d) hnd.2
    simp only [update, List.foldl_cons] at ih ⊢
    rw [ih, lookup_upsert]
    by_cases h : k = key
    · subst h
      simp [lookup, lookup_none_of_not_mem hnd.1]
    · simp [lookup, h]

end Gen
end Nutree
