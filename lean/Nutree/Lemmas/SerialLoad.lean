/-
  Nutree.Lemmas.SerialLoad — lifting the list round trip through `saveJ` / `loadJ` with key and
  value maps: decoding a written element gives the element that would have been written without
  maps (`payloads_decode`), hence `load ∘ save` (`load_save_core`).
-/
import Nutree.Lemmas.SerialClone
import Nutree.Lemmas.SerialMaps
namespace Nutree.Ser
open Nutree T Nutree.Flt.Spec

theorem int_toNat_cast (p : Nat) : ((p : Int)).toNat = p := by simp
theorem int_cast_not_neg (p : Nat) : ¬ ((p : Int) < 0) := by omega

/-- reading back one written list element: the entry that would have been written without maps. -/
theorem decodeRow_full {typed : Bool} {o : Opts} {ser : T → Fields → Option Fields} {n : T} {pl : Payload} (p : Nat)
    (hv : ∀ d, makeEntry typed n = .dict d → ValidMaps o ((ser n d).getD d))
    (h : fullEntry typed o ser n = some pl) :
    ∃ pl0, fullEntry typed {} ser n = some pl0 ∧
      decodeRow (o.keyMap.map fun (k, s) => (s, k)) o.valueMap (.arr [.num p, payloadJ pl]) = some (p, pl0) := by
  unfold fullEntry at h ⊢
  cases hm : makeEntry typed n with
  | ref k => exact absurd hm (makeEntry_ne_ref _ _ _)
  | str s =>
    rw [hm] at h
    simp only [Option.some.injEq] at h
    subst h
    exact ⟨.str s, rfl, by simp [decodeRow, payloadJ, payloadOfJ, int_cast_not_neg]⟩
  | dict d =>
    rw [hm] at h
    simp only at h
    cases hc : compress o ((ser n d).getD d) with
    | none => rw [hc] at h; cases h
    | some d' =>
      rw [hc, Option.map_some, Option.some.injEq] at h
      subst h
      refine ⟨.dict ((ser n d).getD d), by simp [compress_nil], ?_⟩
      have := uncompress_compress (hv d hm) hc
      simp [decodeRow, payloadJ, payloadOfJ, int_cast_not_neg, this]

theorem decodeRow_ref (km : List (String × String)) (vm : List (String × List JVal)) (p k : Nat) :
    decodeRow km vm (.arr [.num p, payloadJ (.ref k)]) = some (p, .ref k) := by
  simp [decodeRow, payloadJ, payloadOfJ, int_cast_not_neg]

theorem entryOf_decode {typed : Bool} {o : Opts} {ser : T → Fields → Option Fields} {isClone : T → Bool}
    {c c' : CMap} {r : Row} {e : Nat × Payload}
    (hv : ∀ d, makeEntry typed r.2.2 = .dict d → ValidMaps o ((ser r.2.2 d).getD d))
    (h : entryOf typed o ser isClone c r = some (e, c')) :
    ∃ e0, entryOf typed {} ser isClone c r = some (e0, c') ∧
      decodeRow (o.keyMap.map fun (k, s) => (s, k)) o.valueMap (.arr [.num e.1, payloadJ e.2]) = some e0 := by
  unfold entryOf at h ⊢
  cases hl : c.lookup r.2.2.did with
  | some v =>
    obtain ⟨cidx, ck⟩ := v
    rw [hl] at h
    simp only at h ⊢
    by_cases hk : (r.2.2.kind == ck) = true
    · rw [if_pos hk] at h ⊢
      simp only [Option.some.injEq, Prod.mk.injEq] at h
      obtain ⟨rfl, rfl⟩ := h
      exact ⟨_, rfl, decodeRow_ref _ _ _ _⟩
    · rw [if_neg hk] at h ⊢
      cases hf : fullEntry typed o ser r.2.2 with
      | none => rw [hf] at h; cases h
      | some pl =>
        rw [hf, Option.map_some, Option.some.injEq, Prod.mk.injEq] at h
        obtain ⟨rfl, rfl⟩ := h
        obtain ⟨pl0, h1, h2⟩ := decodeRow_full r.2.1 hv hf
        exact ⟨(r.2.1, pl0), by rw [h1]; rfl, h2⟩
  | none =>
    rw [hl] at h
    simp only at h ⊢
    cases hf : fullEntry typed o ser r.2.2 with
    | none => rw [hf] at h; cases h
    | some pl =>
      rw [hf, Option.map_some, Option.some.injEq, Prod.mk.injEq] at h
      obtain ⟨rfl, rfl⟩ := h
      obtain ⟨pl0, h1, h2⟩ := decodeRow_full r.2.1 hv hf
      exact ⟨(r.2.1, pl0), by rw [h1]; rfl, h2⟩

theorem payloads_decode {typed : Bool} {o : Opts} {ser : T → Fields → Option Fields} {isClone : T → Bool} :
    ∀ (rs : List Row) (c c' : CMap) (es : List (Nat × Payload)),
      payloads typed o ser isClone rs c = some (es, c') →
      (∀ r ∈ rs, ∀ d, makeEntry typed r.2.2 = .dict d → ValidMaps o ((ser r.2.2 d).getD d)) →
      ∃ es0, payloads typed {} ser isClone rs c = some (es0, c') ∧
        (es.map fun (pe : Nat × Payload) => JVal.arr [.num pe.1, payloadJ pe.2]).mapM
          (decodeRow (o.keyMap.map fun (k, s) => (s, k)) o.valueMap) = some es0
  | [], c, c', es, h, _ => by
    simp only [payloads, Option.some.injEq, Prod.mk.injEq] at h
    obtain ⟨rfl, rfl⟩ := h
    exact ⟨[], rfl, rfl⟩
  | r :: rs, c, c', es, h, hv => by
    obtain ⟨e, ca, es', he, hp, rfl⟩ := payloads_cons_some h
    obtain ⟨e0, h1, h2⟩ := entryOf_decode (hv r (by simp)) he
    obtain ⟨es0, h3, h4⟩ := payloads_decode rs ca c' es' hp (fun r' hr' => hv r' (List.mem_cons_of_mem _ hr'))
    refine ⟨e0 :: es0, by rw [payloads, h1]; simp only; rw [h3], ?_⟩
    rw [List.map_cons, mapM_option_cons, h2, h4]
    rfl

/-- the options are valid for a forest: `ValidMaps` for every dict entry that `save` writes. -/
def ValidFor (typed : Bool) (o : Opts) (ser : T → Fields → Option Fields) (tops : List T) : Prop :=
  ∀ n ∈ flatL tops, ∀ d, makeEntry typed n = .dict d → ValidMaps o ((ser n d).getD d)

/-- `file_meta` does not overwrite the three header fields that `load` interprets. -/
def MetaOK (o : Opts) : Prop :=
  ∀ e ∈ o.fileMeta, e.1 ≠ "$generator" ∧ e.1 ≠ "$key_map" ∧ e.1 ≠ "$value_map"

/-- **`load ∘ save`** (core form). -/
theorem load_save_core {typed : Bool} {strAtom : String → Atom} {deser : Fields → DRes}
    {ser : T → Fields → Option Fields} {o : Opts} {tops : List T} {doc : JVal}
    (hnode : ∀ n ∈ flatL tops, NodeOK typed ser deser strAtom n)
    (htop : (tops.map T.did).Nodup) (hsib : ∀ x ∈ flatL tops, (x.kids.map T.did).Nodup)
    (hD : DataById (flatL tops))
    (hvalid : ValidFor typed o ser tops) (hmeta : MetaOK o)
    (hs : saveJ typed o ser tops = some doc) :
    ∃ t', loadJ typed strAtom deser doc = .ok (t', header o) ∧ shL t'.root.kids = shL tops ∧ WF t' := by
  unfold saveJ at hs
  simp only at hs
  cases hl : toList typed o ser (fun (n : T) => decide (((flatL tops).filter fun m => m.did == n.did).length > 1)) tops with
  | none => rw [hl] at hs; cases hs
  | some out =>
    rw [hl, Option.map_some, Option.some.injEq] at hs
    subst hs
    rw [toList_eq] at hl
    cases hp : payloads typed o ser (fun (n : T) => decide (((flatL tops).filter fun m => m.did == n.did).length > 1))
        (enumerate tops 0 1).1 [] with
    | none => rw [hp] at hl; cases hl
    | some x =>
      obtain ⟨es, c1⟩ := x
      rw [hp, Option.map_some, Option.some.injEq] at hl
      subst hl
      obtain ⟨es0, h1, h2⟩ := payloads_decode _ _ _ _ hp (fun r hr => hvalid r.2.2 (by
        rw [← enumerate_nodes tops 0 1]; exact List.mem_map.2 ⟨r, hr, rfl⟩))
      have h0 : toList typed {} ser (fun (n : T) => decide (((flatL tops).filter fun m => m.did == n.did).length > 1)) tops
          = some es0 := by rw [toList_eq, h1]; rfl
      obtain ⟨t', h3, h4, h5, _⟩ := fromList_toList_core (strAtom := strAtom) (deser := deser) hnode htop hsib hD h0
      refine ⟨t', ?_, h4, h5⟩
      simp only at h2
      rw [loadJ_header_eq (lookupF_saved_meta _ _) (lookupF_saved_nodes _ _)
        (fun e he => (hmeta e he).1) (fun e he => (hmeta e he).2.1) (fun e he => (hmeta e he).2.2) h2]
      simp only [h3]
      rfl

end Nutree.Ser
