/-
  Nutree.Lemmas.FilterCopyOps — the building blocks of the copying filter on a target state:
  * `modT_modT_same`, `modT_graft`, `modT_graft_leaf` — composing appends on the tree value;
  * `Good t next` — the invariant of the copy (well-formed, fresh counter, untyped);
  * `addData_append_ok`, `addNode_shallow` — a shallow copy appended below `p` succeeds iff no
    child of `p` carries the data id, and appends one leaf;
  * `SibUL`, `KindNone`, `addFrom_ok` — `_add_from` (deep copy) of a sibling-unique forest below
    a node whose children carry other data ids succeeds and appends a forest of the same shape.
-/
import Nutree.Lemmas.FilterKeep
import Nutree.Properties.C01
namespace Nutree
open T C10
namespace Flt
open Spec

/-! ### composing edits of the tree value -/

theorem modT_modT_same (p : NodeId) (f g : List T → List T) : ∀ root : T,
    modT p g (modT p f root) = modT p (fun l => g (f l)) root := by
  intro root
  induction root using T.ind with
  | node i ks ih =>
    by_cases h : i.id = p
    · rw [modT_node, if_pos h, modT_node, if_pos h, modT_node, if_pos h]
    · rw [modT_node, if_neg h, modT_node, if_neg h, modT_node, if_neg h, List.map_map]
      congr 1
      exact List.map_congr_left ih

theorem modT_id_fun (p : NodeId) : ∀ root : T, modT p _root_.id root = root := by
  intro root
  induction root using T.ind with
  | node i ks ih =>
    rw [modT_node]
    split
    · rfl
    · congr 1; exact (List.map_congr_left ih).trans (List.map_id' ks)

/-- an edit at a node `q` that is new to `root` only sees the appended branch. -/
theorem modT_graft {q p : NodeId} {g : List T → List T} {X : T} : ∀ {root : T},
    q ∉ (flat root).map T.id →
    modT q g (modT p (fun l => l ++ [X]) root) = modT p (fun l => l ++ [modT q g X]) root := by
  intro root
  induction root using T.ind with
  | node i ks ih =>
    intro hq
    rw [ids_eq, List.mem_cons, not_or] at hq
    have hiq : i.id ≠ q := fun e => hq.1 e.symm
    have hqk : q ∉ idsL ks := hq.2
    by_cases h : i.id = p
    · rw [modT_node, if_pos h, modT_node, if_neg hiq, modT_node, if_pos h, List.map_append,
        map_modT_of_not_mem hqk]
      rfl
    · rw [modT_node, if_neg h, modT_node, if_neg hiq, modT_node, if_neg h, List.map_map]
      congr 1
      refine List.map_congr_left (fun c hc => ih c hc ?_)
      intro hm
      obtain ⟨x, hx, hxq⟩ := mem_ids.1 hm
      exact hqk (mem_idsL.2 ⟨x, mem_flatL.2 ⟨c, hc, hx⟩, hxq⟩)

theorem modT_graft_leaf {q p : NodeId} {g : List T → List T} {X root : T}
    (hq : q ∉ (flat root).map T.id) (hX : X.id = q) :
    modT q g (modT p (fun l => l ++ [X]) root) = modT p (fun l => l ++ [.node X.info (g X.kids)]) root := by
  rw [modT_graft hq, modT_of_id_eq hX]

/-! ### the invariant of the copy -/

/-- well-formed, fresh id counter, plain (untyped) tree. -/
structure Good (t : Tree) (next : NodeId) : Prop where
  wf : WF t
  fresh : C01.Fresh t next
  untyped : t.typed = false

/-- the shallow copy of `src` with identity `id` in an untyped tree. -/
def leafOf (id : NodeId) (src : T) : T := .node { id := id, data := src.data, did := src.did, kind := none } []

@[simp] theorem leafOf_id (id : NodeId) (src : T) : (leafOf id src).id = id := rfl
@[simp] theorem leafOf_kids (id : NodeId) (src : T) : (leafOf id src).kids = [] := rfl
@[simp] theorem leafOf_did (id : NodeId) (src : T) : (leafOf id src).did = src.did := rfl

theorem Good.not_mem {t : Tree} {next : NodeId} (h : Good t next) : next ∉ (flat t.root).map T.id :=
  h.fresh.not_mem

/-- appending a registered leaf with an explicit data id. -/
theorem addData_append_ok {t : Tree} {next p : NodeId} {P : T} (a : Atom) (did : DataId) (kind : Option String)
    (h : WF t) (hf : C01.Fresh t next) (hp : findT p t.root = some P) (hu : ∀ c ∈ P.kids, c.did ≠ did) :
    ∃ t1, t.addData next p a .none (some did) kind = .ok t1 ∧ WF t1 ∧ C01.Fresh t1 (next + 1) ∧
      t1.root = modT p (fun l => l ++ [newNode t next a did kind]) t.root ∧ t1.typed = t.typed := by
  cases hreg : t.register p next did with
  | error e =>
    have := register_error hreg; subst this
    obtain ⟨c, hc, hcd⟩ := (register_unique_iff_sibling h hp).1 hreg
    exact absurd hcd (hu c hc)
  | ok t0 =>
    have hr : t.addData next p a .none (some did) kind =
        .ok { t0 with root := modT p (fun l => l ++ [newNode t next a did kind]) t0.root } := by
      unfold Tree.addData
      simp only [hp, insertPosition, hreg]
      rfl
    have := C01.addData_WF t _ next p a .none (some did) kind h hf hr
    refine ⟨_, hr, this.1, this.2, ?_, ?_⟩
    · show modT p _ t0.root = _; rw [register_root hreg]
    · show t0.typed = t.typed; exact register_typed hreg

/-- `p.add_child(src)` (shallow) in an untyped target. -/
theorem addNode_shallow {t : Tree} {next p : NodeId} {P : T} (src : T) (hg : Good t next)
    (hp : findT p t.root = some P) (hu : ∀ c ∈ P.kids, c.did ≠ src.did) :
    ∃ t1, t.addNode next p src false none .none none none none = (t1, next + 1, none) ∧ Good t1 (next + 1) ∧
      t1.root = modT p (fun l => l ++ [leafOf next src]) t.root := by
  obtain ⟨t1, h1, h2, h3, h4, h5⟩ := addData_append_ok src.data src.did none hg.wf hg.fresh hp hu
  refine ⟨t1, ?_, ⟨h2, h3, h5.trans hg.untyped⟩, ?_⟩
  · unfold Tree.addNode
    simp [hg.untyped, h1]
  · rw [h4]; unfold newNode leafOf; simp [hg.untyped]

/-- the fresh leaf is found after the append. -/
theorem findT_appended {root P X : T} {p : NodeId} (hp : findT p root = some P)
    (hN : C10.IdsNodup (modT p (fun l => l ++ [X]) root)) :
    findT X.id (modT p (fun l => l ++ [X]) root) = some X := by
  refine findT_of_mem hN (mem_flat_modT_new hp ?_)
  rw [flatL_append, flatL_singleton]
  exact List.mem_append_right _ (self_mem_flat X)

/-! ### shapes -/

@[simp] theorem shL_nil : shL [] = [] := by simp [shL]
theorem shL_cons (t : T) (ts : List T) : shL (t :: ts) = shT t :: shL ts := by simp [shL]
theorem shT_node (i : Info) (ks : List T) : shT (.node i ks) = .node i.data.obj i.did i.kind (shL ks) := by
  simp [shT]
theorem shT_eq (t : T) : shT t = .node t.data.obj t.did t.kind (shL t.kids) := by
  cases t; rw [shT_node]; rfl

theorem shL_append : ∀ (a b : List T), shL (a ++ b) = shL a ++ shL b
  | [], b => by simp
  | x :: a, b => by rw [List.cons_append, shL_cons, shL_cons, shL_append a b]; rfl

theorem shL_eq_map : ∀ ks : List T, shL ks = ks.map shT
  | [] => by simp
  | x :: a => by rw [shL_cons, shL_eq_map a]; rfl

theorem shL_eq_nil {ks : List T} : shL ks = [] ↔ ks = [] := by
  rw [shL_eq_map, List.map_eq_nil_iff]

/-- the data id recorded in a shape. -/
def Spec.Sh.did : Sh → DataId
  | .node _ d _ _ => d

theorem shT_did (t : T) : (shT t).did = t.did := by rw [shT_eq]; rfl

theorem did_eq_of_shT_eq {a b : T} (h : shT a = shT b) : a.did = b.did := by
  rw [← shT_did a, ← shT_did b, h]

/-! ### deep copy -/

/-- sibling-unique data ids throughout a forest. -/
def SibUL (ks : List T) : Prop := (ks.map T.did).Nodup ∧ ∀ x ∈ flatL ks, (x.kids.map T.did).Nodup

/-- no node of the forest carries a kind (forests of plain trees). -/
def KindNone (ks : List T) : Prop := ∀ m ∈ flatL ks, m.kind = none

theorem SibUL.kids_of_mem {ks : List T} (h : SibUL ks) {n : T} (hn : n ∈ flatL ks) : SibUL n.kids :=
  ⟨h.2 n hn, fun x hx => h.2 x (by
    obtain ⟨k, hk, hnk⟩ := mem_flatL.1 hn
    exact mem_flatL.2 ⟨k, hk, mem_flat_trans (mem_flat_of_mem_flatL_kids hx) hnk⟩)⟩

theorem SibUL.head {n : T} {ns : List T} (h : SibUL (n :: ns)) : SibUL n.kids :=
  h.kids_of_mem (by rw [flatL_cons]; exact List.mem_append_left _ (self_mem_flat n))

theorem SibUL.tail {n : T} {ns : List T} (h : SibUL (n :: ns)) : SibUL ns :=
  ⟨(List.nodup_cons.1 (by simpa using h.1)).2,
   fun x hx => h.2 x (by rw [flatL_cons]; exact List.mem_append_right _ hx)⟩

theorem SibUL.head_ne {n : T} {ns : List T} (h : SibUL (n :: ns)) : ∀ k ∈ ns, n.did ≠ k.did := by
  intro k hk e
  have := (List.nodup_cons.1 (by simpa using h.1 : (n.did :: ns.map T.did).Nodup)).1
  exact this (e ▸ List.mem_map_of_mem hk)

theorem KindNone.head {n : T} {ns : List T} (h : KindNone (n :: ns)) : n.kind = none :=
  h n (by rw [flatL_cons]; exact List.mem_append_left _ (self_mem_flat n))

theorem KindNone.kids {n : T} {ns : List T} (h : KindNone (n :: ns)) : KindNone n.kids :=
  fun m hm => h m (by rw [flatL_cons]; exact List.mem_append_left _ (mem_flat_of_mem_flatL_kids hm))

theorem KindNone.tail {n : T} {ns : List T} (h : KindNone (n :: ns)) : KindNone ns :=
  fun m hm => h m (by rw [flatL_cons]; exact List.mem_append_right _ hm)

/-- the statement of `addFrom_ok` for a forest … -/
def AddFromOKL (ks : List T) : Prop :=
  ∀ (t : Tree) (next p : NodeId) (P : T), Good t next → findT p t.root = some P →
    (∀ c ∈ P.kids, ∀ k ∈ ks, c.did ≠ k.did) → SibUL ks → KindNone ks →
    ∃ t1 n1 C, Tree.addFromL t next p ks = (t1, n1, none) ∧ Good t1 n1 ∧
      t1.root = modT p (fun l => l ++ C) t.root ∧ shL C = shL ks

/-- … and for one source node. -/
def AddFromOKT (c : T) : Prop :=
  ∀ (t : Tree) (next p : NodeId) (P : T), Good t next → findT p t.root = some P →
    (∀ k ∈ P.kids, k.did ≠ c.did) → SibUL c.kids → c.kind = none → KindNone c.kids →
    ∃ t1 n1 c', Tree.addFromT t next p c = (t1, n1, none) ∧ Good t1 n1 ∧
      t1.root = modT p (fun l => l ++ [c']) t.root ∧ shT c' = shT c

theorem addFromOKT_node {i : Info} {ks : List T} (ih : AddFromOKL ks) : AddFromOKT (.node i ks) := by
  intro t next p P hg hp hu hs hk hkk
  obtain ⟨t0, h1, h2, h3, h4, h5⟩ := addData_append_ok i.data i.did i.kind hg.wf hg.fresh hp hu
  have hg0 : Good t0 (next + 1) := ⟨h2, h3, h5.trans hg.untyped⟩
  have hL : newNode t next i.data i.did i.kind = leafOf next (.node i ks) := by
    unfold newNode leafOf; simp [hg.untyped]; rfl
  rw [hL] at h4
  have hf : findT next t0.root = some (leafOf next (.node i ks)) := by
    have := findT_appended (X := leafOf next (.node i ks)) hp (by rw [← h4]; exact h2.idsN)
    rwa [← h4] at this
  obtain ⟨t1, n1, C, e1, e2, e3, e4⟩ := ih t0 (next + 1) next _ hg0 hf (by simp) hs hkk
  refine ⟨t1, n1, .node (leafOf next (.node i ks)).info C, ?_, e2, ?_, ?_⟩
  · rw [Tree.addFromT]
    simp only [h1]
    exact e1
  · rw [e3, h4, modT_graft_leaf hg.not_mem (leafOf_id _ _)]
    simp
  · rw [shT_node, shT_node, e4]
    simp only [T.kind, info_node] at hk
    simp [leafOf, hk]; rfl

theorem addFromOKL_cons {c : T} {cs : List T} (hc : AddFromOKT c) (hcs : AddFromOKL cs) :
    AddFromOKL (c :: cs) := by
  intro t next p P hg hp hu hs hk
  obtain ⟨t1, n1, c', e1, e2, e3, e4⟩ := hc t next p P hg hp (fun k hk' => hu k hk' c List.mem_cons_self)
    hs.head hk.head hk.kids
  have hp1 : findT p t1.root = some (.node P.info (P.kids ++ [c'])) := by
    rw [e3]; exact findT_modT_self_of hp
  obtain ⟨t2, n2, C, f1, f2, f3, f4⟩ := hcs t1 n1 p _ e2 hp1 (by
      intro k hk' x hx
      rw [kids_node, List.mem_append, List.mem_singleton] at hk'
      rcases hk' with hk' | rfl
      · exact hu k hk' x (List.mem_cons_of_mem _ hx)
      · rw [did_eq_of_shT_eq e4]; exact hs.head_ne x hx) hs.tail hk.tail
  refine ⟨t2, n2, c' :: C, ?_, f2, ?_, ?_⟩
  · rw [Tree.addFromL]
    simp only [e1]
    exact f1
  · rw [f3, e3, modT_modT_same]
    congr 1; funext l; simp
  · rw [shL_cons, shL_cons, e4, f4]

theorem addFromOKL_nil : AddFromOKL [] := by
  intro t next p P hg hp _ _ _
  refine ⟨t, next, [], by rw [Tree.addFromL], hg, ?_, rfl⟩
  have : (fun l : List T => l ++ []) = _root_.id := by funext l; simp
  rw [this]
  exact (modT_id_fun p t.root).symm

/-- **`_add_from` of a sibling-unique forest succeeds** and appends a forest of the same shape. -/
theorem addFrom_ok (ks : List T) : AddFromOKL ks :=
  T.bothL (P := AddFromOKT) (Q := AddFromOKL) (fun _ _ => addFromOKT_node) addFromOKL_nil
    (fun _ _ => addFromOKL_cons) ks

end Flt
end Nutree
