/-
  Helper lemmas for C16 (pretty-printing), part 1: `getPrefix` of the node at path `p`
  is the joined `Spec.prefixParts`; the traversal with paths.
-/
import Nutree.Model.Format
import Nutree.Spec.Format
import Nutree.Lemmas.Iter
import Nutree.Properties.C10
namespace Nutree
open T C10 Fmt

/-! ### induction over forests -/

mutual
private theorem forest_ind_T {Q : List T → Prop} (h0 : Q [])
    (hc : ∀ i ks ts, Q ks → Q ts → Q (T.node i ks :: ts)) : ∀ t : T, Q t.kids
  | .node _ ks => forest_ind_L h0 hc ks
private theorem forest_ind_L {Q : List T → Prop} (h0 : Q [])
    (hc : ∀ i ks ts, Q ks → Q ts → Q (T.node i ks :: ts)) : ∀ ks : List T, Q ks
  | [] => h0
  | .node i ks :: ts => hc i ks ts (forest_ind_T h0 hc (.node i ks)) (forest_ind_L h0 hc ts)
end

/-- induction principle for forests: children first, then the following siblings. -/
theorem forest_induction {Q : List T → Prop} (h0 : Q [])
    (hc : ∀ i ks ts, Q ks → Q ts → Q (T.node i ks :: ts)) : ∀ ks : List T, Q ks :=
  forest_ind_L h0 hc

/-! ### the ancestor loop -/

theorem ancestorParts_eq (root : T) (s0 s1 : String) (lstrip : Nat) :
    ∀ (ns : List T) (d : Nat),
      ancestorParts root s0 s1 lstrip ns d =
        ((ns.drop (lstrip - d)).map (fun x => if isLast root x then s0 else s1), d + ns.length)
  | [], d => by simp [ancestorParts]
  | p :: ps, d => by
    rw [ancestorParts]
    simp only
    by_cases h : d + 1 ≤ lstrip
    · rw [if_pos h, ancestorParts_eq root s0 s1 lstrip ps (d + 1)]
      have : lstrip - d = (lstrip - (d + 1)) + 1 := by omega
      rw [this, List.drop_succ_cons]
      simp; omega
    · rw [if_neg h, ancestorParts_eq root s0 s1 lstrip ps (d + 1)]
      have h1 : lstrip - d = 0 := by omega
      have h2 : lstrip - (d + 1) = 0 := by omega
      rw [h1, h2]
      simp; omega

/-! ### prefixes of a path -/

theorem prefixes_length (p : List Nat) : (Spec.prefixes p).length = p.length := by
  simp [Spec.prefixes]

theorem prefixes_concat (q : List Nat) (i : Nat) :
    Spec.prefixes (q ++ [i]) = Spec.prefixes q ++ [q ++ [i]] := by
  unfold Spec.prefixes
  simp only [List.length_append, List.length_singleton, List.range_succ, List.map_append,
    List.map_cons, List.map_nil]
  congr 1
  · apply List.map_congr_left
    intro k hk
    have : k + 1 ≤ q.length := by simp at hk; omega
    rw [List.take_append_of_le_length this]
  · have : q.length + 1 = (q ++ [i]).length := by simp
    rw [this, List.take_length]

/-- the `is-last` flags of the nodes along a path are the `lastAt` flags of its prefixes -/
theorem pathNodes_isLast {root : T} (hN : IdsNodup root) :
    ∀ (n : Nat) (q : List Nat) (x : T), q.length = n → root.sub q = some x →
      (pathNodes root q).map (isLast root) = (Spec.prefixes q).map (Spec.lastAt root) := by
  intro n
  induction n with
  | zero =>
    intro q x hn _
    have : q = [] := List.length_eq_zero_iff.1 hn
    subst this
    simp [pathNodes, Spec.prefixes]
  | succ n ih =>
    intro q x hn hx
    have hq : q ≠ [] := by intro h; subst h; simp at hn
    obtain ⟨q', j, par, rfl, hpar, hj⟩ := snoc_cases hq hx
    rw [pathNodes_concat hpar hj, prefixes_concat, List.map_append, List.map_append,
      ih q' par (by simpa using hn) hpar]
    congr 1
    simp only [List.map_cons, List.map_nil, isLast, Spec.lastAt]
    rw [(first_last_eq root x (q' ++ [j]) hN hq hx).2.1]

/-! ### `_get_prefix` -/

/-- **prefix_spec**: `_get_prefix` of the node at the non-empty path `p` joins the segments
`Spec.prefixParts`. -/
theorem getPrefix_eq {root n : T} {p : List Nat} (hN : IdsNodup root) (hp : p ≠ [])
    (hs : root.sub p = some n) {segs : List String} {s6 : Spec.Segs6}
    (hu : unpack segs = some s6) (lstrip : Nat) :
    getPrefix root n segs lstrip = some (String.join (Spec.prefixParts root s6 lstrip p n)) := by
  obtain ⟨s0, s1, s2, s3, s4, s5⟩ := s6
  obtain ⟨p', i, par, rfl, hpar, hi⟩ := snoc_cases hp hs
  have hlast : isLast root n = Spec.lastAt root (p' ++ [i]) :=
    (first_last_eq root n (p' ++ [i]) hN hp hs).2.1
  have hpl : getParentList root n false false = pathNodes root p' := by
    rw [parentList_eq root n (p' ++ [i]) hN hp hs false false]
    simp [SpecRel.parentList]
  have hmap : ∀ l : List T, l.map (fun x => if isLast root x then s0 else s1) =
      (l.map (isLast root)).map (fun b => if b then s0 else s1) := by
    intro l; simp
  unfold getPrefix Spec.prefixParts
  rw [hu]
  simp only [hpl, ancestorParts_eq, Nat.sub_zero, Nat.zero_add, pathNodes_length hpar,
    List.dropLast_concat, List.length_append, List.length_singleton, Nat.add_sub_cancel, hlast]
  have hparts : List.map (fun x => if isLast root x = true then s0 else s1)
        (List.drop lstrip (pathNodes root p')) =
      List.map (fun q => if Spec.lastAt root q = true then s0 else s1)
        (List.drop lstrip (Spec.prefixes p')) := by
    rw [List.map_drop, List.map_drop, hmap, pathNodes_isLast hN _ p' par rfl hpar]
    simp only [List.map_map]
    rfl
  rw [hparts]
  congr 3
  by_cases hd : p'.length ≥ lstrip
  · simp only [hd, if_true]
    cases n.kids.isEmpty <;> cases Spec.lastAt root (p' ++ [i]) <;> simp
  · simp only [hd, if_false]

theorem getPrefix_none {root n : T} {segs : List String} (hu : unpack segs = none) (lstrip : Nat) :
    getPrefix root n segs lstrip = none := by
  unfold getPrefix; rw [hu]
