/- Helper lemmas for C06: level order (`levelsL`, `zipApp`, `dirs`, `iterLevelLoop`). -/
import Nutree.Model.Iter
import Nutree.Spec.Iter
namespace Nutree
open T

/-! ### zipApp -/

@[simp] theorem zipApp_nil_left {α} (ys : List (List α)) : zipApp [] ys = ys := by
  simp [zipApp]

@[simp] theorem zipApp_nil_right {α} (xs : List (List α)) : zipApp xs [] = xs := by
  cases xs <;> simp [zipApp]

@[simp] theorem zipApp_cons_cons {α} (x y : List α) (xs ys : List (List α)) :
    zipApp (x :: xs) (y :: ys) = (x ++ y) :: zipApp xs ys := by
  simp [zipApp]

theorem zipApp_assoc {α} : ∀ (a b c : List (List α)),
    zipApp (zipApp a b) c = zipApp a (zipApp b c)
  | [], b, c => by simp
  | a :: as, [], c => by simp
  | a :: as, b :: bs, [] => by simp
  | a :: as, b :: bs, c :: cs => by simp [zipApp_assoc as bs cs]

theorem length_zipApp {α} : ∀ (a b : List (List α)),
    (zipApp a b).length = max a.length b.length
  | [], b => by simp
  | a :: as, [] => by simp
  | a :: as, b :: bs => by
    simp [length_zipApp as bs]

theorem flatten_zipApp_perm {α} : ∀ (a b : List (List α)),
    (zipApp a b).flatten.Perm (a.flatten ++ b.flatten)
  | [], b => by simp
  | a :: as, [] => by simp
  | a :: as, b :: bs => by
    have ih := flatten_zipApp_perm as bs
    simp only [zipApp_cons_cons, List.flatten_cons, List.append_assoc]
    refine List.Perm.append_left a ?_
    -- b ++ flatten (zipApp as bs) ~ as.flatten ++ (b ++ bs.flatten)
    refine (List.Perm.append_left b ih).trans ?_
    rw [← List.append_assoc, ← List.append_assoc]
    exact List.Perm.append_right _ List.perm_append_comm

theorem getD_zipApp {α} : ∀ (a b : List (List α)) (d : Nat),
    (zipApp a b).getD d [] = a.getD d [] ++ b.getD d []
  | [], b, d => by simp
  | a :: as, [], d => by simp
  | a :: as, b :: bs, 0 => by simp
  | a :: as, b :: bs, d + 1 => by
    have ih := getD_zipApp as bs d
    simp only [List.getD_eq_getElem?_getD] at ih
    simp [ih]

/-! ### levelsL -/

@[simp] theorem levelsL_nil : levelsL [] = [] := by simp [levelsL]

theorem levelsL_cons (t : T) (ts : List T) :
    levelsL (t :: ts) = zipApp (levels t) (levelsL ts) := by
  simp [levelsL]

theorem levels_eq (t : T) : levels t = [t] :: levelsL t.kids := by
  cases t; simp [levels]

theorem levelsL_append : ∀ (a b : List T),
    levelsL (a ++ b) = zipApp (levelsL a) (levelsL b)
  | [], b => by simp
  | t :: a, b => by
    simp only [List.cons_append, levelsL_cons, levelsL_append a b, zipApp_assoc]

@[simp] theorem nextLevel_nil : nextLevel [] = [] := rfl

theorem nextLevel_cons (t : T) (ts : List T) :
    nextLevel (t :: ts) = t.kids ++ nextLevel ts := by
  simp [nextLevel]

/-- A non-empty forest's levels: the forest itself, then the levels of all its children. -/
theorem levelsL_unfold : ∀ (t : T) (ts : List T),
    levelsL (t :: ts) = (t :: ts) :: levelsL (nextLevel (t :: ts))
  | t, [] => by
    simp [levelsL_cons, levels_eq, nextLevel_cons]
  | t, u :: us => by
    rw [levelsL_cons, levelsL_unfold u us, levels_eq, nextLevel_cons t, levelsL_append]
    simp

mutual
theorem length_levels : ∀ t : T, (levels t).length = height t + 1
  | .node i ks => by simp [levels, height, length_levelsL ks]
theorem length_levelsL : ∀ ks : List T, (levelsL ks).length = heightL ks
  | [] => by simp [heightL]
  | t :: ts => by
    simp [levelsL_cons, length_zipApp, heightL, length_levels t, length_levelsL ts]
end

/-! ### dirs -/

@[simp] theorem dirs_nil {α} (rev tog : Bool) : dirs rev tog ([] : List (List α)) = [] := rfl

@[simp] theorem dirs_cons {α} (rev tog : Bool) (l : List α) (ls : List (List α)) :
    dirs rev tog (l :: ls)
      = (if rev then l.reverse else l) :: dirs (if tog then !rev else rev) tog ls := rfl

theorem flatten_dirs_perm {α} (tog : Bool) : ∀ (rev : Bool) (ls : List (List α)),
    (dirs rev tog ls).flatten.Perm ls.flatten
  | _, [] => by simp
  | rev, l :: ls => by
    have ih := flatten_dirs_perm tog (if tog then !rev else rev) ls
    simp only [dirs_cons, List.flatten_cons]
    refine List.Perm.append ?_ ih
    cases rev
    · simp
    · simp

/-! ### the queue loop -/

theorem iterLevelLoop_spec (tog : Bool) : ∀ (f : Nat) (rev : Bool) (cur : List T),
    (levelsL cur).length ≤ f →
    iterLevelLoop f rev tog cur = (dirs rev tog (levelsL cur)).flatten
  | 0, rev, cur, h => by
    have : levelsL cur = [] := List.eq_nil_of_length_eq_zero (by omega)
    simp [iterLevelLoop, this]
  | f + 1, rev, [], _ => by simp [iterLevelLoop]
  | f + 1, rev, t :: ts, h => by
    rw [levelsL_unfold] at h ⊢
    have h' : (levelsL (nextLevel (t :: ts))).length ≤ f := by
      simp only [List.length_cons] at h; omega
    simp [iterLevelLoop, iterLevelLoop_spec tog f _ _ h']

theorem iterLevel_eq_specLevel (rev tog : Bool) (ks : List T) :
    iterLevel rev tog ks = specLevel rev tog ks := by
  unfold iterLevel specLevel
  exact iterLevelLoop_spec tog _ rev ks (by rw [length_levelsL]; exact Nat.le_refl _)

/-! ### permutation facts -/

mutual
theorem flatten_levels_perm : ∀ t : T, (levels t).flatten.Perm (flat t)
  | .node i ks => by
    simp only [levels, flat, List.flatten_cons, List.singleton_append]
    exact List.Perm.cons _ (flatten_levelsL_perm ks)
theorem flatten_levelsL_perm : ∀ ks : List T, (levelsL ks).flatten.Perm (flatL ks)
  | [] => by simp [flatL]
  | t :: ts => by
    rw [levelsL_cons, flatL]
    exact (flatten_zipApp_perm _ _).trans
      (List.Perm.append (flatten_levels_perm t) (flatten_levelsL_perm ts))
end

theorem specLevel_perm_flatL (rev tog : Bool) (ks : List T) :
    (specLevel rev tog ks).Perm (flatL ks) :=
  (flatten_dirs_perm tog rev _).trans (flatten_levelsL_perm ks)

mutual
theorem post_perm_flat : ∀ t : T, (post t).Perm (flat t)
  | .node i ks => by
    simp only [post, flat]
    exact List.perm_append_singleton _ _ |>.trans (List.Perm.cons _ (postL_perm_flatL ks))
theorem postL_perm_flatL : ∀ ks : List T, (postL ks).Perm (flatL ks)
  | [] => by simp [postL, flatL]
  | t :: ts => by
    rw [postL, flatL]
    exact List.Perm.append (post_perm_flat t) (postL_perm_flatL ts)
end

/-! ### levels by depth -/

mutual
theorem withDepth_ge : ∀ (t : T) (k : Nat) (p : T × Nat), p ∈ withDepth k t → k ≤ p.2
  | .node i ks, k, p, hp => by
    simp only [withDepth, List.mem_cons] at hp
    rcases hp with rfl | hp
    · exact Nat.le_refl _
    · have := withDepthL_ge ks (k + 1) p hp; omega
theorem withDepthL_ge : ∀ (ks : List T) (k : Nat) (p : T × Nat), p ∈ withDepthL k ks → k ≤ p.2
  | [], k, p, hp => by simp [withDepthL] at hp
  | t :: ts, k, p, hp => by
    simp only [withDepthL, List.mem_append] at hp
    rcases hp with hp | hp
    · exact withDepth_ge t k p hp
    · exact withDepthL_ge ts k p hp
end

mutual
theorem levels_getD_depth : ∀ (t : T) (k d : Nat),
    (levels t).getD d [] = ((withDepth k t).filter (fun p => p.2 == k + d)).map (·.1)
  | .node i ks, k, 0 => by
    have hnil : (withDepthL (k + 1) ks).filter (fun p => p.2 == k + 0) = [] := by
      rw [List.filter_eq_nil_iff]
      intro p hp
      have := withDepthL_ge ks (k + 1) p hp
      simp; omega
    simp only [levels, withDepth, List.getD_cons_zero]
    rw [List.filter_cons_of_pos (by simp), hnil]
    rfl
  | .node i ks, k, d + 1 => by
    have ih := levelsL_getD_depth ks (k + 1) d
    have he : k + 1 + d = k + (d + 1) := by omega
    rw [he] at ih
    simp only [levels, withDepth, List.getD_cons_succ]
    rw [List.filter_cons_of_neg (by simp), ih]
theorem levelsL_getD_depth : ∀ (ks : List T) (k d : Nat),
    (levelsL ks).getD d [] = ((withDepthL k ks).filter (fun p => p.2 == k + d)).map (·.1)
  | [], k, d => by simp [withDepthL]
  | t :: ts, k, d => by
    rw [levelsL_cons, getD_zipApp, levels_getD_depth t k d, levelsL_getD_depth ts k d,
      withDepthL, List.filter_append, List.map_append]
end

end Nutree
