/-
  Nutree.Lemmas.Prim — lemma library for the primitives of the operational model
  (`Nutree/Model/Ops.lean`): `findT`, `findParent`, `modT`, `setInfoT`, `pyInsert`,
  `idxOf`, `eraseId`.

  Conventions
  * `IdsNodup root` is `Nutree.C10.IdsNodup root` (= `Nutree.IdsNodup t` for `root = t.root`,
    by `Iff.rfl`), `IdsNodupL ks` the forest version.
  * `infos t = (flat t).map T.info` is the pre-order list of the node records; node ids and
    data ids are images of it (`ids_eq_infos`), so every multiset statement is proved once for
    `infos` and transported by `List.Perm.map`.
  * Induction over the nested inductive `T` goes through `T.ind` (one induction hypothesis per
    child) together with the "de-mutualised" forms `flatL_eq_flatMap`, `modL_eq_map`,
    `setInfoL_eq_map`, `findL_eq_findSome`, `findParentL_eq_findSome`, `replaceL_eq_map`.

  Sections: 0 generic list facts · 1 induction principle · 2 `flat`/`infos`/ids · 3 distinct
  identities · 4 `findT` · 5 `findParent` · 6 `modT` (records untouched, identity outside `p`,
  the multiset lemma `modT_infos_perm` and its `…_of` / `ids` / `kids` / filter forms,
  `modT_idsNodup`, members `mem_flat_modT`, searching `findT_modT`, `findParent_modT`) ·
  7 `setInfoT` · 8 `pyInsert`/`eraseId`/`idxOf` · 9 frame `modT_frame`, `sibUnique_modT` ·
  10 detach/attach a branch, `replaceT_eq_modT`.

  Simp lemmas registered here: `T.id_node`, `T.did_node`, `flatL_nil`, `flatL_cons`, `idsL_nil`,
  `infosL_nil`, `modT_info`, `modT_id`, `modT_did`, `eraseId_nil`.
-/
import Nutree.Model.Ops
import Nutree.Lemmas.RelChain
namespace Nutree
open T C10

/-! ## 0. generic list facts -/

/-- If `a ++ b ~ c` and `c` has no duplicates then `a` is `c` without the members of `b`. -/
theorem perm_filter_of_append_perm {α} [DecidableEq α] {a b c : List α}
    (h : (a ++ b).Perm c) (hc : c.Nodup) : a.Perm (c.filter (fun x => decide (x ∉ b))) := by
  have hab : (a ++ b).Nodup := h.nodup_iff.2 hc
  have hd : ∀ x ∈ a, x ∉ b := fun x hx hb => (List.nodup_append.1 hab).2.2 x hx x hb rfl
  have h1 : a.filter (fun x => decide (x ∉ b)) = a :=
    List.filter_eq_self.2 (fun x hx => by simpa using hd x hx)
  have h2 : b.filter (fun x => decide (x ∉ b)) = [] :=
    List.filter_eq_nil_iff.2 (fun x hx => by simpa using hx)
  have := (h.filter (fun x => decide (x ∉ b))).symm
  rw [List.filter_append, h1, h2, List.append_nil] at this
  exact this.symm

/-- inserting at any position is a permutation of consing. -/
theorem take_cons_drop_perm {α} (k : Nat) (x : α) (l : List α) :
    (l.take k ++ x :: l.drop k).Perm (x :: l) := by
  have h := (List.perm_middle (a := x) (l₁ := l.take k) (l₂ := l.drop k))
  rwa [List.take_append_drop] at h

theorem mem_take_cons_drop {α} (k : Nat) (x y : α) (l : List α) :
    y ∈ l.take k ++ x :: l.drop k ↔ y = x ∨ y ∈ l := by
  rw [(take_cons_drop_perm k x l).mem_iff, List.mem_cons]

/-! ## 1. induction principle and de-mutualised forms -/

mutual
/-- Structural induction on `T` with one hypothesis per child. Use as
`induction t using T.ind with | node i ks ih => …`. -/
theorem T.ind {motive : T → Prop}
    (node : ∀ i ks, (∀ c ∈ ks, motive c) → motive (.node i ks)) : ∀ t, motive t
  | .node i ks => node i ks (T.indL node ks)
theorem T.indL {motive : T → Prop}
    (node : ∀ i ks, (∀ c ∈ ks, motive c) → motive (.node i ks)) : ∀ ks : List T, ∀ c ∈ ks, motive c
  | [] => fun _ h => absurd h List.not_mem_nil
  | t :: ts => fun c hc =>
    match List.mem_cons.1 hc with
    | .inl h => h ▸ T.ind node t
    | .inr h => T.indL node ts c h
end

theorem flatL_eq_flatMap : ∀ ks : List T, flatL ks = ks.flatMap flat
  | [] => by simp [flatL]
  | t :: ts => by simp [flatL, flatL_eq_flatMap ts]

theorem modL_eq_map (p : NodeId) (g : List T → List T) : ∀ ks : List T, modL p g ks = ks.map (modT p g)
  | [] => by simp [modL]
  | t :: ts => by simp [modL, modL_eq_map p g ts]

theorem setInfoL_eq_map (n : NodeId) (f : Info → Info) : ∀ ks : List T, setInfoL n f ks = ks.map (setInfoT n f)
  | [] => by simp [setInfoL]
  | t :: ts => by simp [setInfoL, setInfoL_eq_map n f ts]

theorem findL_eq_findSome (n : NodeId) : ∀ ks : List T, findL n ks = ks.findSome? (findT n)
  | [] => by simp [findL]
  | t :: ts => by
    rw [findL, List.findSome?_cons, findL_eq_findSome n ts]
    cases findT n t <;> rfl

theorem findParentL_eq_findSome (n : NodeId) : ∀ ks : List T, findParentL n ks = ks.findSome? (findParent n)
  | [] => by simp [findParentL]
  | t :: ts => by
    rw [findParentL, List.findSome?_cons, findParentL_eq_findSome n ts]
    cases findParent n t <;> rfl

/-! ## 2. `flat`, `infos`, ids -/

@[simp] theorem T.id_node (i : Info) (ks : List T) : (T.node i ks).id = i.id := rfl
@[simp] theorem T.did_node (i : Info) (ks : List T) : (T.node i ks).did = i.did := rfl

/-- the node records of a subtree in pre-order (self first). -/
def infos (t : T) : List Info := (flat t).map T.info
/-- the node records of a forest in pre-order. -/
def infosL (ks : List T) : List Info := (flatL ks).map T.info

theorem ids_eq_infos (t : T) : (flat t).map T.id = (infos t).map Info.id := by
  simp [infos, List.map_map, Function.comp_def]
theorem idsL_eq_infosL (ks : List T) : idsL ks = (infosL ks).map Info.id := by
  simp [idsL, infosL, List.map_map, Function.comp_def]

@[simp] theorem flatL_nil : flatL [] = [] := by simp [flatL]
@[simp] theorem flatL_cons (t : T) (ts : List T) : flatL (t :: ts) = flat t ++ flatL ts := by simp [flatL]
theorem flat_node (i : Info) (ks : List T) : flat (.node i ks) = .node i ks :: flatL ks := by simp [flat]

theorem flatL_append (a b : List T) : flatL (a ++ b) = flatL a ++ flatL b := by
  simp [flatL_eq_flatMap]

theorem flatL_singleton (t : T) : flatL [t] = flat t := by simp

@[simp] theorem infosL_nil : infosL [] = [] := by simp [infosL]
theorem infosL_cons (t : T) (ts : List T) : infosL (t :: ts) = infos t ++ infosL ts := by
  simp [infosL, infos]
theorem infosL_append (a b : List T) : infosL (a ++ b) = infosL a ++ infosL b := by
  simp [infosL, flatL_append]
theorem infos_node (i : Info) (ks : List T) : infos (.node i ks) = i :: infosL ks := by
  simp [infos, infosL, flat_node]
theorem infos_eq (t : T) : infos t = t.info :: infosL t.kids := by
  cases t; simp [infos_node]

@[simp] theorem idsL_nil : idsL [] = [] := by simp [idsL]
theorem idsL_cons (t : T) (ts : List T) : idsL (t :: ts) = (flat t).map T.id ++ idsL ts := by
  simp [idsL]
theorem idsL_append (a b : List T) : idsL (a ++ b) = idsL a ++ idsL b := by
  simp [idsL, flatL_append]
theorem ids_eq (t : T) : (flat t).map T.id = t.id :: idsL t.kids := by
  rw [flat_eq]; simp [idsL]

theorem mem_idsL {n : NodeId} {ks : List T} : n ∈ idsL ks ↔ ∃ x ∈ flatL ks, x.id = n := by
  simp [idsL]

theorem mem_ids {n : NodeId} {t : T} : n ∈ (flat t).map T.id ↔ ∃ x ∈ flat t, x.id = n := by
  simp

/-- a permutation of a forest permutes its pre-order. -/
theorem flatL_perm {a b : List T} (h : a.Perm b) : (flatL a).Perm (flatL b) := by
  rw [flatL_eq_flatMap, flatL_eq_flatMap]; exact h.flatMap_right _

theorem flatL_sublist {a b : List T} (h : a.Sublist b) : (flatL a).Sublist (flatL b) := by
  induction h with
  | slnil => simp
  | cons t _ ih => rw [flatL_cons]; exact ih.trans (List.sublist_append_right _ _)
  | cons_cons t _ ih => rw [flatL_cons, flatL_cons]; exact List.Sublist.append (List.Sublist.refl _) ih

theorem mem_flat_of_mem_kids {c x : T} (h : c ∈ x.kids) : c ∈ flat x :=
  mem_flat_of_mem_flatL_kids (mem_flatL.2 ⟨c, h, self_mem_flat c⟩)

/-- membership in `flat` is transitive (descendant of a descendant). -/
theorem mem_flat_trans {x y : T} (hx : x ∈ flat y) : ∀ {z : T}, y ∈ flat z → x ∈ flat z := by
  intro z
  induction z using T.ind with
  | node i ks ih =>
    intro hy
    rw [flat_node, List.mem_cons] at hy
    rcases hy with rfl | hy
    · exact hx
    · obtain ⟨c, hc, hyc⟩ := mem_flatL.1 hy
      rw [flat_node]
      exact List.mem_cons_of_mem _ (mem_flatL.2 ⟨c, hc, ih c hc hyc⟩)

theorem mem_flat_of_mem_flatL_kids_of_mem {x y z : T} (hx : x ∈ flatL y.kids) (hy : y ∈ flat z) :
    x ∈ flat z := mem_flat_trans (mem_flat_of_mem_flatL_kids hx) hy

/-- every member of `flat t` sits at some path. Bridge to the path-based lemmas of `Lemmas/Rel*.lean`. -/
theorem exists_sub_of_mem_flat {x : T} : ∀ {t : T}, x ∈ flat t → ∃ p, t.sub p = some x := by
  intro t
  induction t using T.ind with
  | node i ks ih =>
    intro hx
    rw [flat_node, List.mem_cons] at hx
    rcases hx with rfl | hx
    · exact ⟨[], by simp⟩
    · obtain ⟨c, hc, hxc⟩ := mem_flatL.1 hx
      obtain ⟨p, hp⟩ := ih c hc hxc
      obtain ⟨k, hk⟩ := List.mem_iff_getElem?.1 hc
      exact ⟨k :: p, by rw [sub_cons]; simp [hk, hp]⟩

theorem mem_flat_iff_sub {x t : T} : x ∈ flat t ↔ ∃ p, t.sub p = some x :=
  ⟨exists_sub_of_mem_flat, fun ⟨_, h⟩ => mem_flat_of_sub h⟩

/-! ## 3. distinct identities, membership style -/

theorem idsNodup_of_mem {ks : List T} {c : T} (hN : IdsNodupL ks) (hc : c ∈ ks) : IdsNodup c := by
  obtain ⟨k, hk⟩ := List.mem_iff_getElem?.1 hc
  exact idsNodup_of_getElem? hN hk

theorem idsNodupL_kids {t : T} (hN : IdsNodup t) : IdsNodupL t.kids := ((idsNodup_iff t).1 hN).2

/-- every subtree of a tree with distinct identities has distinct identities. -/
theorem idsNodup_of_mem_flat {root x : T} (hN : IdsNodup root) (hx : x ∈ flat root) : IdsNodup x := by
  induction root using T.ind with
  | node i ks ih =>
    rw [flat_node, List.mem_cons] at hx
    rcases hx with rfl | hx
    · exact hN
    · obtain ⟨c, hc, hxc⟩ := mem_flatL.1 hx
      exact ih c hc (idsNodup_of_mem (idsNodupL_kids hN) hc) hxc

/-- with distinct identities the identity determines the node. -/
theorem eq_of_id_eq {root x y : T} (hN : IdsNodup root) (hx : x ∈ flat root) (hy : y ∈ flat root)
    (h : x.id = y.id) : x = y := by
  obtain ⟨p, hp⟩ := exists_sub_of_mem_flat hx
  obtain ⟨q, hq⟩ := exists_sub_of_mem_flat hy
  exact node_unique hN hp hq h

/-- a strict descendant has another identity than the node itself. -/
theorem id_ne_of_mem_flatL_kids {x y : T} (hN : IdsNodup x) (hy : y ∈ flatL x.kids) : y.id ≠ x.id :=
  ((idsNodup_iff x).1 hN).1 y hy

/-- the identity of a node does not occur among its strict descendants. -/
theorem id_not_mem_idsL_kids {x : T} (hN : IdsNodup x) : x.id ∉ idsL x.kids := by
  intro h
  obtain ⟨y, hy, hid⟩ := mem_idsL.1 h
  exact id_ne_of_mem_flatL_kids hN hy hid

/-- siblings' branches are disjoint. -/
theorem idsNodupL_disjoint {ks : List T} {c d x y : T} (hN : IdsNodupL ks) (hc : c ∈ ks) (hd : d ∈ ks)
    (hx : x ∈ flat c) (hy : y ∈ flat d) (hid : x.id = y.id) : c = d := by
  obtain ⟨i, hi⟩ := List.mem_iff_getElem?.1 hc
  obtain ⟨j, hj⟩ := List.mem_iff_getElem?.1 hd
  by_cases hij : i = j
  · subst hij; rw [hi] at hj; exact Option.some.inj hj
  · exact absurd hid (id_ne_of_ne_idx hN hi hj hij hx hy)

/-- children have pairwise distinct identities. -/
theorem kids_ids_nodup {x : T} (hN : IdsNodup x) : (x.kids.map T.id).Nodup := by
  have h : (idsL x.kids).Nodup := idsNodupL_kids hN
  refine List.Sublist.nodup ?_ h
  generalize x.kids = ks
  induction ks with
  | nil => simp
  | cons t ts ih =>
    rw [idsL_cons, ids_eq, List.map_cons]
    exact List.Sublist.cons_cons _ (ih.trans (List.sublist_append_right _ _))

/-! ## 4. `findT` -/

theorem findT_node (n : NodeId) (i : Info) (ks : List T) :
    findT n (.node i ks) = if i.id = n then some (.node i ks) else ks.findSome? (findT n) := by
  rw [findT, findL_eq_findSome]

theorem findT_eq (n : NodeId) (t : T) :
    findT n t = if t.id = n then some t else t.kids.findSome? (findT n) := by
  cases t; rw [findT_node]; rfl

/-- a found node is a member with the requested identity. -/
theorem findT_some {n : NodeId} {x : T} : ∀ {t : T}, findT n t = some x → x ∈ flat t ∧ x.id = n := by
  intro t
  induction t using T.ind with
  | node i ks ih =>
    intro h
    rw [findT_node] at h
    split at h
    · rename_i hid
      cases h
      exact ⟨self_mem_flat _, hid⟩
    · obtain ⟨c, hc, hcx⟩ := List.exists_of_findSome?_eq_some h
      obtain ⟨h1, h2⟩ := ih c hc hcx
      exact ⟨mem_flat_trans h1 (mem_flat_of_mem_kids hc), h2⟩

theorem findT_some_mem {n : NodeId} {x t : T} (h : findT n t = some x) : x ∈ flat t := (findT_some h).1
theorem findT_some_id {n : NodeId} {x t : T} (h : findT n t = some x) : x.id = n := (findT_some h).2

/-- `findT` fails exactly on the identities that do not occur. -/
theorem findT_eq_none {n : NodeId} : ∀ {t : T}, findT n t = none ↔ n ∉ (flat t).map T.id := by
  intro t
  induction t using T.ind with
  | node i ks ih =>
    rw [findT_node, ids_eq]
    by_cases hid : i.id = n
    · simp [hid]
    · rw [if_neg hid, List.findSome?_eq_none_iff]
      simp only [T.id_node, T.kids_node, List.mem_cons, not_or]
      constructor
      · intro h
        refine ⟨fun e => hid e.symm, ?_⟩
        intro hm
        obtain ⟨x, hx, hxn⟩ := mem_idsL.1 hm
        obtain ⟨c, hc, hxc⟩ := mem_flatL.1 hx
        exact (ih c hc).1 (h c hc) (mem_ids.2 ⟨x, hxc, hxn⟩)
      · rintro ⟨_, h⟩ c hc
        refine (ih c hc).2 ?_
        intro hm
        obtain ⟨x, hx, hxn⟩ := mem_ids.1 hm
        exact h (mem_idsL.2 ⟨x, mem_flatL.2 ⟨c, hc, hx⟩, hxn⟩)

theorem findT_isSome {n : NodeId} {t : T} : (findT n t).isSome ↔ n ∈ (flat t).map T.id := by
  cases h : findT n t with
  | none => simpa using findT_eq_none.1 h
  | some x =>
    obtain ⟨h1, h2⟩ := findT_some h
    simpa using ⟨x, h1, h2⟩

/-- an occurring identity is found. -/
theorem findT_of_mem_ids {n : NodeId} {t : T} (h : n ∈ (flat t).map T.id) : ∃ x, findT n t = some x := by
  cases hf : findT n t with
  | none => exact absurd h (findT_eq_none.1 hf)
  | some x => exact ⟨x, rfl⟩

/-- with distinct identities, `findT` returns the member itself. -/
theorem findT_of_mem {root x : T} (hN : IdsNodup root) (hx : x ∈ flat root) : findT x.id root = some x := by
  obtain ⟨y, hy⟩ := findT_of_mem_ids (mem_ids.2 ⟨x, hx, rfl⟩)
  obtain ⟨h1, h2⟩ := findT_some hy
  rw [hy, eq_of_id_eq hN h1 hx h2]

theorem findT_self (t : T) : findT t.id t = some t := by
  rw [findT_eq, if_pos rfl]

/-- with distinct identities: `findT n root = some x ↔ x ∈ flat root ∧ x.id = n`. -/
theorem findT_eq_some_iff {root x : T} {n : NodeId} (hN : IdsNodup root) :
    findT n root = some x ↔ x ∈ flat root ∧ x.id = n :=
  ⟨findT_some, fun ⟨h1, h2⟩ => h2 ▸ findT_of_mem hN h1⟩

/-- search below a found node agrees with the search from the root. -/
theorem findT_of_findT {root x y : T} {n m : NodeId} (hN : IdsNodup root) (hx : findT n root = some x)
    (hy : findT m x = some y) : findT m root = some y := by
  obtain ⟨h1, h2⟩ := findT_some hy
  exact (findT_eq_some_iff hN).2 ⟨mem_flat_trans h1 (findT_some_mem hx), h2⟩


/-! ## 5. `findParent`, membership style -/

theorem findParent_node (n : NodeId) (i : Info) (ks : List T) :
    findParent n (.node i ks) =
      if ks.any (fun k => k.id == n) then some (.node i ks) else ks.findSome? (findParent n) := by
  rw [findParent, findParentL_eq_findSome]

theorem any_id_eq {n : NodeId} {ks : List T} : ks.any (fun k => k.id == n) = true ↔ n ∈ ks.map T.id := by
  rw [List.any_eq_true, List.mem_map]
  constructor
  · rintro ⟨k, hk, h⟩; exact ⟨k, hk, by simpa using h⟩
  · rintro ⟨k, hk, h⟩; exact ⟨k, hk, by simpa using h⟩

/-- a found parent is a member and has a child with the requested identity. -/
theorem findParent_some_mem {n : NodeId} {x : T} :
    ∀ {t : T}, findParent n t = some x → x ∈ flat t ∧ ∃ c ∈ x.kids, c.id = n := by
  intro t
  induction t using T.ind with
  | node i ks ih =>
    intro h
    rw [findParent_node] at h
    split at h
    · rename_i hany
      cases h
      obtain ⟨k, hk, hid⟩ := List.any_eq_true.1 hany
      exact ⟨self_mem_flat _, k, hk, by simpa using hid⟩
    · obtain ⟨c, hc, hcx⟩ := List.exists_of_findSome?_eq_some h
      obtain ⟨h1, h2⟩ := ih c hc hcx
      exact ⟨mem_flat_trans h1 (mem_flat_of_mem_kids hc), h2⟩

/-- `findParent` fails exactly on the identities that are not strict descendants. -/
theorem findParent_eq_none {n : NodeId} : ∀ {t : T}, findParent n t = none ↔ n ∉ idsL t.kids := by
  intro t
  induction t using T.ind with
  | node i ks ih =>
    constructor
    · intro h hm
      rw [findParent_node] at h
      split at h
      · cases h
      · rename_i hany
        obtain ⟨x, hx, hxn⟩ := mem_idsL.1 hm
        obtain ⟨c, hc, hxc⟩ := mem_flatL.1 hx
        have hcn := (List.findSome?_eq_none_iff.1 h) c hc
        rw [flat_eq, List.mem_cons] at hxc
        rcases hxc with rfl | hxc
        · exact hany (List.any_eq_true.2 ⟨x, hc, by simpa using hxn⟩)
        · exact (ih c hc).1 hcn (mem_idsL.2 ⟨x, hxc, hxn⟩)
    · intro h
      cases hf : findParent n (.node i ks) with
      | none => rfl
      | some x =>
        obtain ⟨k, hk, hid⟩ := findParent_some _ hf
        exact absurd (mem_idsL.2 ⟨k, hk, hid⟩) h

/-- every strict descendant has a parent. -/
theorem findParent_of_mem_idsL {n : NodeId} {t : T} (h : n ∈ idsL t.kids) : ∃ x, findParent n t = some x := by
  cases hf : findParent n t with
  | none => exact absurd h (findParent_eq_none.1 hf)
  | some x => exact ⟨x, rfl⟩

/-- with distinct identities, the parent of a child of `x` is `x`. -/
theorem findParent_of_mem_kids {root x c : T} (hN : IdsNodup root) (hx : x ∈ flat root) (hc : c ∈ x.kids) :
    findParent c.id root = some x := by
  obtain ⟨p, hp⟩ := exists_sub_of_mem_flat hx
  obtain ⟨k, hk⟩ := List.mem_iff_getElem?.1 hc
  exact findParent_snoc hN hp hk

/-- with distinct identities: `findParent n root = some x ↔ x ∈ flat root ∧ n` is the identity of a child of `x`. -/
theorem findParent_eq_some_iff {root x : T} {n : NodeId} (hN : IdsNodup root) :
    findParent n root = some x ↔ x ∈ flat root ∧ ∃ c ∈ x.kids, c.id = n :=
  ⟨findParent_some_mem, fun ⟨h1, _, hc, hid⟩ => hid ▸ findParent_of_mem_kids hN h1 hc⟩

/-- an existing node other than the root has a parent. -/
theorem findParent_of_findT {root x : T} {n : NodeId} (hx : findT n root = some x) (hn : n ≠ root.id) :
    ∃ p, findParent n root = some p := by
  refine findParent_of_mem_idsL ?_
  have := findT_isSome.1 (by rw [hx]; rfl : (findT n root).isSome)
  rw [ids_eq, List.mem_cons] at this
  exact this.resolve_left hn


/-! ## 6. `modT` — apply `g` to the child list of node `p` -/

theorem modT_node (p : NodeId) (g : List T → List T) (i : Info) (ks : List T) :
    modT p g (.node i ks) = if i.id = p then .node i (g ks) else .node i (ks.map (modT p g)) := by
  rw [modT, modL_eq_map]

/-- `modT` never touches a node record. -/
@[simp] theorem modT_info (p : NodeId) (g : List T → List T) (t : T) : (modT p g t).info = t.info := by
  cases t; rw [modT_node]; split <;> rfl

@[simp] theorem modT_id (p : NodeId) (g : List T → List T) (t : T) : (modT p g t).id = t.id := by
  show (modT p g t).info.id = t.info.id; rw [modT_info]

@[simp] theorem modT_did (p : NodeId) (g : List T → List T) (t : T) : (modT p g t).did = t.did := by
  show (modT p g t).info.did = t.info.did; rw [modT_info]

theorem modT_kids (p : NodeId) (g : List T → List T) (t : T) :
    (modT p g t).kids = if t.id = p then g t.kids else t.kids.map (modT p g) := by
  cases t; rw [modT_node]; split <;> simp [*]

/-- at the edited node itself. -/
theorem modT_of_id_eq {p : NodeId} {g : List T → List T} {t : T} (h : t.id = p) :
    modT p g t = .node t.info (g t.kids) := by
  cases t; rw [modT_node, if_pos (by simpa using h)]; rfl

theorem modT_of_id_ne {p : NodeId} {g : List T → List T} {t : T} (h : t.id ≠ p) :
    modT p g t = .node t.info (t.kids.map (modT p g)) := by
  cases t; rw [modT_node, if_neg (by simpa using h)]; rfl

/-- the records of a child list are untouched (whatever happens below). -/
theorem map_info_map_modT (p : NodeId) (g : List T → List T) (ks : List T) :
    (ks.map (modT p g)).map T.info = ks.map T.info := by
  simp [List.map_map, Function.comp_def]

theorem map_id_map_modT (p : NodeId) (g : List T → List T) (ks : List T) :
    (ks.map (modT p g)).map T.id = ks.map T.id := by
  simp [List.map_map, Function.comp_def]

theorem map_did_map_modT (p : NodeId) (g : List T → List T) (ks : List T) :
    (ks.map (modT p g)).map T.did = ks.map T.did := by
  simp [List.map_map, Function.comp_def]

/-- the child identities / data ids of a node that is not the edited one are unchanged. -/
theorem modT_kids_map_info {p : NodeId} {g : List T → List T} {t : T} (h : t.id ≠ p) :
    (modT p g t).kids.map T.info = t.kids.map T.info := by
  rw [modT_kids, if_neg h, map_info_map_modT]

theorem modT_kids_map_did {p : NodeId} {g : List T → List T} {t : T} (h : t.id ≠ p) :
    (modT p g t).kids.map T.did = t.kids.map T.did := by
  rw [modT_kids, if_neg h, map_did_map_modT]

theorem modT_kids_map_id {p : NodeId} {g : List T → List T} {t : T} (h : t.id ≠ p) :
    (modT p g t).kids.map T.id = t.kids.map T.id := by
  rw [modT_kids, if_neg h, map_id_map_modT]

/-- `modT` is the identity on a tree that does not contain `p`. -/
theorem modT_of_not_mem {p : NodeId} {g : List T → List T} :
    ∀ {t : T}, p ∉ (flat t).map T.id → modT p g t = t := by
  intro t
  induction t using T.ind with
  | node i ks ih =>
    intro h
    rw [ids_eq, List.mem_cons, not_or] at h
    rw [modT_node, if_neg (fun e => h.1 e.symm)]
    congr 1
    refine (List.map_congr_left ?_).trans (List.map_id' ks)
    intro c hc
    refine ih c hc ?_
    intro hm
    obtain ⟨x, hx, hxn⟩ := mem_ids.1 hm
    exact h.2 (mem_idsL.2 ⟨x, mem_flatL.2 ⟨c, hc, hx⟩, hxn⟩)

theorem map_modT_of_not_mem {p : NodeId} {g : List T → List T} {ks : List T} (h : p ∉ idsL ks) :
    ks.map (modT p g) = ks := by
  refine (List.map_congr_left ?_).trans (List.map_id' ks)
  intro c hc
  refine modT_of_not_mem ?_
  intro hm
  obtain ⟨x, hx, hxn⟩ := mem_ids.1 hm
  exact h (mem_idsL.2 ⟨x, mem_flatL.2 ⟨c, hc, hx⟩, hxn⟩)

theorem modT_of_findT_none {p : NodeId} {g : List T → List T} {t : T} (h : findT p t = none) :
    modT p g t = t := modT_of_not_mem (findT_eq_none.1 h)

/-! ### the multiset lemma -/

private theorem map_modT_infos_perm {p : NodeId} {g : List T → List T} {x : T} :
    ∀ (ks : List T),
      (∀ c ∈ ks, IdsNodup c → findT p c = some x →
        (infos (modT p g c) ++ infosL x.kids).Perm (infos c ++ infosL (g x.kids))) →
      IdsNodupL ks → ks.findSome? (findT p) = some x →
      (infosL (ks.map (modT p g)) ++ infosL x.kids).Perm (infosL ks ++ infosL (g x.kids))
  | [], _, _, h => by simp at h
  | t :: ts, ih, hN, h => by
    obtain ⟨hNt, hNts, hdis⟩ := (idsNodupL_cons t ts).1 hN
    rw [List.findSome?_cons] at h
    rw [List.map_cons, infosL_cons, infosL_cons]
    cases ht : findT p t with
    | some r =>
      rw [ht] at h
      have hrx : r = x := Option.some.inj h
      subst hrx
      have h1 := ih t (by simp) hNt ht
      have hp : p ∉ idsL ts := by
        intro hm
        obtain ⟨y, hy, hyp⟩ := mem_idsL.1 hm
        obtain ⟨hr1, hr2⟩ := findT_some ht
        exact hdis r hr1 y hy (hr2.trans hyp.symm)
      rw [map_modT_of_not_mem hp]
      rw [List.perm_iff_count] at h1 ⊢
      intro a
      have := h1 a
      simp only [List.count_append] at this ⊢
      omega
    | none =>
      rw [ht] at h
      rw [modT_of_findT_none ht, List.append_assoc, List.append_assoc]
      exact (map_modT_infos_perm ts (fun c hc => ih c (List.mem_cons_of_mem _ hc)) hNts h).append_left _

/-- **The multiset lemma for `modT`.**  With distinct identities and `x` the node `p`:
the records of the new tree together with those of the old child branches of `p` are the records of
the old tree together with those of the new child branches.  Covers insertion, removal, permutation
and splicing of whole subtrees. -/
theorem modT_infos_perm {p : NodeId} {g : List T → List T} {x : T} :
    ∀ {root : T}, IdsNodup root → findT p root = some x →
      (infos (modT p g root) ++ infosL x.kids).Perm (infos root ++ infosL (g x.kids)) := by
  intro root
  induction root using T.ind with
  | node i ks ih =>
    intro hN hx
    rw [findT_node] at hx
    rw [modT_node]
    by_cases hid : i.id = p
    · rw [if_pos hid] at hx ⊢
      cases hx
      rw [infos_node, infos_node, T.kids_node, List.cons_append, List.cons_append]
      exact List.Perm.cons _ List.perm_append_comm
    · rw [if_neg hid] at hx ⊢
      rw [infos_node, infos_node, List.cons_append, List.cons_append]
      exact List.Perm.cons _ (map_modT_infos_perm ks ih (idsNodupL_kids hN) hx)

/-- the multiset lemma for the forest below the root (the root's own record is untouched). -/
theorem modT_kids_infos_perm {p : NodeId} {g : List T → List T} {x root : T} (hN : IdsNodup root)
    (hx : findT p root = some x) :
    (infosL (modT p g root).kids ++ infosL x.kids).Perm (infosL root.kids ++ infosL (g x.kids)) := by
  have h := modT_infos_perm (g := g) hN hx
  rw [infos_eq, infos_eq root, modT_info, List.cons_append, List.cons_append] at h
  exact h.cons_inv

/-- the multiset lemma, general form: if the edit of the child list turns `X ++ old` into
`new ++ Y` (as multisets of records) then the whole tree changes in the same way. -/
theorem modT_infos_perm_of {p : NodeId} {g : List T → List T} {x root : T} (hN : IdsNodup root)
    (hx : findT p root = some x) {X Y : List Info}
    (h : (infosL (g x.kids) ++ Y).Perm (X ++ infosL x.kids)) :
    (infos (modT p g root) ++ Y).Perm (X ++ infos root) := by
  have h1 := modT_infos_perm (g := g) hN hx
  rw [List.perm_iff_count] at h h1 ⊢
  intro a
  have := h a; have := h1 a
  simp only [List.count_append] at *
  omega

theorem modT_kids_infos_perm_of {p : NodeId} {g : List T → List T} {x root : T} (hN : IdsNodup root)
    (hx : findT p root = some x) {X Y : List Info}
    (h : (infosL (g x.kids) ++ Y).Perm (X ++ infosL x.kids)) :
    (infosL (modT p g root).kids ++ Y).Perm (X ++ infosL root.kids) := by
  have h1 := modT_kids_infos_perm (g := g) hN hx
  rw [List.perm_iff_count] at h h1 ⊢
  intro a
  have := h a; have := h1 a
  simp only [List.count_append] at *
  omega

/-- the multiset lemma for node identities. -/
theorem modT_ids_perm {p : NodeId} {g : List T → List T} {x root : T} (hN : IdsNodup root)
    (hx : findT p root = some x) :
    ((flat (modT p g root)).map T.id ++ idsL x.kids).Perm ((flat root).map T.id ++ idsL (g x.kids)) := by
  have h := (modT_infos_perm (g := g) hN hx).map Info.id
  rwa [List.map_append, List.map_append, ← ids_eq_infos, ← ids_eq_infos, ← idsL_eq_infosL,
    ← idsL_eq_infosL] at h

theorem modT_kids_ids_perm {p : NodeId} {g : List T → List T} {x root : T} (hN : IdsNodup root)
    (hx : findT p root = some x) :
    (idsL (modT p g root).kids ++ idsL x.kids).Perm (idsL root.kids ++ idsL (g x.kids)) := by
  have h := (modT_kids_infos_perm (g := g) hN hx).map Info.id
  rwa [List.map_append, List.map_append, ← idsL_eq_infosL, ← idsL_eq_infosL, ← idsL_eq_infosL,
    ← idsL_eq_infosL] at h

/-- the multiset lemma for node identities, general form:
if `idsL (g ks) ++ Y ~ X ++ idsL ks` then `ids (modT …) ++ Y ~ X ++ ids root`. -/
theorem modT_ids_perm_of {p : NodeId} {g : List T → List T} {x root : T} (hN : IdsNodup root)
    (hx : findT p root = some x) {X Y : List NodeId}
    (h : (idsL (g x.kids) ++ Y).Perm (X ++ idsL x.kids)) :
    ((flat (modT p g root)).map T.id ++ Y).Perm (X ++ (flat root).map T.id) := by
  have h1 := modT_ids_perm (g := g) hN hx
  rw [List.perm_iff_count] at h h1 ⊢
  intro a
  have := h a; have := h1 a
  simp only [List.count_append] at *
  omega

theorem modT_kids_ids_perm_of {p : NodeId} {g : List T → List T} {x root : T} (hN : IdsNodup root)
    (hx : findT p root = some x) {X Y : List NodeId}
    (h : (idsL (g x.kids) ++ Y).Perm (X ++ idsL x.kids)) :
    (idsL (modT p g root).kids ++ Y).Perm (X ++ idsL root.kids) := by
  have h1 := modT_kids_ids_perm (g := g) hN hx
  rw [List.perm_iff_count] at h h1 ⊢
  intro a
  have := h a; have := h1 a
  simp only [List.count_append] at *
  omega


/-- the strict descendants of a member are members. -/
theorem idsL_kids_subset {root x : T} (hx : x ∈ flat root) {a : NodeId} (ha : a ∈ idsL x.kids) :
    a ∈ (flat root).map T.id := by
  obtain ⟨y, hy, hya⟩ := mem_idsL.1 ha
  exact mem_ids.2 ⟨y, mem_flat_of_mem_flatL_kids_of_mem hy hx, hya⟩

/-- the multiset lemma in "filter" form: the new identities are the old ones without those of the
old child branches of `p`, plus those of the new child branches. -/
theorem modT_ids_perm_filter {p : NodeId} {g : List T → List T} {x root : T} (hN : IdsNodup root)
    (hx : findT p root = some x) :
    ((flat (modT p g root)).map T.id).Perm
      (((flat root).map T.id).filter (fun a => decide (a ∉ idsL x.kids)) ++ idsL (g x.kids)) := by
  have h1 := modT_ids_perm (g := g) hN hx
  have hxm := findT_some_mem hx
  have hK : (idsL x.kids).Nodup := idsNodupL_kids (idsNodup_of_mem_flat hN hxm)
  rw [List.perm_iff_count] at h1 ⊢
  intro a
  have h := h1 a
  simp only [List.count_append] at h ⊢
  by_cases ha : a ∈ idsL x.kids
  · have c1 : List.count a (idsL x.kids) = 1 := by rw [hK.count, if_pos ha]
    have c2 : List.count a ((flat root).map T.id) = 1 := by
      rw [List.Nodup.count hN, if_pos (idsL_kids_subset hxm ha)]
    have c3 : List.count a (((flat root).map T.id).filter (fun a => decide (a ∉ idsL x.kids))) = 0 := by
      rw [List.count_eq_zero, List.mem_filter]; simp [ha]
    omega
  · have c1 : List.count a (idsL x.kids) = 0 := List.count_eq_zero.2 ha
    have c3 : List.count a (((flat root).map T.id).filter (fun a => decide (a ∉ idsL x.kids)))
        = List.count a ((flat root).map T.id) := List.count_filter (by simpa using ha)
    omega

/-- `modT` keeps identities distinct if the new child branches have distinct identities which are
either recycled from the old child branches of `p` or new to the tree. -/
theorem modT_idsNodup {p : NodeId} {g : List T → List T} {x root : T} (hN : IdsNodup root)
    (hx : findT p root = some x) (hG : (idsL (g x.kids)).Nodup)
    (hnew : ∀ a ∈ idsL (g x.kids), a ∈ idsL x.kids ∨ a ∉ (flat root).map T.id) :
    IdsNodup (modT p g root) := by
  unfold IdsNodup
  rw [(modT_ids_perm_filter (g := g) hN hx).nodup_iff, List.nodup_append]
  refine ⟨List.Pairwise.filter _ hN, hG, ?_⟩
  intro a ha b hb hab
  subst hab
  rw [List.mem_filter] at ha
  rcases hnew a hb with h | h
  · simp [h] at ha
  · exact h ha.1

/-! ### members of the edited tree -/

/-- a node of the edited tree is the image of an old node or lies in a new child branch of `p`. -/
theorem mem_flat_modT {p : NodeId} {g : List T → List T} {y : T} :
    ∀ {root : T}, y ∈ flat (modT p g root) →
      (∃ x ∈ flat root, y = modT p g x) ∨ (∃ q ∈ flat root, q.id = p ∧ y ∈ flatL (g q.kids)) := by
  intro root
  induction root using T.ind with
  | node i ks ih =>
    intro hy
    rw [modT_node] at hy
    by_cases hid : i.id = p
    · rw [if_pos hid, flat_node, List.mem_cons] at hy
      rcases hy with rfl | hy
      · exact Or.inl ⟨_, self_mem_flat _, by rw [modT_node, if_pos hid]⟩
      · exact Or.inr ⟨_, self_mem_flat _, hid, hy⟩
    · rw [if_neg hid, flat_node, List.mem_cons] at hy
      rcases hy with rfl | hy
      · exact Or.inl ⟨_, self_mem_flat _, by rw [modT_node, if_neg hid]⟩
      · obtain ⟨c', hc', hyc⟩ := mem_flatL.1 hy
        obtain ⟨c, hc, rfl⟩ := List.mem_map.1 hc'
        have hcm : c ∈ flat (T.node i ks) := mem_flat_of_mem_kids hc
        rcases ih c hc hyc with ⟨x, hx, rfl⟩ | ⟨q, hq, hqp, hyq⟩
        · exact Or.inl ⟨x, mem_flat_trans hx hcm, rfl⟩
        · exact Or.inr ⟨q, mem_flat_trans hq hcm, hqp, hyq⟩

/-- with distinct identities: a node of the edited tree is the image of an old node or lies in a
new child branch of the node `x` with identity `p`. -/
theorem mem_flat_modT_of {p : NodeId} {g : List T → List T} {x y root : T} (hN : IdsNodup root)
    (hx : findT p root = some x) (hy : y ∈ flat (modT p g root)) :
    (∃ z ∈ flat root, y = modT p g z) ∨ y ∈ flatL (g x.kids) := by
  rcases mem_flat_modT hy with h | ⟨q, hq, hqp, hyq⟩
  · exact Or.inl h
  · have : q = x := eq_of_id_eq hN hq (findT_some_mem hx) (hqp.trans (findT_some_id hx).symm)
    subst this; exact Or.inr hyq

/-- frame: the image of an old node that is not below a node `p` is a node of the edited tree. -/
theorem modT_mem_flat {p : NodeId} {g : List T → List T} {x : T} :
    ∀ {root : T}, x ∈ flat root → (∀ q ∈ flat root, q.id = p → x ∉ flatL q.kids) →
      modT p g x ∈ flat (modT p g root) := by
  intro root
  induction root using T.ind with
  | node i ks ih =>
    intro hx hq
    rw [flat_node, List.mem_cons] at hx
    rcases hx with rfl | hx
    · exact self_mem_flat _
    · have hid : i.id ≠ p := fun e => hq _ (self_mem_flat _) e hx
      obtain ⟨c, hc, hxc⟩ := mem_flatL.1 hx
      have hcm : c ∈ flat (T.node i ks) := mem_flat_of_mem_kids hc
      rw [modT_node, if_neg hid, flat_node]
      refine List.mem_cons_of_mem _ (mem_flatL.2 ⟨modT p g c, List.mem_map_of_mem hc, ?_⟩)
      exact ih c hc hxc (fun q hqc => hq q (mem_flat_trans hqc hcm))

/-- the new child branches are part of the edited tree. -/
theorem mem_flat_modT_new {p : NodeId} {g : List T → List T} {x y root : T}
    (hx : findT p root = some x) (hy : y ∈ flatL (g x.kids)) : y ∈ flat (modT p g root) := by
  -- the image of `x` is `node x.info (g x.kids)`, and it is found in the new tree
  induction root using T.ind with
  | node i ks ih =>
    rw [findT_node] at hx
    rw [modT_node]
    by_cases hid : i.id = p
    · rw [if_pos hid] at hx ⊢
      cases hx
      rw [flat_node]; exact List.mem_cons_of_mem _ hy
    · rw [if_neg hid] at hx ⊢
      obtain ⟨c, hc, hcx⟩ := List.exists_of_findSome?_eq_some hx
      rw [flat_node]
      exact List.mem_cons_of_mem _ (mem_flatL.2 ⟨modT p g c, List.mem_map_of_mem hc, ih c hc hcx⟩)

/-- no identity appears that was not there before or is not in a new child branch. -/
theorem mem_ids_modT {p : NodeId} {g : List T → List T} {root : T} {a : NodeId}
    (ha : a ∈ (flat (modT p g root)).map T.id) :
    a ∈ (flat root).map T.id ∨ ∃ q ∈ flat root, q.id = p ∧ a ∈ idsL (g q.kids) := by
  obtain ⟨y, hy, hya⟩ := mem_ids.1 ha
  rcases mem_flat_modT hy with ⟨x, hx, rfl⟩ | ⟨q, hq, hqp, hyq⟩
  · exact Or.inl (mem_ids.2 ⟨x, hx, by simpa using hya⟩)
  · exact Or.inr ⟨q, hq, hqp, mem_idsL.2 ⟨y, hyq, hya⟩⟩

/-- if `g` only removes/permutes nodes, no identity is created (no distinctness needed). -/
theorem ids_modT_subset {p : NodeId} {g : List T → List T} {root : T}
    (hg : ∀ ks a, a ∈ idsL (g ks) → a ∈ idsL ks) {a : NodeId}
    (ha : a ∈ (flat (modT p g root)).map T.id) : a ∈ (flat root).map T.id := by
  rcases mem_ids_modT ha with h | ⟨q, hq, _, haq⟩
  · exact h
  · exact idsL_kids_subset hq (hg _ _ haq)

/-! ### searching in the edited tree -/

theorem findSome?_eq_none_of_not_mem {c : NodeId} {ks : List T} (h : c ∉ idsL ks) :
    ks.findSome? (findT c) = none := by
  rw [List.findSome?_eq_none_iff]
  intro k hk
  refine findT_eq_none.2 ?_
  intro hm
  obtain ⟨x, hx, hxn⟩ := mem_ids.1 hm
  exact h (mem_idsL.2 ⟨x, mem_flatL.2 ⟨k, hk, hx⟩, hxn⟩)

theorem findSome?_map_comm {α α' β β' : Type} (F : α → α') (f' : α' → Option β') (f : α → Option β)
    (m : β → β') : ∀ (l : List α), (∀ a ∈ l, f' (F a) = (f a).map m) →
      (l.map F).findSome? f' = (l.findSome? f).map m
  | [], _ => rfl
  | a :: l, h => by
    rw [List.map_cons, List.findSome?_cons, List.findSome?_cons, h a (by simp),
      findSome?_map_comm F f' f m l (fun b hb => h b (List.mem_cons_of_mem _ hb))]
    cases f a <;> rfl

/-- `findT` commutes with `modT` for every identity that is neither in the old nor in the new child
branches of (any node with identity) `p`. -/
theorem findT_modT {c p : NodeId} {g : List T → List T} :
    ∀ {root : T}, (∀ q ∈ flat root, q.id = p → q.id ≠ c → c ∉ idsL q.kids ∧ c ∉ idsL (g q.kids)) →
      findT c (modT p g root) = (findT c root).map (modT p g) := by
  intro root
  induction root using T.ind with
  | node i ks ih =>
    intro h
    by_cases hid : i.id = p
    · rw [modT_node, if_pos hid, findT_node, findT_node]
      by_cases hc : i.id = c
      · rw [if_pos hc, if_pos hc, Option.map_some, modT_node, if_pos hid]
      · rw [if_neg hc, if_neg hc]
        obtain ⟨h1, h2⟩ := h _ (self_mem_flat _) hid hc
        rw [T.kids_node] at h1 h2
        rw [findSome?_eq_none_of_not_mem h1, findSome?_eq_none_of_not_mem h2]; rfl
    · rw [modT_node, if_neg hid, findT_node, findT_node]
      by_cases hc : i.id = c
      · rw [if_pos hc, if_pos hc, Option.map_some, modT_node, if_neg hid]
      · rw [if_neg hc, if_neg hc]
        refine findSome?_map_comm _ _ _ _ ks (fun k hk => ih k hk ?_)
        exact fun q hq => h q (mem_flat_trans hq (mem_flat_of_mem_kids hk))

/-- the edited node itself is always found as the image of the old one. -/
theorem findT_modT_self {p : NodeId} {g : List T → List T} {root : T} :
    findT p (modT p g root) = (findT p root).map (modT p g) :=
  findT_modT (fun _ _ h h' => absurd h h')

/-- … and it is `node x.info (g x.kids)`. -/
theorem findT_modT_self_of {p : NodeId} {g : List T → List T} {root x : T} (hx : findT p root = some x) :
    findT p (modT p g root) = some (.node x.info (g x.kids)) := by
  rw [findT_modT_self, hx, Option.map_some, modT_of_id_eq (findT_some_id hx)]

/-- with distinct identities: `findT` commutes with `modT` outside the old and new child branches. -/
theorem findT_modT_of {c p : NodeId} {g : List T → List T} {root x : T} (hN : IdsNodup root)
    (hx : findT p root = some x) (h1 : c ∉ idsL x.kids) (h2 : c ∉ idsL (g x.kids)) :
    findT c (modT p g root) = (findT c root).map (modT p g) := by
  refine findT_modT (fun q hq hqp _ => ?_)
  have : q = x := eq_of_id_eq hN hq (findT_some_mem hx) (hqp.trans (findT_some_id hx).symm)
  subst this; exact ⟨h1, h2⟩

theorem findParentSome?_eq_none_of_not_mem {c : NodeId} {ks : List T} (h : c ∉ idsL ks) :
    ks.findSome? (findParent c) = none := by
  rw [List.findSome?_eq_none_iff]
  intro k hk
  refine findParent_eq_none.2 ?_
  intro hm
  obtain ⟨x, hx, hxn⟩ := mem_idsL.1 hm
  exact h (mem_idsL.2 ⟨x, mem_flatL.2 ⟨k, hk, mem_flat_of_mem_flatL_kids hx⟩, hxn⟩)

theorem kids_ids_subset_idsL {ks : List T} {a : NodeId} (h : a ∈ ks.map T.id) : a ∈ idsL ks := by
  obtain ⟨k, hk, hka⟩ := List.mem_map.1 h
  exact mem_idsL.2 ⟨k, mem_flatL.2 ⟨k, hk, self_mem_flat k⟩, hka⟩

/-- `findParent` commutes with `modT` for every identity that is neither in the old nor in the new
child branches of (any node with identity) `p`. -/
theorem findParent_modT {c p : NodeId} {g : List T → List T} :
    ∀ {root : T}, (∀ q ∈ flat root, q.id = p → c ∉ idsL q.kids ∧ c ∉ idsL (g q.kids)) →
      findParent c (modT p g root) = (findParent c root).map (modT p g) := by
  intro root
  induction root using T.ind with
  | node i ks ih =>
    intro h
    by_cases hid : i.id = p
    · obtain ⟨h1, h2⟩ := h _ (self_mem_flat _) hid
      have e1 : findParent c (T.node i ks) = none := findParent_eq_none.2 h1
      have e2 : findParent c (T.node i (g ks)) = none := findParent_eq_none.2 h2
      rw [modT_node, if_pos hid, e1, e2]; rfl
    · rw [modT_node, if_neg hid, findParent_node, findParent_node]
      have hany : (ks.map (modT p g)).any (fun k => k.id == c) = ks.any (fun k => k.id == c) := by
        rw [List.any_map]; congr 1; funext k; simp
      rw [hany]
      split
      · rw [Option.map_some, modT_node, if_neg hid]
      · refine findSome?_map_comm _ _ _ _ ks (fun k hk => ih k hk ?_)
        exact fun q hq => h q (mem_flat_trans hq (mem_flat_of_mem_kids hk))

/-- with distinct identities: `findParent` commutes with `modT` outside the old and new child branches. -/
theorem findParent_modT_of {c p : NodeId} {g : List T → List T} {root x : T} (hN : IdsNodup root)
    (hx : findT p root = some x) (h1 : c ∉ idsL x.kids) (h2 : c ∉ idsL (g x.kids)) :
    findParent c (modT p g root) = (findParent c root).map (modT p g) := by
  refine findParent_modT (fun q hq hqp => ?_)
  have : q = x := eq_of_id_eq hN hq (findT_some_mem hx) (hqp.trans (findT_some_id hx).symm)
  subst this; exact ⟨h1, h2⟩


/-! ## 7. `setInfoT` — apply `f` to the record of node `n` -/

theorem setInfoT_node (n : NodeId) (f : Info → Info) (i : Info) (ks : List T) :
    setInfoT n f (.node i ks) = if i.id = n then .node (f i) ks else .node i (ks.map (setInfoT n f)) := by
  rw [setInfoT, setInfoL_eq_map]

/-- only node `n`'s record changes. -/
theorem setInfoT_info (n : NodeId) (f : Info → Info) (t : T) :
    (setInfoT n f t).info = if t.id = n then f t.info else t.info := by
  cases t; rw [setInfoT_node]; simp only [T.id_node]; split <;> simp [*]

theorem setInfoT_kids (n : NodeId) (f : Info → Info) (t : T) :
    (setInfoT n f t).kids = if t.id = n then t.kids else t.kids.map (setInfoT n f) := by
  cases t; rw [setInfoT_node]; simp only [T.id_node]; split <;> simp [*]

/-- the number of children never changes (shape). -/
theorem setInfoT_kids_length (n : NodeId) (f : Info → Info) (t : T) :
    (setInfoT n f t).kids.length = t.kids.length := by
  rw [setInfoT_kids]; split <;> simp

theorem setInfoT_id {n : NodeId} {f : Info → Info} (hf : ∀ i, (f i).id = i.id) (t : T) :
    (setInfoT n f t).id = t.id := by
  show (setInfoT n f t).info.id = t.info.id
  rw [setInfoT_info]; split
  · exact hf _
  · rfl

/-- `setInfoT` is the identity on a tree that does not contain `n`. -/
theorem setInfoT_of_not_mem {n : NodeId} {f : Info → Info} :
    ∀ {t : T}, n ∉ (flat t).map T.id → setInfoT n f t = t := by
  intro t
  induction t using T.ind with
  | node i ks ih =>
    intro h
    rw [ids_eq, List.mem_cons, not_or] at h
    rw [setInfoT_node, if_neg (fun e => h.1 e.symm)]
    congr 1
    refine (List.map_congr_left ?_).trans (List.map_id' ks)
    intro c hc
    refine ih c hc ?_
    intro hm
    obtain ⟨x, hx, hxn⟩ := mem_ids.1 hm
    exact h.2 (mem_idsL.2 ⟨x, mem_flatL.2 ⟨c, hc, hx⟩, hxn⟩)

theorem map_setInfoT_of_not_mem {n : NodeId} {f : Info → Info} {ks : List T} (h : n ∉ idsL ks) :
    ks.map (setInfoT n f) = ks := by
  refine (List.map_congr_left ?_).trans (List.map_id' ks)
  intro c hc
  refine setInfoT_of_not_mem ?_
  intro hm
  obtain ⟨x, hx, hxn⟩ := mem_ids.1 hm
  exact h (mem_idsL.2 ⟨x, mem_flatL.2 ⟨c, hc, hx⟩, hxn⟩)

theorem flatL_map_congr {F : T → T} {ks : List T} (h : ∀ c ∈ ks, flat (F c) = (flat c).map F) :
    flatL (ks.map F) = (flatL ks).map F := by
  induction ks with
  | nil => simp
  | cons t ts ih =>
    rw [List.map_cons, flatL_cons, flatL_cons, List.map_append, h t (by simp),
      ih (fun c hc => h c (List.mem_cons_of_mem _ hc))]

/-- with distinct identities the pre-order of the new tree is the image of the old pre-order
(so the shape is the same and each node is replaced by its image). -/
theorem flat_setInfoT {n : NodeId} {f : Info → Info} :
    ∀ {t : T}, IdsNodup t → flat (setInfoT n f t) = (flat t).map (setInfoT n f) := by
  intro t
  induction t using T.ind with
  | node i ks ih =>
    intro hN
    rw [flat_node, List.map_cons]
    by_cases hid : i.id = n
    · have hn : n ∉ idsL ks := hid ▸ id_not_mem_idsL_kids hN
      rw [setInfoT_node, if_pos hid, flat_node]
      congr 1
      refine ((List.map_congr_left ?_).trans (List.map_id' _)).symm
      intro y hy
      refine setInfoT_of_not_mem ?_
      intro hm
      obtain ⟨z, hz, hzn⟩ := mem_ids.1 hm
      obtain ⟨c, hc, hyc⟩ := mem_flatL.1 hy
      exact hn (mem_idsL.2 ⟨z, mem_flatL.2 ⟨c, hc, mem_flat_trans hz hyc⟩, hzn⟩)
    · rw [setInfoT_node, if_neg hid, flat_node]
      congr 1
      exact flatL_map_congr (fun c hc => ih c hc (idsNodup_of_mem (idsNodupL_kids hN) hc))

/-- with distinct identities the records of the new tree are the old ones with `f` applied at `n`. -/
theorem infos_setInfoT {n : NodeId} {f : Info → Info} {t : T} (hN : IdsNodup t) :
    infos (setInfoT n f t) = (infos t).map (fun i => if i.id = n then f i else i) := by
  unfold infos
  rw [flat_setInfoT hN, List.map_map, List.map_map]
  refine List.map_congr_left (fun x _ => ?_)
  simp only [Function.comp_apply, setInfoT_info]

/-- identities are unchanged if `f` keeps `id`. -/
theorem ids_setInfoT {n : NodeId} {f : Info → Info} (hf : ∀ i, (f i).id = i.id) {t : T}
    (hN : IdsNodup t) : (flat (setInfoT n f t)).map T.id = (flat t).map T.id := by
  rw [flat_setInfoT hN, List.map_map]
  exact List.map_congr_left (fun x _ => setInfoT_id hf x)

theorem idsNodup_setInfoT {n : NodeId} {f : Info → Info} (hf : ∀ i, (f i).id = i.id) {t : T}
    (hN : IdsNodup t) : IdsNodup (setInfoT n f t) := by
  unfold IdsNodup; rw [ids_setInfoT hf hN]; exact hN

/-- members of the new tree are the images of the old members. -/
theorem mem_flat_setInfoT {n : NodeId} {f : Info → Info} {t y : T} (hN : IdsNodup t) :
    y ∈ flat (setInfoT n f t) ↔ ∃ x ∈ flat t, y = setInfoT n f x := by
  rw [flat_setInfoT hN, List.mem_map]
  exact ⟨fun ⟨x, h1, h2⟩ => ⟨x, h1, h2.symm⟩, fun ⟨x, h1, h2⟩ => ⟨x, h1, h2.symm⟩⟩

/-- `findT` commutes with `setInfoT` (distinct identities, `f` keeps `id`). -/
theorem findT_setInfoT {c n : NodeId} {f : Info → Info} (hf : ∀ i, (f i).id = i.id) {t : T}
    (hN : IdsNodup t) : findT c (setInfoT n f t) = (findT c t).map (setInfoT n f) := by
  cases h : findT c t with
  | none =>
    rw [Option.map_none, findT_eq_none, ids_setInfoT hf hN]
    exact findT_eq_none.1 h
  | some x =>
    obtain ⟨h1, h2⟩ := findT_some h
    rw [Option.map_some, findT_eq_some_iff (idsNodup_setInfoT hf hN)]
    exact ⟨(mem_flat_setInfoT hN).2 ⟨x, h1, rfl⟩, (setInfoT_id hf x).trans h2⟩

/-! ## 8. `pyInsert`, `eraseId`, `idxOf` -/

/-- `list.insert` puts `x` somewhere. -/
theorem pyInsert_eq {α} (i : Int) (x : α) (l : List α) : ∃ k, pyInsert i x l = l.take k ++ x :: l.drop k :=
  ⟨_, rfl⟩

theorem pyInsert_perm {α} (i : Int) (x : α) (l : List α) : (pyInsert i x l).Perm (x :: l) :=
  take_cons_drop_perm _ x l

theorem mem_pyInsert {α} (i : Int) (x y : α) (l : List α) : y ∈ pyInsert i x l ↔ y = x ∨ y ∈ l := by
  rw [(pyInsert_perm i x l).mem_iff, List.mem_cons]

theorem mem_eraseId {b : NodeId} {l : List T} {y : T} : y ∈ eraseId b l ↔ y ∈ l ∧ y.id ≠ b := by
  simp [eraseId]

theorem eraseId_sublist (b : NodeId) (l : List T) : (eraseId b l).Sublist l := List.filter_sublist

theorem eraseId_of_not_mem {b : NodeId} {l : List T} (h : b ∉ l.map T.id) : eraseId b l = l := by
  refine List.filter_eq_self.2 (fun y hy => ?_)
  have : y.id ≠ b := fun e => h (List.mem_map.2 ⟨y, hy, e⟩)
  simpa using this

@[simp] theorem eraseId_nil (b : NodeId) : eraseId b [] = [] := rfl

theorem eraseId_cons (b : NodeId) (t : T) (ts : List T) :
    eraseId b (t :: ts) = if t.id = b then eraseId b ts else t :: eraseId b ts := by
  unfold eraseId
  rw [List.filter_cons]
  by_cases h : t.id = b <;> simp [h]

/-- with distinct child identities exactly the child with identity `b` is removed. -/
theorem eraseId_perm {b : NodeId} {c : T} : ∀ {l : List T}, (l.map T.id).Nodup → c ∈ l → c.id = b →
    l.Perm (c :: eraseId b l)
  | [], _, h, _ => by simp at h
  | t :: ts, hN, hc, hb => by
    rw [List.map_cons, List.nodup_cons] at hN
    rw [eraseId_cons]
    by_cases ht : t.id = b
    · rw [if_pos ht]
      have htc : c = t := by
        rcases List.mem_cons.1 hc with h | h
        · exact h
        · exact absurd (List.mem_map.2 ⟨c, h, hb.trans ht.symm⟩) hN.1
      subst htc
      rw [eraseId_of_not_mem (ht ▸ hN.1)]
    · rw [if_neg ht]
      have hc' : c ∈ ts := by
        rcases List.mem_cons.1 hc with h | h
        · exact absurd (h ▸ hb) ht
        · exact h
      exact ((eraseId_perm hN.2 hc' hb).cons t).trans (List.Perm.swap c t _)

theorem idxOf_cons (b : NodeId) (t : T) (ts : List T) :
    idxOf b (t :: ts) = if t.id = b then 0 else idxOf b ts + 1 := by
  unfold idxOf
  rw [List.findIdx_cons]
  by_cases h : t.id = b
  · simp [h]
  · have : (t.id == b) = false := by simpa using h
    simp [h, this]

theorem idxOf_lt {b : NodeId} {l : List T} (h : b ∈ l.map T.id) : idxOf b l < l.length := by
  obtain ⟨k, hk, hkb⟩ := List.mem_map.1 h
  exact List.findIdx_lt_length.2 ⟨k, hk, by simpa using hkb⟩

/-- the child at `idxOf b` has identity `b`. -/
theorem idxOf_getElem? {b : NodeId} : ∀ {l : List T}, b ∈ l.map T.id → ∃ c, l[idxOf b l]? = some c ∧ c.id = b
  | [], h => by simp at h
  | t :: ts, h => by
    rw [idxOf_cons]
    by_cases ht : t.id = b
    · rw [if_pos ht]; exact ⟨t, by simp, ht⟩
    · rw [if_neg ht]
      have : b ∈ ts.map T.id := by
        rw [List.map_cons, List.mem_cons] at h
        exact h.resolve_left (fun e => ht e.symm)
      obtain ⟨c, hc, hcb⟩ := idxOf_getElem? this
      exact ⟨c, by simpa using hc, hcb⟩

/-- with distinct child identities, erasing by identity is cutting out the position `idxOf b`. -/
theorem eraseId_eq_take_drop {b : NodeId} : ∀ {l : List T}, (l.map T.id).Nodup → b ∈ l.map T.id →
    eraseId b l = l.take (idxOf b l) ++ l.drop (idxOf b l + 1)
  | [], _, h => by simp at h
  | t :: ts, hN, h => by
    rw [List.map_cons, List.nodup_cons] at hN
    rw [eraseId_cons, idxOf_cons]
    by_cases ht : t.id = b
    · rw [if_pos ht, if_pos ht, eraseId_of_not_mem (ht ▸ hN.1)]; simp
    · rw [if_neg ht, if_neg ht]
      have : b ∈ ts.map T.id := by
        rw [List.map_cons, List.mem_cons] at h
        exact h.resolve_left (fun e => ht e.symm)
      rw [eraseId_eq_take_drop hN.2 this]; simp

/-- the pre-order of a forest after erasing a child is a sub-list. -/
theorem flatL_eraseId_sublist (b : NodeId) (l : List T) : (flatL (eraseId b l)).Sublist (flatL l) :=
  flatL_sublist (eraseId_sublist b l)

theorem idsL_eraseId_subset {b : NodeId} {l : List T} {a : NodeId} (h : a ∈ idsL (eraseId b l)) :
    a ∈ idsL l :=
  ((flatL_eraseId_sublist b l).map T.id).subset h

/-- records: the erased child's branch is what disappears. -/
theorem infosL_eraseId_perm {b : NodeId} {c : T} {l : List T} (hN : (l.map T.id).Nodup) (hc : c ∈ l)
    (hb : c.id = b) : (infosL l).Perm (infos c ++ infosL (eraseId b l)) := by
  have := (flatL_perm (eraseId_perm hN hc hb)).map T.info
  rwa [flatL_cons, List.map_append] at this

theorem idsL_eraseId_perm {b : NodeId} {c : T} {l : List T} (hN : (l.map T.id).Nodup) (hc : c ∈ l)
    (hb : c.id = b) : (idsL l).Perm ((flat c).map T.id ++ idsL (eraseId b l)) := by
  have := (flatL_perm (eraseId_perm hN hc hb)).map T.id
  rwa [flatL_cons, List.map_append] at this


/-! ## 9. frame and sibling-uniqueness after `modT` -/

/-- **Frame.**  With distinct identities and `q` the node `p`: an old node `x` that does not lie in
a child branch of `q` survives as `modT p g x`, with the same record; if `x` is not `q` itself its
children keep their records (in order); and if `x` does not contain `p` it is literally unchanged. -/
theorem modT_frame {p : NodeId} {g : List T → List T} {root q x : T} (hN : IdsNodup root)
    (hp : findT p root = some q) (hx : x ∈ flat root) (hxq : x ∉ flatL q.kids) :
    modT p g x ∈ flat (modT p g root) ∧ (modT p g x).info = x.info ∧
      (x.id ≠ p → (modT p g x).kids.map T.info = x.kids.map T.info) ∧
      (p ∉ (flat x).map T.id → modT p g x = x) := by
  refine ⟨modT_mem_flat hx ?_, modT_info p g x, fun h => modT_kids_map_info h, fun h => modT_of_not_mem h⟩
  intro q' hq' hq'p
  have : q' = q := eq_of_id_eq hN hq' (findT_some_mem hp) (hq'p.trans (findT_some_id hp).symm)
  subst this; exact hxq

/-- **Sibling uniqueness after `modT`.**  If every old node has children with pairwise distinct data
ids, the new child list of `p` has pairwise distinct data ids, and so have the child lists inside the
new child branches, then every node of the edited tree has children with pairwise distinct data ids. -/
theorem sibUnique_modT {p : NodeId} {g : List T → List T} {root q : T} (hN : IdsNodup root)
    (hp : findT p root = some q)
    (hs : ∀ x ∈ flat root, (x.kids.map T.did).Nodup)
    (hg1 : ((g q.kids).map T.did).Nodup)
    (hg2 : ∀ y ∈ flatL (g q.kids), (y.kids.map T.did).Nodup) :
    ∀ y ∈ flat (modT p g root), (y.kids.map T.did).Nodup := by
  intro y hy
  rcases mem_flat_modT_of hN hp hy with ⟨z, hz, rfl⟩ | hy
  · by_cases hzp : z.id = p
    · have : z = q := eq_of_id_eq hN hz (findT_some_mem hp) (hzp.trans (findT_some_id hp).symm)
      subst this
      rw [modT_kids, if_pos hzp]; exact hg1
    · rw [modT_kids_map_did hzp]; exact hs z hz
  · exact hg2 y hy


/-! ## 10. detaching / attaching a whole branch, `replaceT` -/

/-- **Detach.**  Erasing the child `n` from its parent's child list removes exactly the branch of `n`. -/
theorem detach_infos_perm {root par x : T} {n : NodeId} (hN : IdsNodup root)
    (hx : findT n root = some x) (hpar : findParent n root = some par) :
    (infos (modT par.id (eraseId n) root) ++ infos x).Perm (infos root) := by
  obtain ⟨hpm, c, hc, hcn⟩ := findParent_some_mem hpar
  obtain ⟨hxm, hxid⟩ := findT_some hx
  have hcx : c = x := eq_of_id_eq hN (mem_flat_trans (mem_flat_of_mem_kids hc) hpm) hxm (hcn.trans hxid.symm)
  subst hcx
  have hp : findT par.id root = some par := findT_of_mem hN hpm
  have hK := infosL_eraseId_perm (kids_ids_nodup (idsNodup_of_mem_flat hN hpm)) hc hcn
  have := modT_infos_perm_of (g := eraseId n) hN hp (X := []) (Y := infos c)
    (by rw [List.nil_append]; exact (List.perm_append_comm.trans hK.symm))
  simpa using this

theorem detach_kids_infos_perm {root par x : T} {n : NodeId} (hN : IdsNodup root)
    (hx : findT n root = some x) (hpar : findParent n root = some par) :
    (infosL (modT par.id (eraseId n) root).kids ++ infos x).Perm (infosL root.kids) := by
  have h := detach_infos_perm hN hx hpar
  rw [infos_eq, infos_eq root, modT_info, List.cons_append] at h
  exact h.cons_inv

theorem detach_ids_perm {root par x : T} {n : NodeId} (hN : IdsNodup root)
    (hx : findT n root = some x) (hpar : findParent n root = some par) :
    ((flat (modT par.id (eraseId n) root)).map T.id ++ (flat x).map T.id).Perm ((flat root).map T.id) := by
  have h := (detach_infos_perm hN hx hpar).map Info.id
  rwa [List.map_append, ← ids_eq_infos, ← ids_eq_infos, ← ids_eq_infos] at h

/-- **Attach.**  Putting a branch `x` somewhere into the child list of `p` adds exactly that branch. -/
theorem attach_infos_perm {root q x : T} {p : NodeId} {g : List T → List T} (hN : IdsNodup root)
    (hp : findT p root = some q) (hg : (g q.kids).Perm (x :: q.kids)) :
    (infos (modT p g root)).Perm (infos x ++ infos root) := by
  have hG : (infosL (g q.kids)).Perm (infos x ++ infosL q.kids) := by
    have := (flatL_perm hg).map T.info
    rwa [flatL_cons, List.map_append] at this
  have := modT_infos_perm_of (g := g) hN hp (X := infos x) (Y := []) (by simpa using hG)
  simpa using this

theorem attach_kids_infos_perm {root q x : T} {p : NodeId} {g : List T → List T} (hN : IdsNodup root)
    (hp : findT p root = some q) (hg : (g q.kids).Perm (x :: q.kids)) :
    (infosL (modT p g root).kids).Perm (infos x ++ infosL root.kids) := by
  have h := attach_infos_perm hN hp hg
  rw [infos_eq, infos_eq root, modT_info] at h
  exact (h.trans List.perm_middle).cons_inv

theorem attach_ids_perm {root q x : T} {p : NodeId} {g : List T → List T} (hN : IdsNodup root)
    (hp : findT p root = some q) (hg : (g q.kids).Perm (x :: q.kids)) :
    ((flat (modT p g root)).map T.id).Perm ((flat x).map T.id ++ (flat root).map T.id) := by
  have h := (attach_infos_perm hN hp hg).map Info.id
  rwa [List.map_append, ← ids_eq_infos, ← ids_eq_infos, ← ids_eq_infos] at h

theorem replaceL_eq_map (n : NodeId) (new : T) : ∀ ks : List T, replaceL n new ks = ks.map (replaceT n new)
  | [] => by simp [replaceL]
  | t :: ts => by simp [replaceL, replaceL_eq_map n new ts]

theorem replaceT_node (n : NodeId) (new : T) (i : Info) (ks : List T) :
    replaceT n new (.node i ks) = if i.id = n then new else .node i (ks.map (replaceT n new)) := by
  rw [replaceT, replaceL_eq_map]

/-- Replacing node `n` by a node with the same record is editing its child list: bridge from
`replaceT` (used by `Tree.sort`) to the `modT` library. -/
theorem replaceT_eq_modT {n : NodeId} {i0 : Info} {ks' : List T} :
    ∀ {root : T}, (∀ y ∈ flat root, y.id = n → y.info = i0) →
      replaceT n (.node i0 ks') root = modT n (fun _ => ks') root := by
  intro root
  induction root using T.ind with
  | node i ks ih =>
    intro h
    rw [replaceT_node, modT_node]
    by_cases hid : i.id = n
    · rw [if_pos hid, if_pos hid]
      have := h _ (self_mem_flat _) hid
      rw [T.info_node] at this
      rw [this]
    · rw [if_neg hid, if_neg hid]
      congr 1
      refine List.map_congr_left (fun c hc => ih c hc ?_)
      exact fun y hy => h y (mem_flat_trans hy (mem_flat_of_mem_kids hc))

theorem replaceT_eq_modT_of {n : NodeId} {root x : T} {ks' : List T} (hN : IdsNodup root)
    (hx : findT n root = some x) : replaceT n (.node x.info ks') root = modT n (fun _ => ks') root := by
  refine replaceT_eq_modT (fun y hy hyn => ?_)
  rw [eq_of_id_eq hN hy (findT_some_mem hx) (hyn.trans (findT_some_id hx).symm)]

end Nutree
