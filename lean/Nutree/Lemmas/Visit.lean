/- Helper lemmas for C06: `visit` against `specVisit`. -/
import Nutree.Model.Iter
import Nutree.Spec.Iter
import Nutree.Lemmas.Iter
import Nutree.Lemmas.IterLevel
namespace Nutree
open T

@[simp] theorem T.id_node (i : Info) (ks : List T) : (T.node i ks).id = i.id := rfl

/-! ### running a callback over a fixed sequence of ids -/

/-- The halt carried by the first halting answer, if any. -/
def firstHaltOpt (f : NodeId → Sig) : List NodeId → Option Halt
  | [] => none
  | x :: xs => match sigHalt (f x) with
    | some h => some h
    | none => firstHaltOpt f xs

/-- Calls made on a fixed sequence (cut at the first halting answer) and the halt. -/
def run (f : NodeId → Sig) (xs : List NodeId) : List NodeId × Option Halt :=
  (takeThrough (fun i => (f i).halts) xs, firstHaltOpt f xs)

/-- Sequential composition of two partial runs. -/
def seqR {α} (a b : List α × Option Halt) : List α × Option Halt :=
  match a with
  | (vs, some h) => (vs, some h)
  | (vs, none) => (vs ++ b.1, b.2)

def mapRes (r : VRes) : List NodeId × Option Halt := (r.1.map T.id, r.2)

@[simp] theorem seqR_some {α} (vs : List α) (h : Halt) (b) : seqR (vs, some h) b = (vs, some h) := rfl
@[simp] theorem seqR_none {α} (vs : List α) (b : List α × Option Halt) :
    seqR (vs, none) b = (vs ++ b.1, b.2) := rfl

theorem mapRes_seqR (a b : VRes) : mapRes (seqR a b) = seqR (mapRes a) (mapRes b) := by
  rcases a with ⟨vs, _ | h⟩ <;> simp [mapRes]

@[simp] theorem run_nil (f : NodeId → Sig) : run f [] = ([], none) := rfl

theorem run_cons (f : NodeId → Sig) (x : NodeId) (xs : List NodeId) :
    run f (x :: xs) = match sigHalt (f x) with
      | some h => ([x], some h)
      | none => (x :: (run f xs).1, (run f xs).2) := by
  cases h : f x <;> simp [run, takeThrough, firstHaltOpt, h, Sig.halts, sigHalt]

theorem run_cons_cont (f : NodeId → Sig) (x : NodeId) (xs : List NodeId) (h : f x = .cont) :
    run f (x :: xs) = (x :: (run f xs).1, (run f xs).2) := by
  simp [run_cons, h, sigHalt]

theorem run_cons_skip (f : NodeId → Sig) (x : NodeId) (xs : List NodeId) (h : f x = .skip) :
    run f (x :: xs) = (x :: (run f xs).1, (run f xs).2) := by
  simp [run_cons, h, sigHalt]

theorem run_singleton (f : NodeId → Sig) (x : NodeId) : run f [x] = ([x], sigHalt (f x)) := by
  cases h : f x <;> simp [run_cons, h, sigHalt]

theorem run_append (f : NodeId → Sig) : ∀ (xs ys : List NodeId),
    run f (xs ++ ys) = seqR (run f xs) (run f ys)
  | [], ys => by simp
  | x :: xs, ys => by
    rw [List.cons_append, run_cons, run_cons, run_append f xs ys]
    cases sigHalt (f x) with
    | some h => simp
    | none =>
      rcases run f xs with ⟨vs, _ | h⟩ <;> simp

@[simp] theorem Sig.halts_cont : Sig.cont.halts = false := rfl
@[simp] theorem Sig.halts_skip : Sig.skip.halts = false := rfl
@[simp] theorem Sig.halts_stop (v : Option Int) : (Sig.stop v).halts = true := rfl
@[simp] theorem Sig.halts_valueError : Sig.valueError.halts = true := rfl
@[simp] theorem Sig.halts_otherError : Sig.otherError.halts = true := rfl

theorem takeThrough_cons {α} (p : α → Bool) (x : α) (xs : List α) :
    takeThrough p (x :: xs) = if p x then [x] else x :: takeThrough p xs := rfl

theorem firstHalt_takeThrough (f : NodeId → Sig) : ∀ xs : List NodeId,
    firstHalt f (takeThrough (fun i => (f i).halts) xs) = haltOut (firstHaltOpt f xs)
  | [] => by simp [takeThrough, firstHalt, firstHaltOpt, haltOut]
  | x :: xs => by
    have ih := firstHalt_takeThrough f xs
    rw [takeThrough_cons]
    cases h : f x <;>
      simp [firstHalt, firstHaltOpt, h, sigHalt, ih] <;> simp [haltOut]

/-- Outcome of a run as `visit` reports it. -/
def outOf (r : List NodeId × Option Halt) : List NodeId × VOut := (r.1, haltOut r.2)

theorem spec_calls_eq (f : NodeId → Sig) (xs : List NodeId) :
    (takeThrough (fun i => (f i).halts) xs,
      firstHalt f (takeThrough (fun i => (f i).halts) xs)) = outOf (run f xs) := by
  simp [outOf, run, firstHalt_takeThrough]

/-! ### prune -/

theorem noHalt_eq_skip (cb : T → Sig) (t : T) : noHalt cb t = .skip ↔ cb t = .skip := by
  unfold noHalt
  cases h : cb t <;> simp [Sig.halts]

@[simp] theorem pruneL_nil (cb : T → Sig) : pruneL cb [] = [] := by simp [pruneL]

theorem pruneL_cons (cb : T → Sig) (t : T) (ts : List T) :
    pruneL cb (t :: ts) = prune cb t :: pruneL cb ts := by simp [pruneL]

theorem prune_skip (cb : T → Sig) (t : T) (h : cb t = .skip) :
    prune cb t = .node t.info [] := by
  cases t; simp [prune, h]

theorem prune_noskip (cb : T → Sig) (t : T) (h : cb t ≠ .skip) :
    prune cb t = .node t.info (pruneL cb t.kids) := by
  cases t; simp [prune, h]

@[simp] theorem prune_id (cb : T → Sig) (t : T) : (prune cb t).id = t.id := by
  cases t with
  | node i ks => by_cases h : cb (.node i ks) = .skip <;> simp [prune, h]

@[simp] theorem pruneL_map_id (cb : T → Sig) : ∀ ks : List T,
    (pruneL cb ks).map T.id = ks.map T.id
  | [] => by simp
  | t :: ts => by simp [pruneL_cons, pruneL_map_id cb ts]

theorem pruneL_append (cb : T → Sig) : ∀ a b : List T,
    pruneL cb (a ++ b) = pruneL cb a ++ pruneL cb b
  | [], b => by simp
  | t :: a, b => by simp [pruneL_cons, pruneL_append cb a b]

mutual
theorem height_prune_le (cb : T → Sig) : ∀ t : T, height (prune cb t) ≤ height t
  | .node i ks => by
    by_cases h : cb (.node i ks) = .skip
    · simp [prune, h, height, heightL]
    · simpa [prune, h, height] using heightL_pruneL_le cb ks
theorem heightL_pruneL_le (cb : T → Sig) : ∀ ks : List T, heightL (pruneL cb ks) ≤ heightL ks
  | [] => by simp
  | t :: ts => by
    have h1 := height_prune_le cb t
    have h2 := heightL_pruneL_le cb ts
    simp only [pruneL_cons, heightL]
    omega
end

/-! ### pre-order -/

theorem visitPreL_cons (cb : T → Sig) (c : T) (cs : List T) :
    visitPreL cb (c :: cs) = seqR (visitPre cb c) (visitPreL cb cs) := by
  rw [visitPreL]
  rcases visitPre cb c with ⟨vs, _ | h⟩ <;> simp

mutual
theorem visitPre_run (f : NodeId → Sig) (cb : T → Sig) (hcb : ∀ n, cb n = f n.id) : ∀ t : T,
    mapRes (visitPre cb t) = run f ((flat (prune (noHalt cb) t)).map T.id)
  | .node i ks => by
    have ih := visitPreL_run f cb hcb ks
    have hf := hcb (.node i ks)
    simp only [T.id_node] at hf
    cases h : cb (.node i ks) with
    | skip =>
      have h' : noHalt cb (.node i ks) = .skip := (noHalt_eq_skip _ _).2 h
      rw [h] at hf
      simp [visitPre, h, prune, h', flat, flatL, mapRes, run_singleton, ← hf, sigHalt]
    | cont =>
      have h' : noHalt cb (.node i ks) ≠ .skip := by rw [Ne, noHalt_eq_skip, h]; simp
      rw [h] at hf
      simp only [mapRes] at ih
      simp [visitPre, h, prune, h', flat, mapRes, run_cons_cont f _ _ hf.symm, ← ih]
    | stop v =>
      have h' : noHalt cb (.node i ks) ≠ .skip := by rw [Ne, noHalt_eq_skip, h]; simp
      rw [h] at hf
      simp [visitPre, h, prune, h', flat, mapRes, run_cons, ← hf, sigHalt]
    | valueError =>
      have h' : noHalt cb (.node i ks) ≠ .skip := by rw [Ne, noHalt_eq_skip, h]; simp
      rw [h] at hf
      simp [visitPre, h, prune, h', flat, mapRes, run_cons, ← hf, sigHalt]
    | otherError =>
      have h' : noHalt cb (.node i ks) ≠ .skip := by rw [Ne, noHalt_eq_skip, h]; simp
      rw [h] at hf
      simp [visitPre, h, prune, h', flat, mapRes, run_cons, ← hf, sigHalt]
theorem visitPreL_run (f : NodeId → Sig) (cb : T → Sig) (hcb : ∀ n, cb n = f n.id) :
    ∀ ks : List T,
    mapRes (visitPreL cb ks) = run f ((flatL (pruneL (noHalt cb) ks)).map T.id)
  | [] => by simp [visitPreL, flatL, mapRes]
  | t :: ts => by
    rw [visitPreL_cons, mapRes_seqR, visitPre_run f cb hcb t, visitPreL_run f cb hcb ts,
      pruneL_cons, flatL, List.map_append, run_append]
end

/-! ### post-order -/

theorem visitPostL_cons (cb : T → Sig) (c : T) (cs : List T) :
    visitPostL cb (c :: cs) = seqR (visitPost cb c) (visitPostL cb cs) := by
  rw [visitPostL]
  rcases visitPost cb c with ⟨vs, _ | h⟩ <;> simp

theorem visitPost_node (cb : T → Sig) (i : Info) (ks : List T) :
    visitPost cb (.node i ks)
      = seqR (visitPostL cb ks) ([T.node i ks], sigHalt (cb (.node i ks))) := by
  rw [visitPost]
  rcases visitPostL cb ks with ⟨vs, _ | h⟩ <;> simp

mutual
theorem visitPost_run (f : NodeId → Sig) (cb : T → Sig) (hcb : ∀ n, cb n = f n.id) :
    ∀ t : T, mapRes (visitPost cb t) = run f ((post t).map T.id)
  | .node i ks => by
    have hf := hcb (.node i ks)
    simp only [T.id_node] at hf
    rw [visitPost_node, mapRes_seqR, visitPostL_run f cb hcb ks, post, List.map_append, run_append]
    simp [mapRes, run_singleton, hf]
theorem visitPostL_run (f : NodeId → Sig) (cb : T → Sig) (hcb : ∀ n, cb n = f n.id) :
    ∀ ks : List T, mapRes (visitPostL cb ks) = run f ((postL ks).map T.id)
  | [] => by simp [visitPostL, postL, mapRes]
  | t :: ts => by
    rw [visitPostL_cons, mapRes_seqR, visitPost_run f cb hcb t, visitPostL_run f cb hcb ts,
      postL, List.map_append, run_append]
end

/-! ### level-order -/

theorem nextLevel_pruneL_cons_skip (cb : T → Sig) (c : T) (cs : List T) (h : cb c = .skip) :
    nextLevel (pruneL cb (c :: cs)) = nextLevel (pruneL cb cs) := by
  simp [pruneL_cons, nextLevel_cons, prune_skip cb c h]

theorem nextLevel_pruneL_cons_noskip (cb : T → Sig) (c : T) (cs : List T) (h : cb c ≠ .skip) :
    nextLevel (pruneL cb (c :: cs)) = pruneL cb c.kids ++ nextLevel (pruneL cb cs) := by
  simp [pruneL_cons, nextLevel_cons, prune_noskip cb c h]

section
variable (f : NodeId → Sig) (cb : T → Sig) (hcb : ∀ n, cb n = f n.id)
include hcb

/-- One row: the calls are a run over the row's ids; without a halt, the collected
`next_level` is (after pruning) the next level of the pruned forest. -/
theorem visitLevelRow_run : ∀ cur : List T,
    ((visitLevelRow cb cur).1.map T.id, (visitLevelRow cb cur).2.2) = run f (cur.map T.id) ∧
    ((visitLevelRow cb cur).2.2 = none →
      pruneL (noHalt cb) (visitLevelRow cb cur).2.1 = nextLevel (pruneL (noHalt cb) cur))
  | [] => by simp [visitLevelRow]
  | c :: cs => by
    obtain ⟨ih1, ih2⟩ := visitLevelRow_run cs
    have hf := hcb c
    cases h : cb c with
    | cont =>
      have h' : noHalt cb c ≠ .skip := by rw [Ne, noHalt_eq_skip, h]; simp
      rw [h] at hf
      rw [nextLevel_pruneL_cons_noskip _ _ _ h']
      simp only [visitLevelRow, h, List.map_cons, run_cons_cont f _ _ hf.symm, ← ih1,
        pruneL_append]
      exact ⟨trivial, fun hn => by rw [ih2 hn]⟩
    | skip =>
      have h' : noHalt cb c = .skip := (noHalt_eq_skip _ _).2 h
      rw [h] at hf
      rw [nextLevel_pruneL_cons_skip _ _ _ h']
      simp only [visitLevelRow, h, List.map_cons, run_cons_skip f _ _ hf.symm, ← ih1]
      exact ⟨trivial, ih2⟩
    | stop v =>
      rw [h] at hf
      simp [visitLevelRow, h, run_cons, ← hf, sigHalt]
    | valueError =>
      rw [h] at hf
      simp [visitLevelRow, h, run_cons, ← hf, sigHalt]
    | otherError =>
      rw [h] at hf
      simp [visitLevelRow, h, run_cons, ← hf, sigHalt]

theorem visitLevelLoop_run : ∀ (fuel : Nat) (cur : List T),
    (levelsL (pruneL (noHalt cb) cur)).length ≤ fuel →
    mapRes (visitLevelLoop cb fuel cur)
      = run f ((levelsL (pruneL (noHalt cb) cur)).flatten.map T.id)
  | 0, cur, hlen => by
    have : levelsL (pruneL (noHalt cb) cur) = [] := List.eq_nil_of_length_eq_zero (by omega)
    simp [visitLevelLoop, this, mapRes]
  | fuel + 1, [], _ => by simp [visitLevelLoop, mapRes]
  | fuel + 1, c :: cs, hlen => by
    obtain ⟨hr1, hr2⟩ := visitLevelRow_run f cb hcb (c :: cs)
    rw [pruneL_cons, levelsL_unfold, ← pruneL_cons] at hlen ⊢
    have hlen' : (levelsL (nextLevel (pruneL (noHalt cb) (c :: cs)))).length ≤ fuel := by
      simp only [List.length_cons] at hlen; omega
    rw [List.flatten_cons, List.map_append, run_append, pruneL_map_id, ← hr1]
    rw [visitLevelLoop]
    rcases hrow : visitLevelRow cb (c :: cs) with ⟨vs, nxt, _ | h⟩
    · rw [hrow] at hr2
      have hn := hr2 rfl
      simp only at hn
      rw [← hn] at hlen' ⊢
      rw [← visitLevelLoop_run fuel nxt hlen']
      simp [mapRes]
    · simp [mapRes]

theorem visitLevel_run (ks : List T) :
    mapRes (visitLevel cb ks) = run f ((specLevel false false (pruneL (noHalt cb) ks)).map T.id) := by
  have hd : ∀ ls : List (List T), dirs false false ls = ls := by
    intro ls; induction ls with
    | nil => rfl
    | cons l ls ih => simp [ih]
  unfold visitLevel specLevel
  rw [hd]
  apply visitLevelLoop_run f cb hcb
  rw [length_levelsL]
  exact heightL_pruneL_le _ _

end

/-! ### a callback that never signals -/

mutual
theorem visitPre_cont (cb : T → Sig) (h : ∀ n, cb n = .cont) : ∀ t : T, visitPre cb t = (flat t, none)
  | .node i ks => by simp [visitPre, h, visitPreL_cont cb h ks, flat]
theorem visitPreL_cont (cb : T → Sig) (h : ∀ n, cb n = .cont) : ∀ ks : List T, visitPreL cb ks = (flatL ks, none)
  | [] => by simp [visitPreL, flatL]
  | t :: ts => by simp [visitPreL_cons, visitPre_cont cb h t, visitPreL_cont cb h ts, flatL]
end

mutual
theorem visitPost_cont (cb : T → Sig) (h : ∀ n, cb n = .cont) : ∀ t : T, visitPost cb t = (post t, none)
  | .node i ks => by simp [visitPost_node, h, visitPostL_cont cb h ks, post, sigHalt]
theorem visitPostL_cont (cb : T → Sig) (h : ∀ n, cb n = .cont) : ∀ ks : List T, visitPostL cb ks = (postL ks, none)
  | [] => by simp [visitPostL, postL]
  | t :: ts => by simp [visitPostL_cons, visitPost_cont cb h t, visitPostL_cont cb h ts, postL]
end

section
variable (cb : T → Sig) (h : ∀ n, cb n = .cont)
include h

theorem visitLevelRow_cont : ∀ cur : List T, visitLevelRow cb cur = (cur, nextLevel cur, none)
  | [] => by simp [visitLevelRow]
  | c :: cs => by simp [visitLevelRow, h, visitLevelRow_cont cs, nextLevel_cons]

theorem visitLevelLoop_cont : ∀ (fuel : Nat) (cur : List T),
    visitLevelLoop cb fuel cur = (iterLevelLoop fuel false false cur, none)
  | 0, cur => by simp [visitLevelLoop, iterLevelLoop]
  | fuel + 1, cur => by
    by_cases he : cur.isEmpty
    · simp [visitLevelLoop, iterLevelLoop, he]
    · simp [visitLevelLoop, iterLevelLoop, he, visitLevelRow_cont cb h cur,
        visitLevelLoop_cont fuel (nextLevel cur)]

theorem visitLevel_cont (ks : List T) : visitLevel cb ks = (iterLevel false false ks, none) :=
  visitLevelLoop_cont cb h _ ks

end

/-! ### `visit` per method -/

theorem visit_pre_spec (f : NodeId → Sig) (addSelf : Bool) (t : T) :
    ((visit (fun n => f n.id) .pre addSelf t).1.map T.id, (visit (fun n => f n.id) .pre addSelf t).2)
      = specVisit f .pre addSelf t := by
  have hk := visitPreL_run f (fun n => f n.id) (fun _ => rfl) t.kids
  simp only [mapRes] at hk
  cases addSelf with
  | false =>
    simp only [specVisit, spec_calls_eq, visit]
    simp [outOf, ← hk]
  | true =>
    cases h : f t.id with
    | cont =>
      simp only [specVisit, spec_calls_eq, visit, h]
      simp [outOf, run_cons_cont f _ _ h, ← hk]
    | skip =>
      simp only [specVisit, spec_calls_eq, visit, h]
      simp [outOf, run_singleton, h, sigHalt, haltOut]
    | stop v =>
      simp only [specVisit, spec_calls_eq, visit, h]
      simp [outOf, run_cons, h, sigHalt]
    | valueError =>
      simp only [specVisit, spec_calls_eq, visit, h]
      simp [outOf, run_cons, h, sigHalt]
    | otherError =>
      simp only [specVisit, spec_calls_eq, visit, h]
      simp [outOf, run_cons, h, sigHalt]

theorem visit_level_spec (f : NodeId → Sig) (addSelf : Bool) (t : T) :
    ((visit (fun n => f n.id) .level addSelf t).1.map T.id,
        (visit (fun n => f n.id) .level addSelf t).2)
      = specVisit f .level addSelf t := by
  have hk := visitLevel_run f (fun n => f n.id) (fun _ => rfl) t.kids
  simp only [mapRes] at hk
  cases addSelf with
  | false =>
    simp only [specVisit, spec_calls_eq, visit]
    simp [outOf, ← hk]
  | true =>
    cases h : f t.id with
    | cont =>
      simp only [specVisit, spec_calls_eq, visit, h]
      simp [outOf, run_cons_cont f _ _ h, ← hk]
    | skip =>
      simp only [specVisit, spec_calls_eq, visit, h]
      simp [outOf, run_singleton, h, sigHalt, haltOut]
    | stop v =>
      simp only [specVisit, spec_calls_eq, visit, h]
      simp [outOf, run_cons, h, sigHalt]
    | valueError =>
      simp only [specVisit, spec_calls_eq, visit, h]
      simp [outOf, run_cons, h, sigHalt]
    | otherError =>
      simp only [specVisit, spec_calls_eq, visit, h]
      simp [outOf, run_cons, h, sigHalt]

theorem visit_post_spec (f : NodeId → Sig) (addSelf : Bool) (t : T) :
    ((visit (fun n => f n.id) .post addSelf t).1.map T.id,
        (visit (fun n => f n.id) .post addSelf t).2)
      = specVisit f .post addSelf t := by
  have hk := visitPostL_run f (fun n => f n.id) (fun _ => rfl) t.kids
  simp only [mapRes] at hk
  rcases hv : visitPostL (fun n => f n.id) t.kids with ⟨vs, _ | hh⟩ <;> rw [hv] at hk <;>
    cases addSelf <;>
    simp only [specVisit, spec_calls_eq, visit, hv] <;>
    simp [outOf, run_append, ← hk, run_singleton, haltOut]

end Nutree
