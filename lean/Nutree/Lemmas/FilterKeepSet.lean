/-
  Nutree.Lemmas.FilterKeepSet — which nodes the specification keeps, in terms of an explicit
  ancestor relation.

  * `Anc a n` — `a` is a proper ancestor of `n` (`n` lies strictly below `a`).
  * `Blocks`, `Accepting` — the verdict classes; `FreeAbove w F x` — no proper ancestor of `x`
    among the nodes `F` blocks.
  * `keepT_ne_none_iff` — a node is kept iff it has an accepting descendant-or-self with no blocker
    on the way (`HasWitness`).
  * `keptL_iff` — **general characterisation** for arbitrary verdicts `w`.
  * `Agree.below_leafy` / `Agree.above_descends` — effective verdicts are `reject` below every node
    the scan does not descend into.
-/
import Nutree.Lemmas.FilterKeep
namespace Nutree
open T C10
namespace Flt
open Spec

/-- `a` is a proper ancestor of `n`. -/
def Anc (a n : T) : Prop := n ∈ flatL a.kids

/-- the verdicts that cut the branch below the node off (`SkipBranch`, with or without self). -/
def Blocks (x : Verdict) : Prop := x = .skip ∨ x = .skipKeepSelf

/-- the verdicts that keep the node itself. -/
def Accepting (x : Verdict) : Prop := x = .accept ∨ x = .skipKeepSelf ∨ x = .select

/-- among the nodes `F`, no proper ancestor of `x` blocks. -/
def FreeAbove (w : T → Verdict) (F : List T) (x : T) : Prop := ∀ b ∈ F, Anc b x → ¬ Blocks (w b)

/-- `n` has an accepting descendant-or-self `m` with no blocker from `n` down to (excluding) `m`. -/
def HasWitness (w : T → Verdict) (n : T) : Prop :=
  ∃ m ∈ flat n, Accepting (w m) ∧ ∀ b ∈ flat n, Anc b m → ¬ Blocks (w b)

/-! ### the ancestor relation in trees with distinct identities -/

theorem size_lt_of_anc {a n : T} (h : Anc a n) : n.size < a.size := by
  obtain ⟨c, hc, hn⟩ := mem_flatL.1 h
  have := size_le_of_mem_flat hn
  have := size_lt_of_mem_kids hc
  omega

theorem not_anc_of_mem_flat {b n : T} (hb : b ∈ flat n) : ¬ Anc b n := by
  intro h
  have := size_lt_of_anc h
  have := size_le_of_mem_flat hb
  omega

theorem mem_flat_antisymm {a t : T} (h1 : a ∈ flat t) (h2 : t ∈ flat a) : a = t := by
  rw [flat_eq, List.mem_cons] at h1
  rcases h1 with h1 | h1
  · exact h1
  · exact absurd h1 (not_anc_of_mem_flat h2)

theorem anc_scope_tree {t c a b : T} (hN : C10.IdsNodup t) (hc : c ∈ t.kids) (ha : a ∈ flat c)
    (hb : b ∈ flat t) (hab : Anc b a) : b = t ∨ b ∈ flat c := by
  rw [flat_eq, List.mem_cons] at hb
  rcases hb with hb | hb
  · exact Or.inl hb
  · obtain ⟨c', hc', hbc'⟩ := mem_flatL.1 hb
    have hac' : a ∈ flat c' := mem_flat_trans (mem_flat_of_mem_flatL_kids hab) hbc'
    have := idsNodupL_disjoint (idsNodupL_kids hN) hc hc' ha hac' rfl
    exact Or.inr (this ▸ hbc')

theorem anc_scope_forest {ks : List T} {c a b : T} (hN : IdsNodupL ks) (hc : c ∈ ks) (ha : a ∈ flat c)
    (hb : b ∈ flatL ks) (hab : Anc b a) : b ∈ flat c := by
  obtain ⟨c', hc', hbc'⟩ := mem_flatL.1 hb
  have hac' : a ∈ flat c' := mem_flat_trans (mem_flat_of_mem_flatL_kids hab) hbc'
  have := idsNodupL_disjoint hN hc hc' ha hac' rfl
  exact this ▸ hbc'

theorem freeAbove_self (w : T → Verdict) (t : T) : FreeAbove w (flat t) t :=
  fun _ hb hab => absurd hab (not_anc_of_mem_flat hb)

theorem freeAbove_tree {w : T → Verdict} {t c a : T} (hN : C10.IdsNodup t) (hc : c ∈ t.kids)
    (ha : a ∈ flat c) : FreeAbove w (flat t) a ↔ ¬ Blocks (w t) ∧ FreeAbove w (flat c) a := by
  constructor
  · intro h
    exact ⟨h t (self_mem_flat t) (mem_flatL.2 ⟨c, hc, ha⟩),
      fun b hb hab => h b (mem_flat_trans hb (mem_flat_of_mem_kids hc)) hab⟩
  · rintro ⟨h1, h2⟩ b hb hab
    rcases anc_scope_tree hN hc ha hb hab with rfl | hbc
    · exact h1
    · exact h2 b hbc hab

theorem freeAbove_forest {w : T → Verdict} {ks : List T} {c a : T} (hN : IdsNodupL ks) (hc : c ∈ ks)
    (ha : a ∈ flat c) : FreeAbove w (flatL ks) a ↔ FreeAbove w (flat c) a := by
  constructor
  · intro h b hb hab
    exact h b (mem_flatL.2 ⟨c, hc, hb⟩) hab
  · intro h b hb hab
    exact h b (anc_scope_forest hN hc ha hb hab) hab

/-! ### more on `keepT` / `keepL` -/

theorem keepL_eq_nil_iff {w : T → Verdict} : ∀ {ks : List T}, keepL w ks = [] ↔ ∀ c ∈ ks, keepT w c = none
  | [] => by simp
  | t :: ts => by
    rw [keepL_cons, List.append_eq_nil_iff, keepL_eq_nil_iff (ks := ts)]
    cases h : keepT w t <;> simp [h]

theorem mem_flatL_keepL {w : T → Verdict} {x : T} : ∀ {ks : List T},
    x ∈ flatL (keepL w ks) ↔ ∃ c ∈ ks, ∃ k, keepT w c = some k ∧ x ∈ flat k
  | [] => by simp
  | t :: ts => by
    rw [keepL_cons, flatL_append, List.mem_append, mem_flatL_keepL (ks := ts)]
    cases h : keepT w t with
    | none => simp [h]
    | some k => simp [h]

/-- the identities of a kept node's branch come from the source node's branch. -/
theorem id_of_mem_keepT {w : T → Verdict} {c k x : T} (h : keepT w c = some k) (hx : x ∈ flat k) :
    ∃ y ∈ flat c, y.id = x.id := by
  have hs := infosL_keepL_sublist w [c]
  rw [keepL_cons, h, keepL_nil] at hs
  simp only [Option.toList_some, List.append_nil, infosL, flatL_singleton] at hs
  obtain ⟨y, hy, e⟩ := List.mem_map.1 (hs.subset (List.mem_map_of_mem (f := T.info) hx))
  exact ⟨y, hy, by show y.info.id = x.info.id; rw [e]⟩

/-- a node whose verdict neither blocks nor selects is kept exactly with its kept children. -/
theorem keepT_through {w : T → Verdict} {t : T} (hb : ¬ Blocks (w t)) (hs : w t ≠ .select) :
    (∀ k, keepT w t = some k → k = .node t.info (keepL w t.kids)) ∧
    (keepL w t.kids ≠ [] → keepT w t = some (.node t.info (keepL w t.kids))) := by
  cases hw : w t with
  | skip => exact absurd (Or.inl hw) hb
  | skipKeepSelf => exact absurd (Or.inr hw) hb
  | select => exact absurd hw hs
  | accept =>
    rw [keepT_accept hw]
    exact ⟨fun k h => (Option.some.inj h).symm, fun _ => rfl⟩
  | reject | stop | other | error =>
    have hp : (w t).passes = true := by rw [hw]; rfl
    refine ⟨fun k h => ?_, fun h => keepT_pass_cons hp h⟩
    by_cases hk : keepL w t.kids = []
    · rw [keepT_pass_nil hp hk] at h; cases h
    · rw [keepT_pass_cons hp hk] at h; exact (Option.some.inj h).symm

theorem keepT_ne_none_of_accepting {w : T → Verdict} {n : T} (h : Accepting (w n)) : keepT w n ≠ none := by
  rcases h with h | h | h
  · rw [keepT_accept h]; simp
  · rw [keepT_skipKeepSelf h]; simp
  · rw [keepT_select h]; simp

/-- **a node is kept iff it has an accepting descendant-or-self reachable without a blocker.** -/
theorem keepT_ne_none_iff (w : T → Verdict) : ∀ n : T, C10.IdsNodup n → (keepT w n ≠ none ↔ HasWitness w n) := by
  intro n
  induction n using T.ind with
  | node i ks ih =>
    intro hN
    constructor
    · intro h
      by_cases hacc : Accepting (w (.node i ks))
      · exact ⟨_, self_mem_flat _, hacc, fun b hb hab => absurd hab (not_anc_of_mem_flat hb)⟩
      · have hnb : ¬ Blocks (w (.node i ks)) := by
          rintro (hb | hb)
          · rw [keepT_skip hb] at h; exact h rfl
          · exact hacc (Or.inr (Or.inl hb))
        have hns : w (.node i ks) ≠ .select := fun e => hacc (Or.inr (Or.inr e))
        cases hk : keepT w (.node i ks) with
        | none => exact absurd hk h
        | some k =>
          have hkk := (keepT_through hnb hns).1 k hk
          have hne : keepL w ks ≠ [] := by
            intro e
            have hp : (w (.node i ks)).passes = true := by
              cases hw : w (.node i ks) <;> simp_all [Accepting, Blocks, Verdict.passes]
            rw [keepT_pass_nil hp e] at hk; cases hk
          have : ¬ ∀ c ∈ ks, keepT w c = none := fun hall => hne (keepL_eq_nil_iff.2 hall)
          have ⟨c, hc, hck⟩ : ∃ c ∈ ks, keepT w c ≠ none := by
            apply Classical.byContradiction
            intro hno
            exact this fun c hc => Classical.byContradiction fun hcn => hno ⟨c, hc, hcn⟩
          obtain ⟨m, hm, hmacc, hfree⟩ := (ih c hc (idsNodup_of_mem (idsNodupL_kids hN) hc)).1 hck
          refine ⟨m, mem_flat_trans hm (mem_flat_of_mem_kids hc), hmacc, fun b hb hab => ?_⟩
          rcases anc_scope_tree hN hc hm hb hab with rfl | hbc
          · exact hnb
          · exact hfree b hbc hab
    · rintro ⟨m, hm, hmacc, hfree⟩
      rw [flat_node, List.mem_cons] at hm
      rcases hm with rfl | hm
      · exact keepT_ne_none_of_accepting hmacc
      · obtain ⟨c, hc, hmc⟩ := mem_flatL.1 hm
        have hnb : ¬ Blocks (w (.node i ks)) := hfree _ (self_mem_flat _) hm
        by_cases hs : w (.node i ks) = .select
        · rw [keepT_select hs]; simp
        · have hck : keepT w c ≠ none :=
            (ih c hc (idsNodup_of_mem (idsNodupL_kids hN) hc)).2
              ⟨m, hmc, hmacc, fun b hb hab => hfree b (mem_flat_trans hb (mem_flat_of_mem_kids hc)) hab⟩
          have hne : keepL w ks ≠ [] := fun e => hck (keepL_eq_nil_iff.1 e c hc)
          rw [(keepT_through hnb hs).2 hne]; simp

/-! ### the general characterisation -/

/-- right-hand side of the characterisation, ancestors taken among the nodes `F`. -/
def KeptCond (w : T → Verdict) (F : List T) (n : T) : Prop :=
  (∃ a ∈ F, n ∈ flat a ∧ w a = .select ∧ FreeAbove w F a) ∨ (FreeAbove w F n ∧ keepT w n ≠ none)

/-- `n` (by identity) occurs in what is kept of the tree `t`. -/
def KeptInT (w : T → Verdict) (t n : T) : Prop := ∃ k, keepT w t = some k ∧ ∃ n' ∈ flat k, n'.id = n.id

theorem keptCond_blocked {w : T → Verdict} {t c n : T} (hc : c ∈ t.kids) (hn : n ∈ flat c)
    (hb : Blocks (w t)) : ¬ KeptCond w (flat t) n := by
  have hsel : w t ≠ .select := by rcases hb with h | h <;> rw [h] <;> simp
  rintro (⟨a, ha, hna, hwa, hfree⟩ | ⟨hfree, _⟩)
  · rw [flat_eq, List.mem_cons] at ha
    rcases ha with rfl | ha
    · exact hsel hwa
    · exact hfree t (self_mem_flat t) ha hb
  · exact hfree t (self_mem_flat t) (mem_flatL.2 ⟨c, hc, hn⟩) hb

theorem keptCond_through {w : T → Verdict} {t c n : T} (hN : C10.IdsNodup t) (hc : c ∈ t.kids)
    (hn : n ∈ flat c) (hb : ¬ Blocks (w t)) (hs : w t ≠ .select) :
    KeptCond w (flat t) n ↔ KeptCond w (flat c) n := by
  unfold KeptCond
  rw [freeAbove_tree hN hc hn]
  constructor
  · rintro (⟨a, ha, hna, hwa, hfree⟩ | ⟨⟨_, hfree⟩, hk⟩)
    · rw [flat_eq, List.mem_cons] at ha
      rcases ha with rfl | ha
      · exact absurd hwa hs
      · obtain ⟨c', hc', hac'⟩ := mem_flatL.1 ha
        have : c = c' := idsNodupL_disjoint (idsNodupL_kids hN) hc hc' hn (mem_flat_trans hna hac') rfl
        subst this
        exact Or.inl ⟨a, hac', hna, hwa, ((freeAbove_tree hN hc hac').1 hfree).2⟩
    · exact Or.inr ⟨hfree, hk⟩
  · rintro (⟨a, ha, hna, hwa, hfree⟩ | ⟨hfree, hk⟩)
    · exact Or.inl ⟨a, mem_flat_trans ha (mem_flat_of_mem_kids hc), hna, hwa,
        (freeAbove_tree hN hc ha).2 ⟨hb, hfree⟩⟩
    · exact Or.inr ⟨⟨hb, hfree⟩, hk⟩

theorem keptInT_through {w : T → Verdict} {t c n : T} (hN : C10.IdsNodup t) (hc : c ∈ t.kids)
    (hn : n ∈ flat c) (hb : ¬ Blocks (w t)) (hs : w t ≠ .select) :
    KeptInT w t n ↔ KeptInT w c n := by
  have hnt : n.id ≠ t.id := id_ne_of_mem_flatL_kids hN (mem_flatL.2 ⟨c, hc, hn⟩)
  constructor
  · rintro ⟨k, hk, n', hn', hid⟩
    have := (keepT_through hb hs).1 k hk
    subst this
    rw [flat_node, List.mem_cons] at hn'
    rcases hn' with rfl | hn'
    · exact absurd hid.symm hnt
    · obtain ⟨c', hc', k', hk', hn'k'⟩ := mem_flatL_keepL.1 hn'
      obtain ⟨y, hy, hyid⟩ := id_of_mem_keepT hk' hn'k'
      have : c = c' := idsNodupL_disjoint (idsNodupL_kids hN) hc hc' hn hy (hid.symm.trans hyid.symm)
      subst this
      exact ⟨k', hk', n', hn'k', hid⟩
  · rintro ⟨k', hk', n', hn'k', hid⟩
    have hmem : n' ∈ flatL (keepL w t.kids) := mem_flatL_keepL.2 ⟨c, hc, k', hk', hn'k'⟩
    have hne : keepL w t.kids ≠ [] := by
      intro e; rw [e] at hmem; simp at hmem
    exact ⟨_, (keepT_through hb hs).2 hne, n', by rw [flat_node]; exact List.mem_cons_of_mem _ hmem, hid⟩

/-- the characterisation inside one tree. -/
theorem keptT_iff (w : T → Verdict) : ∀ t : T, C10.IdsNodup t → ∀ n ∈ flat t,
    (KeptInT w t n ↔ KeptCond w (flat t) n) := by
  intro t
  induction t using T.ind with
  | node i ks ih =>
    intro hN n hn
    rw [flat_node, List.mem_cons] at hn
    rcases hn with rfl | hn
    · -- the top itself
      constructor
      · rintro ⟨k, hk, _⟩
        exact Or.inr ⟨freeAbove_self w _, by rw [hk]; simp⟩
      · rintro (⟨a, ha, hna, hwa, _⟩ | ⟨_, hk⟩)
        · have := mem_flat_antisymm ha hna
          subst this
          exact ⟨_, keepT_select hwa, _, self_mem_flat _, rfl⟩
        · cases hkk : keepT w (.node i ks) with
          | none => exact absurd hkk hk
          | some k => exact ⟨k, hkk, k, self_mem_flat k, by show k.info.id = _; rw [keepT_info hkk]⟩
    · obtain ⟨c, hc, hnc⟩ := mem_flatL.1 hn
      have hc' : c ∈ (T.node i ks).kids := hc
      have hnt : n.id ≠ (T.node i ks).id := id_ne_of_mem_flatL_kids hN hn
      by_cases hb : Blocks (w (.node i ks))
      · refine ⟨?_, fun h => absurd h (keptCond_blocked hc' hnc hb)⟩
        rintro ⟨k, hk, n', hn', hid⟩
        rcases hb with hb | hb
        · rw [keepT_skip hb] at hk; cases hk
        · rw [keepT_skipKeepSelf hb] at hk
          cases hk
          rw [flat_node, flatL_nil, List.mem_singleton] at hn'
          subst hn'
          exact absurd hid.symm hnt
      · by_cases hs : w (.node i ks) = .select
        · constructor
          · intro _
            exact Or.inl ⟨_, self_mem_flat _, mem_flat_trans hnc (mem_flat_of_mem_kids hc'), hs,
              freeAbove_self w _⟩
          · intro _
            exact ⟨_, keepT_select hs, n, mem_flat_trans hnc (mem_flat_of_mem_kids hc'), rfl⟩
        · rw [keptInT_through hN hc' hnc hb hs, keptCond_through hN hc' hnc hb hs]
          exact ih c hc (idsNodup_of_mem (idsNodupL_kids hN) hc) n hnc

/-- **general characterisation of the kept set** (arbitrary verdicts `w`, forest with distinct
identities): the node `n` of `ks` occurs (by identity) in `keepL w ks` iff
* some ancestor-or-self `a` of `n` has verdict `select` and no proper ancestor of `a` blocks, or
* no proper ancestor of `n` blocks and `n` has an accepting descendant-or-self reachable
  without a blocker. -/
theorem keptL_iff (w : T → Verdict) {ks : List T} (hN : IdsNodupL ks) {n : T} (hn : n ∈ flatL ks) :
    (∃ n' ∈ flatL (keepL w ks), n'.id = n.id) ↔
      (∃ a ∈ flatL ks, n ∈ flat a ∧ w a = .select ∧ FreeAbove w (flatL ks) a) ∨
      (FreeAbove w (flatL ks) n ∧ HasWitness w n) := by
  obtain ⟨c, hc, hnc⟩ := mem_flatL.1 hn
  have hcN := idsNodup_of_mem hN hc
  have h1 : (∃ n' ∈ flatL (keepL w ks), n'.id = n.id) ↔ KeptInT w c n := by
    constructor
    · rintro ⟨n', hn', hid⟩
      obtain ⟨c', hc', k', hk', hn'k'⟩ := mem_flatL_keepL.1 hn'
      obtain ⟨y, hy, hyid⟩ := id_of_mem_keepT hk' hn'k'
      have : c = c' := idsNodupL_disjoint hN hc hc' hnc hy (hid.symm.trans hyid.symm)
      subst this
      exact ⟨k', hk', n', hn'k', hid⟩
    · rintro ⟨k, hk, n', hn', hid⟩
      exact ⟨n', mem_flatL_keepL.2 ⟨c, hc, k, hk, hn'⟩, hid⟩
  rw [h1, keptT_iff w c hcN n hnc]
  unfold KeptCond
  rw [freeAbove_forest hN hc hnc, ← keepT_ne_none_iff w n (idsNodup_of_mem_flat hcN hnc)]
  constructor
  · rintro (⟨a, ha, hna, hwa, hfree⟩ | h)
    · exact Or.inl ⟨a, mem_flatL.2 ⟨c, hc, ha⟩, hna, hwa, (freeAbove_forest hN hc ha).2 hfree⟩
    · exact Or.inr h
  · rintro (⟨a, ha, hna, hwa, hfree⟩ | h)
    · obtain ⟨c', hc', hac'⟩ := mem_flatL.1 ha
      have : c = c' := idsNodupL_disjoint hN hc hc' hnc (mem_flat_trans hna hac') rfl
      subst this
      exact Or.inl ⟨a, hac', hna, hwa, (freeAbove_forest hN hc hac').1 hfree⟩
    · exact Or.inr h

/-! ### comparability of ancestors, transitivity -/

theorem anc_trans {b a n : T} (hba : Anc b a) (hna : n ∈ flat a) : Anc b n := by
  obtain ⟨c, hc, hac⟩ := mem_flatL.1 hba
  exact mem_flatL.2 ⟨c, hc, mem_flat_trans hna hac⟩

theorem mem_flatL_of_anc {ks : List T} {a m : T} (ha : a ∈ flatL ks) (hm : Anc a m) : m ∈ flatL ks := by
  obtain ⟨c, hc, hac⟩ := mem_flatL.1 ha
  exact mem_flatL.2 ⟨c, hc, mem_flat_trans (mem_flat_of_mem_flatL_kids hm) hac⟩

theorem anc_comparable_tree : ∀ t : T, C10.IdsNodup t → ∀ {a b n : T}, a ∈ flat t → b ∈ flat t →
    n ∈ flat a → n ∈ flat b → a ∈ flat b ∨ b ∈ flat a := by
  intro t
  induction t using T.ind with
  | node i ks ih =>
    intro hN a b n ha hb hna hnb
    rw [flat_node, List.mem_cons] at ha hb
    rcases ha with rfl | ha
    · right; rw [flat_node, List.mem_cons]; exact hb
    rcases hb with rfl | hb
    · left; rw [flat_node]; exact List.mem_cons_of_mem _ ha
    obtain ⟨ca, hca, haca⟩ := mem_flatL.1 ha
    obtain ⟨cb, hcb, hbcb⟩ := mem_flatL.1 hb
    have : ca = cb := idsNodupL_disjoint (idsNodupL_kids hN) hca hcb (mem_flat_trans hna haca)
      (mem_flat_trans hnb hbcb) rfl
    subst this
    exact ih ca hca (idsNodup_of_mem (idsNodupL_kids hN) hca) haca hbcb hna hnb

theorem anc_comparable {ks : List T} (hN : IdsNodupL ks) {a b n : T} (ha : a ∈ flatL ks) (hb : b ∈ flatL ks)
    (hna : n ∈ flat a) (hnb : n ∈ flat b) : a ∈ flat b ∨ b ∈ flat a := by
  obtain ⟨ca, hca, haca⟩ := mem_flatL.1 ha
  obtain ⟨cb, hcb, hbcb⟩ := mem_flatL.1 hb
  have : ca = cb := idsNodupL_disjoint hN hca hcb (mem_flat_trans hna haca) (mem_flat_trans hnb hbcb) rfl
  subst this
  exact anc_comparable_tree ca (idsNodup_of_mem hN hca) haca hbcb hna hnb

/-! ### effective verdicts below a node the scan does not descend into -/

/-- **effective verdicts are `reject` strictly below every node whose (effective) verdict does not
let the scan descend** (skip, skip-keep-self, select, …). -/
theorem agree_below (v w : T → Verdict) : ∀ ks : List T, ∀ s, IdsNodupL ks → Agree v w ks s →
    ∀ a ∈ flatL ks, (w a).descends = false → ∀ m, Anc a m → w m = .reject := by
  intro ks
  refine T.bothL
    (P := fun t => ∀ s, IdsNodupL t.kids → Agree v w t.kids s →
      ∀ a ∈ flatL t.kids, (w a).descends = false → ∀ m, Anc a m → w m = .reject)
    (Q := fun ks => ∀ s, IdsNodupL ks → Agree v w ks s →
      ∀ a ∈ flatL ks, (w a).descends = false → ∀ m, Anc a m → w m = .reject)
    (fun _ _ h => h) (by intro s _ _ a ha; simp at ha) ?_ ks
  intro n ns ihn ihns s hN hA a ha hwa m hm
  have hNn : C10.IdsNodup n := ((idsNodupL_cons n ns).1 hN).1
  have hNs := ((idsNodupL_cons n ns).1 hN).2.1
  have hallcase : (∀ x ∈ flatL (n :: ns), w x = .reject) → w m = .reject :=
    fun hall => hall m (mem_flatL_of_anc ha hm)
  rw [flatL_cons, List.mem_append, flat_eq, List.mem_cons] at ha
  cases s with
  | true => exact hallcase hA.stopped
  | false =>
    by_cases hd : (v n).descends = true
    · obtain ⟨h1, h2, h3⟩ := hA.descend hN hd
      rcases ha with (rfl | ha) | ha
      · rw [h1, hd] at hwa; cases hwa
      · exact ihn false (idsNodupL_kids hNn) h2 a ha hwa m hm
      · exact ihns _ hNs h3 a ha hwa m hm
    · have hd' : (v n).descends = false := by simpa using hd
      by_cases hs : v n = .stop
      · exact hallcase (hA.stop hs)
      · obtain ⟨_, h2, h3⟩ := hA.leafy hN hd' hs
        rcases ha with (rfl | ha) | ha
        · exact h2 m hm
        · exact h2 m (anc_trans ha (mem_flat_of_mem_flatL_kids hm))
        · exact ihns _ hNs h3 a ha hwa m hm

theorem not_descends_of_blocks {x : Verdict} (h : Blocks x) : x.descends = false := by
  rcases h with h | h <;> rw [h] <;> rfl

end Flt
end Nutree
