/-
  Nutree.Lemmas.DiffFinal — the level-wise specification survives the re-classification loop:
  `Spec ordered t0 t1 (diffTree ordered false t0 t1 o)`.
-/
import Nutree.Lemmas.DiffSpec
import Nutree.Lemmas.DiffZone
namespace Nutree
open T C10
namespace Diff

theorem reclT_iff {b : Bool} {x0 x : T} :
    ReclT b x0 x ↔ SameBut x0.info x.info ∧ Trans (addedFlag b x0.info = true) (dcOf x0) (dcOf x) ∧
      ReclL (addedFlag b x0.info) x0.kids x.kids := by
  cases x0; cases x; simp only [ReclT, info_node, kids_node, dcOf_eq]

theorem reclL_length {b : Bool} : ∀ {r0 r : List T}, ReclL b r0 r → r0.length = r.length := by
  intro r0
  induction r0 with
  | nil => intro r h; rw [reclL_nil_left] at h; subst h; rfl
  | cons t ts ih =>
    intro r h
    cases r with
    | nil => simp [ReclL] at h
    | cons u us => simp only [ReclL] at h; simp [ih h.2]

theorem reclL_get {b : Bool} : ∀ {r0 r : List T}, ReclL b r0 r → ∀ (j : Nat) (x0 : T), r0[j]? = some x0 →
    ∃ x, r[j]? = some x ∧ ReclT b x0 x := by
  intro r0
  induction r0 with
  | nil => intro r _ j x0 h; simp at h
  | cons t ts ih =>
    intro r h j x0 hj
    cases r with
    | nil => simp [ReclL] at h
    | cons u us =>
      simp only [ReclL] at h
      cases j with
      | zero =>
        simp only [List.getElem?_cons_zero, Option.some.injEq] at hj
        subst hj
        exact ⟨u, rfl, h.1⟩
      | succ j =>
        simp only [List.getElem?_cons_succ] at hj ⊢
        exact ih h.2 j x0 hj

theorem reclL_get_right {b : Bool} {r0 r : List T} (h : ReclL b r0 r) {j : Nat} {x : T}
    (hj : r[j]? = some x) : ∃ x0, r0[j]? = some x0 ∧ ReclT b x0 x := by
  have hlt : j < r0.length := by rw [reclL_length h]; exact (List.getElem?_eq_some_iff.1 hj).1
  obtain ⟨x', hx', hr⟩ := reclL_get h j r0[j] (List.getElem?_eq_getElem hlt)
  rw [hj] at hx'
  injection hx' with hx'
  subst hx'
  exact ⟨_, List.getElem?_eq_getElem hlt, hr⟩

/-- copies stay copies. -/
theorem simL_copyQ_recl : ∀ (src : List T) (b : Bool) (r0 r : List T),
    SimL CopyQ src r0 → ReclL b r0 r → SimL CopyQ src r := by
  intro src
  induction src using indList with
  | nil =>
    intro b r0 r h hr
    rw [simL_nil_left] at h; subst h
    rw [reclL_nil_left] at hr; subst hr
    simp [SimL]
  | cons i ks rest ihk ihr =>
    intro b r0 r h hr
    rw [simL_cons_left] at h
    obtain ⟨j0, ls0, bs0, he, ⟨q1, q2, q3, q4⟩, h2, h3⟩ := h
    subst he
    rw [reclL_cons_left] at hr
    obtain ⟨j, ls, cs, he, hs, ht, r2, r3⟩ := hr
    subst he
    rw [simL_cons_cons]
    refine ⟨⟨hs.2.1.trans q1, hs.2.2.1.trans q2, ?_, hs.2.2.2.2.trans q4⟩, ihk _ _ _ h2 r2, ihr _ _ _ h3 r3⟩
    rcases ht with ht | ⟨_, ht⟩ | ⟨ht, _⟩
    · rw [ht]; exact q3
    · exact Or.inr (Or.inr ht)
    · rw [ht] at q3; rcases q3 with q3 | q3 | q3 <;> exact absurd q3 (by decide)

theorem orderMark_ne_added (o : Bool) (i0 i1 : Nat) : orderMark o i0 i1 ≠ some "ADDED" := by
  unfold orderMark; split
  · intro e; exact order_ne_added _ _ (Option.some.inj e)
  · intro e; cases e

theorem orderMark_ne_removed (o : Bool) (i0 i1 : Nat) : orderMark o i0 i1 ≠ some "REMOVED" := by
  unfold orderMark; split
  · intro e; exact order_ne_removed _ _ (Option.some.inj e)
  · intro e; cases e

theorem orderMark_ne_movedTo (o : Bool) (i0 i1 : Nat) : orderMark o i0 i1 ≠ some "MOVED_TO" := by
  unfold orderMark; split
  · intro e; exact order_ne_movedTo _ _ (Option.some.inj e)
  · intro e; cases e

theorem orderMark_ne_movedHere (o : Bool) (i0 i1 : Nat) : orderMark o i0 i1 ≠ some "MOVED_HERE" := by
  unfold orderMark; split
  · intro e; exact order_ne_movedHere _ _ (Option.some.inj e)
  · intro e; cases e

theorem addedFlag_false_of_ne {i : Info} (h : dcI i ≠ some "ADDED") : addedFlag false i = false := by
  simp [addedFlag, h]

/-- a matched node is not touched by the loop, and the loop works below it as at top level. -/
theorem recl_matched {x0 x : T} {o : Bool} {i0 i1 : Nat} (h : ReclT false x0 x)
    (hd : dcOf x0 = orderMark o i0 i1) : dcOf x = orderMark o i0 i1 ∧ ReclL false x0.kids x.kids := by
  rw [reclT_iff] at h
  obtain ⟨_, ht, hk⟩ := h
  have hf : addedFlag false x0.info = false :=
    addedFlag_false_of_ne (by rw [← dcOf_eq, hd]; exact orderMark_ne_added _ _ _)
  rw [hf] at ht hk
  refine ⟨?_, hk⟩
  rcases ht with ht | ⟨hc, _⟩ | ⟨ht, _⟩
  · rw [ht, hd]
  · cases hc
  · rw [hd] at ht; exact absurd ht (orderMark_ne_removed _ _ _)

theorem local_transfer {o : Bool} {k0 k1 r0 r : List T} (hl : Local o k0 k1 r0)
    (hr : ReclL false r0 r) : Local o k0 k1 r := by
  refine ⟨by rw [← reclL_length hr]; exact hl.len, ?_, ?_⟩
  · intro j c0 h0
    obtain ⟨x0, hx0, hdata, hdid, hm⟩ := hl.src j c0 h0
    obtain ⟨x, hx, hrt⟩ := reclL_get hr j x0 hx0
    have hrt' := reclT_iff.1 hrt
    obtain ⟨hs, ht, hk⟩ := hrt'
    refine ⟨x, hx, hs.2.1.trans hdata, hs.2.2.1.trans hdid, ?_⟩
    unfold SrcMark at hm ⊢
    cases hf : findChild k1 c0 with
    | none =>
      rw [hf] at hm
      simp only [] at hm ⊢
      obtain ⟨m1, m2, m3⟩ := hm
      have hren : hasRen x = false := by unfold hasRen at m3 ⊢; rw [hs.2.2.2.2]; exact m3
      have hkids : x.kids = [] := by rw [m2] at hk; exact reclL_nil_left.1 hk
      refine ⟨?_, hkids, hren⟩
      have hfl : addedFlag false x0.info = false := by
        apply addedFlag_false_of_ne
        intro e
        unfold isRemoved at m1; rw [dcOf_eq, e] at m1; exact absurd m1 (by decide)
      rw [hfl] at ht
      unfold isRemoved at m1 ⊢
      rcases ht with ht | ⟨hc, _⟩ | ⟨_, ht⟩
      · rw [ht]; exact m1
      · cases hc
      · rw [ht]; decide
    | some p =>
      obtain ⟨i1, c1⟩ := p
      rw [hf] at hm
      simp only [] at hm ⊢
      obtain ⟨m1, m2⟩ := hm
      refine ⟨(recl_matched hrt m1).1, ?_⟩
      have : hasRen x = hasRen x0 := hs.2.2.2.2
      rw [this]; exact m2
  · intro j c1 h1
    obtain ⟨x0, hx0, hdata, hdid, hadd, hren, hsim⟩ := hl.add j c1 h1
    obtain ⟨x, hx, hrt⟩ := reclL_get hr _ x0 hx0
    obtain ⟨hs, ht, hk⟩ := reclT_iff.1 hrt
    refine ⟨x, hx, hs.2.1.trans hdata, hs.2.2.1.trans hdid, ?_, ?_, simL_copyQ_recl _ _ _ _ hsim hk⟩
    · unfold isAdded at hadd ⊢
      rcases ht with ht | ⟨_, ht⟩ | ⟨ht, _⟩
      · rw [ht]; exact hadd
      · rw [ht]; decide
      · rw [ht] at hadd; exact absurd hadd (by decide)
    · have : hasRen x = hasRen x0 := hs.2.2.2.2
      rw [this]; exact hren

theorem spec_transfer {o : Bool} {k0 k1 r0 r : List T} (hs : Spec o k0 k1 r0)
    (hr : ReclL false r0 r) : Spec o k0 k1 r := by
  intro a b c hm
  induction hm generalizing r0 with
  | here => exact local_transfer hs.here hr
  | down h0 hf h2 _ ih =>
    obtain ⟨x0, hx0, hrt⟩ := reclL_get_right hr h2
    obtain ⟨x0', hx0', _, _, hm⟩ := hs.here.src _ _ h0
    rw [hx0] at hx0'
    injection hx0' with hx0'
    subst hx0'
    unfold SrcMark at hm
    rw [hf] at hm
    exact ih (hs.down h0 hf hx0) (recl_matched hrt hm.1).2

theorem spec_rawDiff (ordered : Bool) (t0 t1 : List T) : Spec ordered t0 t1 (rawDiff ordered t0 t1) :=
  spec_cmpNode _ _ _ _

/-- the final (un-reduced) result satisfies the level-wise specification at every matched level. -/
theorem spec_diffTree {ordered : Bool} {t0 t1 : List T} {o : Option (List NodeId)}
    (hv : ValidOrder ordered t0 t1 o) : Spec ordered t0 t1 (diffTree ordered false t0 t1 o) :=
  spec_transfer (spec_rawDiff _ _ _) (diffTree_reclL hv)

end Diff
end Nutree
