/-
  Nutree.Lemmas.DiffBasic — vocabulary and elementary facts for the `diff_tree` model
  (`Nutree/Model/Diff.lean`): forest induction, mark accessors, `mk`, `setDc`, the mark strings,
  hypotheses `SibU` / `IdFaithful`, projections `dropMarked` / `plainShape`, and the
  position-wise relation `SimL`.
-/
import Nutree.Model.Diff
import Nutree.Lemmas.Prim
namespace Nutree
open T C10
namespace Diff

/-! ## 0. induction on forests -/

/-- Induction on a forest: the empty forest, and `node i ks :: rest` from `ks` and `rest`. -/
theorem indList {motive : List T → Prop} (nil : motive [])
    (cons : ∀ i ks rest, motive ks → motive rest → motive (.node i ks :: rest)) : ∀ l, motive l := by
  have key : ∀ n, ∀ l : List T, sizeL l ≤ n → motive l := by
    intro n
    induction n with
    | zero =>
      intro l hl
      cases l with
      | nil => exact nil
      | cons t ts => cases t with | node i ks => simp [sizeL, size] at hl
    | succ n ih =>
      intro l hl
      cases l with
      | nil => exact nil
      | cons t ts =>
        cases t with
        | node i ks =>
          simp only [sizeL, size] at hl
          exact cons i ks ts (ih ks (by omega)) (ih ts (by omega))
  exact fun l => key _ l (Nat.le_refl _)

/-! ## 1. marks -/

/-- the `dc` mark of a record. -/
def dcI (i : Info) : Option String := (i.nmeta.getD []).lookup "dc"
/-- the record carries `dc_renumbered`. -/
def renI (i : Info) : Bool := ((i.nmeta.getD []).lookup "dc_renumbered").isSome
/-- the node carries `dc_renumbered`. -/
def hasRen (n : T) : Bool := renI n.info

theorem dcOf_eq (n : T) : dcOf n = dcI n.info := rfl

/-- marked ADDED or MOVED_HERE. -/
def isAddedS (d : Option String) : Bool := d == some "ADDED" || d == some "MOVED_HERE"
/-- marked REMOVED or MOVED_TO. -/
def isRemovedS (d : Option String) : Bool := d == some "REMOVED" || d == some "MOVED_TO"
def isAdded (n : T) : Bool := isAddedS (dcOf n)
def isRemoved (n : T) : Bool := isRemovedS (dcOf n)

theorem order_str_head (a b : Nat) : (DC.order a b).str.toList.head? = some '(' := by
  simp only [DC.str, toString, String.toList_append]
  rfl

theorem order_str_ne (a b : Nat) (s : String) (hs : s.toList.head? ≠ some '(') :
    (DC.order a b).str ≠ s := by
  intro h
  have hl := order_str_head a b
  rw [h] at hl
  exact hs hl

theorem order_ne_added (a b : Nat) : (DC.order a b).str ≠ "ADDED" := order_str_ne a b _ (by decide)
theorem order_ne_removed (a b : Nat) : (DC.order a b).str ≠ "REMOVED" := order_str_ne a b _ (by decide)
theorem order_ne_movedHere (a b : Nat) : (DC.order a b).str ≠ "MOVED_HERE" := order_str_ne a b _ (by decide)
theorem order_ne_movedTo (a b : Nat) : (DC.order a b).str ≠ "MOVED_TO" := order_str_ne a b _ (by decide)

/-! ## 2. `mk` -/

@[simp] theorem mk_id (id : NodeId) (src : T) (dc : Option DC) (r : Bool) (ks : List T) :
    (mk id src dc r ks).id = id := rfl
@[simp] theorem mk_data (id : NodeId) (src : T) (dc : Option DC) (r : Bool) (ks : List T) :
    (mk id src dc r ks).data = src.data := rfl
@[simp] theorem mk_did (id : NodeId) (src : T) (dc : Option DC) (r : Bool) (ks : List T) :
    (mk id src dc r ks).did = src.did := rfl
@[simp] theorem mk_kids (id : NodeId) (src : T) (dc : Option DC) (r : Bool) (ks : List T) :
    (mk id src dc r ks).kids = ks := rfl
@[simp] theorem mk_dcOf (id : NodeId) (src : T) (dc : Option DC) (r : Bool) (ks : List T) :
    dcOf (mk id src dc r ks) = dc.map DC.str := by
  cases dc <;> cases r <;> simp [mk, dcOf]
@[simp] theorem mk_hasRen (id : NodeId) (src : T) (dc : Option DC) (r : Bool) (ks : List T) :
    hasRen (mk id src dc r ks) = r := by
  cases dc <;> cases r <;> simp [mk, hasRen, renI] <;> decide

theorem flat_mk (id : NodeId) (src : T) (dc : Option DC) (r : Bool) (ks : List T) :
    flat (mk id src dc r ks) = mk id src dc r ks :: flatL ks := by
  unfold mk; rw [flat_node]

/-! ## 3. `setDc` -/

theorem lookup_setDc_aux (v : String) (m : List (String × String)) :
    List.lookup "dc" (if m.any (·.1 == "dc") then m.map (fun e => if e.1 == "dc" then ("dc", v) else e)
      else m ++ [("dc", v)]) = some v := by
  induction m with
  | nil => simp
  | cons e m ih =>
    obtain ⟨k, w⟩ := e
    by_cases hk : k = "dc"
    · subst hk; simp
    · have hk' : ("dc" == k) = false := by simp [Ne.symm hk]
      have hk2 : (k == "dc") = false := by simp [hk]
      simp only [List.any_cons, hk2, Bool.false_or, List.map_cons, List.cons_append] at ih ⊢
      split at ih <;> rename_i hany
      · simp only [hany, if_true, Bool.false_eq_true, if_false, List.lookup, hk'] at ih ⊢; exact ih
      · simp only [hany, Bool.false_eq_true, if_false, List.lookup, hk'] at ih ⊢; exact ih

theorem lookup_setDc_other (v k : String) (hk : k ≠ "dc") (m : List (String × String)) :
    List.lookup k (if m.any (·.1 == "dc") then m.map (fun e => if e.1 == "dc" then ("dc", v) else e)
      else m ++ [("dc", v)]) = List.lookup k m := by
  have hkd : (k == "dc") = false := by simp [hk]
  have key1 : ∀ m : List (String × String),
      List.lookup k (m.map (fun e => if e.1 == "dc" then ("dc", v) else e)) = List.lookup k m := by
    intro m
    induction m with
    | nil => rfl
    | cons e m ih =>
      obtain ⟨k', w⟩ := e
      by_cases h : k' = "dc"
      · subst h
        simp only [List.map_cons, BEq.rfl, if_true, List.lookup, hkd, ih]
      · have : (k' == "dc") = false := by simp [h]
        simp only [List.map_cons, this, Bool.false_eq_true, if_false, List.lookup, ih]
  have key2 : ∀ m : List (String × String), List.lookup k (m ++ [("dc", v)]) = List.lookup k m := by
    intro m
    induction m with
    | nil => simp [List.lookup, hkd]
    | cons e m ih =>
      obtain ⟨k', w⟩ := e
      simp only [List.cons_append, List.lookup, ih]
  split
  · exact key1 m
  · exact key2 m

@[simp] theorem setDc_id (v : String) (i : Info) : (setDc v i).id = i.id := rfl
@[simp] theorem setDc_data (v : String) (i : Info) : (setDc v i).data = i.data := rfl
@[simp] theorem setDc_did (v : String) (i : Info) : (setDc v i).did = i.did := rfl
@[simp] theorem setDc_kind (v : String) (i : Info) : (setDc v i).kind = i.kind := rfl
@[simp] theorem dcI_setDc (v : String) (i : Info) : dcI (setDc v i) = some v := by
  unfold dcI setDc; exact lookup_setDc_aux v _
@[simp] theorem renI_setDc (v : String) (i : Info) : renI (setDc v i) = renI i := by
  unfold renI setDc
  have := lookup_setDc_other v "dc_renumbered" (by decide) (i.nmeta.getD [])
  simp only [Option.getD_some]
  rw [this]

end Diff
end Nutree
