/-
  Nutree.Lemmas.SerialMaps — facts about the key/value maps of the native file format
  (`compress`/`uncompress`), the `meta` header written by `save`, and the header checks of `load`.
-/
import Nutree.Model.Serial
set_option linter.unusedSimpArgs false
namespace Nutree

/-! ### `==` on `JVal` is lawful -/

namespace JVal
mutual
theorem eq_of_beq' : ∀ a b : JVal, beq a b = true → a = b
  | .null, .null, _ => rfl
  | .bool a, .bool b, h => by simp [beq] at h; simp [h]
  | .num a, .num b, h => by simp [beq] at h; simp [h]
  | .str a, .str b, h => by simp [beq] at h; simp [h]
  | .arr a, .arr b, h => by rw [beq] at h; rw [eqL_of_beqL a b h]
  | .obj a, .obj b, h => by rw [beq] at h; rw [eqO_of_beqO a b h]
  | .null, .bool _, h | .null, .num _, h | .null, .str _, h | .null, .arr _, h | .null, .obj _, h => by simp [beq] at h
  | .bool _, .null, h | .bool _, .num _, h | .bool _, .str _, h | .bool _, .arr _, h | .bool _, .obj _, h => by simp [beq] at h
  | .num _, .null, h | .num _, .bool _, h | .num _, .str _, h | .num _, .arr _, h | .num _, .obj _, h => by simp [beq] at h
  | .str _, .null, h | .str _, .bool _, h | .str _, .num _, h | .str _, .arr _, h | .str _, .obj _, h => by simp [beq] at h
  | .arr _, .null, h | .arr _, .bool _, h | .arr _, .num _, h | .arr _, .str _, h | .arr _, .obj _, h => by simp [beq] at h
  | .obj _, .null, h | .obj _, .bool _, h | .obj _, .num _, h | .obj _, .str _, h | .obj _, .arr _, h => by simp [beq] at h
theorem eqL_of_beqL : ∀ a b : List JVal, beqL a b = true → a = b
  | [], [], _ => rfl
  | x :: xs, y :: ys, h => by
    rw [beqL, Bool.and_eq_true] at h
    rw [eq_of_beq' x y h.1, eqL_of_beqL xs ys h.2]
  | [], _ :: _, h | _ :: _, [], h => by simp [beqL] at h
theorem eqO_of_beqO : ∀ a b : List (String × JVal), beqO a b = true → a = b
  | [], [], _ => rfl
  | (k, x) :: xs, (l, y) :: ys, h => by
    rw [beqO, Bool.and_eq_true, Bool.and_eq_true] at h
    have hk : k = l := by simpa using h.1.1
    rw [eq_of_beq' x y h.1.2, eqO_of_beqO xs ys h.2, hk]
  | [], _ :: _, h | _ :: _, [], h => by simp [beqO] at h
end
theorem eq_of_beq (a b : JVal) (h : (a == b) = true) : a = b := eq_of_beq' a b h

mutual
theorem beq_refl' : ∀ a : JVal, beq a a = true
  | .null => rfl
  | .bool a => by simp [beq]
  | .num a => by simp [beq]
  | .str a => by simp [beq]
  | .arr a => by rw [beq]; exact beqL_refl a
  | .obj a => by rw [beq]; exact beqO_refl a
theorem beqL_refl : ∀ a : List JVal, beqL a a = true
  | [] => rfl
  | x :: xs => by rw [beqL, beq_refl' x, beqL_refl xs]; rfl
theorem beqO_refl : ∀ a : List (String × JVal), beqO a a = true
  | [] => rfl
  | (k, x) :: xs => by rw [beqO, beq_refl' x, beqO_refl xs]; simp
end

instance : LawfulBEq JVal where
  eq_of_beq {a b} h := eq_of_beq a b h
  rfl {a} := beq_refl' a
end JVal

namespace Ser
open Nutree

/-! ### L5: `uncompress ∘ compress` -/

theorem mapM_option_cons {α β} (f : α → Option β) (a : α) (l : List α) :
    (a :: l).mapM f = (f a).bind fun b => (l.mapM f).bind fun bs => some (b :: bs) := by
  rw [List.mapM_cons]; rfl

theorem mapM_option_inverse {α β} (f : α → Option β) (g : β → Option α) :
    ∀ (d : List α) (d' : List β), d.mapM f = some d' →
      (∀ e ∈ d, ∀ e', f e = some e' → g e' = some e) → d'.mapM g = some d
  | [], d', h, _ => by
    simp at h; subst h; simp
  | a :: l, d', h, hg => by
    rw [mapM_option_cons] at h
    cases hfa : f a with
    | none => simp [hfa] at h
    | some b =>
      cases hl : l.mapM f with
      | none => simp [hfa, hl] at h
      | some bs =>
        simp [hfa, hl] at h; subst h
        rw [mapM_option_cons, hg a (by simp) b hfa,
          mapM_option_inverse f g l bs hl (fun e he => hg e (by simp [he]))]
        rfl

/-- the short name written for key `k`. -/
abbrev shortKey (o : Opts) (k : String) : String := (o.keyMap.lookup k).getD k
/-- the inverse key map built by `load` (short → long). -/
abbrev invKeyMap (o : Opts) : List (String × String) := o.keyMap.map fun (k, s) => (s, k)

def compressField (o : Opts) : String × JVal → Option (String × JVal) := fun (k, v) =>
    let short := (o.keyMap.lookup k).getD k
    match o.valueMap.lookup k with
    | none => some (short, v)
    | some vals =>
      let i := vals.findIdx (· == v)
      if i < vals.length then some (short, .num i) else none

def uncompressField (inverseKeyMap : List (String × String)) (valueMap : List (String × List JVal)) :
    String × JVal → Option (String × JVal) := fun (k, v) =>
    let long := (inverseKeyMap.lookup k).getD k
    match v, valueMap.lookup long with
    | .num i, some vals => (pyIndex vals i).map fun x => (long, x)
    | .bool b, some vals => (vals[if b then 1 else 0]?).map fun x => (long, x)
    | _, _ => some (long, v)

theorem compress_eq (o : Opts) (d : Fields) : compress o d = d.mapM (compressField o) := rfl
theorem uncompress_eq (inv vm) (d : Fields) : uncompress inv vm d = d.mapM (uncompressField inv vm) := rfl

theorem uncompressField_compressField {o : Opts} {k : String} {v : JVal} {e' : String × JVal}
    (hk : ((invKeyMap o).lookup (shortKey o k)).getD (shortKey o k) = k)
    (h : compressField o (k, v) = some e') :
    uncompressField (invKeyMap o) o.valueMap e' = some (k, v) := by
  unfold compressField at h
  cases hv : o.valueMap.lookup k with
  | none =>
    simp only [hv] at h
    injection h with h; subst h
    simp only [uncompressField, hk, hv]
  | some vals =>
    simp only [hv] at h
    split at h
    · rename_i hlt
      injection h with h; subst h
      have hx : (vals[vals.findIdx (· == v)]'hlt == v) = true :=
        List.findIdx_getElem (p := (· == v)) (w := hlt)
      have hx := JVal.eq_of_beq _ _ hx
      simp only [uncompressField, hk, hv, pyIndex]
      have : ¬ ((vals.findIdx (· == v) : Nat) : Int) < 0 := by omega
      simp [this, hlt, hx]
    · cases h


theorem lookup_inv_of_mem_nodup : ∀ (km : List (String × String)) (k s : String),
    (km.map (·.2)).Nodup → (k, s) ∈ km → (km.map fun (k, s) => (s, k)).lookup s = some k
  | [], _, _, _, h => by cases h
  | (k0, s0) :: km, k, s, hnd, h => by
    simp only [List.map_cons, List.nodup_cons] at hnd
    simp only [List.map_cons, List.lookup_cons]
    rcases List.mem_cons.1 h with h' | h'
    · injection h' with h1 h2; subst h1; subst h2; simp
    · have hne : s ≠ s0 := by
        rintro rfl; exact hnd.1 (List.mem_map.2 ⟨(k, s), h', rfl⟩)
      have : (s == s0) = false := by simpa using hne
      simp only [this]
      exact lookup_inv_of_mem_nodup km k s hnd.2 h'

theorem mem_of_lookup_eq_some {α β} [BEq α] [LawfulBEq α] : ∀ {l : List (α × β)} {k : α} {v : β},
    l.lookup k = some v → (k, v) ∈ l
  | [], _, _, h => by cases h
  | (k0, v0) :: l, k, v, h => by
    rw [List.lookup_cons] at h
    split at h
    · rename_i hk; injection h with h; subst h
      have : k = k0 := by simpa using hk
      subst this; simp
    · exact List.mem_cons_of_mem _ (mem_of_lookup_eq_some h)

theorem lookup_inv_eq_none {km : List (String × String)} {k : String}
    (h : ∀ p ∈ km, p.2 ≠ k) : (km.map fun (k, s) => (s, k)).lookup k = none := by
  rw [List.lookup_eq_none_iff]
  intro p hp
  obtain ⟨q, hq, rfl⟩ := List.mem_map.1 hp
  have := h q hq
  simpa using fun h => this h.symm



theorem lookup_ne_none_of_mem {α β} [BEq α] [LawfulBEq α] {l : List (α × β)} {k : α} {v : β}
    (h : (k, v) ∈ l) : l.lookup k ≠ none := by
  intro hn
  rw [List.lookup_eq_none_iff] at hn
  simpa using hn _ h

theorem mem_invKeyMap {o : Opts} {s k : String} : (s, k) ∈ invKeyMap o ↔ (k, s) ∈ o.keyMap := by
  constructor
  · intro h
    obtain ⟨q, hq, he⟩ := List.mem_map.1 h
    cases q; cases he; exact hq
  · intro h; exact List.mem_map.2 ⟨(k, s), h, rfl⟩

/-- **Validity of the maps for one entry.**  `o.keyMap` is Python's `key_map` (long name → short
name, in dict order), `o.valueMap` is `value_map` (long name → list of allowed values), `d` is the
node's dict before compression.  `load` inverts `key_map` into `invKeyMap o` (short → long).

* `mapped`: a key `k` of the entry that `key_map` renames to `s` is what the inverse map gives back
  for `s` (i.e. the *first* `key_map` item with short name `s` is the one for `k`; this holds e.g.
  when the short names are pairwise distinct).
* `unmapped`: a key `k` of the entry that `key_map` does not rename is not itself the short name of
  some `key_map` item (otherwise `load` would rename it to that item's long name).

Nothing is required of `value_map` (both directions look the list up under the *long* name and
`JVal`'s `==` is lawful), of the values (an integer under a key without value list is left alone),
or of the keys of `d` being distinct.  `validMaps_iff` / `validMaps_of_roundtrip` show that this is
exactly the condition under which the round trip holds. -/
structure ValidMaps (o : Opts) (d : Fields) : Prop where
  mapped : ∀ e ∈ d, ∀ s, o.keyMap.lookup e.1 = some s → (invKeyMap o).lookup s = some e.1
  unmapped : ∀ e ∈ d, o.keyMap.lookup e.1 = none → ∀ p ∈ o.keyMap, p.2 ≠ e.1

/-- `ValidMaps` says exactly that renaming there and back is the identity on the keys of `d`. -/
theorem validMaps_iff {o : Opts} {d : Fields} :
    ValidMaps o d ↔
      ∀ e ∈ d, ((invKeyMap o).lookup (shortKey o e.1)).getD (shortKey o e.1) = e.1 := by
  constructor
  · intro hv e he
    cases hl : o.keyMap.lookup e.1 with
    | none =>
      simp only [shortKey, hl, Option.getD_none]
      rw [lookup_inv_eq_none (hv.unmapped e he hl)]; rfl
    | some s =>
      simp only [shortKey, hl, Option.getD_some]
      rw [hv.mapped e he s hl]; rfl
  · intro h
    refine ⟨fun e he s hl => ?_, fun e he hl p hp hps => ?_⟩
    · have := h e he
      simp only [shortKey, hl, Option.getD_some] at this
      have hmem : (s, e.1) ∈ invKeyMap o := mem_invKeyMap.2 (mem_of_lookup_eq_some hl)
      cases hi : (invKeyMap o).lookup s with
      | none => exact absurd hi (lookup_ne_none_of_mem hmem)
      | some x => rw [hi] at this; simpa using this
    · have := h e he
      simp only [shortKey, hl, Option.getD_none] at this
      have hmem : (e.1, p.1) ∈ invKeyMap o := mem_invKeyMap.2 (by rw [← hps]; exact hp)
      cases hi : (invKeyMap o).lookup e.1 with
      | none => exact absurd hi (lookup_ne_none_of_mem hmem)
      | some x =>
        rw [hi] at this
        have hx : x = e.1 := by simpa using this
        have h2 : (e.1, x) ∈ invKeyMap o := mem_of_lookup_eq_some hi
        rw [hx] at h2
        exact lookup_ne_none_of_mem (mem_invKeyMap.1 h2) hl

/-- Sufficient: the short names of `key_map` are pairwise distinct, and an entry key that is not
renamed is not one of the short names. -/
theorem ValidMaps.of_nodup {o : Opts} {d : Fields} (hnd : (o.keyMap.map (·.2)).Nodup)
    (hun : ∀ e ∈ d, o.keyMap.lookup e.1 = none → ∀ p ∈ o.keyMap, p.2 ≠ e.1) : ValidMaps o d :=
  ⟨fun _ _ s hl => lookup_inv_of_mem_nodup o.keyMap _ s hnd (mem_of_lookup_eq_some hl), hun⟩

/-- Sufficient: the short names are pairwise distinct and none of them is a key of the entry. -/
theorem ValidMaps.of_nodup_of_disjoint {o : Opts} {d : Fields} (hnd : (o.keyMap.map (·.2)).Nodup)
    (hdis : ∀ e ∈ d, ∀ p ∈ o.keyMap, p.2 ≠ e.1) : ValidMaps o d :=
  ValidMaps.of_nodup hnd fun e he _ => hdis e he

/-- no key map: always valid (whatever the value map and file meta are). -/
theorem validMaps_of_keyMap_nil {o : Opts} {d : Fields} (h : o.keyMap = []) : ValidMaps o d :=
  ⟨fun _ _ s hl => by simp [h] at hl, fun _ _ _ p hp => by simp [h] at hp⟩

theorem validMaps_empty {d : Fields} : ValidMaps {} d := validMaps_of_keyMap_nil rfl

/-- **L5.** what `save` compressed, `load` un-compresses to the original entry. -/
theorem uncompress_compress {o : Opts} {d d' : Fields} (hv : ValidMaps o d)
    (h : compress o d = some d') :
    uncompress (o.keyMap.map fun (k, s) => (s, k)) o.valueMap d' = some d := by
  rw [compress_eq] at h
  rw [uncompress_eq]
  refine mapM_option_inverse _ _ d d' h ?_
  rintro ⟨k, v⟩ he e' hc
  exact uncompressField_compressField (validMaps_iff.1 hv _ he) hc

theorem mapM_option_mem {α β} (f : α → Option β) (g : β → Option α) :
    ∀ (d : List α) (d' : List β), d.mapM f = some d' → d'.mapM g = some d →
      ∀ e ∈ d, ∃ e', f e = some e' ∧ g e' = some e
  | [], _, _, _ => by simp
  | a :: l, d', h, hg => by
    rw [mapM_option_cons] at h
    cases hfa : f a with
    | none => simp [hfa] at h
    | some b =>
      cases hl : l.mapM f with
      | none => simp [hfa, hl] at h
      | some bs =>
        simp [hfa, hl] at h; subst h
        rw [mapM_option_cons] at hg
        cases hgb : g b with
        | none => simp [hgb] at hg
        | some a' =>
          cases hbs : bs.mapM g with
          | none => simp [hgb, hbs] at hg
          | some l' =>
            simp [hgb, hbs] at hg
            obtain ⟨rfl, rfl⟩ := hg
            intro e he
            rcases List.mem_cons.1 he with rfl | he
            · exact ⟨b, hfa, hgb⟩
            · exact mapM_option_mem f g _ bs hl hbs e he

theorem compressField_fst {o : Opts} {k : String} {v : JVal} {e' : String × JVal}
    (h : compressField o (k, v) = some e') : e'.1 = shortKey o k := by
  unfold compressField at h
  cases hv : o.valueMap.lookup k with
  | none => simp only [hv] at h; injection h with h; subst h; rfl
  | some vals =>
    simp only [hv] at h
    split at h
    · injection h with h; subst h; rfl
    · cases h

theorem uncompressField_fst {inv : List (String × String)} {vm : List (String × List JVal)}
    {e e' : String × JVal} (h : uncompressField inv vm e = some e') :
    e'.1 = (inv.lookup e.1).getD e.1 := by
  obtain ⟨k, v⟩ := e
  simp only [uncompressField] at h
  split at h
  · rename_i i vals _
    cases hx : pyIndex vals i with
    | none => simp [hx] at h
    | some x => simp [hx] at h; subst h; rfl
  · rename_i b vals _
    cases hx : vals[if b = true then 1 else 0]? with
    | none => simp [hx] at h
    | some x => simp [hx] at h; subst h; rfl
  · injection h with h; subst h; rfl

/-- Converse of `uncompress_compress`: `ValidMaps` is necessary for the round trip. -/
theorem validMaps_of_roundtrip {o : Opts} {d d' : Fields} (h : compress o d = some d')
    (hu : uncompress (o.keyMap.map fun (k, s) => (s, k)) o.valueMap d' = some d) :
    ValidMaps o d := by
  rw [validMaps_iff]
  intro e he
  obtain ⟨e', h1, h2⟩ := mapM_option_mem _ _ d d' h hu e he
  have := uncompressField_fst h2
  rw [compressField_fst (k := e.1) (v := e.2) h1] at this
  exact this.symm

/-- without maps `_compress_entry` is the identity. -/
theorem compress_empty (d : Fields) : compress {} d = some d := by
  rw [compress_eq]
  induction d with
  | nil => rfl
  | cons a l ih =>
    rw [mapM_option_cons, ih]
    obtain ⟨k, v⟩ := a
    rfl

/-- more generally: no key map and no value map, any file meta. -/
theorem compress_of_nil {o : Opts} (hk : o.keyMap = []) (hv : o.valueMap = []) (d : Fields) :
    compress o d = some d := by
  rw [compress_eq]
  induction d with
  | nil => rfl
  | cons a l ih =>
    rw [mapM_option_cons, ih]
    obtain ⟨k, v⟩ := a
    simp [compressField, hk, hv]

/-! ### `hasNutree` of the generator string -/

theorem length_lt_splitOnAux (s sep : String) (b i j : String.Pos.Raw) (r : List String) :
    r.length < (String.splitOnAux s sep b i j r).length := by
  fun_induction String.splitOnAux s sep b i j r with
  | case1 b i j r h r' => simp [r']
  | case2 b i j r h1 h2 i' j' h3 ih => exact Nat.lt_trans (by simp) ih
  | case3 b i j r h1 h2 i' j' h3 ih => exact ih
  | case4 b i j r h1 h2 ih => exact ih

theorem splitOnAux_step (s sep : String) (b i j : String.Pos.Raw) (r : List String)
    (h1 : i.atEnd s = false) (h2 : i.get s = j.get sep) (h3 : (j.next sep).atEnd sep = false) :
    String.splitOnAux s sep b i j r = String.splitOnAux s sep b (i.next s) (j.next sep) r := by
  rw [String.splitOnAux]; simp [h1, h2, h3]

theorem splitOnAux_final (s sep : String) (b i j : String.Pos.Raw) (r : List String)
    (h1 : i.atEnd s = false) (h2 : i.get s = j.get sep) (h3 : (j.next sep).atEnd sep = true) :
    String.splitOnAux s sep b i j r =
      String.splitOnAux s sep (i.next s) (i.next s) 0
        (b.extract s ((i.next s).unoffsetBy (j.next sep)) :: r) := by
  rw [String.splitOnAux]; simp [h1, h2, h3]

theorem hasNutree_generator : hasNutree ("nutree/" ++ Generated.version) = true := by
  unfold hasNutree String.splitOn
  rw [if_neg (by decide)]
  have n0 : String.Pos.Raw.next ("nutree/" ++ Generated.version) 0 = ⟨1⟩ := by decide
  have n1 : String.Pos.Raw.next ("nutree/" ++ Generated.version) ⟨1⟩ = ⟨2⟩ := by decide
  have n2 : String.Pos.Raw.next ("nutree/" ++ Generated.version) ⟨2⟩ = ⟨3⟩ := by decide
  have n3 : String.Pos.Raw.next ("nutree/" ++ Generated.version) ⟨3⟩ = ⟨4⟩ := by decide
  have n4 : String.Pos.Raw.next ("nutree/" ++ Generated.version) ⟨4⟩ = ⟨5⟩ := by decide
  have n5 : String.Pos.Raw.next ("nutree/" ++ Generated.version) ⟨5⟩ = ⟨6⟩ := by decide
  have m0 : String.Pos.Raw.next "nutree/" 0 = ⟨1⟩ := by decide
  have m1 : String.Pos.Raw.next "nutree/" ⟨1⟩ = ⟨2⟩ := by decide
  have m2 : String.Pos.Raw.next "nutree/" ⟨2⟩ = ⟨3⟩ := by decide
  have m3 : String.Pos.Raw.next "nutree/" ⟨3⟩ = ⟨4⟩ := by decide
  have m4 : String.Pos.Raw.next "nutree/" ⟨4⟩ = ⟨5⟩ := by decide
  have m5 : String.Pos.Raw.next "nutree/" ⟨5⟩ = ⟨6⟩ := by decide
  rw [splitOnAux_step _ _ _ _ _ _ (by decide) (by decide) (by decide), n0, m0]
  rw [splitOnAux_step _ _ _ _ _ _ (by decide) (by decide) (by decide), n1, m1]
  rw [splitOnAux_step _ _ _ _ _ _ (by decide) (by decide) (by decide), n2, m2]
  rw [splitOnAux_step _ _ _ _ _ _ (by decide) (by decide) (by decide), n3, m3]
  rw [splitOnAux_step _ _ _ _ _ _ (by decide) (by decide) (by decide), n4, m4]
  rw [splitOnAux_step _ _ _ _ _ _ (by decide) (by decide) (by decide), n5, m5]
  rw [splitOnAux_final _ _ _ _ _ _ (by decide) (by decide) (by decide)]
  exact decide_eq_true (Nat.lt_of_le_of_lt (by simp) (length_lt_splitOnAux _ _ _ _ _ _))

/-! ### L7: lookups in `setField` / `updateFields` / `header` -/

theorem lookupF_eq (d : Fields) (k : String) : lookupF d k = d.lookup k := rfl

theorem any_key_eq_false_iff_lookup {d : Fields} {k : String} :
    d.any (·.1 == k) = false ↔ d.lookup k = none := by
  rw [List.lookup_eq_none_iff]
  simp only [List.any_eq_false, bne_iff_ne, ne_eq, beq_iff_eq]
  exact ⟨fun h p hp he => h p hp he.symm, fun h p hp he => h p hp he.symm⟩

theorem lookup_map_replace_ne {k k' : String} (v : JVal) (hk : k' ≠ k) : ∀ d : Fields,
    (d.map fun e => if e.1 == k then (k, v) else e).lookup k' = d.lookup k'
  | [] => rfl
  | (k0, v0) :: d => by
    have ih := lookup_map_replace_ne v hk d
    have hk' : (k' == k) = false := by simpa using hk
    rw [List.map_cons]
    cases h0 : k0 == k with
    | true =>
      have : k0 = k := by simpa using h0
      subst this
      simp only [h0, if_true, List.lookup_cons, hk', ih]
    | false =>
      simp only [h0, Bool.false_eq_true, if_false, List.lookup_cons, ih]

theorem lookup_map_replace_self (k : String) (v : JVal) : ∀ d : Fields,
    (d.map fun e => if e.1 == k then (k, v) else e).lookup k =
      if d.any (·.1 == k) then some v else none
  | [] => rfl
  | (k0, v0) :: d => by
    have ih := lookup_map_replace_self k v d
    rw [List.map_cons, List.any_cons]
    cases h0 : k0 == k with
    | true =>
      simp only [if_true, List.lookup_cons, beq_self_eq_true, Bool.true_or]
    | false =>
      have : (k == k0) = false := by
        have : ¬ k0 = k := by simpa using h0
        simpa using fun h => this h.symm
      simp only [Bool.false_eq_true, if_false, List.lookup_cons, this, ih, Bool.false_or]

/-- `d[k] = v` then `d.get(k')`. -/
theorem lookup_setField (d : Fields) (k k' : String) (v : JVal) :
    (setField d k v).lookup k' = if k' = k then some v else d.lookup k' := by
  unfold setField
  cases ha : d.any (·.1 == k) with
  | true =>
    simp only [if_true]
    by_cases hk : k' = k
    · subst hk; rw [lookup_map_replace_self, ha]; simp
    · rw [lookup_map_replace_ne v hk]; simp [hk]
  | false =>
    have hn := any_key_eq_false_iff_lookup.1 ha
    simp only [Bool.false_eq_true, if_false, List.lookup_append, List.lookup_cons, List.lookup_nil]
    by_cases hk : k' = k
    · subst hk; simp [hn]
    · have : (k' == k) = false := by simpa using hk
      simp [this, hk]

theorem lookup_setField_self (d : Fields) (k : String) (v : JVal) :
    (setField d k v).lookup k = some v := by simp [lookup_setField]

theorem lookup_setField_of_ne (d : Fields) {k k' : String} (v : JVal) (h : k' ≠ k) :
    (setField d k v).lookup k' = d.lookup k' := by simp [lookup_setField, h]

/-- `d.update(u)` then `d.get(k)`: the last item of `u` with key `k` wins, else the old value. -/
theorem lookup_updateFields (u : Fields) : ∀ (d : Fields) (k : String),
    (updateFields d u).lookup k = (u.reverse.lookup k).or (d.lookup k) := by
  induction u with
  | nil => intro d k; simp [updateFields]
  | cons e u ih =>
    intro d k
    have : updateFields d (e :: u) = updateFields (setField d e.1 e.2) u := rfl
    rw [this, ih, lookup_setField, List.reverse_cons, List.lookup_append]
    obtain ⟨k0, v0⟩ := e
    by_cases hk : k = k0
    · subst hk; cases u.reverse.lookup k <;> simp [List.lookup_cons]
    · have : (k == k0) = false := by simpa using hk
      cases u.reverse.lookup k <;> simp [List.lookup_cons, this, hk]

theorem lookup_updateFields_of_not_mem {d u : Fields} {k : String} (h : ∀ e ∈ u, e.1 ≠ k) :
    (updateFields d u).lookup k = d.lookup k := by
  rw [lookup_updateFields]
  have : u.reverse.lookup k = none := by
    rw [List.lookup_eq_none_iff]
    intro p hp
    have := h p (List.mem_reverse.1 hp)
    simpa using fun h' => this h'.symm
  rw [this]; rfl

theorem lookup_eq_some_of_mem_nodup {α β} [BEq α] [LawfulBEq α] : ∀ {l : List (α × β)} {k : α} {v : β},
    (l.map (·.1)).Nodup → (k, v) ∈ l → l.lookup k = some v
  | [], _, _, _, h => by cases h
  | (k0, v0) :: l, k, v, hnd, h => by
    simp only [List.map_cons, List.nodup_cons] at hnd
    rw [List.lookup_cons]
    rcases List.mem_cons.1 h with h' | h'
    · injection h' with h1 h2; subst h1; subst h2; simp
    · have hne : (k == k0) = false := by
        have : k ≠ k0 := by
          rintro rfl; exact hnd.1 (List.mem_map.2 ⟨(k, v), h', rfl⟩)
        simpa using this
      simp only [hne]
      exact lookup_eq_some_of_mem_nodup hnd.2 h'

/-- a key of `u` is set by `d.update(u)`; with distinct keys in `u` it gets `u`'s value. -/
theorem lookup_updateFields_of_mem_nodup {d u : Fields} {k : String} {v : JVal}
    (hnd : (u.map (·.1)).Nodup) (h : (k, v) ∈ u) : (updateFields d u).lookup k = some v := by
  rw [lookup_updateFields]
  have : u.reverse.lookup k = some v :=
    lookup_eq_some_of_mem_nodup (by
      rw [List.map_reverse]
      exact List.pairwise_reverse.2 (hnd.imp fun h => h.symm))
      (List.mem_reverse.2 h)
  rw [this]; rfl

/-! ### the header written by `save` -/

/-- the header before `file_meta` is merged in. -/
def baseHeader (o : Opts) : Fields :=
  let h : Fields := [("$generator", .str ("nutree/" ++ Generated.version)), ("$format_version", .str Generated.fileFormatVersion)]
  let h := if o.keyMap.isEmpty then h else h ++ [("$key_map", .obj (o.keyMap.map fun (k, v) => (k, JVal.str v)))]
  if o.valueMap.isEmpty then h else h ++ [("$value_map", .obj (o.valueMap.map fun (k, v) => (k, JVal.arr v)))]

theorem header_eq (o : Opts) : header o = updateFields (baseHeader o) o.fileMeta := rfl

theorem lookupF_header_of_not_mem {o : Opts} {k : String} (h : ∀ e ∈ o.fileMeta, e.1 ≠ k) :
    lookupF (header o) k = (baseHeader o).lookup k := by
  rw [lookupF_eq, header_eq, lookup_updateFields_of_not_mem h]

theorem lookup_baseHeader_generator (o : Opts) :
    (baseHeader o).lookup "$generator" = some (.str ("nutree/" ++ Generated.version)) := by
  unfold baseHeader
  cases o.keyMap.isEmpty <;> cases o.valueMap.isEmpty <;> simp [List.lookup_cons]

theorem lookup_baseHeader_format_version (o : Opts) :
    (baseHeader o).lookup "$format_version" = some (.str Generated.fileFormatVersion) := by
  unfold baseHeader
  cases o.keyMap.isEmpty <;> cases o.valueMap.isEmpty <;> simp [List.lookup_cons]

theorem lookup_baseHeader_key_map (o : Opts) :
    (baseHeader o).lookup "$key_map" =
      if o.keyMap = [] then none else some (.obj (o.keyMap.map fun (k, v) => (k, JVal.str v))) := by
  obtain ⟨km, vm, fm⟩ := o
  cases km <;> cases vm <;> simp [baseHeader, List.lookup_cons, List.lookup_append]

theorem lookup_baseHeader_value_map (o : Opts) :
    (baseHeader o).lookup "$value_map" =
      if o.valueMap = [] then none else some (.obj (o.valueMap.map fun (k, v) => (k, JVal.arr v))) := by
  obtain ⟨km, vm, fm⟩ := o
  cases km <;> cases vm <;> simp [baseHeader, List.lookup_cons, List.lookup_append]


/-- **L7.** `save` writes `"$generator": "nutree/<version>"` (unless `file_meta` overrides it). -/
theorem header_generator {o : Opts} (h : ∀ e ∈ o.fileMeta, e.1 ≠ "$generator") :
    lookupF (header o) "$generator" = some (.str ("nutree/" ++ Nutree.Generated.version)) := by
  rw [lookupF_header_of_not_mem h, lookup_baseHeader_generator]

theorem header_format_version {o : Opts} (h : ∀ e ∈ o.fileMeta, e.1 ≠ "$format_version") :
    lookupF (header o) "$format_version" = some (.str Nutree.Generated.fileFormatVersion) := by
  rw [lookupF_header_of_not_mem h, lookup_baseHeader_format_version]

theorem header_key_map {o : Opts} (h : ∀ e ∈ o.fileMeta, e.1 ≠ "$key_map") :
    lookupF (header o) "$key_map" =
      if o.keyMap = [] then none else some (.obj (o.keyMap.map fun (k, v) => (k, JVal.str v))) := by
  rw [lookupF_header_of_not_mem h, lookup_baseHeader_key_map]

theorem header_value_map {o : Opts} (h : ∀ e ∈ o.fileMeta, e.1 ≠ "$value_map") :
    lookupF (header o) "$value_map" =
      if o.valueMap = [] then none else some (.obj (o.valueMap.map fun (k, v) => (k, JVal.arr v))) := by
  rw [lookupF_header_of_not_mem h, lookup_baseHeader_value_map]

theorem header_key_map_isSome {o : Opts} (h : ∀ e ∈ o.fileMeta, e.1 ≠ "$key_map") :
    (lookupF (header o) "$key_map").isSome ↔ o.keyMap ≠ [] := by
  rw [header_key_map h]; split <;> simp [*]

theorem header_value_map_isSome {o : Opts} (h : ∀ e ∈ o.fileMeta, e.1 ≠ "$value_map") :
    (lookupF (header o) "$value_map").isSome ↔ o.valueMap ≠ [] := by
  rw [header_value_map h]; split <;> simp [*]

/-- a `file_meta` item (with distinct keys in `file_meta`) is found in the header. -/
theorem header_file_meta {o : Opts} {k : String} {v : JVal} (hnd : (o.fileMeta.map (·.1)).Nodup)
    (h : (k, v) ∈ o.fileMeta) : lookupF (header o) k = some v := by
  rw [lookupF_eq, header_eq, lookup_updateFields_of_mem_nodup hnd h]

/-! ### what `load` reads back from the header -/

/-- decoding of one element of `nodes`. -/
def decodeRow (km : List (String × String)) (vm : List (String × List JVal)) (e : JVal) :
    Option (Nat × Payload) :=
  match e with
  | .arr [.num p, x] =>
    if p < 0 then none else
    (payloadOfJ x).bind fun pl =>
      match pl with
      | .dict d => (uncompress km vm d).map fun d' => (p.toNat, Payload.dict d')
      | other => some (p.toNat, other)
  | _ => none

theorem filterMap_str_map (l : List (String × String)) :
    (l.map fun (k, v) => (k, JVal.str v)).filterMap
        (fun (k, v) => match v with | .str s => some (s, k) | _ => none) =
      l.map fun (k, s) => (s, k) := by
  induction l with
  | nil => rfl
  | cons a l ih => obtain ⟨k, s⟩ := a; simp [List.filterMap_cons, ih]

theorem filterMap_arr_map (l : List (String × List JVal)) :
    (l.map fun (k, v) => (k, JVal.arr v)).filterMap
        (fun (k, v) => match v with | .arr a => some (k, a) | _ => none) = l := by
  induction l with
  | nil => rfl
  | cons a l ih => obtain ⟨k, s⟩ := a; simp [List.filterMap_cons, ih]

theorem loadKm_header {o : Opts} (h : ∀ e ∈ o.fileMeta, e.1 ≠ "$key_map") :
    loadKm (header o) = o.keyMap.map fun (k, s) => (s, k) := by
  unfold loadKm
  rw [header_key_map h]
  by_cases hk : o.keyMap = []
  · simp [hk]
  · simp only [hk, if_false]; exact filterMap_str_map _

theorem loadVm_header {o : Opts} (h : ∀ e ∈ o.fileMeta, e.1 ≠ "$value_map") :
    loadVm (header o) = o.valueMap := by
  unfold loadVm
  rw [header_value_map h]
  by_cases hk : o.valueMap = []
  · simp [hk]
  · simp only [hk, if_false]; exact filterMap_arr_map _

/-- the same with the literal expression of `loadJ`. -/
theorem loadJ_km_header {o : Opts} (h : ∀ e ∈ o.fileMeta, e.1 ≠ "$key_map") :
    (match lookupF (header o) "$key_map" with
      | some (.obj l) => l.filterMap fun (k, v) => match v with | .str s => some (s, k) | _ => none
      | _ => []) = o.keyMap.map fun (k, s) => (s, k) := loadKm_header h

theorem loadJ_vm_header {o : Opts} (h : ∀ e ∈ o.fileMeta, e.1 ≠ "$value_map") :
    (match lookupF (header o) "$value_map" with
      | some (.obj l) => l.filterMap fun (k, v) => match v with | .arr a => some (k, a) | _ => none
      | _ => []) = o.valueMap := loadVm_header h


/-! ### L6: the header checks of `load` -/

theorem load_rejects_not_obj {typed : Bool} {sa : String → Atom} {ds : Fields → DRes} {doc : JVal}
    (h : ∀ top, doc ≠ .obj top) : loadJ typed sa ds doc = .error .runtime := by
  cases doc with
  | obj top => exact absurd rfl (h top)
  | _ => rfl

theorem load_rejects_no_meta {typed : Bool} {sa : String → Atom} {ds : Fields → DRes} {top : Fields}
    (h : lookupF top "meta" = none) :
    loadJ typed sa ds (.obj top) = .error .runtime := by
  simp only [loadJ, h]

theorem load_rejects_no_nodes {typed : Bool} {sa : String → Atom} {ds : Fields → DRes} {top : Fields}
    (h : lookupF top "nodes" = none) :
    loadJ typed sa ds (.obj top) = .error .runtime := by
  simp only [loadJ, h]
  cases lookupF top "meta" with
  | none => rfl
  | some m => cases m <;> rfl

theorem badMetaErr_arr (l : List JVal) : badMetaErr (.arr l) =
    if l.any (fun x => match x with | .str s => s == "$generator" | _ => false) = true then .type else .runtime := rfl

/-- `"meta"` is present but not a JSON object: refused, with RuntimeError or — where the `in` test or the
subscript on that value raises — TypeError (`badMetaErr`). -/
theorem load_rejects_bad_meta {typed : Bool} {sa : String → Atom} {ds : Fields → DRes} {top : Fields} {m : JVal}
    (hm : lookupF top "meta" = some m) (h : ∀ hdr, m ≠ .obj hdr) :
    loadJ typed sa ds (.obj top) = .error .runtime ∨ loadJ typed sa ds (.obj top) = .error .type := by
  simp only [loadJ, hm]
  cases hn : lookupF top "nodes" with
  | none => left; cases m <;> rfl
  | some nd =>
    cases m with
    | obj hdr => exact absurd rfl (h hdr)
    | null => right; cases nd <;> rfl
    | bool b => right; cases nd <;> rfl
    | num i => right; cases nd <;> rfl
    | str s =>
      by_cases hc : (s.splitOn "$generator").length > 1
      · right; cases nd <;> simp [badMetaErr, hc]
      · left; cases nd <;> simp [badMetaErr, hc]
    | arr l =>
      by_cases hc : l.any (fun x => match x with | .str s => s == "$generator" | _ => false) = true
      · right; cases nd <;> (show Except.error (badMetaErr (JVal.arr l)) = _; rw [badMetaErr_arr, if_pos hc])
      · left; cases nd <;> (show Except.error (badMetaErr (JVal.arr l)) = _; rw [badMetaErr_arr, if_neg hc])

theorem genOk_false_of_none {hdr : Fields} (hg : lookupF hdr "$generator" = none) : genOk hdr = false := by
  simp [genOk, hg]

theorem genOk_false_of_bad {hdr : Fields} {g : JVal} (hg : lookupF hdr "$generator" = some g)
    (hn : hasNutree (match (generalizing := false) g with | .str s => s | _ => "") = false) : genOk hdr = false := by
  cases g <;> simp_all [genOk]

theorem load_rejects_no_generator {typed : Bool} {sa : String → Atom} {ds : Fields → DRes}
    {top hdr : Fields} (hm : lookupF top "meta" = some (.obj hdr))
    (hg : lookupF hdr "$generator" = none) :
    loadJ typed sa ds (.obj top) = .error .runtime := by
  simp only [loadJ, hm]
  cases hn : lookupF top "nodes" with
  | none => rfl
  | some nd => cases nd <;> simp [hg, genOk_false_of_none hg]

theorem load_rejects_bad_generator {typed : Bool} {sa : String → Atom} {ds : Fields → DRes}
    {top hdr : Fields} {g : JVal} (hm : lookupF top "meta" = some (.obj hdr))
    (hg : lookupF hdr "$generator" = some g)
    (hn : hasNutree (match (generalizing := false) g with | .str s => s | _ => "") = false) :
    loadJ typed sa ds (.obj top) = .error .runtime := by
  simp only [loadJ, hm]
  cases hnd : lookupF top "nodes" with
  | none => rfl
  | some nd =>
    cases nd <;> simp only [hg, genOk_false_of_bad hg hn] <;> first | rfl | (cases g <;> simp_all)

theorem hasNutree_empty : hasNutree "" = false := by
  unfold hasNutree String.splitOn
  rw [if_neg (by decide)]
  rw [String.splitOnAux]
  have : String.Pos.Raw.atEnd "" 0 = true := by decide
  simp [this]

theorem load_rejects_genOk_false {typed : Bool} {sa : String → Atom} {ds : Fields → DRes}
    {top hdr : Fields} (hm : lookupF top "meta" = some (.obj hdr)) (hg : genOk hdr = false) :
    loadJ typed sa ds (.obj top) = .error .runtime := by
  cases hl : lookupF hdr "$generator" with
  | none => exact load_rejects_no_generator hm hl
  | some g =>
    refine load_rejects_bad_generator hm hl ?_
    cases g <;> simp_all [genOk, hasNutree_empty]

/-- the header is fine but `"nodes"` is `null`, a number or a bool: iterating it is a TypeError. -/
theorem load_rejects_scalar_nodes {typed : Bool} {sa : String → Atom} {ds : Fields → DRes}
    {top hdr : Fields} {nd : JVal} (hm : lookupF top "meta" = some (.obj hdr)) (hn : lookupF top "nodes" = some nd)
    (hg : genOk hdr = true) (hs : nd = .null ∨ (∃ b, nd = .bool b) ∨ (∃ i, nd = .num i)) :
    loadJ typed sa ds (.obj top) = .error .type := by
  simp only [loadJ, hm, hn]
  rcases hs with rfl | ⟨b, rfl⟩ | ⟨i, rfl⟩ <;> simp [hg, oddNodes]

/-! ### well-shaped entries: the general reader agrees with the reader of written rows -/

theorem fromListStepG_lift (typed : Bool) (sa : String → Atom) (ds : Fields → DRes)
    (acc : Except Err FState) (r : Nat × Payload) :
    fromListStepG typed sa ds acc (liftRow r) = fromListStep typed sa ds acc r := by
  cases acc with
  | error e => rfl
  | ok st => obtain ⟨t, nx, im⟩ := st; rfl

theorem foldl_fromListStepG_lift (typed : Bool) (sa : String → Atom) (ds : Fields → DRes) :
    ∀ (rows : List (Nat × Payload)) (acc : Except Err FState),
      (rows.map liftRow).foldl (fromListStepG typed sa ds) acc = rows.foldl (fromListStep typed sa ds) acc
  | [], _ => rfl
  | r :: rows, acc => by
    rw [List.map_cons, List.foldl_cons, List.foldl_cons, fromListStepG_lift, foldl_fromListStepG_lift]

/-- on well-shaped rows `fromListG` is `fromList`. -/
theorem fromListG_lift (typed : Bool) (sa : String → Atom) (ds : Fields → DRes) (rows : List (Nat × Payload)) :
    fromListG typed sa ds (rows.map liftRow) = fromList typed sa ds rows := by
  unfold fromListG fromList fromListStateG fromListState
  rw [foldl_fromListStepG_lift]

theorem decodeRow_some {km : List (String × String)} {vm : List (String × List JVal)} {e : JVal}
    {r : Nat × Payload} (h : decodeRow km vm e = some r) :
    ∃ a b, unpackEntry e = .ok (a, b) ∧ pkeyOfJ a = .idx r.1 ∧ cellOfJ km vm b = some (.pl r.2) := by
  unfold decodeRow at h
  split at h
  · rename_i p x
    refine ⟨.num p, x, rfl, ?_⟩
    split at h
    · cases h
    · rename_i hp
      cases x with
      | str s =>
        simp only [payloadOfJ, Option.bind_some, Option.some.injEq] at h
        subst h
        exact ⟨by simp [pkeyOfJ, hp], rfl⟩
      | num i =>
        simp only [payloadOfJ] at h
        by_cases hi : i < 0
        · simp [hi] at h
        · simp only [hi, if_false, Option.bind_some, Option.some.injEq] at h
          subst h
          exact ⟨by simp [pkeyOfJ, hp], by simp [cellOfJ, hi]⟩
      | obj d =>
        simp only [payloadOfJ, Option.bind_some] at h
        cases hu : uncompress km vm d with
        | none => simp [hu] at h
        | some d' =>
          simp only [hu, Option.map_some, Option.some.injEq] at h
          subst h
          exact ⟨by simp [pkeyOfJ, hp], by simp [cellOfJ, hu]⟩
      | null => simp [payloadOfJ] at h
      | bool b => simp [payloadOfJ] at h
      | arr l => simp [payloadOfJ] at h
  · cases h

theorem decodeNodes_of_mapM {km : List (String × String)} {vm : List (String × List JVal)} :
    ∀ {nodes : List JVal} {rows : List (Nat × Payload)},
      nodes.mapM (decodeRow km vm) = some rows → decodeNodes km vm nodes = .ok (rows.map liftRow)
  | [], rows, h => by
    simp only [List.mapM_nil] at h
    cases h; rfl
  | e :: es, rows, h => by
    rw [mapM_option_cons] at h
    cases he : decodeRow km vm e with
    | none => simp [he] at h
    | some r =>
      cases hes : es.mapM (decodeRow km vm) with
      | none => simp [he, hes] at h
      | some rs =>
        simp only [he, hes, Option.bind_some, Option.map_some, Option.some.injEq] at h
        subst h
        obtain ⟨a, b, h1, h2, h3⟩ := decodeRow_some he
        rw [decodeNodes, h1]
        simp only [h3, decodeNodes_of_mapM hes, h2]
        rfl

theorem loadJ_ok_eq {typed : Bool} {sa : String → Atom} {ds : Fields → DRes}
    {top hdr : Fields} {nodes : List JVal} {g : JVal}
    (hm : lookupF top "meta" = some (.obj hdr)) (hn : lookupF top "nodes" = some (.arr nodes))
    (hg : lookupF hdr "$generator" = some g)
    (hnut : hasNutree (match (generalizing := false) g with | .str s => s | _ => "") = true) :
    loadJ typed sa ds (.obj top) =
      match decodeNodes (loadKm hdr) (loadVm hdr) nodes with
      | .error e => .error e
      | .ok rows => (fromListG typed sa ds rows).map fun t => (t, hdr) := by
  simp only [loadJ, hm, hn, hg]
  rw [if_neg (by cases g <;> simp_all)]
  rfl

/-- `loadJ_ok_eq` for a string generator. -/
theorem loadJ_ok_eq_str {typed : Bool} {sa : String → Atom} {ds : Fields → DRes}
    {top hdr : Fields} {nodes : List JVal} {s : String}
    (hm : lookupF top "meta" = some (.obj hdr)) (hn : lookupF top "nodes" = some (.arr nodes))
    (hg : lookupF hdr "$generator" = some (.str s)) (hnut : hasNutree s = true) :
    loadJ typed sa ds (.obj top) =
      match decodeNodes (loadKm hdr) (loadVm hdr) nodes with
      | .error e => .error e
      | .ok rows => (fromListG typed sa ds rows).map fun t => (t, hdr) :=
  loadJ_ok_eq hm hn hg hnut

/-- loading a document whose `meta` is the header written by `save` (with a `file_meta` that does
not redefine `$generator`, `$key_map`, `$value_map`) and whose entries are well-shaped: the rows
are decoded with the inverse of the saved key map and with the saved value map and read by
`fromList`. -/
theorem loadJ_header_eq {typed : Bool} {sa : String → Atom} {ds : Fields → DRes} {o : Opts}
    {top : Fields} {nodes : List JVal} {rows : List (Nat × Payload)}
    (hm : lookupF top "meta" = some (.obj (header o)))
    (hn : lookupF top "nodes" = some (.arr nodes))
    (h1 : ∀ e ∈ o.fileMeta, e.1 ≠ "$generator") (h2 : ∀ e ∈ o.fileMeta, e.1 ≠ "$key_map")
    (h3 : ∀ e ∈ o.fileMeta, e.1 ≠ "$value_map")
    (hrows : nodes.mapM (decodeRow (o.keyMap.map fun (k, s) => (s, k)) o.valueMap) = some rows) :
    loadJ typed sa ds (.obj top) = (fromList typed sa ds rows).map fun t => (t, header o) := by
  rw [loadJ_ok_eq_str hm hn (header_generator h1) hasNutree_generator, loadKm_header h2,
    loadVm_header h3, decodeNodes_of_mapM hrows]
  simp only [fromListG_lift]

/-- the document written by `saveJ` has the shape `load` expects. -/
theorem lookupF_saved_meta (hdr : Fields) (rows : List JVal) :
    lookupF [("meta", .obj hdr), ("nodes", .arr rows)] "meta" = some (.obj hdr) := by
  simp [lookupF, List.lookup_cons]

theorem lookupF_saved_nodes (hdr : Fields) (rows : List JVal) :
    lookupF [("meta", .obj hdr), ("nodes", .arr rows)] "nodes" = some (.arr rows) := by
  simp [lookupF, List.lookup_cons]

end Ser
end Nutree
