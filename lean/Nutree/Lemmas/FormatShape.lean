/-
  Helper lemmas for C16, part 3: the prefixes alone determine the shape
  (widths → depths → forest).
-/
import Nutree.Lemmas.FormatLines
namespace Nutree
open T Fmt

/-- pre-order depth list of a forest whose members are at depth `d` -/
def depthsL : Nat → List T → List Nat
  | _, [] => []
  | d, .node _ ks :: ts => d :: (depthsL (d + 1) ks ++ depthsL d ts)

theorem depthsL_nil (d : Nat) : depthsL d [] = [] := by simp [depthsL]
theorem depthsL_cons (d : Nat) (i : Info) (ks ts : List T) :
    depthsL d (T.node i ks :: ts) = d :: (depthsL (d + 1) ks ++ depthsL d ts) := by
  simp [depthsL]

/-! ### lengths of joined strings -/

theorem join_length : ∀ l : List String, (String.join l).length = (l.map String.length).sum
  | [] => by simp
  | s :: l => by simp [String.join_cons, String.length_append, join_length l]

theorem sum_map_const {α : Type} (f : α → String) (w : Nat) (hf : ∀ x, (f x).length = w) :
    ∀ l : List α, ((l.map f).map String.length).sum = l.length * w
  | [] => by simp
  | a :: l => by
    simp only [List.map_cons, List.sum_cons, hf a, sum_map_const f w hf l, List.length_cons]
    rw [Nat.succ_mul]; omega

/-- with uniform widths, the width of the prefix depends only on the depth -/
theorem prefixParts_length (root : T) (s6 : Spec.Segs6) (hU : Spec.UniformWidths s6)
    (lstrip : Nat) (p : List Nat) (n : T) :
    (String.join (Spec.prefixParts root s6 lstrip p n)).length =
      if p.length - 1 ≥ lstrip then (p.length - 1 - lstrip) * s6.1.length + s6.2.2.1.length
      else 0 := by
  obtain ⟨s0, s1, s2, s3, s4, s5⟩ := s6
  obtain ⟨h01, _, h23, h42, h52⟩ := hU
  simp only at h01 h23 h42 h52
  have hanc : ∀ q : List Nat, (if Spec.lastAt root q then s0 else s1).length = s0.length := by
    intro q; cases Spec.lastAt root q <;> simp [h01]
  rw [join_length]
  unfold Spec.prefixParts
  simp only [List.map_append, List.sum_append]
  rw [sum_map_const _ s0.length hanc]
  simp only [List.length_drop, prefixes_length, List.length_dropLast]
  by_cases hd : p.length - 1 ≥ lstrip
  · simp only [hd, if_true, List.map_cons, List.map_nil, List.sum_cons, List.sum_nil, Nat.add_zero]
    congr 1
    cases n.kids.isEmpty <;> cases Spec.lastAt root p <;> simp [h23, h42, h52]
  · simp only [hd, if_false, List.map_nil, List.sum_nil, Nat.add_zero]
    have : p.length - 1 - lstrip = 0 := by omega
    rw [this]; simp

theorem decodeDepth_eq (s6 : Spec.Segs6) (h0 : 0 < s6.1.length) (r : Nat) :
    Spec.decodeDepth s6 (r * s6.1.length + s6.2.2.1.length) = r := by
  unfold Spec.decodeDepth
  rw [Nat.add_sub_cancel, Nat.mul_div_cancel _ h0]

/-! ### depth lists -/

theorem depthsL_ge : ∀ (ks : List T) (d : Nat), ∀ x ∈ depthsL d ks, d ≤ x := by
  apply forest_induction (Q := fun ks => ∀ (d : Nat), ∀ x ∈ depthsL d ks, d ≤ x)
  · intro d x h; simp [depthsL_nil] at h
  · intro i ks ts h1 h2 d x hx
    rw [depthsL_cons] at hx
    simp only [List.mem_cons, List.mem_append] at hx
    rcases hx with h | h | h
    · omega
    · have := h1 (d + 1) x h; omega
    · exact h2 d x h

theorem depthsL_shift (c : Nat) : ∀ (ks : List T) (d : Nat),
    (depthsL (d + c) ks).map (· - c) = depthsL d ks := by
  apply forest_induction (Q := fun ks => ∀ (d : Nat),
    (depthsL (d + c) ks).map (· - c) = depthsL d ks)
  · intro d; simp [depthsL_nil]
  · intro i ks ts h1 h2 d
    have e : d + c + 1 = (d + 1) + c := by omega
    rw [depthsL_cons, depthsL_cons, List.map_cons, List.map_append, e, h1 (d + 1), h2 d]
    simp

/-- the path lengths of the traversal are the depths -/
theorem go_lengths : ∀ (ks : List T) (sp : List Nat) (k : Nat),
    (Spec.belowWithPaths.go ks sp k).map (fun pn => pn.1.length) = depthsL (sp.length + 1) ks := by
  apply forest_induction (Q := fun ks => ∀ (sp : List Nat) (k : Nat),
    (Spec.belowWithPaths.go ks sp k).map (fun pn => pn.1.length) = depthsL (sp.length + 1) ks)
  · intro sp k; simp [go_nil, depthsL_nil]
  · intro i ks ts h1 h2 sp k
    rw [go_cons, depthsL_cons, List.map_cons, List.map_append, h1, h2]
    simp

theorem belowWithPaths_lengths (t : T) (sp : List Nat) :
    (Spec.belowWithPaths t sp).map (fun pn => pn.1.length) = depthsL (sp.length + 1) t.kids := by
  rw [belowWithPaths_eq, go_lengths]

theorem belowWithPaths_length_ge (t : T) (sp : List Nat) :
    ∀ pn ∈ Spec.belowWithPaths t sp, sp.length + 1 ≤ pn.1.length := by
  intro pn h
  have : pn.1.length ∈ (Spec.belowWithPaths t sp).map (fun pn => pn.1.length) :=
    List.mem_map_of_mem h
  rw [belowWithPaths_lengths] at this
  exact depthsL_ge _ _ _ this

/-! ### the parser inverts the depth list -/

theorem shapeOfL_eq_map : ∀ ks : List T, Spec.shapeOfL ks = ks.map Spec.shapeOf
  | [] => by simp [Spec.shapeOfL]
  | t :: ts => by simp [Spec.shapeOfL, shapeOfL_eq_map ts]

/-- the rest of the input does not continue a forest of level `d` -/
def OkHead (d : Nat) (rest : List Nat) : Prop := ∀ x, rest.head? = some x → x < d

theorem okHead_depthsL {d : Nat} {rest : List Nat} (h : OkHead d rest) (ts : List T) :
    OkHead (d + 1) (depthsL d ts ++ rest) := by
  cases ts with
  | nil =>
    intro x hx
    rw [depthsL_nil, List.nil_append] at hx
    have := h x hx; omega
  | cons t ts =>
    cases t with
    | node j ks' =>
      intro x hx
      rw [depthsL_cons] at hx
      simp at hx; omega

theorem parseForest_stop {d : Nat} {rest : List Nat} (h : OkHead d rest) (fuel : Nat) :
    Spec.parseForest fuel d rest = ([], rest) := by
  cases fuel with
  | zero => simp [Spec.parseForest]
  | succ f =>
    cases rest with
    | nil => simp [Spec.parseForest]
    | cons x ds =>
      have : x < d := h x (by simp)
      rw [Spec.parseForest, if_neg (by omega)]

theorem parse_depthsL : ∀ (ks : List T) (d fuel : Nat) (rest : List Nat),
    (depthsL d ks ++ rest).length ≤ fuel → OkHead d rest →
    Spec.parseForest fuel d (depthsL d ks ++ rest) = (Spec.shapeOfL ks, rest) := by
  apply forest_induction (Q := fun ks => ∀ (d fuel : Nat) (rest : List Nat),
    (depthsL d ks ++ rest).length ≤ fuel → OkHead d rest →
    Spec.parseForest fuel d (depthsL d ks ++ rest) = (Spec.shapeOfL ks, rest))
  · intro d fuel rest _ hok
    rw [depthsL_nil, List.nil_append, parseForest_stop hok]
    simp [Spec.shapeOfL]
  · intro i ks ts h1 h2 d fuel rest hlen hok
    rw [depthsL_cons] at hlen ⊢
    simp only [List.cons_append, List.append_assoc, List.length_cons, List.length_append] at hlen ⊢
    obtain ⟨f, rfl⟩ : ∃ f, fuel = f + 1 := ⟨fuel - 1, by omega⟩
    rw [Spec.parseForest, if_pos (Nat.le_refl d)]
    have e1 := h1 (d + 1) f (depthsL d ts ++ rest)
      (by simp only [List.length_append]; omega) (okHead_depthsL hok ts)
    rw [e1]
    simp only
    rw [h2 d f rest (by simp only [List.length_append]; omega) hok]
    simp [Spec.shapeOfL, Spec.shapeOf]

theorem shapeOfDepths_depthsL (ks : List T) :
    Spec.shapeOfDepths (depthsL 0 ks) = ks.map Spec.shapeOf := by
  unfold Spec.shapeOfDepths
  have := parse_depthsL ks 0 (depthsL 0 ks).length [] (by simp) (by intro x hx; simp at hx)
  rw [List.append_nil] at this
  rw [this, shapeOfL_eq_map]

/-! ### decoding all lines -/

/-- `add_self=True` form (`lstrip = |sp|`): the decoded depths of the lines below `start` -/
theorem decoded_depths (root start : T) (sp : List Nat) (s6 : Spec.Segs6)
    (hU : Spec.UniformWidths s6) :
    ((Spec.belowWithPaths start sp).map fun (p, n) =>
        Spec.decodeDepth s6 (String.join (Spec.prefixParts root s6 sp.length p n)).length) =
      depthsL 0 start.kids := by
  have h0 := hU.2.1
  have : ((Spec.belowWithPaths start sp).map fun (p, n) =>
        Spec.decodeDepth s6 (String.join (Spec.prefixParts root s6 sp.length p n)).length) =
      ((Spec.belowWithPaths start sp).map (fun pn => pn.1.length)).map (· - (sp.length + 1)) := by
    rw [List.map_map]
    apply List.map_congr_left
    intro pn hpn
    have hge := belowWithPaths_length_ge start sp pn hpn
    obtain ⟨p, n⟩ := pn
    simp only [Function.comp]
    simp only at hge
    rw [prefixParts_length root s6 hU, if_pos (by omega), decodeDepth_eq s6 h0]
    omega
  rw [this, belowWithPaths_lengths]
  have := depthsL_shift (sp.length + 1) start.kids 0
  rw [Nat.zero_add] at this
  exact this

/-- `add_self=False` form (`lstrip = |sp| + 1`): the first level has an empty prefix -/
theorem decoded_depths0 (root start : T) (sp : List Nat) (s6 : Spec.Segs6)
    (hU : Spec.UniformWidths s6) (h2 : 0 < s6.2.2.1.length) :
    ((Spec.belowWithPaths start sp).map fun (p, n) =>
        Spec.decodeDepth0 s6 (String.join (Spec.prefixParts root s6 (sp.length + 1) p n)).length) =
      depthsL 0 start.kids := by
  have h0 := hU.2.1
  have : ((Spec.belowWithPaths start sp).map fun (p, n) =>
        Spec.decodeDepth0 s6 (String.join (Spec.prefixParts root s6 (sp.length + 1) p n)).length) =
      ((Spec.belowWithPaths start sp).map (fun pn => pn.1.length)).map (· - (sp.length + 1)) := by
    rw [List.map_map]
    apply List.map_congr_left
    intro pn hpn
    have hge := belowWithPaths_length_ge start sp pn hpn
    obtain ⟨p, n⟩ := pn
    simp only [Function.comp]
    simp only at hge
    rw [prefixParts_length root s6 hU]
    unfold Spec.decodeDepth0
    by_cases hd : p.length - 1 ≥ sp.length + 1
    · rw [if_pos hd, if_neg (by omega), decodeDepth_eq s6 h0]
      omega
    · rw [if_neg hd, if_pos rfl]
      omega
  rw [this, belowWithPaths_lengths]
  have := depthsL_shift (sp.length + 1) start.kids 0
  rw [Nat.zero_add] at this
  exact this

end Nutree
