/-
  Nutree.Lemmas.MainAdd — hypothesis-free invariance of the copying primitives (`_add_from`,
  `add_child(node)`), for the assembly of C01 over arbitrary histories (Properties/C01Main.lean).

  Unlike the characterisations in Lemmas/Copy*.lean these lemmas make no assumption about the source
  (no `Src`): every step of a copy is an `addData`, which keeps the state well-formed and the counter
  fresh when it succeeds and returns the old state when it fails; so whatever prefix of the copy has
  been executed when an error stops it, the state reached is well-formed.
-/
import Nutree.Properties.C01
import Nutree.Lemmas.CopyNode
namespace Nutree
open T C01

/-- the result of a (possibly failed, possibly partial) copy: well-formed, counter fresh, counter
not decreased. -/
def CopyInv (next : NodeId) (r : Tree × NodeId × Option Err) : Prop :=
  WF r.1 ∧ Fresh r.1 r.2.1 ∧ next ≤ r.2.1

theorem CopyInv.refl {t : Tree} {next : NodeId} (h : WF t) (hf : Fresh t next) (e : Option Err) :
    CopyInv next (t, next, e) := ⟨h, hf, Nat.le_refl _⟩

/-- list step: if every member is copied invariantly, so is the forest. -/
theorem addFromL_inv_of {src : List T}
    (hT : ∀ c ∈ src, ∀ (t : Tree) (next target : NodeId), WF t → Fresh t next →
      CopyInv next (t.addFromT next target c)) :
    ∀ (t : Tree) (next target : NodeId), WF t → Fresh t next → CopyInv next (t.addFromL next target src) := by
  induction src with
  | nil =>
    intro t next target h hf
    rw [Tree.addFromL]
    exact CopyInv.refl h hf none
  | cons c cs ih =>
    intro t next target h hf
    have h1 := hT c (by simp) t next target h hf
    rw [Tree.addFromL]
    rcases hr : t.addFromT next target c with ⟨t1, n1, e⟩
    rw [hr] at h1
    cases e with
    | some e => exact h1
    | none =>
      simp only
      have h2 := ih (fun c' hc' => hT c' (List.mem_cons_of_mem _ hc')) t1 n1 target h1.1 h1.2.1
      exact ⟨h2.1, h2.2.1, Nat.le_trans h1.2.2 h2.2.2⟩

/-- `_add_from` of one source branch, whatever the source: the state reached is well-formed. -/
theorem addFromT_inv : ∀ (c : T) (t : Tree) (next target : NodeId), WF t → Fresh t next →
    CopyInv next (t.addFromT next target c) := by
  intro c
  induction c using T.ind with
  | node i ks ih =>
    intro t next target h hf
    rw [Tree.addFromT]
    cases hadd : t.addData next target i.data .none (some i.did) i.kind with
    | error e => exact CopyInv.refl h hf _
    | ok t1 =>
      simp only
      obtain ⟨hwf1, hf1⟩ := addData_WF t t1 next target i.data .none (some i.did) i.kind h hf hadd
      have h2 := addFromL_inv_of ih t1 (next + 1) next hwf1 hf1
      exact ⟨h2.1, h2.2.1, Nat.le_trans (Nat.le_succ _) h2.2.2⟩

/-- `_add_from` of a forest, whatever the source (also when it stops at an error). -/
theorem addFromL_inv (src : List T) (t : Tree) (next target : NodeId) (h : WF t) (hf : Fresh t next) :
    CopyInv next (t.addFromL next target src) :=
  addFromL_inv_of (fun c _ => addFromT_inv c) t next target h hf

/-- `add_child(node, …)` with any arguments (also when it is refused or fails half-way). -/
theorem addNode_inv (t : Tree) (next parent : NodeId) (src : T) (inThis : Bool) (srcParent : Option NodeId)
    (before : Before) (deep : Option Bool) (did? : Option DataId) (kind : Option String)
    (h : WF t) (hf : Fresh t next) :
    CopyInv next (t.addNode next parent src inThis srcParent before deep did? kind) := by
  rcases addNode_cases t next parent src inThis srcParent before deep did? kind with ⟨e, he⟩ | ⟨t1, hadd, _, hr⟩
  · rw [he]; exact CopyInv.refl h hf _
  · rw [hr]
    obtain ⟨hwf1, hf1⟩ := addData_WF _ _ _ _ _ _ _ _ h hf hadd
    split
    · have h2 := addFromL_inv src.kids t1 (next + 1) next hwf1 hf1
      exact ⟨h2.1, h2.2.1, Nat.le_trans (Nat.le_succ _) h2.2.2⟩
    · exact ⟨hwf1, hf1, Nat.le_succ _⟩

end Nutree
