/-
  Nutree.Lemmas.Gen — the model of `build_random_tree` produces conforming forests
  (for every draw stream): the step lemmas and the master lemma `makeTree_conf`.
-/
import Nutree.Model.Generator
import Nutree.Spec.Gen
namespace Nutree
namespace Gen

/-! ### randomizers -/

theorem skipValue_true {p : Prob} {ds ds' : List Draw} (h : skipValue p ds = some (true, ds')) :
    p.isOne = false := by
  unfold skipValue at h
  cases hp : p.isOne with
  | false => rfl
  | true => simp [hp] at h

theorem jsStamp_eq (ord : Int) : jsStamp ord = .flt (stampOfDay (ord + 1)) 1 := by
  unfold jsStamp stampOfDay epochOrd
  congr 1
  omega

theorem withSkip_cases {p : Prob} {nv : Val} {gen : List Draw → Option (Val × List Draw)}
    {ds ds' : List Draw} {v : Val} (h : withSkip p nv gen ds = some (v, ds')) :
    (p.isOne = false ∧ v = nv) ∨ ∃ ds1, gen ds1 = some (v, ds') := by
  unfold withSkip at h
  cases hs : skipValue p ds with
  | none => simp [hs] at h
  | some bd =>
    obtain ⟨b, d1⟩ := bd
    cases b with
    | true =>
      simp [hs] at h
      exact Or.inl ⟨skipValue_true hs, h.1.symm⟩
    | false =>
      simp [hs] at h
      exact Or.inr ⟨d1, h⟩

theorem genRangeInt_some {lo hi : Int} {ds ds' : List Draw} {v : Val}
    (h : genRangeInt lo hi ds = some (v, ds')) : ∃ i, v = .int i ∧ lo ≤ i ∧ i < hi := by
  cases ds with
  | nil => simp [genRangeInt] at h
  | cons x t =>
    cases x with
    | randrange a b r =>
      simp only [genRangeInt] at h
      split at h
      · next hc =>
        simp at h
        exact ⟨r, h.1.symm, hc.2.2.1, hc.2.2.2⟩
      · simp at h
    | _ => simp [genRangeInt] at h

theorem genRangeFlt_some {lo hi : Val} {ds ds' : List Draw} {v : Val}
    (h : genRangeFlt lo hi ds = some (v, ds')) : ∃ n d, v = .flt n d := by
  cases ds with
  | nil => simp [genRangeFlt] at h
  | cons x t =>
    cases x with
    | uniform a b w =>
      simp only [genRangeFlt] at h
      split at h
      · next hc =>
        simp at h
        have hw := hc.2.2
        rw [h.1] at hw
        cases v with
        | flt n dd => exact ⟨n, dd, rfl⟩
        | _ => simp [Val.isFlt] at hw
      · simp at h
    | _ => simp [genRangeFlt] at h

theorem genDate_some {lo delta : Int} {stamp : Bool} {ds ds' : List Draw} {v : Val}
    (h : genDate lo delta stamp ds = some (v, ds')) :
    ∃ r, 0 ≤ r ∧ r < delta ∧
      v = if stamp then .flt (stampOfDay (lo + r + 1)) 1 else .date (lo + r) := by
  cases ds with
  | nil => simp [genDate] at h
  | cons x t =>
    cases x with
    | randrange a b r =>
      simp only [genDate] at h
      split at h
      · next hc =>
        simp at h
        refine ⟨r, hc.2.2.1, hc.2.2.2, ?_⟩
        rw [← h.1]
        cases stamp with
        | true => simp [jsStamp_eq]
        | false => simp
      · simp at h
    | _ => simp [genDate] at h

theorem genSample_some {vs : List Val} {cs : Option (List Nat)} {ds ds' : List Draw} {v : Val}
    (h : genSample vs cs ds = some (v, ds')) :
    ∃ i, vs[i]? = some v ∧ ∀ c, cs = some c → 0 < c.getD i 0 := by
  cases ds with
  | nil => simp [genSample] at h
  | cons x t =>
    cases x with
    | sampleIdx vs' cs' i =>
      simp only [genSample] at h
      split at h
      · cases hx : vs[i]? with
        | none => simp [hx] at h
        | some w =>
          simp only [hx] at h
          cases cs with
          | none =>
            simp at h
            exact ⟨i, by rw [hx, h.1], by intro c hc; cases hc⟩
          | some c =>
            simp only at h
            split at h
            · next hpos =>
              simp at h
              refine ⟨i, by rw [hx, h.1], ?_⟩
              intro c' hc'
              cases hc'
              exact hpos
            · simp at h
      · simp at h
    | _ => simp [genSample] at h

theorem genText_some {ds ds' : List Draw} {v : Val}
    (h : genText ds = some (v, ds')) : ∃ s, v = .str s := by
  cases ds with
  | nil => simp [genText] at h
  | cons x t =>
    cases x with
    | text s =>
      simp [genText] at h
      exact ⟨s, h.1.symm⟩
    | _ => simp [genText] at h

/-- Whatever the draws are, `generate()` returns a value of the randomizer's range. -/
theorem resolve_inRange {r : RSpec} {ds ds' : List Draw} {v : Val}
    (h : resolve r ds = some (v, ds')) : InRange r v := by
  cases r with
  | rangeInt lo hi p nv =>
    simp only [resolve] at h
    simp only [InRange]
    rcases withSkip_cases h with hs | ⟨d1, hg⟩
    · exact Or.inr hs
    · exact Or.inl (genRangeInt_some hg)
  | rangeFlt lo hi p nv =>
    simp only [resolve] at h
    simp only [InRange]
    rcases withSkip_cases h with hs | ⟨d1, hg⟩
    · exact Or.inr hs
    · exact Or.inl (genRangeFlt_some hg)
  | dateRange lo delta stamp p =>
    simp only [resolve] at h
    simp only [InRange]
    rcases withSkip_cases h with hs | ⟨d1, hg⟩
    · exact Or.inr hs
    · exact Or.inl (genDate_some hg)
  | value x p =>
    simp only [resolve] at h
    simp only [InRange]
    rcases withSkip_cases h with hs | ⟨d1, hg⟩
    · exact Or.inr hs
    · simp at hg
      exact Or.inl hg.1.symm
  | sparseBool p =>
    simp only [resolve] at h
    simp only [InRange]
    rcases withSkip_cases h with hs | ⟨d1, hg⟩
    · exact Or.inr hs
    · simp at hg
      exact Or.inl hg.1.symm
  | sample vs cs p =>
    simp only [resolve] at h
    simp only [InRange]
    rcases withSkip_cases h with hs | ⟨d1, hg⟩
    · exact Or.inr hs
    · exact Or.inl (genSample_some hg)
  | text p =>
    simp only [resolve] at h
    simp only [InRange]
    rcases withSkip_cases h with hs | ⟨d1, hg⟩
    · exact Or.inr hs
    · exact Or.inl (genText_some hg)

theorem resolveCount_ok {c : Option SVal} {ds ds' : List Draw} {n : Nat}
    (h : resolveCount c ds = some (n, ds')) : CountOK c n := by
  unfold resolveCount at h
  cases c with
  | none => simp at h; simp [CountOK, h.1]
  | some sv =>
    simp only at h
    split at h
    · simp at h
    · next v ds1 hv =>
      split at h
      · simp at h
      · next m hm =>
        simp at h
        cases sv with
        | const c =>
          simp [resolveSVal] at hv
          simp [CountOK, ← h.1, ← hm, hv.1]
        | rnd r =>
          simp only [resolveSVal] at hv
          exact ⟨v, resolve_inRange hv, by rw [hm, h.1]⟩

/-! ### node data -/

theorem resolveDict_attrsOK (idx : Nat) (hier : String) :
    ∀ (body : Spec) (ds ds' : List Draw) (attrs : Attrs),
      resolveDict idx hier body ds = some (attrs, ds') → AttrsOK idx hier body attrs
  | [], ds, ds', attrs, h => by
    simp [resolveDict] at h
    rw [h.1]
    exact .nil
  | (k, .const v) :: body, ds, ds', attrs, h => by
    unfold resolveDict at h
    split at h
    · simp at h
    · next v' hv =>
      split at h
      · simp at h
      · next rest ds1 hr =>
        simp at h
        rw [← h.1]
        exact .const hv (resolveDict_attrsOK idx hier body ds ds1 rest hr)
  | (k, .rnd r) :: body, ds, ds', attrs, h => by
    unfold resolveDict at h
    split at h
    · simp at h
    · next v ds1 hv =>
      have hin := resolve_inRange hv
      split at h
      · next hnone =>
        rw [hnone] at hin
        exact .skip hin (resolveDict_attrsOK idx hier body ds1 ds' attrs h)
      · next hne =>
        split at h
        · simp at h
        · next v' hv' =>
          split at h
          · simp at h
          · next rest ds2 hr =>
            simp at h
            rw [← h.1]
            exact .gen hin hne hv' (resolveDict_attrsOK idx hier body ds1 ds2 rest hr)

/-! ### the index path -/

theorem toString_nat_ne_empty (i : Nat) : toString i ≠ "" := by
  show Nat.repr i ≠ ""
  exact Nat.repr_ne_empty

theorem hierIdx_nil : hierIdx [] = "" := rfl

theorem hierIdx_ne_empty {path : List Nat} (h : path ≠ []) : hierIdx path ≠ "" := by
  unfold hierIdx
  cases path with
  | nil => exact absurd rfl h
  | cons a t =>
    cases t with
    | nil =>
      simp only [List.map, String.intercalate_singleton]
      exact toString_nat_ne_empty a
    | cons b t' =>
      simp only [List.map]
      rw [String.intercalate_cons_of_ne_nil (by simp)]
      intro hh
      have h1 := (String.append_eq_empty_iff.mp hh).1
      have h2 := (String.append_eq_empty_iff.mp h1).1
      exact toString_nat_ne_empty a h2

/-- `p = f"{prefix}.{i}" if prefix else f"{i}"` extends the dotted path by `i`. -/
theorem childPrefix_hierIdx (path : List Nat) (i : Nat) :
    childPrefix (hierIdx path) i = hierIdx (path ++ [i]) := by
  unfold childPrefix
  cases path with
  | nil =>
    simp [hierIdx, String.intercalate_singleton]
  | cons a t =>
    have hne : hierIdx (a :: t) ≠ "" := hierIdx_ne_empty (by simp)
    simp only [hne, if_false]
    unfold hierIdx
    rw [List.map_append, String.intercalate_append_of_ne_nil (by simp) (by simp)]
    simp [String.intercalate_singleton]

/-! ### the loops -/

/-- What the recursive call is assumed to deliver (the induction hypothesis on `fuel`). -/
def RecOK (d : Def) (typed : Bool) (rec : Rec) : Prop :=
  ∀ ptype path ds ks ds', rec ptype (hierIdx path) ds = some (ks, ds') →
    Conf d typed (.kids ptype path) ks

theorem childLoop_conf {d : Def} {typed : Bool} {rec : Rec} (hrec : RecOK d typed rec)
    (ntype : String) (body : Spec) (path : List Nat) :
    ∀ (n i : Nat) (ds ds' : List Draw) (g : List GNode),
      childLoop rec typed ntype body (hasRel d ntype) (hierIdx path) i n ds = some (g, ds') →
      Conf d typed (.group ntype body path i n) g
  | 0, i, ds, ds', g, h => by
    simp [childLoop] at h
    rw [h.1]
    exact .groupNil
  | n + 1, i, ds, ds', g, h => by
    unfold childLoop at h
    simp only [childPrefix_hierIdx] at h
    split at h
    · simp at h
    · next attrs ds1 ha =>
      split at h
      · simp at h
      · next kids ds2 hk =>
        split at h
        · simp at h
        · next rest ds3 hr =>
          simp at h
          rw [← h.1]
          refine .groupCons (resolveDict_attrsOK _ _ _ _ _ _ ha) ?_ ?_
            (childLoop_conf hrec ntype body path n (i + 1) ds2 ds3 rest hr)
          · intro ht
            rw [ht] at hk
            simp only [if_true] at hk
            exact hrec _ _ _ _ _ hk
          · intro hf
            rw [hf] at hk
            simp at hk
            exact hk.1

theorem relLoop_conf {d : Def} {typed : Bool} {rec : Rec} (hrec : RecOK d typed rec)
    (path : List Nat) :
    ∀ (rels : List (String × Spec)) (ds ds' : List Draw) (ks : List GNode),
      relLoop rec d typed (hierIdx path) rels ds = some (ks, ds') →
      Conf d typed (.rels path rels) ks
  | [], ds, ds', ks, h => by
    simp [relLoop] at h
    rw [h.1]
    exact .relsNil
  | (ntype, spec) :: rels, ds, ds', ks, h => by
    unfold relLoop at h
    simp only at h
    split at h
    · simp at h
    · next cnt ds1 hc =>
      split at h
      · simp at h
      · next g ds2 hg =>
        split at h
        · simp at h
        · next rest ds3 hr =>
          simp at h
          rw [← h.1]
          exact .relsCons (resolveCount_ok hc)
            (childLoop_conf hrec ntype _ path cnt 1 ds1 ds2 g hg)
            (relLoop_conf hrec path rels ds2 ds3 rest hr)

/-- Master lemma: for every fuel, parent type, index path and draw stream, the children created by
`_make_tree` conform to the structure definition. -/
theorem makeTree_conf (d : Def) (typed : Bool) :
    ∀ fuel, RecOK d typed (makeTree d typed fuel)
  | 0 => by
    intro ptype path ds ks ds' h
    simp [makeTree] at h
  | fuel + 1 => by
    intro ptype path ds ks ds' h
    unfold makeTree at h
    split at h
    · simp at h
    · next rels hl =>
      exact .kids hl (relLoop_conf (makeTree_conf d typed fuel) path rels ds ds' ks h)

/-! ### the result does not depend on the fuel -/

/-- `rec'` delivers whatever `rec` delivers -/
def RecLe (rec rec' : Rec) : Prop :=
  ∀ pt pre ds r, rec pt pre ds = some r → rec' pt pre ds = some r

theorem childLoop_mono {rec rec' : Rec} (hle : RecLe rec rec') (typed : Bool) (ntype : String)
    (body : Spec) (recurse : Bool) (pre : String) :
    ∀ (n i : Nat) (ds : List Draw) (r : List GNode × List Draw),
      childLoop rec typed ntype body recurse pre i n ds = some r →
      childLoop rec' typed ntype body recurse pre i n ds = some r
  | 0, i, ds, r, h => by simpa [childLoop] using h
  | n + 1, i, ds, r, h => by
    unfold childLoop at h ⊢
    simp only at h ⊢
    split at h
    · simp at h
    · next attrs ds1 ha =>
      split at h
      · simp at h
      · next kids ds2 hk =>
        have hk' : (if recurse = true then rec' ntype (childPrefix pre i) ds1 else some ([], ds1)) =
            some (kids, ds2) := by
          cases recurse with
          | true => simpa using hle _ _ _ _ (by simpa using hk)
          | false => simpa using hk
        rw [hk']
        dsimp only
        split at h
        · simp at h
        · next rest ds3 hr =>
          rw [childLoop_mono hle typed ntype body recurse pre n (i + 1) ds2 _ hr]
          exact h

theorem relLoop_mono {rec rec' : Rec} (hle : RecLe rec rec') (d : Def) (typed : Bool) (pre : String) :
    ∀ (rels : List (String × Spec)) (ds : List Draw) (r : List GNode × List Draw),
      relLoop rec d typed pre rels ds = some r → relLoop rec' d typed pre rels ds = some r
  | [], ds, r, h => by simpa [relLoop] using h
  | (ntype, spec) :: rels, ds, r, h => by
    unfold relLoop at h ⊢
    simp only at h ⊢
    split at h
    · simp at h
    · next cnt ds1 hc =>
      split at h
      · simp at h
      · next g ds2 hg =>
        rw [childLoop_mono hle typed ntype _ _ pre cnt 1 ds1 _ hg]
        dsimp only
        split at h
        · simp at h
        · next rest ds3 hr =>
          rw [relLoop_mono hle d typed pre rels ds2 _ hr]
          exact h

theorem makeTree_succ (d : Def) (typed : Bool) :
    ∀ fuel, RecLe (makeTree d typed fuel) (makeTree d typed (fuel + 1))
  | 0 => by
    intro pt pre ds r h
    simp [makeTree] at h
  | fuel + 1 => by
    intro pt pre ds r h
    unfold makeTree at h ⊢
    split at h
    · simp at h
    · next rels hl =>
      exact relLoop_mono (makeTree_succ d typed fuel) d typed pre rels ds r h

theorem makeTree_mono (d : Def) (typed : Bool) {f f' : Nat} (hle : f ≤ f') :
    RecLe (makeTree d typed f) (makeTree d typed f') := by
  induction hle with
  | refl => intro _ _ _ _ h; exact h
  | step _ ih =>
    intro pt pre ds r h
    exact makeTree_succ d typed _ pt pre ds r (ih pt pre ds r h)

end Gen
end Nutree
