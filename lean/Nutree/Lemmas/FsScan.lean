/-
Helper lemmas about `scan` (model of `load_tree_from_fs`) for C19.
-/
import Nutree.Spec.Fs
import Nutree.Lemmas.FsSort
namespace Nutree.Fs

abbrev files (l : List FNode) : List FNode := l.filter fun k => !k.isDir
abbrev dirs (l : List FNode) : List FNode := l.filter fun k => k.isDir

/-! ### shape of the model -/

theorem arrange_false (srt) (l : List FNode) : arrange srt false l = l := by simp [arrange]

theorem arrange_true (l : List FNode) :
    arrange sortByName true l = sortByName (files l) ++ sortByName (dirs l) := by simp [arrange]

theorem arrange_perm (sort : Bool) (l : List FNode) : (arrange sortByName sort l).Perm l := by
  cases sort
  · rw [arrange_false]
  · rw [arrange_true]
    have h := List.filter_append_perm (fun k : FNode => !k.isDir) l
    simp only [Bool.not_not] at h
    exact ((sortByName_perm _).append (sortByName_perm _)).trans h

theorem scanEach_append (srt sort) (l₁ l₂ : List Dir) :
    scanEachWith srt sort (l₁ ++ l₂) = scanEachWith srt sort l₁ ++ scanEachWith srt sort l₂ := by
  induction l₁ with
  | nil => simp [scanEachWith]
  | cons d l ih => simp [scanEachWith, ih]

theorem name_scanOne (srt sort) (d : Dir) : (scanOneWith srt sort d).name = d.name := by
  cases d <;> simp [scanOneWith, FNode.name, Dir.name]

theorem isDir_scanOne (srt sort) (d : Dir) : (scanOneWith srt sort d).isDir = d.isDir := by
  cases d <;> simp [scanOneWith, FNode.isDir, Dir.isDir]

theorem map_name_scanEach (srt sort) (es : List Dir) :
    (scanEachWith srt sort es).map FNode.name = es.map Dir.name := by
  induction es with
  | nil => simp [scanEachWith]
  | cons d l ih => simp [scanEachWith, ih, name_scanOne]

theorem toFNodes_eq_map (es : List Dir) : toFNodes es = es.map toFNode := by
  induction es with
  | nil => simp [toFNodes]
  | cons d l ih => simp [toFNodes, ih]

/-! ### sort = False: listing order, structurally -/

mutual
theorem scanOne_false (srt) : ∀ d : Dir, scanOneWith srt false d = toFNode d
  | .file n s m => by simp [scanOneWith, toFNode]
  | .dir n es => by simp [scanOneWith, toFNode, arrange_false, scanEach_false srt es]
theorem scanEach_false (srt) : ∀ es : List Dir, scanEachWith srt false es = toFNodes es
  | [] => by simp [scanEachWith, toFNodes]
  | d :: ds => by simp [scanEachWith, toFNodes, scanOne_false srt d, scanEach_false srt ds]
end

/-! ### mirror -/

theorem MirrorPerm.of_perm : ∀ {es ks ks'}, MirrorPerm es ks → ks.Perm ks' → MirrorPerm es ks'
  | _, _, _, .nil, h => by
      have := h.symm.eq_nil; subst this; exact .nil
  | _, _, ks', .cons (k := k) (ks₁ := ks₁) (ks₂ := ks₂) h1 h2, h => by
      have hk : k ∈ ks' := h.subset (by simp)
      obtain ⟨a, b, rfl⟩ := List.append_of_mem hk
      have : (ks₁ ++ ks₂).Perm (a ++ b) :=
        ((List.perm_middle.symm.trans h).trans List.perm_middle).cons_inv
      exact .cons h1 (MirrorPerm.of_perm h2 this)

mutual
theorem mirrorOne_scan (sort : Bool) : ∀ d : Dir, MirrorOne d (scanOne sort d)
  | .file n s m => by simpa [scanOneWith] using MirrorOne.file n s m
  | .dir n es => by
      simp only [scanOne, scanOneWith]
      exact .dir n ((mirrorEach_scan sort es).of_perm (arrange_perm sort _).symm)
theorem mirrorEach_scan (sort : Bool) : ∀ es : List Dir, MirrorPerm es (scanEach sort es)
  | [] => by simpa [scanEachWith] using MirrorPerm.nil
  | d :: ds => by
      simp only [scanEach, scanEachWith]
      exact MirrorPerm.cons (ks₁ := []) (mirrorOne_scan sort d) (mirrorEach_scan sort ds)
end

/-! ### sorted -/

theorem sortedAll_iff (R) : ∀ ks : List FNode, SortedAll R ks ↔ ∀ k ∈ ks, SortedOne R k
  | [] => by simp [SortedAll]
  | k :: ks => by simp [SortedAll, sortedAll_iff R ks]

theorem sortedAll_of_perm {R} {ks ks' : List FNode} (h : ks.Perm ks') :
    SortedAll R ks → SortedAll R ks' := by
  rw [sortedAll_iff, sortedAll_iff]
  exact fun H k hk => H k (h.mem_iff.2 hk)

theorem files_sorted_append (l : List FNode) :
    files (sortByName (files l) ++ sortByName (dirs l)) = sortByName (files l)
    ∧ dirs (sortByName (files l) ++ sortByName (dirs l)) = sortByName (dirs l) := by
  have hf : ∀ k ∈ sortByName (files l), k.isDir = false := fun k hk => by
    have := (List.mem_filter.1 (mem_sortByName.1 hk)).2; simpa using this
  have hd : ∀ k ∈ sortByName (dirs l), k.isDir = true := fun k hk => by
    have := (List.mem_filter.1 (mem_sortByName.1 hk)).2; simpa using this
  constructor
  · rw [files, List.filter_append, List.filter_eq_self.2 (fun k hk => by simp [hf k hk]),
      List.filter_eq_nil_iff.2 (fun k hk => by simp [hd k hk]), List.append_nil]
  · rw [dirs, List.filter_append, List.filter_eq_nil_iff.2 (fun k hk => by simp [hf k hk]),
      List.filter_eq_self.2 (fun k hk => by simp [hd k hk]), List.nil_append]

theorem levelSorted_arrange (l : List FNode) :
    LevelSorted (· ≤ ·) (arrange sortByName true l) := by
  rw [arrange_true]
  obtain ⟨h1, h2⟩ := files_sorted_append l
  unfold LevelSorted
  simp only [files, dirs] at h1 h2
  rw [h1, h2]
  exact ⟨rfl, sortByName_pairwise _, sortByName_pairwise _⟩

theorem nodup_filter_names {l : List FNode} (p : FNode → Bool) (hn : (l.map FNode.name).Nodup) :
    ((l.filter p).map FNode.name).Nodup :=
  hn.sublist ((List.filter_sublist (p := p) (l := l)).map FNode.name)

theorem levelSorted_arrange_lt (l : List FNode) (hn : (l.map FNode.name).Nodup) :
    LevelSorted (· < ·) (arrange sortByName true l) := by
  rw [arrange_true]
  obtain ⟨h1, h2⟩ := files_sorted_append l
  unfold LevelSorted
  simp only [files, dirs] at h1 h2
  rw [h1, h2]
  exact ⟨rfl, sortByName_pairwise_lt _ (nodup_filter_names _ hn),
    sortByName_pairwise_lt _ (nodup_filter_names _ hn)⟩

mutual
theorem sortedOne_scan : ∀ d : Dir, SortedOne (· ≤ ·) (scanOne true d)
  | .file n s m => by simp [scanOneWith, SortedOne, SortedAll, LevelSorted]
  | .dir n es => by
      simp only [scanOne, scanOneWith, SortedOne]
      exact ⟨levelSorted_arrange _, sortedAll_of_perm (arrange_perm true _).symm (sortedAll_scan es)⟩
theorem sortedAll_scan : ∀ es : List Dir, SortedAll (· ≤ ·) (scanEach true es)
  | [] => by simp [scanEachWith, SortedAll]
  | d :: ds => by
      simp only [scanEach, scanEachWith, SortedAll]
      exact ⟨sortedOne_scan d, sortedAll_scan ds⟩
end

mutual
theorem sortedOne_scan_lt : ∀ d : Dir, DistinctOne d → SortedOne (· < ·) (scanOne true d)
  | .file n s m, _ => by simp [scanOneWith, SortedOne, SortedAll, LevelSorted]
  | .dir n es, h => by
      simp only [DistinctOne] at h
      simp only [scanOne, scanOneWith, SortedOne]
      exact ⟨levelSorted_arrange_lt _ (by rw [map_name_scanEach]; exact h.1),
        sortedAll_of_perm (arrange_perm true _).symm (sortedAll_scan_lt es h.2)⟩
theorem sortedAll_scan_lt : ∀ es : List Dir, DistinctAll es → SortedAll (· < ·) (scanEach true es)
  | [], _ => by simp [scanEachWith, SortedAll]
  | d :: ds, h => by
      simp only [DistinctAll] at h
      simp only [scanEach, scanEachWith, SortedAll]
      exact ⟨sortedOne_scan_lt d h.1, sortedAll_scan_lt ds h.2⟩
end

/-! ### independence of the listing order -/

theorem arrange_eq_of_perm {l l' : List FNode} (h : l.Perm l') (hn : (l.map FNode.name).Nodup) :
    arrange sortByName true l = arrange sortByName true l' := by
  rw [arrange_true, arrange_true,
    sortByName_eq_of_perm (h.filter _) (nodup_filter_names _ hn),
    sortByName_eq_of_perm (h.filter _) (nodup_filter_names _ hn)]

mutual
theorem scanOne_listing : ∀ {d d' : Dir}, DirPermOne d d' → DistinctOne d →
    scanOne true d = scanOne true d'
  | _, _, .file n s m, _ => rfl
  | _, _, .dir n (es := es) (es' := es') h, hd => by
      simp only [DistinctOne] at hd
      simp only [scanOne, scanOneWith]
      rw [arrange_eq_of_perm (scanEach_listing h hd.2) (by rw [map_name_scanEach]; exact hd.1)]
theorem scanEach_listing : ∀ {es es' : List Dir}, DirPerm es es' → DistinctAll es →
    (scanEach true es).Perm (scanEach true es')
  | _, _, .nil, _ => by simp [scanEachWith]
  | _, _, .cons (l₁ := l₁) (l₂ := l₂) h1 h2, hd => by
      simp only [DistinctAll] at hd
      have ih := scanEach_listing h2 hd.2
      simp only [scanEach, scanEach_append, scanEachWith] at ih ⊢
      have e := scanOne_listing h1 hd.1
      simp only [scanOne] at e
      rw [e]
      exact (ih.cons _).trans List.perm_middle.symm
end

end Nutree.Fs
