/-
  Helper lemmas for C10 (relationships), part 2: the searched parent `findParent` is the node
  one step up the path; the `_parent` chain is the reversed list of the nodes along the path.
-/
import Nutree.Lemmas.Rel
namespace Nutree
open T C10

/-! ### findParent -/

mutual
/-- if a parent is found, the identity occurs among the strict descendants -/
theorem findParent_some {id : NodeId} {x : T} :
    ∀ t : T, findParent id t = some x → ∃ k ∈ flatL t.kids, k.id = id
  | .node i ks => by
    intro h
    rw [findParent] at h
    split at h
    · rename_i hany
      obtain ⟨k, hk, hid⟩ := List.any_eq_true.1 hany
      exact ⟨k, mem_flatL.2 ⟨k, hk, self_mem_flat k⟩, by simpa using hid⟩
    · exact findParentL_some ks h
theorem findParentL_some {id : NodeId} {x : T} :
    ∀ ts : List T, findParentL id ts = some x → ∃ k ∈ flatL ts, k.id = id
  | [] => by intro h; simp [findParentL] at h
  | t :: ts => by
    intro h
    rw [findParentL] at h
    split at h
    · rename_i p hp
      obtain ⟨k, hk, hid⟩ := findParent_some t hp
      exact ⟨k, mem_flatL.2 ⟨t, by simp, mem_flat_of_mem_flatL_kids hk⟩, hid⟩
    · obtain ⟨k, hk, hid⟩ := findParentL_some ts h
      obtain ⟨c, hc, hkc⟩ := mem_flatL.1 hk
      exact ⟨k, mem_flatL.2 ⟨c, List.mem_cons_of_mem _ hc, hkc⟩, hid⟩
end

/-- the search in a forest returns the hit of the first child that has one -/
theorem findParentL_skip {id : NodeId} {ks : List T} {i : Nat} {c r : T}
    (hc : ks[i]? = some c)
    (hbefore : ∀ m d, m < i → ks[m]? = some d → findParent id d = none)
    (hr : findParent id c = some r) : findParentL id ks = some r := by
  induction ks generalizing i with
  | nil => simp at hc
  | cons t ts ih =>
    cases i with
    | zero =>
      simp at hc; subst hc
      rw [findParentL, hr]
    | succ j =>
      simp at hc
      have h0 : findParent id t = none := hbefore 0 t (by omega) (by simp)
      rw [findParentL, h0]
      exact ih hc (fun m d hm hd => hbefore (m + 1) d (by omega) (by simpa using hd))

/-- the system root has no parent -/
theorem findParent_root {root : T} (hN : IdsNodup root) : findParent root.id root = none := by
  cases h : findParent root.id root with
  | none => rfl
  | some x =>
    obtain ⟨k, hk, hid⟩ := findParent_some root h
    exact absurd hid (((idsNodup_iff root).1 hN).1 k hk)

/-- **Key lemma**: the searched parent of the node at `p' ++ [i]` is the node at `p'`. -/
theorem findParent_snoc {root par self : T} {p' : List Nat} {i : Nat} (hN : IdsNodup root)
    (hpar : root.sub p' = some par) (hi : par.kids[i]? = some self) :
    findParent self.id root = some par := by
  induction p' generalizing root with
  | nil =>
    simp at hpar; subst hpar
    cases root with
    | node info ks =>
      simp only [T.kids_node] at hi
      have : ks.any (fun k => k.id == self.id) = true :=
        List.any_eq_true.2 ⟨self, List.mem_of_getElem? hi, by simp⟩
      rw [findParent, if_pos this]
  | cons j r ih =>
    have hself : root.sub ((j :: r) ++ [i]) = some self := by rw [sub_concat i hpar, hi]
    obtain ⟨c, hc, hr⟩ := sub_cons_some hpar
    have hNc := idsNodup_kid hN hc
    have hNL := ((idsNodup_iff root).1 hN).2
    have hselfc : self ∈ flat c := by
      have : c.sub (r ++ [i]) = some self := by rw [sub_concat i hr, hi]
      exact mem_flat_of_sub this
    cases root with
    | node info ks =>
      simp only [T.kids_node] at hc hNL
      have hany : ¬ (ks.any (fun k => k.id == self.id) = true) := by
        intro hany
        obtain ⟨k, hk, hid⟩ := List.any_eq_true.1 hany
        obtain ⟨m, hm⟩ := List.mem_iff_getElem?.1 hk
        have hk' : (T.node info ks).sub [m] = some k := by
          rw [sub_cons]; simp [hm]
        have := path_unique hN hk' hself (by simpa using hid)
        simp at this
      rw [findParent, if_neg hany]
      refine findParentL_skip hc ?_ (ih hNc hr)
      intro m d hm hd
      cases h : findParent self.id d with
      | none => rfl
      | some x =>
        obtain ⟨k, hk, hid⟩ := findParent_some d h
        exact absurd hid (id_ne_of_ne_idx hNL hd hc (by omega)
          (mem_flat_of_mem_flatL_kids hk) hselfc)

/-- the key lemma in `dropLast` form -/
theorem findParent_eq_sub_dropLast {root self : T} {p : List Nat} (hN : IdsNodup root)
    (hp : p ≠ []) (hs : root.sub p = some self) :
    findParent self.id root = root.sub p.dropLast := by
  obtain ⟨p', i, par, rfl, hpar, hi⟩ := snoc_cases hp hs
  rw [List.dropLast_concat, hpar]
  exact findParent_snoc hN hpar hi

/-! ### the parent chain -/

theorem parentChain_root {root : T} (hN : IdsNodup root) (f : Nat) :
    parentChain root f root.id = [] := by
  cases f with
  | zero => rfl
  | succ f => rw [parentChain, findParent_root hN]

theorem parentChain_snoc {root : T} (hN : IdsNodup root) :
    ∀ (n : Nat) (p' : List Nat) (i : Nat) (par self : T) (f : Nat), p'.length = n →
      root.sub p' = some par → par.kids[i]? = some self → p'.length + 1 ≤ f →
      parentChain root f self.id = (pathNodes root p').reverse ++ [root] := by
  intro n
  induction n with
  | zero =>
    intro p' i par self f hn hpar hi hf
    have : p' = [] := List.length_eq_zero_iff.1 hn
    subst this
    obtain ⟨f', rfl⟩ : ∃ f', f = f' + 1 := ⟨f - 1, by omega⟩
    rw [parentChain, findParent_snoc hN hpar hi]
    simp at hpar; subst hpar
    simp [parentChain_root hN, pathNodes]
  | succ n ih =>
    intro p' i par self f hn hpar hi hf
    obtain ⟨f', rfl⟩ : ∃ f', f = f' + 1 := ⟨f - 1, by omega⟩
    have hne : p' ≠ [] := by intro h; subst h; simp at hn
    obtain ⟨p'', j, gp, rfl, hgp, hj⟩ := snoc_cases hne hpar
    rw [parentChain, findParent_snoc hN hpar hi]
    simp only
    rw [ih p'' j gp par f' (by simpa using hn) hgp hj (by simp at hf; omega),
      pathNodes_concat hgp hj]
    simp

/-- **Key lemma**: the `_parent` chain of the node at `p' ++ [i]` is parent, grand-parent, …,
system root, i.e. the reversed list of the nodes along `p'` followed by the root.
The fuel `root.size` suffices. -/
theorem chain_snoc {root par self : T} {p' : List Nat} {i : Nat} (hN : IdsNodup root)
    (hpar : root.sub p' = some par) (hi : par.kids[i]? = some self) :
    chain root self = (pathNodes root p').reverse ++ [root] := by
  unfold chain
  refine parentChain_snoc hN _ p' i par self _ rfl hpar hi ?_
  have := length_add_size_le hpar
  have := size_pos par
  omega

end Nutree
