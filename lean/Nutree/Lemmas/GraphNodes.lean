/-
  Nutree.Lemmas.GraphNodes — helper lemmas for C17, part 2: the node-declaration loops
  (`used_keys` of dot.py, `id_to_idx` of mermaid.py) compute the first occurrences of the keys.
-/
import Nutree.Lemmas.Graph
namespace Nutree
namespace Graph
open T C10 Spec

/-! ### `dedupKeys` -/

@[simp] theorem dedupKeys_nil {α} : dedupKeys ([] : List (Key × α)) = [] := rfl

theorem dedupKeys_cons {α} (x : Key × α) (xs : List (Key × α)) :
    dedupKeys (x :: xs) = x :: (dedupKeys xs).filter (fun y => y.1 != x.1) := rfl

theorem mem_dedupKeys {α} {l : List (Key × α)} {y : Key × α} (h : y ∈ dedupKeys l) : y ∈ l := by
  induction l with
  | nil => simp at h
  | cons x xs ih =>
    rw [dedupKeys_cons, List.mem_cons] at h
    rcases h with rfl | h
    · simp
    · exact List.mem_cons_of_mem _ (ih (List.mem_filter.1 h).1)

/-- `dedupKeys` keeps every key. -/
theorem keys_dedupKeys {α} {l : List (Key × α)} {k : Key} :
    k ∈ (dedupKeys l).map Prod.fst ↔ k ∈ l.map Prod.fst := by
  induction l with
  | nil => simp
  | cons x xs ih =>
    rw [dedupKeys_cons, List.map_cons, List.map_cons, List.mem_cons, List.mem_cons]
    constructor
    · rintro (h | h)
      · exact Or.inl h
      · obtain ⟨y, hy, rfl⟩ := List.mem_map.1 h
        exact Or.inr (ih.1 (List.mem_map.2 ⟨y, (List.mem_filter.1 hy).1, rfl⟩))
    · rintro (h | h)
      · exact Or.inl h
      · by_cases hk : k = x.1
        · exact Or.inl hk
        · obtain ⟨y, hy, rfl⟩ := List.mem_map.1 (ih.2 h)
          exact Or.inr (List.mem_map.2 ⟨y, List.mem_filter.2 ⟨hy, by simpa using hk⟩, rfl⟩)

/-- every key is kept once. -/
theorem dedupKeys_nodup {α} (l : List (Key × α)) : ((dedupKeys l).map Prod.fst).Nodup := by
  induction l with
  | nil => simp
  | cons x xs ih =>
    rw [dedupKeys_cons, List.map_cons, List.nodup_cons]
    constructor
    · intro h
      obtain ⟨y, hy, hyx⟩ := List.mem_map.1 h
      have := (List.mem_filter.1 hy).2
      simp [hyx] at this
    · exact (List.filter_sublist.map Prod.fst).nodup ih

/-- nothing to remove when the keys are distinct. -/
theorem dedupKeys_of_nodup {α} {l : List (Key × α)} (h : (l.map Prod.fst).Nodup) : dedupKeys l = l := by
  induction l with
  | nil => rfl
  | cons x xs ih =>
    rw [List.map_cons, List.nodup_cons] at h
    rw [dedupKeys_cons, ih h.2, List.filter_eq_self.2]
    intro y hy
    have : y.1 ≠ x.1 := fun e => h.1 (e ▸ List.mem_map.2 ⟨y, hy, rfl⟩)
    simpa using this

/-- the (key, name) of a tree node. -/
def kn (unique : Bool) (n : T) : Key × String := (keyOf unique n, n.name)

theorem nodesSpec_true (addSelf : Bool) (t : T) :
    nodesSpec true addSelf t = dedupKeys ((exported addSelf t).map (kn true)) := by
  simp only [nodesSpec, if_true]; rfl

theorem exported_false (t : T) : exported false t = flatL t.kids := by simp [exported, branch]
theorem exported_true (t : T) : exported true t = t :: flatL t.kids := by simp [exported, branch]

theorem keys_nid_nodup {t : T} (hN : IdsNodup t) (addSelf : Bool) :
    (((exported addSelf t).map (kn false)).map Prod.fst).Nodup := by
  have h1 : ((exported addSelf t).map (kn false)).map Prod.fst = ((exported addSelf t).map T.id).map Key.nid := by
    simp [kn, keyOf, Function.comp_def]
  rw [h1]
  have hinj : ∀ a b : NodeId, Key.nid a = Key.nid b → a = b := fun a b h => by injection h
  have h2 : ((exported addSelf t).map T.id).Nodup := by
    cases addSelf
    · rw [exported_false]; exact ((idsNodup_iff t).1 hN).2
    · rw [exported_true, ← flat_eq]; exact hN
  exact h2.map Key.nid (fun a b hab e => hab (hinj a b e))

/-- with distinct identities, "one graph node per tree node" has pairwise distinct keys, so it is
the de-duplicated list as well. -/
theorem nodesSpec_eq_dedup {t : T} (unique addSelf : Bool) (hN : unique = false → IdsNodup t) :
    nodesSpec unique addSelf t = dedupKeys ((exported addSelf t).map (kn unique)) := by
  cases unique
  · rw [dedupKeys_of_nodup (keys_nid_nodup (hN rfl) addSelf)]
    simp [nodesSpec, kn]
  · exact nodesSpec_true addSelf t

theorem keysSpec_nodup {t : T} (unique addSelf : Bool) (hN : unique = false → IdsNodup t) :
    (keysSpec unique addSelf t).Nodup := by
  rw [keysSpec, nodesSpec_eq_dedup unique addSelf hN]; exact dedupKeys_nodup _

theorem mem_keysSpec {t n : T} (unique addSelf : Bool) (hN : unique = false → IdsNodup t)
    (hn : n ∈ exported addSelf t) : keyOf unique n ∈ keysSpec unique addSelf t := by
  rw [keysSpec, nodesSpec_eq_dedup unique addSelf hN, keys_dedupKeys]
  exact List.mem_map.2 ⟨kn unique n, List.mem_map.2 ⟨n, hn, rfl⟩, rfl⟩

/-- including the start node puts its key first and removes that key from the rest. -/
theorem dedup_exported_true (unique : Bool) (t : T) :
    dedupKeys ((exported true t).map (kn unique))
      = kn unique t :: (dedupKeys ((exported false t).map (kn unique))).filter (fun y => y.1 != keyOf unique t) := by
  rw [exported_true, exported_false, List.map_cons, dedupKeys_cons]; rfl

/-- no descendant shares the start node's key: the rest is untouched. -/
theorem dedup_exported_true_of_fresh (unique : Bool) (t : T)
    (h : ∀ n ∈ flatL t.kids, keyOf unique n ≠ keyOf unique t) :
    dedupKeys ((exported true t).map (kn unique))
      = kn unique t :: dedupKeys ((exported false t).map (kn unique)) := by
  rw [dedup_exported_true, List.filter_eq_self.2]
  intro y hy
  have hy' := mem_dedupKeys hy
  rw [exported_false] at hy'
  obtain ⟨n, hn, rfl⟩ := List.mem_map.1 hy'
  simpa [kn] using h n hn

/-! ### DOT: the `used_keys` loop -/

theorem dotDeclLoop_false (used : List Key) (ns : List T) :
    dotDeclLoop false used ns = ns.map (fun n => (Key.nid n.id, some n.name)) := by
  induction ns with
  | nil => simp [dotDeclLoop]
  | cons n ns ih => simp [dotDeclLoop, ih]

theorem dotDeclLoop_true (used : List Key) (ns : List T) :
    dotDeclLoop true used ns
      = ((dedupKeys (ns.map (kn true))).filter (fun y => !used.contains y.1)).map (fun y => (y.1, some y.2)) := by
  induction ns generalizing used with
  | nil => simp [dotDeclLoop]
  | cons n ns ih =>
    rw [List.map_cons, dedupKeys_cons]
    simp only [dotDeclLoop, if_true]
    by_cases hc : used.contains (Key.did n.did) = true
    · have hm : Key.did n.did ∈ used := by simpa using hc
      simp only [hc, if_true]
      rw [ih used, List.filter_cons]
      have : (!used.contains (kn true n).1) = false := by simp [kn, keyOf, hm]
      simp only [this, Bool.false_eq_true, if_false, List.filter_filter]
      congr 1
      apply List.filter_congr
      intro y _
      by_cases hy : y.1 = Key.did n.did
      · simp [hy, hm, kn, keyOf]
      · simp [hy, kn, keyOf]
    · have hm : Key.did n.did ∉ used := by simpa using hc
      have hc' : used.contains (Key.did n.did) = false := by simpa using hm
      simp only [hc', Bool.false_eq_true, if_false]
      rw [ih (Key.did n.did :: used), List.filter_cons]
      have : (!used.contains (kn true n).1) = true := by simpa [kn, keyOf] using hm
      simp only [this, if_true, List.filter_filter, List.map_cons]
      congr 2
      apply List.filter_congr
      intro y _
      simp only [List.contains_cons, kn, keyOf, if_true]
      by_cases hy : y.1 = Key.did n.did <;> simp [hy, Bool.and_comm, bne]

/-- the declaration loop declares the first occurrence of every key, with the node's name. -/
theorem dotDeclLoop_spec (unique : Bool) (t : T) :
    dotDeclLoop unique [] (iterPre t) = (nodesSpec unique false t).map (fun y => (y.1, some y.2)) := by
  rw [iterPre_flat]
  cases unique
  · rw [dotDeclLoop_false]
    simp [nodesSpec, exported_false, keyOf]
  · rw [dotDeclLoop_true, nodesSpec_true, exported_false, List.filter_eq_self.2 (by simp)]

/-- with the start node's key pre-seeded in `used_keys` (`unique_nodes`): the first occurrences
of the other keys. -/
theorem dotDeclLoop_seeded (t : T) :
    dotDeclLoop true [keyOf true t] (iterPre t)
      = ((nodesSpec true false t).filter (fun y => y.1 != keyOf true t)).map (fun y => (y.1, some y.2)) := by
  rw [iterPre_flat, dotDeclLoop_true, nodesSpec_true, exported_false]
  congr 1
  apply List.filter_congr
  intro y _
  by_cases hy : y.1 = keyOf true t <;> simp [bne, hy]

/-! ### Mermaid: the `id_to_idx` loop -/

/-- `id_to_idx` as it results from numbering a node list from `i`. -/
def tableOf : Nat → List (Key × String) → List (Key × Nat)
  | _, [] => []
  | i, x :: xs => (x.1, i) :: tableOf (i + 1) xs

theorem lookup_isSome (tbl : List (Key × Nat)) (k : Key) :
    (tbl.lookup k).isSome = (tbl.map Prod.fst).contains k := by
  induction tbl with
  | nil => simp
  | cons e es ih =>
    obtain ⟨a, b⟩ := e
    rw [List.lookup_cons, List.map_cons, List.contains_cons]
    by_cases h : k = a
    · subst h; simp
    · have : (k == a) = false := by simpa using h
      simp [this, ih]

theorem mermaidLoop_spec (unique : Bool) (tbl : List (Key × Nat)) (idx : Nat) (ns : List T) :
    mermaidLoop unique tbl idx ns
      = (numbered idx ((dedupKeys (ns.map (kn unique))).filter (fun y => !(tbl.map Prod.fst).contains y.1)),
         tbl ++ tableOf idx ((dedupKeys (ns.map (kn unique))).filter (fun y => !(tbl.map Prod.fst).contains y.1))) := by
  induction ns generalizing tbl idx with
  | nil => simp [mermaidLoop, numbered, tableOf]
  | cons n ns ih =>
    rw [List.map_cons, dedupKeys_cons]
    simp only [mermaidLoop, lookup_isSome]
    by_cases hc : (tbl.map Prod.fst).contains (keyOf unique n) = true
    · have hm : keyOf unique n ∈ tbl.map Prod.fst := by simpa using hc
      simp only [hc, if_true]
      rw [ih tbl idx, List.filter_cons]
      have : (!(tbl.map Prod.fst).contains (kn unique n).1) = false := by
        simp only [kn, hc]; rfl
      simp only [this, Bool.false_eq_true, if_false, List.filter_filter]
      have hf : (dedupKeys (ns.map (kn unique))).filter (fun y => !(tbl.map Prod.fst).contains y.1)
          = (dedupKeys (ns.map (kn unique))).filter
              (fun a => (!(tbl.map Prod.fst).contains a.1) && (a.1 != (kn unique n).1)) := by
        apply List.filter_congr
        intro y _
        by_cases hy : y.1 = keyOf unique n
        · simp only [hy, hc, kn]; rfl
        · have : (y.1 != (kn unique n).1) = true := by simpa [kn] using hy
          rw [this, Bool.and_true]
      rw [hf]
    · have hc' : (tbl.map Prod.fst).contains (keyOf unique n) = false := by simpa using hc
      simp only [hc', Bool.false_eq_true, if_false]
      rw [ih (tbl ++ [(keyOf unique n, idx)]) (idx + 1), List.filter_cons]
      have : (!(tbl.map Prod.fst).contains (kn unique n).1) = true := by
        simp only [kn, hc']; rfl
      simp only [this, if_true, List.filter_filter]
      have hf : (dedupKeys (ns.map (kn unique))).filter
            (fun y => !((tbl ++ [(keyOf unique n, idx)]).map Prod.fst).contains y.1)
          = (dedupKeys (ns.map (kn unique))).filter
              (fun a => (!(tbl.map Prod.fst).contains a.1) && (a.1 != (kn unique n).1)) := by
        apply List.filter_congr
        intro y _
        rw [List.map_append, List.contains_append]
        by_cases hy : y.1 = keyOf unique n
        · simp [hy, kn]
        · have h1 : (y.1 != (kn unique n).1) = true := by simpa [kn] using hy
          have h2 : ([(keyOf unique n, idx)].map Prod.fst).contains y.1 = false := by simpa using hy
          rw [h1, h2, Bool.or_false, Bool.and_true]
      rw [hf]
      simp [numbered, tableOf, kn]

theorem mermaidNodes_eq (unique addRoot : Bool) (t : T) :
    mermaidNodes unique addRoot t
      = numbered (firstIdx addRoot) (dedupKeys ((exported addRoot t).map (kn unique))) := by
  unfold mermaidNodes
  rw [mermaidLoop_spec, iterPre_flat]
  cases addRoot
  · simp [mermaidInit, firstIdx, exported_false]
    rw [List.filter_eq_self.2 (by simp)]
  · rw [dedup_exported_true, exported_false]
    simp only [mermaidInit, firstIdx, numbered, kn, if_true, List.cons_append, List.nil_append, List.map_cons,
      List.map_nil]
    congr 2
    apply List.filter_congr
    intro y _
    by_cases hy : y.1 = keyOf unique t <;> simp [bne, hy]

theorem mermaidTable_eq (unique addRoot : Bool) (t : T) :
    mermaidTable unique addRoot t
      = tableOf (firstIdx addRoot) (dedupKeys ((exported addRoot t).map (kn unique))) := by
  unfold mermaidTable
  rw [mermaidLoop_spec, iterPre_flat]
  cases addRoot
  · simp [mermaidInit, firstIdx, exported_false]
    rw [List.filter_eq_self.2 (by simp)]
  · rw [dedup_exported_true, exported_false]
    simp only [mermaidInit, firstIdx, tableOf, kn, if_true, List.cons_append, List.nil_append, List.map_cons,
      List.map_nil]
    congr 2
    apply List.filter_congr
    intro y _
    by_cases hy : y.1 = keyOf unique t <;> simp [bne, hy]

/-- `id_to_idx[key]` is the position of the key among the declared keys (plus the first number). -/
theorem lookup_tableOf (i : Nat) (l : List (Key × String)) (k : Key) (h : k ∈ l.map Prod.fst) :
    (tableOf i l).lookup k = some (i + (l.map Prod.fst).idxOf k) := by
  induction l generalizing i with
  | nil => simp at h
  | cons x xs ih =>
    rw [tableOf, List.lookup_cons, List.map_cons, List.idxOf_cons]
    by_cases hk : k = x.1
    · subst hk; simp
    · have h1 : (k == x.1) = false := by simpa using hk
      have h2 : (x.1 == k) = false := by simpa using fun e : x.1 = k => hk e.symm
      rw [List.map_cons, List.mem_cons] at h
      have h3 := ih (i + 1) (h.resolve_left hk)
      simp only [h1, h2, h3]
      simp; omega

/-- the edge loop never raises KeyError when all keys are declared, and translates each pair. -/
theorem mermaidEdgeLoop_spec (unique addRoot : Bool) (t : T) (i : Nat) (l : List (Key × String))
    (ps : List (T × T))
    (h : ∀ pn ∈ ps, (addRoot || !(pn.1.id == t.id)) = true →
      keyOf unique pn.1 ∈ l.map Prod.fst ∧ keyOf unique pn.2 ∈ l.map Prod.fst) :
    mermaidEdgeLoop unique addRoot t (tableOf i l) ps
      = some ((ps.filter (fun pn => addRoot || !(pn.1.id == t.id))).map fun pn =>
          (i + (l.map Prod.fst).idxOf (keyOf unique pn.1), i + (l.map Prod.fst).idxOf (keyOf unique pn.2),
            mermaidKind pn.2)) := by
  induction ps with
  | nil => simp [mermaidEdgeLoop]
  | cons pn ps ih =>
    obtain ⟨p, n⟩ := pn
    have ih' := ih (fun x hx => h x (List.mem_cons_of_mem _ hx))
    by_cases hc : (addRoot || !(p.id == t.id)) = true
    · obtain ⟨h1, h2⟩ := h (p, n) (by simp) hc
      have hc' : (!addRoot && p.id == t.id) = false := by
        cases addRoot <;> cases hpt : (p.id == t.id) <;> simp_all
      simp only [mermaidEdgeLoop, hc', Bool.false_eq_true, if_false, lookup_tableOf i l _ h1,
        lookup_tableOf i l _ h2, ih', List.filter_cons, hc, if_true, List.map_cons, Option.map_some]
    · have hc' : (!addRoot && p.id == t.id) = true := by
        cases addRoot <;> cases hpt : (p.id == t.id) <;> simp_all
      simp only [mermaidEdgeLoop, hc', if_true, ih', List.filter_cons, hc, Bool.false_eq_true, if_false]

theorem numbered_length (i : Nat) (l : List (Key × String)) : (numbered i l).length = l.length := by
  induction l generalizing i with
  | nil => rfl
  | cons x xs ih => simp [numbered, ih]

theorem mermaidKind_eq {n : T} (h : n.kind ≠ some "") : mermaidKind n = n.kind := by
  unfold mermaidKind
  cases hk : n.kind with
  | none => rfl
  | some k =>
    have : k ≠ "" := fun e => h (by rw [hk, e])
    simp [this]

end Graph
end Nutree
