/- Helper lemmas for C09 (searches). -/
import Nutree.Model.Search
import Nutree.Lemmas.Iter
namespace Nutree
open T
namespace Search

/- the model type derives none; used by `decide` in examples -/
deriving instance DecidableEq for GetRes

/-! ### the counting loop -/

/-- no limit (`None`): the loop is `filter`, whatever the counter. -/
theorem searchLoop_none (m : T → Bool) : ∀ (xs : List T) (c : Nat),
    searchLoop m none xs c = xs.filter m
  | [], _ => by simp [searchLoop]
  | n :: ns, c => by
    cases h : m n <;> simp [searchLoop, h, searchLoop_none m ns]

/-- limit `0` is falsy in Python (`if max_results and …`): no limit either. -/
theorem searchLoop_zero (m : T → Bool) : ∀ (xs : List T) (c : Nat),
    searchLoop m (some 0) xs c = xs.filter m
  | [], _ => by simp [searchLoop]
  | n :: ns, c => by
    cases h : m n <;> simp [searchLoop, h, searchLoop_zero m ns]

/-- a limit `k+1` with `c ≤ k` matches already counted: the next `k+1-c` matches. -/
theorem searchLoop_some (m : T → Bool) (k : Nat) : ∀ (xs : List T) (c : Nat), c ≤ k →
    searchLoop m (some (k + 1)) xs c = (xs.filter m).take (k + 1 - c)
  | [], _, _ => by simp [searchLoop]
  | n :: ns, c, hc => by
    cases h : m n
    · simp [searchLoop, h, searchLoop_some m k ns c hc]
    · by_cases hk : c = k
      · subst hk
        simp [searchLoop, h]
      · have hc' : c + 1 ≤ k := by omega
        have hlt : ¬ (k + 1 ≤ c + 1) := by omega
        have e : k + 1 - c = (k - c) + 1 := by omega
        have e' : k + 1 - (c + 1) = k - c := by omega
        simp [searchLoop, h, hlt, searchLoop_some m k ns (c + 1) hc', e, e']

/-- the loop against the specification's `limit`. -/
theorem searchLoop_limit (m : T → Bool) (k : Option Nat) (xs : List T) :
    searchLoop m k xs 0 = Spec.limit k (xs.filter m) := by
  match k with
  | none => simp [Spec.limit, searchLoop_none]
  | some 0 => simp [Spec.limit, searchLoop_zero]
  | some (k + 1) => simp [Spec.limit, searchLoop_some m k xs 0 (Nat.zero_le _)]

theorem search_eq (m : T → Bool) (k : Option Nat) (addSelf : Bool) (self : T) :
    search m k addSelf self = Spec.limit k (Spec.matching m addSelf self) := by
  simp [search, Spec.matching, searchLoop_limit, iterPre_flat]

theorem limit_one_head? (l : List T) : (Spec.limit (some 1) l).head? = l.head? := by
  cases l <;> simp [Spec.limit]

/-! ### the index -/

theorem lookup_mem {α β} [BEq α] [LawfulBEq α] : ∀ (l : List (α × β)) (a : α) (b : β),
    l.lookup a = some b → (a, b) ∈ l
  | [], _, _, h => by simp at h
  | (a', b') :: l, a, b, h => by
    simp only [List.lookup_cons] at h
    cases hab : a == a' with
    | true =>
      rw [hab] at h
      have := eq_of_beq hab
      simp at h
      subst this; subst h
      simp
    | false =>
      rw [hab] at h
      exact List.mem_cons_of_mem _ (lookup_mem l a b h)

/-- the unlimited index lookup is the clone list. -/
theorem treeFindAllId_none (idx : Index) (d : DataId) :
    treeFindAllId idx d none = Spec.clones idx d := by
  unfold treeFindAllId Spec.clones
  cases h : idx.lookup d with
  | none => simp
  | some res => cases res <;> simp

theorem treeFindAllId_eq (idx : Index) (d : DataId) (k : Option Nat) :
    treeFindAllId idx d k = Spec.limit k (Spec.clones idx d) := by
  unfold treeFindAllId Spec.clones
  cases h : idx.lookup d with
  | none => cases k with
    | none => simp [Spec.limit]
    | some k' => cases k' <;> simp [Spec.limit]
  | some res =>
    cases res with
    | nil => cases k with
      | none => simp [Spec.limit]
      | some k' => cases k' <;> simp [Spec.limit]
    | cons a as => cases k with
      | none => simp [Spec.limit]
      | some k' => cases k' <;> simp [Spec.limit]

theorem treeFindFirstId_eq (idx : Index) (d : DataId) :
    treeFindFirstId idx d = (Spec.clones idx d).head? := by
  unfold treeFindFirstId Spec.clones
  cases h : idx.lookup d <;> simp

/-- `data in tree` needs no invariant. -/
theorem contains_eq (idx : Index) (cid : DataId) :
    contains idx cid = !(Spec.clones idx cid).isEmpty := by
  unfold contains
  rw [treeFindFirstId_eq]
  cases Spec.clones idx cid <;> simp

/-- under "no empty clone list", `d in _nodes_by_data_id` iff the clone list is non-empty. -/
theorem lookup_isSome_iff (idx : Index) (h : ∀ p ∈ idx, p.2 ≠ []) (d : DataId) :
    (idx.lookup d).isSome = !(Spec.clones idx d).isEmpty := by
  unfold Spec.clones
  cases hl : idx.lookup d with
  | none => simp
  | some res =>
    have := h _ (lookup_mem idx d res hl)
    cases res with
    | nil => simp at this
    | cons a as => simp

/-- the data_id / data stage of `tree[key]`. -/
theorem getItem_res (idx : Index) (h : ∀ p ∈ idx, p.2 ≠ []) (d cid : DataId) :
    (if (idx.lookup d).isSome then treeFindAllId idx d none else treeFindAllId idx cid none)
      = (if (Spec.clones idx d).isEmpty then Spec.clones idx cid else Spec.clones idx d) := by
  simp only [treeFindAllId_none, lookup_isSome_iff idx h d]
  cases Spec.clones idx d <;> simp

theorem getItem_eq (byId : List (Int × T)) (idx : Index) (key : Key)
    (h : ∀ p ∈ idx, p.2 ≠ []) : getItem byId idx key = Spec.getItem byId idx key := by
  cases key with
  | node => rfl
  | obj isInt asId cid =>
    cases asId with
    | none => cases isInt <;> simp [getItem, Spec.getItem, treeFindAllId_none]
    | some d =>
      have hr := getItem_res idx h d cid
      cases isInt <;> cases d <;> simp only [getItem, Spec.getItem, hr] <;> rfl

end Search
end Nutree
