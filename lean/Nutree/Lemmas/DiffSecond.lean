/-
  Nutree.Lemmas.DiffSecond — projection of the diff result onto the second input: dropping the
  REMOVED / MOVED_TO nodes leaves the parent→child relation of `t1` (children in `t0` order,
  the added ones last).
-/
import Nutree.Lemmas.DiffProj
import Nutree.Lemmas.DiffShape
namespace Nutree
open T C10
namespace Diff

/-! ## 0. generic list facts -/

inductive All2 {α β : Type} (R : α → β → Prop) : List α → List β → Prop
  | nil : All2 R [] []
  | cons {a : α} {b : β} {as : List α} {bs : List β} : R a b → All2 R as bs → All2 R (a :: as) (b :: bs)

theorem all2_of_get {α β : Type} {R : α → β → Prop} : ∀ (l1 : List α) (l2 : List β),
    l1.length = l2.length → (∀ (j : Nat) (a : α), l1[j]? = some a → ∃ b, l2[j]? = some b ∧ R a b) →
    All2 R l1 l2 := by
  intro l1
  induction l1 with
  | nil => intro l2 hl _; cases l2 with | nil => exact .nil | cons _ _ => simp at hl
  | cons a as ih =>
    intro l2 hl h
    cases l2 with
    | nil => simp at hl
    | cons b bs =>
      obtain ⟨b', hb', hr⟩ := h 0 a rfl
      simp only [List.getElem?_cons_zero, Option.some.injEq] at hb'
      subst hb'
      refine .cons hr (ih bs (by simpa using hl) ?_)
      intro j a' hj
      have := h (j + 1) a' (by simpa using hj)
      simpa using this

theorem nodup_of_map {α β : Type} (f : α → β) : ∀ {l : List α}, (l.map f).Nodup → l.Nodup := by
  intro l
  induction l with
  | nil => intro _; exact List.nodup_nil
  | cons a l ih =>
    intro h
    rw [List.map_cons, List.nodup_cons] at h
    rw [List.nodup_cons]
    exact ⟨fun hm => h.1 (List.mem_map_of_mem hm), ih h.2⟩

theorem eq_of_did_eq {l : List T} (hN : (l.map T.did).Nodup) {a b : T} (ha : a ∈ l) (hb : b ∈ l)
    (h : a.did = b.did) : a = b := by
  induction l with
  | nil => cases ha
  | cons x l ih =>
    rw [List.map_cons, List.nodup_cons] at hN
    rw [List.mem_cons] at ha hb
    rcases ha with rfl | ha <;> rcases hb with rfl | hb
    · rfl
    · exact absurd (h ▸ List.mem_map_of_mem hb) hN.1
    · exact absurd (h ▸ List.mem_map_of_mem ha) hN.1
    · exact ih hN.2 ha hb

/-! ## 1. `findChild` -/

theorem findChild_some {l : List T} {c x : T} {i : Nat} (h : findChild l c = some (i, x)) :
    l[i]? = some x ∧ x.data.pyEq c.data = true := by
  unfold findChild at h
  simp only [] at h
  split at h
  · rename_i y hy
    injection h with h
    injection h with h1 h2
    subst h1 h2
    refine ⟨hy, ?_⟩
    obtain ⟨hlt, he⟩ := List.getElem?_eq_some_iff.1 hy
    rw [← he]
    exact List.findIdx_getElem (p := fun x : T => x.data.pyEq c.data)
  · cases h

theorem findChild_none {l : List T} {c : T} (h : findChild l c = none) :
    ∀ x ∈ l, x.data.pyEq c.data = false := by
  unfold findChild at h
  simp only [] at h
  split at h
  · cases h
  · rename_i hn
    rw [List.getElem?_eq_none_iff] at hn
    have : l.findIdx (fun x => x.data.pyEq c.data) = l.length :=
      Nat.le_antisymm List.findIdx_le_length hn
    exact List.findIdx_eq_length.1 this

/-! ## 2. shapes up to the order of children -/

/-- equality of payload shapes up to the order of the children at every level: matched
elements have `==` data and the same data_id. -/
inductive PEquiv : List PShape → List PShape → Prop
  | nil : PEquiv [] []
  | cons {d1 d2 : Atom} {i : DataId} {ks1 ks2 l1 l2 : List PShape} :
      d1.pyEq d2 = true → PEquiv ks1 ks2 → PEquiv l1 l2 →
      PEquiv (.node d1 i ks1 :: l1) (.node d2 i ks2 :: l2)
  | permL {l1 l1' l2 : List PShape} : l1.Perm l1' → PEquiv l1' l2 → PEquiv l1 l2
  | permR {l1 l2 l2' : List PShape} : l2.Perm l2' → PEquiv l1 l2' → PEquiv l1 l2

theorem PEquiv.append {a b c d : List PShape} (h1 : PEquiv a b) (h2 : PEquiv c d) :
    PEquiv (a ++ c) (b ++ d) := by
  induction h1 with
  | nil => exact h2
  | cons hd _ _ _ ih2 => exact .cons hd (by assumption) ih2
  | permL hp _ ih => exact .permL (hp.append_right _) ih
  | permR hp _ ih => exact .permR (hp.append_right _) ih

theorem PEquiv.refl_plain : ∀ l : List T, PEquiv (plainShape l) (plainShape l) := by
  intro l
  induction l using indList with
  | nil => rw [plainShape_nil]; exact .nil
  | cons i ks rest ihk ihr => rw [plainShape_cons]; exact .cons (pyEq_refl _) ihk ihr

/-! ## 3. the projection -/

/-- the marks dropped by the projection onto the second tree. -/
def remMarks : List String := ["REMOVED", "MOVED_TO"]

theorem hasMark_rem (i : Info) : hasMark remMarks i = isRemovedS (dcI i) := by
  unfold hasMark isRemovedS remMarks
  cases dcI i with
  | none => rfl
  | some d =>
    simp only [List.contains, List.elem]
    cases h1 : d == "REMOVED" <;> cases h2 : d == "MOVED_TO" <;>
      simp_all [beq_iff_eq]

theorem dropMarked_cons' (t : T) (ts : List T) :
    dropMarked remMarks (t :: ts) =
      if isRemoved t then dropMarked remMarks ts
      else .node t.info (dropMarked remMarks t.kids) :: dropMarked remMarks ts := by
  cases t with
  | node i ks => rw [dropMarked_cons, hasMark_rem]; rfl

/-- a copy contains no removal mark: nothing is dropped. -/
theorem dropMarked_copy : ∀ (src res : List T), SimL CopyQ src res → dropMarked remMarks res = res := by
  intro src
  induction src using indList with
  | nil => intro res h; rw [simL_nil_left] at h; subst h; rw [dropMarked_nil]
  | cons i ks rest ihk ihr =>
    intro res h
    rw [simL_cons_left] at h
    obtain ⟨j, ls, bs, he, hq, h2, h3⟩ := h
    subst he
    rw [dropMarked_cons, hasMark_rem, hq.notRemoved, ihk _ h2, ihr _ h3]
    simp

theorem plainShape_copy (src res : List T) (h : SimL CopyQ src res) : plainShape res = plainShape src :=
  plainShape_of_simL (fun _ _ hq => ⟨hq.1, hq.2.1⟩) _ _ h

/-- the peers (in `k1`) of the members of `l0`, in the order of `l0`. -/
def peers (k1 l0 : List T) : List T := l0.filterMap fun c0 => (findChild k1 c0).map (·.2)

theorem peers_cons_none {k1 : List T} {c0 : T} {l0 : List T} (h : findChild k1 c0 = none) :
    peers k1 (c0 :: l0) = peers k1 l0 := by
  unfold peers; rw [List.filterMap_cons, h]; rfl

theorem peers_cons_some {k1 : List T} {c0 c1 : T} {i1 : Nat} {l0 : List T}
    (h : findChild k1 c0 = some (i1, c1)) : peers k1 (c0 :: l0) = c1 :: peers k1 l0 := by
  unfold peers; rw [List.filterMap_cons, h]; rfl

/-- the added part: shapes of the copies are the shapes of their sources. -/
theorem added_part {l1 l2 : List T}
    (h : All2 (fun c1 c2 : T => c2.data = c1.data ∧ c2.did = c1.did ∧ isAdded c2 = true ∧
      SimL CopyQ c1.kids c2.kids) l1 l2) :
    plainShape (dropMarked remMarks l2) = plainShape l1 := by
  induction h with
  | nil => rw [dropMarked_nil]
  | @cons c1 c2 as bs hr _ ih =>
    obtain ⟨hd, hi, ha, hs⟩ := hr
    have hnr : isRemoved c2 = false := by
      unfold isAdded isAddedS at ha
      unfold isRemoved isRemovedS
      simp only [Bool.or_eq_true, beq_iff_eq] at ha
      rcases ha with ha | ha <;> rw [ha] <;> decide
    rw [dropMarked_cons', hnr]
    simp only [Bool.false_eq_true, if_false]
    rw [plainShape_cons, plainShape_cons', ih, dropMarked_copy _ _ hs, plainShape_copy _ _ hs]
    show PShape.node c2.data c2.did _ :: _ = _
    rw [hd, hi]

/-- `k1` is, up to order, the peers of `k0` followed by the sources of the added nodes. -/
theorem peers_perm {k0 k1 : List T} (h0 : (k0.map T.did).Nodup) (h1 : (k1.map T.did).Nodup)
    (hF : ∀ a ∈ k0, ∀ b ∈ k1, (a.data.pyEq b.data = true ↔ a.did = b.did)) :
    k1.Perm (peers k1 k0 ++ addedSrc k0 k1) := by
  have hdid : ∀ c0 ∈ k0, ∀ i x, findChild k1 c0 = some (i, x) → x ∈ k1 ∧ x.did = c0.did := by
    intro c0 hc0 i x hf
    obtain ⟨hx, hp⟩ := findChild_some hf
    have hxm := List.mem_of_getElem? hx
    rw [pyEq_comm] at hp
    exact ⟨hxm, ((hF c0 hc0 x hxm).1 hp).symm⟩
  refine (List.filter_append_perm (fun c1 => k0.any fun c0 => c0.did == c1.did) k1).symm.trans ?_
  refine List.Perm.append_right _ ?_
  refine (List.perm_ext_iff_of_nodup ((nodup_of_map T.did h1).sublist List.filter_sublist) ?_).2 ?_
  · -- the peers are pairwise distinct
    apply nodup_of_map T.did
    have : ∀ l0 : List T, (∀ c ∈ l0, c ∈ k0) → ((peers k1 l0).map T.did).Sublist (l0.map T.did) := by
      intro l0
      induction l0 with
      | nil => intro _; exact List.Sublist.refl _
      | cons c l0 ih =>
        intro hm
        have ih' := ih (fun c' hc' => hm c' (List.mem_cons_of_mem _ hc'))
        cases hf : findChild k1 c with
        | none => rw [peers_cons_none hf, List.map_cons]; exact ih'.cons _
        | some p =>
          obtain ⟨i, x⟩ := p
          rw [peers_cons_some hf, List.map_cons, List.map_cons,
            (hdid c (hm c (List.mem_cons_self ..)) i x hf).2]
          exact ih'.cons_cons _
    exact (this k0 (fun _ h => h)).nodup h0
  · intro x
    simp only [List.mem_filter, List.any_eq_true, beq_iff_eq]
    unfold peers
    rw [List.mem_filterMap]
    constructor
    · rintro ⟨hx, c0, hc0, hd⟩
      have hp : c0.data.pyEq x.data = true := (hF c0 hc0 x hx).2 hd
      cases hf : findChild k1 c0 with
      | none =>
        have := findChild_none hf x hx
        rw [pyEq_comm, hp] at this; cases this
      | some p =>
        obtain ⟨i, x'⟩ := p
        obtain ⟨hx', hd'⟩ := hdid c0 hc0 i x' hf
        have : x' = x := eq_of_did_eq h1 hx' hx (hd'.trans hd)
        subst this
        exact ⟨c0, hc0, by rw [hf]; rfl⟩
    · rintro ⟨c0, hc0, hf⟩
      cases hfc : findChild k1 c0 with
      | none => rw [hfc] at hf; cases hf
      | some p =>
        obtain ⟨i, x'⟩ := p
        rw [hfc] at hf
        simp only [Option.map_some, Option.some.injEq] at hf
        subst hf
        obtain ⟨hx', hd'⟩ := hdid c0 hc0 i x' hfc
        exact ⟨hx', c0, hc0, hd'.symm⟩

theorem secondProj_of_spec (o : Bool) : ∀ (k0 k1 r : List T), SibU k0 → SibU k1 → IdFaithful k0 k1 →
    Spec o k0 k1 r → PEquiv (plainShape (dropMarked remMarks r)) (plainShape k1) := by
  intro k0
  induction k0 using indKids with
  | h k0 ih =>
    intro k1 r hs0 hs1 hF hs
    have hl := hs.here
    have hFtop : ∀ a ∈ k0, ∀ b ∈ k1, (a.data.pyEq b.data = true ↔ a.did = b.did) :=
      fun a ha b hb => hF a (mem_flatL_of_mem ha) b (mem_flatL_of_mem hb)
    -- the matched part
    have hB : All2 (fun c0 c2 : T => c2.data = c0.data ∧ c2.did = c0.did ∧
        ∃ j, k0[j]? = some c0 ∧ r[j]? = some c2 ∧ SrcMark o k1 j c0 c2) k0 (r.take k0.length) := by
      refine all2_of_get _ _ (by rw [List.length_take, hl.len]; omega) ?_
      intro j c0 h0
      obtain ⟨c2, h2, hd, hi, hm⟩ := hl.src j c0 h0
      have hj := (List.getElem?_eq_some_iff.1 h0).1
      exact ⟨c2, by rw [List.getElem?_take, if_pos hj]; exact h2, hd, hi, j, h0, h2, hm⟩
    have hBe : ∀ (l0 l2 : List T), All2 (fun c0 c2 : T => c2.data = c0.data ∧ c2.did = c0.did ∧
        ∃ j, k0[j]? = some c0 ∧ r[j]? = some c2 ∧ SrcMark o k1 j c0 c2) l0 l2 →
        PEquiv (plainShape (dropMarked remMarks l2)) (plainShape (peers k1 l0)) := by
      intro l0 l2 h
      induction h with
      | nil =>
        rw [dropMarked_nil]
        simp only [peers, List.filterMap_nil, plainShape_nil]
        exact .nil
      | @cons c0 c2 as bs hr _ ih2 =>
        obtain ⟨hd, hi, j, h0, h2, hm⟩ := hr
        have hc0 : c0 ∈ k0 := List.mem_of_getElem? h0
        rw [dropMarked_cons']
        cases hf : findChild k1 c0 with
        | none =>
          rw [(srcMark_removed_iff hm).2 hf, peers_cons_none hf]
          simpa using ih2
        | some p =>
          obtain ⟨i1, c1⟩ := p
          have hnr : isRemoved c2 = false := by
            cases hr : isRemoved c2 with
            | false => rfl
            | true => rw [(srcMark_removed_iff hm).1 hr] at hf; cases hf
          rw [hnr, peers_cons_some hf]
          simp only [Bool.false_eq_true, if_false]
          rw [plainShape_cons, plainShape_cons']
          obtain ⟨hx1, hp⟩ := findChild_some hf
          have hc1 : c1 ∈ k1 := List.mem_of_getElem? hx1
          rw [pyEq_comm] at hp
          have hdid : c0.did = c1.did := (hFtop c0 hc0 c1 hc1).1 hp
          have hkids := ih c0 hc0 c1.kids c2.kids (hs0.kids hc0) (hs1.kids hc1) (hF.kids hc0 hc1)
            (hs.down h0 hf h2)
          show PEquiv (PShape.node c2.data c2.did _ :: _) _
          rw [hd, hi, hdid]
          exact .cons hp hkids ih2
    -- the added part
    have hA : All2 (fun c1 c2 : T => c2.data = c1.data ∧ c2.did = c1.did ∧ isAdded c2 = true ∧
        SimL CopyQ c1.kids c2.kids) (addedSrc k0 k1) (r.drop k0.length) := by
      refine all2_of_get _ _ (by rw [List.length_drop, hl.len]; omega) ?_
      intro j c1 h1
      obtain ⟨c2, h2, hd, hi, ha, _, hsim⟩ := hl.add j c1 h1
      exact ⟨c2, by rw [List.getElem?_drop]; exact h2, hd, hi, ha, hsim⟩
    rw [← List.take_append_drop k0.length r, dropMarked_append, plainShape_append, added_part hA]
    refine .permR ?_ ((hBe _ _ hB).append (PEquiv.refl_plain _))
    rw [← plainShape_append, plainShape_eq_map, plainShape_eq_map]
    exact (peers_perm hs0.1 hs1.1 hFtop).map _

end Diff
end Nutree
