/-
  Nutree.Lemmas.DiffRaw — node-wise facts about the forest built by `compare` (before the
  re-classification): which marks occur, ADDED subtrees are unmarked copies, REMOVED nodes are
  leaves.
-/
import Nutree.Lemmas.DiffCmp
namespace Nutree
open T C10
namespace Diff

/-- what holds for every node of the raw result. -/
structure RawNode (ordered : Bool) (n : T) : Prop where
  marks : dcOf n = none ∨ dcOf n = some "ADDED" ∨ dcOf n = some "REMOVED" ∨
    (ordered = true ∧ ∃ i0 i1, dcOf n = some (DC.order i0 i1).str)
  added : dcOf n = some "ADDED" →
    ∀ x ∈ flatL n.kids, (dcOf x = none ∨ dcOf x = some "ADDED") ∧ hasRen x = false
  removed : dcOf n = some "REMOVED" → n.kids = []
  ren : hasRen n = true → ordered = true ∧ dcOf n ≠ some "ADDED"

theorem copyKidsL_none_unmarked : ∀ (l : List T) (next : NodeId),
    ∀ x ∈ flatL (copyKidsL none l next).1, dcOf x = none ∧ hasRen x = false := by
  intro l
  induction l using indList with
  | nil => intro next x hx; rw [copyKidsL_nil] at hx; simp at hx
  | cons i ks rest ihk ihr =>
    intro next x hx
    rw [copyKidsL_cons] at hx
    simp only [flatL_cons, flat_mk, List.cons_append, List.mem_cons, List.mem_append] at hx
    rcases hx with rfl | hx | hx
    · simp
    · exact ihk _ x hx
    · exact ihr _ x hx

theorem rawNode_of_unmarked {ordered : Bool} {x : T} (h : dcOf x = none ∧ hasRen x = false) :
    RawNode ordered x :=
  ⟨Or.inl h.1, fun e => (by rw [h.1] at e; cases e), fun e => (by rw [h.1] at e; cases e),
   fun e => (by rw [h.2] at e; cases e)⟩

theorem added_str : DC.added.str = "ADDED" := rfl
theorem removed_str : DC.removed.str = "REMOVED" := rfl

theorem rawNode_mk_added (ordered : Bool) (id : NodeId) (src : T) {ks : List T}
    (h : ∀ x ∈ flatL ks, (dcOf x = none ∨ dcOf x = some "ADDED") ∧ hasRen x = false) :
    RawNode ordered (mk id src (some .added) false ks) := by
  refine ⟨Or.inr (Or.inl (by simp [added_str])), fun _ => (by simpa using h), ?_, ?_⟩
  · intro e; simp [added_str] at e
  · intro e; simp at e

theorem copyKidsL_added_raw (ordered : Bool) : ∀ (l : List T) (next : NodeId),
    ∀ x ∈ flatL (copyKidsL (some .added) l next).1, RawNode ordered x := by
  intro l
  induction l with
  | nil => intro next x hx; rw [copyKidsL_nil] at hx; simp at hx
  | cons t rest ih =>
    intro next x hx
    cases t with
    | node i ks =>
      rw [copyKidsL_cons] at hx
      simp only [flatL_cons, flat_mk, List.cons_append, List.mem_cons, List.mem_append] at hx
      rcases hx with rfl | hx | hx
      · exact rawNode_mk_added _ _ _ (fun x hx =>
          ⟨Or.inl (copyKidsL_none_unmarked ks _ x hx).1, (copyKidsL_none_unmarked ks _ x hx).2⟩)
      · exact rawNode_of_unmarked (copyKidsL_none_unmarked ks _ x hx)
      · exact ih _ x hx

/-- in the copies made for an ADDED node only the first level is marked. -/
theorem copyKidsL_added_marks : ∀ (l : List T) (next : NodeId),
    ∀ x ∈ flatL (copyKidsL (some .added) l next).1,
      (dcOf x = none ∨ dcOf x = some "ADDED") ∧ hasRen x = false := by
  intro l
  induction l with
  | nil => intro next x hx; rw [copyKidsL_nil] at hx; simp at hx
  | cons t rest ih =>
    intro next x hx
    cases t with
    | node i ks =>
      rw [copyKidsL_cons] at hx
      simp only [flatL_cons, flat_mk, List.cons_append, List.mem_cons, List.mem_append] at hx
      rcases hx with rfl | hx | hx
      · exact ⟨Or.inr (by simp [added_str]), by simp⟩
      · exact ⟨Or.inl (copyKidsL_none_unmarked ks _ x hx).1, (copyKidsL_none_unmarked ks _ x hx).2⟩
      · exact ih _ x hx

theorem addL_raw (ordered : Bool) : ∀ (l : List T) (next : NodeId),
    ∀ x ∈ flatL (addL l next).1, RawNode ordered x := by
  intro l
  induction l with
  | nil => intro next x hx; rw [addL_nil] at hx; simp at hx
  | cons t rest ih =>
    intro next x hx
    cases t with
    | node i ks =>
      rw [addL_cons] at hx
      simp only [flatL_cons, flat_mk, List.cons_append, List.mem_cons, List.mem_append] at hx
      rcases hx with rfl | hx | hx
      · exact rawNode_mk_added _ _ _ (copyKidsL_added_marks ks _)
      · exact copyKidsL_added_raw ordered ks _ x hx
      · exact ih _ x hx

theorem cmpL_ren_ordered : ∀ (p0 : List T) (ordered : Bool) (p1 : List T) (i0 : Nat) (next : NodeId),
    (cmpL ordered p1 i0 p0 next).2.2 = true → ordered = true := by
  intro p0
  induction p0 using indList with
  | nil => intro o p1 i0 next h; rw [cmpL_nil] at h; cases h
  | cons i ks rest _ ihr =>
    intro o p1 i0 next h
    rw [cmpL_cons] at h
    simp only [Bool.or_eq_true] at h
    rcases h with h | h
    · cases hf : findChild p1 (.node i ks) with
      | none => rw [hf] at h; cases h
      | some p => rw [hf] at h; simp only [renFor, Bool.and_eq_true] at h; exact h.2
    · exact ihr _ _ _ _ h

theorem cmpNode_ren_ordered (ordered : Bool) (p1 p0 : List T) (next : NodeId)
    (h : (cmpNode ordered p1 p0 next).2.2 = true) : ordered = true := by
  rw [cmpNode_eq] at h; exact cmpL_ren_ordered _ _ _ _ _ h

theorem dcFor_cases (ordered : Bool) (i0 : Nat) (found : Option (Nat × T)) :
    (found = none ∧ dcFor ordered i0 found = some .removed) ∨
    (∃ i1 c1, found = some (i1, c1) ∧
      ((dcFor ordered i0 found = none ∧ (i0 = i1 ∨ ordered = false)) ∨
       (dcFor ordered i0 found = some (.order i0 i1) ∧ i0 ≠ i1 ∧ ordered = true))) := by
  cases found with
  | none => exact Or.inl ⟨rfl, rfl⟩
  | some p =>
    obtain ⟨i1, c1⟩ := p
    refine Or.inr ⟨i1, c1, rfl, ?_⟩
    simp only [dcFor]
    by_cases h : i0 = i1
    · simp [h]
    · cases ordered <;> simp [h]

theorem cmpL_raw : ∀ (p0 : List T) (ordered : Bool) (p1 : List T) (i0 : Nat) (next : NodeId),
    ∀ x ∈ flatL (cmpL ordered p1 i0 p0 next).1, RawNode ordered x := by
  intro p0
  induction p0 using indList with
  | nil => intro o p1 i0 next x hx; rw [cmpL_nil] at hx; simp at hx
  | cons i ks rest ihk ihr =>
    intro o p1 i0 next x hx
    rw [cmpL_cons] at hx
    simp only [flatL_cons, flat_mk, List.cons_append, List.mem_cons, List.mem_append] at hx
    rcases hx with rfl | hx | hx
    · have hren : (subFor o ks next (findChild p1 (.node i ks))).2.2 = true → o = true := by
        cases findChild p1 (.node i ks) with
        | none => intro h; cases h
        | some p => exact cmpNode_ren_ordered _ _ _ _
      rcases dcFor_cases o i0 (findChild p1 (.node i ks)) with ⟨hf, hd⟩ | ⟨i1, c1, hf, ⟨hd, _⟩ | ⟨hd, _, ho⟩⟩
      · refine ⟨Or.inr (Or.inr (Or.inl (by simp [hd, removed_str]))), ?_, ?_, ?_⟩
        · intro e; simp [hd, removed_str] at e
        · intro _; simp [hf, subFor]
        · intro e; simp [hf, subFor] at e
      · refine ⟨Or.inl (by simp [hd]), ?_, ?_, ?_⟩
        · intro e; simp [hd] at e
        · intro e; simp [hd] at e
        · intro e; rw [mk_hasRen] at e; exact ⟨hren e, by simp [hd]⟩
      · refine ⟨Or.inr (Or.inr (Or.inr ⟨ho, i0, i1, by simp [hd]⟩)), ?_, ?_, ?_⟩
        · intro e; simp only [mk_dcOf, hd, Option.map_some, Option.some.injEq] at e
          exact absurd e (order_ne_added _ _)
        · intro e; simp only [mk_dcOf, hd, Option.map_some, Option.some.injEq] at e
          exact absurd e (order_ne_removed _ _)
        · intro _; refine ⟨ho, ?_⟩
          simp only [mk_dcOf, hd, Option.map_some, ne_eq, Option.some.injEq]
          exact order_ne_added _ _
    · cases hf : findChild p1 (.node i ks) with
      | none => rw [hf] at hx; simp [subFor] at hx
      | some p =>
        rw [hf] at hx
        simp only [subFor] at hx
        rw [cmpNode_eq] at hx
        simp only [flatL_append, List.mem_append] at hx
        rcases hx with hx | hx
        · exact ihk _ _ _ _ x hx
        · exact addL_raw _ _ _ x hx
    · exact ihr _ _ _ _ x hx

theorem cmpNode_raw (ordered : Bool) (p1 p0 : List T) (next : NodeId) :
    ∀ x ∈ flatL (cmpNode ordered p1 p0 next).1, RawNode ordered x := by
  intro x hx
  rw [cmpNode_eq] at hx
  simp only [flatL_append, List.mem_append] at hx
  rcases hx with hx | hx
  · exact cmpL_raw _ _ _ _ _ x hx
  · exact addL_raw _ _ _ x hx

end Diff
end Nutree
