/-
  Nutree.Lemmas.WFSetData — well-formedness is preserved by relabelling node records
  (`Tree.setData`, the metadata edits).

  * `mapInfoT F` — apply `F` to every node record; `setInfoT n f` and folds of it are instances
    (`setInfoT_eq_mapInfoT`, `foldl_setInfoT_eq`) in a tree with distinct identities.
  * `delEntries` / `addEntries` — the `byData` updates of `set_data` (a whole group of nodes is
    taken out of the list of one key and appended to the list of another), with
    `listed_delEntries`, `listed_addEntries`, `delEntries_ok`, `addEntries_ok`.
  * `WF_relabel_frame` — a relabelling that keeps `id` and `did` keeps the state well-formed.
  * `WF_rekey` — moving a group `A` of nodes that carry data id `k` to data id `d` keeps the
    state well-formed if no member gets a sibling with the same id.
  * `setData_cases` — decomposition of a successful `Tree.setData`.
-/
import Nutree.Lemmas.WFRemove
namespace Nutree
open T C10

/-! ## 1. `mapInfoT` -/

mutual
/-- apply `F` to every node record of the subtree. -/
def mapInfoT (F : Info → Info) : T → T
  | .node i ks => .node (F i) (mapInfoL F ks)
def mapInfoL (F : Info → Info) : List T → List T
  | [] => []
  | t :: ts => mapInfoT F t :: mapInfoL F ts
end

theorem mapInfoL_eq_map (F : Info → Info) : ∀ ks : List T, mapInfoL F ks = ks.map (mapInfoT F)
  | [] => by simp [mapInfoL]
  | t :: ts => by simp [mapInfoL, mapInfoL_eq_map F ts]

theorem mapInfoT_node (F : Info → Info) (i : Info) (ks : List T) :
    mapInfoT F (.node i ks) = .node (F i) (ks.map (mapInfoT F)) := by
  rw [mapInfoT, mapInfoL_eq_map]

theorem mapInfoT_info (F : Info → Info) (t : T) : (mapInfoT F t).info = F t.info := by
  cases t; rw [mapInfoT_node]; rfl

theorem mapInfoT_kids (F : Info → Info) (t : T) : (mapInfoT F t).kids = t.kids.map (mapInfoT F) := by
  cases t; rw [mapInfoT_node]; rfl

theorem mapInfoT_id {F : Info → Info} (hF : ∀ i, (F i).id = i.id) (t : T) : (mapInfoT F t).id = t.id := by
  show (mapInfoT F t).info.id = t.info.id
  rw [mapInfoT_info, hF]

theorem flat_mapInfoT (F : Info → Info) : ∀ t : T, flat (mapInfoT F t) = (flat t).map (mapInfoT F) := by
  intro t
  induction t using T.ind with
  | node i ks ih =>
    rw [mapInfoT_node, flat_node, flat_node, List.map_cons, mapInfoT_node]
    congr 1
    exact flatL_map_congr ih

theorem flatL_map_mapInfoT (F : Info → Info) (ks : List T) :
    flatL (ks.map (mapInfoT F)) = (flatL ks).map (mapInfoT F) :=
  flatL_map_congr (fun c _ => flat_mapInfoT F c)

theorem infos_mapInfoT (F : Info → Info) (t : T) : infos (mapInfoT F t) = (infos t).map F := by
  unfold infos
  rw [flat_mapInfoT, List.map_map, List.map_map]
  exact List.map_congr_left (fun x _ => mapInfoT_info F x)

theorem infosL_kids_mapInfoT (F : Info → Info) (t : T) :
    infosL (mapInfoT F t).kids = (infosL t.kids).map F := by
  have h := infos_mapInfoT F t
  rw [infos_eq, infos_eq t, List.map_cons] at h
  exact List.tail_eq_of_cons_eq h

theorem ids_mapInfoT {F : Info → Info} (hF : ∀ i, (F i).id = i.id) (t : T) :
    (flat (mapInfoT F t)).map T.id = (flat t).map T.id := by
  rw [ids_eq_infos, ids_eq_infos, infos_mapInfoT, List.map_map]
  exact List.map_congr_left (fun i _ => hF i)

theorem idsL_kids_mapInfoT {F : Info → Info} (hF : ∀ i, (F i).id = i.id) (t : T) :
    idsL (mapInfoT F t).kids = idsL t.kids := by
  rw [idsL_eq_infosL, idsL_eq_infosL, infosL_kids_mapInfoT, List.map_map]
  exact List.map_congr_left (fun i _ => hF i)

theorem idsNodup_mapInfoT {F : Info → Info} (hF : ∀ i, (F i).id = i.id) {t : T} (hN : C10.IdsNodup t) :
    C10.IdsNodup (mapInfoT F t) := by
  unfold C10.IdsNodup; rw [ids_mapInfoT hF]; exact hN

theorem mem_infos_of_mem_kids {t c : T} {i : Info} (hc : c ∈ t.kids) (hi : i ∈ infos c) : i ∈ infos t := by
  unfold infos at hi ⊢
  obtain ⟨y, hy, rfl⟩ := List.mem_map.1 hi
  exact List.mem_map_of_mem (mem_flat_trans hy (mem_flat_of_mem_kids hc))

theorem self_info_mem_infos (t : T) : t.info ∈ infos t := List.mem_map_of_mem (self_mem_flat t)

/-- two relabellings that agree on the records of the tree give the same tree. -/
theorem mapInfoT_congr {F G : Info → Info} : ∀ {t : T}, (∀ i ∈ infos t, F i = G i) → mapInfoT F t = mapInfoT G t := by
  intro t
  induction t using T.ind with
  | node i ks ih =>
    intro h
    rw [mapInfoT_node, mapInfoT_node, h i (self_info_mem_infos _)]
    congr 1
    refine List.map_congr_left (fun c hc => ih c hc (fun j hj => h j ?_))
    exact mem_infos_of_mem_kids (t := .node i ks) hc hj

theorem mapInfoT_id_fun : ∀ t : T, mapInfoT (fun i => i) t = t := by
  intro t
  induction t using T.ind with
  | node i ks ih =>
    rw [mapInfoT_node]
    congr 1
    exact (List.map_congr_left ih).trans (List.map_id' ks)

theorem mapInfoT_of_fix {F : Info → Info} {t : T} (h : ∀ i ∈ infos t, F i = i) : mapInfoT F t = t :=
  (mapInfoT_congr (G := fun i => i) h).trans (mapInfoT_id_fun t)

theorem mapInfoT_comp (F G : Info → Info) : ∀ t : T, mapInfoT F (mapInfoT G t) = mapInfoT (fun i => F (G i)) t := by
  intro t
  induction t using T.ind with
  | node i ks ih =>
    rw [mapInfoT_node, mapInfoT_node, mapInfoT_node, List.map_map]
    congr 1
    exact List.map_congr_left ih

/-- in a tree with distinct identities `setInfoT` is a relabelling. -/
theorem setInfoT_eq_mapInfoT {n : NodeId} {f : Info → Info} :
    ∀ {t : T}, C10.IdsNodup t → setInfoT n f t = mapInfoT (fun i => if i.id = n then f i else i) t := by
  intro t
  induction t using T.ind with
  | node i ks ih =>
    intro hN
    rw [setInfoT_node, mapInfoT_node]
    by_cases hid : i.id = n
    · rw [if_pos hid, if_pos hid]
      congr 1
      refine ((List.map_congr_left (fun c hc => ?_)).trans (List.map_id' ks)).symm
      refine mapInfoT_of_fix (fun j hj => ?_)
      obtain ⟨y, hy, rfl⟩ := List.mem_map.1 hj
      have : y.id ≠ n := by
        have := id_ne_of_mem_flatL_kids hN (mem_flatL.2 ⟨c, hc, hy⟩)
        rwa [T.id_node, hid] at this
      exact if_neg this
    · rw [if_neg hid, if_neg hid]
      congr 1
      exact List.map_congr_left (fun c hc => ih c hc (idsNodup_of_mem (idsNodupL_kids hN) hc))

/-- a fold of `setInfoT` over a list of identities is one relabelling (distinct identities; `f`
keeps `id` and is idempotent). -/
theorem foldl_setInfoT_eq {f : Info → Info} (hid : ∀ i, (f i).id = i.id) (hidem : ∀ i, f (f i) = f i) :
    ∀ (A : List NodeId) {t : T}, C10.IdsNodup t →
      A.foldl (fun r c => setInfoT c f r) t = mapInfoT (fun i => if i.id ∈ A then f i else i) t
  | [], t, _ => by simp [mapInfoT_id_fun]
  | c :: A, t, hN => by
    have hN1 : C10.IdsNodup (setInfoT c f t) := idsNodup_setInfoT hid hN
    rw [List.foldl_cons, foldl_setInfoT_eq hid hidem A hN1, setInfoT_eq_mapInfoT hN, mapInfoT_comp]
    refine mapInfoT_congr (fun i _ => ?_)
    by_cases hc : i.id = c
    · simp only [hc, if_true, List.mem_cons, true_or]
      rw [hid, hc]
      split
      · exact hidem i
      · rfl
    · simp only [List.mem_cons, hc, false_or, if_false]

theorem idsL_map_congr {F : T → T} : ∀ {ks : List T}, (∀ c ∈ ks, (flat (F c)).map T.id = (flat c).map T.id) →
    (flatL (ks.map F)).map T.id = (flatL ks).map T.id
  | [], _ => rfl
  | k :: ks, h => by
    rw [List.map_cons, flatL_cons, flatL_cons, List.map_append, List.map_append, h k (by simp),
      idsL_map_congr (fun c hc => h c (List.mem_cons_of_mem _ hc))]

/-- identities are unchanged by `setInfoT` when `f` keeps `id` (no distinctness needed). -/
theorem ids_setInfoT' {n : NodeId} {f : Info → Info} (hf : ∀ i, (f i).id = i.id) :
    ∀ t : T, (flat (setInfoT n f t)).map T.id = (flat t).map T.id := by
  intro t
  induction t using T.ind with
  | node i ks ih =>
    rw [setInfoT_node]
    split
    · rw [flat_node, flat_node, List.map_cons, List.map_cons, T.id_node, T.id_node, hf]
    · rw [flat_node, flat_node, List.map_cons, List.map_cons, T.id_node, T.id_node]
      congr 1
      exact idsL_map_congr ih

theorem ids_foldl_setInfoT' {f : Info → Info} (hf : ∀ i, (f i).id = i.id) :
    ∀ (A : List NodeId) (t : T), (flat (A.foldl (fun r c => setInfoT c f r) t)).map T.id = (flat t).map T.id
  | [], _ => rfl
  | c :: A, t => by rw [List.foldl_cons, ids_foldl_setInfoT' hf A, ids_setInfoT' hf]

/-! ## 2. the `byData` updates of `set_data` -/

/-- first half: the nodes `A` leave the list of key `k` (the key is deleted when the list becomes empty). -/
def delEntries (bd : ByData) (k : DataId) (A : List NodeId) : ByData :=
  (bd.map fun e => if e.1 = k then (e.1, e.2.filter fun c => !(A.contains c)) else e).filter fun e => !e.2.isEmpty

/-- second half: the nodes `A` are appended to the list of key `d` (created when missing). -/
def addEntries (bd : ByData) (d : DataId) (A : List NodeId) : ByData :=
  match bd.lookup d with
  | some _ => bd.map fun e => if e.1 = d then (e.1, e.2 ++ A) else e
  | none => bd ++ [(d, A)]

/-- membership after `delEntries`: exactly the pairs `(k, n)`, `n ∈ A`, disappear. -/
theorem listed_delEntries {bd : ByData} {k d : DataId} {A : List NodeId} {n : NodeId} :
    Listed (delEntries bd k A) d n ↔ Listed bd d n ∧ ¬ (d = k ∧ n ∈ A) := by
  unfold delEntries
  simp only [Listed, List.mem_filter, List.mem_map]
  constructor
  · rintro ⟨l, ⟨⟨e, he, hee⟩, _⟩, hn⟩
    by_cases hd : e.1 = k
    · rw [if_pos hd] at hee
      cases hee
      rw [List.mem_filter] at hn
      refine ⟨⟨e.2, he, hn.1⟩, fun h => ?_⟩
      have := hn.2; simp [h.2] at this
    · rw [if_neg hd] at hee
      subst hee
      exact ⟨⟨_, he, hn⟩, fun h => hd h.1⟩
  · rintro ⟨⟨l, h, hn⟩, hne⟩
    by_cases hd : d = k
    · have hnn : n ∉ A := fun e => hne ⟨hd, e⟩
      have hm : n ∈ l.filter (fun c => !(A.contains c)) := List.mem_filter.2 ⟨hn, by simpa using hnn⟩
      refine ⟨l.filter (fun c => !(A.contains c)), ⟨⟨(d, l), h, by simp [hd]⟩, ?_⟩, hm⟩
      cases hl : l.filter (fun c => !(A.contains c)) with
      | nil => rw [hl] at hm; simp at hm
      | cons => rfl
    · refine ⟨l, ⟨⟨(d, l), h, by simp [hd]⟩, ?_⟩, hn⟩
      cases l with
      | nil => simp at hn
      | cons => rfl

/-- `delEntries` keeps the structural conditions. -/
theorem delEntries_ok {bd : ByData} {k : DataId} {A : List NodeId} (h : IndexOK bd) :
    IndexOK (delEntries bd k A) := by
  unfold delEntries
  refine ⟨?_, ?_, ?_⟩
  · have hs : ((bd.map fun e => if e.1 = k then (e.1, e.2.filter fun c => !(A.contains c)) else e).filter
        fun e => !e.2.isEmpty).Sublist (bd.map fun e => if e.1 = k then (e.1, e.2.filter fun c => !(A.contains c)) else e) :=
      List.filter_sublist
    have hk : (bd.map fun e => if e.1 = k then (e.1, e.2.filter fun c => !(A.contains c)) else e).map (·.1) = bd.map (·.1) := by
      rw [List.map_map]
      refine List.map_congr_left (fun e _ => ?_)
      simp only [Function.comp_apply]
      split <;> rfl
    exact List.Nodup.sublist (hk ▸ hs.map (·.1)) h.keys
  · intro e he
    have := (List.mem_filter.1 he).2
    intro h0; simp [h0] at this
  · intro e he
    obtain ⟨e0, he0, rfl⟩ := List.mem_map.1 (List.mem_filter.1 he).1
    split
    · exact List.Pairwise.filter _ (h.nodup e0 he0)
    · exact h.nodup e0 he0

/-- membership after `addEntries`. -/
theorem listed_addEntries {bd : ByData} {k d : DataId} {A : List NodeId} {n : NodeId} :
    Listed (addEntries bd k A) d n ↔ Listed bd d n ∨ (d = k ∧ n ∈ A) := by
  unfold addEntries
  cases hl : bd.lookup k with
  | none =>
    simp only [Listed, List.mem_append, List.mem_singleton, Prod.mk.injEq]
    constructor
    · rintro ⟨l, h | ⟨rfl, rfl⟩, hn⟩
      · exact Or.inl ⟨l, h, hn⟩
      · exact Or.inr ⟨rfl, hn⟩
    · rintro (⟨l, h, hn⟩ | ⟨rfl, hn⟩)
      · exact ⟨l, Or.inl h, hn⟩
      · exact ⟨A, Or.inr ⟨rfl, rfl⟩, hn⟩
  | some l0 =>
    have hmem := mem_of_lookup hl
    simp only [Listed, List.mem_map]
    constructor
    · rintro ⟨l, ⟨e, he, hee⟩, hn⟩
      by_cases hd : e.1 = k
      · rw [if_pos hd] at hee
        cases hee
        rcases List.mem_append.1 hn with hn | hn
        · exact Or.inl ⟨e.2, he, hn⟩
        · exact Or.inr ⟨hd, hn⟩
      · rw [if_neg hd] at hee
        subst hee
        exact Or.inl ⟨l, he, hn⟩
    · rintro (⟨l, h, hn⟩ | ⟨rfl, hn⟩)
      · by_cases hd : d = k
        · exact ⟨l ++ A, ⟨(d, l), h, by simp [hd]⟩, List.mem_append_left _ hn⟩
        · exact ⟨l, ⟨(d, l), h, by simp [hd]⟩, hn⟩
      · exact ⟨l0 ++ A, ⟨(d, l0), hmem, by simp⟩, List.mem_append_right _ hn⟩

theorem keys_addEntries (bd : ByData) (d : DataId) (A : List NodeId) :
    (addEntries bd d A).map (·.1) =
      if d ∈ bd.map (·.1) then bd.map (·.1) else bd.map (·.1) ++ [d] := by
  unfold addEntries
  cases hl : bd.lookup d with
  | none => rw [if_neg (lookup_eq_none.1 hl)]; simp
  | some l0 =>
    have : d ∈ bd.map (·.1) := List.mem_map.2 ⟨_, mem_of_lookup hl, rfl⟩
    rw [if_pos this]
    simp only [List.map_map]
    refine List.map_congr_left (fun e _ => ?_)
    simp only [Function.comp_apply]
    split <;> rfl

/-- `addEntries` keeps the structural conditions if `A` is a non-empty duplicate-free list of nodes
none of which is listed under `d` yet. -/
theorem addEntries_ok {bd : ByData} {d : DataId} {A : List NodeId} (h : IndexOK bd)
    (hA : A.Nodup) (hA0 : A ≠ []) (hn : ∀ n ∈ A, ¬ Listed bd d n) : IndexOK (addEntries bd d A) := by
  refine ⟨?_, ?_, ?_⟩
  · rw [keys_addEntries]
    split
    · exact h.keys
    · rename_i hd
      rw [List.nodup_append]
      exact ⟨h.keys, by simp, fun a ha b hb e => hd (by simp at hb; rw [← hb, ← e]; exact ha)⟩
  · intro e he
    unfold addEntries at he
    split at he
    · obtain ⟨e0, he0, rfl⟩ := List.mem_map.1 he
      split
      · simp [hA0]
      · exact h.noEmpty e0 he0
    · rcases List.mem_append.1 he with he | he
      · exact h.noEmpty e he
      · simp at he; subst he; exact hA0
  · intro e he
    unfold addEntries at he
    split at he
    · obtain ⟨e0, he0, rfl⟩ := List.mem_map.1 he
      split
      · rename_i hd
        simp only
        rw [List.nodup_append]
        refine ⟨h.nodup e0 he0, hA, ?_⟩
        intro a ha b hb e
        subst e
        exact hn a hb ⟨e0.2, by rw [← hd]; exact he0, ha⟩
      · exact h.nodup e0 he0
    · rcases List.mem_append.1 he with he | he
      · exact h.nodup e he
      · simp at he; subst he; exact hA

/-! ## 3. well-formedness after a relabelling -/

theorem mapInfoT_kids_map_did (F : Info → Info) (y : T) :
    (mapInfoT F y).kids.map T.did = y.kids.map (fun c => (F c.info).did) := by
  rw [mapInfoT_kids, List.map_map]
  refine List.map_congr_left (fun c _ => ?_)
  show (mapInfoT F c).info.did = _
  rw [mapInfoT_info]

/-- reachable nodes of the relabelled tree. -/
theorem exists_node_mapInfoT {F : Info → Info} (hF : ∀ i, (F i).id = i.id) {root : T} {n : NodeId} {d : DataId} :
    (∃ x ∈ flatL (mapInfoT F root).kids, x.id = n ∧ x.did = d) ↔
      ∃ y ∈ flatL root.kids, y.id = n ∧ (F y.info).did = d := by
  rw [mapInfoT_kids, flatL_map_mapInfoT]
  constructor
  · rintro ⟨x, hx, h1, h2⟩
    obtain ⟨y, hy, rfl⟩ := List.mem_map.1 hx
    refine ⟨y, hy, (mapInfoT_id hF y).symm.trans h1, ?_⟩
    rw [← mapInfoT_info F y]; exact h2
  · rintro ⟨y, hy, h1, h2⟩
    refine ⟨mapInfoT F y, List.mem_map_of_mem hy, (mapInfoT_id hF y).trans h1, ?_⟩
    show (mapInfoT F y).info.did = d
    rw [mapInfoT_info]; exact h2

/-- **Frame for record edits.**  A relabelling that keeps `id` and `did` of every record (data,
kind, meta edits) keeps the state well-formed. -/
theorem WF_relabel_frame {t t' : Tree} {F : Info → Info} (h : WF t) (hFid : ∀ i, (F i).id = i.id)
    (hFdid : ∀ i, (F i).did = i.did) (hr : t'.root = mapInfoT F t.root) (hi : t'.byId = t.byId)
    (hd : t'.byData = t.byData) : WF t' := by
  refine ⟨?_, ?_, ?_, ?_, ?_⟩
  · rw [hr, mapInfoT_id hFid]; exact h.rootId
  · unfold IdsNodup; rw [hr]; exact idsNodup_mapInfoT hFid h.idsN
  · unfold RegistryExact
    rw [hr, hi]
    show t.byId.Perm (idsL (mapInfoT F t.root).kids)
    rw [idsL_kids_mapInfoT hFid]; exact h.registry
  · refine IndexExact.of_listed (by rw [hd]; exact h.index.ok) (fun d n => ?_)
    rw [hd, hr, h.index.listed, exists_node_mapInfoT hFid]
    simp only [hFdid]
  · intro y hy
    rw [hr, flat_mapInfoT] at hy
    obtain ⟨y0, hy0, rfl⟩ := List.mem_map.1 hy
    rw [mapInfoT_kids_map_did]
    simp only [hFdid]
    exact h.sib y0 hy0

/-- **Re-keying a group of nodes.**  `A` is a non-empty duplicate-free list of reachable nodes that
carry data id `k`; they all get data id `d ≠ k` (and whatever else `upd` does to the record, except
changing `id`); in `byData` they leave the list of `k` and are appended to the list of `d`.  If no
member of `A` has a sibling (other than itself) carrying `d`, the state stays well-formed. -/
theorem WF_rekey {t t' : Tree} {A : List NodeId} {k d : DataId} {upd : Info → Info}
    (h : WF t) (hid : ∀ i, (upd i).id = i.id) (hdid : ∀ i, (upd i).did = d)
    (hA : A.Nodup) (hA0 : A ≠ [])
    (hAk : ∀ c ∈ A, ∃ y ∈ flatL t.root.kids, y.id = c ∧ y.did = k) (hkd : d ≠ k)
    (hclash : ∀ c ∈ A, ∀ par, findParent c t.root = some par → ∀ s ∈ par.kids, s.id ≠ c → s.did ≠ d)
    (hr : t'.root = mapInfoT (fun i => if i.id ∈ A then upd i else i) t.root)
    (hi : t'.byId = t.byId) (hd : t'.byData = addEntries (delEntries t.byData k A) d A) : WF t' := by
  have hN := h.idsN
  have hFid : ∀ i : Info, (if i.id ∈ A then upd i else i).id = i.id := by
    intro i; split
    · exact hid i
    · rfl
  -- a member of the tree whose identity is in `A` carries `k`
  have hK : ∀ y ∈ flat t.root, y.id ∈ A → y.did = k := by
    intro y hy hyA
    obtain ⟨y', hy', h1, h2⟩ := hAk y.id hyA
    rw [← eq_of_id_eq hN (mem_flat_of_mem_flatL_kids hy') hy h1]; exact h2
  refine ⟨?_, ?_, ?_, ?_, ?_⟩
  · rw [hr, mapInfoT_id hFid]; exact h.rootId
  · unfold IdsNodup; rw [hr]; exact idsNodup_mapInfoT hFid hN
  · unfold RegistryExact
    rw [hr, hi]
    show t.byId.Perm (idsL (mapInfoT _ t.root).kids)
    rw [idsL_kids_mapInfoT hFid]; exact h.registry
  · refine IndexExact.of_listed ?_ (fun d' m => ?_)
    · rw [hd]
      refine addEntries_ok (delEntries_ok h.index.ok) hA hA0 (fun m hm hl => ?_)
      obtain ⟨y, hy, h1, h2⟩ := (h.index.listed d m).1 (listed_delEntries.1 hl).1
      have := hK y (mem_flat_of_mem_flatL_kids hy) (h1 ▸ hm)
      exact hkd (h2.symm.trans this)
    · rw [hd, hr, listed_addEntries, listed_delEntries, h.index.listed, exists_node_mapInfoT hFid]
      constructor
      · rintro (⟨⟨y, hy, h1, h2⟩, hne⟩ | ⟨rfl, hm⟩)
        · have hmA : y.info.id ∉ A := by
            intro hm
            have hyk := hK y (mem_flat_of_mem_flatL_kids hy) hm
            exact hne ⟨h2.symm.trans hyk, h1 ▸ hm⟩
          exact ⟨y, hy, h1, by rw [if_neg hmA]; exact h2⟩
        · obtain ⟨y, hy, h1, _⟩ := hAk m hm
          have : y.info.id ∈ A := by rw [show y.info.id = m from h1]; exact hm
          exact ⟨y, hy, h1, by rw [if_pos this]; exact hdid _⟩
      · rintro ⟨y, hy, h1, h2⟩
        by_cases hm : y.info.id ∈ A
        · rw [if_pos hm, hdid] at h2
          exact Or.inr ⟨h2.symm, h1 ▸ hm⟩
        · rw [if_neg hm] at h2
          exact Or.inl ⟨⟨y, hy, h1, h2⟩, fun hh => hm (by rw [show y.info.id = m from h1]; exact hh.2)⟩
  · intro y' hy'
    rw [hr, flat_mapInfoT] at hy'
    obtain ⟨y, hy, rfl⟩ := List.mem_map.1 hy'
    rw [mapInfoT_kids_map_did]
    have h1 : y.kids.Pairwise (fun a b => a.did ≠ b.did) := List.pairwise_map.1 (h.sib y hy)
    have h2 : y.kids.Pairwise (fun a b => a.id ≠ b.id) :=
      List.pairwise_map.1 (kids_ids_nodup (idsNodup_of_mem_flat hN hy))
    refine List.pairwise_map.2 ((h1.and h2).imp_of_mem ?_)
    intro a b ha hb hab
    obtain ⟨hab1, hab2⟩ := hab
    have ham : a ∈ flat t.root := mem_flat_trans (mem_flat_of_mem_kids ha) hy
    have hbm : b ∈ flat t.root := mem_flat_trans (mem_flat_of_mem_kids hb) hy
    have hpa := findParent_of_mem_kids hN hy ha
    have hpb := findParent_of_mem_kids hN hy hb
    by_cases haA : a.info.id ∈ A <;> by_cases hbA : b.info.id ∈ A
    · exact absurd ((hK a ham haA).trans (hK b hbm hbA).symm) hab1
    · rw [if_pos haA, if_neg hbA, hdid]
      exact fun e => hclash a.id haA y hpa b hb (fun e' => hab2 e'.symm) e.symm
    · rw [if_neg haA, if_pos hbA, hdid]
      exact hclash b.id hbA y hpb a ha hab2
    · rw [if_neg haA, if_neg hbA]; exact hab1

/-! ## 4. `Tree.setData` unfolded -/

/-- the new data object (`none`: the same object as before, or no data given). -/
def sdNewData (x : T) (a? : Option Atom) : Option Atom :=
  match a? with
  | some a => if a.obj == x.data.obj then none else some a
  | none => none

/-- the requested data id (the callback is only consulted for a new object without explicit id). -/
def sdDid1 (t : Tree) (nd : Option Atom) (did? : Option DataId) : Except Err (Option DataId) :=
  match nd, did? with
  | some a, none => (t.calcId a).map some
  | _, d => Except.ok d

/-- the new data id (`none`: unchanged). -/
def sdNewDid (x : T) (did1 : Option DataId) : Option DataId :=
  match did1 with
  | some d => if d = x.did then none else some d
  | none => none

/-- the clone list of the node. -/
def sdCur (t : Tree) (x : T) : List NodeId := (t.byData.lookup x.did).getD []

/-- the nodes that are re-keyed. -/
def sdAffected (t : Tree) (x : T) (n : NodeId) (wc : Option Bool) : List NodeId :=
  if decide ((sdCur t x).length > 1) && wc.getD false then sdCur t x else [n]

/-- the uniqueness test of `set_data`. -/
def sdClash (t : Tree) (A : List NodeId) (d : DataId) : Bool :=
  A.any fun c => match findParent c t.root with
    | some par => par.kids.any fun s => s.id != c && s.did == d
    | none => false

def sdUpd (d : DataId) (nd : Option Atom) : Info → Info := fun i => { i with did := d, data := nd.getD i.data }

/-- `Tree.setData` in terms of the pieces above. -/
theorem setData_eq {t : Tree} {n : NodeId} {x : T} (a? : Option Atom) (did? : Option DataId) (wc : Option Bool)
    (hx : findT n t.root = some x) :
    t.setData n a? did? wc =
      if a?.isNone && did?.isNone then .error .value else
      match sdDid1 t (sdNewData x a?) did? with
      | .error e => .error e
      | .ok did1 =>
        if decide ((sdCur t x).length > 1) && wc.isNone then .error .ambiguous else
        match sdNewDid x did1 with
        | some d =>
          if sdClash t (sdAffected t x n wc) d then .error .unique else
          .ok { t with root := (sdAffected t x n wc).foldl (fun r c => setInfoT c (sdUpd d (sdNewData x a?)) r) t.root,
                       byData := addEntries (delEntries t.byData x.did (sdAffected t x n wc)) d (sdAffected t x n wc) }
        | none =>
          match sdNewData x a? with
          | some a => .ok { t with root := (if wc.getD false then sdCur t x else [n]).foldl (fun r c => setInfoT c (fun i => { i with data := a }) r) t.root }
          | none => .ok t := by
  unfold Tree.setData
  rw [hx]
  rfl

theorem setData_of_none {t : Tree} {n : NodeId} (a? : Option Atom) (did? : Option DataId) (wc : Option Bool)
    (hx : findT n t.root = none) : t.setData n a? did? wc = .error .other := by
  unfold Tree.setData; rw [hx]

theorem sdUpd_id (d : DataId) (nd : Option Atom) (i : Info) : (sdUpd d nd i).id = i.id := rfl
theorem sdUpd_did (d : DataId) (nd : Option Atom) (i : Info) : (sdUpd d nd i).did = d := rfl
theorem sdUpd_idem (d : DataId) (nd : Option Atom) (i : Info) : sdUpd d nd (sdUpd d nd i) = sdUpd d nd i := by
  cases nd <;> rfl

theorem sdNewDid_some {x : T} {did1 : Option DataId} {d : DataId} (h : sdNewDid x did1 = some d) :
    did1 = some d ∧ d ≠ x.did := by
  unfold sdNewDid at h
  split at h
  · split at h
    · cases h
    · rename_i hne; cases h; exact ⟨rfl, hne⟩
  · cases h

theorem sdNewDid_none {x : T} {did1 : Option DataId} (h : sdNewDid x did1 = none) :
    did1 = none ∨ did1 = some x.did := by
  unfold sdNewDid at h
  split at h
  · split at h
    · rename_i he; exact Or.inr (by rw [he])
    · cases h
  · exact Or.inl rfl

/-- **A successful `set_data`**: something was given, the id computation succeeded with `did1`, and
either (re-key) the affected nodes get the new id `d ≠ x.did` — no affected node has a sibling with
`d` — or (no re-key) only records are edited, by a function that keeps `id` and `did`. -/
theorem setData_cases {t t' : Tree} {n : NodeId} {x : T} {a? : Option Atom} {did? : Option DataId}
    {wc : Option Bool} (hx : findT n t.root = some x) (hr : t.setData n a? did? wc = .ok t') :
    (a?.isSome ∨ did?.isSome) ∧ ∃ did1, sdDid1 t (sdNewData x a?) did? = .ok did1 ∧
      ((∃ d, sdNewDid x did1 = some d ∧ sdClash t (sdAffected t x n wc) d = false ∧
          t' = { t with root := (sdAffected t x n wc).foldl (fun r c => setInfoT c (sdUpd d (sdNewData x a?)) r) t.root,
                        byData := addEntries (delEntries t.byData x.did (sdAffected t x n wc)) d (sdAffected t x n wc) }) ∨
       (sdNewDid x did1 = none ∧ ∃ (B : List NodeId) (f : Info → Info),
          (∀ i, (f i).id = i.id ∧ (f i).did = i.did ∧ f (f i) = f i) ∧
          t' = { t with root := B.foldl (fun r c => setInfoT c f r) t.root })) := by
  rw [setData_eq a? did? wc hx] at hr
  split at hr
  · cases hr
  rename_i hgiven
  refine ⟨by cases a? <;> cases did? <;> simp at hgiven ⊢, ?_⟩
  split at hr
  · cases hr
  rename_i did1 hdid1
  refine ⟨did1, hdid1, ?_⟩
  split at hr
  · cases hr
  split at hr
  · rename_i d hd
    split at hr
    · cases hr
    · rename_i hcl
      cases hr
      exact Or.inl ⟨d, hd, by simpa using hcl, rfl⟩
  · rename_i hd
    refine Or.inr ⟨hd, ?_⟩
    split at hr
    · rename_i a _
      cases hr
      exact ⟨_, fun i => { i with data := a }, fun i => ⟨rfl, rfl, rfl⟩, rfl⟩
    · cases hr
      exact ⟨[], fun i => i, fun i => ⟨rfl, rfl, rfl⟩, rfl⟩

/-! ### the affected nodes in a well-formed state -/

theorem WF.mem_flatL_of_findT {t : Tree} (h : WF t) {n : NodeId} {x : T} (hx : findT n t.root = some x)
    (hn : n ≠ 0) : x ∈ flatL t.root.kids := by
  obtain ⟨h1, h2⟩ := findT_some hx
  rw [flat_eq, List.mem_cons] at h1
  rcases h1 with rfl | h1
  · exact absurd (h2.symm.trans h.rootId) hn
  · exact h1

/-- in a well-formed state a reachable node is listed under its own data id only. -/
theorem WF.listed_iff_did {t : Tree} (h : WF t) {n : NodeId} {x : T} (hx : findT n t.root = some x)
    (hn : n ≠ 0) (d : DataId) : Listed t.byData d n ↔ d = x.did := by
  have hxm := h.mem_flatL_of_findT hx hn
  rw [h.index.listed]
  constructor
  · rintro ⟨y, hy, h1, h2⟩
    have : y = x := eq_of_id_eq h.idsN (mem_flat_of_mem_flatL_kids hy) (mem_flat_of_mem_flatL_kids hxm)
      (h1.trans (findT_some_id hx).symm)
    rw [← h2, this]
  · rintro rfl
    exact ⟨x, hxm, findT_some_id hx, rfl⟩

theorem sdAffected_spec {t : Tree} {n : NodeId} {x : T} (h : WF t) (hx : findT n t.root = some x)
    (hn : n ≠ 0) (wc : Option Bool) :
    (sdAffected t x n wc).Nodup ∧ n ∈ sdAffected t x n wc ∧
      ∀ c ∈ sdAffected t x n wc, ∃ y ∈ flatL t.root.kids, y.id = c ∧ y.did = x.did := by
  have hxm := h.mem_flatL_of_findT hx hn
  obtain ⟨l, hl, hnl⟩ := (listed_iff_lookup h.index.keys).1 ((h.listed_iff_did hx hn x.did).2 rfl)
  have hcur : sdCur t x = l := by unfold sdCur; rw [hl]; rfl
  unfold sdAffected
  split
  · rw [hcur]
    refine ⟨h.index.nodup _ (mem_of_lookup hl), hnl, fun c hc => ?_⟩
    exact (h.index.listed x.did c).1 ⟨l, mem_of_lookup hl, hc⟩
  · refine ⟨by simp, by simp, fun c hc => ?_⟩
    rw [List.mem_singleton] at hc
    subst hc
    exact ⟨x, hxm, findT_some_id hx, rfl⟩

theorem sdClash_false {t : Tree} {A : List NodeId} {d : DataId} (h : sdClash t A d = false) :
    ∀ c ∈ A, ∀ par, findParent c t.root = some par → ∀ s ∈ par.kids, s.id ≠ c → s.did ≠ d := by
  intro c hc par hpar s hs hsc hsd
  unfold sdClash at h
  have := List.any_eq_false.1 h c hc
  rw [hpar] at this
  have h2 : ∀ s ∈ par.kids, ¬ s.id = c → ¬ s.did = d := by simpa using this
  exact h2 s hs hsc hsd

theorem sdClash_true {t : Tree} {A : List NodeId} {d : DataId} {c : NodeId} {par s : T} (hc : c ∈ A)
    (hpar : findParent c t.root = some par) (hs : s ∈ par.kids) (hsc : s.id ≠ c) (hsd : s.did = d) :
    sdClash t A d = true := by
  unfold sdClash
  refine List.any_eq_true.2 ⟨c, hc, ?_⟩
  rw [hpar]
  exact List.any_eq_true.2 ⟨s, hs, by simp [hsc, hsd]⟩

/-- `findT` commutes with a relabelling that keeps `id` (distinct identities). -/
theorem findT_mapInfoT {F : Info → Info} (hF : ∀ i, (F i).id = i.id) {t : T} (hN : C10.IdsNodup t)
    (c : NodeId) : findT c (mapInfoT F t) = (findT c t).map (mapInfoT F) := by
  cases h : findT c t with
  | none =>
    rw [Option.map_none, findT_eq_none, ids_mapInfoT hF]
    exact findT_eq_none.1 h
  | some x =>
    obtain ⟨h1, h2⟩ := findT_some h
    rw [Option.map_some, findT_eq_some_iff (idsNodup_mapInfoT hF hN), flat_mapInfoT]
    exact ⟨List.mem_map_of_mem h1, (mapInfoT_id hF x).trans h2⟩

/-! ## 5. `Tree.setData` in a well-formed state -/

/-- **A successful `set_data` in a well-formed state** is a relabelling `F` of the records that keeps
the identities; `byId` is untouched; either it re-keys the affected nodes (no clash) or it keeps all
data ids and `byData`. -/
theorem setData_mapInfo {t t' : Tree} {n : NodeId} {x : T} {a? : Option Atom} {did? : Option DataId}
    {wc : Option Bool} (h : WF t) (hx : findT n t.root = some x) (hr : t.setData n a? did? wc = .ok t') :
    ∃ F : Info → Info, (∀ i, (F i).id = i.id) ∧ t'.root = mapInfoT F t.root ∧ t'.byId = t.byId ∧
      (a?.isSome ∨ did?.isSome) ∧ ∃ did1, sdDid1 t (sdNewData x a?) did? = .ok did1 ∧
      ((∃ d, sdNewDid x did1 = some d ∧ sdClash t (sdAffected t x n wc) d = false ∧
          F = (fun i => if i.id ∈ sdAffected t x n wc then sdUpd d (sdNewData x a?) i else i) ∧
          t'.byData = addEntries (delEntries t.byData x.did (sdAffected t x n wc)) d (sdAffected t x n wc)) ∨
       (sdNewDid x did1 = none ∧ (∀ i, (F i).did = i.did) ∧ t'.byData = t.byData)) := by
  obtain ⟨hgiven, did1, hdid1, hc⟩ := setData_cases hx hr
  rcases hc with ⟨d, hd, hcl, rfl⟩ | ⟨hd, B, f, hf, rfl⟩
  · refine ⟨_, ?_, foldl_setInfoT_eq (sdUpd_id d _) (sdUpd_idem d _) _ h.idsN, rfl, hgiven, did1, hdid1,
      Or.inl ⟨d, hd, hcl, rfl, rfl⟩⟩
    intro i; split
    · rfl
    · rfl
  · refine ⟨_, ?_, foldl_setInfoT_eq (fun i => (hf i).1) (fun i => (hf i).2.2) _ h.idsN, rfl, hgiven, did1, hdid1,
      Or.inr ⟨hd, ?_, rfl⟩⟩
    · intro i; split
      · exact (hf i).1
      · rfl
    · intro i
      show (if i.id ∈ B then f i else i).did = i.did
      split
      · exact (hf i).2.1
      · rfl

/-- `set_data` keeps the state well-formed (`n ≠ 0`: the system root is not a data node). -/
theorem setData_WF_of_ne {t t' : Tree} {n : NodeId} {a? : Option Atom} {did? : Option DataId}
    {wc : Option Bool} (h : WF t) (hn : n ≠ 0) (hr : t.setData n a? did? wc = .ok t') : WF t' := by
  cases hx : findT n t.root with
  | none => rw [setData_of_none a? did? wc hx] at hr; cases hr
  | some x =>
    obtain ⟨F, hFid, hroot, hbyId, _, did1, _, hc⟩ := setData_mapInfo h hx hr
    rcases hc with ⟨d, hd, hcl, rfl, hbd⟩ | ⟨_, hFdid, hbd⟩
    · obtain ⟨hA1, hA2, hA3⟩ := sdAffected_spec h hx hn wc
      exact WF_rekey h (sdUpd_id d _) (sdUpd_did d _) hA1 (List.ne_nil_of_mem hA2) hA3
        (sdNewDid_some hd).2 (sdClash_false hcl) hroot hbyId hbd
    · exact WF_relabel_frame h hFid hFdid hroot hbyId hbd

/-- the node itself after a successful `set_data`: same identity, data id = the requested one
(`did1`), else unchanged. -/
theorem setData_find {t t' : Tree} {n : NodeId} {x : T} {a? : Option Atom} {did? : Option DataId}
    {wc : Option Bool} (h : WF t) (hn : n ≠ 0) (hx : findT n t.root = some x)
    (hr : t.setData n a? did? wc = .ok t') :
    ∃ x', findT n t'.root = some x' ∧ x'.id = n ∧ (a?.isSome ∨ did?.isSome) ∧
      ∃ did1, sdDid1 t (sdNewData x a?) did? = .ok did1 ∧ x'.did = did1.getD x.did := by
  obtain ⟨F, hFid, hroot, _, hgiven, did1, hdid1, hc⟩ := setData_mapInfo h hx hr
  refine ⟨mapInfoT F x, by rw [hroot, findT_mapInfoT hFid h.idsN, hx]; rfl,
    (mapInfoT_id hFid x).trans (findT_some_id hx), hgiven, did1, hdid1, ?_⟩
  show (mapInfoT F x).info.did = _
  rw [mapInfoT_info]
  rcases hc with ⟨d, hd, _, rfl, _⟩ | ⟨hd, hFdid, _⟩
  · have hnA : x.info.id ∈ sdAffected t x n wc := by
      rw [show x.info.id = n from findT_some_id hx]; exact (sdAffected_spec h hx hn wc).2.1
    show (if x.info.id ∈ sdAffected t x n wc then sdUpd d (sdNewData x a?) x.info else x.info).did = _
    rw [if_pos hnA, sdUpd_did, (sdNewDid_some hd).1]; rfl
  · rw [hFdid]
    rcases sdNewDid_none hd with rfl | rfl <;> rfl

/-- `set_data` never changes the shape, the identities or `byId` (no well-formedness needed). -/
theorem setData_ids {t t' : Tree} {n : NodeId} {a? : Option Atom} {did? : Option DataId} {wc : Option Bool}
    (hr : t.setData n a? did? wc = .ok t') :
    (flat t'.root).map T.id = (flat t.root).map T.id ∧ t'.byId = t.byId := by
  cases hx : findT n t.root with
  | none => rw [setData_of_none a? did? wc hx] at hr; cases hr
  | some x =>
    obtain ⟨_, did1, _, hc⟩ := setData_cases hx hr
    rcases hc with ⟨d, _, _, rfl⟩ | ⟨_, B, f, hf, rfl⟩
    · exact ⟨ids_foldl_setInfoT' (sdUpd_id d _) _ _, rfl⟩
    · exact ⟨ids_foldl_setInfoT' (fun i => (hf i).1) _ _, rfl⟩

end Nutree
