/- Helper lemmas for C15 (kind-aware queries of typed trees).

  All lemmas are about an arbitrary sibling list `pc : List T`; the property theorems in
  `Nutree/Properties/C15.lean` instantiate `pc := siblingsAll root self`. -/
import Nutree.Model.Typed
import Nutree.Lemmas.Iter
namespace Nutree.Typed
open Nutree T

/-! ### generic list facts -/

/-- scanning from the end for the first hit = last element of the filtered list. -/
theorem find?_reverse_eq_getLast?_filter (p : T → Bool) (l : List T) :
    l.reverse.find? p = (l.filter p).getLast? := by
  exact List.getLast?_filter.symm

theorem find?_true_eq_head? (l : List T) : l.find? (fun _ => true) = l.head? := by
  cases l <;> simp

theorem sameKind_self (self : T) : sameKind self self = true := by simp [sameKind]

/-! ### the sibling list as a filter -/

/-- the predicate used by the `prev_sibling` / `next_sibling` loops. -/
def selP (self : T) (anyKind : Bool) : T → Bool := fun n => anyKind || sameKind self n

theorem selP_self (self : T) (anyKind : Bool) : selP self anyKind self = true := by
  simp [selP, sameKind_self]

theorem selP_true (self : T) : selP self true = fun _ => true := by funext n; simp [selP]
theorem selP_false (self : T) : selP self false = sameKind self := by funext n; simp [selP]

theorem sibList_eq_filter (pc : List T) (self : T) (anyKind : Bool) :
    Spec.sibList pc self anyKind = pc.filter (selP self anyKind) := by
  cases anyKind
  · have : selP self false = sameKind self := by funext n; simp [selP]
    simp [Spec.sibList, this]
  · have : selP self true = fun _ => true := by funext n; simp [selP]
    rw [this, List.filter_eq_self.2 (fun _ _ => rfl)]; simp [Spec.sibList]

/-! ### splitting the sibling list at `self` -/

/-- `self ∈ pc` and pairwise distinct ids: `pc = pre ++ self :: post` and no other element
carries self's id. -/
theorem split_of_mem_nodup {pc : List T} {self : T} (hmem : self ∈ pc)
    (hnd : (pc.map T.id).Nodup) :
    ∃ pre post, pc = pre ++ self :: post ∧
      (∀ n ∈ pre, (n.id == self.id) = false) ∧ (∀ n ∈ post, (n.id == self.id) = false) := by
  obtain ⟨pre, post, rfl⟩ := List.append_of_mem hmem
  refine ⟨pre, post, rfl, ?_, ?_⟩
  · intro n hn
    simp only [List.map_append, List.map_cons, List.nodup_append, List.nodup_cons] at hnd
    have := hnd.2.2 n.id (List.mem_map_of_mem hn) self.id (List.mem_cons_self)
    simpa using this
  · intro n hn
    simp only [List.map_append, List.map_cons, List.nodup_append, List.nodup_cons] at hnd
    have h1 := hnd.2.1.1
    have : n.id ≠ self.id := fun e => h1 (e ▸ List.mem_map_of_mem hn)
    simpa using this

/-- `self ∈ pc` alone: the first element carrying self's id splits the list. -/
theorem split_of_mem {pc : List T} {self : T} (hmem : ∃ n ∈ pc, n.id = self.id) :
    ∃ pre x post, pc = pre ++ x :: post ∧ x.id = self.id ∧
      (∀ n ∈ pre, (n.id == self.id) = false) := by
  induction pc with
  | nil => obtain ⟨n, hn, _⟩ := hmem; cases hn
  | cons a as ih =>
    by_cases ha : a.id = self.id
    · exact ⟨[], a, as, rfl, ha, by simp⟩
    · obtain ⟨n, hn, hid⟩ := hmem
      have hn' : n ∈ as := by
        rcases List.mem_cons.1 hn with rfl | h
        · exact absurd hid ha
        · exact h
      obtain ⟨pre, x, post, rfl, hx, hpre⟩ := ih ⟨n, hn', hid⟩
      refine ⟨a :: pre, x, post, rfl, hx, ?_⟩
      intro m hm
      rcases List.mem_cons.1 hm with rfl | h
      · simpa using ha
      · exact hpre m h

/-- some element carries self's id and ids are pairwise distinct: that element is the only one. -/
theorem split_of_ex_nodup {pc : List T} {self : T} (hex : ∃ n ∈ pc, n.id = self.id)
    (hnd : (pc.map T.id).Nodup) :
    ∃ pre x post, pc = pre ++ x :: post ∧ x.id = self.id ∧
      (∀ n ∈ pre, (n.id == self.id) = false) ∧ (∀ n ∈ post, (n.id == self.id) = false) := by
  obtain ⟨pre, x, post, rfl, hx, hpre⟩ := split_of_mem hex
  refine ⟨pre, x, post, rfl, hx, hpre, ?_⟩
  intro n hn
  simp only [List.map_append, List.map_cons, List.nodup_append, List.nodup_cons] at hnd
  have h1 := hnd.2.1.1
  have : n.id ≠ self.id := fun e => h1 (by
    rw [hx, ← e]; exact List.mem_map_of_mem (f := T.id) hn)
  simpa using this

theorem findIdx_split (pre post : List T) (x self : T) (hx : x.id = self.id)
    (hpre : ∀ n ∈ pre, (n.id == self.id) = false) :
    (pre ++ x :: post).findIdx (fun n => n.id == self.id) = pre.length := by
  induction pre with
  | nil => simp [List.findIdx_cons, hx]
  | cons a as ih =>
    have ha := hpre a List.mem_cons_self
    have := ih (fun n hn => hpre n (List.mem_cons_of_mem _ hn))
    simp [List.findIdx_cons, ha, this]

theorem pos_split (pre post : List T) (x self : T) (hx : x.id = self.id)
    (hpre : ∀ n ∈ pre, (n.id == self.id) = false) :
    Spec.pos (pre ++ x :: post) self = some pre.length := by
  simp [Spec.pos, findIdx_split pre post x self hx hpre]

theorem filter_split (p : T → Bool) (pre post : List T) (x : T) (hx : p x = true) :
    (pre ++ x :: post).filter p = pre.filter p ++ x :: post.filter p := by
  simp [hx]

theorem filter_noid {pre : List T} {self : T} (p : T → Bool)
    (hpre : ∀ n ∈ pre, (n.id == self.id) = false) :
    ∀ n ∈ pre.filter p, (n.id == self.id) = false :=
  fun n hn => hpre n (List.mem_filter.1 hn).1

/-! ### children -/

theorem firstChild_spec (self : T) (k : Option String) :
    firstChild self k = Spec.firstChild self k := by
  unfold firstChild Spec.firstChild Spec.byKind
  cases h : self.kids with
  | nil => cases k <;> simp
  | cons a as => cases k <;> simp [List.head?_filter]

theorem lastChild_spec (self : T) (k : Option String) :
    lastChild self k = Spec.lastChild self k := by
  unfold lastChild Spec.lastChild Spec.byKind
  cases h : self.kids with
  | nil => cases k <;> simp
  | cons a as =>
    cases k with
    | none => simp
    | some k => simp only [find?_reverse_eq_getLast?_filter]; rfl

/-! ### siblings, first, last, index (no hypotheses) -/

theorem siblings_spec (pc : List T) (self : T) (addSelf : Bool) :
    (pc.filter fun n => (addSelf || n.id != self.id) && sameKind self n)
      = Spec.siblings pc self addSelf false := by
  cases addSelf <;> simp [Spec.siblings, Spec.sibList, List.filter_filter]

theorem first_spec (pc : List T) (self : T) (anyKind : Bool) :
    (if anyKind then pc.head? else pc.find? (sameKind self)) = Spec.first pc self anyKind := by
  cases anyKind <;> simp [Spec.first, Spec.sibList, List.head?_filter]

theorem last_spec (pc : List T) (self : T) (anyKind : Bool) :
    (if anyKind then pc.getLast? else pc.reverse.find? (sameKind self))
      = Spec.last pc self anyKind := by
  cases anyKind <;> simp [Spec.last, Spec.sibList, List.getLast?_filter]

/-! ### is_first / is_last -/

/-- "the head of the list is self (by identity)" ↔ "self's position is 0": no hypotheses. -/
theorem headIs_eq_pos (l : List T) (self : T) :
    (match l.head? with | some f => f.id == self.id | none => false)
      = (Spec.pos l self == some 0) := by
  cases l with
  | nil => simp [Spec.pos]
  | cons a as =>
    cases ha : a.id == self.id <;> simp [Spec.pos, List.findIdx_cons, ha]

/-- no element carries self's id: no position. -/
theorem pos_none {l : List T} {self : T} (h : ∀ n ∈ l, (n.id == self.id) = false) :
    Spec.pos l self = none := by
  have : l.findIdx (fun n => n.id == self.id) = l.length := by
    rw [List.findIdx_eq_length]; simpa using h
  simp [Spec.pos, this]

/-- "the last of the list is self (by identity)" ↔ "self's position is length - 1":
needs pairwise distinct ids. -/
theorem lastIs_eq_pos (l : List T) (self : T) (hnd : (l.map T.id).Nodup) :
    (match l.getLast? with | some f => f.id == self.id | none => false)
      = (match Spec.pos l self with | some i => i + 1 == l.length | none => false) := by
  by_cases hex : ∃ n ∈ l, n.id = self.id
  · obtain ⟨pre, x, post, rfl, hx, hpre⟩ := split_of_mem hex
    rw [pos_split pre post x self hx hpre]
    cases post with
    | nil => simp [hx]
    | cons b bs =>
      have hlast : (pre ++ x :: b :: bs).getLast? = (b :: bs).getLast? := by
        rw [List.getLast?_append, List.getLast?_cons_cons]
        cases h : (b :: bs).getLast? with
        | none => simp at h
        | some f => simp
      rw [hlast]
      have hpost : ∀ n ∈ b :: bs, (n.id == self.id) = false := by
        intro n hn
        simp only [List.map_append, List.map_cons, List.nodup_append, List.nodup_cons] at hnd
        have h1 := hnd.2.1.1
        have : n.id ≠ self.id := fun e => h1 (by
          rw [hx, ← e]; exact List.mem_map_of_mem (f := T.id) hn)
        simpa using this
      cases hl : (b :: bs).getLast? with
      | none => simp
      | some f => simp [hpost f (List.mem_of_getLast? hl)]
  · have hno : ∀ n ∈ l, (n.id == self.id) = false := by
      intro n hn
      have : n.id ≠ self.id := fun e => hex ⟨n, hn, e⟩
      simpa using this
    rw [pos_none hno]
    cases hl : l.getLast? with
    | none => rfl
    | some f => exact hno f (List.mem_of_getLast? hl)

/-! ### prev / next on a list split at self -/

/-- the downward scan of `prev_sibling` vs. "element before self in the filtered list". -/
theorem prev_split (pre post : List T) (x self : T) (anyKind : Bool) (hx : x.id = self.id)
    (hq : selP self anyKind x = true) (hpre : ∀ n ∈ pre, (n.id == self.id) = false) :
    (if pre.length > 0 then pre.reverse.find? (selP self anyKind) else none)
      = Spec.prev (pre ++ x :: post) self anyKind := by
  unfold Spec.prev
  rw [sibList_eq_filter]
  generalize selP self anyKind = q at *
  rw [filter_split q pre post x hq, pos_split _ _ x self hx (filter_noid q hpre)]
  have hl : (if pre.length > 0 then pre.reverse.find? q else none) = (pre.filter q).getLast? := by
    cases pre <;> simp
  rw [hl]
  generalize pre.filter q = fp
  cases hlen : fp.length with
  | zero =>
    have : fp = [] := List.length_eq_zero_iff.1 hlen
    simp [this]
  | succ j =>
    simp only
    rw [List.getElem?_append_left (by omega), List.getLast?_eq_getElem?, hlen]
    simp

/-- the upward scan of `next_sibling` vs. "element after self in the filtered list". -/
theorem next_split (pre post : List T) (x self : T) (anyKind : Bool) (hx : x.id = self.id)
    (hq : selP self anyKind x = true) (hpre : ∀ n ∈ pre, (n.id == self.id) = false) :
    (if pre.length + 1 < (pre ++ x :: post).length
        then ((pre ++ x :: post).drop (pre.length + 1)).find? (selP self anyKind) else none)
      = Spec.next (pre ++ x :: post) self anyKind := by
  unfold Spec.next
  rw [sibList_eq_filter]
  generalize selP self anyKind = q at *
  rw [filter_split q pre post x hq, pos_split _ _ x self hx (filter_noid q hpre)]
  have hd : (pre ++ x :: post).drop (pre.length + 1) = post := by
    rw [show pre ++ x :: post = (pre ++ [x]) ++ post by simp]
    exact List.drop_left' (by simp)
  rw [hd]
  have hl : (if pre.length + 1 < (pre ++ x :: post).length then post.find? q else none)
      = post.find? q := by
    cases post <;> simp
  rw [hl]
  simp only
  rw [List.getElem?_append_right (by omega)]
  simp [List.head?_filter, ← List.head?_eq_getElem?]

/-! ### prev / next / is_first / is_last on an arbitrary sibling list `pc` -/

/-- split of `pc` at self under `self ∈ pc` and distinct ids, with the selection predicate. -/
theorem prev_pc (pc : List T) (self : T) (anyKind : Bool) (hmem : self ∈ pc)
    (hnd : (pc.map T.id).Nodup) :
    (if pc.findIdx (fun n => n.id == self.id) > 0
        then (pc.take (pc.findIdx fun n => n.id == self.id)).reverse.find? (selP self anyKind)
        else none)
      = Spec.prev pc self anyKind := by
  obtain ⟨pre, post, rfl, hpre, -⟩ := split_of_mem_nodup hmem hnd
  rw [findIdx_split pre post self self rfl hpre,
    ← prev_split pre post self self _ rfl (selP_self self anyKind) hpre]
  simp

theorem next_pc (pc : List T) (self : T) (anyKind : Bool) (hmem : self ∈ pc)
    (hnd : (pc.map T.id).Nodup) :
    (if pc.findIdx (fun n => n.id == self.id) + 1 < pc.length
        then (pc.drop (pc.findIdx (fun n => n.id == self.id) + 1)).find? (selP self anyKind)
        else none)
      = Spec.next pc self anyKind := by
  obtain ⟨pre, post, rfl, hpre, -⟩ := split_of_mem_nodup hmem hnd
  rw [findIdx_split pre post self self rfl hpre,
    ← next_split pre post self self _ rfl (selP_self self anyKind) hpre]

theorem nodup_filter_ids (p : T → Bool) {pc : List T} (hnd : (pc.map T.id).Nodup) :
    ((pc.filter p).map T.id).Nodup :=
  List.Nodup.sublist (List.Sublist.map _ List.filter_sublist) hnd

/-! ### the sibling list found through the `_parent` link contains self's id -/

mutual
theorem findParent_any (id : NodeId) :
    ∀ (t p : T), findParent id t = some p → p.kids.any (fun k => k.id == id) = true
  | .node i ks, p, h => by
    simp only [findParent] at h
    split at h
    · rename_i hany; cases h; exact hany
    · exact findParentL_any id ks p h
theorem findParentL_any (id : NodeId) :
    ∀ (ts : List T) (p : T), findParentL id ts = some p → p.kids.any (fun k => k.id == id) = true
  | [], p, h => by simp [findParentL] at h
  | t :: ts, p, h => by
    simp only [findParentL] at h
    split at h
    · rename_i q hq; cases h; exact findParent_any id t _ hq
    · exact findParentL_any id ts p h
end

theorem size_eq_succ (t : T) : ∃ f, t.size = f + 1 := by
  cases t with
  | node i ks => exact ⟨sizeL ks, by simp [T.size, Nat.add_comm]⟩

/-- `self._parent._children` is empty (no parent) or contains a node with self's identity. -/
theorem siblingsAll_has_id (root self : T) :
    siblingsAll root self = [] ∨ ∃ n ∈ siblingsAll root self, n.id = self.id := by
  unfold siblingsAll chain
  obtain ⟨f, hf⟩ := size_eq_succ root
  rw [hf]
  simp only [parentChain]
  cases h : findParent self.id root with
  | none => left; rfl
  | some p =>
    right
    have := findParent_any self.id root p h
    simpa using this

/-! ### `any_kind=True` prev / next = the untyped accessors of Model/Rel -/

theorem prev_anyKind_untyped (root self : T) :
    Typed.prevSibling root self true = Nutree.prevSibling root self := by
  rcases siblingsAll_has_id root self with hnil | hex
  · simp [Typed.prevSibling, ownIdx, Nutree.prevSibling, Nutree.isFirstSibling, Nutree.getIndex, hnil]
  unfold Typed.prevSibling ownIdx Nutree.prevSibling Nutree.isFirstSibling Nutree.getIndex
  generalize siblingsAll root self = pc at *
  obtain ⟨pre, x, post, rfl, hx, hpre⟩ := split_of_mem hex
  simp only [findIdx_split pre post x self hx hpre]
  cases pre with
  | nil => simp [hx]
  | cons a as =>
    have ha := hpre a List.mem_cons_self
    simp [ha]
    show some ((List.find? (fun _ => true) as.reverse).getD a) = (a :: (as ++ x :: post))[as.length]?
    rw [find?_true_eq_head?, List.head?_reverse, ← List.getLast?_cons,
      show a :: (as ++ x :: post) = (a :: as) ++ x :: post from rfl,
      List.getElem?_append_left (by simp), List.getLast?_eq_getElem?]
    simp

theorem next_anyKind_untyped (root self : T)
    (hnd : ((siblingsAll root self).map T.id).Nodup) :
    Typed.nextSibling root self true = Nutree.nextSibling root self := by
  rcases siblingsAll_has_id root self with hnil | hex
  · simp [Typed.nextSibling, ownIdx, Nutree.nextSibling, Nutree.isLastSibling, Nutree.getIndex, hnil]
  unfold Typed.nextSibling ownIdx Nutree.nextSibling Nutree.isLastSibling Nutree.getIndex
  generalize siblingsAll root self = pc at *
  obtain ⟨pre, x, post, rfl, hx, hpre, hpost⟩ := split_of_ex_nodup hex hnd
  simp only [findIdx_split pre post x self hx hpre]
  cases post with
  | nil => simp [hx]
  | cons b bs =>
    simp
    show (match (b :: bs).getLast?.or pre.getLast? with
      | some n => n.id == self.id
      | none => false) = false
    cases hl : (b :: bs).getLast? with
    | none => simp at hl
    | some f => simpa using hpost f (List.mem_of_getLast? hl)

/-! ### prev / next vs. the specification under the weakest convenient hypothesis:
every sibling carrying self's id is selected by the scan predicate -/

theorem prev_spec_of_sel (root self : T) (anyKind : Bool)
    (hk : ∀ n ∈ siblingsAll root self, n.id = self.id → selP self anyKind n = true) :
    Typed.prevSibling root self anyKind = Spec.prev (siblingsAll root self) self anyKind := by
  rcases siblingsAll_has_id root self with hnil | hex
  · simp [Typed.prevSibling, ownIdx, Spec.prev, Spec.pos, Spec.sibList, hnil]
  unfold Typed.prevSibling ownIdx
  generalize siblingsAll root self = pc at *
  obtain ⟨pre, x, post, rfl, hx, hpre⟩ := split_of_mem hex
  have hq : selP self anyKind x = true := hk x (by simp) hx
  simp only [findIdx_split pre post x self hx hpre]
  rw [← prev_split pre post x self anyKind hx hq hpre]
  simp
  rfl

theorem next_spec_of_sel (root self : T) (anyKind : Bool)
    (hk : ∀ n ∈ siblingsAll root self, n.id = self.id → selP self anyKind n = true) :
    Typed.nextSibling root self anyKind = Spec.next (siblingsAll root self) self anyKind := by
  rcases siblingsAll_has_id root self with hnil | hex
  · simp [Typed.nextSibling, ownIdx, Spec.next, Spec.pos, Spec.sibList, hnil]
  unfold Typed.nextSibling ownIdx
  generalize siblingsAll root self = pc at *
  obtain ⟨pre, x, post, rfl, hx, hpre⟩ := split_of_mem hex
  have hq : selP self anyKind x = true := hk x (by simp) hx
  simp only [findIdx_split pre post x self hx hpre]
  rw [← next_split pre post x self anyKind hx hq hpre]
  simp
  rfl

theorem sel_of_kind {pc : List T} {self : T} {anyKind : Bool}
    (hk : anyKind = false → ∀ n ∈ pc, n.id = self.id → n.kind = self.kind) :
    ∀ n ∈ pc, n.id = self.id → selP self anyKind n = true := by
  intro n hn hid
  cases anyKind with
  | true => simp [selP]
  | false => simp [selP, sameKind, hk rfl n hn hid]

/-- `self ∈ pc` and pairwise distinct ids: the only sibling with self's id is self. -/
theorem kind_of_mem_nodup {pc : List T} {self : T} (hmem : self ∈ pc)
    (hnd : (pc.map T.id).Nodup) : ∀ n ∈ pc, n.id = self.id → n.kind = self.kind := by
  intro n hn hid
  obtain ⟨pre, post, rfl, hpre, hpost⟩ := split_of_mem_nodup hmem hnd
  have hid' : (n.id == self.id) = true := by simpa using hid
  rcases List.mem_append.1 hn with h | h
  · rw [hpre n h] at hid'; cases hid'
  · rcases List.mem_cons.1 h with rfl | h
    · rfl
    · rw [hpost n h] at hid'; cases hid'

end Nutree.Typed
