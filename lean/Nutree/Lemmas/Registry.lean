/-
  Nutree.Lemmas.Registry — lemma library for the two hand-kept registries of `Tree`
  (`byId` = keys of `_node_by_id`, `byData` = `_nodes_by_data_id`) and their maintenance
  functions `Tree.register`, `Tree.unregister`, `Tree.unregisterAll`.

  * `Listed bd d n` — node `n` is listed under data id `d` (this is, by `Iff.rfl`, the left side
    of `IndexExact.exact`).
  * `IndexOK bd` — the three structural conditions of `IndexExact` (distinct keys, no empty list,
    no node twice in a list).
  * `addEntry` / `delEntry` — the `byData` updates of `register` / `unregister` as functions of
    the list; `register_ok`, `unregister_eq` connect them to the operations.
  * characterisations: `listed_addEntry`, `listed_delEntry`, `listed_unregisterAll`,
    `addEntry_ok`, `delEntry_ok`, `unregisterAll_ok`, `unregisterAll_byId`.
  * re-establishing the invariants: `IndexExact.of_listed`, `RegistryExact` is a plain `Perm`.
-/
import Nutree.Spec.WF
import Nutree.Lemmas.Prim
namespace Nutree
open T C10

abbrev ByData := List (DataId × List NodeId)

/-- node `n` is listed under data id `d`. -/
def Listed (bd : ByData) (d : DataId) (n : NodeId) : Prop := ∃ l, (d, l) ∈ bd ∧ n ∈ l

/-- distinct keys, no empty clone list, no node twice in a clone list. -/
structure IndexOK (bd : ByData) : Prop where
  keys : (bd.map (·.1)).Nodup
  noEmpty : ∀ e ∈ bd, e.2 ≠ []
  nodup : ∀ e ∈ bd, e.2.Nodup

theorem IndexExact.ok {t : Tree} (h : IndexExact t) : IndexOK t.byData := ⟨h.keys, h.noEmpty, h.nodup⟩

/-- `IndexExact` from its structural part and the membership characterisation. -/
theorem IndexExact.of_listed {t : Tree} (hok : IndexOK t.byData)
    (h : ∀ d n, Listed t.byData d n ↔ ∃ x ∈ flatL t.root.kids, x.id = n ∧ x.did = d) : IndexExact t :=
  ⟨hok.keys, hok.noEmpty, hok.nodup, h⟩

theorem IndexExact.listed {t : Tree} (h : IndexExact t) (d : DataId) (n : NodeId) :
    Listed t.byData d n ↔ ∃ x ∈ flatL t.root.kids, x.id = n ∧ x.did = d := h.exact d n

/-! ### `lookup` -/

theorem lookup_eq_none {bd : ByData} {d : DataId} : bd.lookup d = none ↔ d ∉ bd.map (·.1) := by
  rw [List.lookup_eq_none_iff]
  constructor
  · intro h hm
    obtain ⟨e, he, hed⟩ := List.mem_map.1 hm
    have := h e he
    simp [hed] at this
  · intro h e he
    have : d ≠ e.1 := fun e' => h (List.mem_map.2 ⟨e, he, e'.symm⟩)
    simpa using this

theorem mem_of_lookup {bd : ByData} {d : DataId} {l : List NodeId} (h : bd.lookup d = some l) : (d, l) ∈ bd := by
  obtain ⟨l1, l2, rfl, _⟩ := List.lookup_eq_some_iff.1 h
  simp

/-- with distinct keys, `lookup` finds every entry. -/
theorem lookup_of_mem {bd : ByData} {d : DataId} {l : List NodeId} (hk : (bd.map (·.1)).Nodup)
    (h : (d, l) ∈ bd) : bd.lookup d = some l := by
  cases hl : bd.lookup d with
  | none => exact absurd (List.mem_map.2 ⟨(d, l), h, rfl⟩) (lookup_eq_none.1 hl)
  | some l' =>
    obtain ⟨l1, l2, rfl, h1⟩ := List.lookup_eq_some_iff.1 hl
    rw [List.map_append, List.map_cons, List.nodup_append] at hk
    obtain ⟨_, hk2, hk3⟩ := hk
    rw [List.nodup_cons] at hk2
    rcases List.mem_append.1 h with h | h
    · exact absurd rfl (hk3 d (List.mem_map.2 ⟨(d, l), h, rfl⟩) d (by simp))
    · rcases List.mem_cons.1 h with h | h
      · cases h; rfl
      · exact absurd (List.mem_map.2 ⟨(d, l), h, rfl⟩) hk2.1

theorem lookup_eq_some {bd : ByData} {d : DataId} {l : List NodeId} (hk : (bd.map (·.1)).Nodup) :
    bd.lookup d = some l ↔ (d, l) ∈ bd := ⟨mem_of_lookup, lookup_of_mem hk⟩

/-- with distinct keys the entry of a key is unique. -/
theorem entry_unique {bd : ByData} {d : DataId} {l l' : List NodeId} (hk : (bd.map (·.1)).Nodup)
    (h : (d, l) ∈ bd) (h' : (d, l') ∈ bd) : l = l' := by
  have := (lookup_of_mem hk h).symm.trans (lookup_of_mem hk h')
  exact Option.some.inj this

theorem listed_iff_lookup {bd : ByData} {d : DataId} {n : NodeId} (hk : (bd.map (·.1)).Nodup) :
    Listed bd d n ↔ ∃ l, bd.lookup d = some l ∧ n ∈ l :=
  ⟨fun ⟨l, h1, h2⟩ => ⟨l, lookup_of_mem hk h1, h2⟩, fun ⟨l, h1, h2⟩ => ⟨l, mem_of_lookup h1, h2⟩⟩

/-! ### `register` -/

/-- the `byData` update of `register`. -/
def addEntry (bd : ByData) (did : DataId) (nid : NodeId) : ByData :=
  match bd.lookup did with
  | some _ => bd.map fun e => if e.1 = did then (e.1, e.2 ++ [nid]) else e
  | none => bd ++ [(did, [nid])]

/-- a successful `register` appends `nid` to `byId` and lists it under `did`; nothing else changes. -/
theorem register_ok {t t1 : Tree} {parent nid : NodeId} {did : DataId}
    (h : t.register parent nid did = .ok t1) :
    t1 = { t with byId := t.byId ++ [nid], byData := addEntry t.byData did nid } := by
  unfold Tree.register at h
  unfold addEntry
  split at h
  · rename_i clones hl
    split at h
    · cases h
    · cases h; simp only [hl]
  · rename_i hl
    cases h; simp only [hl]

theorem register_root {t t1 : Tree} {parent nid : NodeId} {did : DataId}
    (h : t.register parent nid did = .ok t1) : t1.root = t.root := by rw [register_ok h]
theorem register_typed {t t1 : Tree} {parent nid : NodeId} {did : DataId}
    (h : t.register parent nid did = .ok t1) : t1.typed = t.typed := by rw [register_ok h]
theorem register_hook {t t1 : Tree} {parent nid : NodeId} {did : DataId}
    (h : t.register parent nid did = .ok t1) : t1.hook = t.hook := by rw [register_ok h]
theorem register_rootNone {t t1 : Tree} {parent nid : NodeId} {did : DataId}
    (h : t.register parent nid did = .ok t1) : t1.rootNone = t.rootNone := by rw [register_ok h]
theorem register_byId {t t1 : Tree} {parent nid : NodeId} {did : DataId}
    (h : t.register parent nid did = .ok t1) : t1.byId = t.byId ++ [nid] := by rw [register_ok h]
theorem register_byData {t t1 : Tree} {parent nid : NodeId} {did : DataId}
    (h : t.register parent nid did = .ok t1) : t1.byData = addEntry t.byData did nid := by rw [register_ok h]

/-- the only refusal of `register` is the uniqueness error. -/
theorem register_error {t : Tree} {parent nid : NodeId} {did : DataId} {e : Err}
    (h : t.register parent nid did = .error e) : e = .unique := by
  unfold Tree.register at h
  split at h
  · split at h
    · cases h; rfl
    · cases h
  · cases h

/-- `register` refuses iff a node listed under `did` has `parent` as its parent. -/
theorem register_unique_iff {t : Tree} {parent nid : NodeId} {did : DataId} :
    t.register parent nid did = .error .unique ↔
      ∃ clones, t.byData.lookup did = some clones ∧ ∃ c ∈ clones, t.parentId c = some parent := by
  unfold Tree.register
  cases hl : t.byData.lookup did with
  | none => simp
  | some clones =>
    simp only [Option.some.injEq, exists_eq_left']
    by_cases hany : clones.any (fun c => t.parentId c == some parent) = true
    · rw [if_pos hany]
      obtain ⟨c, hc, hcp⟩ := List.any_eq_true.1 hany
      exact ⟨fun _ => ⟨c, hc, by simpa using hcp⟩, fun _ => rfl⟩
    · rw [if_neg hany]
      constructor
      · intro h; cases h
      · rintro ⟨c, hc, hcp⟩
        exact absurd (List.any_eq_true.2 ⟨c, hc, by simpa using hcp⟩) hany

/-- `register` succeeds iff no node listed under `did` has `parent` as its parent. -/
theorem register_isOk_iff {t : Tree} {parent nid : NodeId} {did : DataId} :
    (∃ t1, t.register parent nid did = .ok t1) ↔
      ¬ ∃ clones, t.byData.lookup did = some clones ∧ ∃ c ∈ clones, t.parentId c = some parent := by
  rw [← register_unique_iff (nid := nid)]
  cases h : t.register parent nid did with
  | ok t1 => simp
  | error e => cases register_error h; simp

/-- membership after `addEntry`. -/
theorem listed_addEntry {bd : ByData} {did d : DataId} {nid n : NodeId} :
    Listed (addEntry bd did nid) d n ↔ Listed bd d n ∨ (d = did ∧ n = nid) := by
  unfold addEntry
  cases hl : bd.lookup did with
  | none =>
    simp only [Listed, List.mem_append, List.mem_singleton, Prod.mk.injEq]
    constructor
    · rintro ⟨l, h | ⟨rfl, rfl⟩, hn⟩
      · exact Or.inl ⟨l, h, hn⟩
      · exact Or.inr ⟨rfl, by simpa using hn⟩
    · rintro (⟨l, h, hn⟩ | ⟨rfl, rfl⟩)
      · exact ⟨l, Or.inl h, hn⟩
      · exact ⟨[n], Or.inr ⟨rfl, rfl⟩, by simp⟩
  | some l0 =>
    have hmem := mem_of_lookup hl
    simp only [Listed, List.mem_map]
    constructor
    · rintro ⟨l, ⟨e, he, hee⟩, hn⟩
      by_cases hd : e.1 = did
      · rw [if_pos hd] at hee
        cases hee
        rcases List.mem_append.1 hn with hn | hn
        · exact Or.inl ⟨e.2, he, hn⟩
        · exact Or.inr ⟨hd, by simpa using hn⟩
      · rw [if_neg hd] at hee
        subst hee
        exact Or.inl ⟨l, he, hn⟩
    · rintro (⟨l, h, hn⟩ | ⟨rfl, rfl⟩)
      · by_cases hd : d = did
        · exact ⟨l ++ [nid], ⟨(d, l), h, by simp [hd]⟩, List.mem_append_left _ hn⟩
        · exact ⟨l, ⟨(d, l), h, by simp [hd]⟩, hn⟩
      · exact ⟨l0 ++ [n], ⟨(d, l0), hmem, by simp⟩, by simp⟩

/-- the keys after `addEntry`: the old ones, plus `did` if it was new. -/
theorem keys_addEntry (bd : ByData) (did : DataId) (nid : NodeId) :
    (addEntry bd did nid).map (·.1) =
      if did ∈ bd.map (·.1) then bd.map (·.1) else bd.map (·.1) ++ [did] := by
  unfold addEntry
  cases hl : bd.lookup did with
  | none => rw [if_neg (lookup_eq_none.1 hl)]; simp
  | some l0 =>
    have : did ∈ bd.map (·.1) := List.mem_map.2 ⟨_, mem_of_lookup hl, rfl⟩
    rw [if_pos this]
    simp only [List.map_map]
    refine List.map_congr_left (fun e _ => ?_)
    simp only [Function.comp_apply]
    split <;> rfl

/-- `addEntry` keeps the structural conditions if `nid` is not yet listed under `did`. -/
theorem addEntry_ok {bd : ByData} {did : DataId} {nid : NodeId} (h : IndexOK bd)
    (hn : ¬ Listed bd did nid) : IndexOK (addEntry bd did nid) := by
  refine ⟨?_, ?_, ?_⟩
  · rw [keys_addEntry]
    split
    · exact h.keys
    · rename_i hd
      rw [List.nodup_append]
      exact ⟨h.keys, by simp, fun a ha b hb e => hd (by simp at hb; rw [← hb, ← e]; exact ha)⟩
  · intro e he
    unfold addEntry at he
    split at he
    · obtain ⟨e0, he0, rfl⟩ := List.mem_map.1 he
      split
      · simp
      · exact h.noEmpty e0 he0
    · rcases List.mem_append.1 he with he | he
      · exact h.noEmpty e he
      · simp at he; subst he; simp
  · intro e he
    unfold addEntry at he
    split at he
    · obtain ⟨e0, he0, rfl⟩ := List.mem_map.1 he
      split
      · rename_i hd
        simp only
        rw [List.nodup_append]
        refine ⟨h.nodup e0 he0, by simp, ?_⟩
        intro a ha b hb e
        simp at hb; subst hb; subst e
        exact hn ⟨e0.2, by rw [← hd]; exact he0, ha⟩
      · exact h.nodup e0 he0
    · rcases List.mem_append.1 he with he | he
      · exact h.nodup e he
      · simp at he; subst he; simp

/-! ### `unregister` -/

/-- the `byData` update of `unregister`. -/
def delEntry (bd : ByData) (did : DataId) (nid : NodeId) : ByData :=
  (bd.map fun e => if e.1 = did then (e.1, e.2.filter (· != nid)) else e).filter fun e => !e.2.isEmpty

theorem unregister_eq (t : Tree) (nid : NodeId) (did : DataId) :
    t.unregister nid did =
      { t with byId := t.byId.filter (· != nid), byData := delEntry t.byData did nid } := rfl

@[simp] theorem unregister_root (t : Tree) (nid : NodeId) (did : DataId) : (t.unregister nid did).root = t.root := rfl
@[simp] theorem unregister_typed (t : Tree) (nid : NodeId) (did : DataId) : (t.unregister nid did).typed = t.typed := rfl
@[simp] theorem unregister_hook (t : Tree) (nid : NodeId) (did : DataId) : (t.unregister nid did).hook = t.hook := rfl
@[simp] theorem unregister_rootNone (t : Tree) (nid : NodeId) (did : DataId) :
    (t.unregister nid did).rootNone = t.rootNone := rfl
theorem unregister_byId (t : Tree) (nid : NodeId) (did : DataId) :
    (t.unregister nid did).byId = t.byId.filter (· != nid) := rfl
theorem unregister_byData (t : Tree) (nid : NodeId) (did : DataId) :
    (t.unregister nid did).byData = delEntry t.byData did nid := rfl

/-- membership after `delEntry`: exactly the pair `(did, nid)` disappears. -/
theorem listed_delEntry {bd : ByData} {did d : DataId} {nid n : NodeId} :
    Listed (delEntry bd did nid) d n ↔ Listed bd d n ∧ ¬ (d = did ∧ n = nid) := by
  unfold delEntry
  simp only [Listed, List.mem_filter, List.mem_map]
  constructor
  · rintro ⟨l, ⟨⟨e, he, hee⟩, _⟩, hn⟩
    by_cases hd : e.1 = did
    · rw [if_pos hd] at hee
      cases hee
      rw [List.mem_filter] at hn
      refine ⟨⟨e.2, he, hn.1⟩, fun h => ?_⟩
      have := hn.2; simp [h.2] at this
    · rw [if_neg hd] at hee
      subst hee
      exact ⟨⟨_, he, hn⟩, fun h => hd h.1⟩
  · rintro ⟨⟨l, h, hn⟩, hne⟩
    by_cases hd : d = did
    · have hnn : n ≠ nid := fun e => hne ⟨hd, e⟩
      have hm : n ∈ l.filter (· != nid) := List.mem_filter.2 ⟨hn, by simpa using hnn⟩
      refine ⟨l.filter (· != nid), ⟨⟨(d, l), h, by simp [hd]⟩, ?_⟩, hm⟩
      cases hl : l.filter (· != nid) with
      | nil => rw [hl] at hm; simp at hm
      | cons => rfl
    · refine ⟨l, ⟨⟨(d, l), h, by simp [hd]⟩, ?_⟩, hn⟩
      cases l with
      | nil => simp at hn
      | cons => rfl

/-- `delEntry` keeps the structural conditions (and re-establishes `noEmpty`). -/
theorem delEntry_ok {bd : ByData} {did : DataId} {nid : NodeId} (h : IndexOK bd) :
    IndexOK (delEntry bd did nid) := by
  unfold delEntry
  refine ⟨?_, ?_, ?_⟩
  · have hs : ((bd.map fun e => if e.1 = did then (e.1, e.2.filter (· != nid)) else e).filter
        fun e => !e.2.isEmpty).Sublist (bd.map fun e => if e.1 = did then (e.1, e.2.filter (· != nid)) else e) :=
      List.filter_sublist
    have hk : (bd.map fun e => if e.1 = did then (e.1, e.2.filter (· != nid)) else e).map (·.1) = bd.map (·.1) := by
      rw [List.map_map]
      refine List.map_congr_left (fun e _ => ?_)
      simp only [Function.comp_apply]
      split <;> rfl
    exact List.Nodup.sublist (hk ▸ hs.map (·.1)) h.keys
  · intro e he
    have := (List.mem_filter.1 he).2
    intro h0; simp [h0] at this
  · intro e he
    obtain ⟨e0, he0, rfl⟩ := List.mem_map.1 (List.mem_filter.1 he).1
    split
    · exact List.Pairwise.filter _ (h.nodup e0 he0)
    · exact h.nodup e0 he0

theorem unregister_ok {t : Tree} {nid : NodeId} {did : DataId} (h : IndexOK t.byData) :
    IndexOK (t.unregister nid did).byData := delEntry_ok h

theorem listed_unregister {t : Tree} {nid n : NodeId} {did d : DataId} :
    Listed (t.unregister nid did).byData d n ↔ Listed t.byData d n ∧ ¬ (d = did ∧ n = nid) :=
  listed_delEntry

theorem mem_unregister_byId {t : Tree} {nid n : NodeId} {did : DataId} :
    n ∈ (t.unregister nid did).byId ↔ n ∈ t.byId ∧ n ≠ nid := by
  rw [unregister_byId, List.mem_filter]; simp

/-! ### `unregisterAll` -/

@[simp] theorem unregisterAll_nil (t : Tree) : t.unregisterAll [] = t := rfl
theorem unregisterAll_cons (t : Tree) (x : T) (ns : List T) :
    t.unregisterAll (x :: ns) = (t.unregister x.id x.did).unregisterAll ns := rfl

theorem unregisterAll_root (t : Tree) (ns : List T) : (t.unregisterAll ns).root = t.root := by
  induction ns generalizing t with
  | nil => rfl
  | cons x ns ih => rw [unregisterAll_cons, ih]; rfl
theorem unregisterAll_typed (t : Tree) (ns : List T) : (t.unregisterAll ns).typed = t.typed := by
  induction ns generalizing t with
  | nil => rfl
  | cons x ns ih => rw [unregisterAll_cons, ih]; rfl
theorem unregisterAll_hook (t : Tree) (ns : List T) : (t.unregisterAll ns).hook = t.hook := by
  induction ns generalizing t with
  | nil => rfl
  | cons x ns ih => rw [unregisterAll_cons, ih]; rfl
theorem unregisterAll_rootNone (t : Tree) (ns : List T) : (t.unregisterAll ns).rootNone = t.rootNone := by
  induction ns generalizing t with
  | nil => rfl
  | cons x ns ih => rw [unregisterAll_cons, ih]; rfl

/-- `byId` after `unregisterAll`: the identities of `ns` are filtered out. -/
theorem unregisterAll_byId (t : Tree) (ns : List T) :
    (t.unregisterAll ns).byId = t.byId.filter (fun a => decide (a ∉ ns.map T.id)) := by
  induction ns generalizing t with
  | nil => simp [List.filter_eq_self.2]
  | cons x ns ih =>
    rw [unregisterAll_cons, ih, unregister_byId, List.filter_filter]
    refine List.filter_congr (fun a _ => ?_)
    by_cases h1 : a = x.id <;> by_cases h2 : a ∈ ns.map T.id <;> simp [h1, h2]

theorem mem_unregisterAll_byId {t : Tree} {ns : List T} {n : NodeId} :
    n ∈ (t.unregisterAll ns).byId ↔ n ∈ t.byId ∧ n ∉ ns.map T.id := by
  rw [unregisterAll_byId, List.mem_filter]; simp

/-- membership after `unregisterAll`: exactly the pairs `(y.did, y.id)`, `y ∈ ns`, disappear. -/
theorem listed_unregisterAll {t : Tree} {ns : List T} {d : DataId} {n : NodeId} :
    Listed (t.unregisterAll ns).byData d n ↔ Listed t.byData d n ∧ ∀ y ∈ ns, ¬ (d = y.did ∧ n = y.id) := by
  induction ns generalizing t with
  | nil => simp
  | cons x ns ih =>
    rw [unregisterAll_cons, ih, listed_unregister]
    simp only [List.mem_cons, forall_eq_or_imp, and_assoc]

theorem unregisterAll_ok {t : Tree} {ns : List T} (h : IndexOK t.byData) :
    IndexOK (t.unregisterAll ns).byData := by
  induction ns generalizing t with
  | nil => exact h
  | cons x ns ih => rw [unregisterAll_cons]; exact ih (unregister_ok h)

/-! ### `RegistryExact`, `byId` -/

/-- filtering both sides of `RegistryExact`. -/
theorem perm_filter_not_mem {a b : List NodeId} (h : a.Perm b) (c : List NodeId) :
    (a.filter (fun x => decide (x ∉ c))).Perm (b.filter (fun x => decide (x ∉ c))) := h.filter _


/-! ### transport along a permutation of the node records

When an operation only rearranges the tree (move, sort) the registries stay as they are and the
multiset of records below the root is unchanged; these lemmas transport the invariants. -/

/-- reachable nodes (below the system root) in terms of records. -/
theorem exists_node_iff_infosL {ks : List T} {n : NodeId} {d : DataId} :
    (∃ x ∈ flatL ks, x.id = n ∧ x.did = d) ↔ ∃ j ∈ infosL ks, j.id = n ∧ j.did = d := by
  unfold infosL
  constructor
  · rintro ⟨x, hx, h1, h2⟩; exact ⟨x.info, List.mem_map_of_mem hx, h1, h2⟩
  · rintro ⟨j, hj, h1, h2⟩
    obtain ⟨x, hx, rfl⟩ := List.mem_map.1 hj
    exact ⟨x, hx, h1, h2⟩

theorem IdsNodup.of_infos_perm {t t' : Tree} (h : IdsNodup t) (hp : (infos t'.root).Perm (infos t.root)) :
    IdsNodup t' := by
  unfold IdsNodup at h ⊢
  rw [ids_eq_infos] at h ⊢
  exact (hp.map Info.id).nodup_iff.2 h

theorem RegistryExact.of_infos_perm {t t' : Tree} (h : RegistryExact t) (hi : t'.byId = t.byId)
    (hp : (infosL t'.root.kids).Perm (infosL t.root.kids)) : RegistryExact t' := by
  unfold RegistryExact at h ⊢
  rw [hi]
  have := hp.map Info.id
  rw [← idsL_eq_infosL, ← idsL_eq_infosL] at this
  exact h.trans this.symm

theorem IndexExact.of_infos_perm {t t' : Tree} (h : IndexExact t) (hd : t'.byData = t.byData)
    (hp : (infosL t'.root.kids).Perm (infosL t.root.kids)) : IndexExact t' := by
  refine IndexExact.of_listed (by rw [hd]; exact h.ok) (fun d n => ?_)
  rw [hd, h.listed, exists_node_iff_infosL, exists_node_iff_infosL]
  exact ⟨fun ⟨j, hj, hh⟩ => ⟨j, hp.mem_iff.2 hj, hh⟩, fun ⟨j, hj, hh⟩ => ⟨j, hp.mem_iff.1 hj, hh⟩⟩

/-- **Rearrangements.**  If the registries are untouched, the root keeps its identity, the records
below the root are permuted and sibling uniqueness holds in the new tree, the state stays well-formed. -/
theorem WF.of_infos_perm {t t' : Tree} (h : WF t) (hid : t'.root.id = t.root.id)
    (hi : t'.byId = t.byId) (hd : t'.byData = t.byData)
    (hp : (infosL t'.root.kids).Perm (infosL t.root.kids)) (hs : SibUnique t') : WF t' := by
  refine ⟨hid.trans h.rootId, ?_, h.registry.of_infos_perm hi hp, h.index.of_infos_perm hd hp, hs⟩
  unfold IdsNodup
  rw [ids_eq, hid]
  have hk := hp.map Info.id
  rw [← idsL_eq_infosL, ← idsL_eq_infosL] at hk
  have h0 := h.ids
  unfold IdsNodup at h0
  rw [ids_eq] at h0
  exact ((hk.cons _).nodup_iff).2 h0

end Nutree
