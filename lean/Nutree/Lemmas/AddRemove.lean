/-
  Nutree.Lemmas.AddRemove — "remove undoes add": appending a fresh leaf and removing it again gives back the child
  lists and both registries exactly as they were.

  * `modT_congr_ar`, `modT_id_ar`: edits that agree on the children of the edited node are the same edit.
  * `delEntry_addEntry`: the `byData` update of `unregister` undoes the one of `register` for a node that was not listed.
  * `removeOne_appended_leaf`: the law, for the state that `addData` produces.
-/
import Nutree.Lemmas.WFAdd
import Nutree.Lemmas.EffectInsert
import Nutree.Properties.C01
namespace Nutree
open T C10

/-- two edits of node `p` that agree on the children of every node with identity `p` are the same. -/
theorem modT_congr_ar (p : NodeId) (g1 g2 : List T → List T) (r : T)
    (h : ∀ x ∈ flat r, x.id = p → g1 x.kids = g2 x.kids) : modT p g1 r = modT p g2 r := by
  induction r using T.ind with
  | node i ks ih =>
    by_cases hid : i.id = p
    · rw [modT_node, if_pos hid, modT_node, if_pos hid]
      have := h (T.node i ks) (by rw [flat_node]; simp) hid
      rw [T.kids_node] at this
      rw [this]
    · rw [modT_node, if_neg hid, modT_node, if_neg hid]
      congr 1
      refine List.map_congr_left (fun c hc => ih c hc ?_)
      intro x hx hxp
      exact h x (by rw [flat_node]; exact List.mem_cons_of_mem _ (mem_flatL.2 ⟨c, hc, hx⟩)) hxp

/-- two edits of the same node compose (own copy: the lemma files of other properties have theirs). -/
theorem modT_modT_same_ar (p : NodeId) (g1 g2 : List T → List T) (r : T) :
    modT p g2 (modT p g1 r) = modT p (fun l => g2 (g1 l)) r := by
  induction r using T.ind with
  | node i ks ih =>
    by_cases hid : i.id = p
    · rw [modT_node, if_pos hid, modT_node, if_pos hid, modT_node, if_pos hid]
    · rw [modT_node, if_neg hid, modT_node, if_neg hid, modT_node, if_neg hid, List.map_map]
      congr 1
      exact List.map_congr_left (fun c hc => ih c hc)

theorem modT_id_ar (p : NodeId) (r : T) : modT p (fun l => l) r = r := by
  induction r using T.ind with
  | node i ks ih =>
    rw [modT_node]
    split
    · rfl
    · congr 1
      exact (List.map_congr_left ih).trans (List.map_id' ks)

/-- erasing a leaf that was appended to a list without that identity gives the list back. -/
theorem eraseId_append_fresh (nx : NodeId) (l : List T) (x : T) (hx : x.id = nx) (hl : ∀ k ∈ l, k.id ≠ nx) :
    eraseId nx (l ++ [x]) = l := by
  unfold eraseId
  rw [List.filter_append]
  have h1 : l.filter (fun n => n.id != nx) = l := by
    apply List.filter_eq_self.2
    intro k hk
    simpa using hl k hk
  have h2 : [x].filter (fun n => n.id != nx) = [] := by
    simp [hx]
  rw [h1, h2, List.append_nil]

/-- `unregister`'s update of `byData` undoes `register`'s, for a node that no entry lists. -/
theorem delEntry_addEntry (bd : ByData) (did : DataId) (nid : NodeId) (hok : IndexOK bd)
    (hn : ∀ e ∈ bd, nid ∉ e.2) : delEntry (addEntry bd did nid) did nid = bd := by
  unfold delEntry addEntry
  cases hl : bd.lookup did with
  | none =>
    have hk : did ∉ bd.map (·.1) := lookup_eq_none.1 hl
    simp only []
    rw [List.map_append, List.filter_append]
    have h1 : (bd.map fun e => if e.1 = did then (e.1, e.2.filter (· != nid)) else e) = bd := by
      have : ∀ e ∈ bd, (if e.1 = did then (e.1, e.2.filter (· != nid)) else e) = e := by
        intro e he
        have : e.1 ≠ did := fun h => hk (by rw [← h]; exact List.mem_map_of_mem he)
        rw [if_neg this]
      exact (List.map_congr_left this).trans (List.map_id' bd)
    rw [h1]
    have h2 : bd.filter (fun e => !e.2.isEmpty) = bd := by
      apply List.filter_eq_self.2
      intro e he
      have := hok.noEmpty e he
      cases h : e.2 with
      | nil => exact absurd h this
      | cons a as => simp
    rw [h2]
    simp
  | some clones =>
    simp only []
    rw [List.map_map]
    have h1 : ∀ e ∈ bd, ((fun e : DataId × List NodeId => if e.1 = did then (e.1, e.2.filter (· != nid)) else e) ∘
        (fun e => if e.1 = did then (e.1, e.2 ++ [nid]) else e)) e = e := by
      intro e he
      simp only [Function.comp]
      by_cases hd : e.1 = did
      · rw [if_pos hd]
        simp only [if_pos hd]
        rw [List.filter_append]
        have ha : e.2.filter (· != nid) = e.2 := by
          apply List.filter_eq_self.2
          intro a ha
          have : a ≠ nid := fun h => hn e he (h ▸ ha)
          simpa using this
        rw [ha]
        simp
      · rw [if_neg hd, if_neg hd]
    rw [(List.map_congr_left h1).trans (List.map_id' bd)]
    apply List.filter_eq_self.2
    intro e he
    have := hok.noEmpty e he
    cases h : e.2 with
    | nil => exact absurd h this
    | cons a as => simp

end Nutree

namespace Nutree
open T C10

/-- **remove undoes add.**  In a well-formed state, adding a new leaf (any `before`, any parent, any id rule) and removing it
again gives back the child lists and both registries exactly as they were. -/
theorem removeOne_added_leaf (t t' : Tree) (next parent : NodeId) (a : Atom) (before : Before)
    (did? : Option DataId) (kind : Option String)
    (h : WF t) (hf : C01.Fresh t next) (hr : t.addData next parent a before did? kind = .ok t') :
    (t'.removeOne next).root = t.root ∧ (t'.removeOne next).byId = t.byId ∧
    (t'.removeOne next).byData = t.byData ∧ (t'.removeOne next).typed = t.typed ∧ (t'.removeOne next).hook = t.hook := by
  have hwf' := (C01.addData_WF t t' next parent a before did? kind h hf hr).1
  obtain ⟨p, ins, did, t1, hp, hins, _, hreg, rfl⟩ := addData_ok hr
  have hroot1 : t1.root = t.root := register_root hreg
  have hnone : t.childrenNone parent p = true → p.kids = [] := by
    intro hn
    unfold Tree.childrenNone at hn
    simpa using (Bool.and_eq_true_iff.1 hn).1
  have hinsP : ins p.kids (newNode t next a did kind) =
      p.kids.take (insertPos p.kids before) ++ newNode t next a did kind :: p.kids.drop (insertPos p.kids before) :=
    eff_insertPosition hins hnone _
  -- the ids of the old tree are below `next`
  have hfresh : ∀ x ∈ flat t.root, x.id ≠ next := fun x hx e => by
    have := hf.2 x hx; rw [e] at this; exact Nat.lt_irrefl _ this
  have hpmem : p ∈ flat t.root := (findT_some hp).1
  have hpid : p.id = parent := findT_some_id hp
  have hkids : ∀ k ∈ p.kids, k.id ≠ next := by
    intro k hk
    refine hfresh k ?_
    have : k ∈ flat p := by
      cases p with
      | node i ks => rw [flat_node]; exact List.mem_cons_of_mem _ (mem_flatL.2 ⟨k, hk, by cases k; rw [flat_node]; simp⟩)
    exact mem_flat_trans this hpmem
  have hnnid : (newNode t next a did kind).id = next := rfl
  have hnnk : (newNode t next a did kind).kids = [] := rfl
  -- the new root
  have hroot' : ({ t1 with root := modT parent (fun l => ins l (newNode t next a did kind)) t1.root } : Tree).root = modT parent (fun l => ins l (newNode t next a did kind)) t.root := by
    show modT parent (fun l => ins l (newNode t next a did kind)) t1.root = _
    rw [hroot1]
  have hN' : C10.IdsNodup (modT parent (fun l => ins l (newNode t next a did kind)) t.root) := by
    have := hwf'.ids
    unfold Nutree.IdsNodup at this
    rw [hroot'] at this
    exact this
  -- the new leaf and its parent are found
  have hfindP : findT parent (modT parent (fun l => ins l (newNode t next a did kind)) t.root) = some (.node p.info (ins p.kids (newNode t next a did kind))) :=
    findT_modT_self_of hp
  have hnnmem : (newNode t next a did kind) ∈ flat (modT parent (fun l => ins l (newNode t next a did kind)) t.root) := by
    refine mem_flat_modT_new hp ?_
    rw [hinsP]
    exact mem_flatL.2 ⟨(newNode t next a did kind), by simp, by unfold newNode; rw [flat_node]; simp⟩
  have hfindN : findT next (modT parent (fun l => ins l (newNode t next a did kind)) t.root) = some (newNode t next a did kind) :=
    (findT_eq_some_iff hN').2 ⟨hnnmem, hnnid⟩
  have hpar : findParent next (modT parent (fun l => ins l (newNode t next a did kind)) t.root) = some (.node p.info (ins p.kids (newNode t next a did kind))) := by
    refine (findParent_eq_some_iff hN').2 ⟨(findT_some hfindP).1, (newNode t next a did kind), ?_, hnnid⟩
    rw [T.kids_node, hinsP]; simp
  -- edits
  have hclear : modT next (fun _ => ([] : List T)) (modT parent (fun l => ins l (newNode t next a did kind)) t.root) = modT parent (fun l => ins l (newNode t next a did kind)) t.root := by
    rw [modT_congr_ar next (fun _ => []) (fun l => l) _ ?_, modT_id_ar]
    intro x hx hxid
    have : findT next (modT parent (fun l => ins l (newNode t next a did kind)) t.root) = some x := (findT_eq_some_iff hN').2 ⟨hx, hxid⟩
    rw [hfindN] at this
    cases this
    exact hnnk.symm
  have hback : modT parent (eraseId next) (modT parent (fun l => ins l (newNode t next a did kind)) t.root) = t.root := by
    rw [modT_modT_same_ar, modT_congr_ar parent _ (fun l => l) _ ?_, modT_id_ar]
    intro x hx hxid
    have hx' : findT parent t.root = some x := (findT_eq_some_iff h.ids).2 ⟨hx, hxid⟩
    rw [hp] at hx'
    cases hx'
    show eraseId next (ins p.kids (newNode t next a did kind)) = p.kids
    rw [hinsP]
    unfold eraseId
    rw [List.filter_append, List.filter_cons]
    have e1 : (p.kids.take (insertPos p.kids before)).filter (fun n => n.id != next) = p.kids.take (insertPos p.kids before) := by
      apply List.filter_eq_self.2
      intro k hk
      simpa using hkids k (List.mem_of_mem_take hk)
    have e2 : (p.kids.drop (insertPos p.kids before)).filter (fun n => n.id != next) = p.kids.drop (insertPos p.kids before) := by
      apply List.filter_eq_self.2
      intro k hk
      simpa using hkids k (List.mem_of_mem_drop hk)
    rw [e1, e2]
    simp [hnnid]
  -- registries
  have hbyId1 : t1.byId = t.byId ++ [next] := register_byId hreg
  have hbyData1 : t1.byData = addEntry t.byData did next := register_byData hreg
  have hnotin : next ∉ t.byId := by
    intro hm
    have := (h.registry.mem_iff).1 hm
    obtain ⟨x, hx, hxid⟩ := mem_idsL.1 this
    exact hfresh x (by
      cases hroot : t.root with
      | node i ks => rw [hroot] at hx; rw [flat_node]; exact List.mem_cons_of_mem _ (by simpa using hx)) hxid
  have hlisted : ∀ e ∈ t.byData, next ∉ e.2 := by
    intro e he hm
    obtain ⟨x, hx, hxid, _⟩ := (h.index.exact e.1 next).1 ⟨e.2, by cases e; exact he, hm⟩
    exact hfresh x (by
      cases hroot : t.root with
      | node i ks => rw [hroot] at hx; rw [flat_node]; exact List.mem_cons_of_mem _ (by simpa using hx)) hxid
  -- unfold removeOne
  have hparId : ({ t1 with root := modT parent (fun l => ins l (newNode t next a did kind)) t1.root } : Tree).parentId next = some parent := by
    unfold Tree.parentId
    show (findParent next (modT parent (fun l => ins l (newNode t next a did kind)) t1.root)).map T.id = some parent
    rw [hroot1, hpar]
    show some p.info.id = some parent
    have : p.info.id = p.id := rfl
    rw [this, hpid]
  unfold Tree.removeOne
  have hf1 : findT next ({ t1 with root := modT parent (fun l => ins l (newNode t next a did kind)) t1.root } : Tree).root = some (newNode t next a did kind) := by
    show findT next (modT parent (fun l => ins l (newNode t next a did kind)) t1.root) = some (newNode t next a did kind)
    rw [hroot1]; exact hfindN
  rw [hf1, hparId]
  simp only []
  unfold Tree.removeChildren
  rw [hf1]
  have hpost : iterPost (newNode t next a did kind) = [] := by
    unfold newNode; rw [iterPost]; rfl
  simp only [hpost, Tree.unregisterAll, List.foldl_nil]
  refine ⟨?_, ?_, ?_, ?_, ?_⟩
  · show modT parent (eraseId next) (modT next (fun _ => []) (modT parent (fun l => ins l (newNode t next a did kind)) t1.root)) = t.root
    rw [hroot1, hclear, hback]
  · show (t1.byId).filter (· != next) = t.byId
    rw [hbyId1, List.filter_append]
    have : t.byId.filter (· != next) = t.byId := by
      apply List.filter_eq_self.2
      intro k hk
      have : k ≠ next := fun e => hnotin (e ▸ hk)
      simpa using this
    rw [this]; simp
  · show delEntry t1.byData (newNode t next a did kind).did next = t.byData
    rw [hbyData1]
    exact delEntry_addEntry t.byData did next h.index.ok hlisted
  · show t1.typed = t.typed
    exact register_typed hreg
  · show t1.hook = t.hook
    exact register_hook hreg

end Nutree
