/-
  Nutree.Lemmas.WFAdd — well-formedness is preserved by inserting one registered leaf
  (`WF_insert_leaf`), the decomposition of a successful `Tree.addData` (`addData_ok`), the
  meaning of `register`'s uniqueness test in a well-formed state
  (`register_unique_iff_sibling`), and `insertPosition` inserts (`insertPosition_perm`).
-/
import Nutree.Lemmas.Registry
namespace Nutree
open T C10

/-! ### small bridges between `Tree`-level and root-level predicates -/

theorem WF.idsN {t : Tree} (h : WF t) : C10.IdsNodup t.root := h.ids

theorem mem_flatL_root_kids_of_mem_kids {root p c : T} (hp : p ∈ flat root) (hc : c ∈ p.kids) :
    c ∈ flatL root.kids := by
  rw [flat_eq, List.mem_cons] at hp
  rcases hp with rfl | hp
  · exact mem_flatL.2 ⟨c, hc, self_mem_flat c⟩
  · obtain ⟨k, hk, hpk⟩ := mem_flatL.1 hp
    exact mem_flatL.2 ⟨k, hk, mem_flat_trans (mem_flat_of_mem_kids hc) hpk⟩

/-- in a well-formed state the node ids listed in `byId` are the reachable ones. -/
theorem WF.mem_byId {t : Tree} (h : WF t) {n : NodeId} : n ∈ t.byId ↔ n ∈ idsL t.root.kids :=
  h.registry.mem_iff

theorem WF.ids_root {t : Tree} (h : WF t) : (flat t.root).map T.id = 0 :: idsL t.root.kids := by
  rw [ids_eq, h.rootId]

/-! ### `register`'s uniqueness test -/

/-- In a well-formed state `register` refuses exactly when `parent` already has a child with
data id `did`. -/
theorem register_unique_iff_sibling {t : Tree} (h : WF t) {parent nid : NodeId} {did : DataId} {p : T}
    (hp : findT parent t.root = some p) :
    t.register parent nid did = .error .unique ↔ ∃ c ∈ p.kids, c.did = did := by
  have hN := h.idsN
  obtain ⟨hpm, hpid⟩ := findT_some hp
  rw [register_unique_iff]
  constructor
  · rintro ⟨clones, hl, c, hc, hpar⟩
    obtain ⟨x, hx, hxc, hxd⟩ := (h.index.exact did c).1 ⟨clones, mem_of_lookup hl, hc⟩
    unfold Tree.parentId at hpar
    cases hq : findParent c t.root with
    | none => rw [hq] at hpar; cases hpar
    | some q =>
      rw [hq] at hpar
      have hqid : q.id = parent := by simpa using hpar
      obtain ⟨hqm, k, hk, hkc⟩ := findParent_some_mem hq
      have hqp : q = p := eq_of_id_eq hN hqm hpm (hqid.trans hpid.symm)
      subst hqp
      have hkx : k = x := eq_of_id_eq hN (mem_flat_trans (mem_flat_of_mem_kids hk) hqm)
        (mem_flat_of_mem_flatL_kids hx) (hkc.trans hxc.symm)
      subst hkx
      exact ⟨k, hk, hxd⟩
  · rintro ⟨c, hc, hcd⟩
    obtain ⟨l, hl, hcl⟩ := (h.index.exact did c.id).2
      ⟨c, mem_flatL_root_kids_of_mem_kids hpm hc, rfl, hcd⟩
    refine ⟨l, lookup_of_mem h.index.keys hl, c.id, hcl, ?_⟩
    unfold Tree.parentId
    rw [findParent_of_mem_kids hN hpm hc, Option.map_some, hpid]

/-! ### `insertPosition` -/

/-- every accepted `before` yields an insertion: the result is the old list plus the new element. -/
theorem insertPosition_perm {ks : List T} {isNone : Bool} {before : Before} {ins : List T → T → List T}
    (h : insertPosition ks isNone before = .ok ins) (l : List T) (x : T) : (ins l x).Perm (x :: l) := by
  unfold insertPosition at h
  have happ : (l ++ [x]).Perm (x :: l) := List.perm_append_singleton x l
  split at h
  · split at h
    · cases h; exact take_cons_drop_perm _ x l
    · cases h
  · cases h; exact happ
  · cases h; exact happ
  · cases h; exact List.Perm.refl _
  · split at h
    · split at h
      · cases h; exact happ
      · cases h
    · cases h; exact pyInsert_perm _ x l

/-! ### decomposition of `addData` -/

/-- the node created by `addData`. -/
def newNode (t : Tree) (next : NodeId) (a : Atom) (did : DataId) (kind : Option String) : T :=
  T.node { id := next, data := a, did := did, kind := if t.typed then some (kind.getD "child") else none } []

/-- what a successful `addData` did. -/
theorem addData_ok {t t' : Tree} {next parent : NodeId} {a : Atom} {before : Before}
    {did? : Option DataId} {kind : Option String}
    (hr : t.addData next parent a before did? kind = .ok t') :
    ∃ p ins did t1, findT parent t.root = some p ∧
      insertPosition p.kids (t.childrenNone parent p) before = .ok ins ∧
      (did? = some did ∨ (did? = none ∧ t.calcId a = .ok did)) ∧
      t.register parent next did = .ok t1 ∧
      t' = { t1 with root := modT parent (fun l => ins l (newNode t next a did kind)) t1.root } := by
  unfold Tree.addData at hr
  split at hr
  · cases hr
  · rename_i p hp
    split at hr
    · cases hr
    · rename_i ins hins
      split at hr
      · cases hr
      · rename_i did hdid
        split at hr
        · cases hr
        · rename_i t1 hreg
          refine ⟨p, ins, did, t1, hp, hins, ?_, hreg, ?_⟩
          · cases did? with
            | some d => left; simp at hdid; rw [hdid]
            | none => right; exact ⟨rfl, hdid⟩
          · cases hr; rfl

/-! ### inserting one registered leaf -/

/-- **Inserting a registered leaf keeps the state well-formed.**  The new leaf has record `i`
with an identity new to the tree, it is put (anywhere) into the child list of the node `p` with
identity `parent`, no child of `p` carries the same data id, and both registries are updated. -/
theorem WF_insert_leaf {t : Tree} {parent : NodeId} {p : T} {i : Info} {g : List T → List T}
    (h : WF t) (hp : findT parent t.root = some p)
    (hid : i.id ∉ (flat t.root).map T.id)
    (hg : (g p.kids).Perm (T.node i [] :: p.kids))
    (hsib : ∀ c ∈ p.kids, c.did ≠ i.did) :
    WF { t with root := modT parent g t.root, byId := t.byId ++ [i.id],
                byData := addEntry t.byData i.did i.id } := by
  have hN := h.idsN
  obtain ⟨hpm, hpid⟩ := findT_some hp
  have hflat : (flatL (g p.kids)).Perm (T.node i [] :: flatL p.kids) := by
    have := flatL_perm hg
    rwa [flatL_cons, flat_node, flatL_nil, List.cons_append, List.nil_append] at this
  have hG : (idsL (g p.kids)).Perm (i.id :: idsL p.kids) := hflat.map T.id
  have hGi : (infosL (g p.kids)).Perm (i :: infosL p.kids) := hflat.map T.info
  have hnotK : i.id ∉ idsL p.kids := fun hm => hid (idsL_kids_subset hpm hm)
  have hKN : (idsL p.kids).Nodup := idsNodupL_kids (idsNodup_of_mem_flat hN hpm)
  refine ⟨?_, ?_, ?_, ?_, ?_⟩
  · -- rootId
    show (modT parent g t.root).id = 0
    rw [modT_id]; exact h.rootId
  · -- ids
    show C10.IdsNodup (modT parent g t.root)
    refine modT_idsNodup hN hp ?_ ?_
    · rw [hG.nodup_iff, List.nodup_cons]; exact ⟨hnotK, hKN⟩
    · intro a ha
      rcases List.mem_cons.1 (hG.mem_iff.1 ha) with rfl | ha
      · exact Or.inr hid
      · exact Or.inl ha
  · -- registry
    show (t.byId ++ [i.id]).Perm (idsL (modT parent g t.root).kids)
    have h1 : (idsL (modT parent g t.root).kids ++ []).Perm ([i.id] ++ idsL t.root.kids) :=
      modT_kids_ids_perm_of hN hp (X := [i.id]) (Y := []) (by simpa using hG)
    rw [List.append_nil] at h1
    exact (List.perm_append_comm.trans (h.registry.cons i.id)).trans h1.symm
  · -- index
    have hinf : (infosL (modT parent g t.root).kids ++ []).Perm ([i] ++ infosL t.root.kids) :=
      modT_kids_infos_perm_of hN hp (X := [i]) (Y := []) (by simpa using hGi)
    rw [List.append_nil] at hinf
    have hnl : ¬ Listed t.byData i.did i.id := by
      intro hl
      obtain ⟨x, hx, hxi, _⟩ := (h.index.exact _ _).1 hl
      exact hid (mem_ids.2 ⟨x, mem_flat_of_mem_flatL_kids hx, hxi⟩)
    refine IndexExact.of_listed (addEntry_ok h.index.ok hnl) ?_
    intro d n
    show Listed (addEntry t.byData i.did i.id) d n ↔ ∃ x ∈ flatL (modT parent g t.root).kids, x.id = n ∧ x.did = d
    rw [listed_addEntry, h.index.listed, exists_node_iff_infosL, exists_node_iff_infosL]
    constructor
    · rintro (⟨j, hj, h1, h2⟩ | ⟨rfl, rfl⟩)
      · exact ⟨j, hinf.mem_iff.2 (List.mem_cons_of_mem _ hj), h1, h2⟩
      · exact ⟨i, hinf.mem_iff.2 (by simp), rfl, rfl⟩
    · rintro ⟨j, hj, h1, h2⟩
      rcases List.mem_cons.1 (hinf.mem_iff.1 hj) with rfl | hj
      · exact Or.inr ⟨h2.symm, h1.symm⟩
      · exact Or.inl ⟨j, hj, h1, h2⟩
  · -- sib
    intro y hy
    change y ∈ flat (modT parent g t.root) at hy
    rcases mem_flat_modT_of hN hp hy with ⟨z, hz, rfl⟩ | hy
    · by_cases hzp : z.id = parent
      · have : z = p := eq_of_id_eq hN hz hpm (hzp.trans hpid.symm)
        subst this
        rw [modT_kids, if_pos hzp, (hg.map T.did).nodup_iff, List.map_cons, List.nodup_cons]
        refine ⟨?_, h.sib z hz⟩
        intro hm
        obtain ⟨c, hc, hcd⟩ := List.mem_map.1 hm
        exact hsib c hc hcd
      · rw [modT_kids_map_did hzp]; exact h.sib z hz
    · rcases List.mem_cons.1 (hflat.mem_iff.1 hy) with rfl | hy
      · simp
      · exact h.sib y (mem_flat_of_mem_flatL_kids_of_mem hy hpm)

/-- identities after inserting one leaf: the old ones or the new one (no distinctness needed). -/
theorem mem_ids_insert_leaf {root : T} {parent : NodeId} {n : T} {g : List T → List T}
    (hg : ∀ ks, (g ks).Perm (n :: ks)) (hn : n.kids = []) {a : NodeId}
    (ha : a ∈ (flat (modT parent g root)).map T.id) : a ∈ (flat root).map T.id ∨ a = n.id := by
  rcases mem_ids_modT ha with h | ⟨q, hq, _, haq⟩
  · exact Or.inl h
  · have := ((flatL_perm (hg q.kids)).map T.id).mem_iff.1 haq
    rw [flatL_cons, List.map_append, List.mem_append, flat_eq, hn, flatL_nil] at this
    rcases this with h | h
    · right; simpa using h
    · exact Or.inl (idsL_kids_subset hq h)

end Nutree
