/-
  Nutree.Lemmas.DiffSpec — the matched-pairs traversal `Matched` and the level-wise
  specification `Local` of the result of `compare`; `Local` holds at every matched level of the
  raw result (`spec_cmpNode`).
-/
import Nutree.Lemmas.DiffRaw
import Nutree.Lemmas.DiffSim
namespace Nutree
open T C10
namespace Diff

/-! ## 1. vocabulary -/

/-- the matched-pairs traversal: from the top level `(k0, k1, r)` (children of `p0`, of `p1`, of
the result node) go down below a `p0` child at index `j` that has an `==` peer in `k1`; the result
node for it is the `j`-th child of the result. -/
inductive Matched : (k0 k1 r : List T) → (a b c : List T) → Prop
  | here (k0 k1 r : List T) : Matched k0 k1 r k0 k1 r
  | down {k0 k1 r a b c : List T} {j i1 : Nat} {c0 c1 c2 : T} :
      k0[j]? = some c0 → findChild k1 c0 = some (i1, c1) → r[j]? = some c2 →
      Matched c0.kids c1.kids c2.kids a b c → Matched k0 k1 r a b c

/-- the order mark `"(i0, i1)"`, present iff `ordered` and the indices differ. -/
def orderMark (ordered : Bool) (i0 i1 : Nat) : Option String :=
  if ordered && i0 != i1 then some (DC.order i0 i1).str else none

/-- some child of `k0` has its peer at another index in `k1`. -/
def Renumbered (k0 k1 : List T) : Prop :=
  ∃ j c0 i1 c1, k0[j]? = some c0 ∧ findChild k1 c0 = some (i1, c1) ∧ j ≠ i1

/-- the marks of the result node `c2` made for the `p0` child `c0` at index `j`. -/
def SrcMark (ordered : Bool) (k1 : List T) (j : Nat) (c0 c2 : T) : Prop :=
  match findChild k1 c0 with
  | none => isRemoved c2 = true ∧ c2.kids = [] ∧ hasRen c2 = false
  | some (i1, c1) => dcOf c2 = orderMark ordered j i1 ∧
      (hasRen c2 = true ↔ ordered = true ∧ Renumbered c0.kids c1.kids)

/-- a copy: same payload, unmarked or marked ADDED / MOVED_HERE, no `dc_renumbered`. -/
def CopyQ (i j : Info) : Prop :=
  j.data = i.data ∧ j.did = i.did ∧
    (dcI j = none ∨ dcI j = some "ADDED" ∨ dcI j = some "MOVED_HERE") ∧ renI j = false

theorem CopyQ.notRemoved {i j : Info} (h : CopyQ i j) : isRemovedS (dcI j) = false := by
  rcases h.2.2.1 with h | h | h <;> rw [h] <;> decide

/-- the specification of one level: the children `r` of a result node built from the children
`k0` of `p0` and `k1` of `p1`. -/
structure Local (ordered : Bool) (k0 k1 r : List T) : Prop where
  len : r.length = k0.length + (addedSrc k0 k1).length
  src : ∀ j c0, k0[j]? = some c0 → ∃ c2, r[j]? = some c2 ∧ c2.data = c0.data ∧ c2.did = c0.did ∧
      SrcMark ordered k1 j c0 c2
  add : ∀ j c1, (addedSrc k0 k1)[j]? = some c1 → ∃ c2, r[k0.length + j]? = some c2 ∧
      c2.data = c1.data ∧ c2.did = c1.did ∧ isAdded c2 = true ∧ hasRen c2 = false ∧
      SimL CopyQ c1.kids c2.kids

/-- `Local` holds at every matched level. -/
def Spec (ordered : Bool) (k0 k1 r : List T) : Prop :=
  ∀ a b c, Matched k0 k1 r a b c → Local ordered a b c

theorem Spec.here {ordered : Bool} {k0 k1 r : List T} (h : Spec ordered k0 k1 r) : Local ordered k0 k1 r :=
  h _ _ _ (.here _ _ _)

theorem Spec.down {ordered : Bool} {k0 k1 r : List T} (h : Spec ordered k0 k1 r) {j i1 : Nat}
    {c0 c1 c2 : T} (h0 : k0[j]? = some c0) (hf : findChild k1 c0 = some (i1, c1))
    (h2 : r[j]? = some c2) : Spec ordered c0.kids c1.kids c2.kids :=
  fun _ _ _ hm => h _ _ _ (.down h0 hf h2 hm)

/-! ## 2. one level of the raw result -/

theorem mk_eq_node (id : NodeId) (src : T) (dc : Option DC) (r : Bool) (ks : List T) :
    mk id src dc r ks = .node (mk id src dc r ks).info ks := rfl

theorem dcI_mk (id : NodeId) (src : T) (dc : Option DC) (r : Bool) (ks : List T) :
    dcI (mk id src dc r ks).info = dc.map DC.str := mk_dcOf id src dc r ks

theorem renI_mk (id : NodeId) (src : T) (dc : Option DC) (r : Bool) (ks : List T) :
    renI (mk id src dc r ks).info = r := mk_hasRen id src dc r ks

theorem copyKidsL_sim : ∀ (l : List T) (m : Option DC) (next : NodeId),
    (m = none ∨ m = some .added) → SimL CopyQ l (copyKidsL m l next).1 := by
  intro l
  induction l using indList with
  | nil => intro m next _; rw [copyKidsL_nil]; simp [SimL]
  | cons i ks rest ihk ihr =>
    intro m next hm
    rw [copyKidsL_cons]
    simp only []
    rw [mk_eq_node, simL_cons_cons]
    refine ⟨⟨rfl, rfl, ?_, renI_mk ..⟩, ihk none _ (Or.inl rfl), ihr m _ hm⟩
    rw [dcI_mk]
    rcases hm with rfl | rfl
    · exact Or.inl rfl
    · exact Or.inr (Or.inl rfl)

theorem cmpL_length : ∀ (p0 : List T) (ordered : Bool) (p1 : List T) (i0 : Nat) (next : NodeId),
    (cmpL ordered p1 i0 p0 next).1.length = p0.length := by
  intro p0
  induction p0 with
  | nil => intro o p1 i0 next; rw [cmpL_nil]
  | cons t rest ih =>
    intro o p1 i0 next
    cases t with
    | node i ks => rw [cmpL_cons]; simp only [List.length_cons, ih]

theorem addL_length : ∀ (l : List T) (next : NodeId), (addL l next).1.length = l.length := by
  intro l
  induction l with
  | nil => intro next; rw [addL_nil]
  | cons t rest ih =>
    intro next
    cases t with
    | node i ks => rw [addL_cons]; simp only [List.length_cons, ih]

/-- the `j`-th result child of the first loop. -/
theorem cmpL_get : ∀ (p0 : List T) (ordered : Bool) (p1 : List T) (i0 : Nat) (next : NodeId) (j : Nat)
    (c0 : T), p0[j]? = some c0 → ∃ n', (cmpL ordered p1 i0 p0 next).1[j]? =
      some (mk n' c0 (dcFor ordered (i0 + j) (findChild p1 c0))
        (subFor ordered c0.kids n' (findChild p1 c0)).2.2
        (subFor ordered c0.kids n' (findChild p1 c0)).1) := by
  intro p0
  induction p0 with
  | nil => intro o p1 i0 next j c0 h; simp at h
  | cons t rest ih =>
    intro o p1 i0 next j c0 h
    cases t with
    | node i ks =>
      rw [cmpL_cons]
      cases j with
      | zero =>
        simp only [List.getElem?_cons_zero, Option.some.injEq] at h
        subst h
        exact ⟨next, by simp⟩
      | succ j =>
        simp only [List.getElem?_cons_succ] at h ⊢
        obtain ⟨n', hn'⟩ := ih o p1 (i0 + 1) _ j c0 h
        refine ⟨n', ?_⟩
        rw [hn']
        have : i0 + 1 + j = i0 + (j + 1) := by omega
        rw [this]

/-- the `j`-th result child of the second loop. -/
theorem addL_get : ∀ (l : List T) (next : NodeId) (j : Nat) (c1 : T), l[j]? = some c1 →
    ∃ n', (addL l next).1[j]? =
      some (mk n' c1 (some .added) false (copyKidsL (some .added) c1.kids (n' + 1)).1) := by
  intro l
  induction l with
  | nil => intro next j c1 h; simp at h
  | cons t rest ih =>
    intro next j c1 h
    cases t with
    | node i ks =>
      rw [addL_cons]
      cases j with
      | zero =>
        simp only [List.getElem?_cons_zero, Option.some.injEq] at h
        subst h
        exact ⟨next, by simp⟩
      | succ j =>
        simp only [List.getElem?_cons_succ] at h ⊢
        exact ih _ j c1 h

/-- the flag returned by the first loop. -/
theorem cmpL_flag : ∀ (p0 : List T) (ordered : Bool) (p1 : List T) (i0 : Nat) (next : NodeId),
    (cmpL ordered p1 i0 p0 next).2.2 = true ↔
      ordered = true ∧ ∃ j c0 i1 c1, p0[j]? = some c0 ∧ findChild p1 c0 = some (i1, c1) ∧ i0 + j ≠ i1 := by
  intro p0
  induction p0 with
  | nil => intro o p1 i0 next; rw [cmpL_nil]; simp
  | cons t rest ih =>
    intro o p1 i0 next
    cases t with
    | node i ks =>
      rw [cmpL_cons]
      simp only [Bool.or_eq_true, ih]
      constructor
      · rintro (h | ⟨ho, j, c0, i1, c1, h1, h2, h3⟩)
        · cases hf : findChild p1 (.node i ks) with
          | none => rw [hf] at h; cases h
          | some p =>
            obtain ⟨i1, c1⟩ := p
            rw [hf] at h
            simp only [renFor, Bool.and_eq_true, bne_iff_ne, ne_eq] at h
            exact ⟨h.2, 0, .node i ks, i1, c1, rfl, hf, h.1⟩
        · exact ⟨ho, j + 1, c0, i1, c1, by simpa using h1, h2, by omega⟩
      · rintro ⟨ho, j, c0, i1, c1, h1, h2, h3⟩
        cases j with
        | zero =>
          simp only [List.getElem?_cons_zero, Option.some.injEq] at h1
          subst h1
          left
          rw [h2]
          simp only [renFor, Bool.and_eq_true, bne_iff_ne, ne_eq]
          exact ⟨h3, ho⟩
        | succ j =>
          right
          exact ⟨ho, j, c0, i1, c1, by simpa using h1, h2, by omega⟩

theorem cmpNode_flag (ordered : Bool) (p1 p0 : List T) (next : NodeId) :
    (cmpNode ordered p1 p0 next).2.2 = true ↔ ordered = true ∧ Renumbered p0 p1 := by
  rw [cmpNode_eq]
  simp only []
  rw [cmpL_flag]
  simp only [Nat.zero_add, Renumbered]

theorem dcFor_str (ordered : Bool) (j i1 : Nat) (c1 : T) :
    (dcFor ordered j (some (i1, c1))).map DC.str = orderMark ordered j i1 := by
  simp only [dcFor, orderMark]
  by_cases h : j = i1
  · simp [h]
  · cases ordered <;> simp [h]

/-- `Local` for the children built by one call of `compare`. -/
theorem local_cmpNode (ordered : Bool) (p1 p0 : List T) (next : NodeId) :
    Local ordered p0 p1 (cmpNode ordered p1 p0 next).1 := by
  rw [cmpNode_eq]
  simp only []
  have hlen := cmpL_length p0 ordered p1 0 next
  refine ⟨by rw [List.length_append, hlen, addL_length], ?_, ?_⟩
  · intro j c0 h0
    obtain ⟨n', hn'⟩ := cmpL_get p0 ordered p1 0 next j c0 h0
    have hj : j < (cmpL ordered p1 0 p0 next).1.length := by
      rw [hlen]; exact (List.getElem?_eq_some_iff.1 h0).1
    refine ⟨mk n' c0 (dcFor ordered (0 + j) (findChild p1 c0))
        (subFor ordered c0.kids n' (findChild p1 c0)).2.2
        (subFor ordered c0.kids n' (findChild p1 c0)).1,
      by rw [List.getElem?_append_left hj]; exact hn', rfl, rfl, ?_⟩
    unfold SrcMark
    rw [Nat.zero_add]
    cases hf : findChild p1 c0 with
    | none =>
      simp only [dcFor, subFor]
      refine ⟨?_, rfl, by simp⟩
      simp [isRemoved, isRemovedS, removed_str]
    | some p =>
      obtain ⟨i1, c1⟩ := p
      simp only []
      refine ⟨by rw [mk_dcOf, dcFor_str], ?_⟩
      rw [mk_hasRen]
      simp only [subFor]
      exact cmpNode_flag _ _ _ _
  · intro j c1 h1
    obtain ⟨n', hn'⟩ := addL_get _ (cmpL ordered p1 0 p0 next).2.1 j c1 h1
    refine ⟨mk n' c1 (some .added) false (copyKidsL (some .added) c1.kids (n' + 1)).1,
      ?_, rfl, rfl, ?_, by simp, ?_⟩
    · rw [List.getElem?_append_right (by omega), hlen, Nat.add_sub_cancel_left]; exact hn'
    · simp [isAdded, isAddedS, added_str]
    · rw [mk_kids]; exact copyKidsL_sim _ _ _ (Or.inr rfl)

/-! ## 3. every matched level of the raw result -/

theorem spec_cmpL : ∀ (p0 : List T) (ordered : Bool) (p1 : List T) (i0 : Nat) (next : NodeId)
    (j i1 : Nat) (c0 c1 c2 : T), p0[j]? = some c0 → findChild p1 c0 = some (i1, c1) →
    (cmpL ordered p1 i0 p0 next).1[j]? = some c2 → Spec ordered c0.kids c1.kids c2.kids := by
  intro p0
  induction p0 using indList with
  | nil => intro o p1 i0 next j i1 c0 c1 c2 h; simp at h
  | cons i ks rest ihk ihr =>
    intro o p1 i0 next j i1 c0 c1 c2 h0 hf h2
    rw [cmpL_cons] at h2
    cases j with
    | zero =>
      simp only [List.getElem?_cons_zero, Option.some.injEq] at h0 h2
      subst h0 h2
      rw [hf]
      simp only [subFor, mk_kids, kids_node]
      intro a b c hm
      generalize hr : (cmpNode o c1.kids ks (next + 1)).1 = r at hm
      cases hm with
      | here => rw [← hr]; exact local_cmpNode _ _ _ _
      | down h0' hf' h2' hm' =>
        rw [← hr, cmpNode_eq] at h2'
        simp only [] at h2'
        have hj := (List.getElem?_eq_some_iff.1 h0').1
        rw [List.getElem?_append_left (by rw [cmpL_length]; exact hj)] at h2'
        exact ihk _ _ _ _ _ _ _ _ _ h0' hf' h2' _ _ _ hm'
    | succ j =>
      simp only [List.getElem?_cons_succ] at h0 h2
      exact ihr _ _ _ _ _ _ _ _ _ h0 hf h2

/-- the raw result of `compare` satisfies the level-wise specification at every matched level. -/
theorem spec_cmpNode (ordered : Bool) (p1 p0 : List T) (next : NodeId) :
    Spec ordered p0 p1 (cmpNode ordered p1 p0 next).1 := by
  intro a b c hm
  generalize hr : (cmpNode ordered p1 p0 next).1 = r at hm
  cases hm with
  | here => rw [← hr]; exact local_cmpNode _ _ _ _
  | down h0' hf' h2' hm' =>
    rw [← hr, cmpNode_eq] at h2'
    simp only [] at h2'
    have hj := (List.getElem?_eq_some_iff.1 h0').1
    rw [List.getElem?_append_left (by rw [cmpL_length]; exact hj)] at h2'
    exact spec_cmpL _ _ _ _ _ _ _ _ _ _ h0' hf' h2' _ _ _ hm'

end Diff
end Nutree
