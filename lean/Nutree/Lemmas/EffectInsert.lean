/-
  Nutree.Lemmas.EffectInsert — where `before` puts a new child (C04), and what an edit of one
  child list (`modT`) leaves alone.
-/
import Nutree.Lemmas.WFMove
namespace Nutree
open T C10

/-- Python's resolution of a `list.insert` index against a list of length `len`: a negative index
counts from the end, out-of-range values are clamped. -/
def pyIndex (i : Int) (len : Nat) : Nat :=
  let n : Int := len
  (if i < 0 then (if n + i < 0 then 0 else n + i) else (if i > n then n else i)).toNat

/-- the position in the old child list `ks` designated by `before`: `None`/`False` → the end,
`True` → 0, an index → as `list.insert` resolves it, a node → the position of that child. -/
def insertPos (ks : List T) : Before → Nat
  | .none => ks.length
  | .bFalse => ks.length
  | .bTrue => 0
  | .idx i => pyIndex i ks.length
  | .node b => idxOf b ks

theorem eff_pyInsert_eq {α} (i : Int) (x : α) (l : List α) :
    pyInsert i x l = l.take (pyIndex i l.length) ++ x :: l.drop (pyIndex i l.length) := rfl

/-- **an accepted `before` inserts at `insertPos`**: the old children keep their order, the new
child sits at the designated position.  (`isNone` — the target's `_children` is `None` — implies
that there are no children.) -/
theorem eff_insertPosition {ks : List T} {isNone : Bool} {before : Before} {ins : List T → T → List T}
    (h : insertPosition ks isNone before = .ok ins) (hnone : isNone = true → ks = []) (c : T) :
    ins ks c = ks.take (insertPos ks before) ++ c :: ks.drop (insertPos ks before) := by
  unfold insertPosition at h
  cases before with
  | none => cases h; simp [insertPos]
  | bFalse => cases h; simp [insertPos]
  | bTrue => cases h; simp [insertPos]
  | idx i =>
    simp only at h
    split at h
    · rename_i hn
      have := hnone hn
      subst this
      split at h
      · cases h; simp
      · cases h
    · cases h; exact eff_pyInsert_eq i c ks
  | node b =>
    simp only at h
    split at h
    · cases h; rfl
    · cases h

/-- what `insertPosition` refuses: a `before` node that is not a child (ValueError), an index other
than 0/1 on a target whose `_children` is `None` (the `assert`). -/
theorem eff_insertPosition_error {ks : List T} {isNone : Bool} {before : Before} {e : Err}
    (h : insertPosition ks isNone before = .error e) :
    (∃ b, before = .node b ∧ b ∉ ks.map T.id ∧ e = .value) ∨
      (∃ i, before = .idx i ∧ isNone = true ∧ i ≠ 0 ∧ i ≠ 1 ∧ e = .assertion) := by
  unfold insertPosition at h
  cases before with
  | none => cases h
  | bFalse => cases h
  | bTrue => cases h
  | idx i =>
    simp only at h
    split at h
    · rename_i hn
      split at h
      · cases h
      · rename_i hi
        cases h
        exact Or.inr ⟨i, rfl, hn, fun e => hi (Or.inl e), fun e => hi (Or.inr e), rfl⟩
    · cases h
  | node b =>
    simp only at h
    split at h
    · cases h
    · rename_i hb
      cases h
      exact Or.inl ⟨b, rfl, fun hm => hb (any_id_eq.2 hm), rfl⟩

end Nutree
