/-
  Nutree.Lemmas.FilterIdem — filtering with a plain Boolean predicate that looks at the node only
  (not at its children) is idempotent on the specification level: `keepL w (keepL w ks) = keepL w ks`,
  and for such predicates the effective verdicts are the verdicts (`filterSpec v ks = keepL v ks`).
-/
import Nutree.Lemmas.FilterInPlace
namespace Nutree
open T C10
namespace Flt
open Spec

/-- the verdict depends on the node's record only, not on what hangs below it. -/
def InfoOnly (w : T → Verdict) : Prop := ∀ i ks ks', w (.node i ks) = w (.node i ks')

/-- a plain Boolean predicate: every answer is `True` or `False`/`None`. -/
def BoolOnly (w : T → Verdict) : Prop := ∀ n, w n = .accept ∨ w n = .reject

mutual
theorem keepT_congr {w w' : T → Verdict} : (t : T) → (∀ m ∈ flat t, w m = w' m) → keepT w t = keepT w' t
  | .node i ks => by
    intro h
    have h0 : w (.node i ks) = w' (.node i ks) := h _ (self_mem_flat _)
    have hk : keepL w ks = keepL w' ks := keepL_congr ks (fun m hm => h m (by rw [flat_node]; exact List.mem_cons_of_mem _ hm))
    rw [keepT, keepT, h0, hk]
theorem keepL_congr {w w' : T → Verdict} : (ks : List T) → (∀ m ∈ flatL ks, w m = w' m) → keepL w ks = keepL w' ks
  | [] => by intro _; simp
  | t :: ts => by
    intro h
    rw [keepL_cons, keepL_cons, keepT_congr t (fun m hm => h m (by rw [flatL_cons]; exact List.mem_append_left _ hm)),
      keepL_congr ts (fun m hm => h m (by rw [flatL_cons]; exact List.mem_append_right _ hm))]
end

mutual
theorem keepT_idem {w : T → Verdict} (hi : InfoOnly w) (hb : BoolOnly w) :
    (t : T) → ∀ t', keepT w t = some t' → keepT w t' = some t'
  | .node i ks => by
    intro t' h
    rcases hb (.node i ks) with ha | hr
    · rw [keepT_accept ha] at h
      simp only [info_node, kids_node, Option.some.injEq] at h
      subst h
      have ha' : w (.node i (keepL w ks)) = .accept := by rw [hi i _ ks]; exact ha
      rw [keepT_accept ha']
      simp only [info_node, kids_node, keepL_idem hi hb ks]
    · have hp : (w (.node i ks)).passes = true := by rw [hr]; rfl
      by_cases hk : keepL w ks = []
      · rw [keepT_pass_nil hp (by simpa using hk)] at h; cases h
      · rw [keepT_pass_cons hp (by simpa using hk)] at h
        simp only [info_node, kids_node, Option.some.injEq] at h
        subst h
        have hr' : w (.node i (keepL w ks)) = .reject := by rw [hi i _ ks]; exact hr
        have hp' : (w (.node i (keepL w ks))).passes = true := by rw [hr']; rfl
        have hk' : keepL w (T.node i (keepL w ks)).kids ≠ [] := by
          simp only [kids_node, keepL_idem hi hb ks]; exact hk
        rw [keepT_pass_cons hp' hk']
        simp only [info_node, kids_node, keepL_idem hi hb ks]
theorem keepL_idem {w : T → Verdict} (hi : InfoOnly w) (hb : BoolOnly w) :
    (ks : List T) → keepL w (keepL w ks) = keepL w ks
  | [] => by simp
  | t :: ts => by
    rw [keepL_cons]
    cases h : keepT w t with
    | none => simpa using keepL_idem hi hb ts
    | some t' =>
      simp only [Option.toList_some, List.singleton_append]
      rw [keepL_cons, keepT_idem hi hb t t' h, keepL_idem hi hb ts]
      rfl
end

/-- a Boolean predicate lets the scan visit every node … -/
theorem scan_bool {v : T → Verdict} (hb : BoolOnly v) :
    (∀ t : T, scanT v t = flat t) ∧ (∀ ks : List T, scanL v ks = flatL ks) := by
  refine ⟨T.bothT (Q := fun ks => scanL v ks = flatL ks) ?_ ?_ ?_,
          T.bothL (P := fun t => scanT v t = flat t) ?_ ?_ ?_⟩
  all_goals first
    | (intro i ks ih
       rw [scanT_eq, flat_node, kids_node]
       rcases hb (.node i ks) with h | h <;> simp [h, Verdict.descends, ih])
    | (show scanL v [] = flatL []; simp [scanL_nil])
    | (intro t ts iht ihts
       rw [scanL_cons, iht, ihts, flatL_cons])

/-- … none of which stops it: the effective verdicts are the verdicts. -/
theorem effective_bool {v : T → Verdict} (hb : BoolOnly v) {ks : List T} {m : T} (hm : m ∈ flatL ks) :
    effective v ks m = v m := by
  unfold effective scanned
  rw [(scan_bool hb).2 ks]
  have hall : (flatL ks).takeWhile (fun n => v n != .stop) = flatL ks := by
    have : ∀ l : List T, l.takeWhile (fun n => v n != .stop) = l := by
      intro l
      induction l with
      | nil => rfl
      | cons a l ih =>
        have ha : (v a != Verdict.stop) = true := by rcases hb a with h | h <;> simp [h]
        rw [List.takeWhile_cons, ha]
        simp [ih]
    exact this _
  rw [hall, if_pos]
  exact List.any_eq_true.2 ⟨m, hm, by simp⟩

theorem filterSpec_bool {v : T → Verdict} (hb : BoolOnly v) (ks : List T) : filterSpec v ks = keepL v ks :=
  keepL_congr ks (fun _ hm => effective_bool hb hm)

/-- **idempotence of the specification** for Boolean predicates that look at the node only. -/
theorem filterSpec_idem {v : T → Verdict} (hi : InfoOnly v) (hb : BoolOnly v) (ks : List T) :
    filterSpec v (filterSpec v ks) = filterSpec v ks := by
  rw [filterSpec_bool hb ks, filterSpec_bool hb, keepL_idem hi hb]

end Flt
end Nutree
