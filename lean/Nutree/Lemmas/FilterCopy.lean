/-
  Nutree.Lemmas.FilterCopy — the copying filter `_add_filtered`, preparations:
  * `nodeStep` / `addFilteredL_cons` — the loop body of `addFilteredL`, named, and its per-verdict
    forms `nodeStep_accept / _skipKeepSelf / _select`;
  * `createParents_append`, `Idem`, `materialise` — `_create_parents` on a stack whose
    materialisation is known;
  * `dupT` / `dupL` — the shape the copy builds (as `keepT`/`keepL` plus the known duplicate),
    `dup_none_iff`: it materialises a node iff the specification keeps it;
  * `nothing` — while nothing is kept, the target is not touched (only the stop flag moves).
-/
import Nutree.Lemmas.FilterCopyOps
namespace Nutree
open T C10
namespace Flt
open Spec

/-! ### the loop body, named -/

/-- the body of the loop of `_add_filtered._visit` for one node `n` (already pushed as a virtual
parent: `stack1`), before the `pop()`. -/
def nodeStep (v : T → Verdict) (n : T) (cs : CS) (stack1 : List SE) : CS × List SE :=
  match v n with
  | .skip => (cs, stack1)
  | .skipKeepSelf =>
    let (c, s, p) := createParents cs stack1 0 []
    if c.err.isSome then (c, s)
    else
      let (t1, n1, e) := c.t.addNode c.next p n false none .none none none none
      ({ c with t := t1, next := n1, err := e }, s)
  | .stop => ({ cs with stopped := true }, stack1)
  | .select =>
    let (c, s, p) := createParents cs stack1 0 []
    if c.err.isSome then (c, s)
    else
      let (t1, n1, e) := Tree.addFromL c.t c.next p n.kids
      ({ c with t := t1, next := n1, err := e }, s)
  | .reject => addFilteredT v n cs stack1
  | .accept =>
    let (c, s, p) := createParents cs stack1 0 []
    if c.err.isSome then (c, s)
    else
      let (t1, n1, e) := c.t.addNode c.next p n false none .none none none none
      if e.isSome then ({ c with t := t1, next := n1, err := e }, s)
      else addFilteredT v n { c with t := t1, next := n1 } s
  | .other => (cs, stack1)
  | .error => ({ cs with err := some .callback }, stack1)

theorem addFilteredL_nil (v : T → Verdict) (cs : CS) (stack : List SE) :
    addFilteredL v [] cs stack = (cs, stack) := by rw [addFilteredL]

theorem addFilteredL_cons (v : T → Verdict) (n : T) (ns : List T) (cs : CS) (stack : List SE) :
    addFilteredL v (n :: ns) cs stack =
      if cs.err.isSome || cs.stopped then (cs, stack)
      else addFilteredL v ns (nodeStep v n cs (stack ++ [.virtual n])).1
            (nodeStep v n cs (stack ++ [.virtual n])).2.dropLast := by
  rw [addFilteredL]; rfl

theorem addFilteredT_eq (v : T → Verdict) (n : T) (cs : CS) (stack : List SE) :
    addFilteredT v n cs stack = addFilteredL v n.kids cs stack := by
  cases n; rw [addFilteredT]; rfl

/-! ### `_create_parents` -/

theorem createParents_nil (cs : CS) (p : NodeId) (done : List SE) :
    createParents cs [] p done = (cs, done, p) := by rw [createParents]

theorem createParents_existing (cs : CS) (i : NodeId) (rest : List SE) (p : NodeId) (done : List SE) :
    createParents cs (.existing i :: rest) p done = createParents cs rest i (done ++ [.existing i]) := by
  rw [createParents]

theorem createParents_virtual_ok {cs : CS} {n : T} {rest : List SE} {p : NodeId} {done : List SE}
    {t1 : Tree} {n1 : NodeId} (he : cs.err = none)
    (ha : cs.t.addNode cs.next p n false none .none none none none = (t1, n1, none)) :
    createParents cs (.virtual n :: rest) p done =
      createParents { cs with t := t1, next := n1 } rest cs.next (done ++ [.existing cs.next]) := by
  rw [createParents]
  simp [he, ha]

/-- materialising `A ++ B` = materialising `A`, then `B` (when `A` succeeds). -/
theorem createParents_append {B : List SE} : ∀ (A : List SE) (cs : CS) (p : NodeId) (done : List SE)
    {c0 : CS} {s0 : List SE} {p0 : NodeId}, createParents cs A p done = (c0, s0, p0) → c0.err = none →
    createParents cs (A ++ B) p done = createParents c0 B p0 s0
  | [], cs, p, done, c0, s0, p0, h, _ => by
    rw [createParents_nil] at h
    cases h; rfl
  | .existing i :: A, cs, p, done, c0, s0, p0, h, he => by
    rw [createParents_existing] at h
    rw [List.cons_append, createParents_existing]
    exact createParents_append A cs i _ h he
  | .virtual n :: A, cs, p, done, c0, s0, p0, h, he => by
    rw [createParents] at h
    rw [List.cons_append, createParents]
    by_cases hce : cs.err.isSome = true
    · rw [if_pos hce] at h
      cases h
      rw [he] at hce; cases hce
    · rw [if_neg hce] at h ⊢
      rcases hadd : cs.t.addNode cs.next p n false none .none none none none with ⟨t1, n1, e⟩
      rw [hadd] at h
      cases e with
      | some e => simp only at h; cases h; cases he
      | none =>
        simp only at h ⊢
        exact createParents_append A _ _ _ h he

theorem createParents_stopped : ∀ (A : List SE) (cs : CS) (p : NodeId) (done : List SE),
    (createParents cs A p done).1.stopped = cs.stopped
  | [], cs, p, done => by rw [createParents_nil]
  | .existing i :: A, cs, p, done => by rw [createParents_existing]; exact createParents_stopped A cs i _
  | .virtual n :: A, cs, p, done => by
    rw [createParents]
    split
    · rfl
    · rcases hadd : cs.t.addNode cs.next p n false none .none none none none with ⟨t1, n1, e⟩
      cases e with
      | some e => rfl
      | none => exact createParents_stopped A _ _ _

/-- a stack of materialised parents with last identity `p0`: `_create_parents` does nothing. -/
def Idem (s0 : List SE) (p0 : NodeId) : Prop :=
  ∀ c : CS, c.err = none → createParents c s0 0 [] = (c, s0, p0)

theorem idem_root : Idem [.existing 0] 0 := by
  intro c _; rw [createParents_existing, createParents_nil]; rfl

theorem Idem.snoc {s0 : List SE} {p0 : NodeId} (h : Idem s0 p0) (i : NodeId) : Idem (s0 ++ [.existing i]) i := by
  intro c hc
  rw [createParents_append s0 c 0 [] (h c hc) hc, createParents_existing, createParents_nil]

/-- pushing one more virtual parent onto a stack whose materialisation `c0` is known, and
materialising it: one shallow copy below the last parent. -/
theorem materialise {cs c0 : CS} {stack s0 : List SE} {p0 : NodeId} {P0 : T} (n : T)
    (hc : createParents cs stack 0 [] = (c0, s0, p0)) (he : c0.err = none) (hg : Good c0.t c0.next)
    (hp : findT p0 c0.t.root = some P0) (hu : ∀ c ∈ P0.kids, c.did ≠ n.did) :
    ∃ t1, createParents cs (stack ++ [.virtual n]) 0 [] =
        ({ c0 with t := t1, next := c0.next + 1 }, s0 ++ [.existing c0.next], c0.next) ∧
      Good t1 (c0.next + 1) ∧ t1.root = modT p0 (fun l => l ++ [leafOf c0.next n]) c0.t.root ∧
      findT c0.next t1.root = some (leafOf c0.next n) := by
  obtain ⟨t1, h1, h2, h3⟩ := addNode_shallow n hg hp hu
  refine ⟨t1, ?_, h2, h3, ?_⟩
  · rw [createParents_append stack cs 0 [] hc he, createParents_virtual_ok he h1, createParents_nil]
  · have := findT_appended (X := leafOf c0.next n) hp (by rw [← h3]; exact h2.wf.idsN)
    rwa [← h3] at this

/-! ### the expected result of the copy, with the duplicates -/

mutual
/-- shape of what `_add_filtered` builds for one source node: as `keepT`, but an accepted node
(`True` / `SkipBranch(and_self=False)`) has an extra leaf copy of itself as first child. -/
def dupT (w : T → Verdict) : T → Option Sh
  | .node i ks =>
    match w (.node i ks) with
    | .accept => some (.node i.data.obj i.did none (.node i.data.obj i.did none [] :: dupL w ks))
    | .select => some (.node i.data.obj i.did none (shL ks))
    | .skipKeepSelf => some (.node i.data.obj i.did none [.node i.data.obj i.did none []])
    | .skip => none
    | _ => match dupL w ks with
      | [] => none
      | ks' => some (.node i.data.obj i.did none ks')
def dupL (w : T → Verdict) : List T → List Sh
  | [] => []
  | t :: ts => match dupT w t with
    | some s => s :: dupL w ts
    | none => dupL w ts
end

/-- shape of a shallow copy. -/
def leafSh (n : T) : Sh := .node n.data.obj n.did none []

@[simp] theorem dupL_nil (w : T → Verdict) : dupL w [] = [] := by simp [dupL]

theorem dupL_cons (w : T → Verdict) (t : T) (ts : List T) :
    dupL w (t :: ts) = (dupT w t).toList ++ dupL w ts := by
  rw [dupL]; cases dupT w t <;> rfl

theorem dupT_accept {w : T → Verdict} {n : T} (h : w n = .accept) :
    dupT w n = some (.node n.data.obj n.did none (leafSh n :: dupL w n.kids)) := by
  cases n; simp only [dupT, h]; rfl

theorem dupT_select {w : T → Verdict} {n : T} (h : w n = .select) :
    dupT w n = some (.node n.data.obj n.did none (shL n.kids)) := by
  cases n; simp only [dupT, h]; rfl

theorem dupT_skipKeepSelf {w : T → Verdict} {n : T} (h : w n = .skipKeepSelf) :
    dupT w n = some (.node n.data.obj n.did none [leafSh n]) := by
  cases n; simp only [dupT, h]; rfl

theorem dupT_skip {w : T → Verdict} {n : T} (h : w n = .skip) : dupT w n = none := by
  cases n; simp only [dupT, h]

theorem dupT_pass_nil {w : T → Verdict} {n : T} (h : (w n).passes = true) (hk : dupL w n.kids = []) :
    dupT w n = none := by
  cases n with
  | node i ks =>
    simp only [kids_node] at hk
    cases hw : w (.node i ks) <;> simp_all [dupT, Verdict.passes]

theorem dupT_pass_cons {w : T → Verdict} {n : T} (h : (w n).passes = true) (hk : dupL w n.kids ≠ []) :
    dupT w n = some (.node n.data.obj n.did none (dupL w n.kids)) := by
  cases n with
  | node i ks =>
    simp only [kids_node] at hk
    cases hl : dupL w ks with
    | nil => exact absurd hl hk
    | cons a l =>
      cases hw : w (.node i ks) <;> simp_all [dupT, Verdict.passes] <;> rfl

theorem dupT_did {w : T → Verdict} {n : T} {d : Sh} (h : dupT w n = some d) : d.did = n.did := by
  cases hw : w n with
  | accept => rw [dupT_accept hw] at h; cases h; rfl
  | select => rw [dupT_select hw] at h; cases h; rfl
  | skipKeepSelf => rw [dupT_skipKeepSelf hw] at h; cases h; rfl
  | skip => rw [dupT_skip hw] at h; cases h
  | reject | stop | other | error =>
    have hp : (w n).passes = true := by rw [hw]; rfl
    by_cases hk : dupL w n.kids = []
    · rw [dupT_pass_nil hp hk] at h; cases h
    · rw [dupT_pass_cons hp hk] at h; cases h; rfl

/-- the copy materialises a node iff the specification keeps it. -/
theorem dup_none_iff (w : T → Verdict) :
    (∀ n : T, dupT w n = none ↔ keepT w n = none) ∧ (∀ ks : List T, dupL w ks = [] ↔ keepL w ks = []) := by
  have hnode : ∀ i ks, (dupL w ks = [] ↔ keepL w ks = []) →
      (dupT w (.node i ks) = none ↔ keepT w (.node i ks) = none) := by
    intro i ks ih
    cases hw : w (.node i ks) with
    | accept => rw [dupT_accept hw, keepT_accept hw]; simp
    | select => rw [dupT_select hw, keepT_select hw]; simp
    | skipKeepSelf => rw [dupT_skipKeepSelf hw, keepT_skipKeepSelf hw]; simp
    | skip => rw [dupT_skip hw, keepT_skip hw]; simp
    | reject | stop | other | error =>
      have hp : (w (.node i ks)).passes = true := by rw [hw]; rfl
      by_cases hk : keepL w ks = []
      · rw [dupT_pass_nil hp (ih.2 hk), keepT_pass_nil hp hk]; simp
      · rw [dupT_pass_cons hp (fun h => hk (ih.1 h)), keepT_pass_cons hp hk]; simp
  have hcons : ∀ t ts, (dupT w t = none ↔ keepT w t = none) → (dupL w ts = [] ↔ keepL w ts = []) →
      (dupL w (t :: ts) = [] ↔ keepL w (t :: ts) = []) := by
    intro t ts iht ihts
    rw [dupL_cons, keepL_cons]
    cases hd : dupT w t with
    | none => rw [iht.1 hd]; simpa using ihts
    | some d =>
      cases hk : keepT w t with
      | none => rw [iht.2 hk] at hd; cases hd
      | some k => simp
  exact ⟨T.bothT (Q := fun ks => dupL w ks = [] ↔ keepL w ks = []) hnode (by simp) hcons,
         T.bothL (P := fun n => dupT w n = none ↔ keepT w n = none) hnode (by simp) hcons⟩

/-! ### nothing kept: nothing happens -/

/-- `cs` with the stop flag raised if the scan of `ks` meets a stop. -/
def CS.after (cs : CS) (v : T → Verdict) (ks : List T) : CS := { cs with stopped := cs.stopped || stopIn v ks }

theorem CS.after_of_stopped {cs : CS} (h : cs.stopped = true) (v : T → Verdict) (ks : List T) :
    cs.after v ks = cs := by
  cases cs; simp_all [CS.after]

def NothingL (v w : T → Verdict) (ks : List T) : Prop :=
  ∀ (cs : CS) (stack : List SE), IdsNodupL ks → Clean v ks → Agree v w ks cs.stopped → keepL w ks = [] →
    cs.err = none → addFilteredL v ks cs stack = (cs.after v ks, stack)

theorem nothingL_cons {v w : T → Verdict} {n : T} {ns : List T} (hn : NothingL v w n.kids)
    (hns : NothingL v w ns) : NothingL v w (n :: ns) := by
  intro cs stack hN hC hA hK he
  rw [addFilteredL_cons]
  cases hs : cs.stopped with
  | true => rw [he]; simp [CS.after_of_stopped hs]
  | false =>
    rw [he, if_neg (by simp)]
    rw [hs] at hA
    rw [keepL_cons, List.append_eq_nil_iff] at hK
    have hKn : keepT w n = none := by cases h : keepT w n <;> simp_all
    have hNs := ((idsNodupL_cons n ns).1 hN).2.1
    cases hv : v n with
    | other => exact absurd hv hC.head.1
    | error => exact absurd hv hC.head.2
    | accept =>
      have := (hA.descend hN (by rw [hv]; rfl)).1
      rw [keepT_accept (this.trans hv)] at hKn; cases hKn
    | select =>
      have := (hA.leafy hN (by rw [hv]; rfl) (by rw [hv]; simp)).1
      rw [keepT_select (this.trans hv)] at hKn; cases hKn
    | skipKeepSelf =>
      have := (hA.leafy hN (by rw [hv]; rfl) (by rw [hv]; simp)).1
      rw [keepT_skipKeepSelf (this.trans hv)] at hKn; cases hKn
    | skip =>
      obtain ⟨_, _, h3⟩ := hA.leafy hN (by rw [hv]; rfl) (by rw [hv]; simp)
      have : nodeStep v n cs (stack ++ [.virtual n]) = (cs, stack ++ [.virtual n]) := by
        simp only [nodeStep, hv]
      rw [this]; dsimp only
      rw [List.dropLast_concat, hns cs stack hNs hC.tail (by rw [hs]; exact h3) hK.2 he]
      simp [CS.after, hs, stopIn_cons_leafy (v := v) (n := n) (ns := ns) (by rw [hv]; rfl) (by rw [hv]; simp)]
    | stop =>
      have hall := hA.stop hv
      have : nodeStep v n cs (stack ++ [.virtual n]) = ({ cs with stopped := true }, stack ++ [.virtual n]) := by
        simp only [nodeStep, hv]
      rw [this]; dsimp only
      rw [List.dropLast_concat, hns { cs with stopped := true } stack hNs hC.tail
        (agree_of_all_reject fun m hm => hall m (by rw [flatL_cons]; exact List.mem_append_right _ hm)) hK.2 he]
      simp [CS.after, hs, stopIn_cons_stop (v := v) (n := n) (ns := ns) hv]
    | reject =>
      obtain ⟨h1, h2, h3⟩ := hA.descend hN (by rw [hv]; rfl)
      have hw : (w n).passes = true := by rw [h1, hv]; rfl
      have hKk : keepL w n.kids = [] := by
        by_cases h : keepL w n.kids = []
        · exact h
        · rw [keepT_pass_cons hw h] at hKn; cases hKn
      have : nodeStep v n cs (stack ++ [.virtual n]) = (cs.after v n.kids, stack ++ [.virtual n]) := by
        simp only [nodeStep, hv]
        rw [addFilteredT_eq]
        exact hn cs _ (idsNodupL_kids ((idsNodupL_cons n ns).1 hN).1) hC.kids (by rw [hs]; exact h2) hKk he
      rw [this]; dsimp only
      rw [List.dropLast_concat, hns (cs.after v n.kids) stack hNs hC.tail (by simpa [CS.after, hs] using h3) hK.2 he]
      simp [CS.after, hs, stopIn_cons_descend (v := v) (n := n) (ns := ns) (by rw [hv]; rfl)]

/-- **nothing kept in `ks`: the copy does not touch the target** (only the stop flag). -/
theorem nothing (v w : T → Verdict) (ks : List T) : NothingL v w ks :=
  T.bothL (P := fun n => NothingL v w n.kids) (Q := NothingL v w) (fun _ _ h => h)
    (by intro cs stack _ _ _ _ _; rw [addFilteredL_nil]; simp [CS.after]) (fun _ _ => nothingL_cons) ks

/-! ### the loop body per verdict -/

theorem nodeStep_accept {v : T → Verdict} {n : T} {cs c : CS} {stack1 s : List SE} {p : NodeId}
    {t1 : Tree} {n1 : NodeId} (hv : v n = .accept) (hcp : createParents cs stack1 0 [] = (c, s, p))
    (he : c.err = none) (ha : c.t.addNode c.next p n false none .none none none none = (t1, n1, none)) :
    nodeStep v n cs stack1 = addFilteredT v n { c with t := t1, next := n1 } s := by
  simp only [nodeStep, hv, hcp, he, ha]; simp

theorem nodeStep_skipKeepSelf {v : T → Verdict} {n : T} {cs c : CS} {stack1 s : List SE} {p : NodeId}
    {t1 : Tree} {n1 : NodeId} (hv : v n = .skipKeepSelf) (hcp : createParents cs stack1 0 [] = (c, s, p))
    (he : c.err = none) (ha : c.t.addNode c.next p n false none .none none none none = (t1, n1, none)) :
    nodeStep v n cs stack1 = ({ c with t := t1, next := n1, err := none }, s) := by
  simp only [nodeStep, hv, hcp, he, ha]; simp

theorem nodeStep_select {v : T → Verdict} {n : T} {cs c : CS} {stack1 s : List SE} {p : NodeId}
    {t1 : Tree} {n1 : NodeId} (hv : v n = .select) (hcp : createParents cs stack1 0 [] = (c, s, p))
    (he : c.err = none) (ha : Tree.addFromL c.t c.next p n.kids = (t1, n1, none)) :
    nodeStep v n cs stack1 = ({ c with t := t1, next := n1, err := none }, s) := by
  simp only [nodeStep, hv, hcp, he, ha]; simp

end Flt
end Nutree
